(* Proofs/C03_Stable.v — decision_stable: once an inspector is complete at a chunk boundary (a state
   left by an eat_chunk that returned normally, or the fresh state), every further chunk leaves its
   regions and private attributes untouched (only the position moves), so complete and format_match
   keep their values for EVERY continuation; finish keeps them too.  Lifted through the wrapper: a
   non-None format reported after some read is not revised by further reads nor by close(). *)
Require Import OV.Base.Bytes OV.Base.Py OV.Base.C06_WrapShape OV.Base.Insp_Struct.
Require Import OV.Gen.Insp_Consts OV.Gen.C06_Wrapper OV.Model.Insp_Engine.
Require Import OV.Model.Insp_Raw OV.Model.Insp_Qcow2 OV.Model.Insp_Qed OV.Model.Insp_Vhd OV.Model.Insp_Vdi
               OV.Model.Insp_Iso OV.Model.Insp_Gpt OV.Model.Insp_Luks OV.Model.Insp_Vhdx OV.Model.Insp_Vmdk OV.Model.Insp_All.
Require Import OV.Model.Wrap OV.Model.C03.
Require Import OV.Proofs.Insp_Engine OV.Proofs.Insp_FmtOk OV.Proofs.Insp_Static OV.Proofs.Insp_StaticQcow OV.Proofs.Insp_All.
Require Import OV.Proofs.C03_Engine OV.Proofs.C03_Total OV.Proofs.C03_Sig OV.Proofs.Wrap OV.Proofs.C06 OV.Proofs.C03_Wrap.
Open Scope N_scope.

(* ------------------------------------------------------------------ quiet states (engine level) *)
Section Quiet.
Context {X : Type}.
Variable F : fmt X.

(* post_process does nothing on this state, whatever the position and the private attributes *)
Definition quiet (s : ist X) : Prop :=
  forall p x, f_post F (set_pos (set_ext s x) p) = (set_pos (set_ext s x) p, None).

Lemma quiet_ext s x : quiet s -> quiet (set_ext s x).
Proof. intros H p x'. replace (set_ext (set_ext s x) x') with (set_ext s x') by (destruct s; reflexivity). apply H. Qed.
Lemma quiet_pos s p : quiet s -> quiet (set_pos s p).
Proof.
  intros H p' x. replace (set_pos (set_ext (set_pos s p) x) p') with (set_pos (set_ext s x) p') by (destruct s; reflexivity). apply H.
Qed.
Lemma quiet_post s p : quiet s -> f_post F (set_pos s p) = (set_pos s p, None).
Proof. intros H. specialize (H p (i_ext s)). replace (set_ext s (i_ext s)) with s in H by (destruct s; reflexivity). exact H. Qed.

(* what a format has to provide *)
Definition settles : Prop :=
  forall sa sb, wf sa -> f_post F sa = (sb, None) -> new_names (ids (i_regs sa)) (i_regs sb) = [] -> quiet sb.
Definition wf_ok : Prop :=
  (forall s s' e, wf s -> f_post F s = (s', e) -> wf s') /\
  (forall n s s' e, wf s -> f_rcomplete F n s = (s', e) -> wf s').

Lemma wf_eat s c s' e : wf_ok -> wf s -> eat_chunk F s c = (s', e) -> wf s'.
Proof.
  intros [Hp Hc]. apply (pres_eat_chunk_simple F wf).
  - intros s0 p. apply wf_pos.
  - intros s0 only c0 pos. apply wf_capture.
  - exact Hp.
  - exact Hc.
Qed.

(* the boundary invariant: a well-formed dictionary and a settled post_process *)
Definition good (s : ist X) : Prop := wf s /\ quiet s.

Theorem good_eat s c s' : settles -> ext_only F -> wf_ok -> wf s -> eat_chunk F s c = (s', None) -> good s'.
Proof.
  intros Hset Hext Hids Hlt He. split; [eapply wf_eat; eauto|].
  destruct Hids as [Hp Hc].
  assert (A1 : forall s0 : ist X, wf s0 -> i_fin s0 = false ->
                wf (set_regs (set_pos s0 (i_pos s0 + flen c)) (capture_regs [] c (i_pos s0 + flen c) (i_regs s0)))).
  { intros s0 H _.
    replace (set_regs (set_pos s0 (i_pos s0 + flen c)) (capture_regs [] c (i_pos s0 + flen c) (i_regs s0)))
      with (set_pos (set_regs s0 (capture_regs [] c (i_pos s0 + flen c) (i_regs s0))) (i_pos s0 + flen c)) by (destruct s0; reflexivity).
    apply wf_pos, wf_capture. exact H. }
  assert (A2 : forall s0 : ist X, wf s0 -> i_fin s0 = true -> wf (set_pos s0 (i_pos s0 + flen c))).
  { intros s0 H _. apply wf_pos. exact H. }
  assert (A3 : forall (s0 : ist X) only, wf s0 -> i_fin s0 = false -> wf (set_regs s0 (capture_regs only c (i_pos s0) (i_regs s0)))).
  { intros s0 only H _. apply wf_capture. exact H. }
  destruct (eat_last_post_P F c wf wf A1 A3 Hp s s' Hlt He) as (sa & s3 & names & Ha & Hpa & Hn & Hcb & _).
  destruct (callbacks_ext_only F Hext _ _ _ _ Hcb) as (x & ->). apply quiet_ext. eapply Hset; eauto.
Qed.

Lemma good_pos s p : good s -> good (set_pos s p).
Proof. intros [H1 H2]. split; [apply wf_pos | apply quiet_pos]; assumption. Qed.

(* THE STEP: a quiet, complete state without EndCaptureRegion is left as it is by any chunk *)
Theorem quiet_step s c :
  quiet s -> Insp_Engine.complete s = true -> (forall p, In p (i_regs s) -> r_end (snd p) = false) ->
  eat_chunk F s c = (set_pos s (i_pos s + flen c), if i_fin s then Some RuntimeError else None).
Proof.
  intros Hq Hc Hend. destruct (i_fin s) eqn:Hfin.
  - apply eat_finished. exact Hfin.
  - apply eat_quiescent; auto. apply quiet_post. exact Hq.
Qed.
End Quiet.

Lemma settles_no_post {X} (F : fmt X) : f_post F = no_post -> settles F.
Proof. intros H sa sb _ _ _ p x. rewrite H. reflexivity. Qed.
Lemma quiet_no_post {X} (F : fmt X) s : f_post F = no_post -> quiet F s.
Proof. intros H p x. rewrite H. reflexivity. Qed.
Lemma wf_ok_static {X} (F : fmt X) : f_post F = no_post -> f_rcomplete F = no_rcomplete -> wf_ok F.
Proof.
  intros H1 H2. split.
  - intros s s' e H Hp. rewrite H1 in Hp. inversion Hp; subst. exact H.
  - intros n s s' e H Hp. rewrite H2 in Hp. inversion Hp; subst. exact H.
Qed.
Lemma ext_only_none {X} (F : fmt X) : f_rcomplete F = no_rcomplete -> ext_only F.
Proof. intros H n s s' e Hc. rewrite H in Hc. inversion Hc; subst. exists (i_ext s'). destruct s'; reflexivity. Qed.

(* ------------------------------------------------------------------ qcow2 *)
Lemma qcow_ext_only : ext_only qcow_fmt.
Proof. intros n s s' e H. cbn [f_rcomplete qcow_fmt] in H. apply qrc_shape in H. eauto. Qed.
Lemma qcow_wf_ok : wf_ok qcow_fmt.
Proof.
  split.
  - intros s s' e H Hp. inversion Hp; subst. exact H.
  - intros n s s' e H Hc. destruct (qcow_ext_only _ _ _ _ Hc) as (x & ->). apply wf_ext. exact H.
Qed.

(* ------------------------------------------------------------------ VHDX *)
(* post_process reads and writes the region dictionary only *)
Lemma vhdx_find_meta_entry_frame g (s : ist unit) p :
  vhdx_find_meta_entry g (set_pos s p) = (set_pos (fst (vhdx_find_meta_entry g s)) p, snd (vhdx_find_meta_entry g s)).
Proof.
  unfold vhdx_find_meta_entry, get_region. cbn [set_pos i_regs].
  destruct (rget R_metadata (i_regs s)) as [m|]; [|reflexivity].
  destruct (flen (r_data m) <? VHDX_MT_MIN); [reflexivity|].
  destruct (unpack sf_vhdx_mt_hdr _); [|reflexivity].
  destruct (negb (beq _ _)); [reflexivity|].
  destruct (flen (r_data m) <? _); [reflexivity|].
  destruct (VHDX_MT_LIMIT <=? _); [reflexivity|].
  destruct (vhdx_mt_loop _ _ _) as [[[io il]|]|]; reflexivity.
Qed.

Lemma new_region_frame {X} n sp (s : ist X) p x :
  new_region n sp (set_pos (set_ext s x) p) = (set_pos (set_ext (fst (new_region n sp s)) x) p, snd (new_region n sp s)).
Proof. unfold new_region, has_region. cbn [set_pos set_ext i_regs]. destruct (rhas n (i_regs s)); reflexivity. Qed.
Lemma delete_region_frame {X} n (s : ist X) p x :
  delete_region n (set_pos (set_ext s x) p) = (set_pos (set_ext (fst (delete_region n s)) x) p, snd (delete_region n s)).
Proof. unfold delete_region, has_region. cbn [set_pos set_ext i_regs]. destruct (rhas n (i_regs s)); reflexivity. Qed.
Lemma add_check_frame {X} k (s : ist X) p x :
  add_check k (set_pos (set_ext s x) p) = (set_pos (set_ext (fst (add_check k s)) x) p, snd (add_check k s)).
Proof. unfold add_check. cbn [set_pos set_ext i_checks]. destruct (mem_cname k (i_checks s)); reflexivity. Qed.

Lemma unit_ext (s : ist unit) x : set_ext s x = s.
Proof. destruct s as [a b c d e []]. destruct x. reflexivity. Qed.

Lemma vhdx_post_frame (s : ist unit) p :
  vhdx_post (set_pos s p) = (set_pos (fst (vhdx_post s)) p, snd (vhdx_post s)).
Proof.
  unfold vhdx_post.
  change (get_region R_header (set_pos s p)) with (get_region R_header s).
  change (has_region R_metadata (set_pos s p)) with (has_region R_metadata s).
  change (has_region R_vds (set_pos s p)) with (has_region R_vds s).
  change (vhdx_find_meta_region (set_pos s p)) with (vhdx_find_meta_region s).
  destruct (get_region R_header s) as [h|]; [|reflexivity].
  destruct (rcomplete h && negb (has_region R_metadata s)).
  - destruct (vhdx_find_meta_region s) as [[sp|]|]; try reflexivity.
    pose proof (new_region_frame R_metadata sp s p tt) as Hn. rewrite !unit_ext in Hn.
    rewrite Hn. destruct (new_region R_metadata sp s); reflexivity.
  - destruct (has_region R_metadata s && negb (has_region R_vds s)); [|reflexivity].
    rewrite vhdx_find_meta_entry_frame.
    destruct (vhdx_find_meta_entry VHDX_GUID_VIRTUAL_DISK_SIZE s) as [s1 r]. cbn [fst snd].
    destruct r as [[sp|]|]; try reflexivity.
    pose proof (new_region_frame R_vds sp s1 p tt) as Hn. rewrite !unit_ext in Hn.
    rewrite Hn. destruct (new_region R_vds sp s1); reflexivity.
Qed.

Lemma vhdx_quiet_of_id (s : ist unit) : vhdx_post s = (s, None) -> quiet vhdx_fmt s.
Proof.
  intros H p x. cbn [f_post vhdx_fmt]. rewrite unit_ext, vhdx_post_frame, H. reflexivity.
Qed.

Lemma vhdx_find_meta_entry_none g (s s' : ist unit) r :
  vhdx_find_meta_entry g s = (s', r) -> (forall sp, r <> Ok (Some sp)) -> s' = s.
Proof.
  unfold vhdx_find_meta_entry, get_region. intros H Hr.
  destruct (rget R_metadata (i_regs s)) as [m|]; [|inversion H; reflexivity].
  destruct (flen (r_data m) <? VHDX_MT_MIN); [inversion H; reflexivity|].
  destruct (unpack sf_vhdx_mt_hdr _); [|inversion H; reflexivity].
  destruct (negb (beq _ _)); [inversion H; reflexivity|].
  destruct (flen (r_data m) <? _); [inversion H; reflexivity|].
  destruct (VHDX_MT_LIMIT <=? _); [inversion H; reflexivity|].
  destruct (vhdx_mt_loop _ _ _) as [[[io il]|]|]; inversion H; subst; try reflexivity.
  exfalso. eapply Hr. reflexivity.
Qed.

Lemma vhdx_settles : settles vhdx_fmt.
Proof.
  intros sa sb [Hlt Hnd] Hp Hn. apply vhdx_quiet_of_id. cbn [f_post vhdx_fmt] in Hp.
  assert (Hsame : sb = sa); [|rewrite Hsame in *; exact Hp].
  unfold vhdx_post in Hp.
  destruct (get_region R_header sa) as [h|]; [|discriminate].
  destruct (rcomplete h && negb (has_region R_metadata sa)) eqn:Hb1.
  - destruct (vhdx_find_meta_region sa) as [[sp|]|]; [|inversion Hp; reflexivity|discriminate].
    exfalso. apply andb_true_iff in Hb1. destruct Hb1 as [_ Hb1]. apply negb_true_iff in Hb1.
    exact (new_region_is_new _ _ _ _ Hlt Hb1 Hp Hn).
  - destruct (has_region R_metadata sa && negb (has_region R_vds sa)) eqn:Hb2; [|inversion Hp; reflexivity].
    destruct (vhdx_find_meta_entry VHDX_GUID_VIRTUAL_DISK_SIZE sa) as [s1 r] eqn:Hf.
    destruct r as [[sp|]|]; [| |discriminate].
    + exfalso. apply andb_true_iff in Hb2. destruct Hb2 as [_ Hb2]. apply negb_true_iff in Hb2.
      destruct (vhdx_find_meta_entry_spec _ _ _ _ Hf) as [[->|(m & Hg & ->)] _].
      * exact (new_region_is_new _ _ _ _ Hlt Hb2 Hp Hn).
      * assert (Hlt1 : ids_lt (set_regs sa (rset R_metadata (set_len m (flen (r_data m))) (i_regs sa)))).
        { eapply ids_lt_rset; eauto. }
        assert (Hh : has_region R_vds (set_regs sa (rset R_metadata (set_len m (flen (r_data m))) (i_regs sa))) = false).
        { unfold has_region, rhas in *. cbn [set_regs i_regs]. rewrite rget_rset_other by discriminate. exact Hb2. }
        apply (new_region_is_new _ _ _ _ Hlt1 Hh Hp).
        cbn [set_regs i_regs]. rewrite (rset_ids R_metadata (set_len m (flen (r_data m))) (i_regs sa) m Hg eq_refl). exact Hn.
    + inversion Hp; subst. eapply vhdx_find_meta_entry_none; [exact Hf|]. intros sp. discriminate.
Qed.

Lemma vhdx_wf_ok : wf_ok vhdx_fmt.
Proof.
  split; [|intros n s s' e H Hc; inversion Hc; subst; exact H].
  intros s s' e H Hp. cbn [f_post vhdx_fmt] in Hp. unfold vhdx_post in Hp.
  destruct (get_region R_header s) as [h|]; [|inversion Hp; subst; exact H].
  destruct (rcomplete h && negb (has_region R_metadata s)).
  - destruct (vhdx_find_meta_region s) as [[sp|]|]; try (inversion Hp; subst; exact H).
    eapply wf_new_region; eauto.
  - destruct (has_region R_metadata s && negb (has_region R_vds s)); [|inversion Hp; subst; exact H].
    destruct (vhdx_find_meta_entry VHDX_GUID_VIRTUAL_DISK_SIZE s) as [s1 r] eqn:Hf.
    assert (H1 : wf s1).
    { destruct (vhdx_find_meta_entry_spec _ _ _ _ Hf) as [[->|(m & Hg & ->)] _]; [exact H|]. eapply wf_rset; eauto. }
    destruct r as [[sp|]|]; try (inversion Hp; subst; exact H1).
    eapply wf_new_region; eauto.
Qed.

(* ------------------------------------------------------------------ VMDK *)
(* one walk through post_process, for any predicate kept by its elementary actions *)
Lemma vmdk_post_walk (P : ist vx -> Prop) :
  (forall s s' n sp e, n <> R_header -> P s -> new_region n sp s = (s', e) -> P s') ->
  (forall s s' n e, n <> R_header -> P s -> delete_region n s = (s', e) -> P s') ->
  (forall s s' k e, P s -> add_check k s = (s', e) -> P s') ->
  (forall s s' h e, P s -> rget R_header (i_regs s) = Some h -> rcomplete h = true ->
                    forallb ascii_text (r_data h) = true -> delete_region R_header s = (s', e) -> P s') ->
  forall s s' e, P s -> vmdk_post s = (s', e) -> P s'.
Proof.
  intros Pnew Pdel Pchk Phdr s s' e H Hp. unfold vmdk_post in Hp.
  destruct (rget R_header (i_regs s)) as [h|] eqn:Hh; [|inversion Hp; subst; exact H].
  destruct (rcomplete h) eqn:Hc; cbn [negb] in Hp; [|inversion Hp; subst; exact H].
  destruct (vmdk_parse_sparse s R_header 0) as [[[[[sig ver] dsec] dnum] gd]|ex]; [|inversion Hp; subst; exact H].
  destruct (negb (beq sig VMDK_MAGIC_PP)).
  { destruct (forallb ascii_text (r_data h)) eqn:Ht; [|inversion Hp; subst; exact H]. eapply Phdr; eauto. }
  destruct (negb _); [inversion Hp; subst; exact H|].
  match type of Hp with (match ?m with _ => _ end) = _ => destruct m as [s1 e1] eqn:Hm end.
  assert (H1 : P s1).
  { destruct ((gd =? VMDK_GD_AT_END) && negb (has_region R_footer s)); [|inversion Hm; subst; exact H].
    destruct (new_region R_footer _ s) as [sa ea] eqn:Hn.
    assert (Ha : P sa) by (eapply Pnew; [|exact H|exact Hn]; discriminate).
    destruct ea; [inversion Hm; subst; exact Ha|]. eapply Pchk; eauto. }
  destruct e1; [inversion Hp; subst; exact H1|].
  destruct (negb (_ =? VMDK_DESC_OFFSET)); [inversion Hp; subst; exact H1|].
  destruct (get_region R_descriptor s1) as [d|]; [|inversion Hp; subst; exact H1].
  destruct (r_off d =? 0); [|inversion Hp; subst; exact H1].
  destruct (delete_region R_descriptor s1) as [s2 e2] eqn:Hd.
  assert (H2 : P s2) by (eapply Pdel; [|exact H1|exact Hd]; discriminate).
  destruct e2; [inversion Hp; subst; exact H2|].
  eapply Pnew; [|exact H2|exact Hp]. discriminate.
Qed.

Lemma vmdk_ext_only : ext_only vmdk_fmt.
Proof.
  intros n s s' e H. cbn [f_rcomplete vmdk_fmt] in H. unfold vmdk_rcomplete, vmdk_parse_descriptor in H.
  assert (Hid : exists x, s = set_ext s x) by (exists (i_ext s); destruct s; reflexivity).
  destruct n; try (inversion H; subst; exact Hid).
  destruct (get_region R_descriptor s); [|inversion H; subst; exact Hid].
  destruct (negb _); inversion H; subst; [exact Hid | eauto].
Qed.

Lemma vmdk_wf_ok : wf_ok vmdk_fmt.
Proof.
  split.
  - intros s s' e H Hp. cbn [f_post vmdk_fmt] in Hp. revert s s' e H Hp. apply vmdk_post_walk.
    + intros s s' n sp e _ H Hn. eapply wf_new_region; eauto.
    + intros s s' n e _ H Hd. eapply wf_delete_region; eauto.
    + intros s s' k e H Ha. eapply wf_add_check; eauto.
    + intros s s' h e H _ _ _ Hd. eapply wf_delete_region; eauto.
  - intros n s s' e H Hc. destruct (vmdk_ext_only _ _ _ _ Hc) as (x & ->). apply wf_ext. exact H.
Qed.

(* no region is marked finished before finish() *)
Definition unfin {X} (s : ist X) : Prop := i_fin s = false -> forall p, In p (i_regs s) -> r_fin (snd p) = false.

Lemma cap1_fin only c pos p : r_fin (snd (cap1 only c pos p)) = r_fin (snd p).
Proof.
  destruct p as [n r]. unfold cap1. destruct (match only with [] => false | _ :: _ => negb (mem_rname n only) end); [reflexivity|].
  destruct (r_end r || negb (rcomplete r)); [|reflexivity]. cbn [snd]. unfold rcapture, cap_end, cap_fixed.
  destruct (r_end r); [reflexivity|]. cbv zeta. match goal with |- context [if ?b then _ else _] => destruct b end; reflexivity.
Qed.

Lemma unfin_regs {X} (s s' : ist X) :
  unfin s -> i_fin s' = i_fin s -> (forall p, In p (i_regs s') -> In p (i_regs s) \/ r_fin (snd p) = false) -> unfin s'.
Proof. intros H Hf Hr Hfin p Hp. rewrite Hf in Hfin. destruct (Hr p Hp) as [Hin|Hz]; [apply (H Hfin p Hin) | exact Hz]. Qed.

Lemma unfin_new_region {X} n sp (s s' : ist X) e : unfin s -> new_region n sp s = (s', e) -> unfin s'.
Proof.
  intros H Hn. unfold new_region in Hn. destruct (has_region n s); inversion Hn; subst; [exact H|].
  eapply unfin_regs; [exact H|reflexivity|]. cbn [i_regs]. intros p Hp. apply in_app_or in Hp.
  destruct Hp as [Hp|[<-|[]]]; [left; exact Hp | right; reflexivity].
Qed.
Lemma unfin_delete_region {X} n (s s' : ist X) e : unfin s -> delete_region n s = (s', e) -> unfin s'.
Proof.
  intros H Hd. unfold delete_region in Hd. destruct (has_region n s); inversion Hd; subst; [|exact H].
  eapply unfin_regs; [exact H|reflexivity|]. cbn [set_regs i_regs]. intros p Hp. left. eapply rdel_In; eauto.
Qed.
Lemma unfin_add_check {X} k (s s' : ist X) e : unfin s -> add_check k s = (s', e) -> unfin s'.
Proof. intros H Ha. unfold add_check in Ha. destruct (mem_cname k (i_checks s)); inversion Ha; subst; exact H. Qed.

Lemma vmdk_unfin st s : reach vmdk_fmt st s -> unfin s.
Proof.
  intros Hr. refine (reach_pres vmdk_fmt unfin _ _ _ _ _ st s _ Hr).
  - intros s0 p H. exact H.
  - intros s0 only c pos H Hfin p Hp. cbn [set_regs i_regs i_fin] in *. rewrite capture_regs_map in Hp.
    apply in_map_iff in Hp. destruct Hp as (q & <- & Hq). rewrite cap1_fin. apply (H Hfin q Hq).
  - intros s0 s1 e H Hp. cbn [f_post vmdk_fmt] in Hp. revert s0 s1 e H Hp. apply vmdk_post_walk.
    + intros s0 s1 n sp e _ H Hn. eapply unfin_new_region; eauto.
    + intros s0 s1 n e _ H Hd. eapply unfin_delete_region; eauto.
    + intros s0 s1 k e H Ha. eapply unfin_add_check; eauto.
    + intros s0 s1 h e H _ _ _ Hd. eapply unfin_delete_region; eauto.
  - intros n s0 s1 e H Hc. destruct (vmdk_ext_only _ _ _ _ Hc) as (x & ->). exact H.
  - intros s0 _ Hfin. discriminate Hfin.
  - intros _ p Hp. cbn in Hp. destruct Hp as [<-|[<-|[]]]; reflexivity.
Qed.

(* a complete VMDK inspector that is not finished has no EndCaptureRegion *)
Lemma vmdk_complete_no_end st s :
  reach vmdk_fmt st s -> i_fin s = false -> Insp_Engine.complete s = true -> forall p, In p (i_regs s) -> r_end (snd p) = false.
Proof.
  intros Hr Hfin Hc p Hp. pose proof (vmdk_unfin st s Hr Hfin p Hp) as Hf.
  unfold Insp_Engine.complete in Hc. rewrite forallb_forall in Hc. specialize (Hc p Hp). unfold rcomplete in Hc.
  destruct (r_end (snd p)); [|reflexivity]. rewrite Hf, andb_false_r in Hc. discriminate.
Qed.

(* post_process reads and writes regions, checks and the id counter only *)
Lemma vmdk_post_frame (s : ist vx) p x :
  vmdk_post (set_pos (set_ext s x) p) = (set_pos (set_ext (fst (vmdk_post s)) x) p, snd (vmdk_post s)).
Proof.
  set (T := fun s0 : ist vx => set_pos (set_ext s0 x) p).
  change (vmdk_post (T s) = (T (fst (vmdk_post s)), snd (vmdk_post s))).
  assert (Tnew : forall n sp s0, new_region n sp (T s0) = (T (fst (new_region n sp s0)), snd (new_region n sp s0))).
  { intros. apply new_region_frame. }
  assert (Tdel : forall n s0, delete_region n (T s0) = (T (fst (delete_region n s0)), snd (delete_region n s0))).
  { intros. apply delete_region_frame. }
  assert (Tchk : forall k s0, add_check k (T s0) = (T (fst (add_check k s0)), snd (add_check k s0))).
  { intros. apply add_check_frame. }
  unfold vmdk_post.
  change (i_regs (T s)) with (i_regs s).
  change (vmdk_parse_sparse (T s) R_header 0) with (vmdk_parse_sparse s R_header 0).
  change (has_region R_footer (T s)) with (has_region R_footer s).
  destruct (rget R_header (i_regs s)) as [h|]; [|reflexivity].
  destruct (negb (rcomplete h)); [reflexivity|].
  destruct (vmdk_parse_sparse s R_header 0) as [[[[[sig ver] dsec] dnum] gd]|ex]; [|reflexivity].
  destruct (negb (beq sig VMDK_MAGIC_PP)).
  { destruct (forallb ascii_text (r_data h)); [|reflexivity].
    rewrite Tdel. destruct (delete_region R_header s); reflexivity. }
  destruct (negb _); [reflexivity|].
  destruct ((gd =? VMDK_GD_AT_END) && negb (has_region R_footer s)).
  - rewrite Tnew. destruct (new_region R_footer _ s) as [sa [ea|]]; cbn [fst snd]; [reflexivity|].
    rewrite Tchk. destruct (add_check K_footer sa) as [s1 [e1|]]; cbn [fst snd]; [reflexivity|].
    destruct (negb (_ =? VMDK_DESC_OFFSET)); [reflexivity|].
    change (get_region R_descriptor (T s1)) with (get_region R_descriptor s1).
    destruct (get_region R_descriptor s1) as [d|]; [|reflexivity].
    destruct (r_off d =? 0); [|reflexivity].
    rewrite Tdel. destruct (delete_region R_descriptor s1) as [s2 [e2|]]; cbn [fst snd]; [reflexivity|].
    rewrite Tnew. destruct (new_region R_descriptor _ s2); reflexivity.
  - destruct (negb (_ =? VMDK_DESC_OFFSET)); [reflexivity|].
    change (get_region R_descriptor (T s)) with (get_region R_descriptor s).
    destruct (get_region R_descriptor s) as [d|]; [|reflexivity].
    destruct (r_off d =? 0); [|reflexivity].
    rewrite Tdel. destruct (delete_region R_descriptor s) as [s2 [e2|]]; cbn [fst snd]; [reflexivity|].
    rewrite Tnew. destruct (new_region R_descriptor _ s2); reflexivity.
Qed.

Lemma vmdk_quiet_of_id (s : ist vx) : vmdk_post s = (s, None) -> quiet vmdk_fmt s.
Proof. intros H p x. cbn [f_post vmdk_fmt]. rewrite vmdk_post_frame, H. reflexivity. Qed.

Lemma vmdk_quiet_no_header (s : ist vx) : rget R_header (i_regs s) = None -> quiet vmdk_fmt s.
Proof. intros H. apply vmdk_quiet_of_id. unfold vmdk_post. rewrite H. reflexivity. Qed.

(* what a post_process call that returned normally did: nothing, or it deleted the header, or it
   created a region (whose identity is not below the counter before the call) *)
Lemma vmdk_post_shape (sa sb : ist vx) :
  NoDup (map fst (i_regs sa)) -> vmdk_post sa = (sb, None) ->
  sb = sa \/ rget R_header (i_regs sb) = None \/ fresh_in (Insp_Engine.i_next sa) (i_regs sb).
Proof.
  intros Hnd Hp. unfold vmdk_post in Hp.
  destruct (rget R_header (i_regs sa)) as [h|] eqn:Hh; [|inversion Hp; auto].
  destruct (negb (rcomplete h)); [inversion Hp; auto|].
  destruct (vmdk_parse_sparse sa R_header 0) as [[[[[sig ver] dsec] dnum] gd]|ex]; [|discriminate].
  destruct (negb (beq sig VMDK_MAGIC_PP)).
  { destruct (forallb ascii_text (r_data h)); [|discriminate].
    apply delete_region_none in Hp. destruct Hp as [Hr _]. right. left. rewrite Hr. apply rget_rdel_same. exact Hnd. }
  destruct (negb _); [discriminate|].
  match type of Hp with (match ?m with _ => _ end) = _ => destruct m as [s1 e1] eqn:Hm end.
  destruct e1; [discriminate|].
  assert (H1 : (s1 = sa \/ fresh_in (Insp_Engine.i_next sa) (i_regs s1)) /\ (Insp_Engine.i_next sa <= Insp_Engine.i_next s1)%nat).
  { destruct ((gd =? VMDK_GD_AT_END) && negb (has_region R_footer sa)); [|inversion Hm; subst; split; [left; reflexivity | lia]].
    destruct (new_region R_footer _ sa) as [sx [ex|]] eqn:Hn; [discriminate|].
    apply new_region_none in Hn. destruct Hn as [Hr Hx]. apply add_check_none in Hm. destruct Hm as [Hr1 Hx1].
    split; [|lia]. right. eexists. split; [rewrite Hr1, Hr; apply in_or_app; right; left; reflexivity|]. cbn. lia. }
  destruct H1 as [H1 Hle].
  destruct (negb (_ =? VMDK_DESC_OFFSET)); [discriminate|].
  destruct (get_region R_descriptor s1) as [d|]; [|discriminate].
  destruct (r_off d =? 0).
  - destruct (delete_region R_descriptor s1) as [s2 [e2|]] eqn:Hd; [discriminate|].
    apply delete_region_none in Hd. destruct Hd as [_ Hx2]. apply new_region_none in Hp. destruct Hp as [Hr Hx].
    right. right. eexists. split; [rewrite Hr; apply in_or_app; right; left; reflexivity|]. cbn. lia.
  - inversion Hp; subst. destruct H1 as [->|H1]; auto.
Qed.

Lemma vmdk_settles : settles vmdk_fmt.
Proof.
  intros sa sb [Hlt Hnd] Hp Hn. cbn [f_post vmdk_fmt] in Hp.
  destruct (vmdk_post_shape sa sb Hnd Hp) as [->|[Hh|Hf]].
  - apply vmdk_quiet_of_id. exact Hp.
  - apply vmdk_quiet_no_header. exact Hh.
  - exfalso. exact (fresh_new_names _ _ _ Hlt Hf Hn).
Qed.

(* ------------------------------------------------------------------ the uniform interface *)
Definition ipos (i : istate) (p : N) : istate :=
  match i with
  | I_unit f s => I_unit f (set_pos s p)
  | I_qcow s => I_qcow (set_pos s p)
  | I_vmdk s => I_vmdk (set_pos s p)
  end.

Lemma complete_ipos i p : complete (ipos i p) = complete i.
Proof. destruct i; reflexivity. Qed.
Lemma format_match_ipos i p : format_match (ipos i p) = format_match i.
Proof. destruct i as [f s|s|s]; [destruct f|..]; reflexivity. Qed.
Lemma cmatch_ipos i p : cmatch (ipos i p) = cmatch i.
Proof. unfold cmatch. rewrite format_match_ipos. reflexivity. Qed.
Lemma ipos_ipos i p q : ipos (ipos i p) q = ipos i q.
Proof. destruct i as [f s|s|s]; destruct s; reflexivity. Qed.
Lemma ipos_same i : ipos i (position i) = i.
Proof. destruct i as [f s|s|s]; destruct s; reflexivity. Qed.
Lemma finish_ipos i p : finish (ipos i p) = ipos (finish i) p.
Proof. destruct i as [f s|s|s]; reflexivity. Qed.

(* the boundary invariant of an inspector object *)
Definition igood (i : istate) : Prop :=
  reachable i /\
  match i with
  | I_unit f s => good (ufmt f) s
  | I_qcow s => good qcow_fmt s
  | I_vmdk s => good vmdk_fmt s
  end.

Lemma nodup_init f : NoDup (map fst (init_regions f)).
Proof. destruct f; cbn; repeat constructor; cbn; intuition discriminate. Qed.

Lemma ufmt_facts f : f <> F_qcow2 -> f <> F_vmdk ->
  settles (ufmt f) /\ ext_only (ufmt f) /\ wf_ok (ufmt f) /\ good (ufmt f) (init_ist (ufmt f)).
Proof.
  intros H1 H2.
  assert (Hst : f_post (ufmt f) = no_post -> f_rcomplete (ufmt f) = no_rcomplete ->
                settles (ufmt f) /\ ext_only (ufmt f) /\ wf_ok (ufmt f) /\ good (ufmt f) (init_ist (ufmt f))).
  { intros Hp Hc. split; [apply settles_no_post; exact Hp|]. split; [apply ext_only_none; exact Hc|].
    split; [apply wf_ok_static; assumption|]. split; [apply wf_init, nodup_init | apply quiet_no_post; exact Hp]. }
  destruct f; try contradiction; try (apply Hst; reflexivity).
  (* vhdx *)
  split; [exact vhdx_settles|]. split; [apply ext_only_none; reflexivity|]. split; [exact vhdx_wf_ok|].
  split; [apply wf_init, nodup_init | apply vhdx_quiet_of_id; reflexivity].
Qed.

Lemma igood_init f : igood (init f).
Proof.
  split; [apply reachable_init|]. destruct f; cbn [init];
    try (apply ufmt_facts; discriminate).
  - split; [apply wf_init, nodup_init | apply quiet_no_post; reflexivity].
  - split; [apply wf_init, nodup_init | apply vmdk_quiet_of_id; reflexivity].
Qed.

Lemma igood_eat i c i' : igood i -> eat i c = (i', None) -> igood i'.
Proof.
  intros [Hr Hg] He. split; [eapply reachable_eat; eauto|].
  destruct Hr as (st & Hr). apply ireach_reach in Hr.
  destruct i as [f s|s|s]; cbn [eat ireach_spec] in *.
  - destruct (eat_chunk (ufmt f) s c) as [s' e'] eqn:Hc. inversion He; subst.
    destruct Hr as (H1 & H2 & _). destruct (ufmt_facts f H1 H2) as (A & B & C & _).
    eapply good_eat; eauto. apply Hg.
  - destruct (eat_chunk qcow_fmt s c) as [s' e'] eqn:Hc. inversion He; subst.
    eapply good_eat; eauto; [apply settles_no_post; reflexivity | exact qcow_ext_only | exact qcow_wf_ok | apply Hg].
  - destruct (eat_chunk vmdk_fmt s c) as [s' e'] eqn:Hc. inversion He; subst.
    eapply good_eat; eauto; [exact vmdk_settles | exact vmdk_ext_only | exact vmdk_wf_ok | apply Hg].
Qed.

Lemma kinds_no_end {X} st (s : ist X) : Inv K_fixed st s -> forall p, In p (i_regs s) -> r_end (snd p) = false.
Proof. intros (_ & _ & _ & HK) p Hp. unfold kinds_ok in HK. rewrite Forall_forall in HK. apply (HK p Hp). Qed.

(* THE STEP at the interface: a complete inspector at a boundary is left as it is by any chunk *)
Theorem istable_eat i c : igood i -> complete i = true -> exists e, eat i c = (ipos i (position i + flen c), e).
Proof.
  intros [Hr Hg] Hc. destruct Hr as (st & Hr). apply ireach_reach in Hr.
  destruct i as [f s|s|s]; cbn [eat ireach_spec complete ipos position] in *.
  - destruct Hr as (H1 & H2 & Hr). pose proof (reach_Inv K_fixed _ _ _ (ufmt_ok f H1 H2) Hr) as HI.
    rewrite (quiet_step (ufmt f) s c (proj2 Hg) Hc (kinds_no_end _ _ HI)). eauto.
  - pose proof (reach_Inv K_fixed _ _ _ qcow_fmt_ok Hr) as HI.
    rewrite (quiet_step qcow_fmt s c (proj2 Hg) Hc (kinds_no_end _ _ HI)). eauto.
  - destruct (i_fin s) eqn:Hfin.
    + rewrite (eat_finished vmdk_fmt s c Hfin). eauto.
    + rewrite (quiet_step vmdk_fmt s c (proj2 Hg) Hc (vmdk_complete_no_end st s Hr Hfin Hc)). eauto.
Qed.

Lemma eat_list_app : forall cs1 cs2 i,
  eat_list i (cs1 ++ cs2) = match eat_list i cs1 with (i1, Some e) => (i1, Some e) | (i1, None) => eat_list i1 cs2 end.
Proof.
  induction cs1 as [|c t IH]; intros cs2 i; cbn [eat_list app]; [reflexivity|].
  destruct (eat i c) as [i' [e|]]; [reflexivity | apply IH].
Qed.

Lemma eat_list_good : forall cs i i', igood i -> eat_list i cs = (i', None) -> igood i'.
Proof.
  induction cs as [|c t IH]; intros i i' Hg He; cbn [eat_list] in He.
  - inversion He; subst. exact Hg.
  - destruct (eat i c) as [i1 [e|]] eqn:Hc; [discriminate|]. eapply IH; [|exact He]. eapply igood_eat; eauto.
Qed.

Lemma eat_list_reachable : forall cs i, reachable i -> reachable (fst (eat_list i cs)).
Proof.
  induction cs as [|c t IH]; intros i Hr; cbn [eat_list]; [exact Hr|].
  destruct (eat i c) as [i1 [e|]] eqn:Hc; [cbn; eapply reachable_eat; eauto | apply IH; eapply reachable_eat; eauto].
Qed.

Theorem eat_list_stable : forall cs i, igood i -> complete i = true -> exists p, fst (eat_list i cs) = ipos i p.
Proof.
  induction cs as [|c t IH]; intros i Hg Hc; cbn [eat_list].
  - exists (position i). cbn [fst]. symmetry. apply ipos_same.
  - destruct (istable_eat i c Hg Hc) as (e & He). rewrite He. destruct e as [e|]; [cbn [fst]; eauto|].
    assert (Hg1 : igood (ipos i (position i + flen c))) by (eapply igood_eat; eauto).
    assert (Hc1 : complete (ipos i (position i + flen c)) = true) by (rewrite complete_ipos; exact Hc).
    destruct (IH _ Hg1 Hc1) as (p & Hp). rewrite Hp, ipos_ipos. eauto.
Qed.

(* once inspector f is complete after the chunks cs1, every continuation cs2 leaves it as it is *)
Theorem after_more f cs1 cs2 :
  complete (fst (eat_list (init f) cs1)) = true ->
  exists p, fst (eat_list (init f) (cs1 ++ cs2)) = ipos (fst (eat_list (init f) cs1)) p.
Proof.
  intros Hc. rewrite eat_list_app. destruct (eat_list (init f) cs1) as [i1 [e|]] eqn:H1; cbn [fst] in *.
  - exists (position i1). symmetry. apply ipos_same.
  - apply eat_list_stable; [|exact Hc]. eapply eat_list_good; [apply igood_init | exact H1].
Qed.

(* finish keeps complete and format_match of a reachable inspector *)
Lemma finish_regs_fixed {X} (s : ist X) : (forall p, In p (i_regs s) -> r_end (snd p) = false) ->
  i_regs (Insp_Engine.finish s) = i_regs s.
Proof.
  intros H. unfold Insp_Engine.finish. cbn [i_regs]. rewrite <- (map_id (i_regs s)) at 2. apply map_ext_in.
  intros [n r] Hp. pose proof (H _ Hp) as He. cbn [fst snd] in *. rewrite He. reflexivity.
Qed.

Lemma format_match_finish i : reachable i -> format_match (finish i) = format_match i.
Proof.
  intros (st & Hr). apply ireach_reach in Hr. destruct i as [f s|s|s]; cbn [ireach_spec finish format_match] in *.
  - destruct Hr as (H1 & H2 & Hr). pose proof (reach_Inv K_fixed _ _ _ (ufmt_ok f H1 H2) Hr) as HI.
    pose proof (finish_regs_fixed s (kinds_no_end _ _ HI)) as Hreg.
    assert (Hs : Insp_Engine.finish s = mkIst (i_pos s) (i_regs s) (Insp_Engine.i_next s) true (i_checks s) (i_ext s)).
    { rewrite <- Hreg. reflexivity. }
    rewrite Hs. destruct f; reflexivity.
  - pose proof (reach_Inv K_fixed _ _ _ qcow_fmt_ok Hr) as HI.
    pose proof (finish_regs_fixed s (kinds_no_end _ _ HI)) as Hreg.
    assert (Hs : Insp_Engine.finish s = mkIst (i_pos s) (i_regs s) (Insp_Engine.i_next s) true (i_checks s) (i_ext s)).
    { rewrite <- Hreg. reflexivity. }
    rewrite Hs. reflexivity.
  - cbn [f_match vmdk_fmt]. unfold vmdk_match, Insp_Engine.finish. cbn [i_regs i_ext]. rewrite rget_finish.
    destruct (rget R_header (i_regs s)) as [h|]; cbn [option_map]; [|reflexivity].
    destruct (r_end h); reflexivity.
Qed.

Lemma complete_finish_i i : complete i = true -> complete (finish i) = true.
Proof. destruct i as [f s|s|s]; cbn [complete finish]; apply complete_finish. Qed.

(* ------------------------------------------------------------------ format at the level of names *)
Definition is_rawf (f : fmt_id) : bool := beq (fmt_name f) raw_lit_raw.

Definition name_format (cpl mt : fmt_id -> bool) (fin : bool) (fs : list fmt_id) : res (option fmt_id) :=
  let nr := filter (fun f => negb (is_rawf f)) fs in
  if negb (forallb cpl nr) && negb fin then Ok None else
  match filter mt nr with
  | [f] => Ok (Some f)
  | _ :: _ :: _ => Exn ImageFormatError
  | [] => match filter is_rawf fs with [f] => Ok (Some f) | _ => Exn ImageFormatError end
  end.

Definition show_name (r : res (option fmt_id)) : res (option str) :=
  match r with Ok (Some f) => Ok (Some (fmt_name f)) | Ok None => Ok None | Exn e => Exn e end.

Lemma filter_map_comm {A B} (p : B -> bool) (g : A -> B) l : filter p (map g l) = map g (filter (fun x => p (g x)) l).
Proof. induction l as [|x t IH]; [reflexivity|]. cbn [map filter]. destruct (p (g x)); cbn [map]; rewrite IH; reflexivity. Qed.
Lemma forallb_map_comm {A B} (p : B -> bool) (g : A -> B) l : forallb p (map g l) = forallb (fun x => p (g x)) l.
Proof. induction l as [|x t IH]; [reflexivity|]. cbn [map forallb]. rewrite IH. reflexivity. Qed.

Theorem format_by_names (g : fmt_id -> cslot) fs ex fin : (forall f, s_name (g f) = fmt_name f) ->
  cw_format_name {| w_slots := map g fs; w_expected := ex; w_finished := fin |} =
  show_name (name_format (fun f => complete (s_insp (g f))) (fun f => cmatch (s_insp (g f))) fin fs).
Proof.
  intros Hn. unfold cw_format_name, format_name. rewrite format_spec.
  unfold decided, all_complete, matches, non_raw. cbn [w_slots w_finished].
  assert (Hr1 : forall f, is_raw_nr istate raw_lit_nonraw (g f) = is_rawf f).
  { intros f. unfold is_raw_nr, is_rawf. rewrite Hn, raw_lits_agree. reflexivity. }
  assert (Hr2 : forall f, is_raw istate raw_lit_raw (g f) = is_rawf f).
  { intros f. unfold is_raw, is_rawf. rewrite Hn. reflexivity. }
  rewrite !filter_map_comm, forallb_map_comm.
  rewrite (filter_ext (fun x => negb (is_raw_nr istate raw_lit_nonraw (g x))) (fun f => negb (is_rawf f))) by (intros f; rewrite Hr1; reflexivity).
  rewrite (filter_ext (fun x => is_raw istate raw_lit_raw (g x)) is_rawf) by exact Hr2.
  unfold name_format. cbv zeta.
  set (nr := filter (fun f => negb (is_rawf f)) fs).
  destruct (forallb (fun x => complete (s_insp (g x))) nr); destruct fin; cbn [orb negb andb]; try reflexivity;
    (destruct (filter (fun x => cmatch (s_insp (g x))) nr) as [|f1 [|f2 t]]; cbn [map show_name]; rewrite ?Hn; try reflexivity;
     destruct (filter is_rawf fs) as [|r1 [|r2 t]]; cbn [map]; rewrite ?Hn; reflexivity).
Qed.

Lemma format_of_name (w : cwrapper) nm : cw_format_name w = Ok (Some nm) -> exists m, cw_format w = Ok (Some m) /\ s_name m = nm.
Proof.
  unfold cw_format_name, format_name, cw_format. destruct (format _ _ _ _ _ w) as [[m|]|e]; intros H; inversion H; eauto.
Qed.
Lemma name_of_format (w : cwrapper) m : cw_format w = Ok (Some m) -> cw_format_name w = Ok (Some (s_name m)).
Proof. unfold cw_format_name, format_name, cw_format. intros ->. reflexivity. Qed.

Lemma name_format_stable cpl1 mt1 cpl2 mt2 fs f fin2 :
  name_format cpl1 mt1 false fs = Ok (Some f) ->
  (forall g, In g fs -> is_rawf g = false -> cpl1 g = true -> cpl2 g = true /\ mt2 g = mt1 g) ->
  name_format cpl2 mt2 fin2 fs = Ok (Some f).
Proof.
  unfold name_format. cbv zeta. set (nr := filter (fun f => negb (is_rawf f)) fs). intros H Hp.
  destruct (forallb cpl1 nr) eqn:Hc1; cbn [negb andb] in H; [|discriminate].
  assert (Hin : forall g, In g nr -> cpl2 g = true /\ mt2 g = mt1 g).
  { intros g Hg. subst nr. apply filter_In in Hg. destruct Hg as [Hg Hr]. apply negb_true_iff in Hr.
    apply Hp; auto. rewrite forallb_forall in Hc1. apply Hc1. apply filter_In. split; [exact Hg | rewrite Hr; reflexivity]. }
  assert (Hc2 : forallb cpl2 nr = true) by (apply forallb_forall; intros g Hg; apply (Hin g Hg)).
  rewrite Hc2. cbn [negb andb].
  rewrite (filter_ext_in mt2 mt1 nr) by (intros g Hg; apply (Hin g Hg)). exact H.
Qed.

(* ------------------------------------------------------------------ C03_decision_stable *)
Lemma slot_after_name cs f : s_name (slot_after cs f) = fmt_name f.
Proof. reflexivity. Qed.
Lemma slot_closed_name cs f : s_name (slot_closed cs f) = fmt_name f.
Proof. reflexivity. Qed.

Lemma wrapper_eta (w : cwrapper) ss ex fi : w_slots w = ss -> w_finished w = fi -> w_expected w = ex ->
  w = {| w_slots := ss; w_expected := ex; w_finished := fi |}.
Proof. destruct w; cbn; intros; subst; reflexivity. Qed.

Theorem decision_stable expected allowed cs1 w1 m1 :
  read_so_far expected allowed cs1 w1 -> cw_format w1 = Ok (Some m1) ->
  (forall cs2 w2, read_so_far expected allowed (cs1 ++ cs2) w2 ->
     exists m2, cw_format w2 = Ok (Some m2) /\ s_name m2 = s_name m1) /\
  (forall cs2 w3, read_and_closed expected allowed (cs1 ++ cs2) w3 ->
     exists m3, cw_format w3 = Ok (Some m3) /\ s_name m3 = s_name m1).
Proof.
  intros H1 Hf.
  destruct (read_so_far_slots _ _ _ _ H1) as (S1 & F1 & E1).
  rewrite (wrapper_eta w1 _ _ _ S1 F1 E1) in Hf. apply name_of_format in Hf.
  rewrite (format_by_names (slot_after cs1) _ _ _ (slot_after_name cs1)) in Hf.
  destruct (name_format _ _ false (allowed_fmts allowed)) as [[f1|]|e] eqn:Hnf; cbn [show_name] in Hf; try discriminate.
  assert (Hname : fmt_name f1 = s_name m1) by congruence.
  split.
  - intros cs2 w2 H2. destruct (read_so_far_slots _ _ _ _ H2) as (S2 & F2 & E2).
    apply format_of_name. rewrite (wrapper_eta w2 _ _ _ S2 F2 E2).
    rewrite (format_by_names (slot_after (cs1 ++ cs2)) _ _ _ (slot_after_name _)).
    rewrite (name_format_stable _ _ _ _ _ _ false Hnf); [cbn [show_name]; rewrite Hname; reflexivity|].
    intros g _ _ Hc. cbn [slot_after s_insp] in *.
    destruct (after_more g cs1 cs2 Hc) as (p & Hp). rewrite Hp, complete_ipos, cmatch_ipos. auto.
  - intros cs2 w3 H3. destruct (read_and_closed_slots _ _ _ _ H3) as (S3 & F3 & E3).
    apply format_of_name. rewrite (wrapper_eta w3 _ _ _ S3 F3 E3).
    rewrite (format_by_names (slot_closed (cs1 ++ cs2)) _ _ _ (slot_closed_name _)).
    rewrite (name_format_stable _ _ _ _ _ _ true Hnf); [cbn [show_name]; rewrite Hname; reflexivity|].
    intros g _ _ Hc. cbn [slot_after slot_closed s_insp] in *.
    destruct (run_fst_snd g (cs1 ++ cs2)) as [Hrun _]. rewrite Hrun.
    destruct (after_more g cs1 cs2 Hc) as (p & Hp).
    assert (Hreach : reachable (fst (eat_list (init g) (cs1 ++ cs2)))) by (apply eat_list_reachable, reachable_init).
    split.
    + apply complete_finish_i. rewrite Hp, complete_ipos. exact Hc.
    + unfold cmatch. rewrite (format_match_finish _ Hreach), Hp, format_match_ipos. reflexivity.
Qed.
