(* Proofs/C07_Examples.v — non-vacuity: for each theorem of Properties/C07.v an image satisfying its hypotheses
   (built from the specification constants), checked by computation, and the size the model reports on it. *)
From Coq Require Import String.
Require Import OV.Base.Bytes OV.Base.Py OV.Base.Str OV.Base.Insp_Struct OV.Gen.Insp_Consts
               OV.Model.Insp_Engine OV.Model.Insp_All OV.Model.C07.
Open Scope N_scope.

Definition zeros (n : N) : bytes := repeatN 0 (N.to_nat n).
(* [b] with the bytes [v] written at offset [off] *)
Definition patch (off : N) (v b : bytes) : bytes := btake off b ++ v ++ bskip (off + blen v) b.
(* cut [b] after [n] bytes: a two-chunk presentation *)
Definition cut2 (n : N) (b : bytes) : list bytes := [btake n b; bskip n b].

Definition ex_size : N := 18446744073709551615.      (* 2^64 - 1 *)

Definition ex_vhd : bytes := patch 40 (be_enc 8 ex_size) (patch 0 SPEC_VHD_COOKIE (zeros 512)).
Example ex_vhd_wf : wf_vhd ex_size ex_vhd = true.
Proof. vm_compute. reflexivity. Qed.
Example ex_vhd_size : vsize_end F_vhd (cut2 43 ex_vhd) = Ok (Z.of_N ex_size).
Proof. vm_compute. reflexivity. Qed.
Example ex_vhd_prefix : vsize_now F_vhd (cut2 43 (btake 511 ex_vhd)) = Ok 0%Z.
Proof. vm_compute. reflexivity. Qed.

Definition ex_qcow2 : bytes := patch 24 (be_enc 8 ex_size) (patch 0 SPEC_QCOW2_MAGIC (zeros 600)).
Example ex_qcow2_wf : wf_qcow2 ex_size ex_qcow2 = true.
Proof. vm_compute. reflexivity. Qed.
Example ex_qcow2_size : vsize_end F_qcow2 (cut2 25 ex_qcow2) = Ok (Z.of_N ex_size).
Proof. vm_compute. reflexivity. Qed.

Definition ex_vdi : bytes := patch 368 (le_enc 8 ex_size) (patch 64 (le_enc 4 SPEC_VDI_SIGNATURE) (zeros 512)).
Example ex_vdi_wf : wf_vdi ex_size ex_vdi = true.
Proof. vm_compute. reflexivity. Qed.
Example ex_vdi_size : vsize_end F_vdi (cut2 370 ex_vdi) = Ok (Z.of_N ex_size).
Proof. vm_compute. reflexivity. Qed.

Definition ex_iso : bytes :=
  patch (SPEC_ISO_PVD + 128) (le_enc 2 65535) (patch (SPEC_ISO_PVD + 80) (le_enc 4 4294967295)
    (patch SPEC_ISO_PVD (1 :: lit "CD001") (zeros 34816))).
Example ex_iso_wf : wf_iso 4294967295 65535 ex_iso = true.
Proof. vm_compute. reflexivity. Qed.
Example ex_iso_size : vsize_end F_iso (cut2 32800 ex_iso) = Ok (Z.of_N (4294967295 * 65535)).
Proof. vm_compute. reflexivity. Qed.

Definition ex_luks : bytes := patch 104 (be_enc 4 8) (patch 0 SPEC_LUKS_MAGIC (zeros 5000)).
Example ex_luks_wf : wf_luks 8 ex_luks = true.
Proof. vm_compute. reflexivity. Qed.
Example ex_luks_size : vsize_end F_luks (cut2 100 ex_luks) = Ok 904%Z.
Proof. vm_compute. reflexivity. Qed.
(* the payload offset may lie beyond the stream: the reported value is then negative *)
Definition ex_luks_neg : bytes := patch 104 (be_enc 4 4294967295) (patch 0 SPEC_LUKS_MAGIC (zeros 592)).
Example ex_luks_neg_wf : wf_luks 4294967295 ex_luks_neg = true.
Proof. vm_compute. reflexivity. Qed.
Example ex_luks_neg_size : vsize_end F_luks [ex_luks_neg] = Ok (592 - 4294967295 * 512)%Z.
Proof. vm_compute. reflexivity. Qed.

(* VMDK: streamOptimized image announcing a footer (gdOffset = 2^64-1), capacity 2^64-1 sectors, one descriptor sector *)
Definition ex_vmdk_desc : bytes := lit "# Disk DescriptorFile" ++ [10] ++ lit "CREATETYPE=""streamOptimized""" ++ [10].
Definition ex_vmdk : bytes :=
  patch 512 ex_vmdk_desc (patch 56 (le_enc 8 ex_size) (patch 36 (le_enc 8 1) (patch 28 (le_enc 8 1)
    (patch 12 (le_enc 8 ex_size) (patch 4 (le_enc 4 3) (patch 0 SPEC_VMDK_MAGIC (zeros 3000))))))).
Example ex_vmdk_wf : wf_vmdk ex_size 3 1 ex_vmdk = true.
Proof. vm_compute. reflexivity. Qed.
Example ex_vmdk_size : vsize_end F_vmdk (cut2 70 ex_vmdk) = Ok (Z.of_N (ex_size * 512)).
Proof. vm_compute. reflexivity. Qed.
Example ex_vmdk_prefix : is_prefix (btake 1023 ex_vmdk) ex_vmdk = true /\ vsize_now F_vmdk (cut2 5 (btake 1023 ex_vmdk)) = Ok 0%Z.
Proof. vm_compute. split; reflexivity. Qed.
(* outside the hypotheses (no sparse header; zone F1): a text-only descriptor naming a sparse type, first chunk of
   4..43 bytes: virtual_size raises struct.error; with 44..63 bytes it reports bytes of the text as a size *)
Definition ex_vmdk_text : bytes := lit "createType=""monolithicSparse""" ++ [10] ++ lit "RW 1 SPARSE ""a""" ++ [10] ++ zeros 40.
Example ex_vmdk_text_raises : vsize_now F_vmdk [btake 30 ex_vmdk_text] = Exn StructError.
Proof. vm_compute. reflexivity. Qed.
Example ex_vmdk_text_garbage : vsize_now F_vmdk [btake 46 ex_vmdk_text] = Ok 3853699477345195186688%Z.
Proof. vm_compute. reflexivity. Qed.

(* VHDX: two region-table entries (BAT first), metadata region right behind the header area, two metadata entries
   (file parameters first), size item 64 KiB into the region *)
Definition ex_guid_bat : bytes := [102;119;194;45;35;246;0;66;157;100;17;94;155;253;74;8].
Definition ex_guid_fp : bytes := [55;103;161;202;54;250;67;77;179;182;51;240;170;68;231;107].
Definition ex_vhdx_layout : vhdx_layout := mkVhdxLayout 2 1 262144 2 1 65536.
Definition ex_vhdx : bytes :=
  patch 327680 (le_enc 8 ex_size)
  (patch 262144 (SPEC_VHDX_META_SIG ++ [0;0] ++ le_enc 2 2 ++ zeros 20
                 ++ ex_guid_fp ++ le_enc 4 65544 ++ le_enc 4 4 ++ zeros 8
                 ++ SPEC_GUID_VDS ++ le_enc 4 65536 ++ le_enc 4 8 ++ zeros 8)
  (patch 196608 (SPEC_VHDX_REGI ++ zeros 4 ++ le_enc 4 2 ++ zeros 4
                 ++ ex_guid_bat ++ le_enc 8 3145728 ++ le_enc 4 1048576 ++ le_enc 4 1
                 ++ SPEC_GUID_METAREGION ++ le_enc 8 262144 ++ le_enc 4 1048576 ++ le_enc 4 1)
  (patch 0 SPEC_VHDX_IDENT (zeros 327700)))).
Example ex_vhdx_wf : wf_vhdx ex_size ex_vhdx_layout ex_vhdx = true.
Proof. vm_compute. reflexivity. Qed.
(* as one chunk (the D1 situation) and cut inside the region table *)
Example ex_vhdx_size_one_chunk : vsize_end F_vhdx [ex_vhdx] = Ok (Z.of_N ex_size).
Proof. vm_compute. reflexivity. Qed.
Example ex_vhdx_size_two_chunks : vsize_end F_vhdx (cut2 196700 ex_vhdx) = Ok (Z.of_N ex_size).
Proof. vm_compute. reflexivity. Qed.
Example ex_vhdx_prefix : vsize_now F_vhdx [btake 327687 ex_vhdx] = Ok 0%Z.
Proof. vm_compute. reflexivity. Qed.
