(* Proofs/C19_SplitPath.v — split_path: str.split characterisation, the contract,
   and the tie to the statement-level translation of the source. *)
Require Import OV.Base.Bytes OV.Base.Py OV.Base.Str OV.Base.C19_PyList.
Require Import OV.Gen.C19_SplitPath OV.Model.C19 OV.Model.C19_Spec.
Open Scope Z_scope.

(* ------------------------------------------------------------------ str.split *)
(* a direct (non-accumulating) definition of s.split(c) and s.split(c, k) *)
Definition cons_hd (x : N) (l : list str) : list str :=
  match l with h :: r => (x :: h) :: r | [] => [[x]] end.
Fixpoint splitc (c : N) (s : str) : list str :=
  match s with
  | [] => [[]]
  | x :: t => if (x =? c)%N then [] :: splitc c t else cons_hd x (splitc c t)
  end.
Fixpoint splitc_max (c : N) (s : str) (k : nat) : list str :=
  match s with
  | [] => [[]]
  | x :: t => match k with
              | O => [s]
              | S k' => if (x =? c)%N then [] :: splitc_max c t k' else cons_hd x (splitc_max c t k)
              end
  end.
Definition prepend (p : str) (l : list str) : list str :=
  match l with h :: t => (p ++ h) :: t | [] => [p] end.

Lemma splitc_nonnil c s : splitc c s <> [].
Proof. destruct s as [|x t]; cbn; [discriminate|]. destruct (x =? c)%N; [discriminate|].
  destruct (splitc c t); discriminate. Qed.
Lemma splitc_max_nonnil c s k : splitc_max c s k <> [].
Proof. destruct s as [|x t]; cbn; [discriminate|]. destruct k; [discriminate|].
  destruct (x =? c)%N; [discriminate|]. destruct (splitc_max c t (S k)); discriminate. Qed.
Lemma prepend_nil l : l <> [] -> prepend [] l = l.
Proof. destruct l; [congruence|reflexivity]. Qed.
Lemma prepend_cons_hd p x l : l <> [] -> prepend p (cons_hd x l) = prepend (p ++ [x]) l.
Proof. destruct l as [|h r]; [congruence|]. intros _. cbn. rewrite <- app_assoc. reflexivity. Qed.

Lemma split_char_aux_splitc c s : forall cur, split_char_aux c s cur = prepend (rev cur) (splitc c s).
Proof.
  induction s as [|x t IH]; intros cur; cbn [split_char_aux splitc].
  - cbn. rewrite app_nil_r. reflexivity.
  - destruct (x =? c)%N.
    + rewrite IH. cbn [rev prepend]. rewrite app_nil_r, prepend_nil by apply splitc_nonnil. reflexivity.
    + rewrite IH. cbn [rev]. rewrite prepend_cons_hd by apply splitc_nonnil. reflexivity.
Qed.
Lemma split_char_splitc c s : split_char c s = splitc c s.
Proof. unfold split_char. rewrite split_char_aux_splitc. apply prepend_nil, splitc_nonnil. Qed.

Lemma split_char_max_aux_splitc c s : forall cur k,
  split_char_max_aux c s cur k = prepend (rev cur) (splitc_max c s k).
Proof.
  induction s as [|x t IH]; intros cur k; cbn [split_char_max_aux splitc_max].
  - cbn. rewrite app_nil_r. reflexivity.
  - destruct k as [|k']; [reflexivity|].
    destruct (x =? c)%N.
    + rewrite IH. cbn [rev prepend]. rewrite app_nil_r, prepend_nil by apply splitc_max_nonnil. reflexivity.
    + rewrite IH. cbn [rev]. rewrite prepend_cons_hd by apply splitc_max_nonnil. reflexivity.
Qed.
Lemma split_char_max_splitc c s k : split_char_max c s k = splitc_max c s k.
Proof. unfold split_char_max. rewrite split_char_max_aux_splitc. apply prepend_nil, splitc_max_nonnil. Qed.

(* join is a left inverse of split; the pieces do not contain the separator; and
   these two facts determine the pieces *)
Lemma join_cons_hd c x l : l <> [] -> join [c] (cons_hd x l) = x :: join [c] l.
Proof. destruct l as [|h [|h2 r]]; [congruence| |]; intros _; reflexivity. Qed.
Lemma join_splitc c s : join [c] (splitc c s) = s.
Proof.
  induction s as [|x t IH]; [reflexivity|]. cbn [splitc].
  destruct (x =? c)%N eqn:E.
  - apply N.eqb_eq in E. subst x. pose proof (splitc_nonnil c t) as Hn.
    destruct (splitc c t) as [|h r] eqn:Es; [congruence|]. rewrite join_cons. cbn [app]. rewrite IH. reflexivity.
  - rewrite join_cons_hd by apply splitc_nonnil. rewrite IH. reflexivity.
Qed.
Lemma splitc_no_sep c s : Forall (fun p => ~ In c p) (splitc c s).
Proof.
  induction s as [|x t IH]; cbn [splitc]; [constructor; [tauto|constructor]|].
  destruct (x =? c)%N eqn:E.
  - constructor; [cbn; tauto|exact IH].
  - apply N.eqb_neq in E. destruct (splitc c t) as [|h r]; cbn [cons_hd].
    + constructor; [|constructor]. cbn. intuition congruence.
    + inversion IH as [|? ? Hh Hr]; subst. constructor; [|exact Hr]. cbn. intuition congruence.
Qed.
Lemma splitc_nosep_piece c p : ~ In c p -> splitc c p = [p].
Proof. induction p as [|x t IH]; intros H; [reflexivity|]. cbn [splitc].
  destruct (x =? c)%N eqn:E; [apply N.eqb_eq in E; subst; cbn in H; tauto|].
  rewrite IH by (cbn in H; tauto). reflexivity. Qed.
Lemma splitc_app_sep c p s : ~ In c p -> splitc c (p ++ c :: s) = p :: splitc c s.
Proof. induction p as [|x t IH]; intros H; cbn [app splitc].
  - rewrite N.eqb_refl. reflexivity.
  - destruct (x =? c)%N eqn:E; [apply N.eqb_eq in E; subst; cbn in H; tauto|].
    rewrite IH by (cbn in H; tauto). reflexivity. Qed.
Lemma splitc_unique c l : l <> [] -> Forall (fun p => ~ In c p) l -> splitc c (join [c] l) = l.
Proof.
  induction l as [|p [|q r] IH]; intros Hn Hf; [congruence| |].
  - cbn [join]. inversion Hf; subst. apply splitc_nosep_piece. assumption.
  - rewrite join_cons. cbn [app]. inversion Hf as [|? ? Hp Hr]; subst.
    rewrite splitc_app_sep by assumption. f_equal. apply IH; [discriminate|assumption].
Qed.

(* split with a limit, in terms of the unlimited split: the first k pieces and
   then the unsplit remainder *)
Lemma splitc_length_cons_hd x l : l <> [] -> length (cons_hd x l) = length l.
Proof. destruct l; [congruence|reflexivity]. Qed.
Lemma splitc_max_spec c s : forall k,
  splitc_max c s k =
  if (length (splitc c s) <=? S k)%nat then splitc c s
  else firstn k (splitc c s) ++ [join [c] (skipn k (splitc c s))].
Proof.
  induction s as [|x t IH]; intros k.
  - reflexivity.
  - destruct k as [|k'].
    + cbn [splitc_max firstn skipn app]. rewrite join_splitc.
      destruct (length (splitc c (x :: t)) <=? 1)%nat eqn:E; [|reflexivity].
      apply Nat.leb_le in E. pose proof (splitc_nonnil c (x :: t)) as Hn.
      pose proof (join_splitc c (x :: t)) as Hj.
      destruct (splitc c (x :: t)) as [|h [|h2 r]]; [congruence| |cbn in E; lia].
      cbn in Hj. subst h. reflexivity.
    + cbn [splitc_max splitc]. destruct (x =? c)%N eqn:E.
      * rewrite IH. cbn [length]. change (S (length (splitc c t)) <=? S (S k'))%nat with (length (splitc c t) <=? S k')%nat.
        destruct (length (splitc c t) <=? S k')%nat; reflexivity.
      * rewrite IH. pose proof (splitc_nonnil c t) as Hn.
        rewrite splitc_length_cons_hd by exact Hn.
        destruct (length (splitc c t) <=? S (S k'))%nat; [reflexivity|].
        destruct (splitc c t) as [|h r]; [congruence|]. reflexivity.
Qed.

(* ------------------------------------------------------------------ list slicing *)
Lemma llen_cons {A} (x : A) l : llen (x :: l) = 1 + llen l.
Proof. unfold llen. cbn [length]. lia. Qed.
Lemma llen_nonneg {A} (l : list A) : 0 <= llen l.
Proof. unfold llen. lia. Qed.

Lemma lslice_from1 {A} (x : A) l h : 1 <= h ->
  lslice (Some 1) (Some h) (x :: l) = firstn (Z.to_nat (h - 1)) l.
Proof.
  intros Hh. unfold lslice, norm_idx. rewrite llen_cons. pose proof (llen_nonneg l) as Hl.
  replace (1 <? 0) with false by lia. replace (h <? 0) with false by lia.
  replace (Z.max 0 (Z.min (1 + llen l) 1)) with 1 by lia.
  change (Z.to_nat 1) with 1%nat. cbn [skipn].
  destruct (Z_le_gt_dec h (1 + llen l)) as [Hle|Hgt].
  - replace (Z.max 0 (Z.min (1 + llen l) h)) with h by lia. reflexivity.
  - replace (Z.max 0 (Z.min (1 + llen l) h)) with (1 + llen l) by lia.
    unfold llen in *. rewrite !firstn_all2 by lia. reflexivity.
Qed.

Definition nonnil (s : str) : bool := negb (is_nil s).
Lemma str_in_nil l : str_in [] l = negb (forallb nonnil l).
Proof. unfold str_in. induction l as [|s l IH]; [reflexivity|]. cbn [existsb forallb]. rewrite IH.
  destruct s; reflexivity. Qed.
Lemma forallb_nonnil l : forallb nonnil l = true <-> Forall (fun s => s <> []) l.
Proof. rewrite forallb_forall, Forall_forall. split; intros H s Hs; specialize (H s Hs).
  - destruct s; [discriminate|discriminate].
  - destruct s; [congruence|reflexivity]. Qed.

(* ------------------------------------------------------------------ the checks after the split *)
Definition sp_post (minsegs M : Z) (rwl : bool) (segs : list str) : res (list (option str)) :=
  let count := llen segs in
  let bad :=
    str_truth (hd [] segs)
    || (count <? minsegs + 1)
    || (count >? (if rwl then M + 1 else M + 2))
    || str_in [] (lslice (Some 1) (Some (minsegs + 1)) segs)
    || (negb rwl && (count =? M + 2) && str_truth (nth (Z.to_nat (M + 1)) segs [])) in
  if bad then Exn ValueError
  else let keep := lslice (Some 1) (Some (M + 1)) segs in
       Ok (pad_none keep (M - llen keep)).

Lemma split_path_unfold path minsegs maxsegs rwl :
  split_path path minsegs maxsegs rwl =
  let M := eff_max minsegs maxsegs in
  if minsegs >? M then Exn ValueError
  else sp_post minsegs M rwl (py_split1 path slash (if rwl then M else M + 1)).
Proof. reflexivity. Qed.

(* segs = '' :: L  (the path starts with the separator) *)
Lemma sp_post_eval (m Mn : nat) rwl (L : list str) : (1 <= m <= Mn)%nat ->
  sp_post (Z.of_nat m) (Z.of_nat Mn) rwl ([] :: L) =
  if (length L <? m)%nat
     || (if rwl then Mn <? length L else S Mn <? length L)%nat
     || negb (forallb nonnil (firstn m L))
     || (negb rwl && (length L =? S Mn)%nat && str_truth (nth Mn L []))
  then Exn ValueError
  else Ok (padded Mn (firstn Mn L)).
Proof.
  intros Hm. unfold sp_post. cbn [hd str_truth orb]. rewrite llen_cons. unfold llen.
  rewrite !lslice_from1 by lia.
  replace (Z.to_nat (Z.of_nat m + 1 - 1)) with m by lia.
  replace (Z.to_nat (Z.of_nat Mn + 1 - 1)) with Mn by lia.
  replace (Z.to_nat (Z.of_nat Mn + 1)) with (S Mn) by lia. cbn [nth].
  rewrite str_in_nil.
  replace (1 + Z.of_nat (length L) <? Z.of_nat m + 1) with (length L <? m)%nat
    by (destruct (Nat.ltb_spec (length L) m); lia).
  replace (1 + Z.of_nat (length L) >? (if rwl then Z.of_nat Mn + 1 else Z.of_nat Mn + 2))
    with (if rwl then Mn <? length L else S Mn <? length L)%nat
    by (destruct rwl; [destruct (Nat.ltb_spec Mn (length L))|destruct (Nat.ltb_spec (S Mn) (length L))]; lia).
  replace (1 + Z.of_nat (length L) =? Z.of_nat Mn + 2) with (length L =? S Mn)%nat
    by (destruct (Nat.eqb_spec (length L) (S Mn)); lia).
  match goal with |- (if ?b then _ else _) = _ => destruct b; [reflexivity|] end.
  unfold pad_none, padded. do 3 f_equal. lia.
Qed.

(* ------------------------------------------------------------------ paths that start with '/' *)
Definition decl_result (m Mn : nat) (rwl : bool) (P : list str) : res (list (option str)) :=
  match decl_lead rwl Mn P with
  | Some lead => if (m <=? length lead)%nat && forallb nonnil (firstn m lead)
                 then Ok (padded Mn lead) else Exn ValueError
  | None => Exn ValueError
  end.

Lemma nth_last_len {A} (l : list A) k d d' : length l = S k -> nth k l d = last l d'.
Proof.
  revert k. induction l as [|x l IH]; intros k H; [discriminate|].
  destruct l as [|y l'].
  - cbn in H. assert (k = 0)%nat by lia. subst. reflexivity.
  - destruct k as [|k]; [cbn in H; lia|]. change (last (x :: y :: l') d') with (last (y :: l') d').
    change (nth (S k) (x :: y :: l') d) with (nth k (y :: l') d). apply IH. cbn in *; lia.
Qed.

Lemma join_two_nonnil c (l : list str) : (2 <= length l)%nat -> join [c] l <> [].
Proof. destruct l as [|x [|y r]]; cbn [length]; try lia. intros _. rewrite join_cons.
  destruct x; discriminate. Qed.

Ltac nat_bools :=
  repeat match goal with
  | |- context [Nat.ltb ?a ?b] => destruct (Nat.ltb_spec a b); try lia
  | |- context [Nat.leb ?a ?b] => destruct (Nat.leb_spec a b); try lia
  | |- context [Nat.eqb ?a ?b] => destruct (Nat.eqb_spec a b); try lia
  end;
  cbn [orb andb negb];
  try match goal with |- context [forallb ?f ?l] => destruct (forallb f l) end;
  cbn [orb andb negb]; try reflexivity.

Lemma split_slash (m Mn : nat) rwl body : (1 <= m <= Mn)%nat ->
  sp_post (Z.of_nat m) (Z.of_nat Mn) rwl
          (py_split1 (slash :: body) slash (if rwl then Z.of_nat Mn else Z.of_nat Mn + 1))
  = decl_result m Mn rwl (splitc slash body).
Proof.
  intros Hm. unfold py_split1.
  replace ((if rwl then Z.of_nat Mn else Z.of_nat Mn + 1) <? 0) with false by (destruct rwl; lia).
  rewrite split_char_max_splitc, splitc_max_spec.
  cbn [splitc]. rewrite N.eqb_refl.
  set (P := splitc slash body). pose proof (splitc_nonnil slash body) as HP. fold P in HP.
  assert (Hn : (1 <= length P)%nat) by (destruct P; [congruence|cbn; lia]).
  unfold decl_result, decl_lead. cbn [length].
  destruct rwl.
  - rewrite Nat2Z.id.
    change (S (length P) <=? S Mn)%nat with (length P <=? Mn)%nat.
    destruct (Nat.leb_spec (length P) Mn) as [Hle|Hgt].
    + rewrite sp_post_eval by exact Hm. cbn [negb andb orb].
      rewrite (@firstn_all2 _ Mn P) by lia. nat_bools.
    + destruct Mn as [|M']; [lia|]. cbn [firstn skipn app].
      replace (S M' - 1)%nat with M' by lia.
      set (L := firstn M' P ++ [join [slash] (skipn M' P)]).
      assert (HL : length L = S M').
      { unfold L. rewrite app_length, firstn_length. cbn [length]. lia. }
      rewrite sp_post_eval by exact Hm. rewrite HL. cbn [negb andb orb].
      rewrite (@firstn_all2 _ (S M') L) by lia. nat_bools.
  - replace (Z.to_nat (Z.of_nat Mn + 1)) with (S Mn) by lia.
    change (S (length P) <=? S (S Mn))%nat with (length P <=? S Mn)%nat.
    destruct (Nat.leb_spec (length P) (S Mn)) as [Hle|Hgt].
    + rewrite sp_post_eval by exact Hm. cbn [negb andb].
      destruct (Nat.leb_spec (length P) Mn) as [Hle2|Hgt2].
      * rewrite (@firstn_all2 _ Mn P) by lia. nat_bools.
      * assert (He : length P = S Mn) by lia. rewrite He, Nat.eqb_refl. cbn [andb].
        rewrite (nth_last_len P Mn [] [1%N]) by exact He.
        destruct (last P [1%N]) as [|z zs] eqn:El; cbn [is_nil str_truth andb].
        -- rewrite firstn_length, firstn_firstn, He.
           replace (Nat.min Mn (S Mn)) with Mn by lia. replace (Nat.min m Mn) with m by lia. nat_bools.
        -- nat_bools.
    + cbn [firstn skipn app].
      set (L := firstn Mn P ++ [join [slash] (skipn Mn P)]).
      assert (HL : length L = S Mn).
      { unfold L. rewrite app_length, firstn_length. cbn [length]. lia. }
      rewrite sp_post_eval by exact Hm. rewrite HL, Nat.eqb_refl. cbn [negb andb].
      assert (Hnth : nth Mn L [] = join [slash] (skipn Mn P)).
      { unfold L. rewrite app_nth2; rewrite firstn_length; [|lia].
        replace (Mn - Nat.min Mn (length P))%nat with 0%nat by lia. reflexivity. }
      rewrite Hnth.
      assert (Hj : join [slash] (skipn Mn P) <> []).
      { apply join_two_nonnil. rewrite skipn_length. lia. }
      destruct (join [slash] (skipn Mn P)); [congruence|]. cbn [str_truth].
      rewrite orb_true_r. nat_bools.
Qed.

(* paths that do not start with '/' *)
Lemma split_noslash (m : nat) M rwl path k : (1 <= m)%nat ->
  (forall body, path <> slash :: body) ->
  sp_post (Z.of_nat m) M rwl (splitc_max slash path k) = Exn ValueError.
Proof.
  intros Hm Hns. destruct path as [|x t].
  - cbn [splitc_max]. unfold sp_post. cbn [hd str_truth orb]. unfold llen. cbn [length].
    replace (Z.of_nat 1 <? Z.of_nat m + 1) with true by lia. reflexivity.
  - assert (Hx : (x =? slash)%N = false).
    { apply N.eqb_neq. intros ->. apply (Hns t). reflexivity. }
    assert (Hhd : exists h r, splitc_max slash (x :: t) k = (x :: h) :: r).
    { destruct k as [|k']; cbn [splitc_max]; [eauto|]. rewrite Hx.
      destruct (splitc_max slash t (S k')) as [|h r]; cbn [cons_hd]; eauto. }
    destruct Hhd as (h & r & ->). unfold sp_post. reflexivity.
Qed.

(* ------------------------------------------------------------------ the declarative reading *)
Lemma segments_splitc body : segments body = splitc slash body.
Proof. apply split_char_splitc. Qed.

(* what "the segments" are: '/'-free pieces whose '/'-join is the text, and the only such *)
Lemma segments_join body : join [slash] (segments body) = body.
Proof. rewrite segments_splitc. apply join_splitc. Qed.
Lemma segments_no_slash body : Forall (fun p => ~ In slash p) (segments body).
Proof. rewrite segments_splitc. apply splitc_no_sep. Qed.
Lemma segments_unique body l :
  l <> [] -> Forall (fun p => ~ In slash p) l -> join [slash] l = body -> l = segments body.
Proof. intros Hn Hf <-. rewrite segments_splitc. symmetry. apply splitc_unique; assumption. Qed.

Lemma last_app_single {A} (l : list A) x d : last (l ++ [x]) d = x.
Proof. induction l as [|y l IH]; [reflexivity|]. destruct l as [|z l']; [reflexivity|]. exact IH. Qed.

Lemma decl_lead_sound rwl M P lead : decl_lead rwl M P = Some lead -> leading rwl M P lead.
Proof.
  unfold decl_lead. destruct (Nat.leb_spec (length P) M) as [Hle|Hgt].
  - intros [= <-]. apply lead_all. exact Hle.
  - destruct rwl.
    + intros [= <-]. apply lead_rest; [reflexivity|lia].
    + destruct (Nat.eqb_spec (length P) (S M)) as [He|Hne]; cbn [andb]; [|discriminate].
      destruct (last P [1%N]) as [|z zs] eqn:El; cbn [is_nil]; [|discriminate].
      intros [= <-]. apply lead_trailing; [reflexivity| |rewrite firstn_length; lia].
      rewrite <- (firstn_skipn M P) at 1. f_equal.
      assert (Hs : length (skipn M P) = 1%nat) by (rewrite skipn_length; lia).
      destruct (skipn M P) as [|s [|s2 r]] eqn:Es; cbn in Hs; try lia.
      f_equal. rewrite <- (firstn_skipn M P), Es, last_app_single in El. exact El.
Qed.

Lemma decl_lead_complete rwl M P lead : leading rwl M P lead -> decl_lead rwl M P = Some lead.
Proof.
  intros H. unfold decl_lead. destruct H as [Hle|Hr Hgt|Hr l HP Hl].
  - destruct (Nat.leb_spec (length P) M); [reflexivity|lia].
  - destruct (Nat.leb_spec (length P) M); [lia|]. rewrite Hr. reflexivity.
  - assert (Hn : length P = S M) by (rewrite HP, app_length; cbn [length]; lia).
    destruct (Nat.leb_spec (length P) M); [lia|]. rewrite Hr, Hn, Nat.eqb_refl.
    rewrite HP, last_app_single. cbn [andb is_nil]. rewrite firstn_app, firstn_all2 by lia.
    replace (M - length l)%nat with 0%nat by lia. cbn [firstn]. rewrite app_nil_r. reflexivity.
Qed.

Lemma leading_length rwl M P lead : (1 <= M)%nat -> leading rwl M P lead -> (length lead <= M)%nat.
Proof.
  intros HM H. destruct H as [Hle|Hr Hgt|Hr l HP Hl]; [exact Hle| |apply Nat.eq_le_incl; exact Hl].
  rewrite app_length, firstn_length. cbn [length]. lia.
Qed.

(* every outcome is a list or ValueError, for all arguments whatsoever *)
Theorem split_path_total path minsegs maxsegs rwl :
  (exists r, split_path path minsegs maxsegs rwl = Ok r) \/
  split_path path minsegs maxsegs rwl = Exn ValueError.
Proof.
  rewrite split_path_unfold. cbv zeta.
  destruct (minsegs >? eff_max minsegs maxsegs); [right; reflexivity|].
  unfold sp_post. cbv zeta.
  match goal with |- context [if ?b then Exn ValueError else _] => destruct b end;
    [right; reflexivity|left; eexists; reflexivity].
Qed.

(* the contract *)
Theorem split_path_spec path minsegs maxsegs rwl r : 1 <= minsegs ->
  let M := eff_max minsegs maxsegs in
  split_path path minsegs maxsegs rwl = Ok r <->
  (minsegs <= M /\
   exists lead, accepted path (Z.to_nat minsegs) (Z.to_nat M) rwl lead /\ r = padded (Z.to_nat M) lead).
Proof.
  intros Hmin M. rewrite split_path_unfold. cbv zeta. fold M.
  destruct (Z.gtb_spec minsegs M) as [Hgt|Hle].
  { split; [discriminate|intros [H _]; lia]. }
  set (m := Z.to_nat minsegs). set (Mn := Z.to_nat M).
  assert (Hm : (1 <= m <= Mn)%nat) by lia.
  replace minsegs with (Z.of_nat m) by lia. replace M with (Z.of_nat Mn) by lia.
  assert (Hsplit : forall s k, 0 <= k -> py_split1 s slash k = splitc_max slash s (Z.to_nat k)).
  { intros s k Hk. unfold py_split1. replace (k <? 0) with false by lia. apply split_char_max_splitc. }
  destruct path as [|x body].
  - (* the empty path *)
    rewrite Hsplit by (destruct rwl; lia). rewrite (split_noslash m) by (try lia; discriminate).
    split; [discriminate|]. intros (_ & lead & (body & Hb & _) & _). discriminate.
  - destruct (N.eqb_spec x slash) as [->|Hx].
    + rewrite split_slash by exact Hm. unfold decl_result. rewrite <- segments_splitc.
      split.
      * destruct (decl_lead rwl Mn (segments body)) as [lead|] eqn:Ed; [|discriminate].
        destruct (Nat.leb_spec m (length lead)) as [Hml|]; cbn [andb]; [|discriminate].
        destruct (forallb nonnil (firstn m lead)) eqn:Ef; [|discriminate].
        intros [= <-]. split; [lia|]. exists lead. split; [|reflexivity].
        exists body. split; [reflexivity|]. apply decl_lead_sound in Ed.
        split; [exact Ed|]. split.
        -- split; [exact Hml|]. apply (leading_length rwl Mn (segments body)); [lia|exact Ed].
        -- apply forallb_nonnil. exact Ef.
      * intros (_ & lead & (body' & Hb & Hlead & Hlen & Hne) & ->).
        injection Hb as <-. rewrite (decl_lead_complete _ _ _ _ Hlead).
        destruct (Nat.leb_spec m (length lead)); [|lia]. cbn [andb].
        apply forallb_nonnil in Hne. rewrite Hne. reflexivity.
    + rewrite Hsplit by (destruct rwl; lia).
      rewrite (split_noslash m) by (try lia; intros b [= E _]; congruence).
      split; [discriminate|]. intros (_ & lead & (body' & Hb & _) & _). congruence.
Qed.

(* exactly maxsegs entries *)
Lemma padded_length M lead : (length lead <= M)%nat -> length (padded M lead) = M.
Proof. intros H. unfold padded. rewrite app_length, map_length, repeat_length. lia. Qed.

Theorem split_path_length path minsegs maxsegs rwl r : 1 <= minsegs ->
  split_path path minsegs maxsegs rwl = Ok r -> llen r = eff_max minsegs maxsegs.
Proof.
  intros Hmin H. apply split_path_spec in H; [|exact Hmin].
  destruct H as (Hle & lead & (body & _ & _ & Hlen & _) & ->).
  unfold llen. rewrite padded_length by lia. lia.
Qed.

(* minsegs > maxsegs *)
Lemma minsegs_gt_maxsegs_ValueError path minsegs maxsegs rwl :
  minsegs > eff_max minsegs maxsegs -> split_path path minsegs maxsegs rwl = Exn ValueError.
Proof. intros H. unfold split_path. destruct (minsegs >? eff_max minsegs maxsegs) eqn:E; [reflexivity|lia]. Qed.

(* every other path *)
Theorem split_path_rejects path minsegs maxsegs rwl : 1 <= minsegs ->
  (forall lead, ~ accepted path (Z.to_nat minsegs) (Z.to_nat (eff_max minsegs maxsegs)) rwl lead) ->
  split_path path minsegs maxsegs rwl = Exn ValueError.
Proof.
  intros Hmin Hno. destruct (split_path_total path minsegs maxsegs rwl) as [[r Hr]|He]; [|exact He].
  apply split_path_spec in Hr; [|exact Hmin]. destruct Hr as (_ & lead & Ha & _). destruct (Hno lead Ha).
Qed.

(* ------------------------------------------------------------------ the tie to the source:
   the statement-by-statement translation of split_path (regenerated from /repo on
   every run) is the model, for all arguments; in particular the two list indexings
   of the source can never raise IndexError. *)
Lemma py_split1_nonnil s c k : py_split1 s c k <> [].
Proof. unfold py_split1. destruct (k <? 0).
  - rewrite split_char_splitc. apply splitc_nonnil.
  - rewrite split_char_max_splitc. apply splitc_max_nonnil. Qed.

Lemma lidx_0 (l : list str) : l <> [] -> lidx l 0 = Ok (hd [] l).
Proof. destruct l as [|x l]; [congruence|]. intros _. unfold lidx. rewrite llen_cons.
  pose proof (llen_nonneg l). replace (0 <? 0) with false by lia. cbn [orb].
  replace (1 + llen l <=? 0) with false by lia. reflexivity. Qed.

Lemma lidx_guarded (l : list str) M : l <> [] ->
  res_and (Ok (llen l =? M + 1)) (res_map str_truth (lidx l M)) =
  Ok ((llen l =? M + 1) && str_truth (nth (Z.to_nat M) l [])).
Proof.
  intros Hl. destruct (Z.eqb_spec (llen l) (M + 1)) as [He|Hne]; [|reflexivity].
  cbn [res_and andb]. unfold lidx.
  assert (0 < llen l) by (destruct l; [congruence|rewrite llen_cons; pose proof (llen_nonneg l); lia]).
  replace (M <? 0) with false by lia. replace (M <? 0) with false by lia. cbn [orb].
  replace (llen l <=? M) with false by lia.
  rewrite (nth_error_nth' l []) by (unfold llen in *; lia). reflexivity.
Qed.

Lemma res_or_Ok a b : res_or (Ok a) (Ok b) = Ok (a || b).
Proof. destruct a; reflexivity. Qed.

Theorem gen_split_path_equiv path minsegs maxsegs rwl :
  gen_split_path path minsegs maxsegs rwl = split_path path minsegs maxsegs rwl.
Proof.
  rewrite split_path_unfold. unfold gen_split_path, eff_max. cbv zeta.
  assert (Hcore : forall M,
    (if minsegs >? M then Exn ValueError
     else if rwl
     then match
            res_or (res_map str_truth (lidx (py_split1 path 47%N M) 0))
              (res_or (Ok (llen (py_split1 path 47%N M) <? minsegs + 1))
                 (res_or (Ok (llen (py_split1 path 47%N M) >? M + 1))
                    (Ok (str_in ([]%N : bytes) (lslice (Some 1) (Some (minsegs + 1)) (py_split1 path 47%N M))))))
          with
          | Exn e__ => Exn e__
          | Ok c__ =>
              if c__ then Exn ValueError
              else Ok (pad_none (lslice (Some 1) (Some (M + 1)) (py_split1 path 47%N M))
                         (M + 1 - 1 - llen (lslice (Some 1) (Some (M + 1)) (py_split1 path 47%N M))))
          end
     else match
            res_or (res_map str_truth (lidx (py_split1 path 47%N (M + 1)) 0))
              (res_or (Ok (llen (py_split1 path 47%N (M + 1)) <? minsegs + 1))
                 (res_or (Ok (llen (py_split1 path 47%N (M + 1)) >? M + 1 + 1))
                    (res_or (Ok (str_in ([]%N : bytes) (lslice (Some 1) (Some (minsegs + 1)) (py_split1 path 47%N (M + 1)))))
                       (res_and (Ok (llen (py_split1 path 47%N (M + 1)) =? M + 1 + 1))
                          (res_map str_truth (lidx (py_split1 path 47%N (M + 1)) (M + 1)))))))
          with
          | Exn e__ => Exn e__
          | Ok c__ =>
              if c__ then Exn ValueError
              else Ok (pad_none (lslice (Some 1) (Some (M + 1)) (py_split1 path 47%N (M + 1)))
                         (M + 1 - 1 - llen (lslice (Some 1) (Some (M + 1)) (py_split1 path 47%N (M + 1)))))
          end) =
    (if minsegs >? M then Exn ValueError
     else sp_post minsegs M rwl (py_split1 path slash (if rwl then M else M + 1)))).
  { intros M. destruct (minsegs >? M); [reflexivity|]. unfold sp_post, slash. cbv zeta.
    destruct rwl.
    - set (segs := py_split1 path 47%N M). pose proof (py_split1_nonnil path 47%N M) as Hn. fold segs in Hn.
      rewrite lidx_0 by exact Hn. cbn [res_map]. rewrite !res_or_Ok.
      cbn [negb andb]. rewrite !orb_false_r, !orb_assoc.
      replace (M + 1 - 1) with M by lia.
      match goal with |- context [if ?b then Exn ValueError else _] => destruct b end; reflexivity.
    - set (segs := py_split1 path 47%N (M + 1)). pose proof (py_split1_nonnil path 47%N (M + 1)) as Hn. fold segs in Hn.
      rewrite lidx_0 by exact Hn. rewrite lidx_guarded by exact Hn. cbn [res_map]. rewrite !res_or_Ok.
      cbn [negb andb]. rewrite !orb_assoc.
      replace (M + 1 + 1) with (M + 2) by lia. replace (M + 1 - 1) with M by lia.
      match goal with |- context [if ?b then Exn ValueError else _] => destruct b end; reflexivity. }
  destruct maxsegs as [sm|]; [destruct (sm =? 0)|]; apply Hcore.
Qed.

(* ------------------------------------------------------------------ the same statements about the
   translated source (what Properties/C19.v exposes) *)
Theorem gen_split_path_spec path minsegs maxsegs rwl r : 1 <= minsegs ->
  let M := eff_max minsegs maxsegs in
  gen_split_path path minsegs maxsegs rwl = Ok r <->
  (minsegs <= M /\
   exists lead, accepted path (Z.to_nat minsegs) (Z.to_nat M) rwl lead /\ r = padded (Z.to_nat M) lead).
Proof. rewrite gen_split_path_equiv. apply split_path_spec. Qed.
Theorem gen_split_path_total path minsegs maxsegs rwl :
  (exists r, gen_split_path path minsegs maxsegs rwl = Ok r) \/
  gen_split_path path minsegs maxsegs rwl = Exn ValueError.
Proof. rewrite gen_split_path_equiv. apply split_path_total. Qed.
Theorem gen_split_path_length path minsegs maxsegs rwl r : 1 <= minsegs ->
  gen_split_path path minsegs maxsegs rwl = Ok r -> llen r = eff_max minsegs maxsegs.
Proof. rewrite gen_split_path_equiv. apply split_path_length. Qed.
Theorem gen_split_path_rejects path minsegs maxsegs rwl : 1 <= minsegs ->
  (forall lead, ~ accepted path (Z.to_nat minsegs) (Z.to_nat (eff_max minsegs maxsegs)) rwl lead) ->
  gen_split_path path minsegs maxsegs rwl = Exn ValueError.
Proof. rewrite gen_split_path_equiv. apply split_path_rejects. Qed.
Theorem gen_minsegs_gt_maxsegs path minsegs maxsegs rwl :
  minsegs > eff_max minsegs maxsegs -> gen_split_path path minsegs maxsegs rwl = Exn ValueError.
Proof. rewrite gen_split_path_equiv. apply minsegs_gt_maxsegs_ValueError. Qed.

Theorem segments_characterised body :
  join [slash] (segments body) = body /\
  Forall (fun p => ~ In slash p) (segments body) /\
  (forall l, l <> [] -> Forall (fun p => ~ In slash p) l -> join [slash] l = body -> l = segments body).
Proof. split; [apply segments_join|]. split; [apply segments_no_slash|]. intros l. apply segments_unique. Qed.

(* non-vacuity / docstring examples *)
From Coq Require Import String.
Example split_path_examples :
  gen_split_path (lit "/a") 1 None false = Ok [Some (lit "a")] /\
  gen_split_path (lit "/a") 1 (Some 2) false = Ok [Some (lit "a"); None] /\
  gen_split_path (lit "/a/c") 1 (Some 2) false = Ok [Some (lit "a"); Some (lit "c")] /\
  gen_split_path (lit "/a/c/o/r") 1 (Some 3) true = Ok [Some (lit "a"); Some (lit "c"); Some (lit "o/r")] /\
  gen_split_path (lit "/a/c/") 1 (Some 2) false = Ok [Some (lit "a"); Some (lit "c")] /\
  gen_split_path (lit "/a/") 1 (Some 2) false = Ok [Some (lit "a"); Some []] /\
  gen_split_path (lit "/a/c//") 1 (Some 2) false = Exn ValueError /\
  gen_split_path (lit "a/c") 1 (Some 2) false = Exn ValueError /\
  gen_split_path (lit "//c") 1 (Some 2) false = Exn ValueError /\
  gen_split_path (lit "/a") 3 (Some 2) false = Exn ValueError.
Proof. vm_compute. repeat split; reflexivity. Qed.
Example accepted_example :
  accepted (lit "/a/c/o/r") 1 3 true [lit "a"; lit "c"; lit "o/r"].
Proof.
  exists (lit "a/c/o/r"). split; [reflexivity|]. split.
  - change (segments (lit "a/c/o/r")) with [lit "a"; lit "c"; lit "o"; lit "r"].
    apply (lead_rest true 3 [lit "a"; lit "c"; lit "o"; lit "r"]); [reflexivity|cbn; lia].
  - split; [cbn; lia|]. repeat constructor; discriminate.
Qed.
(* outside the range of the property (minsegs < 1) the reading "starts with '/'" fails:
   the empty path is accepted with minsegs = 0 *)
Example split_path_minsegs0_witness : gen_split_path [] 0 None false = Ok [].
Proof. vm_compute. reflexivity. Qed.
