(* Proofs/C19_SplitPath.v *)
Require Import OV.Base.Bytes OV.Base.Py OV.Base.Str OV.Base.C19_PyList.
Require Import OV.Gen.C19_Grammar OV.Gen.C19_SplitPath OV.Model.C19.
Open Scope Z_scope.

Lemma minsegs_gt_maxsegs_ValueError path minsegs maxsegs rwl :
  minsegs > eff_max minsegs maxsegs -> split_path path minsegs maxsegs rwl = Exn ValueError.
Proof. intros H. unfold split_path. destruct (minsegs >? eff_max minsegs maxsegs) eqn:E; [reflexivity|lia]. Qed.
