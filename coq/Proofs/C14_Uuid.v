(* Proofs/C14_Uuid.v — is_uuid_like, _format_uuid_string, generate_uuid *)
From Coq Require Import String.
Require Import OV.Base.Bytes OV.Base.Py OV.Base.PyInt OV.Base.Str OV.Gen.Unicode.
Require Import OV.Model.C14_Py OV.Gen.C14 OV.Model.C14 OV.Proofs.C14_Str OV.Proofs.C14_Int.
Open Scope N_scope.

(* ---------------------------------------------------------------- replace / strip_chars *)
Lemma replace_go_nomatch old new c t :
  prefixb old (c :: t) = false -> replace_go old new (c :: t) 0 = c :: replace_go old new t 0.
Proof. intros H. cbn [replace_go]. rewrite H. reflexivity. Qed.

(* s.replace(c, '') removes every c *)
Lemma replace_single_filter c s : replace [c] [] s = filter (fun x => negb (x =? c)) s.
Proof.
  unfold replace. induction s as [|x t IH]; [reflexivity|].
  cbn [replace_go prefixb filter length Nat.sub app]. rewrite andb_true_r.
  rewrite (N.eqb_sym c x). destruct (x =? c); cbn [negb]; [exact IH|f_equal; exact IH].
Qed.

(* the pattern's first character does not occur: nothing is replaced *)
Lemma replace_absent o old new s : ~ In o s -> replace (o :: old) new s = s.
Proof.
  unfold replace. induction s as [|x t IH]; intros H; [reflexivity|].
  rewrite replace_go_nomatch.
  - f_equal. apply IH. intros Hin. apply H. right. exact Hin.
  - cbn [prefixb]. replace (o =? x) with false; [reflexivity|].
    symmetry. apply N.eqb_neq. intros ->. apply H. left. reflexivity.
Qed.

Lemma replace_go_skip old new a s : replace_go old new (a ++ s) (length a) = replace_go old new s 0.
Proof.
  induction a as [|x a IH]; [reflexivity|]. cbn [app length]. destruct s as [|y s'] eqn:E.
  - rewrite app_nil_r in *. cbn [replace_go]. exact IH.
  - rewrite <- E in *. cbn [replace_go]. exact IH.
Qed.

(* a leading occurrence of the pattern is removed *)
Lemma replace_prefix o old s : replace (o :: old) [] ((o :: old) ++ s) = replace (o :: old) [] s.
Proof.
  unfold replace. cbn [app replace_go]. change (o :: old ++ s) with ((o :: old) ++ s).
  rewrite prefixb_app. cbn [app length Nat.sub]. rewrite Nat.sub_0_r. apply replace_go_skip.
Qed.

Lemma lstrip_chars_none chars s : match s with [] => True | c :: _ => memN c chars = false end ->
  lstrip_chars chars s = s.
Proof. destruct s as [|c t]; [reflexivity|]. intros H. cbn [lstrip_chars]. rewrite H. reflexivity. Qed.

Lemma lstrip_chars_app chars pre x : forallb (fun c => memN c chars) pre = true ->
  lstrip_chars chars (pre ++ x) = lstrip_chars chars x.
Proof.
  induction pre as [|c pre IH]; intros H; [reflexivity|].
  cbn [forallb] in H. apply andb_true_iff in H. destruct H as [Hc Hp].
  cbn [app lstrip_chars]. rewrite Hc. apply IH, Hp.
Qed.

Definition ends_outside (chars x : str) : bool :=
  match x with [] => false | c :: _ => negb (memN c chars) && negb (memN (last x 0) chars) end.

Lemma strip_chars_unique chars pre x post :
  forallb (fun c => memN c chars) pre = true -> forallb (fun c => memN c chars) post = true ->
  ends_outside chars x = true -> strip_chars chars (pre ++ x ++ post) = x.
Proof.
  intros Hpre Hpost Hx. unfold strip_chars.
  destruct x as [|c t]; [discriminate|]. cbn [ends_outside] in Hx.
  apply andb_true_iff in Hx. destruct Hx as [Hc Hl]. apply negb_true_iff in Hc, Hl.
  rewrite lstrip_chars_app by exact Hpre.
  rewrite (lstrip_chars_none chars ((c :: t) ++ post)) by exact Hc.
  rewrite rev_app_distr. rewrite lstrip_chars_app by (rewrite forallb_rev; exact Hpost).
  assert (Hne : c :: t <> []) by discriminate.
  pose proof (hd_rev_last (c :: t) 0 Hne) as Hh.
  destruct (rev (c :: t)) as [|r rt] eqn:Er.
  - apply (f_equal (@length N)) in Er. rewrite rev_length in Er. discriminate.
  - cbn [hd] in Hh. rewrite lstrip_chars_none by (rewrite Hh; exact Hl).
    rewrite <- Er. apply rev_involutive.
Qed.

(* ---------------------------------------------------------------- hyphenate *)
Lemma bsub_bskip lo hi (x : str) : lo <= hi -> bsub lo hi x ++ bskip hi x = bskip lo x.
Proof.
  intros H. unfold bsub. rewrite <- (btake_bskip_app (hi - lo) (bskip lo x)) at 2.
  f_equal. rewrite bskip_bskip. f_equal. lia.
Qed.

Lemma pieces_join (x : str) : bsub 0 8 x ++ bsub 8 12 x ++ bsub 12 16 x ++ bsub 16 20 x ++ bskip 20 x = x.
Proof.
  rewrite (bsub_bskip 16 20) by lia. rewrite (bsub_bskip 12 16) by lia.
  rewrite (bsub_bskip 8 12) by lia. rewrite (bsub_bskip 0 8) by lia. reflexivity.
Qed.

Definition not_hyphen (c : N) : bool := negb (c =? 45).

Lemma filter_all {A} (p : A -> bool) l : forallb p l = true -> filter p l = l.
Proof.
  induction l as [|x l IH]; intros H; [reflexivity|]. cbn [forallb] in H. apply andb_true_iff in H.
  destruct H as [Hx Hl]. cbn [filter]. rewrite Hx, (IH Hl). reflexivity.
Qed.

(* removing the hyphens of the 8-4-4-4-12 form gives the digits back *)
Lemma unhyphenate x : forallb not_hyphen x = true -> replace [45] [] (hyphenate x) = x.
Proof.
  intros H. rewrite replace_single_filter. fold not_hyphen. unfold hyphenate.
  rewrite !filter_app. change (filter not_hyphen [45]) with (@nil N). cbn [app].
  rewrite <- !filter_app. rewrite pieces_join. apply filter_all, H.
Qed.

Lemma lhex_not_hyphen x : forallb is_lhex x = true -> forallb not_hyphen x = true.
Proof.
  intros H. rewrite forallb_forall in *. intros c Hc. specialize (H c Hc).
  unfold is_lhex, not_hyphen in *. lia.
Qed.

Lemma hex_not_hyphen x : forallb is_hex x = true -> forallb not_hyphen x = true.
Proof.
  intros H. rewrite forallb_forall in *. intros c Hc. specialize (H c Hc).
  unfold is_hex, not_hyphen in *. lia.
Qed.

(* str(u) without its hyphens is u.hex *)
Lemma uuid_str_unhyphen n : replace [45] [] (uuid_str n) = uuid_hex n.
Proof. unfold uuid_str, uuid_hex. apply unhyphenate, lhex_not_hyphen, hex32_lhex. Qed.

(* ---------------------------------------------------------------- is_uuid_like *)
Definition cs_hex : list N := [48; 49; 50; 51; 52; 53; 54; 55; 56; 57; 97; 98; 99; 100; 101; 102].

(* no non-ASCII code point lowers into a hexadecimal digit (generated tables) *)
Lemma no_nonascii_folds_into_hex : lower_avoids cs_hex = true.
Proof. vm_compute. reflexivity. Qed.

Lemma lhex_in_cs c : is_lhex c = true -> In c cs_hex.
Proof. unfold is_lhex, cs_hex. cbn [In]. intros H. lia. Qed.

(* 32 lower-case hexadecimal digits *)
Definition is_hex32l (x : str) : bool := (blen x =? 32) && forallb is_lhex x.

Lemma lhex_lower_hex c : is_lhex (lower_ascii1 c) = true -> is_hex c = true.
Proof.
  unfold lower_ascii1, is_lhex, is_hex. destruct ((65 <=? c) && (c <=? 90)) eqn:E; intros H; lia.
Qed.

Lemma blen_length (x : str) k : length x = k -> blen x = N.of_nat k.
Proof. intros <-. reflexivity. Qed.

Lemma catches_uuid_VE : catches [TypeError; ValueError; AttributeError] ValueError = true. Proof. reflexivity. Qed.

Lemma two_128 : (2 ^ 128)%Z = Z.of_N (16 ^ 32). Proof. reflexivity. Qed.

Theorem is_uuid_like_iff lim s :
  is_uuid_like lim (PStr s) = Ok true <-> is_hex32l (format_uuid_string s) = true.
Proof.
  unfold is_uuid_like, try_except, bind, format_uuid_string. cbn [uuid_UUID need_str].
  set (h := uuid_strip s). split.
  - destruct (negb (blen h =? 32)); [rewrite catches_uuid_VE; discriminate|].
    destruct (int_parse lim 16 h) as [z|]; [|rewrite catches_uuid_VE; discriminate].
    destruct ((0 <=? z)%Z && (z <? 2 ^ 128)%Z); [|rewrite catches_uuid_VE; discriminate].
    intros H. assert (Hb : beq (replace [45] [] (uuid_str (Z.to_N z))) (py_lower h) = true) by congruence.
    apply beq_eq in Hb. unfold uuid_str in Hb.
    destruct (hex32_lhex (Z.to_N z)) as [H1 H2].
    rewrite unhyphenate in Hb by (apply lhex_not_hyphen, H1).
    rewrite <- Hb. unfold is_hex32l. rewrite H1, (blen_length _ _ H2). reflexivity.
  - intros H. unfold is_hex32l in H. apply andb_true_iff in H. destruct H as [Hlen Hall].
    apply N.eqb_eq in Hlen.
    destruct (py_lower_all_in cs_hex no_nonascii_folds_into_hex h) as [Hlow Hascii].
    { intros a Ha. apply lhex_in_cs. rewrite forallb_forall in Hall. apply Hall, Ha. }
    rewrite Hlow in Hlen, Hall.
    assert (Hhex : forallb is_hex h = true).
    { unfold lower_ascii in Hall. rewrite forallb_forall in *. intros c Hc.
      apply lhex_lower_hex. apply Hall. apply in_map. exact Hc. }
    assert (Hl : length h = 32%nat).
    { unfold lower_ascii, blen in Hlen. rewrite map_length in Hlen. lia. }
    rewrite (blen_length h 32 Hl). cbn [N.eqb N.of_nat Pos.of_succ_nat Pos.succ Pos.eqb negb].
    assert (Hne : h <> []) by (intros E; rewrite E in Hl; discriminate).
    rewrite (int_parse_hex lim h Hhex Hne).
    pose proof (hval_bound h Hhex) as Hb. rewrite (blen_length h 32 Hl) in Hb.
    change (N.of_nat 32) with 32 in Hb.
    rewrite two_128.
    replace ((0 <=? Z.of_N (hval h 0))%Z && (Z.of_N (hval h 0) <? Z.of_N (16 ^ 32))%Z) with true by lia.
    rewrite N2Z.id. unfold uuid_str.
    destruct (hex32_lhex (hval h 0)) as [H1 _].
    rewrite unhyphenate by (apply lhex_not_hyphen, H1).
    rewrite (hex32_hval h Hhex Hl), Hlow, beq_refl. reflexivity.
Qed.

(* is_uuid_like never raises *)
Lemma is_uuid_like_total lim v : is_uuid_like lim v = Ok true \/ is_uuid_like lim v = Ok false.
Proof.
  unfold is_uuid_like, try_except, bind. destruct v as [s|z|b| |sv iv]; cbn [uuid_UUID need_str]; auto.
  destruct (negb (blen (uuid_strip s) =? 32)); [right; reflexivity|].
  destruct (int_parse lim 16 (uuid_strip s)) as [z|]; [|right; reflexivity].
  destruct ((0 <=? z)%Z && (z <? 2 ^ 128)%Z); [|right; reflexivity].
  destruct (beq _ _); auto.
Qed.

Lemma is_uuid_like_nonstr lim v : is_str v = false -> is_uuid_like lim v = Ok false.
Proof. destruct v; try discriminate; reflexivity. Qed.

(* ---------------------------------------------------------------- the accepted spellings *)
Definition hexdigits32 (x : str) : bool := (length x =? 32)%nat && forallb is_hex x.

Lemma is_hex_not_u x : forallb is_hex x = true -> ~ In 117 x.
Proof. intros H Hin. rewrite forallb_forall in H. specialize (H _ Hin). discriminate. Qed.

Lemma py_lower_ascii_all x : Forall (fun c => c < 128) x -> py_lower x = lower_ascii x.
Proof.
  induction 1 as [|c t Hc Ht IH]; [reflexivity|]. unfold py_lower, lower_ascii in *. cbn [flat_map map].
  rewrite py_lower1_ascii by exact Hc. cbn [app]. f_equal. exact IH.
Qed.

Lemma lower_hex32 x : hexdigits32 x = true -> is_hex32l (lower_ascii x) = true /\ py_lower x = lower_ascii x.
Proof.
  unfold hexdigits32, is_hex32l. intros H. apply andb_true_iff in H. destruct H as [Hl Hh].
  apply Nat.eqb_eq in Hl. split.
  - unfold lower_ascii. rewrite (blen_length _ 32) by (rewrite map_length; exact Hl).
    cbn [N.eqb N.of_nat Pos.of_succ_nat Pos.succ Pos.eqb andb].
    rewrite forallb_forall in *. intros c Hc. apply in_map_iff in Hc. destruct Hc as (a & <- & Ha).
    specialize (Hh a Ha). unfold is_hex, is_lhex, lower_ascii1 in *.
    destruct ((65 <=? a) && (a <=? 90)) eqn:E; lia.
  - apply py_lower_ascii_all. pose proof (is_hex_lt_127 x Hh) as F.
    eapply Forall_impl; [|exact F]. cbn beta. intros a Ha. lia.
Qed.

(* strings over hex digits, hyphens and braces contain none of the letters of "urn:" / "uuid:" *)
Definition plain_char (c : N) : bool := is_hex c || (c =? 45) || (c =? 123) || (c =? 125).

Lemma plain_not_u y : forallb plain_char y = true -> ~ In 117 y.
Proof. intros H Hin. rewrite forallb_forall in H. specialize (H _ Hin). discriminate. Qed.

Lemma uuid_strip_plain y : forallb plain_char y = true ->
  uuid_strip y = replace [45] [] (strip_chars [123; 125] y).
Proof.
  intros H. unfold uuid_strip. change (lit "urn:") with [117; 114; 110; 58]. change (lit "uuid:") with [117; 117; 105; 100; 58].
  change (lit "{}") with [123; 125].
  rewrite (replace_absent 117 [114; 110; 58] [] y) by (apply plain_not_u, H).
  rewrite (replace_absent 117 [117; 105; 100; 58] [] y) by (apply plain_not_u, H). reflexivity.
Qed.

Lemma uuid_strip_urn y : forallb plain_char y = true ->
  uuid_strip (lit "urn:uuid:" ++ y) = replace [45] [] (strip_chars [123; 125] y).
Proof.
  intros H. rewrite <- (uuid_strip_plain y H). unfold uuid_strip.
  change (lit "urn:uuid:" ++ y) with (lit "urn:" ++ (lit "uuid:" ++ y)).
  change (lit "urn:") with [117; 114; 110; 58]. change (lit "uuid:") with [117; 117; 105; 100; 58].
  rewrite replace_prefix.
  assert (E : replace [117; 114; 110; 58] [] ([117; 117; 105; 100; 58] ++ y) = [117; 117; 105; 100; 58] ++ replace [117; 114; 110; 58] [] y).
  { unfold replace. cbn [app]. do 5 (rewrite replace_go_nomatch by reflexivity). reflexivity. }
  rewrite E. rewrite (replace_absent 117 [114; 110; 58] [] y) by (apply plain_not_u, H).
  rewrite replace_prefix. reflexivity.
Qed.

Lemma hyphenate_plain x : forallb is_hex x = true -> forallb plain_char (hyphenate x) = true.
Proof.
  intros H. assert (P : forall z : str, forallb is_hex z = true -> forallb plain_char z = true).
  { intros z Hz. rewrite forallb_forall in *. intros c Hc. unfold plain_char. rewrite (Hz c Hc). reflexivity. }
  assert (T : forall n (z : str), forallb is_hex z = true -> forallb is_hex (btake n z) = true /\ forallb is_hex (bskip n z) = true).
  { intros n z Hz. rewrite <- (btake_bskip_app n z) in Hz. rewrite forallb_app in Hz. apply andb_true_iff in Hz. exact Hz. }
  assert (Tt : forall n (z : str), forallb is_hex z = true -> forallb is_hex (btake n z) = true) by (intros n z Hz; apply (T n z Hz)).
  assert (Ts : forall n (z : str), forallb is_hex z = true -> forallb is_hex (bskip n z) = true) by (intros n z Hz; apply (T n z Hz)).
  unfold hyphenate, bsub. rewrite !forallb_app. cbn [forallb].
  assert (P45 : plain_char 45 = true) by reflexivity. rewrite !P45.
  repeat (apply andb_true_iff; split); try reflexivity; apply P; first [apply Tt, Ts, H | apply Ts, H].
Qed.

Lemma strip_braces_none y : ends_outside [123; 125] y = true -> strip_chars [123; 125] y = y.
Proof.
  intros H. pose proof (strip_chars_unique [123; 125] [] y [] eq_refl eq_refl H) as E.
  cbn [app] in E. rewrite app_nil_r in E. exact E.
Qed.

Lemma strip_braces_braced y : ends_outside [123; 125] y = true -> strip_chars [123; 125] ([123] ++ y ++ [125]) = y.
Proof. intros H. apply strip_chars_unique; [reflexivity|reflexivity|exact H]. Qed.

Lemma hex_ends_outside x : forallb is_hex x = true -> x <> [] -> ends_outside [123; 125] x = true.
Proof.
  intros H Hne. destruct x as [|c t]; [congruence|]. cbn [ends_outside].
  assert (Hl : In (last (c :: t) 0) (c :: t)).
  { destruct (exists_last Hne) as (l' & a & ->). rewrite last_last. apply in_or_app. right. left. reflexivity. }
  rewrite forallb_forall in H. pose proof (H c (or_introl eq_refl)) as Hc. pose proof (H _ Hl) as Hl'.
  unfold is_hex in *. cbn [memN]. lia.
Qed.

Lemma last_app_ne (a b : str) d : b <> [] -> last (a ++ b) d = last b d.
Proof.
  intros H. destruct (exists_last H) as (b' & z & ->). rewrite app_assoc, !last_last. reflexivity.
Qed.

Lemma hyphenate_ends x : hexdigits32 x = true -> ends_outside [123; 125] (hyphenate x) = true.
Proof.
  unfold hexdigits32. intros H. apply andb_true_iff in H. destruct H as [Hl Hh]. apply Nat.eqb_eq in Hl.
  assert (Hne : x <> []) by (intros E; rewrite E in Hl; discriminate).
  pose proof (hex_ends_outside x Hh Hne) as Hx.
  destruct x as [|a x']; [congruence|]. cbn [ends_outside] in Hx.
  assert (Hs : bskip 20 (a :: x') <> []).
  { intros E. apply (f_equal (@length N)) in E. unfold bskip in E. rewrite skipn_length, Hl in E. discriminate. }
  assert (Hlast : last (hyphenate (a :: x')) 0 = last (a :: x') 0).
  { unfold hyphenate. rewrite !app_assoc. rewrite last_app_ne by exact Hs.
    rewrite <- (btake_bskip_app 20 (a :: x')) at 2. rewrite last_app_ne by exact Hs. reflexivity. }
  assert (Hhd : exists m, hyphenate (a :: x') = a :: m).
  { unfold hyphenate, bsub, btake, bskip. change (N.to_nat (8 - 0)) with 8%nat. change (N.to_nat 0) with 0%nat.
    cbn [skipn firstn app]. eexists. reflexivity. }
  destruct Hhd as [m Hm]. rewrite Hm in *. cbn [ends_outside]. rewrite Hlast. exact Hx.
Qed.

(* every spelling of 32 hex digits x, in any case: plain, hyphenated, braced, urn:uuid: *)
Theorem is_uuid_like_spellings lim x : hexdigits32 x = true ->
  is_uuid_like lim (PStr x) = Ok true /\
  is_uuid_like lim (PStr (hyphenate x)) = Ok true /\
  is_uuid_like lim (PStr ([123] ++ x ++ [125])) = Ok true /\
  is_uuid_like lim (PStr ([123] ++ hyphenate x ++ [125])) = Ok true /\
  is_uuid_like lim (PStr (lit "urn:uuid:" ++ hyphenate x)) = Ok true /\
  is_uuid_like lim (PStr (lit "urn:uuid:" ++ x)) = Ok true.
Proof.
  intros H. pose proof H as H0. unfold hexdigits32 in H0. apply andb_true_iff in H0. destruct H0 as [Hl Hh].
  apply Nat.eqb_eq in Hl. assert (Hne : x <> []) by (intros E; rewrite E in Hl; discriminate).
  destruct (lower_hex32 x H) as [L1 L2].
  assert (P : forallb plain_char x = true).
  { rewrite forallb_forall in *. intros c Hc. unfold plain_char. rewrite (Hh c Hc). reflexivity. }
  assert (Px : uuid_strip x = x).
  { rewrite uuid_strip_plain by exact P. rewrite strip_braces_none by (apply hex_ends_outside; assumption).
    rewrite replace_single_filter. apply filter_all. apply hex_not_hyphen, Hh. }
  assert (Ph : uuid_strip (hyphenate x) = x).
  { rewrite uuid_strip_plain by (apply hyphenate_plain, Hh). rewrite strip_braces_none by (apply hyphenate_ends, H).
    apply unhyphenate, hex_not_hyphen, Hh. }
  assert (B : forall y, forallb plain_char y = true -> forallb plain_char ([123] ++ y ++ [125]) = true).
  { intros y Hy. rewrite !forallb_app, Hy. reflexivity. }
  assert (Pbx : uuid_strip ([123] ++ x ++ [125]) = x).
  { rewrite uuid_strip_plain by (apply B, P). rewrite strip_braces_braced by (apply hex_ends_outside; assumption).
    rewrite replace_single_filter. apply filter_all. apply hex_not_hyphen, Hh. }
  assert (Pbh : uuid_strip ([123] ++ hyphenate x ++ [125]) = x).
  { rewrite uuid_strip_plain by (apply B, hyphenate_plain, Hh). rewrite strip_braces_braced by (apply hyphenate_ends, H).
    apply unhyphenate, hex_not_hyphen, Hh. }
  assert (Puh : uuid_strip (lit "urn:uuid:" ++ hyphenate x) = x).
  { rewrite uuid_strip_urn by (apply hyphenate_plain, Hh). rewrite strip_braces_none by (apply hyphenate_ends, H).
    apply unhyphenate, hex_not_hyphen, Hh. }
  assert (Pux : uuid_strip (lit "urn:uuid:" ++ x) = x).
  { rewrite uuid_strip_urn by exact P. rewrite strip_braces_none by (apply hex_ends_outside; assumption).
    rewrite replace_single_filter. apply filter_all. apply hex_not_hyphen, Hh. }
  repeat split; apply is_uuid_like_iff; unfold format_uuid_string;
    rewrite ?Px, ?Ph, ?Pbx, ?Pbh, ?Puh, ?Pux, L2; exact L1.
Qed.

(* ---------------------------------------------------------------- generate_uuid *)
Lemma lhex_is_hex x : forallb is_lhex x = true -> forallb is_hex x = true.
Proof.
  intros H. rewrite forallb_forall in *. intros c Hc. specialize (H c Hc). unfold is_lhex, is_hex in *. lia.
Qed.

Lemma hex32_digits n : hexdigits32 (hex32 n) = true.
Proof.
  destruct (hex32_lhex n) as [H1 H2]. unfold hexdigits32. rewrite H2, (lhex_is_hex _ H1). reflexivity.
Qed.

(* both shapes that generate_uuid produces are accepted, whatever uuid4() returned *)
Theorem generate_uuid_accepted lim u4 dashed : is_uuid_like lim (PStr (generate_uuid u4 dashed)) = Ok true.
Proof.
  destruct (is_uuid_like_spellings lim (hex32 u4) (hex32_digits u4)) as (H1 & H2 & _).
  unfold generate_uuid, uuid_str, uuid_hex. destruct dashed; assumption.
Qed.

(* the two shapes *)
Lemma generate_uuid_shape u4 :
  generate_uuid u4 false = hex32 u4 /\ generate_uuid u4 true = hyphenate (hex32 u4) /\
  is_hex32l (hex32 u4) = true.
Proof.
  split; [reflexivity|]. split; [reflexivity|]. destruct (hex32_lhex u4) as [H1 H2].
  unfold is_hex32l. rewrite H1, (blen_length _ _ H2). reflexivity.
Qed.

Example generate_uuid_examples :
  generate_uuid (16 ^ 31 + 10) true = lit "10000000-0000-0000-0000-00000000000a" /\
  generate_uuid (16 ^ 31 + 10) false = lit "1000000000000000000000000000000a".
Proof. split; vm_compute; reflexivity. Qed.

(* ---------------------------------------------------------------- every decoration the removal tolerates *)
Lemma hex32l_lower_inv h : is_hex32l (py_lower h) = true -> hexdigits32 h = true.
Proof.
  intros H. unfold is_hex32l in H. apply andb_true_iff in H. destruct H as [Hlen Hall]. apply N.eqb_eq in Hlen.
  destruct (py_lower_all_in cs_hex no_nonascii_folds_into_hex h) as [Hlow _].
  { intros a Ha. apply lhex_in_cs. rewrite forallb_forall in Hall. apply Hall, Ha. }
  rewrite Hlow in Hlen, Hall. unfold hexdigits32. apply andb_true_iff. split.
  - unfold lower_ascii, blen in Hlen. rewrite map_length in Hlen. apply Nat.eqb_eq. lia.
  - unfold lower_ascii in Hall. rewrite forallb_forall in *. intros c Hc.
    apply lhex_lower_hex. apply Hall. apply in_map. exact Hc.
Qed.

(* accepted exactly when uuid.UUID's own removal (every 'urn:' and 'uuid:' anywhere, braces at both ends,
   every hyphen) leaves 32 hex digits of any case: any order, nesting or repetition of the decorations *)
Theorem is_uuid_like_iff_strip lim s :
  is_uuid_like lim (PStr s) = Ok true <-> hexdigits32 (uuid_strip s) = true.
Proof.
  rewrite is_uuid_like_iff. unfold format_uuid_string. split; [apply hex32l_lower_inv|].
  intros H. destruct (lower_hex32 _ H) as [L1 L2]. rewrite L2. exact L1.
Qed.

Example nested_decorations :
  let x := lit "0123456789abcdefABCDEF0123456789" in
  is_uuid_like 4300 (PStr (lit "{urn:uuid:" ++ x ++ lit "}")) = Ok true /\
  is_uuid_like 4300 (PStr (lit "{uuid:" ++ x ++ lit "}")) = Ok true /\
  is_uuid_like 4300 (PStr (lit "urn:urn:uuid:" ++ x)) = Ok true /\
  is_uuid_like 4300 (PStr (lit "uuid:urn:{{" ++ hyphenate x ++ lit "}urn:")) = Ok true /\
  is_uuid_like 4300 (PStr (lit "uurn:uid:-" ++ x ++ lit "--")) = Ok true /\
  is_uuid_like 4300 (PStr (lit "URN:UUID:" ++ x)) = Ok false.
Proof. repeat split; vm_compute; reflexivity. Qed.
