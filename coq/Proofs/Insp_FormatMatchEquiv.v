(* Proofs/Insp_FormatMatchEquiv.v — the format_match properties of the ten inspector classes (and
   GPTInspector._check_for_fat), translated statement by statement from the source
   (Gen/Insp_FormatCode.v), equal the hand-written model's f_match. *)
Require Import OV.Base.Bytes OV.Base.Py OV.Base.Insp_Struct OV.Gen.Insp_Consts OV.Model.Insp_Engine OV.Model.Insp_PyPrims.
Require Import OV.Model.Insp_Raw OV.Model.Insp_Qcow2 OV.Model.Insp_Qed OV.Model.Insp_Vhd OV.Model.Insp_Vdi
               OV.Model.Insp_Iso OV.Model.Insp_Gpt OV.Model.Insp_Luks OV.Model.Insp_Vhdx OV.Model.Insp_Vmdk.
Require Import OV.Gen.Insp_EngineCode OV.Gen.Insp_FormatCode.
Require Import OV.Proofs.Insp_EngineEquiv.
Open Scope N_scope.

Ltac fm_start := intros; unfold gen_region, py_getitem, get_region, gen_has_region, py_contains, has_region, rhas, py_region_complete.
Ltac fm_region s n := destruct (rget n (i_regs s)) as [?r|]; cbn [bind]; [|reflexivity].
Ltac fm_ifs := repeat match goal with |- context [if ?b then _ else _] => destruct b end; try reflexivity.

Lemma gen_raw_format_match_equiv s : gen_raw_format_match s = f_match raw_fmt s.
Proof. reflexivity. Qed.

Lemma gen_qcow2_format_match_equiv s : gen_qcow2_format_match s = f_match qcow_fmt s.
Proof.
  cbn [f_match qcow_fmt]. unfold gen_qcow2_format_match, qcow_match. fm_start. fm_region s R_header.
  destruct (negb (rcomplete r)); [reflexivity|]. destruct (i_ext s); reflexivity.
Qed.

Lemma gen_qed_format_match_equiv s : gen_qed_format_match s = f_match qed_fmt s.
Proof.
  cbn [f_match qed_fmt]. unfold gen_qed_format_match, qed_match. fm_start. fm_region s R_header.
  destruct (negb (rcomplete r)); reflexivity.
Qed.

Lemma gen_vhd_format_match_equiv s : gen_vhd_format_match s = f_match vhd_fmt s.
Proof. cbn [f_match vhd_fmt]. unfold gen_vhd_format_match, vhd_match. fm_start. fm_region s R_header. reflexivity. Qed.

Lemma gen_vhdx_format_match_equiv s : gen_vhdx_format_match s = f_match vhdx_fmt s.
Proof. cbn [f_match vhdx_fmt]. unfold gen_vhdx_format_match, vhdx_match. fm_start. fm_region s R_ident. reflexivity. Qed.

Lemma gen_vmdk_format_match_equiv s : gen_vmdk_format_match s = f_match vmdk_fmt s.
Proof.
  cbn [f_match vmdk_fmt]. unfold gen_vmdk_format_match, vmdk_match. fm_start.
  destruct (rget R_header (i_regs s)); reflexivity.
Qed.

Lemma gen_vdi_format_match_equiv s : gen_vdi_format_match s = f_match vdi_fmt s.
Proof.
  cbn [f_match vdi_fmt]. unfold gen_vdi_format_match, vdi_match. fm_start. fm_region s R_header.
  destruct (negb (rcomplete r)); [reflexivity|]. reflexivity.
Qed.

Lemma gen_iso_format_match_equiv s : gen_iso_format_match s = f_match iso_fmt s.
Proof.
  cbn [f_match iso_fmt]. unfold gen_iso_format_match, iso_match. rewrite gen_inspector_complete_equiv. fm_start.
  destruct (negb (complete s)); [reflexivity|]. fm_region s R_header. reflexivity.
Qed.

Lemma gen_gpt_check_for_fat_equiv s : gen_gpt_check_for_fat s = gpt_check_for_fat s.
Proof.
  unfold gen_gpt_check_for_fat, gpt_check_for_fat. fm_start. fm_region s R_mbr.
  destruct (bidx (r_data r) _); cbn [bind]; [|reflexivity]. destruct (bidx (r_data r) _); reflexivity.
Qed.

Lemma gen_gpt_format_match_equiv s : gen_gpt_format_match s = f_match gpt_fmt s.
Proof.
  cbn [f_match gpt_fmt]. unfold gen_gpt_format_match, gpt_match. rewrite gen_gpt_check_for_fat_equiv. fm_start.
  destruct (rget R_mbr (i_regs s)) as [r|] eqn:Hg; cbn [bind]; [|reflexivity].
  destruct (negb (rcomplete r)); [reflexivity|].
  destruct (gpt_check_for_fat s) as [fat|]; cbn [bind]; [|reflexivity].
  cbn [bind]. reflexivity.
Qed.

Lemma gen_luks_format_match_equiv s : gen_luks_format_match s = f_match luks_fmt s.
Proof. cbn [f_match luks_fmt]. unfold gen_luks_format_match, luks_match. fm_start. fm_region s R_header. reflexivity. Qed.
