(* Proofs/C13_Z.v — Z is a totally ordered abelian group and Znum computes in it, so every generic theorem of
   Proofs/C13.v and Proofs/C13_Order.v holds at T := Z; the corollaries below restate the order-dependent ones in
   Z notation (<=, -, Z.max).  Also the non-vacuity instances and negative controls. *)
From Coq Require Import ZArith List Bool Lia Sorting.Sorted.
Require Import OV.Base.Bytes OV.Base.Py OV.Base.C13_Types OV.Model.C13 OV.Model.C13_Order OV.Model.C13_Z.
Require Import OV.Proofs.C13 OV.Proofs.C13_Order.
Import ListNotations.
Open Scope Z_scope.

Lemma Z_ordered_group : ordered_group 0 Z.add Z.opp Z.le Znum.
Proof. constructor; cbn; intros; lia. Qed.

Lemma Zmax0 x : max0 Znum x = Z.max 0 x.
Proof. unfold max0, n_max. cbn. destruct (x >? 0) eqn:E; lia. Qed.

Lemma Zdelta a b : delta Znum a b = Z.max 0 (b - a).
Proof. unfold delta. rewrite Zmax0. reflexivity. Qed.

Lemma Zgleb a b : g_leb Z Znum a b = (a <=? b).
Proof. unfold g_leb. cbn. destruct (a >? b) eqn:E1, (a <=? b) eqn:E2; cbn; lia. Qed.

Lemma Zmonotone clk n : monotone_uptob Z.leb clk n = true -> monotone_upto (g_leb Z Znum) clk n.
Proof. intro H. apply monotone_uptob_spec in H. intros i Hi. rewrite Zgleb. apply H, Hi. Qed.

Lemma Zclamp m e : clamp_max Znum (Some m) e = if e <=? m then e else Z.max 0 m.
Proof. unfold clamp_max. cbn. rewrite Zmax0. destruct (e >? m) eqn:E1, (e <=? m) eqn:E2; lia. Qed.

Section ZCor.
Variable clk : nat -> Z.

Lemma Z_elapsed_nonneg w t m c e : elapsed Znum clk w t m = (c, Ok e) -> 0 <= e.
Proof. exact (g_elapsed_nonneg Z 0 Z.add Z.opp Z.le Znum Z_ordered_group clk w t m c e). Qed.

Lemma Z_history_numbers_nonneg duration w0 ops :
  init Znum duration = Ok w0 ->
  Forall (fun cr => forall z, snd cr = Ok (VNum z) -> 0 <= z) (trace Znum clk ops w0 0%nat).
Proof. exact (g_history_numbers_nonneg Z 0 Z.add Z.opp Z.le Znum Z_ordered_group clk duration w0 ops). Qed.

Lemma Z_elapsed_running w t :
  reachable Znum clk (w, t) -> w_state w = SStarted ->
  exists s, w_started w = Some s /\
    (forall m, elapsed Znum clk w t m = ((w, S t), Ok (clamp_max Znum m (Z.max 0 (clk t - s))))) /\
    (monotone_uptob Z.leb clk (S t) = true -> 0 <= clk t - s /\ elapsed Znum clk w t None = ((w, S t), Ok (clk t - s))).
Proof.
  intros HR HS. destruct (g_elapsed_running Z 0 Z.add Z.opp Z.le Znum Z_ordered_group clk w t HR HS) as (s & Hs & HE & HM).
  exists s. split; [exact Hs|]. split; [intro m; rewrite HE, Zmax0; reflexivity|].
  intro H. apply HM, Zmonotone, H.
Qed.

Lemma Z_elapsed_stopped w t :
  reachable Znum clk (w, t) -> w_state w = SStopped ->
  exists s p, w_started w = Some s /\ w_stopped w = Some p /\
    (forall m, elapsed Znum clk w t m = ((w, t), Ok (clamp_max Znum m (Z.max 0 (p - s))))) /\
    (monotone_uptob Z.leb clk t = true -> 0 <= p - s /\ elapsed Znum clk w t None = ((w, t), Ok (p - s))).
Proof.
  intros HR HS. destruct (g_elapsed_stopped Z 0 Z.add Z.opp Z.le Znum Z_ordered_group clk w t HR HS) as (s & p & Hs & Hp & HE & HM).
  exists s, p. split; [exact Hs|]. split; [exact Hp|]. split; [intro m; rewrite HE, Zmax0; reflexivity|].
  intro H. apply HM, Zmonotone, H.
Qed.

Lemma Z_elapsed_max w t m c e :
  elapsed Znum clk w t (Some m) = (c, Ok e) ->
  exists e0, elapsed Znum clk w t None = (c, Ok e0) /\
             e = (if e0 <=? m then e0 else Z.max 0 m) /\ e <= Z.max 0 m /\ (0 <= m -> e <= m).
Proof.
  intro H. destruct (g_elapsed_max Z 0 Z.add Z.opp Z.le Znum Z_ordered_group clk w t m c e H) as (e0 & HE & Hc & H1 & H2).
  exists e0. rewrite Zgleb, Zmax0 in Hc. rewrite Zmax0 in H1. auto.
Qed.

Lemma Z_leftover_spec w t rn :
  w_state w = SStarted ->
  match w_duration w with
  | Some d => forall c e, elapsed Znum clk w t None = (c, Ok e) ->
                          leftover Znum clk w t rn = (c, Ok (Some (Z.max 0 (d - e))))
  | None => leftover Znum clk w t rn = ((w, t), if rn then Ok None else Exn RuntimeError)
  end.
Proof.
  intro HS. pose proof (leftover_spec Z Znum clk w t rn HS) as H. destruct (w_duration w); [|exact H].
  intros c e HE. rewrite (H c e HE), Zmax0. reflexivity.
Qed.

Lemma Z_expired_spec w t :
  w_state w <> SNone ->
  match w_duration w with
  | Some d => forall c e, elapsed Znum clk w t None = (c, Ok e) ->
                          exists b, expired Znum clk w t = (c, Ok b) /\ (b = true <-> e > d)
  | None => expired Znum clk w t = ((w, t), Ok false)
  end.
Proof.
  intro HS. pose proof (expired_spec Z Znum clk w t HS) as H. destruct (w_duration w) as [d|]; [|exact H].
  intros c e HE. rewrite (H c e HE). eexists. split; [reflexivity|]. cbn. rewrite Z.gtb_gt. reflexivity.
Qed.

Lemma Z_split_records w t c sp :
  split_ Znum clk w t = (c, Ok sp) ->
  exists e, elapsed Znum clk w t None = ((w, snd c), Ok e) /\ sp_elapsed sp = e /\
            sp_length sp = match last_opt (w_splits w) with
                           | Some l => Z.max 0 (e - sp_elapsed l) | None => e end /\
            fst c = set_splits w (w_splits w ++ [sp]).
Proof.
  intro H. destruct (split_records Z Znum clk w t c sp H) as (e & HE & H1 & H2 & H3).
  exists e. split; [exact HE|]. split; [exact H1|]. split; [|exact H3].
  rewrite H2. destruct (last_opt (w_splits w)); [apply Zdelta|reflexivity].
Qed.

Lemma Zdiffs l : forall p, diffs_from Znum p l -> Zdiffs_from p l.
Proof. induction l as [|x r IH]; intros p H; [exact I|]. destruct H as [H1 H2]. split; [exact H1|apply IH, H2]. Qed.

Lemma Z_splits_monotone w t :
  reachable Znum clk (w, t) -> monotone_uptob Z.leb clk t = true ->
  StronglySorted Z.le (map sp_elapsed (w_splits w)) /\ Zdiffs_from 0 (w_splits w).
Proof.
  intros HR HM. destruct (g_splits_monotone Z 0 Z.add Z.opp Z.le Znum Z_ordered_group clk w t HR (Zmonotone clk t HM)) as [H1 H2].
  split; [exact H1|apply Zdiffs, H2].
Qed.

Lemma Z_splits_clamped w t :
  reachable Znum clk (w, t) ->
  clamped_diffs_from Znum None (w_splits w) /\ Forall (fun x => 0 <= sp_elapsed x /\ 0 <= sp_length x) (w_splits w).
Proof.
  intro HR. destruct (splits_clamped Z Znum clk w t HR) as [H1 H2]. split; [exact H1|].
  eapply Forall_impl; [|exact H2]. cbn. intros x [[->|Ha] [->|Hb]]; cbn in *; lia.
Qed.

End ZCor.

(* ===================================================================== *)
(* non-vacuity: instances of the hypotheses, and negative controls        *)
(* ===================================================================== *)

Definition ex_clk : nat -> Z := fun n => 100 + 3 * Z.of_nat n.
Definition ex_back : nat -> Z := fun n => 100 - Z.of_nat n.
Definition ex_watch : watch Z := mkWatch SNone None None [] (Some 5).
Definition ex_ops : list (op Z) := [OStart; OSplit; OSplit; OStop; OResume; OSplit].

Lemma ex_watch_init : init Znum (Some 5) = Ok ex_watch.
Proof. reflexivity. Qed.

(* a reachable running watch under a monotonic clock: start@100, splits@103,106, stop@109, resume, split@112 *)
Example ex_running :
  let c := final Znum ex_clk ex_ops ex_watch 0 in
  reachable Znum ex_clk c /\ w_state (fst c) = SStarted /\ snd c = 5%nat /\
  monotone_uptob Z.leb ex_clk 6 = true /\
  w_splits (fst c) = [mkSplit 3 3; mkSplit 6 3; mkSplit 12 6] /\
  elapsed Znum ex_clk (fst c) 5 None = ((fst c, 6%nat), Ok 15) /\
  elapsed Znum ex_clk (fst c) 5 (Some 4) = ((fst c, 6%nat), Ok 4) /\
  leftover Znum ex_clk (fst c) 5 false = ((fst c, 6%nat), Ok (Some 0)) /\
  expired Znum ex_clk (fst c) 5 = ((fst c, 6%nat), Ok true).
Proof.
  split; [exists (Some 5), ex_watch, ex_ops; split; reflexivity|]. vm_compute. repeat split.
Qed.

(* a reachable stopped watch *)
Example ex_stopped :
  let c := final Znum ex_clk [OStart; OSplit; OStop] ex_watch 0 in
  reachable Znum ex_clk c /\ w_state (fst c) = SStopped /\ monotone_uptob Z.leb ex_clk (snd c) = true /\
  elapsed Znum ex_clk (fst c) (snd c) None = (c, Ok 6) /\
  legal OSplit (fst c) = false /\ legal OResume (fst c) = true /\ legal (OLeftover true) (fst c) = false.
Proof.
  split; [exists (Some 5), ex_watch, [OStart; OSplit; OStop]; split; reflexivity|]. vm_compute. repeat split.
Qed.

(* illegal calls exist in every state; on a fresh watch: stop, resume, split, elapsed, leftover, expired *)
Example ex_illegal :
  map (fun o => legal o ex_watch) (all_ops None false) =
  [true; false; false; true; false; false; false; false; true; true; true; true; true; true] /\
  step Znum ex_clk OResume ex_watch 0 = ((ex_watch, 0%nat), Exn RuntimeError).
Proof. split; reflexivity. Qed.

(* negative control: on a clock that runs backwards the elapsed time is clamped at 0,
   it is NOT the (negative) clock distance — the monotonic-clock hypothesis is needed *)
Example ex_backwards_clock :
  let c := final Znum ex_back [OStart] ex_watch 0 in
  monotone_uptob Z.leb ex_back 2 = false /\
  elapsed Znum ex_back (fst c) (snd c) None = ((fst c, 2%nat), Ok 0) /\ ex_back 1 - ex_back 0 = -1.
Proof. vm_compute. repeat split. Qed.

(* negative control: a negative maximum is answered by 0, which exceeds it — "never exceeds the
   requested maximum" needs 0 <= maximum (it contradicts "never negative" otherwise) *)
Example ex_negative_maximum :
  let c := final Znum ex_clk [OStart] ex_watch 0 in
  elapsed Znum ex_clk (fst c) (snd c) (Some (-1)) = ((fst c, 2%nat), Ok 0).
Proof. vm_compute. reflexivity. Qed.

Lemma elapsed_max_literal_refuted : ~ C13_elapsed_max_full_statement.
Proof.
  intro H.
  specialize (H ex_clk (mkWatch SStarted (Some 100) None [] None) 1%nat (-1) _ _ eq_refl).
  vm_compute in H. apply H. reflexivity.
Qed.

(* instance: the last (re)start of ex_ops ++ [ORestart; OSplit; OStop] is the restart *)
Example ex_last_restart :
  let ops1 := ex_ops in
  let c1 := final Znum ex_clk ops1 ex_watch 0 in
  effective_restart ORestart (fst c1) = true /\
  restarts_in Znum ex_clk [OSplit; OStop] (fst (fst (step Znum ex_clk ORestart (fst c1) (snd c1)))) 7 = false /\
  w_started (fst (final Znum ex_clk (ops1 ++ ORestart :: [OSplit; OStop]) ex_watch 0)) = Some (ex_clk 6).
Proof. vm_compute. repeat split. Qed.
