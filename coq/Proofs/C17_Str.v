(* Proofs/C17_Str.v — convert_version_to_int on STRINGS: the generated suffix regex, split, int(), reduce *)
From Coq Require Import String.
Require Import OV.Base.Bytes OV.Base.Py OV.Base.PyInt OV.Base.Str OV.Base.Regex.
Require Import OV.Gen.Versionutils OV.Model.C17 OV.Model.C17_Spec.
Require Import OV.Proofs.C11_Regex OV.Proofs.C04_Regex OV.Proofs.C11_Split.
Require Import OV.Proofs.C17_Regex OV.Proofs.C17_Suffix OV.Proofs.C17_Int OV.Proofs.C17.
Open Scope N_scope.

(* ---------- the parts of the generated suffix regex ---------- *)
Definition sparts : cset * list str * cset :=
  match suffix_parts suffix_re with Some x => x | None => ([], [], []) end.
Definition suffix_d1 : cset := fst (fst sparts).
Definition suffix_alts : list str := snd (fst sparts).
Definition suffix_d2 : cset := snd sparts.

Lemma suffix_parts_gen : suffix_parts suffix_re = Some (suffix_d1, suffix_alts, suffix_d2).
Proof. vm_compute. reflexivity. Qed.
Lemma suffix_ok : parts_ok suffix_d1 suffix_alts suffix_d2 = true.
Proof. vm_compute. reflexivity. Qed.
Lemma suffix_repl_g1 : repl_is_g1 suffix_repl = true.
Proof. vm_compute. reflexivity. Qed.

(* the five markers of the property text are alternatives of the generated regex *)
Definition spec_suffixes : list str := [lit "a"; lit "alpha"; lit "b"; lit "beta"; lit "rc"].
Lemma spec_suffixes_in : incl spec_suffixes suffix_alts.
Proof. intros x H. cbn in H. vm_compute. intuition (subst; auto 10). Qed.

(* characters of a dotted decimal string: '-', the separator, ASCII digits *)
Definition vchar (c : N) : bool := (c =? 45) || (c =? version_sep) || ascii_digit c.
Definition vchars : list N := [45; version_sep; 48; 49; 50; 51; 52; 53; 54; 55; 56; 57].
Lemma vchar_in c : vchar c = true -> In c vchars.
Proof.
  unfold vchar, ascii_digit, vchars. intros H.
  destruct (c =? 45) eqn:E1; [apply N.eqb_eq in E1; subst; left; reflexivity|].
  destruct (c =? version_sep) eqn:E2; [apply N.eqb_eq in E2; subst; right; left; reflexivity|].
  cbn [orb] in H. right. right.
  assert (Hc : c = 48 \/ c = 49 \/ c = 50 \/ c = 51 \/ c = 52 \/ c = 53 \/ c = 54 \/ c = 55 \/ c = 56 \/ c = 57) by lia.
  cbn. intuition auto 20.
Qed.
Lemma vchars_plain : forallb (fun c => negb (alt_head suffix_alts c)) vchars = true.
Proof. vm_compute. reflexivity. Qed.
Lemma vchar_plain c : vchar c = true -> alt_head suffix_alts c = false.
Proof.
  intros H. pose proof vchars_plain as P. rewrite forallb_forall in P.
  specialize (P c (vchar_in c H)). apply negb_true_iff in P. exact P.
Qed.
Lemma digits_in_d1 : forallb (fun c => cmem c suffix_d1) [48; 49; 50; 51; 52; 53; 54; 55; 56; 57] = true.
Proof. vm_compute. reflexivity. Qed.
Lemma ascii_digit_d1 c : ascii_digit c = true -> cmem c suffix_d1 = true.
Proof.
  intros H. pose proof digits_in_d1 as P. rewrite forallb_forall in P. apply P.
  unfold ascii_digit in H.
  assert (Hc : c = 48 \/ c = 49 \/ c = 50 \/ c = 51 \/ c = 52 \/ c = 53 \/ c = 54 \/ c = 55 \/ c = 56 \/ c = 57) by lia.
  cbn. intuition auto 20.
Qed.
Lemma sep_not_d1 : cmem version_sep suffix_d1 = false. Proof. vm_compute. reflexivity. Qed.
Lemma minus_not_d1 : cmem 45 suffix_d1 = false. Proof. vm_compute. reflexivity. Qed.
Lemma sep_not_digit : ascii_digit version_sep = false. Proof. vm_compute. reflexivity. Qed.
Lemma sep_not_minus : (version_sep =? 45) = false. Proof. vm_compute. reflexivity. Qed.
Lemma sep_not_nl : (version_sep =? 10) = false. Proof. vm_compute. reflexivity. Qed.

(* ---------- dotted decimal strings ---------- *)
Definition dotted (v : list Z) : str := join [version_sep] (map dec_of_Z v).

Lemma dec_split z : exists sg dg, dec_of_Z z = sg ++ dg /\ (sg = [] \/ sg = [45]) /\ all_ascii_digits dg = true /\ dg <> [].
Proof.
  destruct z as [|p|p]; unfold dec_of_Z.
  - exists [], [48]. repeat split; auto. discriminate.
  - exists [], (dec_of_N (N.pos p)). repeat split; auto using dec_of_N_digits, dec_of_N_nonnil.
  - exists [45], (dec_of_N (N.pos p)). repeat split; auto using dec_of_N_digits, dec_of_N_nonnil.
Qed.

Lemma digits_vchar dg : all_ascii_digits dg = true -> forall c, In c dg -> vchar c = true.
Proof.
  unfold all_ascii_digits. rewrite forallb_forall. intros H c Hc. unfold vchar. rewrite (H c Hc). apply orb_true_r.
Qed.

Lemma dec_vchar z c : In c (dec_of_Z z) -> vchar c = true.
Proof.
  destruct (dec_split z) as (sg & dg & -> & Hsg & Hd & _). intros H. apply in_app_or in H. destruct H as [H|H].
  - destruct Hsg as [->| ->]; [destruct H|]. destruct H as [<-|[]]. reflexivity.
  - eapply digits_vchar; eassumption.
Qed.

Lemma dec_no_sep z : ~ In version_sep (dec_of_Z z).
Proof.
  intros H. destruct (dec_split z) as (sg & dg & E & Hsg & Hd & _). rewrite E in H. apply in_app_or in H. destruct H as [H|H].
  - destruct Hsg as [->| ->]; [destruct H|]. destruct H as [H|[]]. pose proof sep_not_minus. lia.
  - unfold all_ascii_digits in Hd. rewrite forallb_forall in Hd. specialize (Hd _ H). rewrite sep_not_digit in Hd. discriminate.
Qed.

Lemma join_chars sep l c : In c (join sep l) -> In c sep \/ exists x, In x l /\ In c x.
Proof.
  induction l as [|x l IH]; [intros []|]. destruct l as [|y l].
  - cbn [join]. intros H. right. exists x. split; [left; reflexivity|exact H].
  - rewrite join_cons. intros H. apply in_app_or in H. destruct H as [H|H]; [right; exists x; split; [left; reflexivity|exact H]|].
    apply in_app_or in H. destruct H as [H|H]; [left; exact H|].
    destruct (IH H) as [I|[z [Hz Hc]]]; [left; exact I|right; exists z; split; [right; exact Hz|exact Hc]].
Qed.

Lemma dotted_vchar v c : In c (dotted v) -> vchar c = true.
Proof.
  intros H. apply join_chars in H. destruct H as [[<-|[]]|[x [Hx Hc]]].
  - unfold vchar. rewrite N.eqb_refl, orb_true_r. reflexivity.
  - apply in_map_iff in Hx. destruct Hx as [z [<- _]]. eapply dec_vchar. exact Hc.
Qed.

Lemma dotted_plain v : plain suffix_alts (dotted v).
Proof. intros c H. apply vchar_plain. eapply dotted_vchar. exact H. Qed.

Lemma join_snoc sep l x : l <> [] -> join sep (l ++ [x]) = join sep l ++ sep ++ x.
Proof.
  induction l as [|y l IH]; [congruence|]. intros _. destruct l as [|z l].
  - reflexivity.
  - change ((y :: z :: l) ++ [x]) with (y :: (z :: l) ++ [x]).
    change ((z :: l) ++ [x]) with (z :: l ++ [x]) at 1. rewrite join_cons.
    change (z :: l ++ [x]) with ((z :: l) ++ [x]). rewrite IH by discriminate. rewrite join_cons.
    rewrite <- !app_assoc. reflexivity.
Qed.

Lemma join_snoc_app sep l x t : join sep (l ++ [x]) ++ t = join sep (l ++ [x ++ t]).
Proof.
  destruct l as [|y l]; [reflexivity|].
  rewrite !join_snoc by discriminate. rewrite <- !app_assoc. reflexivity.
Qed.

(* dotted (init ++ [z]) = pre ++ D1: D1 the digits of the last component *)
Lemma dotted_last init z : exists pre D1,
  dotted (init ++ [z]) = pre ++ D1 /\ plain suffix_alts pre /\ ends_outside suffix_d1 pre /\
  all_in suffix_d1 D1 = true /\ D1 <> [].
Proof.
  destruct (dec_split z) as (sg & dg & E & Hsg & Hd & Hne).
  assert (HD : all_in suffix_d1 dg = true).
  { unfold all_in. apply forallb_forall. intros c Hc. apply ascii_digit_d1.
    unfold all_ascii_digits in Hd. rewrite forallb_forall in Hd. auto. }
  assert (Hpl : forall pre, pre ++ dg = dotted (init ++ [z]) -> plain suffix_alts pre).
  { intros pre Hp c Hc. apply vchar_plain. apply (dotted_vchar (init ++ [z])). rewrite <- Hp. apply in_or_app. left. exact Hc. }
  unfold dotted in *. rewrite map_app. cbn [map]. rewrite E.
  destruct init as [|y init].
  - cbn [map app join]. exists sg, dg. split; [reflexivity|]. split; [|split; [|split; [exact HD|exact Hne]]].
    + apply Hpl. rewrite map_app. cbn [map app join]. rewrite E. reflexivity.
    + destruct Hsg as [->| ->]; [left; reflexivity|right]. exists [], 45. split; [reflexivity|apply minus_not_d1].
  - rewrite join_snoc by discriminate.
    exists (join [version_sep] (map dec_of_Z (y :: init)) ++ [version_sep] ++ sg), dg.
    split; [|split; [|split; [|split; [exact HD|exact Hne]]]].
    + rewrite <- !app_assoc. reflexivity.
    + apply Hpl. rewrite map_app. cbn [map]. rewrite E. rewrite join_snoc by discriminate. rewrite <- !app_assoc. reflexivity.
    + right. destruct Hsg as [->| ->].
      * exists (join [version_sep] (map dec_of_Z (y :: init))), version_sep. split; [rewrite app_nil_r; reflexivity|apply sep_not_d1].
      * exists (join [version_sep] (map dec_of_Z (y :: init)) ++ [version_sep]), 45. split; [rewrite <- !app_assoc; reflexivity|apply minus_not_d1].
Qed.

(* ---------- re.sub on dotted strings ---------- *)
Lemma strip_suffix_dotted v : strip_suffix (dotted v) = dotted v.
Proof. unfold strip_suffix. apply (re_sub_plain _ _ _ _ suffix_parts_gen suffix_ok). apply dotted_plain. Qed.

Lemma strip_suffix_dotted_nl v : strip_suffix (dotted v ++ [10]) = dotted v ++ [10].
Proof. unfold strip_suffix. apply (re_sub_plain_nl _ _ _ _ suffix_parts_gen suffix_ok). apply dotted_plain. Qed.

Lemma strip_suffix_marker v sfx D2 tail :
  v <> [] -> In sfx suffix_alts -> all_in suffix_d2 D2 = true -> D2 <> [] -> tail_ok tail ->
  strip_suffix (dotted v ++ sfx ++ D2 ++ tail) = dotted v ++ tail.
Proof.
  intros Hv Hs H2 N2 Ht. destruct (exists_last Hv) as [init [z ->]].
  destruct (dotted_last init z) as (pre & D1 & -> & Hpl & He & H1 & N1).
  unfold strip_suffix. rewrite <- !app_assoc.
  apply (re_sub_suffix _ _ _ _ suffix_parts_gen suffix_ok); auto using suffix_repl_g1.
Qed.

(* ---------- split and int() ---------- *)
Lemma map_opt_map_dec v : map_opt py_int (map dec_of_Z v) = Some v.
Proof. induction v as [|z v IH]; [reflexivity|]. cbn [map map_opt]. rewrite py_int_dec_of_Z, IH. reflexivity. Qed.

Lemma map_opt_app {A B} (f : A -> option B) l1 l2 :
  map_opt f (l1 ++ l2) = match map_opt f l1, map_opt f l2 with Some a, Some b => Some (a ++ b) | _, _ => None end.
Proof.
  induction l1 as [|x l1 IH]; cbn [app map_opt].
  - destruct (map_opt f l2); reflexivity.
  - rewrite IH. destruct (f x); [|reflexivity]. destruct (map_opt f l1); [|reflexivity]. destruct (map_opt f l2); reflexivity.
Qed.

Lemma split_dotted_tail init z tail : ~ In version_sep tail ->
  split_char version_sep (dotted (init ++ [z]) ++ tail) = map dec_of_Z init ++ [dec_of_Z z ++ tail].
Proof.
  intros Ht. unfold dotted. rewrite map_app. cbn [map]. rewrite join_snoc_app. apply split_join.
  - destruct (map dec_of_Z init); discriminate.
  - apply Forall_app. split.
    + apply Forall_forall. intros x Hx. apply in_map_iff in Hx. destruct Hx as [y [<- _]]. apply dec_no_sep.
    + constructor; [|constructor]. intros H. apply in_app_or in H. destruct H as [H|H]; [exact (dec_no_sep z H)|exact (Ht H)].
Qed.

Lemma tuple_of_dotted_tail v tail : v <> [] -> tail_ok tail ->
  map_opt py_int (split_char version_sep (dotted v ++ tail)) = Some v.
Proof.
  intros Hv Ht. destruct (exists_last Hv) as [init [z ->]].
  rewrite split_dotted_tail.
  2:{ destruct Ht as [->| ->]; [intros []|]. intros [H|[]]. pose proof sep_not_nl. lia. }
  rewrite map_opt_app, map_opt_map_dec. cbn [map_opt].
  destruct Ht as [->| ->]; [rewrite app_nil_r|rewrite py_int_trailing_nl]; rewrite py_int_dec_of_Z; reflexivity.
Qed.

(* ---------- convert_version_to_int on strings ---------- *)
Theorem to_int_dotted v : v <> [] -> convert_version_to_int_str (dotted v) = tuple_to_int v.
Proof.
  intros Hv. unfold convert_version_to_int_str, version_to_tuple. rewrite strip_suffix_dotted.
  rewrite <- (app_nil_r (dotted v)). rewrite tuple_of_dotted_tail; [reflexivity|exact Hv|left; reflexivity].
Qed.

Theorem to_int_dotted_nl v : v <> [] -> convert_version_to_int_str (dotted v ++ [10]) = tuple_to_int v.
Proof.
  intros Hv. unfold convert_version_to_int_str, version_to_tuple. rewrite strip_suffix_dotted_nl.
  rewrite tuple_of_dotted_tail; [reflexivity|exact Hv|right; reflexivity].
Qed.

Theorem suffix_ignored v sfx D2 tail :
  v <> [] -> In sfx suffix_alts -> all_in suffix_d2 D2 = true -> D2 <> [] -> tail_ok tail ->
  convert_version_to_int_str (dotted v ++ sfx ++ D2 ++ tail) = convert_version_to_int_str (dotted v).
Proof.
  intros Hv Hs H2 N2 Ht. rewrite to_int_dotted by exact Hv.
  unfold convert_version_to_int_str, version_to_tuple. rewrite strip_suffix_marker by assumption.
  rewrite tuple_of_dotted_tail by assumption. reflexivity.
Qed.

(* the five markers of the property text, ASCII digits after them *)
Lemma ascii_digits_d2 D : all_ascii_digits D = true -> all_in suffix_d2 D = true.
Proof.
  intros H. unfold all_in. apply forallb_forall. intros c Hc.
  unfold all_ascii_digits in H. rewrite forallb_forall in H. specialize (H c Hc).
  assert (P : forallb (fun c => cmem c suffix_d2) [48; 49; 50; 51; 52; 53; 54; 55; 56; 57] = true) by (vm_compute; reflexivity).
  rewrite forallb_forall in P. apply P. unfold ascii_digit in H.
  assert (Hc' : c = 48 \/ c = 49 \/ c = 50 \/ c = 51 \/ c = 52 \/ c = 53 \/ c = 54 \/ c = 55 \/ c = 56 \/ c = 57) by lia.
  cbn. intuition auto 20.
Qed.

Theorem suffix_ignored_spec v sfx D :
  v <> [] -> In sfx spec_suffixes -> all_ascii_digits D = true -> D <> [] ->
  convert_version_to_int_str (dotted v ++ sfx ++ D) = convert_version_to_int_str (dotted v).
Proof.
  intros Hv Hs HD ND. rewrite <- (app_nil_r D).
  apply suffix_ignored; [exact Hv|apply spec_suffixes_in; exact Hs|apply ascii_digits_d2; exact HD|exact ND|left; reflexivity].
Qed.

(* ---------- which strings are accepted ---------- *)
Definition version_parts (s : str) : list str := split_char version_sep (strip_suffix s).

Lemma map_opt_none {A B} (f : A -> option B) l : map_opt f l = None <-> exists x, In x l /\ f x = None.
Proof.
  induction l as [|x l IH]; cbn [map_opt].
  - split; [discriminate|intros [x [[] _]]].
  - destruct (f x) as [y|] eqn:E.
    + destruct (map_opt f l) as [r|].
      * split; [discriminate|]. intros [z [[<-|Hz] Hn]]; [congruence|]. exfalso.
        assert (Some r = None) by (apply IH; exists z; auto). discriminate.
      * split; [|reflexivity]. intros _. destruct (proj1 IH eq_refl) as [z [Hz Hn]]. exists z. split; [right; exact Hz|exact Hn].
    + split; [|reflexivity]. intros _. exists x. split; [left; reflexivity|exact E].
Qed.

Lemma map_opt_length {A B} (f : A -> option B) l r : map_opt f l = Some r -> length r = length l.
Proof.
  revert r. induction l as [|x l IH]; intros r H; cbn [map_opt] in H.
  - injection H as <-. reflexivity.
  - destruct (f x); [|discriminate]. destruct (map_opt f l) as [r'|]; [|discriminate]. injection H as <-. cbn. f_equal. apply IH. reflexivity.
Qed.

Theorem to_int_str_rejects s :
  convert_version_to_int_str s = Exn ValueError <-> exists part, In part (version_parts s) /\ ~ int_literal part.
Proof.
  unfold convert_version_to_int_str, version_to_tuple. fold (version_parts s).
  destruct (map_opt py_int (version_parts s)) as [v|] eqn:E.
  - split.
    + intros H. exfalso. destruct v as [|x v]; [|discriminate].
      apply map_opt_length in E. pose proof (split_nonnil version_sep (strip_suffix s)) as Hne. unfold version_parts in E.
      destruct (split_char version_sep (strip_suffix s)); [congruence|discriminate].
    + intros [part [Hin Hn]]. exfalso. apply py_int_rejects in Hn.
      assert (map_opt py_int (version_parts s) = None) by (apply map_opt_none; exists part; auto). congruence.
  - split; [|reflexivity]. intros _. apply map_opt_none in E. destruct E as [part [Hin Hn]].
    exists part. split; [exact Hin|apply py_int_rejects; exact Hn].
Qed.

Theorem to_int_str_accepts s :
  (forall part, In part (version_parts s) -> int_literal part) <->
  exists v, map_opt py_int (version_parts s) = Some v /\ v <> [] /\
            convert_version_to_int_str s = Ok (fold_left (fun a y => (a * radix_to_int + y)%Z) (tl v) (hd 0%Z v)).
Proof.
  unfold convert_version_to_int_str, version_to_tuple. fold (version_parts s). split.
  - intros H. destruct (map_opt py_int (version_parts s)) as [v|] eqn:E.
    + exists v. split; [reflexivity|].
      assert (Hv : v <> []).
      { apply map_opt_length in E. pose proof (split_nonnil version_sep (strip_suffix s)) as Hne. unfold version_parts in E.
        destruct (split_char version_sep (strip_suffix s)); [congruence|]. destruct v; [discriminate|discriminate]. }
      split; [exact Hv|]. destruct v; [congruence|reflexivity].
    + apply map_opt_none in E. destruct E as [part [Hin Hn]]. apply py_int_rejects in Hn. exfalso. apply Hn, H, Hin.
  - intros [v [E _]] part Hin. apply py_int_accepts. intros Hn.
    assert (map_opt py_int (version_parts s) = None) by (apply map_opt_none; exists part; auto). congruence.
Qed.

(* from a string the result is an integer or ValueError — never the TypeError of the empty tuple *)
Theorem to_int_str_total s : (exists n, convert_version_to_int_str s = Ok n) \/ convert_version_to_int_str s = Exn ValueError.
Proof.
  unfold convert_version_to_int_str, version_to_tuple. fold (version_parts s).
  destruct (map_opt py_int (version_parts s)) as [v|] eqn:E; [|right; reflexivity]. left.
  destruct v as [|x v]; [|eexists; reflexivity]. exfalso.
  apply map_opt_length in E. pose proof (split_nonnil version_sep (strip_suffix s)) as Hne. unfold version_parts in E.
  destruct (split_char version_sep (strip_suffix s)); [congruence|discriminate].
Qed.

(* ---------- round trip and order on strings ---------- *)
Open Scope Z_scope.
Theorem str_int_roundtrip (v : list Z) :
  v <> [] -> Forall (fun c => 0 <= c <= 999) v -> hd 1 v <> 0 ->
  exists n, convert_version_to_int_str (dotted v) = Ok n /\ convert_version_to_str n = Some (dotted v).
Proof.
  intros H1 H2 H3. rewrite to_int_dotted by exact H1. apply version_roundtrip_999; assumption.
Qed.

Theorem str_order (a b : list Z) :
  a <> [] -> length a = length b ->
  Forall (fun c => 0 <= c <= 999) a -> Forall (fun c => 0 <= c <= 999) b ->
  exists na nb, convert_version_to_int_str (dotted a) = Ok na /\ convert_version_to_int_str (dotted b) = Ok nb /\
                (na ?= nb) = lex_cmp a b.
Proof.
  intros Ha Hl Fa Fb. assert (Hb : b <> []) by (destruct a, b; try discriminate; congruence).
  rewrite !to_int_dotted by assumption.
  destruct (int_order_999 a b Hl Fa Fb) as [na [nb H]]. exists na, nb.
  destruct H as [H|[H _]]; [exact H|congruence].
Qed.

(* non-vacuity *)
Example suffix_ignored_example :
  convert_version_to_int_str (lit "1.2rc1") = Ok 1002 /\ convert_version_to_int_str (lit "1.2") = Ok 1002 /\
  convert_version_to_int_str (lit " 1.+2") = Ok 1002 /\ convert_version_to_int_str (lit "1.2RC1") = Exn ValueError /\
  convert_version_to_int_str (lit "1.2rc") = Exn ValueError.
Proof. vm_compute. repeat split. Qed.
