(* Proofs/C05.v — lemmas for property C05 (bounded inspector memory). *)
Require Import OV.Base.Bytes OV.Base.Py OV.Base.Insp_Struct OV.Gen.Insp_Consts OV.Gen.Insp_Code.
Require Import OV.Model.Insp_Engine OV.Model.Insp_Raw OV.Model.Insp_Qcow2 OV.Model.Insp_Qed OV.Model.Insp_Vhd
               OV.Model.Insp_Vdi OV.Model.Insp_Iso OV.Model.Insp_Gpt OV.Model.Insp_Luks OV.Model.Insp_Vhdx
               OV.Model.Insp_Vmdk OV.Model.Insp_All OV.Model.C05.
Open Scope N_scope.

(* ================================================================= slicing lengths *)
Lemma flen_ntake n b : flen (ntake n b) = N.min n (flen b).
Proof. rewrite ntake_btake, !flen_blen. apply blen_btake. Qed.
Lemma flen_nskip n b : flen (nskip n b) = flen b - n.
Proof. rewrite nskip_bskip, !flen_blen. apply blen_bskip. Qed.
Lemma flen_app a b : flen (a ++ b) = flen a + flen b.
Proof. rewrite !flen_blen. apply blen_app. Qed.
Lemma flen_nlast n b : n <> 0 -> flen (nlast n b) = N.min n (flen b).
Proof.
  intros Hn. unfold nlast. destruct (n =? 0) eqn:E; [lia|]. rewrite flen_nskip. lia.
Qed.
Lemma nlast_0 b : nlast 0 b = b.
Proof. reflexivity. Qed.

(* ================================================================= capture_len_le *)
(* CaptureRegion.capture: whatever it is given, what it leaves behind fits the region length *)
Lemma cap_fixed_len_le r chunk pos :
  flen (r_data r) <= r_len r ->
  flen (r_data (cap_fixed r chunk pos)) <= r_len (cap_fixed r chunk pos).
Proof.
  intros H. unfold cap_fixed.
  destruct ((pos - flen chunk <=? r_off r + flen (r_data r)) && (r_off r + flen (r_data r) <=? pos)); [|exact H].
  cbn [set_data r_data r_len]. rewrite flen_ntake. lia.
Qed.
(* when the chunk is taken the truncation alone gives the bound *)
Lemma cap_fixed_taken_len_le r chunk pos :
  (pos - flen chunk <=? r_off r + flen (r_data r)) && (r_off r + flen (r_data r) <=? pos) = true ->
  flen (r_data (cap_fixed r chunk pos)) <= r_len r.
Proof.
  intros H. unfold cap_fixed. rewrite H. cbn [set_data r_data]. rewrite flen_ntake. lia.
Qed.
(* EndCaptureRegion.capture keeps min(length, everything seen) bytes — for a non-zero length *)
Lemma cap_end_len r chunk pos :
  r_len r <> 0 ->
  flen (r_data (cap_end r chunk pos)) = N.min (r_len r) (flen (r_data r) + flen chunk).
Proof.
  intros H. unfold cap_end. cbn [set_off set_data r_data]. rewrite flen_nlast by exact H. rewrite flen_app. reflexivity.
Qed.
Lemma cap_end_len_le r chunk pos :
  r_len r <> 0 ->
  flen (r_data (cap_end r chunk pos)) <= r_len (cap_end r chunk pos).
Proof.
  intros H. rewrite cap_end_len by exact H. unfold cap_end. cbn [set_off set_data r_len]. lia.
Qed.
(* the corner the invariant excludes: EndCaptureRegion(0) would keep the whole stream (data[0 - 0:] is data[0:]) *)
Lemma cap_end_len0_keeps_everything r chunk pos :
  r_len r = 0 -> r_data (cap_end r chunk pos) = r_data r ++ chunk.
Proof. intros H. unfold cap_end. rewrite H. reflexivity. Qed.

Lemma rcapture_meta r chunk pos :
  r_len (rcapture r chunk pos) = r_len r /\ r_end (rcapture r chunk pos) = r_end r.
Proof.
  unfold rcapture, cap_end, cap_fixed. destruct (r_end r) eqn:E.
  - cbn [set_off set_data r_len r_end]. auto.
  - destruct (_ && _); cbn [set_data r_len r_end]; auto.
Qed.

Lemma rcapture_ok c t r chunk pos : reg_ok c t r -> reg_ok c t (rcapture r chunk pos).
Proof.
  intros (Hd & Hc & He). destruct (rcapture_meta r chunk pos) as (Hl & Hen).
  unfold reg_ok. rewrite Hl, Hen. split; [|split; assumption].
  unfold rcapture. destruct (r_end r) eqn:E.
  - pose proof (cap_end_len_le r chunk pos (proj2 (He eq_refl))) as H.
    unfold cap_end in H |- *. cbn [set_off set_data r_len r_data] in H |- *. exact H.
  - pose proof (cap_fixed_len_le r chunk pos Hd) as H.
    replace (r_len (cap_fixed r chunk pos)) with (r_len r) in H; [exact H|].
    unfold cap_fixed. destruct (_ && _); reflexivity.
Qed.

(* ================================================================= the translated source (py2gal) *)
Open Scope Z_scope.
(* CaptureRegion.capture as translated from the source keeps len(data) <= length *)
Ltac split_ifs := repeat match goal with |- context [if ?c then _ else _] => destruct c eqn:? end.

Lemma gen_capture_len_le off len data chunk pos :
  0 <= len -> zlen data <= len ->
  let '((off', len', data'), _) := gen_capture off len data chunk pos in
  off' = off /\ len' = len /\ zlen data' <= len'.
Proof.
  intros Hl Hd. unfold gen_capture. cbv zeta. split_ifs; (split; [reflexivity|split; [reflexivity|]]);
    rewrite ?zslice_to by exact Hl; unfold zlen in *; rewrite ?blen_btake; lia.
Qed.
(* EndCaptureRegion.capture as translated from the source keeps len(data) <= length when length > 0 *)
Lemma gen_end_capture_len_le off len data chunk pos :
  0 < len ->
  let '((_, len', data'), _) := gen_end_capture off len data chunk pos in
  len' = len /\ zlen data' <= len'.
Proof.
  intros Hl. unfold gen_end_capture. cbv zeta. split_ifs; (split; [reflexivity|]);
  unfold zslice, norm_idx, zlen, bsub in *;
  set (d := data ++ chunk) in *; set (n := Z.of_N (blen d)) in *;
  replace (0 - len <? 0) with true in * by lia;
  rewrite ?blen_btake, ?blen_bskip; lia.
Qed.

(* the hand model is the translated code (Z <-> N), for every region record and every call the engine makes
   (the position already includes the chunk) *)
Lemma C05_cap_fixed_equiv r chunk pos :
  (flen chunk <= pos)%N ->
  gen_capture (Z.of_N (r_off r)) (Z.of_N (r_len r)) (r_data r) chunk (Z.of_N pos)
  = ((Z.of_N (r_off (cap_fixed r chunk pos)), Z.of_N (r_len (cap_fixed r chunk pos)), r_data (cap_fixed r chunk pos)), tt).
Proof.
  intros Hp. unfold gen_capture, cap_fixed, zlen. cbv zeta. rewrite !flen_blen in *.
  replace ((Z.of_N pos - Z.of_N (blen chunk) <=? Z.of_N (r_off r) + Z.of_N (blen (r_data r)))
           && (Z.of_N (r_off r) + Z.of_N (blen (r_data r)) <=? Z.of_N pos))
    with (((pos - blen chunk <=? r_off r + blen (r_data r)) && (r_off r + blen (r_data r) <=? pos))%N) by lia.
  destruct ((pos - blen chunk <=? r_off r + blen (r_data r)) && (r_off r + blen (r_data r) <=? pos))%N eqn:E;
    [|reflexivity].
  cbn [set_data r_off r_len r_data].
  rewrite zslice_from by lia.
  replace (Z.to_N (Z.of_N (r_off r) + Z.of_N (blen (r_data r)) - (Z.of_N pos - Z.of_N (blen chunk))))
    with (r_off r + blen (r_data r) - (pos - blen chunk))%N by lia.
  rewrite ntake_btake, nskip_bskip.
  (* whatever guards the source puts around the truncation *)
  split_ifs; rewrite ?zslice_to by lia; rewrite ?N2Z.id; try reflexivity;
    (rewrite btake_all by lia; reflexivity).
Qed.

Lemma C05_cap_end_equiv r chunk pos :
  (r_len r <> 0)%N -> (flen (r_data r) + flen chunk <= pos)%N ->
  gen_end_capture (Z.of_N (r_off r)) (Z.of_N (r_len r)) (r_data r) chunk (Z.of_N pos)
  = ((Z.of_N (r_off (cap_end r chunk pos)), Z.of_N (r_len (cap_end r chunk pos)), r_data (cap_end r chunk pos)), tt).
Proof.
  intros Hl Hp. unfold gen_end_capture, cap_end. cbn [set_off set_data r_off r_len r_data].
  assert (Hs : zslice (Some (0 - Z.of_N (r_len r))) None (r_data r ++ chunk) = nlast (r_len r) (r_data r ++ chunk)).
  { unfold zslice, norm_idx, nlast, bsub. destruct (r_len r =? 0)%N eqn:E; [lia|].
    rewrite nskip_bskip, flen_blen.
    set (d := r_data r ++ chunk).
    replace (0 - Z.of_N (r_len r) <? 0) with true by lia.
    replace (Z.to_N (Z.max 0 (Z.min (Z.of_N (blen d)) (0 - Z.of_N (r_len r) + Z.of_N (blen d)))))
      with (blen d - r_len r)%N by lia.
    apply btake_all. rewrite blen_bskip. lia. }
  rewrite Hs. unfold zlen.
  assert (Hle : (flen (nlast (r_len r) (r_data r ++ chunk)) <= pos)%N).
  { rewrite flen_nlast by exact Hl. rewrite flen_app. lia. }
  rewrite flen_blen in Hle.
  replace (Z.of_N pos - Z.of_N (blen (nlast (r_len r) (r_data r ++ chunk))))
    with (Z.of_N (pos - flen (nlast (r_len r) (r_data r ++ chunk)))) by (rewrite flen_blen; lia).
  reflexivity.
Qed.
Close Scope Z_scope.

(* ================================================================= names, dictionary *)
Lemma rname_beq_true a b : rname_beq a b = true <-> a = b.
Proof. split; [apply internal_rname_dec_bl | apply internal_rname_dec_lb]. Qed.
Lemma rname_beq_false a b : rname_beq a b = false <-> a <> b.
Proof.
  split.
  - intros H E. apply rname_beq_true in E. congruence.
  - intros H. destruct (rname_beq a b) eqn:E; [|reflexivity]. apply rname_beq_true in E. contradiction.
Qed.

Lemma mem_rname_In n l : mem_rname n l = true <-> In n l.
Proof.
  induction l as [|k t IH]; cbn [mem_rname In]; [split; [discriminate|tauto]|].
  rewrite Bool.orb_true_iff, IH, rname_beq_true. tauto.
Qed.
Lemma nodupb_NoDup l : nodupb l = true -> NoDup l.
Proof.
  induction l as [|x t IH]; cbn [nodupb]; intros H; constructor.
  - intros Hin. apply mem_rname_In in Hin. rewrite Hin in H. discriminate.
  - apply IH. destruct (mem_rname x t); [discriminate|exact H].
Qed.

Lemma rget_In n l r : rget n l = Some r -> In (n, r) l.
Proof.
  induction l as [|[k x] t IH]; cbn [rget]; [discriminate|].
  destruct (rname_beq k n) eqn:E.
  - intros H. apply rname_beq_true in E. left. congruence.
  - intros H. right. auto.
Qed.
Lemma rhas_false_notin n l : rhas n l = false -> ~ In n (map fst l).
Proof.
  unfold rhas. induction l as [|[k x] t IH]; cbn [rget map fst In]; [tauto|].
  destruct (rname_beq k n) eqn:E; [discriminate|].
  intros H [Hk|Hin]; [apply rname_beq_false in E; contradiction|]. exact (IH H Hin).
Qed.
Lemma rdel_names_incl n l x : In x (map fst (rdel n l)) -> In x (map fst l).
Proof.
  induction l as [|[k r] t IH]; cbn [rdel map fst In]; [tauto|].
  destruct (rname_beq k n); cbn [map fst In]; tauto.
Qed.
Lemma rdel_In n l p : In p (rdel n l) -> In p l.
Proof.
  induction l as [|[k r] t IH]; cbn [rdel In]; [tauto|].
  destruct (rname_beq k n); cbn [In]; tauto.
Qed.
Lemma rdel_NoDup n l : NoDup (map fst l) -> NoDup (map fst (rdel n l)).
Proof.
  induction l as [|[k r] t IH]; cbn [rdel map fst]; intros H; [exact H|].
  inversion H as [|? ? Hn Ht]; subst.
  destruct (rname_beq k n); [exact Ht|]. cbn [map fst]. constructor; [|auto].
  intros Hin. apply Hn. eapply rdel_names_incl; eauto.
Qed.
Lemma rdel_notin n l : NoDup (map fst l) -> ~ In n (map fst (rdel n l)).
Proof.
  induction l as [|[k r] t IH]; cbn [rdel map fst]; intros H; [tauto|].
  inversion H as [|? ? Hn Ht]; subst.
  destruct (rname_beq k n) eqn:E.
  - apply rname_beq_true in E. subst. exact Hn.
  - cbn [map fst In]. intros [Hk|Hin]; [apply rname_beq_false in E; contradiction|]. exact (IH Ht Hin).
Qed.
Lemma rset_names n r' l : map fst (rset n r' l) = map fst l.
Proof.
  induction l as [|[k r] t IH]; cbn [rset map fst]; [reflexivity|].
  destruct (rname_beq k n); cbn [map fst]; congruence.
Qed.

Lemma NoDup_snoc {A} (l : list A) x : NoDup l -> ~ In x l -> NoDup (l ++ [x]).
Proof.
  induction l as [|a t IH]; intros Hn Hx; cbn [app].
  - constructor; [tauto|constructor].
  - inversion Hn as [|? ? Ha Ht]; subst. constructor.
    + intros Hin. apply in_app_or in Hin. destruct Hin as [Hin|[Hin|[]]]; [contradiction|].
      subst. apply Hx. left. reflexivity.
    + apply IH; [exact Ht|]. intros Hin. apply Hx. right. exact Hin.
Qed.

(* ================================================================= the invariant through the engine *)
Section Inv.
Variable e : env.

Lemma regs_ok_get n l r : regs_ok e l -> rget n l = Some r -> ent_ok e (n, r).
Proof.
  intros [_ HF] H. apply rget_In in H. rewrite Forall_forall in HF. exact (HF _ H).
Qed.

Lemma regs_ok_rset n r' l :
  regs_ok e l -> reg_ok (cap_of e n) (is_tail n) r' -> regs_ok e (rset n r' l).
Proof.
  intros [Hn HF] Hr. split; [rewrite rset_names; exact Hn|].
  clear Hn. induction l as [|[k r] t IH]; cbn [rset]; [constructor|].
  inversion HF as [|? ? Hk Ht]; subst.
  destruct (rname_beq k n) eqn:E.
  - apply rname_beq_true in E. subst. constructor; [|exact Ht].
    destruct Hk as [Hin _]. split; [exact Hin|exact Hr].
  - constructor; [exact Hk|auto].
Qed.

Lemma regs_ok_rdel n l : regs_ok e l -> regs_ok e (rdel n l).
Proof.
  intros [Hn HF]. split; [apply rdel_NoDup; exact Hn|].
  rewrite Forall_forall in *. intros p Hp. apply HF. eapply rdel_In; eauto.
Qed.

Lemma spec_okb_ok n sp id : spec_okb e n sp = true -> ent_ok e (n, region_of_spec id sp).
Proof.
  unfold spec_okb. rewrite !Bool.andb_true_iff. intros [[Hm Hc] He].
  apply mem_rname_In in Hm. split; [exact Hm|].
  unfold reg_ok, region_of_spec. cbn [fst snd r_data r_len r_end].
  split; [unfold flen; cbn; lia|]. split; [lia|].
  intros Hend. rewrite Hend in He. cbn [negb orb] in He. apply Bool.andb_true_iff in He. split; [tauto|lia].
Qed.

Lemma regs_ok_app1 l n r :
  regs_ok e l -> ~ In n (map fst l) -> ent_ok e (n, r) -> regs_ok e (l ++ [(n, r)]).
Proof.
  intros [Hn HF] Hnot Hr. split.
  - rewrite map_app. cbn [map fst].
    apply NoDup_snoc; assumption.
  - apply Forall_app. split; [exact HF|]. constructor; [exact Hr|constructor].
Qed.

Section Fmt.
Variable X : Type.
Notation st := (ist X).

Definition st_ok (s : st) : Prop := regs_ok e (i_regs s).

Lemma new_region_ok n sp (s : st) :
  spec_okb e n sp = true -> st_ok s -> st_ok (fst (new_region n sp s)).
Proof.
  intros Hsp Hs. unfold new_region, has_region. destruct (rhas n (i_regs s)) eqn:E; cbn [fst]; [exact Hs|].
  unfold st_ok. cbn [i_regs]. apply regs_ok_app1; [exact Hs|apply rhas_false_notin; exact E|].
  apply spec_okb_ok. exact Hsp.
Qed.
Lemma delete_region_ok n (s : st) : st_ok s -> st_ok (fst (delete_region n s)).
Proof.
  intros Hs. unfold delete_region. destruct (has_region n s); cbn [fst]; [|exact Hs].
  unfold st_ok, set_regs. cbn [i_regs]. apply regs_ok_rdel. exact Hs.
Qed.
Lemma add_check_regs c (s : st) : i_regs (fst (add_check c s)) = i_regs s.
Proof. unfold add_check. destruct (mem_cname c (i_checks s)); reflexivity. Qed.
Lemma set_ext_regs (s : st) x : i_regs (set_ext s x) = i_regs s.
Proof. reflexivity. Qed.

Lemma capture_regs_ok only chunk pos l : regs_ok e l -> regs_ok e (capture_regs only chunk pos l).
Proof.
  intros [Hn HF]. unfold capture_regs. split.
  - rewrite map_map. erewrite map_ext; [exact Hn|].
    intros [n r]. cbn [fst]. destruct (match only with [] => false | _ => _ end); [reflexivity|].
    destruct (r_end r || negb (rcomplete r)); reflexivity.
  - rewrite Forall_forall in *. intros p Hp. apply in_map_iff in Hp. destruct Hp as ([n r] & Hp & Hin).
    specialize (HF _ Hin). subst p.
    destruct (match only with [] => false | _ => _ end); [exact HF|].
    destruct (r_end r || negb (rcomplete r)); [|exact HF].
    destruct HF as [Hi Hr]. split; [exact Hi|]. cbn [fst snd] in *. apply rcapture_ok. exact Hr.
Qed.

Lemma do_capture_ok only chunk (s : st) : st_ok s -> st_ok (fst (do_capture only chunk s)).
Proof.
  intros Hs. unfold do_capture. destruct (i_fin s); cbn [fst]; [exact Hs|].
  unfold st_ok, set_regs. cbn [i_regs]. apply capture_regs_ok. exact Hs.
Qed.

Variable F : fmt X.
Hypothesis post_ok : forall s, st_ok s -> st_ok (fst (f_post F s)).
Hypothesis rc_ok : forall n s, st_ok s -> st_ok (fst (f_rcomplete F n s)).

Lemma settle_ok fuel chunk known (s : st) : st_ok s -> st_ok (fst (settle fuel F chunk known s)).
Proof.
  revert known s. induction fuel as [|fuel IH]; intros known s Hs; cbn [settle].
  - destruct (new_names known (i_regs s)); exact Hs.
  - destruct (new_names known (i_regs s)) as [|n0 nt]; [exact Hs|].
    pose proof (do_capture_ok (n0 :: nt) chunk s Hs) as H1.
    destruct (do_capture (n0 :: nt) chunk s) as [s1 [e1|]]; cbn [fst] in *; [exact H1|].
    pose proof (post_ok s1 H1) as H2.
    destruct (f_post F s1) as [s2 [e2|]]; cbn [fst] in *; [exact H2|].
    apply IH. exact H2.
Qed.

Lemma run_callbacks_ok names (s : st) : st_ok s -> st_ok (fst (run_callbacks F names s)).
Proof.
  revert s. induction names as [|n t IH]; intros s Hs; cbn [run_callbacks]; [exact Hs|].
  pose proof (rc_ok n s Hs) as H1.
  destruct (f_rcomplete F n s) as [s1 [e1|]]; cbn [fst] in *; [exact H1|]. apply IH. exact H1.
Qed.

(* eat_chunk keeps the invariant — in the state it returns normally and in the state it leaves behind when it raises *)
Lemma eat_chunk_ok (s : st) chunk : st_ok s -> st_ok (fst (eat_chunk F s chunk)).
Proof.
  intros Hs. unfold eat_chunk.
  assert (H0 : st_ok (set_pos s (i_pos s + flen chunk))) by exact Hs.
  pose proof (do_capture_ok [] chunk _ H0) as H1.
  destruct (do_capture [] chunk (set_pos s (i_pos s + flen chunk))) as [s1 [e1|]]; cbn [fst] in *; [exact H1|].
  pose proof (post_ok s1 H1) as H2.
  destruct (f_post F s1) as [s2 [e2|]]; cbn [fst] in *; [exact H2|].
  pose proof (settle_ok eat_fuel chunk (ids (i_regs s)) s2 H2) as H3.
  destruct (settle eat_fuel F chunk (ids (i_regs s)) s2) as [s3 [e3|]]; cbn [fst] in *; [exact H3|].
  apply run_callbacks_ok. exact H3.
Qed.

Lemma finish_ok (s : st) : st_ok s -> st_ok (Insp_Engine.finish s).
Proof.
  intros [Hn HF]. unfold st_ok, Insp_Engine.finish. cbn [i_regs]. split.
  - rewrite map_map. cbn [fst]. exact Hn.
  - rewrite Forall_forall in *. intros p Hp. apply in_map_iff in Hp. destruct Hp as ([n r] & Hp & Hin).
    specialize (HF _ Hin). subst p. cbn [fst snd] in *. destruct (r_end r); exact HF.
Qed.

End Fmt.

(* cls(): the _initialize regions *)
Lemma init_regs_ok l : forall id,
  forallb (fun p => spec_okb e (fst p) (snd p)) l = true -> NoDup (map fst l) -> regs_ok e (init_regs id l).
Proof.
  induction l as [|[n sp] t IH]; intros id Hf Hn; cbn [init_regs].
  - split; constructor.
  - cbn [forallb fst snd] in Hf. apply Bool.andb_true_iff in Hf. destruct Hf as [H1 H2].
    inversion Hn as [|? ? Hx Ht]; subst.
    assert (Hnames : forall id', map fst (init_regs id' t) = map fst t).
    { clear. induction t as [|[n sp] t IH]; intros id'; cbn [init_regs map fst]; [reflexivity|]. rewrite IH. reflexivity. }
    destruct (IH (S id) H2 Ht) as [Hn' HF']. split.
    + cbn [map fst]. rewrite Hnames. constructor; assumption.
    + constructor; [apply spec_okb_ok; exact H1|exact HF'].
Qed.

End Inv.

(* ================================================================= the ten formats *)
Lemma no_post_ok e X (s : ist X) : st_ok e X s -> st_ok e X (fst (no_post s)).
Proof. intros H; exact H. Qed.
Lemma no_rcomplete_ok e X n (s : ist X) : st_ok e X s -> st_ok e X (fst (no_rcomplete n s)).
Proof. intros H; exact H. Qed.

(* qcow2: region_complete only sets qemu_header_info *)
Lemma qcow_rcomplete_regs n s : i_regs (fst (qcow_rcomplete n s)) = i_regs s.
Proof.
  unfold qcow_rcomplete. destruct (get_region R_header s); [|reflexivity].
  destruct (unpack _ _); [|reflexivity].
  destruct (qcow_match _) as [[|]|]; reflexivity.
Qed.
(* vmdk: region_complete only sets desc_text / vmdktype *)
Lemma vmdk_rcomplete_regs n s : i_regs (fst (vmdk_rcomplete n s)) = i_regs s.
Proof.
  unfold vmdk_rcomplete, vmdk_parse_descriptor. destruct n; try reflexivity.
  destruct (get_region R_descriptor s); [|reflexivity].
  destruct (negb _); reflexivity.
Qed.

(* ---------- VHDX ---------- *)
(* _find_meta_region: whatever the table says, the region it returns is 2048*32 long *)
Lemma vhdx_rt_loop_spec k rest sp :
  vhdx_rt_loop k rest = Ok (Some sp) -> rs_end sp = false /\ rs_len sp = VHDX_META_A * VHDX_META_B.
Proof.
  revert rest. induction k as [|k IH]; intros rest; cbn [vhdx_rt_loop]; [discriminate|].
  destruct (vhdx_guid_is _ _) as [[|]|]; cbn [bind]; [| |discriminate].
  - destruct (unpack sf_vhdx_rt_rest _); cbn [bind]; [|discriminate].
    intros H. inversion H; subst. split; reflexivity.
  - apply IH.
Qed.
Lemma vhdx_find_meta_region_spec s sp :
  vhdx_find_meta_region s = Ok (Some sp) -> rs_end sp = false /\ rs_len sp = VHDX_META_A * VHDX_META_B.
Proof.
  unfold vhdx_find_meta_region. destruct (get_region R_header s); cbn [bind]; [|discriminate].
  destruct (unpack sf_vhdx_rt_hdr _); cbn [bind]; [|discriminate].
  destruct (negb _); [discriminate|]. destruct (VHDX_RT_LIMIT <=? _); [discriminate|].
  apply vhdx_rt_loop_spec.
Qed.
(* _find_meta_entry: the item length is clamped to VHDX_METADATA_TABLE_MAX_SIZE *)
Lemma vhdx_mt_loop_spec k guid rest o l :
  vhdx_mt_loop k guid rest = Ok (Some (o, l)) -> l <= VHDX_VHDX_METADATA_TABLE_MAX_SIZE.
Proof.
  revert rest. induction k as [|k IH]; intros rest; cbn [vhdx_mt_loop]; [discriminate|].
  destruct (vhdx_guid_is _ _) as [[|]|]; cbn [bind]; [| |discriminate].
  - destruct (unpack sf_vhdx_mt_item _); cbn [bind]; [|discriminate].
    intros H. inversion H; subst. lia.
  - apply IH.
Qed.

Section Vhdx.
Let e := envelope F_vhdx.
Hypothesis Hmeta : spec_okb e R_metadata (mkRspec false 0 (VHDX_META_A * VHDX_META_B) None) = true.
Hypothesis Hvds : spec_okb e R_vds (mkRspec false 0 VHDX_VHDX_METADATA_TABLE_MAX_SIZE None) = true.

Lemma spec_okb_mono n o l o' l' m m' :
  spec_okb e n (mkRspec false o l m) = true -> l' <= l -> spec_okb e n (mkRspec false o' l' m') = true.
Proof.
  unfold spec_okb. cbn [rs_len rs_end]. rewrite !Bool.andb_true_iff. intros [[H1 H2] _] Hl.
  split; [split; [exact H1|lia]|reflexivity].
Qed.

(* the in-place `self.region('metadata').length = len(meta_buffer)` keeps |data| <= length <= cap *)
Lemma vhdx_find_meta_entry_ok guid s :
  st_ok e unit s ->
  st_ok e unit (fst (vhdx_find_meta_entry guid s)) /\
  (forall sp, snd (vhdx_find_meta_entry guid s) = Ok (Some sp) -> spec_okb e R_vds sp = true).
Proof.
  intros Hs. unfold vhdx_find_meta_entry, get_region.
  destruct (rget R_metadata (i_regs s)) as [m|] eqn:Em; cbn [fst snd]; [|split; [exact Hs|discriminate]].
  destruct (flen (r_data m) <? VHDX_MT_MIN); cbn [fst snd]; [split; [exact Hs|discriminate]|].
  destruct (unpack sf_vhdx_mt_hdr _); cbn [fst snd]; [|split; [exact Hs|discriminate]].
  destruct (negb (beq _ _)); cbn [fst snd]; [split; [exact Hs|discriminate]|].
  destruct (flen (r_data m) <? _); cbn [fst snd]; [split; [exact Hs|discriminate]|].
  destruct (VHDX_MT_LIMIT <=? _); cbn [fst snd]; [split; [exact Hs|discriminate]|].
  destruct (vhdx_mt_loop _ _ _) as [[[o l]|]|] eqn:El; cbn [fst snd]; try (split; [exact Hs|discriminate]).
  split.
  - unfold st_ok, set_regs. cbn [i_regs]. apply regs_ok_rset; [exact Hs|].
    pose proof (regs_ok_get e _ _ _ Hs Em) as [_ (Hd & Hc & He)]. cbn [fst snd] in *.
    unfold reg_ok, set_len. cbn [r_data r_len r_end]. split; [lia|]. split; [lia|]. intros Hend.
    (* 'metadata' is never a tail region *)
    destruct (He Hend) as [Ht _]. discriminate Ht.
  - intros sp H. inversion H; subst. apply vhdx_mt_loop_spec in El.
    eapply spec_okb_mono; [exact Hvds|exact El].
Qed.

Lemma vhdx_post_ok s : st_ok e unit s -> st_ok e unit (fst (vhdx_post s)).
Proof.
  intros Hs. unfold vhdx_post. destruct (get_region R_header s) as [h|]; [|exact Hs].
  destruct (rcomplete h && negb (has_region R_metadata s)).
  - destruct (vhdx_find_meta_region s) as [[sp|]|] eqn:Ef; cbn [fst]; try exact Hs.
    apply new_region_ok; [|exact Hs].
    apply vhdx_find_meta_region_spec in Ef. destruct Ef as [E1 E2].
    destruct sp as [en o l m]. cbn [rs_end rs_len] in *. subst en.
    eapply spec_okb_mono; [exact Hmeta|lia].
  - destruct (has_region R_metadata s && negb (has_region R_vds s)); [|exact Hs].
    destruct (vhdx_find_meta_entry_ok VHDX_GUID_VIRTUAL_DISK_SIZE s Hs) as [H1 H2].
    destruct (vhdx_find_meta_entry VHDX_GUID_VIRTUAL_DISK_SIZE s) as [s' [[sp|]|]]; cbn [fst snd] in *; try exact H1.
    apply new_region_ok; [|exact H1]. apply H2. reflexivity.
Qed.
End Vhdx.

(* ---------- VMDK ---------- *)
Section Vmdk.
Let e := envelope F_vmdk.
Hypothesis Hfoot : spec_okb e R_footer (mkRspec true VMDK_FOOTER_LEN VMDK_FOOTER_LEN None) = true.
Hypothesis Hdesc : spec_okb e R_descriptor (mkRspec false 0 VMDK_DESC_MAX_SIZE None) = true.

Lemma spec_okb_mono' n o l o' l' m m' :
  spec_okb e n (mkRspec false o l m) = true -> l' <= l -> spec_okb e n (mkRspec false o' l' m') = true.
Proof.
  unfold spec_okb. cbn [rs_len rs_end]. rewrite !Bool.andb_true_iff. intros [[H1 H2] _] Hl.
  split; [split; [exact H1|lia]|reflexivity].
Qed.

(* post_process: the footer is EndCaptureRegion(1536) and the descriptor is re-created with
   min(desc_num * 512, DESC_MAX_SIZE), whatever the header announces *)
Lemma vmdk_post_ok s : st_ok e vx s -> st_ok e vx (fst (vmdk_post s)).
Proof.
  intros Hs. unfold vmdk_post. destruct (rget R_header (i_regs s)) as [h|]; [|exact Hs].
  destruct (negb (rcomplete h)); [exact Hs|].
  destruct (vmdk_parse_sparse s R_header 0) as [[[[[sig ver] dsec] dnum] gd]|]; [|exact Hs].
  destruct (negb (beq sig VMDK_MAGIC_PP)).
  { destruct (forallb ascii_text (r_data h)); [apply delete_region_ok|]; exact Hs. }
  destruct (negb _); [exact Hs|].
  set (m1 := if (gd =? VMDK_GD_AT_END) && negb (has_region R_footer s) then _ else _).
  assert (H1 : st_ok e vx (fst m1)).
  { subst m1. destruct ((gd =? VMDK_GD_AT_END) && negb (has_region R_footer s)); [|exact Hs].
    pose proof (new_region_ok e vx R_footer _ s Hfoot Hs) as Hn.
    destruct (new_region R_footer _ s) as [s' [e'|]]; cbn [fst] in *; [exact Hn|].
    unfold st_ok. rewrite add_check_regs. exact Hn. }
  destruct m1 as [s1 [e1|]]; cbn [fst] in *; [exact H1|].
  destruct (negb (dsec * VMDK_SECTOR_A =? VMDK_DESC_OFFSET)); [exact H1|].
  destruct (get_region R_descriptor s1) as [d|]; [|exact H1].
  destruct (r_off d =? 0); [|exact H1].
  pose proof (delete_region_ok e vx R_descriptor s1 H1) as H2.
  destruct (delete_region R_descriptor s1) as [s2 [e2|]]; cbn [fst] in *; [exact H2|].
  apply new_region_ok; [|exact H2].
  eapply spec_okb_mono'; [exact Hdesc|]. lia.
Qed.
End Vmdk.

(* ================================================================= numeric / structural facts of the envelopes
   (computed from the GENERATED constants: enlarging DESC_MAX_SIZE, the footer, 2048*32, ... breaks these) *)
Lemma envelope_vhdx_meta : spec_okb (envelope F_vhdx) R_metadata (mkRspec false 0 (VHDX_META_A * VHDX_META_B) None) = true.
Proof. vm_compute. reflexivity. Qed.
Lemma envelope_vhdx_vds : spec_okb (envelope F_vhdx) R_vds (mkRspec false 0 VHDX_VHDX_METADATA_TABLE_MAX_SIZE None) = true.
Proof. vm_compute. reflexivity. Qed.
Lemma envelope_vmdk_footer : spec_okb (envelope F_vmdk) R_footer (mkRspec true VMDK_FOOTER_LEN VMDK_FOOTER_LEN None) = true.
Proof. vm_compute. reflexivity. Qed.
Lemma envelope_vmdk_desc : spec_okb (envelope F_vmdk) R_descriptor (mkRspec false 0 VMDK_DESC_MAX_SIZE None) = true.
Proof. vm_compute. reflexivity. Qed.
Lemma envelope_init f :
  forallb (fun p => spec_okb (envelope f) (fst p) (snd p)) (init_regions f) = true /\
  nodupb (map fst (init_regions f)) = true.
Proof. destruct f; vm_compute; split; reflexivity. Qed.

(* sum of the caps of an envelope *)
Definition cap_total (e : env) : N := fold_right N.add 0 (map (cap_of e) (map fst e)).

(* THE numeric step: the static envelope of every format fits the bound of the property text *)
Lemma envelope_fits f : cap_total (envelope f) <= C05_bound f.
Proof. destruct f; vm_compute; intros H; discriminate H. Qed.

(* ================================================================= sums *)
Lemma sum_incl (g : rname -> N) l l' :
  NoDup l -> incl l l' -> fold_right N.add 0 (map g l) <= fold_right N.add 0 (map g l').
Proof.
  revert l'. induction l as [|a t IH]; intros l' Hn Hi; cbn [map fold_right]; [lia|].
  inversion Hn as [|? ? Ha Ht]; subst.
  assert (Hin : In a l') by (apply Hi; left; reflexivity).
  apply in_split in Hin. destruct Hin as (l1 & l2 & ->).
  assert (Hi' : incl t (l1 ++ l2)).
  { intros x Hx. assert (H : In x (l1 ++ a :: l2)) by (apply Hi; right; exact Hx).
    apply in_app_or in H. apply in_or_app. destruct H as [H|[H|H]]; [left; exact H| |right; exact H].
    subst. contradiction. }
  specialize (IH _ Ht Hi').
  assert (Hf : forall (x : list N) y, fold_right N.add y x = fold_right N.add 0 x + y).
  { clear. induction x as [|z x IHx]; intros y; cbn [fold_right]; [lia|]. rewrite IHx. lia. }
  rewrite map_app, fold_right_app in IH. rewrite map_app, fold_right_app. cbn [map fold_right].
  rewrite (Hf (map g l1)) in IH. rewrite (Hf (map g l1)). lia.
Qed.

Lemma total_regs_le e (l : regions) :
  regs_ok e l ->
  total (map (fun p => (fst p, flen (r_data (snd p)))) l) <= cap_total e.
Proof.
  intros [Hn HF]. unfold total, cap_total.
  apply N.le_trans with (fold_right N.add 0 (map (cap_of e) (map fst l))).
  - clear Hn. induction l as [|[n r] t IH]; cbn [map fold_right fst snd]; [lia|].
    inversion HF as [|? ? Hk Ht]; subst. specialize (IH Ht).
    destruct Hk as [_ (Hd & Hc & _)]. cbn [fst snd] in *. cbn [map fold_right fst snd] in IH. lia.
  - apply sum_incl; [exact Hn|]. intros x Hx. rewrite Forall_forall in HF.
    apply in_map_iff in Hx. destruct Hx as (p & <- & Hp). exact (proj1 (HF _ Hp)).
Qed.

(* ================================================================= the interface level (Insp_All) *)
Definition inv (i : istate) : Prop := regs_ok (envelope (name_of i)) (regions_of i).

Lemma init_inv f : inv (init f) /\ name_of (init f) = f.
Proof.
  destruct (envelope_init f) as [H1 H2]. apply nodupb_NoDup in H2.
  pose proof (init_regs_ok (envelope f) (init_regions f) 0 H1 H2) as H.
  destruct f; (split; [exact H|reflexivity]).
Qed.

Lemma ufmt_post_ok f s : st_ok (envelope f) unit s -> st_ok (envelope f) unit (fst (f_post (ufmt f) s)).
Proof.
  destruct f; try (intros H; exact H).
  apply vhdx_post_ok; [exact envelope_vhdx_meta|exact envelope_vhdx_vds].
Qed.
Lemma ufmt_rc_ok f n s : st_ok (envelope f) unit s -> st_ok (envelope f) unit (fst (f_rcomplete (ufmt f) n s)).
Proof. destruct f; intros H; exact H. Qed.

Lemma eat_inv i chunk : inv i -> inv (fst (eat i chunk)) /\ name_of (fst (eat i chunk)) = name_of i.
Proof.
  intros Hi. destruct i as [f s|s|s]; cbn [eat].
  - pose proof (eat_chunk_ok (envelope f) unit (ufmt f) (ufmt_post_ok f) (ufmt_rc_ok f) s chunk Hi) as H.
    destruct (eat_chunk (ufmt f) s chunk) as [s' x]. split; [exact H|reflexivity].
  - assert (H : st_ok (envelope F_qcow2) qx (fst (eat_chunk qcow_fmt s chunk))).
    { apply eat_chunk_ok; [intros s0 H0; exact H0| |exact Hi].
      intros n s0 H0. unfold st_ok. cbn [f_rcomplete qcow_fmt]. rewrite qcow_rcomplete_regs. exact H0. }
    destruct (eat_chunk qcow_fmt s chunk) as [s' x]. split; [exact H|reflexivity].
  - assert (H : st_ok (envelope F_vmdk) vx (fst (eat_chunk vmdk_fmt s chunk))).
    { apply eat_chunk_ok; [| |exact Hi].
      - intros s0 H0. apply vmdk_post_ok; [exact envelope_vmdk_footer|exact envelope_vmdk_desc|exact H0].
      - intros n s0 H0. unfold st_ok. cbn [f_rcomplete vmdk_fmt]. rewrite vmdk_rcomplete_regs. exact H0. }
    destruct (eat_chunk vmdk_fmt s chunk) as [s' x]. split; [exact H|reflexivity].
Qed.

Lemma finish_inv i : inv i -> inv (finish i) /\ name_of (finish i) = name_of i.
Proof.
  intros Hi. destruct i as [f s|s|s]; cbn [finish]; (split; [|reflexivity]); unfold inv; cbn [name_of regions_of];
    apply finish_ok; exact Hi.
Qed.

Lemma reachable_inv f i : reachable f i -> inv i /\ name_of i = f.
Proof.
  induction 1 as [|i chunk _ [IH1 IH2]|i _ [IH1 IH2]].
  - apply init_inv.
  - destruct (eat_inv i chunk IH1) as [H1 H2]. split; [exact H1|congruence].
  - destruct (finish_inv i IH1) as [H1 H2]. split; [exact H1|congruence].
Qed.

(* every state InspectWrapper-style feeding passes through is reachable *)
Lemma eat_list_reachable f cs : forall i, reachable f i -> reachable f (fst (eat_list i cs)).
Proof.
  induction cs as [|c t IH]; intros i Hi; cbn [eat_list]; [exact Hi|].
  pose proof (reach_eat f i c Hi) as H.
  destruct (eat i c) as [i' [x|]]; cbn [fst] in *; [exact H|]. apply IH. exact H.
Qed.
Lemma state_after_reachable f cs : reachable f (state_after f cs).
Proof. apply eat_list_reachable. constructor. Qed.

(* eat_list over a concatenation: the state after the prefix is where the rest continues from (or feeding
   stopped inside the prefix) *)
Lemma eat_list_app i cs1 cs2 :
  eat_list i (cs1 ++ cs2) =
  match eat_list i cs1 with
  | (i', Some x) => (i', Some x)
  | (i', None) => eat_list i' cs2
  end.
Proof.
  revert i. induction cs1 as [|c t IH]; intros i; cbn [app eat_list]; [reflexivity|].
  destruct (eat i c) as [i' [x|]]; [reflexivity|]. apply IH.
Qed.

(* ================================================================= the property-level lemmas *)
(* region_caps: in every reachable state no name occurs twice, every region is one of the envelope's, its
   length is within the envelope's cap and what it holds is within its length *)
Lemma region_caps_reachable f i :
  reachable f i ->
  NoDup (map fst (regions_of i)) /\
  forall n r, In (n, r) (regions_of i) ->
    In n (map fst (envelope f)) /\ flen (r_data r) <= r_len r /\ r_len r <= cap_of (envelope f) n.
Proof.
  intros H. apply reachable_inv in H. destruct H as [[Hn HF] Hname]. subst f. split; [exact Hn|].
  intros n r Hin. rewrite Forall_forall in HF. destruct (HF _ Hin) as [H1 (H2 & H3 & _)]. auto.
Qed.

Lemma memory_bound_reachable f i : reachable f i -> total (context_info i) <= C05_bound f.
Proof.
  intros H. apply reachable_inv in H. destruct H as [Hi Hname]. subst f.
  eapply N.le_trans; [|apply envelope_fits]. unfold context_info. apply total_regs_le. exact Hi.
Qed.

(* ---------- the envelopes spelled out per format ---------- *)
(* length of an _initialize region of format f (generated) *)
Definition init_len (f : fmt_id) (n : rname) : N := cap_of (init_env f) n.

Lemma region_caps_vhdx_l i :
  reachable F_vhdx i ->
  NoDup (map fst (regions_of i)) /\
  forall n r, In (n, r) (regions_of i) ->
    flen (r_data r) <= r_len r /\
    match n with
    | R_ident => r_len r <= init_len F_vhdx R_ident
    | R_header => r_len r <= init_len F_vhdx R_header
    | R_metadata => r_len r <= VHDX_META_A * VHDX_META_B
    | R_vds => r_len r <= VHDX_VHDX_METADATA_TABLE_MAX_SIZE
    | _ => False
    end.
Proof.
  intros H. apply region_caps_reachable in H. destruct H as [Hn H]. split; [exact Hn|].
  intros n r Hin. destruct (H n r Hin) as (H1 & H2 & H3). split; [exact H2|].
  destruct n; try exact H3;
    try (exfalso; vm_compute in H1; repeat (destruct H1 as [H1|H1]; [discriminate H1|]); exact H1).
Qed.

Lemma region_caps_vmdk_l i :
  reachable F_vmdk i ->
  NoDup (map fst (regions_of i)) /\
  forall n r, In (n, r) (regions_of i) ->
    flen (r_data r) <= r_len r /\
    match n with
    | R_header => r_len r <= init_len F_vmdk R_header
    | R_descriptor => r_len r <= N.max (init_len F_vmdk R_descriptor) VMDK_DESC_MAX_SIZE
    | R_footer => r_len r <= VMDK_FOOTER_LEN
    | _ => False
    end.
Proof.
  intros H. apply region_caps_reachable in H. destruct H as [Hn H]. split; [exact Hn|].
  intros n r Hin. destruct (H n r Hin) as (H1 & H2 & H3). split; [exact H2|].
  destruct n; try exact H3;
    try (exfalso; vm_compute in H1; repeat (destruct H1 as [H1|H1]; [discriminate H1|]); exact H1).
Qed.

Definition static_fmt (f : fmt_id) : bool := match f with F_vhdx | F_vmdk => false | _ => true end.
Lemma region_caps_static_l f i :
  static_fmt f = true -> reachable f i ->
  NoDup (map fst (regions_of i)) /\
  forall n r, In (n, r) (regions_of i) ->
    In n (map fst (init_regions f)) /\ flen (r_data r) <= r_len r /\ r_len r <= init_len f n.
Proof.
  intros Hs H. apply region_caps_reachable in H. destruct H as [Hn H]. split; [exact Hn|].
  intros n r Hin. destruct (H n r Hin) as (H1 & H2 & H3).
  assert (He : envelope f = init_env f) by (destruct f; try reflexivity; discriminate Hs).
  rewrite He in *. split; [|split; [exact H2|exact H3]].
  assert (Hnames : forall l x, In x (map fst (fold_right (fun p e => env_add (fst p) (rs_len (snd p)) e) [] l)) -> In x (map fst l)).
  { clear. induction l as [|[k sp] t IH]; intros x; cbn [fold_right map fst]; [tauto|].
    set (e := fold_right _ _ t) in *. clearbody e. intros Hx.
    assert (Ha : forall e0, In x (map fst (env_add k (rs_len sp) e0)) -> k = x \/ In x (map fst e0)).
    { clear. induction e0 as [|[k0 c0] t0 IH0]; cbn [env_add map fst In]; [tauto|].
      destruct (rname_beq k0 k); cbn [map fst In]; tauto. }
    apply Ha in Hx. destruct Hx as [<-|Hx]; [left; reflexivity|right; auto]. }
  unfold init_env in H1. apply Hnames in H1. rewrite map_rev in H1. apply in_rev in H1. exact H1.
Qed.

(* ---------- the statements on chunk lists ---------- *)
Lemma memory_bound_list f cs : total (context_info (fst (eat_list (init f) cs))) <= C05_bound f.
Proof. apply memory_bound_reachable. apply state_after_reachable. Qed.
Lemma memory_bound_prefix f cs pre :
  (exists rest, cs = pre ++ rest) -> total (context_info (fst (eat_list (init f) pre))) <= C05_bound f.
Proof. intros _. apply memory_bound_list. Qed.
Lemma memory_bound_finish f cs : total (context_info (finish (fst (eat_list (init f) cs)))) <= C05_bound f.
Proof. apply memory_bound_reachable. constructor. apply state_after_reachable. Qed.
Lemma memory_bound_run f cs : total (context_info (fst (run f cs))) <= C05_bound f.
Proof.
  unfold run. pose proof (memory_bound_finish f cs) as H.
  destruct (eat_list (init f) cs) as [i x]. exact H.
Qed.

(* ---------- hostile streams: the announced sizes are maximal, the retained bytes are not ---------- *)
Lemma hostile_vmdk_attains :
  let s := hostile_vmdk 1100000 in
  let i := state_after F_vmdk [s] in
  sint sf_vmdk_sparse 6 (ntake VMDK_MIN_SPARSE_HEADER s) = 2 ^ 64 - 1 /\
  1048576 < total (context_info i) /\ total (context_info i) <= C05_bound F_vmdk.
Proof. vm_compute. split; [reflexivity|split; [reflexivity|intros H; discriminate H]]. Qed.

Lemma hostile_vhdx_attains :
  let i := state_after F_vhdx [hostile_vhdx] in
  (exists r, rget R_vds (regions_of i) = Some r /\ r_len r = VHDX_VHDX_METADATA_TABLE_MAX_SIZE) /\
  196608 < total (context_info i) /\ total (context_info i) <= C05_bound F_vhdx.
Proof.
  assert (H : let i := state_after F_vhdx [hostile_vhdx] in
              (option_map r_len (rget R_vds (regions_of i)) = Some VHDX_VHDX_METADATA_TABLE_MAX_SIZE) /\
              (196608 <? total (context_info i)) = true /\ (total (context_info i) <=? C05_bound F_vhdx) = true).
  { vm_compute. auto. }
  cbv zeta in *. destruct H as (H1 & H2 & H3). split; [|split; lia].
  destruct (rget R_vds _) as [r|]; [|discriminate H1]. exists r. split; [reflexivity|].
  cbn [option_map] in H1. congruence.
Qed.

(* ---------- instances of the hypotheses (non-vacuity) ---------- *)
Definition footer_region : region := region_of_spec 0 (mkRspec true VMDK_FOOTER_LEN VMDK_FOOTER_LEN None).
Lemma ex_footer_len : r_len footer_region <> 0.
Proof. vm_compute. discriminate. Qed.
Lemma ex_fresh_region : flen (r_data (region_of_spec 0 (mkRspec false 0 512 None))) <= r_len (region_of_spec 0 (mkRspec false 0 512 None)).
Proof. vm_compute. discriminate. Qed.
Lemma ex_static : static_fmt F_qcow2 = true /\ reachable F_qcow2 (fst (eat (init F_qcow2) [81; 70; 73; 251])).
Proof. split; [reflexivity|]. constructor. constructor. Qed.
Lemma ex_source_hyps : (0 <= 512)%Z /\ (zlen [] <= 512)%Z /\ (0 < 1536)%Z.
Proof. vm_compute. repeat split; discriminate. Qed.
