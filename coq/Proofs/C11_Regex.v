(* Proofs/C11_Regex.v — a declarative matching relation for Base/Regex.v, soundness and
   completeness of the backtracking matcher with respect to it (existence of a match),
   and a reflective reading of "flat" patterns (a fixed sequence of character classes,
   optionally followed by `$`). *)
Require Import OV.Base.Bytes OV.Base.PyInt OV.Base.Regex.
Open Scope N_scope.

(* mt r s p s' p': r matches a prefix of s (the subject from position p on), leaving s' at position p' *)
Inductive mt : re -> str -> N -> str -> N -> Prop :=
| mt_eps s p : mt Eps s p s p
| mt_chr cs c t p : cmem c cs = true -> mt (Chr cs) (c :: t) p t (p + 1)
| mt_seq a b s p s1 p1 s2 p2 : mt a s p s1 p1 -> mt b s1 p1 s2 p2 -> mt (Seq a b) s p s2 p2
| mt_alt_l a b s p s' p' : mt a s p s' p' -> mt (Alt a b) s p s' p'
| mt_alt_r a b s p s' p' : mt b s p s' p' -> mt (Alt a b) s p s' p'
| mt_rep cs mn mx s p n : (mn <= n <= run_len cs s mx)%nat ->
    mt (Rep cs mn mx) s p (skipn n s) (p + N.of_nat n)
| mt_opt_some a s p s' p' : mt a s p s' p' -> mt (Opt a) s p s' p'
| mt_opt_none a s p : mt (Opt a) s p s p
| mt_group i a s p s' p' : mt a s p s' p' -> mt (Group i a) s p s' p'
| mt_bol s : mt Bol s 0 s 0
| mt_eol_end p : mt Eol [] p [] p
| mt_eol_nl p : mt Eol [10] p [10] p.

Definition eol_ok (s : str) : bool := match s with [] => true | [c] => c =? 10 | _ => false end.

Lemma eol_case {A} (s : str) (a b : A) :
  match s with [] => a | [10] => a | _ => b end = if eol_ok s then a else b.
Proof.
  destruct s as [|c [|c2 t]]; [reflexivity| |].
  - destruct c as [|q]; [reflexivity|]. do 4 (try (destruct q as [q|q|]; try reflexivity)).
  - destruct c as [|q]; [reflexivity|]. do 4 (try (destruct q as [q|q|]; try reflexivity)).
Qed.

Lemma eol_ok_iff s : eol_ok s = true <-> s = [] \/ s = [10].
Proof.
  destruct s as [|c [|c2 t]]; cbn [eol_ok].
  - split; [left; reflexivity|reflexivity].
  - rewrite N.eqb_eq. split; [intros ->; right; reflexivity|intros [H|H]; [discriminate|injection H; trivial]].
  - split; [discriminate|intros [H|H]; discriminate].
Qed.

Section Matcher.
Variable R : Type.

Lemma try_counts_sound s p g (k : cont R) mn n x :
  (mn <= n)%nat -> try_counts R s p g k mn n = Some x ->
  exists j, (mn <= j <= n)%nat /\ k (skipn j s) (p + N.of_nat j) g = Some x.
Proof.
  induction n as [|n IH]; intros Hmn H; cbn [try_counts] in H.
  - destruct (k (skipn 0 s) (p + N.of_nat 0) g) eqn:E; [|discriminate].
    injection H as <-. exists 0%nat. split; [lia|exact E].
  - destruct (k (skipn (S n) s) (p + N.of_nat (S n)) g) eqn:E.
    + injection H as <-. exists (S n). split; [lia|exact E].
    + destruct (Nat.ltb n mn) eqn:L; [discriminate|]. apply Nat.ltb_ge in L.
      destruct (IH L H) as [j [Hj Hk]]. exists j. split; [lia|exact Hk].
Qed.

Lemma try_counts_complete s p g (k : cont R) mn n j :
  (mn <= j <= n)%nat -> k (skipn j s) (p + N.of_nat j) g <> None ->
  try_counts R s p g k mn n <> None.
Proof.
  induction n as [|n IH]; intros Hj Hk; cbn [try_counts].
  - replace j with 0%nat in Hk by lia. destruct (k (skipn 0 s) (p + N.of_nat 0) g); [discriminate|congruence].
  - destruct (k (skipn (S n) s) (p + N.of_nat (S n)) g) eqn:E; [discriminate|].
    destruct (Nat.eq_dec j (S n)) as [->|Hne]; [congruence|].
    replace (Nat.ltb n mn) with false by (symmetry; apply Nat.ltb_ge; lia).
    apply IH; [lia|exact Hk].
Qed.

Lemma m_sound r : forall s p g (k : cont R) x,
  m R r s p g k = Some x -> exists s' p' g', mt r s p s' p' /\ k s' p' g' = Some x.
Proof.
  induction r as [|cs|a IHa b IHb|a IHa b IHb|cs mn mx|a IHa|i a IHa| |]; intros s p g k x H; cbn [m] in H.
  - exists s, p, g. split; [constructor|exact H].
  - destruct s as [|c t]; [discriminate|]. destruct (cmem c cs) eqn:E; [|discriminate].
    exists t, (p + 1), g. split; [constructor; exact E|exact H].
  - apply IHa in H. destruct H as [s1 [p1 [g1 [Ha H]]]].
    apply IHb in H. destruct H as [s2 [p2 [g2 [Hb H]]]].
    exists s2, p2, g2. split; [econstructor; eassumption|exact H].
  - destruct (m R a s p g k) eqn:E.
    + injection H as <-. apply IHa in E. destruct E as [s' [p' [g' [Ha E]]]].
      exists s', p', g'. split; [apply mt_alt_l; exact Ha|exact E].
    + apply IHb in H. destruct H as [s' [p' [g' [Hb H]]]].
      exists s', p', g'. split; [apply mt_alt_r; exact Hb|exact H].
  - destruct (Nat.ltb (run_len cs s mx) mn) eqn:L; [discriminate|]. apply Nat.ltb_ge in L.
    apply try_counts_sound in H; [|exact L]. destruct H as [j [Hj H]].
    exists (skipn j s), (p + N.of_nat j), g. split; [constructor; exact Hj|exact H].
  - destruct (m R a s p g k) eqn:E.
    + injection H as <-. apply IHa in E. destruct E as [s' [p' [g' [Ha E]]]].
      exists s', p', g'. split; [apply mt_opt_some; exact Ha|exact E].
    + exists s, p, g. split; [apply mt_opt_none|exact H].
  - apply IHa in H. destruct H as [s' [p' [g' [Ha H]]]].
    exists s', p', ((i, (p, p')) :: g'). split; [constructor; exact Ha|exact H].
  - destruct (p =? 0) eqn:E; [|discriminate]. apply N.eqb_eq in E. subst p.
    exists s, 0, g. split; [constructor|exact H].
  - rewrite eol_case in H. destruct (eol_ok s) eqn:E; [|discriminate].
    apply eol_ok_iff in E. exists s, p, g. split; [destruct E as [->| ->]; constructor|exact H].
Qed.

Lemma m_complete r : forall s p s' p', mt r s p s' p' ->
  forall g (k : cont R), (forall g', k s' p' g' <> None) -> m R r s p g k <> None.
Proof.
  intros s p s' p' H. induction H; intros g k Hk; cbn [m].
  - apply Hk.
  - rewrite H. apply Hk.
  - apply IHmt1. intros g'. apply IHmt2. exact Hk.
  - specialize (IHmt g k Hk). destruct (m R a s p g k); [discriminate|congruence].
  - destruct (m R a s p g k); [discriminate|]. apply IHmt. exact Hk.
  - replace (Nat.ltb (run_len cs s mx) mn) with false by (symmetry; apply Nat.ltb_ge; lia).
    apply (try_counts_complete s p g k mn (run_len cs s mx) n); [exact H|apply Hk].
  - specialize (IHmt g k Hk). destruct (m R a s p g k); [discriminate|congruence].
  - destruct (m R a s p g k); [discriminate|]. apply Hk.
  - apply IHmt. intros g'. apply Hk.
  - cbn. apply Hk.
  - apply Hk.
  - apply Hk.
Qed.
End Matcher.

Theorem re_matchb_iff r s : re_matchb r s = true <-> exists s' p', mt r s 0 s' p'.
Proof.
  unfold re_matchb, re_match, match_at. split.
  - destruct (m (N * groups) r s 0 [] (fun _ p' g' => Some (p', g'))) as [x|] eqn:E; [|discriminate].
    intros _. apply m_sound in E. destruct E as [s' [p' [_ [H _]]]]. exists s', p'. exact H.
  - intros [s' [p' H]].
    pose proof (m_complete (N * groups) r s 0 s' p' H [] (fun _ p' g' => Some (p', g'))) as C.
    destruct (m (N * groups) r s 0 [] (fun _ p' g' => Some (p', g'))); [reflexivity|].
    exfalso. apply C; [intros; discriminate|reflexivity].
Qed.

(* ---------- run_len ---------- *)
Definition in_cs (cs : cset) (c : N) : Prop := cmem c cs = true.

Lemma run_len_le_mx cs s k : (run_len cs s (Some k) <= k)%nat.
Proof.
  revert k. induction s as [|c t IH]; intros k; cbn [run_len]; [lia|].
  destruct k as [|k']; [lia|]. destruct (cmem c cs); [|lia]. cbn [option_map pred]. specialize (IH k'). lia.
Qed.

Lemma run_len_prefix cs s mx j : (j <= run_len cs s mx)%nat ->
  exists pre, s = pre ++ skipn j s /\ length pre = j /\ Forall (in_cs cs) pre.
Proof.
  revert s mx. induction j as [|j IH]; intros s mx H.
  - exists []. repeat split; constructor.
  - destruct s as [|c t]; [cbn in H; lia|]. cbn [run_len] in H.
    assert (Hc : cmem c cs = true /\ (j <= run_len cs t (option_map pred mx))%nat).
    { destruct mx as [[|k]|]; try lia; destruct (cmem c cs); try lia; split; try reflexivity; lia. }
    destruct Hc as [Hc Hj]. destruct (IH _ _ Hj) as [pre [E [L F]]].
    exists (c :: pre). cbn [skipn app length]. repeat split; [f_equal; exact E|lia|constructor; assumption].
Qed.

Lemma run_len_exact cs pre s' : Forall (in_cs cs) pre -> run_len cs (pre ++ s') (Some (length pre)) = length pre.
Proof.
  induction pre as [|c t IH]; intros H.
  - cbn [app length]. destruct s'; reflexivity.
  - inversion H as [|? ? Hc Ht]; subst. cbn [app length run_len]. unfold in_cs in Hc. rewrite Hc.
    cbn [option_map pred]. rewrite IH by exact Ht. reflexivity.
Qed.

(* ---------- flat patterns ---------- *)
(* a regex that is a fixed sequence of character classes *)
Fixpoint flat (r : re) : option (list cset) :=
  match r with
  | Eps => Some []
  | Chr cs => Some [cs]
  | Seq a b => match flat a, flat b with Some x, Some y => Some (x ++ y) | _, _ => None end
  | Group _ a => flat a
  | Rep cs mn (Some mx) => if Nat.eqb mn mx then Some (repeat cs mn) else None
  | _ => None
  end.

(* ... followed by `$` *)
Fixpoint flat_eol (r : re) : option (list cset) :=
  match r with
  | Eol => Some []
  | Seq a b => match flat a, flat_eol b with Some x, Some y => Some (x ++ y) | _, _ => None end
  | Group _ a => flat_eol a
  | _ => None
  end.

Definition fits (cl : list cset) (t : str) : Prop := Forall2 in_cs cl t.

Lemma fits_repeat cs k t : fits (repeat cs k) t <-> length t = k /\ Forall (in_cs cs) t.
Proof.
  unfold fits. revert t. induction k as [|k IH]; intros t; cbn [repeat].
  - split.
    + intros H. inversion H. split; [reflexivity|constructor].
    + intros [L _]. destruct t; [constructor|discriminate].
  - split.
    + intros H. inversion H as [|? c ? t' Hc Ht]; subst. apply IH in Ht. destruct Ht as [L F].
      split; [cbn; lia|constructor; assumption].
    + intros [L F]. destruct t as [|c t']; [discriminate|]. inversion F; subst.
      constructor; [assumption|]. apply IH. split; [cbn in L; lia|assumption].
Qed.

Lemma fits_length cl t : fits cl t -> length t = length cl.
Proof. intros H. induction H; cbn; [reflexivity|lia]. Qed.

Lemma flat_sound r : forall cl s p s' p', flat r = Some cl -> mt r s p s' p' ->
  exists pre, s = pre ++ s' /\ fits cl pre.
Proof.
  induction r as [|cs|a IHa b IHb|a IHa b IHb|cs mn mx|a IHa|i a IHa| |]; intros cl s p s' p' F H; cbn [flat] in F; try discriminate.
  - injection F as <-. inversion H; subst. exists []. split; [reflexivity|constructor].
  - injection F as <-. inversion H; subst. exists [c]. split; [reflexivity|]. constructor; [assumption|constructor].
  - destruct (flat a) as [x|] eqn:Fa; [|discriminate]. destruct (flat b) as [y|] eqn:Fb; [|discriminate].
    injection F as <-. inversion H as [| |? ? ? ? s1 p1 ? ? Ha Hb| | | | | | | | |]; subst.
    destruct (IHa _ _ _ _ _ eq_refl Ha) as [pa [-> Fa']]. destruct (IHb _ _ _ _ _ eq_refl Hb) as [pb [-> Fb']].
    exists (pa ++ pb). split; [rewrite app_assoc; reflexivity|]. apply Forall2_app; assumption.
  - destruct mx as [mx|]; [|discriminate]. destruct (Nat.eqb mn mx) eqn:E; [|discriminate]. apply Nat.eqb_eq in E. subst mx.
    injection F as <-. inversion H as [| | | | |? ? ? ? ? n Hn| | | | | |]; subst.
    pose proof (run_len_le_mx cs s mn) as U. assert (n = mn) by lia. subst n.
    destruct (run_len_prefix cs s (Some mn) mn) as [pre [E [L Fp]]]; [lia|].
    exists pre. split; [exact E|]. apply fits_repeat. split; assumption.
  - inversion H; subst. eapply IHa; eassumption.
Qed.

Lemma flat_complete r : forall cl pre s' p, flat r = Some cl -> fits cl pre ->
  mt r (pre ++ s') p s' (p + N.of_nat (length pre)).
Proof.
  induction r as [|cs|a IHa b IHb|a IHa b IHb|cs mn mx|a IHa|i a IHa| |]; intros cl pre s' p F H; cbn [flat] in F; try discriminate.
  - injection F as <-. inversion H; subst. cbn. rewrite N.add_0_r. constructor.
  - injection F as <-. inversion H as [|? c ? t Hc Ht]; subst. inversion Ht; subst. cbn. constructor. exact Hc.
  - destruct (flat a) as [x|] eqn:Fa; [|discriminate]. destruct (flat b) as [y|] eqn:Fb; [|discriminate].
    injection F as <-. unfold fits in H. apply Forall2_app_inv_l in H. destruct H as [pa [pb [Ha [Hb ->]]]].
    rewrite <- app_assoc. econstructor.
    + apply (IHa x pa (pb ++ s') p eq_refl Ha).
    + rewrite app_length. replace (p + N.of_nat (length pa + length pb)) with (p + N.of_nat (length pa) + N.of_nat (length pb)) by lia.
      apply (IHb y pb s' _ eq_refl Hb).
  - destruct mx as [mx|]; [|discriminate]. destruct (Nat.eqb mn mx) eqn:E; [|discriminate]. apply Nat.eqb_eq in E. subst mx.
    injection F as <-. apply fits_repeat in H. destruct H as [L Fp].
    replace s' with (skipn (length pre) (pre ++ s')) at 2.
    2:{ rewrite skipn_app, skipn_all, Nat.sub_diag. reflexivity. }
    constructor. rewrite <- L. rewrite run_len_exact by exact Fp. lia.
  - constructor. eapply IHa; eassumption.
Qed.

Lemma flat_eol_sound r : forall cl s p s' p', flat_eol r = Some cl -> mt r s p s' p' ->
  exists pre, fits cl pre /\ (s = pre \/ s = pre ++ [10]).
Proof.
  induction r as [|cs|a IHa b IHb|a IHa b IHb|cs mn mx|a IHa|i a IHa| |]; intros cl s p s' p' F H; cbn [flat_eol] in F; try discriminate.
  - destruct (flat a) as [x|] eqn:Fa; [|discriminate]. destruct (flat_eol b) as [y|] eqn:Fb; [|discriminate].
    injection F as <-. inversion H as [| |? ? ? ? s1 p1 ? ? Ha Hb| | | | | | | | |]; subst.
    destruct (flat_sound _ _ _ _ _ _ Fa Ha) as [pa [-> Fa']]. destruct (IHb _ _ _ _ _ eq_refl Hb) as [pb [Fb' E]].
    exists (pa ++ pb). split; [apply Forall2_app; assumption|].
    destruct E as [->| ->]; [left; reflexivity|right; rewrite app_assoc; reflexivity].
  - inversion H; subst. eapply IHa; eassumption.
  - injection F as <-. exists []. split; [constructor|]. inversion H; subst; [left|right]; reflexivity.
Qed.

Lemma flat_eol_complete r : forall cl pre s p, flat_eol r = Some cl -> fits cl pre -> s = pre \/ s = pre ++ [10] ->
  exists s' p', mt r s p s' p'.
Proof.
  induction r as [|cs|a IHa b IHb|a IHa b IHb|cs mn mx|a IHa|i a IHa| |]; intros cl pre s p F H E; cbn [flat_eol] in F; try discriminate.
  - destruct (flat a) as [x|] eqn:Fa; [|discriminate]. destruct (flat_eol b) as [y|] eqn:Fb; [|discriminate].
    injection F as <-. unfold fits in H. apply Forall2_app_inv_l in H. destruct H as [pa [pb [Ha [Hb ->]]]].
    assert (X : exists rest, s = pa ++ rest /\ (rest = pb \/ rest = pb ++ [10])).
    { destruct E as [->| ->]; [exists pb|exists (pb ++ [10])]; rewrite <- ?app_assoc; split; auto. }
    destruct X as [rest [Es Er]].
    destruct (IHb y pb rest (p + N.of_nat (length pa)) eq_refl Hb Er) as [s' [p' Hm]].
    exists s', p'. rewrite Es. econstructor; [apply (flat_complete a x pa rest p Fa Ha)|exact Hm].
  - destruct (IHa cl pre s p F H E) as [s' [p' Hm]]. exists s', p'. constructor. exact Hm.
  - injection F as <-. inversion H; subst. destruct E as [->| ->]; cbn [app]; do 2 eexists; constructor.
Qed.

(* re.match on a flat pattern followed by `$` *)
Theorem flat_eol_match r cl s : flat_eol r = Some cl ->
  (re_matchb r s = true <-> exists pre, fits cl pre /\ (s = pre \/ s = pre ++ [10])).
Proof.
  intros F. rewrite re_matchb_iff. split.
  - intros [s' [p' H]]. eapply flat_eol_sound; eassumption.
  - intros [pre [H E]]. eapply flat_eol_complete; eassumption.
Qed.

(* re.match on a flat pattern followed by \Z (end of string): the matcher run with the
   continuation "the rest is empty" *)
Theorem flat_eos_match r cl s : flat r = Some cl ->
  (m (N * groups) r s 0 [] (fun s' p' g' => match s' with [] => Some (p', g') | _ => None end) <> None <-> fits cl s).
Proof.
  intros F. split.
  - intros H. destruct (m _ r s 0 [] _) as [x|] eqn:E; [|congruence].
    apply m_sound in E. destruct E as [s' [p' [g' [Hm Hk]]]].
    destruct s' as [|c t]; [|discriminate].
    destruct (flat_sound r cl s 0 [] p' F Hm) as [pre [-> Hf]]. rewrite app_nil_r. exact Hf.
  - intros Hf. pose proof (flat_complete r cl s [] 0 F Hf) as Hm. rewrite app_nil_r in Hm.
    apply (m_complete _ r s 0 [] _ Hm). intros g'. discriminate.
Qed.
