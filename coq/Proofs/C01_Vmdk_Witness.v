(* Proofs/C01_Vmdk_Witness.v — concrete byte strings: one counterexample per known-finding zone (two chunkings of the
   same bytes, different verdicts) and two well-formed images outside both zones. *)
From Coq Require Import String.
Require Import OV.Base.Bytes OV.Base.Py OV.Base.Insp_Struct OV.Gen.Insp_Consts.
Require Import OV.Model.Insp_Engine OV.Model.Insp_Vmdk OV.Model.Insp_All OV.Model.C01_Vmdk.
Open Scope N_scope.

Definition zeros (n : N) : bytes := repeatN 0 (N.to_nat n).
Definition pad_to (n : N) (b : bytes) : bytes := b ++ zeros (n - blen b).
Definition q : bytes := [34].
Definition nl : bytes := [10].

(* the 64-byte sparse header '<4sIIQQQQIQQ' *)
Definition w_header (ver sectors desc_sec desc_num gd : N) : bytes :=
  VMDK_MAGIC_PP ++ le_enc 4 ver ++ le_enc 4 3 ++ le_enc 8 sectors ++ le_enc 8 128 ++ le_enc 8 desc_sec ++ le_enc 8 desc_num
  ++ le_enc 4 512 ++ le_enc 8 1 ++ le_enc 8 gd.

Definition w_desc (ctype : string) : bytes :=
  lit "# Disk DescriptorFile" ++ nl ++ lit "version=1" ++ nl ++ lit "createType=" ++ q ++ lit ctype ++ q ++ nl
  ++ lit "RW 2048 SPARSE " ++ q ++ lit "disk.vmdk" ++ q ++ nl ++ lit "ddb.adapterType = " ++ q ++ lit "ide" ++ q ++ nl.

(* a well-formed monolithicSparse image: header, descriptor sector, one data sector *)
Definition w_sparse : bytes :=
  pad_to 512 (w_header 1 2048 1 1 21) ++ pad_to 512 (w_desc "monolithicSparse") ++ zeros 512.

(* a well-formed streamOptimized image: gdOffset = GD_AT_END, footer marker + footer header + end-of-stream marker *)
Definition w_stream : bytes :=
  pad_to 512 (w_header 3 2048 1 1 VMDK_GD_AT_END) ++ pad_to 512 (w_desc "streamOptimized") ++ zeros 1024
  ++ pad_to 512 (le_enc 8 1 ++ le_enc 4 0 ++ le_enc 4 3) ++ pad_to 512 (w_header 3 2048 1 1 21) ++ zeros 512.

Lemma w_sparse_outside : zone_vmdk_text w_sparse = false /\ zone_vmdk_shortfoot w_sparse = false.
Proof. split; vm_compute; reflexivity. Qed.
Lemma w_stream_outside : zone_vmdk_text w_stream = false /\ zone_vmdk_shortfoot w_stream = false.
Proof. split; vm_compute; reflexivity. Qed.

Lemma w_sparse_spec : vmdk_spec w_sparse = mkVerdict None (Ok true) true (Ok 1048576%Z) Pass.
Proof. vm_compute. reflexivity. Qed.
Lemma w_stream_spec : vmdk_spec w_stream = mkVerdict None (Ok true) true (Ok 1048576%Z) Pass.
Proof. vm_compute. reflexivity. Qed.

(* and the streaming inspector agrees on a few chunkings (instances of the theorem, computed) *)
Lemma w_stream_run :
  verdict_of (run F_vmdk [btake 63 w_stream; []; bslice 63 1000 w_stream; bskip 1063 w_stream]) = vmdk_spec w_stream.
Proof. vm_compute. reflexivity. Qed.

(* F1: createtype="monolithicsparse" followed by a non-ASCII byte.  One chunk: the offset-0 descriptor region holds all 30
   bytes, decoding fails, nothing is parsed (virtual_size 0).  [29; 1]: the region completes on the first 29 bytes, the
   type is found, and virtual_size tries to unpack a 30-byte header (struct.error). *)
Definition w_text : bytes := lit "createtype=" ++ q ++ lit "monolithicsparse" ++ q ++ [128].

Lemma w_text_in_zone : zone_vmdk_text w_text = true.
Proof. vm_compute. reflexivity. Qed.
Lemma w_text_differs :
  concat [btake 29 w_text; bskip 29 w_text] = concat [w_text] /\
  verdict_of (run F_vmdk [btake 29 w_text; bskip 29 w_text]) <> verdict_of (run F_vmdk [w_text]).
Proof. split; [vm_compute; reflexivity|]. vm_compute. discriminate. Qed.

(* F3: valid header with gdOffset = GD_AT_END, 1598 bytes.  One chunk: the footer region, created when the header
   completes, is shown the whole chunk and keeps the last 1536 bytes (complete).  [63; 1535]: it never sees the first
   63 bytes and ends with 1535 (incomplete). *)
Definition w_short : bytes := pad_to 1598 (w_header 1 2048 1 1 VMDK_GD_AT_END).

Lemma w_short_in_zone : zone_vmdk_shortfoot w_short = true /\ zone_vmdk_text w_short = false.
Proof. split; vm_compute; reflexivity. Qed.
Lemma w_short_differs :
  concat [btake 63 w_short; bskip 63 w_short] = concat [w_short] /\
  v_complete (verdict_of (run F_vmdk [btake 63 w_short; bskip 63 w_short])) = false /\
  v_complete (verdict_of (run F_vmdk [w_short])) = true.
Proof. split; [vm_compute; reflexivity|]. split; vm_compute; reflexivity. Qed.

(* the unrestricted statement is false for the model (as it is for the code) *)
Lemma full_statement_refuted : ~ C01_vmdk_full_statement.
Proof.
  intros H. destruct w_text_differs as [Hc Hd]. apply Hd.
  rewrite (H (concat [w_text]) [btake 29 w_text; bskip 29 w_text] Hc). rewrite (H (concat [w_text]) [w_text] eq_refl). reflexivity.
Qed.
