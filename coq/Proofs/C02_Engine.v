(* Proofs/C02_Engine.v — engine-level facts used by C02:
   1. the gate of safety_check (any format, any state);
   2. the registered checks of an inspector only ever grow (eat_chunk, finish), generic in the format;
   3. the capture invariant of formats without post_process ("static" formats): after feeding any
      chunk list, every region holds exactly stream[offset : offset+length] — for all chunkings. *)
Require Import OV.Base.Bytes OV.Base.Py OV.Base.Insp_Struct OV.Gen.Insp_Consts OV.Model.Insp_Engine.
Open Scope N_scope.

(* ------------------------------------------------------------------ 1. the gate *)
Section Gate.
Context {X : Type}.
Variable F : fmt X.

Lemma filter_nil_iff {A} (p : A -> bool) (l : list A) :
  filter p l = [] <-> forall x, In x l -> p x = false.
Proof.
  induction l as [|a l IH]; cbn [filter].
  - split; [intros _ x []|reflexivity].
  - destruct (p a) eqn:Hp.
    + split; [discriminate|]. intros H. specialize (H a (or_introl eq_refl)). congruence.
    + rewrite IH. split.
      * intros H x [->|Hx]; auto.
      * intros H x Hx. apply H. right. exact Hx.
Qed.

Lemma is_exn_false {A} (r : res A) : is_exn r = false <-> exists a, r = Ok a.
Proof. destruct r; cbn; split; try discriminate; eauto. intros [a H]. discriminate. Qed.

(* safety_check() returns normally exactly when the inspector is complete, format_match is True
   and every registered check returns without raising — for ANY state, reachable or not. *)
Lemma safety_pass_iff (s : ist X) :
  safety_check F s = Pass <->
  complete s = true /\ f_match F s = Ok true /\ forall c, In c (i_checks s) -> f_check F c s = Ok tt.
Proof.
  unfold safety_check.
  destruct (complete s) eqn:Hc; cbn [negb].
  2:{ split; [discriminate|]. intros [H _]. discriminate. }
  destruct (f_match F s) as [[|]|e] eqn:Hm.
  2,3: (split; [discriminate|]; intros [_ [H _]]; discriminate).
  destruct (filter (fun c => is_exn (f_check F c s)) (i_checks s)) as [|c0 l] eqn:Hf.
  - split; [intros _|reflexivity]. repeat split.
    intros c Hin. apply (proj1 (filter_nil_iff _ _) Hf) in Hin.
    apply is_exn_false in Hin. destruct Hin as [[] ->]. reflexivity.
  - split; [discriminate|]. intros [_ [_ H]].
    assert (Hin : In c0 (filter (fun c => is_exn (f_check F c s)) (i_checks s))) by (rewrite Hf; left; reflexivity).
    apply filter_In in Hin. destruct Hin as [Hin He]. rewrite (H _ Hin) in He. discriminate.
Qed.

(* an exception of ANY class inside a check is a failure of that check *)
Lemma check_exception_fails (s : ist X) c e :
  In c (i_checks s) -> f_check F c s = Exn e -> safety_check F s <> Pass.
Proof.
  intros Hin He Hp. apply safety_pass_iff in Hp. destruct Hp as [_ [_ H]].
  rewrite (H _ Hin) in He. discriminate.
Qed.

(* ... and it is reported under the check's name *)
Lemma check_exception_reported (s : ist X) c e :
  complete s = true -> f_match F s = Ok true ->
  In c (i_checks s) -> f_check F c s = Exn e ->
  exists names, safety_check F s = Fail names /\ In c names.
Proof.
  intros Hc Hm Hin He. unfold safety_check. rewrite Hc, Hm. cbn [negb].
  assert (H : In c (filter (fun c => is_exn (f_check F c s)) (i_checks s))).
  { apply filter_In. split; [exact Hin|]. rewrite He. reflexivity. }
  destruct (filter (fun c => is_exn (f_check F c s)) (i_checks s)) as [|c0 l] eqn:Hf; [destruct H|].
  exists (c0 :: l). split; [reflexivity|exact H].
Qed.

(* the names reported are exactly the registered checks that raised *)
Lemma safety_fail_names (s : ist X) names :
  safety_check F s = Fail names ->
  forall c, In c names <-> In c (i_checks s) /\ exists e, f_check F c s = Exn e.
Proof.
  unfold safety_check. destruct (complete s); cbn [negb]; [|discriminate].
  destruct (f_match F s) as [[|]|e]; try discriminate.
  destruct (filter (fun c => is_exn (f_check F c s)) (i_checks s)) as [|c0 l] eqn:Hf; [discriminate|].
  intros H c. injection H as <-. rewrite <- Hf, filter_In. split.
  - intros [Hin He]. split; [exact Hin|]. destruct (f_check F c s) as [|e]; [discriminate|eauto].
  - intros [Hin [e He]]. split; [exact Hin|]. rewrite He. reflexivity.
Qed.

(* the two refusals *)
Lemma safety_incomplete_refused (s : ist X) : complete s = false -> safety_check F s = Refused.
Proof. intros H. unfold safety_check. rewrite H. reflexivity. Qed.
Lemma safety_mismatch_refused (s : ist X) : f_match F s = Ok false -> safety_check F s = Refused.
Proof. intros H. unfold safety_check. rewrite H. destruct (complete s); reflexivity. Qed.

End Gate.

(* ------------------------------------------------------------------ 2. checks only grow *)
Section Checks.
Context {X : Type}.
Variable F : fmt X.
(* a reflexive, transitive relation between check lists that post_process and region_complete respect *)
Variable R : list cname -> list cname -> Prop.
Hypothesis R_refl : forall l, R l l.
Hypothesis R_trans : forall a b c, R a b -> R b c -> R a c.
Hypothesis post_R : forall s, R (i_checks s) (i_checks (fst (f_post F s))).
Hypothesis rc_R : forall n s, R (i_checks s) (i_checks (fst (f_rcomplete F n s))).

Lemma do_capture_checks only c (s : ist X) : i_checks (fst (do_capture only c s)) = i_checks s.
Proof. unfold do_capture. destruct (i_fin s); reflexivity. Qed.

Lemma settle_R fuel c known (s : ist X) : R (i_checks s) (i_checks (fst (settle fuel F c known s))).
Proof.
  revert known s. induction fuel as [|fuel IH]; intros known s; cbn [settle].
  - destruct (new_names known (i_regs s)); apply R_refl.
  - destruct (new_names known (i_regs s)) as [|n0 nl]; [apply R_refl|].
    pose proof (do_capture_checks (n0 :: nl) c s) as Hd.
    destruct (do_capture (n0 :: nl) c s) as [s1 [e|]]; cbn [fst] in *.
    + rewrite Hd. apply R_refl.
    + pose proof (post_R s1) as Hp.
      destruct (f_post F s1) as [s2 [e|]]; cbn [fst] in *.
      * rewrite <- Hd. exact Hp.
      * eapply R_trans; [|apply IH]. rewrite <- Hd. exact Hp.
Qed.

Lemma run_callbacks_R names (s : ist X) : R (i_checks s) (i_checks (fst (run_callbacks F names s))).
Proof.
  revert s. induction names as [|n names IH]; intros s; cbn [run_callbacks]; [apply R_refl|].
  pose proof (rc_R n s) as Hr.
  destruct (f_rcomplete F n s) as [s' [e|]]; cbn [fst] in *; [exact Hr|].
  eapply R_trans; [exact Hr|apply IH].
Qed.

Lemma eat_chunk_R (s : ist X) c : R (i_checks s) (i_checks (fst (eat_chunk F s c))).
Proof.
  unfold eat_chunk.
  pose proof (do_capture_checks [] c (set_pos s (i_pos s + flen c))) as Hd.
  destruct (do_capture [] c (set_pos s (i_pos s + flen c))) as [s1 [e|]]; cbn [fst] in *.
  - rewrite Hd. apply R_refl.
  - change (i_checks (set_pos s (i_pos s + flen c))) with (i_checks s) in Hd.
    pose proof (post_R s1) as Hp.
    destruct (f_post F s1) as [s2 [e|]]; cbn [fst] in *; [rewrite <- Hd; exact Hp|].
    pose proof (settle_R eat_fuel c (ids (i_regs s)) s2) as Hs.
    destruct (settle eat_fuel F c (ids (i_regs s)) s2) as [s3 [e|]]; cbn [fst] in *.
    + rewrite <- Hd. eapply R_trans; eassumption.
    + rewrite <- Hd. eapply R_trans; [exact Hp|]. eapply R_trans; [exact Hs|]. apply run_callbacks_R.
Qed.

Lemma eat_all_R (s : ist X) cs : R (i_checks s) (i_checks (fst (eat_all F s cs))).
Proof.
  revert s. induction cs as [|c cs IH]; intros s; cbn [eat_all]; [apply R_refl|].
  pose proof (eat_chunk_R s c) as H.
  destruct (eat_chunk F s c) as [s' [e|]]; cbn [fst] in *; [exact H|].
  eapply R_trans; [exact H|apply IH].
Qed.

Lemma run_fmt_R cs : R (init_checks (f_id F)) (i_checks (fst (run_fmt F cs))).
Proof.
  unfold run_fmt. pose proof (eat_all_R (init_ist F) cs) as H.
  destruct (eat_all F (init_ist F) cs) as [s e]. cbn [fst] in *. exact H.
Qed.
End Checks.

(* instances *)
Definition extends (a b : list cname) : Prop := exists l, b = a ++ l.
Lemma extends_refl l : extends l l. Proof. exists []. symmetry. apply app_nil_r. Qed.
Lemma extends_trans a b c : extends a b -> extends b c -> extends a c.
Proof. intros [l ->] [m ->]. exists (l ++ m). symmetry. apply app_assoc. Qed.
Lemma extends_nonempty a b : extends a b -> a <> [] -> b <> [].
Proof. intros [l ->] H. destruct a; [congruence|discriminate]. Qed.
Lemma extends_In a b c : extends a b -> In c a -> In c b.
Proof. intros [l ->] H. apply in_or_app. left. exact H. Qed.

(* ------------------------------------------------------------------ 3. static formats *)

(* the region as created by _initialize holding data d *)
Definition static_region (id : nat) (sp : rspec) (d : bytes) : region :=
  mkRegion id (rs_end sp) (rs_off sp) (rs_len sp) (rs_min sp) d false.

Fixpoint static_regs (id : nat) (l : list (rname * rspec)) (b : bytes) : regions :=
  match l with
  | [] => []
  | (n, sp) :: t => (n, static_region id sp (bslice (rs_off sp) (rs_len sp) b)) :: static_regs (S id) t b
  end.

Definition plain_spec (sp : rspec) : bool := negb (rs_end sp) && match rs_min sp with None => true | Some _ => false end.

Lemma init_regs_static id l : init_regs id l = static_regs id l [].
Proof.
  revert id. induction l as [|[n sp] l IH]; intros id; cbn [init_regs static_regs]; [reflexivity|].
  rewrite IH. unfold region_of_spec, static_region, bslice. rewrite bskip_nil, btake_nil. reflexivity.
Qed.

Lemma ids_static id l b : ids (static_regs id l b) = ids (static_regs id l []).
Proof. revert id. induction l as [|[n sp] l IH]; intros id; cbn; [reflexivity|]. f_equal. apply IH. Qed.

(* one region, one chunk: the heart of CaptureRegion.capture *)
Lemma cap_fixed_slice id sp sofar c :
  plain_spec sp = true ->
  let r := static_region id sp (bslice (rs_off sp) (rs_len sp) sofar) in
  (if rcomplete r then r else rcapture r c (blen sofar + flen c))
  = static_region id sp (bslice (rs_off sp) (rs_len sp) (sofar ++ c)).
Proof.
  intros Hp r. destruct sp as [e off len mn]. unfold plain_spec in Hp. cbn in Hp.
  destruct e; [discriminate|]. destruct mn; [discriminate|]. clear Hp.
  subst r. unfold static_region, rcomplete, base_complete, rcapture, cap_fixed. cbn [r_end r_min r_len r_data r_off rs_end rs_off rs_len rs_min].
  rewrite !flen_blen, blen_bslice.
  set (n := blen sofar). set (m := blen c).
  destruct (len =? N.min len (n - off)) eqn:Hfull.
  - (* already complete: nothing more is taken *)
    f_equal. unfold bslice. apply N.eqb_eq in Hfull.
    destruct (N.le_gt_cases n off) as [Hle|Hgt].
    + assert (len = 0) by lia. subst len. reflexivity.
    + rewrite bskip_app_le by (fold n; lia). rewrite btake_app_le; [reflexivity|]. rewrite blen_bskip. fold n. lia.
  - apply N.eqb_neq in Hfull.
    replace (n + m - m) with n by lia.
    destruct (N.le_gt_cases n off) as [Hle|Hgt].
    + (* the region has not started yet *)
      replace (N.min len (n - off)) with 0 by lia. rewrite N.add_0_r.
      assert (Hd : bslice off len sofar = []).
      { unfold bslice. rewrite bskip_all by (fold n; lia). apply btake_nil. }
      rewrite Hd.
      replace (n <=? off) with true by lia. cbn [andb].
      destruct (off <=? n + m) eqn:Hreach.
      * unfold set_data. cbn. f_equal. rewrite ntake_btake, nskip_bskip. cbn [app].
        unfold bslice. rewrite bskip_app_ge by (fold n; lia). reflexivity.
      * f_equal. unfold bslice. rewrite bskip_all; [rewrite btake_nil; reflexivity|].
        rewrite blen_app. fold n m. lia.
    + (* started, not complete: the data ends where the stream ended *)
      assert (Hmin : N.min len (n - off) = n - off) by lia. rewrite Hmin.
      replace (off + (n - off)) with n by lia.
      replace (n <=? n) with true by lia. replace (n <=? n + m) with true by lia. cbn [andb].
      unfold set_data. cbn. f_equal. rewrite ntake_btake, nskip_bskip. replace (n - n) with 0 by lia. rewrite bskip_0.
      unfold bslice. rewrite (bskip_app_le off sofar c) by (fold n; lia).
      rewrite btake_app_ge by (rewrite blen_btake, blen_bskip; fold n; lia).
      rewrite blen_btake, blen_bskip. fold n. rewrite Hmin.
      rewrite (btake_all len (bskip off sofar)) by (rewrite blen_bskip; fold n; lia).
      rewrite btake_app_ge by (rewrite blen_bskip; fold n; lia).
      rewrite blen_bskip. reflexivity.
Qed.

Lemma capture_regs_static id l sofar c :
  forallb (fun p => plain_spec (snd p)) l = true ->
  capture_regs [] c (blen sofar + flen c) (static_regs id l sofar) = static_regs id l (sofar ++ c).
Proof.
  revert id. induction l as [|[n sp] l IH]; intros id Hp; cbn [static_regs capture_regs map]; [reflexivity|].
  cbn [forallb snd] in Hp. apply andb_true_iff in Hp. destruct Hp as [Hp Hl].
  fold (capture_regs [] c (blen sofar + flen c) (static_regs (S id) l sofar)). rewrite IH by exact Hl.
  f_equal. f_equal.
  pose proof (cap_fixed_slice id sp sofar c Hp) as H. cbn zeta in H.
  assert (He : r_end (static_region id sp (bslice (rs_off sp) (rs_len sp) sofar)) = false).
  { unfold plain_spec in Hp. cbn. destruct (rs_end sp); [discriminate|reflexivity]. }
  rewrite He. cbn [orb].
  destruct (rcomplete (static_region id sp (bslice (rs_off sp) (rs_len sp) sofar))); cbn [negb]; rewrite H; reflexivity.
Qed.

Lemma mem_nat_In n l : mem_nat n l = true <-> In n l.
Proof.
  induction l as [|k l IH]; cbn; [split; [discriminate|intros []]|].
  rewrite orb_true_iff, IH, Nat.eqb_eq. reflexivity.
Qed.

Lemma new_names_same_ids l l' : ids l' = ids l -> new_names (ids l) l' = [].
Proof.
  intros H. unfold new_names.
  assert (Hf : filter (fun p => negb (mem_nat (r_id (snd p)) (ids l))) l' = []).
  { apply filter_nil_iff. intros p Hin. apply negb_false_iff, mem_nat_In. rewrite <- H.
    unfold ids. apply in_map_iff. exists p. split; [reflexivity|exact Hin]. }
  rewrite Hf. reflexivity.
Qed.

Section Static.
Context {X : Type}.
Variable F : fmt X.
Hypothesis no_post_F : f_post F = no_post.
Hypothesis plain_F : forallb (fun p => plain_spec (snd p)) (init_regions (f_id F)) = true.

Definition static_state (b : bytes) (fin : bool) (x : X) : ist X :=
  mkIst (blen b) (static_regs 0 (init_regions (f_id F)) b) (length (init_regions (f_id F))) fin (init_checks (f_id F)) x.

Lemma init_ist_static : init_ist F = static_state [] false (f_ext0 F).
Proof. unfold init_ist, static_state. rewrite init_regs_static. reflexivity. Qed.

(* eat_chunk on a static format: capture, then the callbacks of the regions this chunk completed *)
Lemma eat_chunk_static sofar x c :
  eat_chunk F (static_state sofar false x) c =
  run_callbacks F (newly_complete (complete_ids (static_regs 0 (init_regions (f_id F)) sofar))
                                  (static_regs 0 (init_regions (f_id F)) (sofar ++ c)))
                  (static_state (sofar ++ c) false x).
Proof.
  unfold eat_chunk, do_capture, set_regs, set_pos, static_state. cbn [i_fin i_pos i_regs i_next i_checks i_ext].
  rewrite capture_regs_static by exact plain_F.
  rewrite no_post_F. unfold no_post.
  assert (Hs : settle eat_fuel F c (ids (static_regs 0 (init_regions (f_id F)) sofar))
                 (mkIst (blen sofar + flen c) (static_regs 0 (init_regions (f_id F)) (sofar ++ c))
                        (length (init_regions (f_id F))) false (init_checks (f_id F)) x)
               = (mkIst (blen sofar + flen c) (static_regs 0 (init_regions (f_id F)) (sofar ++ c))
                        (length (init_regions (f_id F))) false (init_checks (f_id F)) x, None)).
  { unfold eat_fuel. cbn [settle i_regs]. rewrite new_names_same_ids; [reflexivity|].
    rewrite ids_static. symmetry. apply ids_static. }
  rewrite Hs. cbn [i_regs]. rewrite blen_app, flen_blen. reflexivity.
Qed.

(* callbacks that only compute the private attributes *)
Variable ext_of : bytes -> X.
Hypothesis ext0 : f_ext0 F = ext_of [].
Hypothesis callbacks_ext : forall sofar c,
  run_callbacks F (newly_complete (complete_ids (static_regs 0 (init_regions (f_id F)) sofar))
                                  (static_regs 0 (init_regions (f_id F)) (sofar ++ c)))
                  (static_state (sofar ++ c) false (ext_of sofar))
  = (static_state (sofar ++ c) false (ext_of (sofar ++ c)), None).

Lemma eat_all_static sofar cs :
  eat_all F (static_state sofar false (ext_of sofar)) cs
  = (static_state (sofar ++ concat cs) false (ext_of (sofar ++ concat cs)), None).
Proof.
  revert sofar. induction cs as [|c cs IH]; intros sofar; cbn [eat_all concat].
  - rewrite app_nil_r. reflexivity.
  - rewrite eat_chunk_static, callbacks_ext, IH, app_assoc. reflexivity.
Qed.

Lemma finish_static b x : finish (static_state b false x) = static_state b true x.
Proof.
  unfold finish, static_state. cbn [i_pos i_regs i_next i_checks i_ext]. f_equal.
  assert (H : forall id l, forallb (fun p => plain_spec (snd p)) l = true ->
              map (fun p => (fst p, if r_end (snd p) then set_fin (snd p) true else snd p)) (static_regs id l b) = static_regs id l b).
  { intros id l. revert id. induction l as [|[n sp] l IH]; intros id Hp; cbn [static_regs map]; [reflexivity|].
    cbn [forallb snd] in Hp. apply andb_true_iff in Hp. destruct Hp as [Hp Hl]. rewrite IH by exact Hl.
    cbn [fst snd static_region r_end]. unfold plain_spec in Hp. destruct (rs_end sp); [discriminate|reflexivity]. }
  apply H. exact plain_F.
Qed.

(* the whole life of a static inspector, for every chunk list: no exception, and the final object
   is a function of the concatenated bytes *)
Theorem run_fmt_static cs :
  run_fmt F cs = (static_state (concat cs) true (ext_of (concat cs)), None).
Proof.
  unfold run_fmt. rewrite init_ist_static, ext0.
  rewrite (eat_all_static [] cs). cbn [app]. rewrite finish_static. reflexivity.
Qed.
End Static.

(* formats without callbacks *)
Lemma run_callbacks_none {X} (F : fmt X) names (s : ist X) :
  f_rcomplete F = no_rcomplete -> run_callbacks F names s = (s, None).
Proof.
  intros H. revert s. induction names as [|n names IH]; intros s; cbn [run_callbacks]; [reflexivity|].
  rewrite H. unfold no_rcomplete. apply IH.
Qed.

Theorem run_fmt_static_unit (F : fmt unit) cs :
  f_post F = no_post -> f_rcomplete F = no_rcomplete ->
  forallb (fun p => plain_spec (snd p)) (init_regions (f_id F)) = true ->
  run_fmt F cs = (static_state F (concat cs) true tt, None).
Proof.
  intros Hp Hr Hpl.
  apply (run_fmt_static F Hp Hpl (fun _ => tt)).
  - destruct (f_ext0 F). reflexivity.
  - intros sofar c. apply run_callbacks_none. exact Hr.
Qed.

(* completeness of a static state is a statement about the stream length *)
Lemma static_region_complete id sp b :
  plain_spec sp = true ->
  rcomplete (static_region id sp (bslice (rs_off sp) (rs_len sp) b)) = (rs_off sp + rs_len sp <=? blen b) || (rs_len sp =? 0).
Proof.
  intros Hp. unfold plain_spec in Hp. destruct sp as [e off len mn]. cbn in Hp.
  destruct e; [discriminate|]. destruct mn; [discriminate|].
  unfold rcomplete, base_complete, static_region. cbn [r_end r_min r_len r_data rs_end rs_off rs_len rs_min].
  rewrite flen_blen, blen_bslice. lia.
Qed.
