(* Proofs/C14_Examples.v — instances showing that the hypotheses of the C14 theorems are
   satisfiable (non-vacuity), and the known finding MAXDIGITS replayed on the model. *)
From Coq Require Import String.
Require Import OV.Base.Bytes OV.Base.Py OV.Base.PyInt OV.Base.Str.
Require Import OV.Model.C14_Py OV.Gen.C14 OV.Model.C14.
Require Import OV.Proofs.C14_Str OV.Proofs.C14_Int OV.Proofs.C14_Bool OV.Proofs.C14_Num OV.Proofs.C14_Uuid.
Open Scope Z_scope.

(* a padded, mixed-case word *)
Example norm_bool_example : norm_bool ([32; 9]%N ++ lit "YeS" ++ [133]%N) = lit "yes" /\ In (lit "yes") all_words.
Proof. split; [vm_compute; reflexivity|]. apply mem_str_In. vm_compute. reflexivity. Qed.

Example word_match_example : word_match ([32; 9]%N ++ lit "YeS" ++ [133]%N) TRUE_STRINGS.
Proof.
  exists (lit "yes"). split; [apply mem_str_In; vm_compute; reflexivity|].
  exists [32; 9]%N, (lit "YeS"), [133]%N. repeat split; vm_compute; reflexivity.
Qed.

Example bool_from_string_examples :
  bool_from_string 4300 (PStr ([32; 9]%N ++ lit "YeS" ++ [133]%N)) true PNone = Ok (PBool true) /\
  bool_from_string 4300 (PStr (lit "oFF")) true PNone = Ok (PBool false) /\
  bool_from_string 4300 (PStr (lit "maybe")) false (PStr (lit "dflt")) = Ok (PStr (lit "dflt")) /\
  bool_from_string 4300 (PStr (lit "maybe")) true PNone = Exn ValueError /\
  bool_from_string 4300 (PInt 1) true PNone = Ok (PBool true) /\
  bool_from_string 4300 PNone true PNone = Exn ValueError /\
  (* KELVIN SIGN lowers to 'k', LONG S does not lower to 's': neither makes a word *)
  bool_from_string 4300 (PStr (lit "ye" ++ [383]%N)) false PNone = Ok PNone.
Proof. repeat split; vm_compute; reflexivity. Qed.

(* hypotheses of C14_is_valid_boolstr_agrees_unpadded *)
Example agrees_unpadded_instances :
  (is_bool (PStr (lit "On")) = false /\ py_str 4300 (PStr (lit "On")) = Ok (lit "On") /\ strip (lit "On") = lit "On") /\
  (is_bool (PInt 1) = false /\ py_str 4300 (PInt 1) = Ok (lit "1") /\ strip (lit "1") = lit "1").
Proof. repeat split; vm_compute; reflexivity. Qed.

Example within_limit_instance : within_limit 4300 (-123) = true /\ within_limit 2 100 = false /\ within_limit 0 (10 ^ 50) = true.
Proof. repeat split; vm_compute; reflexivity. Qed.

Example is_int_like_examples :
  is_int_like 4300 (PStr (lit "-12")) = Ok true /\ is_int_like 4300 (PStr (lit "012")) = Ok false /\
  is_int_like 4300 (PStr (lit "-0")) = Ok false /\ is_int_like 4300 (PStr (lit " 1")) = Ok false /\
  is_int_like 4300 (PStr (lit "1_0")) = Ok false /\ is_int_like 4300 (PInt 7) = Ok true /\
  is_int_like 4300 (POther (lit "1.0") (Ok 1)) = Ok false.
Proof. repeat split; vm_compute; reflexivity. Qed.

Example validate_integer_examples :
  validate_integer 4300 (PStr (lit " +1_0 ")) (Some 10) (Some 10) = Ok 10 /\
  validate_integer 4300 (PStr (lit "11")) (Some 0) (Some 10) = Exn ValueError /\
  validate_integer 4300 (PStr (lit "-1")) (Some 0) None = Exn ValueError /\
  validate_integer 4300 (PStr ([28]%N ++ lit "1")) None None = Exn ValueError /\     (* U+001C is not whitespace for int() *)
  validate_integer 4300 (PStr ([133]%N ++ lit "1")) None None = Ok 1 /\               (* U+0085 is *)
  validate_integer 4300 (PStr [1633; 1634]%N) None None = Ok 12 /\                    (* ARABIC-INDIC digits *)
  validate_integer 4300 (POther (lit "1.0") (Ok 1)) None None = Exn ValueError.
Proof. repeat split; vm_compute; reflexivity. Qed.

Example hexdigits32_instance : hexdigits32 (lit "0123456789abcdefABCDEF0123456789") = true.
Proof. vm_compute. reflexivity. Qed.

Example is_uuid_like_examples :
  is_uuid_like 4300 (PStr (lit "{urn:uuid:0123456789abcdef-ABCDEF0123456789}")) = Ok true /\
  is_uuid_like 4300 (PStr (lit "0x23456789abcdefABCDEF0123456789")) = Ok false /\   (* uuid.UUID accepts it, the comparison does not *)
  is_uuid_like 4300 (PStr (lit "0123456789abcdefABCDEF012345678")) = Ok false /\    (* 31 digits *)
  is_uuid_like 4300 (PStr (lit "{0123456789abcdefABCDEF0123456789a}")) = Ok false /\ (* 33 digits, braced *)
  is_uuid_like 4300 (PInt 5) = Ok false /\ is_uuid_like 4300 PNone = Ok false.
Proof. repeat split; vm_compute; reflexivity. Qed.

(* known finding MAXDIGITS (shown with a limit of 2 digits): str(100) raises, so a non-strict
   bool_from_string raises ValueError instead of returning the default, and is_int_like(100) is False *)
Example finding_MAXDIGITS :
  bool_from_string 2 (PInt 100) false (PBool false) = Exn ValueError /\
  is_int_like 2 (PInt 100) = Ok false /\ is_int_like 2 (PStr (lit "100")) = Ok false /\
  is_int_like 0 (PStr (lit "100")) = Ok true.
Proof. repeat split; vm_compute; reflexivity. Qed.
