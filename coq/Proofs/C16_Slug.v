(* Proofs/C16_Slug.v — to_slug: alphabet, single hyphens, idempotence, for every input,
   over any world whose NFKD/ASCII fold yields ASCII (and, for idempotence, leaves
   ASCII alone).  The only facts used about the regenerated regexes are the decidable
   [slug_tables_ok] (shape: a deleting class substitution, then runs of a class
   replaced by '-'; plus per-ASCII-character facts), re-checked by computation on
   every run, and the engine lemmas of Proofs/C16_Regex.v. *)
Require Import OV.Base.Bytes OV.Base.PyInt OV.Base.Str OV.Base.Regex OV.Base.C16_Py.
Require Import OV.Gen.Unicode OV.Gen.C16_Slug OV.Gen.C16_Code OV.Model.C16 OV.Proofs.C16_Regex.
Open Scope N_scope.

(* ---------- the ASCII range as a list ---------- *)
Definition ascii_range : list N := map N.of_nat (seq 0 128).
Lemma in_ascii_range c : c < 128 -> In c ascii_range.
Proof.
  intros H. unfold ascii_range. rewrite <- (N2Nat.id c). apply in_map. apply in_seq. lia.
Qed.
Lemma is_ascii_lt c : is_ascii c = true <-> c < 128.
Proof. unfold is_ascii. lia. Qed.

(* ---------- str.lower() on ASCII text (from the generated Unicode tables) ---------- *)
Lemma py_lower1_ascii_all :
  forallb (fun c => beq (py_lower1 c) [lower_ascii1 c]) ascii_range = true.
Proof. vm_compute. reflexivity. Qed.
Lemma py_lower1_ascii c : c < 128 -> py_lower1 c = [lower_ascii1 c].
Proof.
  intros H. apply beq_eq.
  exact (proj1 (forallb_forall _ _) py_lower1_ascii_all c (in_ascii_range c H)).
Qed.
Lemma py_lower_ascii s : forallb is_ascii s = true -> py_lower s = lower_ascii s.
Proof.
  induction s as [|c t IH]; intros H; [reflexivity|].
  cbn [forallb] in H. apply andb_true_iff in H. destruct H as [Hc Ht].
  unfold py_lower, lower_ascii in *. cbn [flat_map map].
  rewrite py_lower1_ascii by (apply is_ascii_lt; exact Hc). cbn [app]. f_equal. apply IH. exact Ht.
Qed.

(* ---------- list helpers ---------- *)
Lemma filter_id {A} (f : A -> bool) l : forallb f l = true -> filter f l = l.
Proof.
  induction l as [|x t IH]; intros H; [reflexivity|]. cbn [forallb] in H.
  apply andb_true_iff in H. destruct H as [Hx Ht]. cbn [filter]. rewrite Hx. f_equal. apply IH. exact Ht.
Qed.
Lemma map_id_on {A} (f : A -> A) l : (forall x, In x l -> f x = x) -> map f l = l.
Proof.
  induction l as [|x t IH]; intros H; [reflexivity|]. cbn [map]. rewrite H by (left; reflexivity).
  f_equal. apply IH. intros y Hy. apply H. right. exact Hy.
Qed.

(* ---------- str.strip() ---------- *)
Lemma lstrip_In c s : In c (lstrip s) -> In c s.
Proof.
  induction s as [|x t IH]; [intros []|]. cbn [lstrip]. destruct (is_space x); [intros H; right; apply IH; exact H|intros H; exact H].
Qed.
Lemma strip_In c s : In c (strip s) -> In c s.
Proof.
  unfold strip, rstrip. intros H. apply in_rev in H. apply lstrip_In in H. apply in_rev in H.
  apply lstrip_In. exact H.
Qed.
Lemma lstrip_id s : match s with x :: _ => is_space x = false | [] => True end -> lstrip s = s.
Proof. destruct s as [|x t]; [reflexivity|]. intros H. cbn [lstrip]. rewrite H. reflexivity. Qed.
Lemma strip_id s : (forall c, In c s -> is_space c = false) -> strip s = s.
Proof.
  intros H. unfold strip, rstrip. rewrite (lstrip_id s).
  - rewrite lstrip_id; [apply rev_involutive|].
    destruct (rev s) as [|x t] eqn:E; [exact I|]. apply H. apply in_rev. rewrite E. left. reflexivity.
  - destruct s as [|x t]; [exact I|]. apply H. left. reflexivity.
Qed.

(* ---------- what the theorems need from the two regenerated substitutions ---------- *)
Definition slug_facts (cs1 cs2 : cset) : bool :=
  cmem 45 cs2 &&
  forallb (fun c =>
      (* a character that survives the first substitution and, lower-cased, is not hyphenated, is in the alphabet *)
      implb (negb (cmem c cs1) && negb (cmem (lower_ascii1 c) cs2)) (slug_char (lower_ascii1 c))
      (* alphabet characters survive, are not blank, are lower case, and only '-' is hyphenated *)
      && implb (slug_char c)
               (negb (cmem c cs1) && negb (is_space c) && (lower_ascii1 c =? c) && implb (cmem c cs2) (c =? 45)))
    ascii_range.

Definition slug_tables_ok : bool :=
  match csub_of slug_sub1_re slug_sub1_tpl, csub_of slug_sub2_re slug_sub2_tpl with
  | Some d1, Some (CsRuns cs2 [h]) =>
      match deletes d1 with
      | Some cs1 => (h =? 45) && slug_facts cs1 cs2
      | None => false
      end
  | _, _ => false
  end.

Lemma slug_tables_ok_true : slug_tables_ok = true.
Proof. vm_compute. reflexivity. Qed.

Lemma slug_facts_spec cs1 cs2 : slug_facts cs1 cs2 = true ->
  cmem 45 cs2 = true /\
  forall c, c < 128 ->
    (cmem c cs1 = false -> cmem (lower_ascii1 c) cs2 = false -> slug_char (lower_ascii1 c) = true) /\
    (slug_char c = true ->
       cmem c cs1 = false /\ is_space c = false /\ lower_ascii1 c = c /\ (cmem c cs2 = true -> c = 45)).
Proof.
  unfold slug_facts. intros H. apply andb_true_iff in H. destruct H as [H45 Hall].
  split; [exact H45|]. intros c Hc.
  pose proof (proj1 (forallb_forall _ _) Hall c (in_ascii_range c Hc)) as Hf. cbv beta in Hf.
  apply andb_true_iff in Hf. destruct Hf as [Ha Hb]. split.
  - intros H1 H2. rewrite H1, H2 in Ha. exact Ha.
  - intros Hs. rewrite Hs in Hb. cbn [implb] in Hb.
    apply andb_true_iff in Hb. destruct Hb as [Hb Hb4].
    apply andb_true_iff in Hb. destruct Hb as [Hb Hb3].
    apply andb_true_iff in Hb. destruct Hb as [Hb1 Hb2].
    apply negb_true_iff in Hb1, Hb2. apply N.eqb_eq in Hb3.
    repeat split; try assumption.
    intros Hm. rewrite Hm in Hb4. cbn [implb] in Hb4. apply N.eqb_eq. exact Hb4.
Qed.

Lemma slug_char_ascii c : slug_char c = true -> c < 128.
Proof. unfold slug_char. lia. Qed.

Lemma no_double_hyphen_eq s : no_double_hyphen s = no_double 45 s.
Proof.
  induction s as [|a t IH]; [reflexivity|]. destruct t as [|b r]; [reflexivity|].
  rewrite no_double_cons2. rewrite <- IH. reflexivity.
Qed.

(* slugify, with the regex engine eliminated *)
Lemma slugify_unfold : exists cs1 cs2,
  slug_facts cs1 cs2 = true /\
  forall w s, slugify w s =
    replace_runs cs2 [45] (py_lower (strip (filter (fun c => negb (cmem c cs1)) (ascii_fold w s)))) false.
Proof.
  pose proof slug_tables_ok_true as H. unfold slug_tables_ok in H.
  destruct (csub_of slug_sub1_re slug_sub1_tpl) as [d1|] eqn:E1; [|discriminate].
  destruct (csub_of slug_sub2_re slug_sub2_tpl) as [[|cs2 [|h [|]]]|] eqn:E2; try discriminate.
  destruct (deletes d1) as [cs1|] eqn:Ed; [|discriminate].
  apply andb_true_iff in H. destruct H as [Hh Hf]. apply N.eqb_eq in Hh. subst h.
  exists cs1, cs2. split; [exact Hf|]. intros w s. unfold slugify.
  rewrite (csub_correct _ _ _ _ E2), (csub_correct _ _ _ _ E1), (deletes_filter _ _ _ Ed). reflexivity.
Qed.

Section Slug.
  Variable w : world.
  Hypothesis Hout : fold_ascii_out w.

  Theorem slugify_alphabet s :
    forallb slug_char (slugify w s) = true /\ no_double_hyphen (slugify w s) = true.
  Proof.
    destruct slugify_unfold as (cs1 & cs2 & Hf & Hs). rewrite Hs.
    destruct (slug_facts_spec _ _ Hf) as [H45 Hc]. split.
    - apply forallb_forall. intros y Hy.
      apply replace_runs_chars in Hy. destruct Hy as [->|[Hy Hm]]; [reflexivity|].
      set (v1 := filter (fun c => negb (cmem c cs1)) (ascii_fold w s)) in *.
      assert (Hv1 : forall c, In c v1 -> c < 128 /\ cmem c cs1 = false).
      { intros c Hi. apply filter_In in Hi. destruct Hi as [Hi Hk]. split.
        - apply is_ascii_lt. exact (proj1 (forallb_forall _ _) (Hout s) c Hi).
        - apply negb_true_iff. exact Hk. }
      assert (Hv2 : forallb is_ascii (strip v1) = true).
      { apply forallb_forall. intros c Hi. apply is_ascii_lt. apply Hv1. apply strip_In. exact Hi. }
      rewrite (py_lower_ascii _ Hv2) in Hy. unfold lower_ascii in Hy. apply in_map_iff in Hy.
      destruct Hy as (c & <- & Hi). apply strip_In in Hi. destruct (Hv1 c Hi) as [Hlt Hk].
      apply (proj1 (Hc c Hlt)); assumption.
    - rewrite no_double_hyphen_eq. apply replace_runs_no_double. exact H45.
  Qed.

  Hypothesis Hid : fold_ascii_id w.

  Lemma slugify_fixed o :
    forallb slug_char o = true -> no_double_hyphen o = true -> slugify w o = o.
  Proof.
    intros Ha Hn. destruct slugify_unfold as (cs1 & cs2 & Hf & Hs). rewrite Hs.
    destruct (slug_facts_spec _ _ Hf) as [H45 Hc].
    assert (Hall : forall c, In c o -> c < 128 /\ cmem c cs1 = false /\ is_space c = false /\ lower_ascii1 c = c /\ (cmem c cs2 = true -> c = 45)).
    { intros c Hi. pose proof (proj1 (forallb_forall _ _) Ha c Hi) as Hsc.
      split; [apply slug_char_ascii; exact Hsc|]. apply (proj2 (Hc c (slug_char_ascii c Hsc))). exact Hsc. }
    assert (Hasc : forallb is_ascii o = true).
    { apply forallb_forall. intros c Hi. apply is_ascii_lt. apply Hall. exact Hi. }
    rewrite (Hid o Hasc).
    rewrite filter_id by (apply forallb_forall; intros c Hi; apply negb_true_iff; apply Hall; exact Hi).
    rewrite strip_id by (intros c Hi; apply Hall; exact Hi).
    rewrite (py_lower_ascii _ Hasc). unfold lower_ascii.
    rewrite map_id_on by (intros c Hi; apply Hall; exact Hi).
    apply replace_runs_fixed.
    - intros c Hi. apply Hall. exact Hi.
    - exact H45.
    - rewrite <- no_double_hyphen_eq. exact Hn.
    - discriminate.
  Qed.

  Theorem slugify_idempotent s : slugify w (slugify w s) = slugify w s.
  Proof. destruct (slugify_alphabet s) as [Ha Hn]. apply slugify_fixed; assumption. Qed.
End Slug.

(* ---------- to_slug itself (safe_decode first) ---------- *)
Theorem to_slug_alphabet w value incoming errors o :
  fold_ascii_out w ->
  to_slug w value incoming errors = COk o ->
  forallb slug_char o = true /\ no_double_hyphen o = true.
Proof.
  intros Hout H. unfold to_slug in H. destruct (safe_decode w value incoming errors) as [s|e]; [|discriminate].
  cbn [cmap] in H. injection H as <-. apply slugify_alphabet. exact Hout.
Qed.

(* the second application is to the str result: incoming/errors are irrelevant for it *)
Theorem to_slug_idempotent w value incoming errors o incoming' errors' :
  fold_ascii_out w -> fold_ascii_id w ->
  to_slug w value incoming errors = COk o ->
  to_slug w (PStr o) incoming' errors' = COk o.
Proof.
  intros Hout Hid H. unfold to_slug in *. destruct (safe_decode w value incoming errors) as [s|e]; [|discriminate].
  cbn [cmap] in H. injection H as <-. cbn [safe_decode cmap]. f_equal. apply slugify_idempotent; assumption.
Qed.

(* to_slug fails exactly when safe_decode fails (TypeError for non-text, decoding errors for bytes) *)
Theorem to_slug_error w value incoming errors e :
  to_slug w value incoming errors = CExn e <-> safe_decode w value incoming errors = CExn e.
Proof.
  unfold to_slug. destruct (safe_decode w value incoming errors); cbn [cmap]; split; intros H; try discriminate; exact H.
Qed.
