(* Proofs/C03_Sig.v — "format names a specific format only if that format's signature is present":
   a declarative predicate [sigb f b] on the bytes per format (magic at its offset, stream long
   enough), and
     static formats (raw, qcow2, qed, vhd, vdi, iso, gpt, luks): format_match of the final state
       spec_state f b (C01 static refinement) IS sigb f b — for all byte strings;
     vhdx, vmdk: in every reachable state on stream st, format_match implies sigb f st, and sigb is
       monotone under extension of the stream for these two (prefix properties). *)
Require Import OV.Base.Bytes OV.Base.Py OV.Base.PyInt OV.Base.Str OV.Base.Insp_Struct.
Require Import OV.Gen.Insp_Consts OV.Model.Insp_Engine.
Require Import OV.Model.Insp_Raw OV.Model.Insp_Qcow2 OV.Model.Insp_Qed OV.Model.Insp_Vhd OV.Model.Insp_Vdi
               OV.Model.Insp_Iso OV.Model.Insp_Gpt OV.Model.Insp_Luks OV.Model.Insp_Vhdx OV.Model.Insp_Vmdk OV.Model.Insp_All.
Require Import OV.Model.C03 OV.Model.C01_Vmdk.
Require Import OV.Proofs.Insp_Engine OV.Proofs.Insp_FmtOk OV.Proofs.Insp_Static OV.Proofs.Insp_StaticQcow OV.Proofs.Insp_All.
Require Import OV.Proofs.C03_Engine OV.Proofs.C03_Total OV.Proofs.C01_Vmdk_Base.
Open Scope N_scope.

(* ------------------------------------------------------------------ the signature predicates *)
(* the stream fills every region created by _initialize (512 bytes for qcow2/qed/vdi/gpt,
   32768+2048 for iso, ...): generated from the source, see the Examples in Properties/C03.v *)
Definition long_enough (f : fmt_id) (b : bytes) : bool :=
  forallb (fun p => rs_off (snd p) + rs_len (snd p) <=? blen b) (init_regions f).

(* offset of the ISO volume descriptor (region 'header') *)
Definition iso_hdr : N := rs_off (spec_of F_iso R_header).
(* number of leading bytes the VMDK inspector looks at before it decides between sparse header and
   text descriptor (min_length of region 'header') *)
Definition vmdk_text_len : N := match rs_min (spec_of F_vmdk R_header) with Some m => m | None => rs_len (spec_of F_vmdk R_header) end.
Definition text_head (b : bytes) : bool := (vmdk_text_len <=? blen b) && forallb ascii_text (btake vmdk_text_len b).
(* the literal createtype=<dquote> occurs, case-insensitively, before the first NUL byte *)
Definition occ (b : bytes) : bool := occursb VMDK_CREATETYPE (lower_ascii (upto_nul b)).

Definition sigb (f : fmt_id) (b : bytes) : bool :=
  match f with
  | F_raw => true
  | F_qcow2 => long_enough F_qcow2 b && prefixb QCOW_MAGIC b
  | F_qed => long_enough F_qed b && prefixb QED_MAGIC b
  | F_vhd => prefixb VHD_MAGIC b
  | F_vhdx => prefixb VHDX_MAGIC b
  | F_vmdk => prefixb VMDK_MAGIC b || (text_head b && occ b)   (* second disjunct: text-descriptor mode, inside zone F1 *)
  | F_vdi => long_enough F_vdi b && (le_val (bsub VDI_SIG_LO VDI_SIG_HI b) =? VDI_SIG)
  | F_iso => long_enough F_iso b && mem_str (bsub (iso_hdr + ISO_SIG_LO) (iso_hdr + ISO_SIG_HI) b) [ISO_SIG_A; ISO_SIG_B; ISO_SIG_C]
  | F_gpt => long_enough F_gpt b && (le_val (bsub GPT_SIG_LO GPT_SIG_HI b) =? GPT_MBR_SIGNATURE)
             && negb ((bnth GPT_FAT_NUM_IDX b =? GPT_FAT_NUM) && (bnth GPT_FAT_MEDIA_IDX b =? GPT_MEDIA_TYPE_FDISK))
  | F_luks => beq (btake LUKS_MAGIC_TAKE b) LUKS_MAGIC
  end.

(* ------------------------------------------------------------------ slicing facts *)
Lemma prefixb_btake_le p n s : blen p <= n -> prefixb p (btake n s) = prefixb p s.
Proof. intros H. rewrite !prefixb_btake, btake_btake. replace (N.min (blen p) n) with (blen p) by lia. reflexivity. Qed.

Lemma prefixb_app_l p s t : prefixb p s = true -> prefixb p (s ++ t) = true.
Proof. intros H. apply prefixb_spec in H. destruct H as [u ->]. rewrite <- app_assoc. apply prefixb_app. Qed.

Lemma bsub_btake lo hi n s : hi <= n -> bsub lo hi (btake n s) = bsub lo hi s.
Proof.
  intros H. unfold bsub. rewrite bskip_btake, btake_btake. f_equal. lia.
Qed.

Lemma bsub_bslice lo hi off len s : hi <= len -> bsub lo hi (bslice off len s) = bsub (off + lo) (off + hi) s.
Proof.
  intros H. unfold bslice. rewrite bsub_btake by exact H. unfold bsub. rewrite bskip_bskip. f_equal. lia.
Qed.

Lemma bnth_btake i n s : i < n -> bnth i (btake n s) = bnth i s.
Proof.
  intros H. unfold bnth, btake.
  assert (G : forall (k m : nat) (l : list N), (k < m)%nat -> nth k (firstn m l) 0 = nth k l 0).
  { induction k as [|k IH]; intros m l Hk; destruct m as [|m]; try lia; destruct l as [|x l]; cbn [firstn nth]; try reflexivity.
    apply IH. lia. }
  apply G. lia.
Qed.

Lemma forallb_btake {A} (f : A -> bool) n (l : list A) : forallb f l = true -> forallb f (firstn n l) = true.
Proof.
  revert l. induction n as [|n IH]; intros l H; [reflexivity|]. destruct l as [|x l]; [reflexivity|].
  cbn [firstn forallb] in *. apply andb_true_iff in H. destruct H as [H1 H2]. rewrite H1. cbn [andb]. apply IH. exact H2.
Qed.

(* ------------------------------------------------------------------ the regions of a static inspector's final state *)
Lemma fill_rget l n k b p :
  List.find (fun q => rname_beq (fst q) n) l = Some p ->
  exists id, rget n (fill_regs k l b) =
             Some (mkRegion id false (rs_off (snd p)) (rs_len (snd p)) None (bslice (rs_off (snd p)) (rs_len (snd p)) b) false).
Proof.
  revert k. induction l as [|[m sp] t IH]; intros k H; cbn [List.find] in H; [discriminate|].
  cbn [fill_regs rget fst] in *. destruct (rname_beq m n).
  - inversion H; subst. cbn [snd]. eauto.
  - apply IH. exact H.
Qed.

Lemma ideal_get_region {X} (F : fmt X) b fin x n p :
  List.find (fun q => rname_beq (fst q) n) (init_regions (f_id F)) = Some p ->
  exists id, get_region n (ideal F b fin x) =
             Ok (mkRegion id false (rs_off (snd p)) (rs_len (snd p)) None (bslice (rs_off (snd p)) (rs_len (snd p)) b) false).
Proof.
  intros H. destruct (fill_rget _ n 0%nat b p H) as (id & Hg). exists id. unfold get_region, ideal. cbn [i_regs]. rewrite Hg. reflexivity.
Qed.

Lemma rcomplete_mk id off len d : rcomplete (mkRegion id false off len None d false) = (len =? flen d).
Proof. reflexivity. Qed.

Lemma full_window off len b : 0 < len -> (len =? flen (bslice off len b)) = (off + len <=? blen b).
Proof.
  intros Hl. rewrite flen_blen, blen_bslice.
  destruct (off + len <=? blen b) eqn:H; [apply N.leb_le in H; apply N.eqb_eq; lia | apply N.leb_gt in H; apply N.eqb_neq; lia].
Qed.

(* complete of the final state = the stream fills every region *)
Lemma complete_fill k l b :
  forallb (fun p => 0 <? rs_len (snd p)) l = true ->
  forallb (fun p : rname * region => rcomplete (snd p)) (fill_regs k l b) = forallb (fun p => rs_off (snd p) + rs_len (snd p) <=? blen b) l.
Proof.
  revert k. induction l as [|[n sp] t IH]; intros k H; [reflexivity|].
  cbn [forallb fill_regs snd] in *. apply andb_true_iff in H. destruct H as [H1 H2]. apply N.ltb_lt in H1.
  rewrite rcomplete_mk, full_window by exact H1. rewrite IH by exact H2. reflexivity.
Qed.

Lemma complete_ideal_long {X} (F : fmt X) b fin x :
  forallb (fun p => 0 <? rs_len (snd p)) (init_regions (f_id F)) = true ->
  Insp_Engine.complete (ideal F b fin x) = long_enough (f_id F) b.
Proof. intros H. unfold Insp_Engine.complete, ideal, long_enough. cbn [i_regs]. apply complete_fill. exact H. Qed.

(* ------------------------------------------------------------------ static formats: format_match of the final state is sigb *)
Notation smatch f b := (cmatch (spec_state f b)).

Lemma smatch_raw b : smatch F_raw b = sigb F_raw b.
Proof. reflexivity. Qed.

Tactic Notation "one_region" constr(F) constr(n) ident(id) ident(Hg) constr(b) :=
  destruct (ideal_get_region F b true tt n _ eq_refl) as (id & Hg); cbn [snd rs_off rs_len] in Hg.

Lemma single_long f b off len n :
  init_regions f = [(n, mkRspec false off len None)] -> long_enough f b = (off + len <=? blen b).
Proof. intros H. unfold long_enough. rewrite H. cbn [forallb snd rs_off rs_len]. apply andb_true_r. Qed.

Lemma smatch_qed b : smatch F_qed b = sigb F_qed b.
Proof.
  unfold cmatch, spec_state, spec_unit. cbn [format_match ufmt f_match qed_fmt]. unfold qed_match.
  one_region qed_fmt R_header id Hg b. rewrite Hg. cbn [bind]. rewrite rcomplete_mk, full_window by reflexivity.
  cbn [sigb]. rewrite (single_long F_qed b _ _ _ eq_refl).
  destruct (_ <=? blen b) eqn:Hl; cbn [negb andb]; [|reflexivity].
  cbn [r_data]. unfold bslice. rewrite bskip_0. apply prefixb_btake_le. vm_compute. discriminate.
Qed.

Lemma smatch_vhd b : smatch F_vhd b = sigb F_vhd b.
Proof.
  unfold cmatch, spec_state, spec_unit. cbn [format_match ufmt f_match vhd_fmt]. unfold vhd_match.
  one_region vhd_fmt R_header id Hg b. rewrite Hg. cbn [bind r_data sigb].
  unfold bslice. rewrite bskip_0. apply prefixb_btake_le. vm_compute. discriminate.
Qed.

Lemma smatch_luks b : smatch F_luks b = sigb F_luks b.
Proof.
  unfold cmatch, spec_state, spec_unit. cbn [format_match ufmt f_match luks_fmt]. unfold luks_match.
  one_region luks_fmt R_header id Hg b. rewrite Hg. cbn [bind r_data sigb].
  unfold bslice. rewrite bskip_0, ntake_btake, btake_btake. f_equal.
Qed.

Lemma smatch_vdi b : smatch F_vdi b = sigb F_vdi b.
Proof.
  unfold cmatch, spec_state, spec_unit. cbn [format_match ufmt f_match vdi_fmt]. unfold vdi_match.
  one_region vdi_fmt R_header id Hg b. rewrite Hg. cbn [bind]. rewrite rcomplete_mk, full_window by reflexivity.
  cbn [sigb]. rewrite (single_long F_vdi b _ _ _ eq_refl).
  destruct (_ <=? blen b) eqn:Hl; cbn [negb andb]; [|reflexivity]. apply N.leb_le in Hl.
  cbn [r_data]. rewrite unpack_nsub_ok; [|reflexivity|].
  2:{ rewrite flen_blen, blen_bslice. unfold VDI_SIG_HI. lia. }
  cbn [bind]. f_equal. unfold sint, sraw. cbn [sf_big sf_vdi_sig sf_fields nth].
  rewrite nsub_bsub, bsub_bslice by (unfold VDI_SIG_HI; lia). rewrite !N.add_0_l.
  f_equal. unfold bslice. rewrite bskip_0. apply btake_all. unfold bsub. rewrite blen_btake. unfold VDI_SIG_HI, VDI_SIG_LO. lia.
Qed.

Lemma smatch_gpt b : smatch F_gpt b = sigb F_gpt b.
Proof.
  unfold cmatch, spec_state, spec_unit. cbn [format_match ufmt f_match gpt_fmt]. unfold gpt_match, gpt_check_for_fat.
  one_region gpt_fmt R_mbr id Hg b. rewrite Hg. cbn [bind]. rewrite rcomplete_mk, full_window by reflexivity.
  cbn [sigb]. rewrite (single_long F_gpt b _ _ _ eq_refl).
  destruct (_ <=? blen b) eqn:Hl; cbn [negb andb]; [|reflexivity]. apply N.leb_le in Hl.
  cbn [r_data].
  assert (Hlen : flen (bslice 0 512 b) = 512) by (rewrite flen_blen, blen_bslice; lia).
  rewrite !bidx_ok by (rewrite Hlen; unfold GPT_FAT_NUM_IDX, GPT_FAT_MEDIA_IDX; lia). cbn [bind].
  rewrite unpack_nsub_ok; [|reflexivity | rewrite Hlen; unfold GPT_SIG_HI; lia].
  cbn [bind]. unfold sint, sraw. cbn [sf_big sf_gpt_sig sf_fields nth].
  rewrite nsub_bsub, bsub_bslice by (unfold GPT_SIG_HI; lia). rewrite !N.add_0_l.
  assert (H1 : forall i, i < 512 -> bnth i (bslice 0 512 b) = bnth i b).
  { intros i Hi. unfold bslice. rewrite bskip_0. apply bnth_btake. exact Hi. }
  rewrite !H1 by (unfold GPT_FAT_NUM_IDX, GPT_FAT_MEDIA_IDX; lia).
  assert (H2 : bslice 0 2 (bsub GPT_SIG_LO GPT_SIG_HI b) = bsub GPT_SIG_LO GPT_SIG_HI b).
  { unfold bslice. rewrite bskip_0. apply btake_all. unfold bsub. rewrite blen_btake. unfold GPT_SIG_HI, GPT_SIG_LO. lia. }
  rewrite H2. reflexivity.
Qed.

Lemma smatch_iso b : smatch F_iso b = sigb F_iso b.
Proof.
  unfold cmatch, spec_state, spec_unit. cbn [format_match ufmt f_match iso_fmt]. unfold iso_match.
  rewrite complete_ideal_long by reflexivity. cbn [f_id iso_fmt sigb].
  destruct (long_enough F_iso b) eqn:Hl; cbn [negb andb]; [|reflexivity].
  one_region iso_fmt R_header id Hg b. rewrite Hg. cbn [bind r_data].
  rewrite nsub_bsub, bsub_bslice by (unfold ISO_SIG_HI; lia). reflexivity.
Qed.

(* ---------- qcow2: the magic is read from qemu_header_info, filled by region_complete *)
Definition qmagic (b : bytes) : bytes := sraw sf_qcow_hdr 0 (ntake QCOW_HDR_SLICE (bslice 0 qcow_hdr_len b)).

Lemma qext_magic b : rcomplete (qR b) = true ->
  match qext b with Some h => beq (q_magic h) QCOW_MAGIC | None => false end = beq (qmagic b) QCOW_MAGIC.
Proof.
  intros Hc. unfold qext. cbv zeta. rewrite complete_ideal, Hc. unfold qcow_rcomplete.
  assert (Hg : forall x, get_region R_header (ideal qcow_fmt b false x) = Ok (qR b)).
  { intros x. unfold get_region, ideal. cbn [i_regs]. rewrite qcow_fill. reflexivity. }
  rewrite Hg.
  assert (Hu : unpack sf_qcow_hdr (ntake QCOW_HDR_SLICE (r_data (qR b))) = Ok (ntake QCOW_HDR_SLICE (r_data (qR b)))).
  { unfold unpack. rewrite flen_blen, ntake_btake, blen_btake, qcow_slice_size.
    cbn [qR r_data]. rewrite (qR_complete_len b Hc).
    replace (N.min QCOW_HDR_SLICE qcow_hdr_len =? QCOW_HDR_SLICE) with true; [reflexivity|].
    symmetry. apply N.eqb_eq. pose proof qcow_slice_le. lia. }
  rewrite Hu. unfold qcow_match.
  assert (Hg2 : forall x, get_region R_header (set_ext (ideal qcow_fmt b false None) x) = Ok (qR b)).
  { intros x. unfold get_region, ideal. cbn [set_ext i_regs]. rewrite qcow_fill. reflexivity. }
  rewrite Hg2. cbn [bind]. rewrite Hc. cbn [negb set_ext i_ext q_magic].
  fold (qmagic b). cbn [qR r_data]. fold (qmagic b).
  destruct (beq (qmagic b) QCOW_MAGIC) eqn:Hm; cbn [fst set_ext i_ext q_magic]; [exact Hm | reflexivity].
Qed.

Lemma qmagic_prefix b : qcow_hdr_len <= blen b -> beq (qmagic b) QCOW_MAGIC = prefixb QCOW_MAGIC b.
Proof.
  intros Hl. unfold qmagic, sraw. cbn [sf_qcow_hdr sf_fields nth].
  rewrite ntake_btake. unfold bslice. rewrite !bskip_0, !btake_btake.
  rewrite prefixb_btake.
  replace (N.min (N.min 4 QCOW_HDR_SLICE) qcow_hdr_len) with (blen QCOW_MAGIC); [reflexivity|].
  vm_compute. reflexivity.
Qed.

Lemma qR_incomplete_short b : rcomplete (qR b) = false -> (0 + qcow_hdr_len <=? blen b) = false.
Proof.
  intros Hc. unfold rcomplete, base_complete, qR in Hc. cbn [r_end r_min r_len r_data] in Hc.
  rewrite flen_blen, blen_bslice in Hc. apply N.eqb_neq in Hc.
  assert (Hpos : 0 < qcow_hdr_len) by (vm_compute; reflexivity).
  apply N.leb_gt; lia.
Qed.

Lemma qcow_final_region b : get_region R_header (ideal qcow_fmt b true (qext b)) = Ok (qR b).
Proof. unfold get_region, ideal. cbn [i_regs]. rewrite qcow_fill. reflexivity. Qed.

Lemma smatch_qcow2_complete b : rcomplete (qR b) = true -> smatch F_qcow2 b = sigb F_qcow2 b.
Proof.
  intros Hc. unfold cmatch, spec_state. cbn [format_match f_match qcow_fmt]. unfold qcow_match.
  rewrite qcow_final_region. cbn [bind sigb]. rewrite (single_long F_qcow2 b 0 qcow_hdr_len R_header qcow_init_regions).
  rewrite Hc. cbn [negb ideal i_ext]. rewrite (qext_magic b Hc).
  pose proof (qR_complete_len b Hc) as Hlen. rewrite blen_bslice in Hlen.
  assert (Hl : qcow_hdr_len <= blen b) by lia.
  replace (0 + qcow_hdr_len <=? blen b) with true by (symmetry; apply N.leb_le; lia).
  cbn [andb]. apply qmagic_prefix. exact Hl.
Qed.

Lemma smatch_qcow2_incomplete b : rcomplete (qR b) = false -> smatch F_qcow2 b = sigb F_qcow2 b.
Proof.
  intros Hc. unfold cmatch, spec_state. cbn [format_match f_match qcow_fmt]. unfold qcow_match.
  rewrite qcow_final_region. cbn [bind sigb]. rewrite (single_long F_qcow2 b 0 qcow_hdr_len R_header qcow_init_regions).
  rewrite Hc, (qR_incomplete_short b Hc). reflexivity.
Qed.

Lemma smatch_qcow2 b : smatch F_qcow2 b = sigb F_qcow2 b.
Proof.
  destruct (rcomplete (qR b)) eqn:Hc; [apply smatch_qcow2_complete | apply smatch_qcow2_incomplete]; exact Hc.
Qed.

(* C03_format_implies_signature, static formats: on the final state of the inspector (the C01 static
   refinement) format_match IS the signature predicate of the content *)
Theorem static_match_is_signature f b : is_static f = true -> cmatch (spec_state f b) = sigb f b.
Proof.
  intros H. destruct f; try discriminate H.
  - apply smatch_raw. - apply smatch_qcow2. - apply smatch_vhd. - apply smatch_vdi. - apply smatch_qed.
  - apply smatch_iso. - apply smatch_gpt. - apply smatch_luks.
Qed.

(* ------------------------------------------------------------------ prefix properties *)
Lemma prefixb_of_btake p n s : prefixb p (btake n s) = true -> prefixb p s = true.
Proof.
  intros H. apply prefixb_spec in H. destruct H as [t Ht]. apply prefixb_spec.
  exists (t ++ bskip n s). rewrite app_assoc, <- Ht. symmetry. apply btake_bskip_app.
Qed.

Lemma text_head_app st t : text_head st = true -> text_head (st ++ t) = true.
Proof.
  unfold text_head. intros H. apply andb_true_iff in H. destruct H as [H1 H2]. apply N.leb_le in H1.
  apply andb_true_iff. split; [apply N.leb_le; rewrite blen_app; lia|]. rewrite btake_app_le by exact H1. exact H2.
Qed.

(* for vhdx and vmdk the signature is a property of the head of the stream: it survives extension *)
Lemma sigb_vhdx_app st t : sigb F_vhdx st = true -> sigb F_vhdx (st ++ t) = true.
Proof. cbn [sigb]. apply prefixb_app_l. Qed.
Lemma occ_prefix p b : is_prefix p b -> occ p = true -> occ b = true.
Proof.
  intros Hp H. destruct (occ b) eqn:Hb; [reflexivity|]. pose proof (noct_prefix p b Hp Hb) as Hn. unfold noct in Hn. unfold occ in H. congruence.
Qed.
Lemma type_found_occ d : vmdk_type_of (lower_ascii (upto_nul d)) <> VMDK_NOTFOUND -> occ d = true.
Proof. intros H. destruct (occ d) eqn:Ho; [reflexivity|]. exfalso. apply H. apply noct_type. exact Ho. Qed.

Lemma sigb_vmdk_app st t : sigb F_vmdk st = true -> sigb F_vmdk (st ++ t) = true.
Proof.
  cbn [sigb]. intros H. apply orb_true_iff in H. apply orb_true_iff.
  destruct H as [H|H]; [left; apply prefixb_app_l; exact H|]. right. apply andb_true_iff in H. destruct H as [H1 H2].
  rewrite (text_head_app _ _ H1). apply (occ_prefix st); [exists t; reflexivity | exact H2].
Qed.

(* ------------------------------------------------------------------ VHDX *)
Theorem vhdx_match_signature st s :
  reach vhdx_fmt st s -> f_match vhdx_fmt s = Ok true -> sigb F_vhdx st = true.
Proof.
  intros Hr Hm.
  pose proof (reach_stays vhdx_fmt R_ident st s (keeps_vhdx R_ident ltac:(discriminate)) ltac:(init_stays) Hr) as H.
  destruct (stays_get _ _ _ H) as (r & Hg & Hrg & He & Ho & _).
  pose proof (reach_Inv K_fixed vhdx_fmt st s vhdx_fmt_ok Hr) as HI.
  destruct (Inv_region_RI _ _ _ _ _ HI Hrg) as [(_ & Hsl & _) _].
  cbn [f_match vhdx_fmt] in Hm. unfold vhdx_match in Hm. rewrite Hg in Hm. cbn [bind] in Hm.
  assert (Hp : prefixb VHDX_MAGIC (r_data r) = true) by congruence.
  cbn [sigb]. rewrite Hsl in Hp. rewrite Ho in Hp. change (rs_off (spec_of (f_id vhdx_fmt) R_ident)) with 0 in Hp.
  unfold bslice in Hp. rewrite bskip_0 in Hp. eapply prefixb_of_btake. exact Hp.
Qed.

(* ------------------------------------------------------------------ VMDK *)
(* the header region, while it exists, sits at offset 0 and holds the head of the stream; it is
   deleted only when what it holds (at least vmdk_text_len bytes) is printable ASCII *)
Definition VH (st : bytes) (s : ist vx) : Prop :=
  i_pos s = blen st /\ NoDup (map fst (i_regs s)) /\
  match rget R_header (i_regs s) with
  | Some h => r_end h = false /\ r_off h = 0 /\ r_min h = Some vmdk_text_len /\ RI st (i_fin s) h
  | None => text_head st = true
  end.

Lemma VH_regs st (s s' : ist vx) :
  VH st s -> i_pos s' = i_pos s -> i_fin s' = i_fin s -> NoDup (map fst (i_regs s')) ->
  rget R_header (i_regs s') = rget R_header (i_regs s) -> VH st s'.
Proof. intros (H1 & H2 & H3) Hp Hf Hn Hr. unfold VH. rewrite Hp, Hf, Hr. auto. Qed.

Lemma VH_new_region st (s s' : ist vx) n sp e : n <> R_header -> VH st s -> new_region n sp s = (s', e) -> VH st s'.
Proof.
  intros Hn H Hnr. unfold new_region, has_region, rhas in Hnr.
  destruct (rget n (i_regs s)) eqn:Hg; inversion Hnr; subst; [exact H|].
  destruct H as (H1 & H2 & H3). unfold VH. cbn [i_pos i_regs i_fin]. split; [exact H1|]. split.
  - rewrite map_app. cbn [map fst]. apply NoDup_snoc; [exact H2 | apply rget_None_notin; exact Hg].
  - destruct (rget R_header (i_regs s)) as [h|] eqn:Hh.
    + rewrite (rget_app_some _ _ _ _ Hh). exact H3.
    + rewrite (rget_app_none _ _ _ Hh). cbn [rget]. destruct (rname_beq n R_header) eqn:Hb; [|exact H3].
      apply rname_beq_eq in Hb. contradiction.
Qed.

Lemma VH_delete_other st (s s' : ist vx) n e : n <> R_header -> VH st s -> delete_region n s = (s', e) -> VH st s'.
Proof.
  intros Hn H Hd. unfold delete_region in Hd. destruct (has_region n s); inversion Hd; subst; [|exact H].
  eapply VH_regs; [exact H|reflexivity|reflexivity| |].
  - cbn [set_regs i_regs]. apply rdel_NoDup. apply H.
  - cbn [set_regs i_regs]. apply rget_rdel_other. congruence.
Qed.

Lemma VH_add_check st (s s' : ist vx) k e : VH st s -> add_check k s = (s', e) -> VH st s'.
Proof.
  intros H Ha. unfold add_check in Ha. destruct (mem_cname k (i_checks s)); inversion Ha; subst; [exact H|].
  eapply VH_regs; [exact H|reflexivity|reflexivity|apply H|reflexivity].
Qed.

Lemma forallb_firstn_of {A} (f : A -> bool) n m (l : list A) :
  (n <= m)%nat -> forallb f (firstn m l) = true -> forallb f (firstn n l) = true.
Proof.
  intros Hnm H. replace (firstn n l) with (firstn n (firstn m l)); [apply forallb_btake; exact H|].
  rewrite firstn_firstn. f_equal. lia.
Qed.

(* deleting the header: what it held was text, and it held at least vmdk_text_len bytes *)
Lemma VH_delete_header st (s s' : ist vx) h e :
  VH st s -> rget R_header (i_regs s) = Some h -> rcomplete h = true -> forallb ascii_text (r_data h) = true ->
  delete_region R_header s = (s', e) -> VH st s'.
Proof.
  intros H Hh Hc Ht Hd. unfold delete_region, has_region, rhas in Hd. rewrite Hh in Hd. inversion Hd; subst.
  destruct H as (H1 & H2 & H3). rewrite Hh in H3. destruct H3 as (He & Ho & Hm & (Hlen & Hsl & _)).
  unfold VH. cbn [set_regs i_pos i_regs i_fin]. split; [exact H1|]. split; [apply rdel_NoDup; exact H2|].
  rewrite (rget_rdel_same _ _ H2).
  unfold rcomplete, base_complete in Hc. rewrite He, Hm, flen_blen in Hc. apply N.leb_le in Hc.
  rewrite Ho in Hsl. unfold bslice in Hsl. rewrite bskip_0 in Hsl.
  assert (Hle : blen (r_data h) <= blen st).
  { rewrite Hsl at 1. rewrite blen_btake. lia. }
  unfold text_head. apply andb_true_iff. split; [apply N.leb_le; lia|].
  rewrite Hsl in Ht. unfold btake in *. eapply forallb_firstn_of; [|exact Ht]. lia.
Qed.

Lemma vmdk_min_is_text_len : rs_min (spec_of F_vmdk R_header) = Some vmdk_text_len.
Proof. reflexivity. Qed.

Lemma VH_post st (s s' : ist vx) e : VH st s -> vmdk_post s = (s', e) -> VH st s'.
Proof.
  intros H Hp. unfold vmdk_post in Hp.
  destruct (rget R_header (i_regs s)) as [h|] eqn:Hh; [|inversion Hp; subst; exact H].
  destruct (rcomplete h) eqn:Hc; cbn [negb] in Hp; [|inversion Hp; subst; exact H].
  destruct (vmdk_parse_sparse s R_header 0) as [[[[[sig ver] dsec] dnum] gd]|ex]; [|inversion Hp; subst; exact H].
  destruct (negb (beq sig VMDK_MAGIC_PP)).
  { destruct (forallb ascii_text (r_data h)) eqn:Ht; [|inversion Hp; subst; exact H].
    eapply VH_delete_header; eauto. }
  destruct (negb _); [inversion Hp; subst; exact H|].
  match type of Hp with (match ?m with _ => _ end) = _ => destruct m as [s1 e1] eqn:Hm end.
  assert (H1 : VH st s1).
  { destruct ((gd =? VMDK_GD_AT_END) && negb (has_region R_footer s)); [|inversion Hm; subst; exact H].
    destruct (new_region R_footer _ s) as [sa ea] eqn:Hn.
    assert (Ha : VH st sa) by (eapply VH_new_region; [|exact H|exact Hn]; discriminate).
    destruct ea; [inversion Hm; subst; exact Ha|]. eapply VH_add_check; eauto. }
  destruct e1; [inversion Hp; subst; exact H1|].
  destruct (negb (_ =? VMDK_DESC_OFFSET)); [inversion Hp; subst; exact H1|].
  destruct (get_region R_descriptor s1) as [d|]; [|inversion Hp; subst; exact H1].
  destruct (r_off d =? 0); [|inversion Hp; subst; exact H1].
  destruct (delete_region R_descriptor s1) as [s2 e2] eqn:Hd.
  assert (H2 : VH st s2) by (eapply VH_delete_other; [|exact H1|exact Hd]; discriminate).
  destruct e2; [inversion Hp; subst; exact H2|].
  eapply VH_new_region; [|exact H2|exact Hp]. discriminate.
Qed.

Lemma VH_rcomplete st n (s s' : ist vx) e : VH st s -> vmdk_rcomplete n s = (s', e) -> VH st s'.
Proof.
  intros H Hc. unfold vmdk_rcomplete, vmdk_parse_descriptor in Hc.
  destruct n; try (inversion Hc; subst; exact H).
  destruct (get_region R_descriptor s); [|inversion Hc; subst; exact H].
  destruct (negb _); inversion Hc; subst; [exact H|].
  eapply VH_regs; [exact H|reflexivity|reflexivity|apply H|reflexivity].
Qed.

Lemma VH_first st (s0 : ist vx) c : VH st s0 -> i_fin s0 = false ->
  VH (st ++ c) (set_regs (set_pos s0 (i_pos s0 + flen c)) (capture_regs [] c (i_pos s0 + flen c) (i_regs s0))).
Proof.
  intros (H1 & H2 & H3) Hfin. unfold VH. cbn [set_regs set_pos i_pos i_regs i_fin].
  rewrite flen_blen, H1, <- blen_app. split; [reflexivity|]. split; [rewrite capture_regs_names; exact H2|].
  rewrite rget_capture. destruct (rget R_header (i_regs s0)) as [h|]; cbn [option_map].
  - destruct H3 as (He0 & Ho & Hm & HR). rewrite cap1_all. cbn [snd].
    destruct (cap1_fixed [] c (blen (st ++ c)) R_header h He0) as (G1 & G2 & G3 & G4 & _).
    rewrite cap1_all in G1, G2, G4. cbn [snd] in G1, G2, G4.
    split; [exact G1|]. split; [congruence|]. split; [congruence|].
    rewrite Hfin in HR. rewrite Hfin. apply rcapture_RI_first. exact HR.
  - apply text_head_app. exact H3.
Qed.

Lemma VH_finished st (s0 : ist vx) c : VH st s0 -> i_fin s0 = true -> VH (st ++ c) (set_pos s0 (i_pos s0 + flen c)).
Proof.
  intros (H1 & H2 & H3) Hfin. unfold VH. cbn [set_pos i_pos i_regs i_fin].
  rewrite flen_blen, H1, <- blen_app. split; [reflexivity|]. split; [exact H2|].
  destruct (rget R_header (i_regs s0)) as [h|].
  - destruct H3 as (He0 & Ho & Hm & HR). split; [exact He0|]. split; [exact Ho|]. split; [exact Hm|].
    rewrite Hfin in *. apply RI_ext_fin. exact HR.
  - apply text_head_app. exact H3.
Qed.

Lemma VH_cap st c (s0 : ist vx) only : VH (st ++ c) s0 -> i_fin s0 = false ->
  VH (st ++ c) (set_regs s0 (capture_regs only c (i_pos s0) (i_regs s0))).
Proof.
  intros (H1 & H2 & H3) Hfin. unfold VH. cbn [set_regs i_pos i_regs i_fin].
  split; [exact H1|]. split; [rewrite capture_regs_names; exact H2|].
  rewrite rget_capture. destruct (rget R_header (i_regs s0)) as [h|]; cbn [option_map]; [|exact H3].
  destruct H3 as (He0 & Ho & Hm & HR).
  destruct (cap1_fixed only c (i_pos s0) R_header h He0) as (G1 & G2 & G3 & G4 & _).
  split; [exact G1|]. split; [congruence|]. split; [congruence|].
  rewrite Hfin in *. unfold cap1.
  destruct (match only with [] => false | _ :: _ => negb (mem_rname R_header only) end); [exact HR|].
  rewrite He0. cbn [orb]. destruct (negb (rcomplete h)); cbn [snd]; [|exact HR].
  unfold rcapture. rewrite He0, H1. apply cap_fixed_RI; assumption.
Qed.

Lemma VH_eat st (s s' : ist vx) c e : VH st s -> eat_chunk vmdk_fmt s c = (s', e) -> VH (st ++ c) s'.
Proof.
  intros H He. refine (pres_eat_chunk vmdk_fmt c (VH st) (VH (st ++ c)) _ _ _ _ _ s s' e H He).
  - intros s0. apply VH_first.
  - intros s0. apply VH_finished.
  - intros s0 only. apply VH_cap.
  - intros s0 s1 e0 H0 Hp. eapply VH_post; eauto.
  - intros n s0 s1 e0 H0 Hc. eapply VH_rcomplete; eauto.
Qed.

Lemma VH_finish st (s : ist vx) : VH st s -> VH st (Insp_Engine.finish s).
Proof.
  intros (H1 & H2 & H3). unfold VH, Insp_Engine.finish. cbn [i_pos i_regs i_fin]. split; [exact H1|]. split.
  - rewrite map_map. cbn [fst]. exact H2.
  - rewrite rget_finish. destruct (rget R_header (i_regs s)) as [h|]; cbn [option_map]; [|exact H3].
    destruct H3 as (He0 & Ho & Hm & HR). rewrite He0. split; [exact He0|]. split; [exact Ho|]. split; [exact Hm|].
    eapply RI_to_fin. exact HR.
Qed.

Lemma VH_init : VH [] (init_ist vmdk_fmt).
Proof.
  unfold VH. split; [reflexivity|]. split; [cbn; repeat constructor; cbn; intuition discriminate|].
  cbn. split; [reflexivity|]. split; [reflexivity|]. split; [reflexivity|]. apply RI_fresh. discriminate.
Qed.

Lemma reach_VH st s : reach vmdk_fmt st s -> VH st s.
Proof.
  intros Hr. induction Hr as [|st s c s' e Hr IH He|st s Hr IH].
  - exact VH_init.
  - eapply VH_eat; eauto.
  - apply VH_finish. exact IH.
Qed.

(* ---------- the text-descriptor branch: vmdktype comes from a descriptor region at offset 0 *)
(* the header region is complete and carries the KDMV signature: it is never deleted again *)
Definition kd (d : bytes) : bool :=
  match unpack sf_vmdk_sparse (nsub 0 (0 + VMDK_MIN_SPARSE_HEADER) d) with
  | Ok b => beq (sraw sf_vmdk_sparse 0 b) VMDK_MAGIC_PP
  | Exn _ => false
  end.
Definition hdr_kdmv (s : ist vx) : Prop :=
  exists h, rget R_header (i_regs s) = Some h /\ r_end h = false /\ rcomplete h = true /\ kd (r_data h) = true.
(* the descriptor region is still the one _initialize created (offset 0): whatever was parsed from it is a
   prefix of the stream, so a vmdktype other than 'formatnotfound' means createtype=<dquote> occurs *)
Definition desc0 (st : bytes) (s : ist vx) : Prop :=
  exists d, rget R_descriptor (i_regs s) = Some d /\ r_end d = false /\ r_off d = 0 /\ RI st (i_fin s) d /\
            (v_vmdktype (i_ext s) = VMDK_NOTFOUND \/ occ st = true).
Definition VT (st : bytes) (s : ist vx) : Prop :=
  i_pos s = blen st /\ NoDup (map fst (i_regs s)) /\ (desc0 st s \/ hdr_kdmv s).

Lemma hdr_kdmv_regs (s s' : ist vx) : rget R_header (i_regs s') = rget R_header (i_regs s) -> hdr_kdmv s -> hdr_kdmv s'.
Proof. intros H (h & Hh & Hr). exists h. rewrite H. auto. Qed.

Lemma hdr_kdmv_new_region (s s' : ist vx) n sp e : n <> R_header -> hdr_kdmv s -> new_region n sp s = (s', e) -> hdr_kdmv s'.
Proof.
  intros Hn (h & Hh & Hr) Hnr. unfold new_region in Hnr. destruct (has_region n s); inversion Hnr; subst; [exists h; auto|].
  exists h. cbn [i_regs]. rewrite (rget_app_some _ _ _ _ Hh). auto.
Qed.
Lemma hdr_kdmv_delete (s s' : ist vx) n e : n <> R_header -> hdr_kdmv s -> delete_region n s = (s', e) -> hdr_kdmv s'.
Proof.
  intros Hn H Hd. unfold delete_region in Hd. destruct (has_region n s); inversion Hd; subst; [|exact H].
  eapply hdr_kdmv_regs; [|exact H]. cbn [set_regs i_regs]. apply rget_rdel_other. congruence.
Qed.
Lemma hdr_kdmv_add_check (s s' : ist vx) k e : hdr_kdmv s -> add_check k s = (s', e) -> hdr_kdmv s'.
Proof. intros H Ha. unfold add_check in Ha. destruct (mem_cname k (i_checks s)); inversion Ha; subst; exact H. Qed.

Lemma nd_new_region {X} (s s' : ist X) n sp e : NoDup (map fst (i_regs s)) -> new_region n sp s = (s', e) -> NoDup (map fst (i_regs s')).
Proof.
  intros H Hn. unfold new_region, has_region, rhas in Hn. destruct (rget n (i_regs s)) eqn:Hg; inversion Hn; subst; [exact H|].
  cbn [i_regs]. rewrite map_app. cbn [map fst]. apply NoDup_snoc; [exact H | apply rget_None_notin; exact Hg].
Qed.
Lemma nd_delete {X} (s s' : ist X) n e : NoDup (map fst (i_regs s)) -> delete_region n s = (s', e) -> NoDup (map fst (i_regs s')).
Proof.
  intros H Hd. unfold delete_region in Hd. destruct (has_region n s); inversion Hd; subst; [|exact H].
  cbn [set_regs i_regs]. apply rdel_NoDup. exact H.
Qed.
Lemma nd_add_check {X} (s s' : ist X) k e : NoDup (map fst (i_regs s)) -> add_check k s = (s', e) -> NoDup (map fst (i_regs s')).
Proof. intros H Ha. unfold add_check in Ha. destruct (mem_cname k (i_checks s)); inversion Ha; subst; exact H. Qed.
Lemma pos_new_region {X} (s s' : ist X) n sp e : new_region n sp s = (s', e) -> i_pos s' = i_pos s /\ i_fin s' = i_fin s /\ i_ext s' = i_ext s.
Proof. unfold new_region. destruct (has_region n s); intros H; inversion H; subst; auto. Qed.
Lemma pos_delete {X} (s s' : ist X) n e : delete_region n s = (s', e) -> i_pos s' = i_pos s /\ i_fin s' = i_fin s /\ i_ext s' = i_ext s.
Proof. unfold delete_region. destruct (has_region n s); intros H; inversion H; subst; auto. Qed.
Lemma pos_add_check {X} (s s' : ist X) k e : add_check k s = (s', e) -> i_pos s' = i_pos s /\ i_fin s' = i_fin s /\ i_ext s' = i_ext s.
Proof. unfold add_check. destruct (mem_cname k (i_checks s)); intros H; inversion H; subst; auto. Qed.

(* once the header carries KDMV, post_process keeps it (only footer / descriptor regions are touched) *)
Lemma VT_post_kdmv st (s s' : ist vx) e :
  i_pos s = blen st -> NoDup (map fst (i_regs s)) -> hdr_kdmv s -> vmdk_post s = (s', e) -> VT st s'.
Proof.
  intros Hpos Hnd Hk Hp. destruct Hk as (h & Hh & He0 & Hc & Hkd).
  assert (Hk : hdr_kdmv s) by (exists h; auto).
  assert (Hsame : VT st s) by (split; [exact Hpos|]; split; [exact Hnd | right; exact Hk]).
  unfold vmdk_post in Hp. rewrite Hh, Hc in Hp. cbn [negb] in Hp.
  unfold vmdk_parse_sparse, get_region in Hp. rewrite Hh in Hp. cbn [bind] in Hp.
  unfold kd in Hkd. destruct (unpack sf_vmdk_sparse (nsub 0 (0 + VMDK_MIN_SPARSE_HEADER) (r_data h))) as [b|ex]; [|discriminate].
  cbn [bind] in Hp. rewrite Hkd in Hp. cbn [negb] in Hp.
  destruct (negb _); [inversion Hp; subst; exact Hsame|].
  match type of Hp with (match ?m with _ => _ end) = _ => destruct m as [s1 e1] eqn:Hm end.
  assert (H1 : i_pos s1 = blen st /\ NoDup (map fst (i_regs s1)) /\ hdr_kdmv s1).
  { destruct ((_ =? VMDK_GD_AT_END) && negb (has_region R_footer s)); [|inversion Hm; subst; auto].
    destruct (new_region R_footer _ s) as [sa ea] eqn:Hn.
    assert (Ha : i_pos sa = blen st /\ NoDup (map fst (i_regs sa)) /\ hdr_kdmv sa).
    { destruct (pos_new_region _ _ _ _ _ Hn) as (P1 & _). split; [congruence|]. split; [eapply nd_new_region; eauto|].
      eapply hdr_kdmv_new_region; [|exact Hk|exact Hn]. discriminate. }
    destruct ea; [inversion Hm; subst; exact Ha|]. destruct Ha as (A1 & A2 & A3).
    destruct (pos_add_check _ _ _ _ Hm) as (P1 & _). split; [congruence|]. split; [eapply nd_add_check; eauto | eapply hdr_kdmv_add_check; eauto]. }
  destruct H1 as (P1 & N1 & K1).
  assert (V1 : VT st s1) by (split; [exact P1|]; split; [exact N1 | right; exact K1]).
  destruct e1; [inversion Hp; subst; exact V1|].
  destruct (negb (_ =? VMDK_DESC_OFFSET)); [inversion Hp; subst; exact V1|].
  fold (get_region R_descriptor s1) in Hp.
  destruct (get_region R_descriptor s1) as [d|]; [|inversion Hp; subst; exact V1].
  destruct (r_off d =? 0); [|inversion Hp; subst; exact V1].
  destruct (delete_region R_descriptor s1) as [s2 e2] eqn:Hd.
  assert (H2 : i_pos s2 = blen st /\ NoDup (map fst (i_regs s2)) /\ hdr_kdmv s2).
  { destruct (pos_delete _ _ _ _ Hd) as (Q1 & _). split; [congruence|]. split; [eapply nd_delete; eauto|].
    eapply hdr_kdmv_delete; [|exact K1|exact Hd]. discriminate. }
  destruct H2 as (P2 & N2 & K2).
  destruct e2; [inversion Hp; subst; split; [exact P2|]; split; [exact N2 | right; exact K2]|].
  destruct (pos_new_region _ _ _ _ _ Hp) as (Q1 & _). split; [congruence|]. split; [eapply nd_new_region; eauto|].
  right. eapply hdr_kdmv_new_region; [|exact K2|exact Hp]. discriminate.
Qed.

Lemma desc0_regs st (s s' : ist vx) :
  rget R_descriptor (i_regs s') = rget R_descriptor (i_regs s) -> i_fin s' = i_fin s -> i_ext s' = i_ext s -> desc0 st s -> desc0 st s'.
Proof. intros Hr Hf Hx (d & Hd & H). exists d. rewrite Hr, Hf, Hx. auto. Qed.

Lemma VT_post st (s s' : ist vx) e : VH st s -> VT st s -> vmdk_post s = (s', e) -> VT st s'.
Proof.
  intros HV (Hpos & Hnd & [Hd|Hk]) Hp; [|eapply VT_post_kdmv; eauto].
  assert (Hsame : VT st s) by (split; [exact Hpos|]; split; [exact Hnd | left; exact Hd]).
  pose proof Hp as Hp0. unfold vmdk_post in Hp.
  destruct (rget R_header (i_regs s)) as [h|] eqn:Hh; [|inversion Hp; subst; exact Hsame].
  destruct (rcomplete h) eqn:Hc; cbn [negb] in Hp; [|inversion Hp; subst; exact Hsame].
  unfold vmdk_parse_sparse, get_region in Hp. rewrite Hh in Hp. cbn [bind] in Hp.
  destruct (unpack sf_vmdk_sparse (nsub 0 (0 + VMDK_MIN_SPARSE_HEADER) (r_data h))) as [b|ex] eqn:Hu; cbn [bind] in Hp;
    [|inversion Hp; subst; exact Hsame].
  destruct (beq (sraw sf_vmdk_sparse 0 b) VMDK_MAGIC_PP) eqn:Hsig; cbn [negb] in Hp.
  - (* KDMV: from now on the header stays *)
    destruct HV as (_ & _ & HV). rewrite Hh in HV. destruct HV as (He0 & _).
    eapply VT_post_kdmv; eauto. exists h. unfold kd. rewrite Hu. auto.
  - destruct (forallb ascii_text (r_data h)); [|inversion Hp; subst; exact Hsame].
    destruct (pos_delete _ _ _ _ Hp) as (Q1 & Q2 & Q3). split; [congruence|]. split; [eapply nd_delete; eauto|]. left.
    eapply desc0_regs; [| exact Q2 | exact Q3 | exact Hd].
    unfold delete_region in Hp. destruct (has_region R_header s); inversion Hp; subst; [|reflexivity].
    cbn [set_regs i_regs]. apply rget_rdel_other. discriminate.
Qed.

Lemma VT_rcomplete st n (s s' : ist vx) e : VT st s -> vmdk_rcomplete n s = (s', e) -> VT st s'.
Proof.
  intros (Hpos & Hnd & Hc) H. unfold vmdk_rcomplete, vmdk_parse_descriptor in H.
  assert (Hsame : VT st s) by (split; [exact Hpos|]; split; assumption).
  destruct n; try (inversion H; subst; exact Hsame).
  unfold get_region in H. destruct (rget R_descriptor (i_regs s)) as [d0|] eqn:Hd0; [|inversion H; subst; exact Hsame].
  destruct (negb _); inversion H; subst; [exact Hsame|].
  split; [exact Hpos|]. split; [exact Hnd|]. destruct Hc as [(d & Hd & He0 & Ho & HR & _)|Hk].
  - left. rewrite Hd0 in Hd. inversion Hd; subst d0. exists d. cbn [set_ext i_regs i_fin i_ext v_vmdktype].
    split; [exact Hd0|]. split; [exact He0|]. split; [exact Ho|]. split; [exact HR|].
    fold (upto_nul (r_data d)).
    destruct (beq (vmdk_type_of (lower_ascii (upto_nul (r_data d)))) VMDK_NOTFOUND) eqn:Hb; [left; apply beq_eq; exact Hb|].
    right. apply (occ_prefix (r_data d)).
    + destruct HR as (_ & Hsl & _). rewrite Ho in Hsl. unfold bslice in Hsl. rewrite bskip_0 in Hsl. rewrite Hsl. apply is_prefix_btake.
    + apply type_found_occ. intros Heq. rewrite Heq, beq_refl in Hb. discriminate.
  - right. eapply hdr_kdmv_regs; [|exact Hk]. reflexivity.
Qed.

Lemma hdr_kdmv_capture (s0 : ist vx) only c pos : hdr_kdmv s0 -> hdr_kdmv (set_regs s0 (capture_regs only c pos (i_regs s0))).
Proof.
  intros (h & Hh & He0 & Hc & Hk). exists h. cbn [set_regs i_regs]. rewrite rget_capture, Hh. cbn [option_map].
  rewrite (cap1_complete only c pos R_header h He0 Hc). auto.
Qed.

Lemma VT_eat st (s s' : ist vx) c e : VH st s -> VT st s -> eat_chunk vmdk_fmt s c = (s', e) -> VH (st ++ c) s' /\ VT (st ++ c) s'.
Proof.
  intros HV HT He.
  refine (pres_eat_chunk vmdk_fmt c (fun s => VH st s /\ VT st s) (fun s => VH (st ++ c) s /\ VT (st ++ c) s) _ _ _ _ _ s s' e (conj HV HT) He).
  - intros s0 [V0 (Hpos & Hnd & Hc)] Hfin. split; [apply VH_first; assumption|].
    split; [cbn [set_regs set_pos i_pos]; rewrite flen_blen, Hpos, <- blen_app; reflexivity|].
    split; [cbn [set_regs i_regs]; rewrite capture_regs_names; exact Hnd|].
    destruct Hc as [(d & Hd & He0 & Ho & HR & Hv)|Hk].
    + left. unfold desc0. cbn [set_regs set_pos i_regs i_fin i_ext]. rewrite rget_capture, Hd. cbn [option_map].
      eexists. split; [reflexivity|]. rewrite cap1_all. cbn [snd].
      destruct (cap1_fixed [] c (i_pos s0 + flen c) R_descriptor d He0) as (G1 & G2 & _). rewrite cap1_all in G1, G2. cbn [snd] in G1, G2.
      split; [exact G1|]. split; [congruence|]. split.
      * rewrite Hfin in *. rewrite flen_blen, Hpos, <- blen_app. apply rcapture_RI_first. exact HR.
      * destruct Hv as [Hv|Hv]; [left; exact Hv | right; apply (occ_prefix st); [exists c; reflexivity | exact Hv]].
    + right. apply (hdr_kdmv_capture (set_pos s0 (i_pos s0 + flen c))). exact Hk.
  - intros s0 [V0 (Hpos & Hnd & Hc)] Hfin. split; [apply VH_finished; assumption|].
    split; [cbn [set_pos i_pos]; rewrite flen_blen, Hpos, <- blen_app; reflexivity|]. split; [exact Hnd|].
    destruct Hc as [(d & Hd & He0 & Ho & HR & Hv)|Hk]; [left|right; exact Hk].
    exists d. cbn [set_pos i_regs i_fin i_ext]. split; [exact Hd|]. split; [exact He0|]. split; [exact Ho|]. split.
    + rewrite Hfin in *. apply RI_ext_fin. exact HR.
    + destruct Hv as [Hv|Hv]; [left; exact Hv | right; apply (occ_prefix st); [exists c; reflexivity | exact Hv]].
  - intros s0 only [V0 (Hpos & Hnd & Hc)] Hfin. split; [apply VH_cap; assumption|].
    split; [exact Hpos|]. split; [cbn [set_regs i_regs]; rewrite capture_regs_names; exact Hnd|].
    destruct Hc as [(d & Hd & He0 & Ho & HR & Hv)|Hk]; [left|right; apply hdr_kdmv_capture; exact Hk].
    unfold desc0. cbn [set_regs i_regs i_fin i_ext]. rewrite rget_capture, Hd. cbn [option_map]. eexists. split; [reflexivity|].
    destruct (cap1_fixed only c (i_pos s0) R_descriptor d He0) as (G1 & G2 & _).
    split; [exact G1|]. split; [congruence|]. split; [|exact Hv].
    rewrite Hfin in *. unfold cap1.
    destruct (match only with [] => false | _ :: _ => negb (mem_rname R_descriptor only) end); [exact HR|].
    rewrite He0. cbn [orb]. destruct (negb (rcomplete d)); cbn [snd]; [|exact HR].
    unfold rcapture. rewrite He0, Hpos. apply cap_fixed_RI; assumption.
  - intros s0 s1 e0 [V0 T0] Hp. split; [eapply VH_post; eauto | eapply VT_post; eauto].
  - intros n s0 s1 e0 [V0 T0] Hc. split; [eapply VH_rcomplete; eauto | eapply VT_rcomplete; eauto].
Qed.

Lemma VT_finish st (s : ist vx) : VT st s -> VT st (Insp_Engine.finish s).
Proof.
  intros (Hpos & Hnd & Hc). split; [exact Hpos|]. split; [unfold Insp_Engine.finish; cbn [i_regs]; rewrite map_map; exact Hnd|].
  destruct Hc as [(d & Hd & He0 & Ho & HR & Hv)|(h & Hh & He0 & Hcm & Hk)].
  - left. exists d. unfold Insp_Engine.finish. cbn [i_regs i_fin i_ext]. rewrite rget_finish, Hd. cbn [option_map].
    split; [rewrite He0; reflexivity|]. split; [exact He0|]. split; [exact Ho|]. split; [eapply RI_to_fin; exact HR | exact Hv].
  - right. exists h. unfold Insp_Engine.finish. cbn [i_regs]. rewrite rget_finish, Hh. cbn [option_map].
    split; [rewrite He0; reflexivity|]. auto.
Qed.

Lemma VT_init : VT [] (init_ist vmdk_fmt).
Proof.
  split; [reflexivity|]. split; [cbn; repeat constructor; cbn; intuition discriminate|]. left.
  eexists. split; [vm_compute; reflexivity|]. cbn [r_end r_off i_fin i_ext init_ist f_ext0 vmdk_fmt v_vmdktype].
  split; [reflexivity|]. split; [reflexivity|]. split; [|left; reflexivity].
  unfold RI. cbn [r_data r_len r_off r_end]. rewrite blen_nil. split; [lia|]. split; [reflexivity | discriminate].
Qed.

Lemma reach_VT st s : reach vmdk_fmt st s -> VH st s /\ VT st s.
Proof.
  intros Hr. induction Hr as [|st s c s' e Hr IH He|st s Hr IH].
  - split; [exact VH_init | exact VT_init].
  - destruct IH as [HV HT]. eapply VT_eat; eauto.
  - destruct IH as [HV HT]. split; [apply VH_finish; exact HV | apply VT_finish; exact HT].
Qed.

(* C03_format_implies_signature, vmdk: format_match in a reachable state means KDMV at offset 0, or the
   text-descriptor mode (zone F1): the first 64 bytes are printable ASCII AND createtype=<dquote> occurs before the
   first NUL byte of the stream (that is what vmdktype != 'formatnotfound' requires) *)
Theorem vmdk_match_signature st s :
  reach vmdk_fmt st s -> f_match vmdk_fmt s = Ok true -> sigb F_vmdk st = true.
Proof.
  intros Hr Hm. destruct (reach_VT st s Hr) as [(_ & _ & H3) (_ & _ & HT)].
  cbn [f_match vmdk_fmt] in Hm. unfold vmdk_match in Hm. cbn [sigb]. apply orb_true_iff.
  destruct (rget R_header (i_regs s)) as [h|] eqn:Hh.
  - left. assert (Hp : prefixb VMDK_MAGIC (r_data h) = true) by congruence. destruct H3 as (_ & Ho & _ & (_ & Hsl & _)).
    rewrite Hsl, Ho in Hp. unfold bslice in Hp. rewrite bskip_0 in Hp. eapply prefixb_of_btake. exact Hp.
  - right. rewrite H3. cbn [andb].
    destruct HT as [(d & _ & _ & _ & _ & Hv)|(h & Hh' & _)]; [|rewrite Hh in Hh'; discriminate].
    destruct Hv as [Hv|Hv]; [|exact Hv]. exfalso.
    assert (Hn : negb (beq (v_vmdktype (i_ext s)) VMDK_NOTFOUND) = true) by congruence.
    rewrite Hv, beq_refl in Hn. discriminate.
Qed.
