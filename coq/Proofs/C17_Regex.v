(* Proofs/C17_Regex.v — engine lemmas used by the C17 proofs, on top of the generic ones of
   C11_Regex.v (declarative relation) and C04_Regex.v (continuation invariant, greedy run,
   re_sub frame).  Everything here is for arbitrary regexes / character sets:
     - a repeat whose shorter takes all fail behaves like its maximal take (m_rep_exact);
     - an ordered alternation of literal strings is "first alternative that is a prefix of
       the subject and whose continuation succeeds" (m_alts);
     - re_sub copies a prefix in which no position matches, and replaces at a match. *)
Require Import OV.Base.Bytes OV.Base.PyInt OV.Base.Regex.
Require Import OV.Proofs.C11_Regex OV.Proofs.C04_Regex.
Open Scope N_scope.

(* ---------- try_counts ---------- *)
Lemma try_counts_none R s p g (k : cont R) mn n :
  (mn <= n)%nat ->
  (forall j, (mn <= j <= n)%nat -> k (skipn j s) (p + N.of_nat j) g = None) ->
  try_counts R s p g k mn n = None.
Proof.
  induction n as [|n IH]; intros Hmn H; cbn [try_counts].
  - rewrite H by lia. reflexivity.
  - rewrite H by lia. destruct (Nat.ltb n mn) eqn:L; [reflexivity|].
    apply Nat.ltb_ge in L. apply IH; [exact L|]. intros j Hj. apply H. lia.
Qed.

Lemma try_counts_top R s p g (k : cont R) mn n :
  (mn <= n)%nat ->
  (forall j, (mn <= j < n)%nat -> k (skipn j s) (p + N.of_nat j) g = None) ->
  try_counts R s p g k mn n = k (skipn n s) (p + N.of_nat n) g.
Proof.
  intros Hmn H. destruct n as [|n]; cbn [try_counts].
  - destruct (k (skipn 0 s) (p + N.of_nat 0) g); reflexivity.
  - destruct (k (skipn (S n) s) (p + N.of_nat (S n)) g) eqn:E; [reflexivity|].
    destruct (Nat.ltb n mn) eqn:L; [reflexivity|]. apply Nat.ltb_ge in L.
    apply try_counts_none; [exact L|]. intros j Hj. apply H. lia.
Qed.

(* a repeat over a maximal run [v]: if every shorter take fails, the result is the
   continuation after the whole run *)
Lemma m_rep_exact R cs mn v rest p g (k : cont R) :
  all_in cs v = true -> hd_notin cs rest = true -> (mn <= length v)%nat ->
  (forall j, (mn <= j < length v)%nat -> k (skipn j (v ++ rest)) (p + N.of_nat j) g = None) ->
  m R (Rep cs mn None) (v ++ rest) p g k = k rest (p + blen v) g.
Proof.
  intros Hv Hr Hmn Hk. cbn [m].
  rewrite (C04_Regex.run_len_exact cs v rest None Hv eq_refl (or_introl Hr)).
  replace (Nat.ltb (length v) mn) with false by (symmetry; apply Nat.ltb_ge; lia).
  rewrite try_counts_top by assumption. rewrite skipn_app_exact. reflexivity.
Qed.

Lemma m_rep_short R cs mn v rest p g (k : cont R) :
  all_in cs v = true -> hd_notin cs rest = true -> (length v < mn)%nat ->
  m R (Rep cs mn None) (v ++ rest) p g k = None.
Proof.
  intros Hv Hr Hmn. cbn [m].
  rewrite (C04_Regex.run_len_exact cs v rest None Hv eq_refl (or_introl Hr)).
  replace (Nat.ltb (length v) mn) with true by (symmetry; apply Nat.ltb_lt; lia). reflexivity.
Qed.

(* the maximal run of a class at the head of a string *)
Fixpoint span_cs (cs : cset) (s : str) : str * str :=
  match s with
  | [] => ([], [])
  | c :: t => if cmem c cs then (c :: fst (span_cs cs t), snd (span_cs cs t)) else ([], s)
  end.
Lemma span_cs_spec cs s :
  s = fst (span_cs cs s) ++ snd (span_cs cs s) /\ all_in cs (fst (span_cs cs s)) = true /\
  hd_notin cs (snd (span_cs cs s)) = true.
Proof.
  induction s as [|c t IH]; [repeat split|]. cbn [span_cs]. destruct (cmem c cs) eqn:E; cbn [fst snd].
  - destruct IH as (I1 & I2 & I3). repeat split; [cbn [app]; f_equal; exact I1| |exact I3].
    unfold all_in in *. cbn [forallb]. rewrite E. exact I2.
  - repeat split. cbn [hd_notin]. rewrite E. reflexivity.
Qed.

(* ---------- literals and ordered alternations of literals ---------- *)
Fixpoint lit_of (r : re) : option str :=
  match r with
  | Chr [(a, b)] => if a =? b then Some [a] else None
  | Seq (Chr [(a, b)]) t => if a =? b then option_map (cons a) (lit_of t) else None
  | _ => None
  end.
Fixpoint alts_of (r : re) : option (list str) :=
  match r with
  | Alt a b => match lit_of a, alts_of b with Some x, Some l => Some (x :: l) | _, _ => None end
  | _ => option_map (fun x => [x]) (lit_of r)
  end.

Lemma cmem_single a c : cmem c [(a, a)] = (a =? c).
Proof. cbn [cmem]. lia. Qed.

Lemma m_lit R r : forall l s p g (k : cont R), lit_of r = Some l ->
  m R r s p g k = if prefixb l s then k (skipn (length l) s) (p + blen l) g else None.
Proof.
  induction r as [|cs|a IHa b IHb|a IHa b IHb|cs mn mx|a IHa|i a IHa| |]; intros l s p g k H; cbn [lit_of] in H; try discriminate.
  - destruct cs as [|[x y] [|? ?]]; try discriminate. destruct (x =? y) eqn:E; [|discriminate].
    apply N.eqb_eq in E. subst y. injection H as <-. cbn [m]. destruct s as [|c t]; [reflexivity|].
    rewrite cmem_single. cbn [prefixb length skipn]. rewrite andb_true_r. reflexivity.
  - destruct a as [|cs| | | | | | |]; try discriminate.
    destruct cs as [|[x y] [|? ?]]; try discriminate. destruct (x =? y) eqn:E; [|discriminate].
    apply N.eqb_eq in E. subst y. destruct (lit_of b) as [lb|] eqn:Eb; [|discriminate]. cbn in H. injection H as <-.
    cbn [m]. destruct s as [|c t]; [reflexivity|]. rewrite cmem_single. cbn [prefixb length skipn].
    destruct (x =? c); [|reflexivity]. cbn [andb]. rewrite (IHb lb) by reflexivity.
    rewrite blen_cons. replace (p + 1 + blen lb) with (p + (1 + blen lb)) by lia. reflexivity.
Qed.

Fixpoint first_some {A B} (f : A -> option B) (l : list A) : option B :=
  match l with
  | [] => None
  | x :: t => match f x with Some y => Some y | None => first_some f t end
  end.

Definition alt_k R (s : str) (p : N) (g : groups) (k : cont R) (a : str) : option R :=
  if prefixb a s then k (skipn (length a) s) (p + blen a) g else None.

Lemma m_alts R r : forall l s p g (k : cont R), alts_of r = Some l ->
  m R r s p g k = first_some (alt_k R s p g k) l.
Proof.
  induction r as [|cs|a IHa b IHb|a IHa b IHb|cs mn mx|a IHa|i a IHa| |]; intros l s p g k H;
    try (cbn [alts_of] in H; destruct (lit_of _) as [x|] eqn:E; [|discriminate]; cbn in H; injection H as <-;
         cbn [first_some]; unfold alt_k; rewrite (m_lit R _ x) by exact E;
         match goal with |- context [if ?c then _ else _] => destruct c end;
         try reflexivity; match goal with |- ?o = _ => destruct o; reflexivity end).
  cbn [alts_of] in H. destruct (lit_of a) as [x|] eqn:Ea; [|discriminate].
  destruct (alts_of b) as [lb|] eqn:Eb; [|discriminate]. injection H as <-.
  cbn [m first_some]. rewrite (m_lit R a x) by exact Ea. rewrite (IHb lb) by reflexivity. reflexivity.
Qed.

Lemma first_some_none {A B} (f : A -> option B) l : (forall a, In a l -> f a = None) -> first_some f l = None.
Proof.
  induction l as [|x t IH]; intros H; [reflexivity|]. cbn [first_some].
  rewrite H by (left; reflexivity). apply IH. intros a Ha. apply H. right. exact Ha.
Qed.

Lemma first_some_pick {A B} (f : A -> option B) l a x :
  In a l -> f a = Some x -> (forall b, In b l -> f b = None \/ f b = Some x) -> first_some f l = Some x.
Proof.
  induction l as [|y t IH]; intros Hin Ha H; [destruct Hin|]. cbn [first_some].
  destruct (H y (or_introl eq_refl)) as [E|E]; rewrite E; [|reflexivity].
  destruct Hin as [->|Hin]; [congruence|]. apply IH; auto. intros b Hb. apply H. right. exact Hb.
Qed.

(* the first alternative (in order) satisfying P, as an index-free statement *)
Lemma first_some_first {A B} (f : A -> option B) pre a post :
  (forall b, In b pre -> f b = None) -> first_some f (pre ++ a :: post) = match f a with Some y => Some y | None => first_some f post end.
Proof.
  induction pre as [|y t IH]; intros H; [reflexivity|]. cbn [app first_some].
  rewrite H by (left; reflexivity). apply IH. intros b Hb. apply H. right. exact Hb.
Qed.

(* ---------- prefixes ---------- *)
Lemma prefixb_false_hd a c t : match a with x :: _ => x <> c | [] => False end -> prefixb a (c :: t) = false.
Proof. destruct a as [|x a]; [intros []|]. intros H. cbn [prefixb]. replace (x =? c) with false by (symmetry; apply N.eqb_neq; exact H). reflexivity. Qed.

Lemma prefixb_nil_false a : a <> [] -> prefixb a [] = false.
Proof. destruct a; [congruence|reflexivity]. Qed.

(* two prefixes of the same string: one is a prefix of the other *)
Lemma prefixes_comparable (a b s : str) :
  prefixb a s = true -> prefixb b s = true ->
  (exists x, b = a ++ x) \/ (exists x, a = b ++ x).
Proof.
  revert b s. induction a as [|c a IH]; intros b s Ha Hb.
  - left. exists b. reflexivity.
  - destruct b as [|d b]; [right; exists (c :: a); reflexivity|].
    destruct s as [|e s]; [discriminate|]. cbn [prefixb] in Ha, Hb.
    apply andb_true_iff in Ha. apply andb_true_iff in Hb. destruct Ha as [Ha1 Ha2]. destruct Hb as [Hb1 Hb2].
    apply N.eqb_eq in Ha1, Hb1. subst c d.
    destruct (IH b s Ha2 Hb2) as [[x ->]|[x ->]]; [left|right]; exists x; reflexivity.
Qed.

(* ---------- re_sub ---------- *)
Lemma sub_go_copy r t whole : forall pre rest p,
  (forall j, (j < length pre)%nat -> match_at r (skipn j (pre ++ rest)) (p + N.of_nat j) = None) ->
  sub_go r t whole (pre ++ rest) p 0 = pre ++ sub_go r t whole rest (p + blen pre) 0.
Proof.
  induction pre as [|c pre IH]; intros rest p H.
  - cbn [app]. rewrite blen_nil, N.add_0_r. reflexivity.
  - cbn [app sub_go]. pose proof (H 0%nat ltac:(cbn; lia)) as H0. cbn [skipn app] in H0.
    rewrite N.add_0_r in H0. rewrite H0. f_equal. rewrite IH.
    + rewrite blen_cons. f_equal. f_equal. lia.
    + intros j Hj. specialize (H (S j) ltac:(cbn; lia)). cbn [skipn app] in H.
      replace (p + 1 + N.of_nat j) with (p + N.of_nat (S j)) by lia. exact H.
Qed.

Lemma sub_go_hit r t whole s p n g :
  (0 < n)%nat -> (n <= length s)%nat -> match_at r s p = Some (p + N.of_nat n, g) ->
  sub_go r t whole s p 0 = expand t whole g ++ sub_go r t whole (skipn n s) (p + N.of_nat n) 0.
Proof.
  intros Hn Hl H. destruct s as [|c rest]; [cbn in Hl; lia|]. cbn [sub_go]. rewrite H.
  replace (p <? p + N.of_nat n) with true by lia. f_equal.
  rewrite sub_go_skip. destruct n as [|n]; [lia|]. cbn [skipn].
  replace (N.to_nat (p + N.of_nat (S n) - p) - 1)%nat with n by lia. f_equal. lia.
Qed.

Lemma sub_go_nil r t whole p k : sub_go r t whole [] p k = [].
Proof. reflexivity. Qed.

(* heads and indices *)
Lemma hd_skipn {A} (s : list A) j : hd_error (skipn j s) = nth_error s j.
Proof. revert s. induction j as [|j IH]; intros [|c t]; cbn; auto. Qed.

Lemma run_len_in cs s j : (j < run_len cs s None)%nat -> exists c, nth_error s j = Some c /\ cmem c cs = true.
Proof.
  revert s. induction j as [|j IH]; intros [|c t] H; cbn [run_len] in H; try lia.
  - destruct (cmem c cs) eqn:E; [|lia]. exists c. split; [reflexivity|exact E].
  - destruct (cmem c cs) eqn:E; [|lia]. cbn [option_map] in H. cbn [nth_error]. apply IH. lia.
Qed.

Lemma run_len_stop cs s : match nth_error s (run_len cs s None) with Some c => cmem c cs = false | None => True end.
Proof.
  induction s as [|c t IH]; [exact I|]. cbn [run_len]. destruct (cmem c cs) eqn:E; cbn [nth_error option_map]; [exact IH|exact E].
Qed.
