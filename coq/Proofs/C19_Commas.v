(* Proofs/C19_Commas.v — split_by_commas: the parser never runs out of fuel, it
   inverts the quote-and-join convention on the exact item alphabet, and it rejects
   unbalanced / misplaced quoting and empty unquoted items. *)
Require Import OV.Base.Bytes OV.Base.Py OV.Base.Str OV.Base.C19_PyList OV.Gen.C19_Grammar OV.Model.C19 OV.Model.C19_Spec.
Open Scope N_scope.

(* ------------------------------------------------------------------ the grammar's arguments
   (regenerated from the source; the property speaks of double quotes, backslashes and commas) *)
Lemma quote_is : quote_char = 34. Proof. reflexivity. Qed.
Lemma esc_is : esc_char = 92. Proof. reflexivity. Qed.
Lemma delim_is : delim_char = 44. Proof. reflexivity. Qed.

Lemma memN_In c l : memN c l = true -> In c l.
Proof. induction l as [|x l IH]; cbn [memN]; [discriminate|]. intros H. apply orb_true_iff in H.
  destruct H as [H|H]; [left; apply N.eqb_eq; exact H|right; auto]. Qed.

(* facts needed about Word's alphabet, checked on the regenerated list *)
Definition word_char_ok (c : N) : bool :=
  negb (c =? 34) && negb (c =? 44) && negb (c =? 9) && negb (c =? 10) && negb (c =? 13) && negb (is_white c).
Lemma word_chars_ok : forallb word_char_ok word_chars = true.
Proof. vm_compute. reflexivity. Qed.
Lemma is_word_ok c : is_word c = true -> word_char_ok c = true.
Proof. intros H. apply memN_In in H. pose proof word_chars_ok as Hf. rewrite forallb_forall in Hf. auto. Qed.

Ltac word_facts H :=
  let Hw := fresh "Hw" in
  pose proof (is_word_ok _ H) as Hw; unfold word_char_ok in Hw;
  repeat (apply andb_true_iff in Hw; let H2 := fresh "Hw" in destruct Hw as [Hw H2]);
  repeat match goal with Hx : negb _ = true |- _ => apply negb_true_iff in Hx end.

(* every printable ASCII character other than the double quote, the comma and the backslash (the
   characters that make the writer quote an item; space is below 33) is a Word character *)
Lemma small_cases (P : N -> bool) (n : nat) :
  forallb P (map N.of_nat (seq 0 n)) = true -> forall c, c < N.of_nat n -> P c = true.
Proof. intros H c Hc. rewrite forallb_forall in H. apply H.
  rewrite <- (N2Nat.id c). apply in_map, in_seq. lia. Qed.
Lemma printable_is_word c : 33 <= c <= 126 -> c <> 34 -> c <> 44 -> c <> 92 -> is_word c = true.
Proof.
  intros Hr H1 H2 H3.
  pose proof (small_cases (fun c => negb ((33 <=? c) && (c <=? 126) && negb (c =? 34) && negb (c =? 44) && negb (c =? 92)) || is_word c) 127) as H.
  specialize (H ltac:(vm_compute; reflexivity) c ltac:(lia)). cbv beta in H.
  replace (33 <=? c) with true in H by lia. replace (c <=? 126) with true in H by lia.
  replace (c =? 34) with false in H by lia. replace (c =? 44) with false in H by lia.
  replace (c =? 92) with false in H by lia. exact H.
Qed.

Lemma white_quote : is_white 34 = false. Proof. reflexivity. Qed.
Lemma white_comma : is_white 44 = false. Proof. reflexivity. Qed.
Lemma word_quote : is_word 34 = false. Proof. reflexivity. Qed.
Lemma word_comma : is_word 44 = false. Proof. reflexivity. Qed.
Lemma white_space : is_white 32 = true. Proof. reflexivity. Qed.

(* ------------------------------------------------------------------ expandtabs *)
Fixpoint col_after (col : N) (s : str) : N :=
  match s with
  | [] => col
  | c :: t => if c =? 9 then col_after (col + (8 - col mod 8)) t
              else col_after (if (c =? 10) || (c =? 13) then 0 else col + 1) t
  end.
Lemma expandtabs_app s : forall col b,
  expandtabs_from col (s ++ b) = expandtabs_from col s ++ expandtabs_from (col_after col s) b.
Proof. induction s as [|c t IH]; intros col b; [reflexivity|]. cbn [app expandtabs_from col_after].
  destruct (c =? 9); rewrite IH; [rewrite app_assoc|]; reflexivity. Qed.
Lemma expandtabs_notab s : ~ In 9 s -> forall col, expandtabs_from col s = s.
Proof. induction s as [|c t IH]; intros H col; [reflexivity|]. cbn [expandtabs_from].
  destruct (N.eqb_spec c 9) as [->|Hn]; [cbn in H; tauto|]. rewrite IH by (cbn in H; tauto). reflexivity. Qed.
Lemma forallb_repeatN (P : N -> bool) x n : P x = true -> forallb P (repeatN x n) = true.
Proof. intros H. induction n; cbn; [reflexivity|]. rewrite H. exact IHn. Qed.
Lemma expandtabs_blank w : forallb is_white w = true -> forall col, forallb is_white (expandtabs_from col w) = true.
Proof. induction w as [|c t IH]; intros H col; [reflexivity|]. cbn [forallb] in H.
  apply andb_true_iff in H. destruct H as [Hc Ht]. cbn [expandtabs_from].
  destruct (c =? 9).
  - rewrite forallb_app, IH by exact Ht. rewrite forallb_repeatN by exact white_space. reflexivity.
  - cbn [forallb]. rewrite Hc, IH by exact Ht. reflexivity. Qed.
Lemma expandtabs_cons_notab c t col : c <> 9 ->
  expandtabs_from col (c :: t) = c :: expandtabs_from (if (c =? 10) || (c =? 13) then 0 else col + 1) t.
Proof. intros H. cbn [expandtabs_from]. destruct (N.eqb_spec c 9); [congruence|reflexivity]. Qed.

(* the number of double quotes *)
Fixpoint nq (s : str) : nat :=
  match s with [] => O | c :: t => if c =? 34 then S (nq t) else nq t end.
Lemma nq_app a b : nq (a ++ b) = (nq a + nq b)%nat.
Proof. induction a as [|c t IH]; [reflexivity|]. cbn [app nq]. rewrite IH. destruct (c =? 34); reflexivity. Qed.
Lemma nq_repeat_space n : nq (repeatN 32 n) = O.
Proof. induction n; [reflexivity|]. cbn. exact IHn. Qed.
Lemma nq_expandtabs s : forall col, nq (expandtabs_from col s) = nq s.
Proof. induction s as [|c t IH]; intros col; [reflexivity|]. cbn [expandtabs_from nq].
  destruct (N.eqb_spec c 9) as [->|Hn].
  - rewrite nq_app, nq_repeat_space, IH. reflexivity.
  - cbn [nq]. rewrite IH. reflexivity. Qed.
Lemma nq_pos_nonnil s : (0 < nq s)%nat -> s <> [].
Proof. destruct s; [cbn; lia|discriminate]. Qed.

(* ------------------------------------------------------------------ whitespace *)
Lemma skip_ws_nonwhite c t : is_white c = false -> skip_ws (c :: t) = c :: t.
Proof. intros H. cbn [skip_ws]. rewrite H. reflexivity. Qed.
Lemma skip_ws_blank w r : forallb is_white w = true -> skip_ws (w ++ r) = skip_ws r.
Proof. induction w as [|c t IH]; intros H; [reflexivity|]. cbn [forallb] in H.
  apply andb_true_iff in H. destruct H as [Hc Ht]. cbn [app skip_ws]. rewrite Hc. auto. Qed.
Lemma skip_ws_length s : (length (skip_ws s) <= length s)%nat.
Proof. induction s as [|c t IH]; [cbn; lia|]. cbn [skip_ws]. destruct (is_white c); cbn [length]; lia. Qed.
Lemma skip_ws_nq s : nq (skip_ws s) = nq s.
Proof. induction s as [|c t IH]; [reflexivity|]. cbn [skip_ws]. destruct (is_white c) eqn:E; [|reflexivity].
  cbn [nq]. destruct (N.eqb_spec c 34) as [->|]; [rewrite white_quote in E; discriminate|exact IH]. Qed.
Lemma skip_ws_idem s : skip_ws (skip_ws s) = skip_ws s.
Proof. induction s as [|c t IH]; [reflexivity|]. cbn [skip_ws]. destruct (is_white c) eqn:E; [exact IH|].
  cbn [skip_ws]. rewrite E. reflexivity. Qed.

(* ------------------------------------------------------------------ QuotedString *)
Lemma str_len_ind (P : str -> Prop) :
  (forall s, (forall t, (length t < length s)%nat -> P t) -> P s) -> forall s, P s.
Proof. intros H s. remember (length s) as n eqn:Hn. revert s Hn.
  induction n as [n IH] using lt_wf_ind. intros s ->. apply H. intros t Ht. exact (IH _ Ht t eq_refl). Qed.

Lemma scan_quoted_props s : forall raw r, scan_quoted s = Some (raw, r) ->
  (length r < length s)%nat /\ (1 <= nq s)%nat.
Proof.
  induction s as [s IH] using str_len_ind. intros raw r H.
  destruct s as [|c t]; [discriminate|]. cbn [scan_quoted] in H. rewrite quote_is, esc_is in H.
  destruct (N.eqb_spec c 34) as [->|Hq].
  - injection H as <- <-. cbn [length nq N.eqb]. cbn. lia.
  - destruct (N.eqb_spec c 92) as [->|He].
    + destruct t as [|d t']; [discriminate|]. destruct (d =? 10); [discriminate|].
      destruct (scan_quoted t') as [[raw' r']|] eqn:E; [|discriminate]. injection H as <- <-.
      destruct (IH t' ltac:(cbn; lia) _ _ E) as [H1 H2]. cbn [length nq]. split; [lia|].
      change (92 =? 34) with false. cbv iota. destruct (d =? 34); lia.
    + destruct ((c =? 10) || (c =? 13)); [discriminate|].
      destruct (scan_quoted t) as [[raw' r']|] eqn:E; [|discriminate]. injection H as <- <-.
      destruct (IH t ltac:(cbn; lia) _ _ E) as [H1 H2]. cbn [length nq]. split; [lia|].
      destruct (c =? 34); lia.
Qed.

Lemma scan_quoted_escape it rest : forallb (fun c => negb ((c =? 10) || (c =? 13))) it = true ->
  scan_quoted (flat_map escape1 it ++ 34 :: rest) = Some (flat_map escape1 it, rest).
Proof.
  induction it as [|c it IH]; intros H.
  - reflexivity.
  - cbn [forallb] in H. apply andb_true_iff in H. destruct H as [Hc Hit]. specialize (IH Hit).
    cbn [flat_map]. unfold escape1 at 1 3.
    destruct (N.eqb_spec c 34) as [->|Hq]; [cbn [orb app scan_quoted N.eqb]; cbn; rewrite IH; reflexivity|].
    destruct (N.eqb_spec c 92) as [->|He]; [cbn [orb app scan_quoted]; cbn; rewrite IH; reflexivity|].
    cbn [orb app scan_quoted]. rewrite quote_is, esc_is.
    replace (c =? 34) with false by lia. replace (c =? 92) with false by lia.
    apply negb_true_iff in Hc. rewrite Hc, IH. reflexivity.
Qed.

(* un-escaping inverts the writer's escaping *)
Lemma unesc_at_special d X : d = 34 \/ d = 92 -> unesc_at 92 (d :: X) = ([d], 1%nat).
Proof. intros [->| ->]; destruct X; reflexivity. Qed.
Lemma unesc_at_plain c t : c <> 92 -> unesc_at c t = ([c], 0%nat).
Proof. intros H. unfold unesc_at, group3. rewrite esc_is. replace (c =? 92) with false by lia. reflexivity. Qed.
Lemma unescape_escape it : unescape (flat_map escape1 it) = it.
Proof.
  unfold unescape. induction it as [|c it IH]; [reflexivity|].
  cbn [flat_map]. unfold escape1 at 1.
  destruct (N.eqb_spec c 34) as [->|Hq].
  - cbn [orb app unescape_go]. rewrite unesc_at_special by auto. cbn [app unescape_go]. rewrite IH. reflexivity.
  - destruct (N.eqb_spec c 92) as [->|He].
    + cbn [orb app unescape_go]. rewrite unesc_at_special by auto. cbn [app unescape_go]. rewrite IH. reflexivity.
    + cbn [orb app unescape_go]. rewrite unesc_at_plain by exact He. cbn [app]. rewrite IH. reflexivity.
Qed.

(* ------------------------------------------------------------------ Word *)
Definition stops (rest : str) : bool := match rest with [] => true | x :: _ => negb (is_word x) end.

Lemma take_word_app w rest : forallb is_word w = true -> stops rest = true -> take_word (w ++ rest) = (w, rest).
Proof.
  induction w as [|c w IH]; intros Hw Hs.
  - destruct rest as [|x r]; [reflexivity|]. cbn [app take_word]. cbn [stops] in Hs.
    apply negb_true_iff in Hs. rewrite Hs. reflexivity.
  - cbn [forallb] in Hw. apply andb_true_iff in Hw. destruct Hw as [Hc Hw].
    cbn [app take_word]. rewrite Hc, IH by assumption. reflexivity.
Qed.
Lemma take_word_split s : forall w r, take_word s = (w, r) -> s = w ++ r /\ forallb is_word w = true.
Proof.
  induction s as [|c t IH]; intros w r H.
  - injection H as <- <-. split; reflexivity.
  - cbn [take_word] in H. destruct (is_word c) eqn:E.
    + destruct (take_word t) as [w' r'] eqn:Et. injection H as <- <-.
      destruct (IH _ _ eq_refl) as [-> Hw]. split; [reflexivity|]. cbn [forallb]. rewrite E, Hw. reflexivity.
    + injection H as <- <-. split; reflexivity.
Qed.
Lemma nq_word w : forallb is_word w = true -> nq w = O.
Proof. induction w as [|c w IH]; [reflexivity|]. cbn [forallb]. intros H. apply andb_true_iff in H.
  destruct H as [Hc Hw]. cbn [nq]. destruct (N.eqb_spec c 34) as [->|]; [rewrite word_quote in Hc; discriminate|auto]. Qed.

(* ------------------------------------------------------------------ one item *)
Lemma parse_item_unquoted w rest : w <> [] -> forallb is_word w = true -> stops rest = true ->
  parse_item (w ++ rest) = Some (w, rest).
Proof.
  intros Hn Hw Hs. destruct w as [|c w']; [congruence|].
  pose proof Hw as Hw'. cbn [forallb] in Hw'. apply andb_true_iff in Hw'. destruct Hw' as [Hc _].
  word_facts Hc.
  unfold parse_item. change ((c :: w') ++ rest) with (c :: (w' ++ rest)).
  rewrite skip_ws_nonwhite by assumption.
  unfold parse_quoted. rewrite quote_is. replace (c =? 34) with false by (symmetry; assumption).
  unfold parse_word. change (c :: (w' ++ rest)) with ((c :: w') ++ rest). rewrite take_word_app by assumption.
  reflexivity.
Qed.

Lemma parse_item_quoted it rest : forallb (fun c => negb ((c =? 10) || (c =? 13))) it = true ->
  parse_item (quoted_field it ++ rest) = Some (it, rest).
Proof.
  intros H. unfold parse_item, quoted_field. cbn [app].
  rewrite skip_ws_nonwhite by exact white_quote.
  unfold parse_quoted. rewrite quote_is. cbn [N.eqb Pos.eqb]. change (34 =? 34) with true. cbv iota.
  rewrite <- app_assoc. cbn [app]. rewrite scan_quoted_escape by exact H. rewrite unescape_escape. reflexivity.
Qed.

Lemma forallb_impl {A} (P Q : A -> bool) l : (forall x, P x = true -> Q x = true) -> forallb P l = true -> forallb Q l = true.
Proof. intros H. induction l as [|x l IH]; [reflexivity|]. cbn [forallb]. intros H2. apply andb_true_iff in H2.
  destruct H2 as [H3 H4]. rewrite (H _ H3), IH by assumption. reflexivity. Qed.

Lemma item_ok_cases it : item_ok it = true ->
  it <> [] /\
  ((needs_quoting it = true /\ quote it = quoted_field it /\
    forallb (fun c => negb ((c =? 9) || (c =? 10) || (c =? 13))) it = true) \/
   (needs_quoting it = false /\ quote it = it /\ forallb is_word it = true)).
Proof.
  unfold item_ok, quote, quoted_field. intros H. apply andb_true_iff in H. destruct H as [Hn H].
  split; [destruct it; [discriminate|discriminate]|].
  destruct (needs_quoting it); [left|right]; auto.
Qed.

Lemma parse_item_quote it rest : item_ok it = true -> stops rest = true ->
  parse_item (quote it ++ rest) = Some (it, rest).
Proof.
  intros H Hs. destruct (item_ok_cases it H) as [Hn [(_ & -> & Hc)|(_ & -> & Hw)]].
  - apply parse_item_quoted. revert Hc. apply forallb_impl. intros c Hc.
    apply negb_true_iff in Hc. apply negb_true_iff. destruct (c =? 9), (c =? 10), (c =? 13); cbn in *; congruence.
  - apply parse_item_unquoted; assumption.
Qed.

Lemma parse_item_shrinks s it r : parse_item s = Some (it, r) -> (length r < length s)%nat.
Proof.
  unfold parse_item. pose proof (skip_ws_length s) as Hl. set (s' := skip_ws s) in *.
  destruct (parse_quoted s') as [[it' r']|] eqn:Eq.
  - intros [= <- <-]. unfold parse_quoted in Eq. destruct s' as [|c t]; [discriminate|].
    destruct (c =? quote_char); [|discriminate].
    destruct (scan_quoted t) as [[raw r'']|] eqn:Es; [|discriminate]. injection Eq as <- <-.
    apply scan_quoted_props in Es. cbn [length] in Hl. lia.
  - unfold parse_word. destruct (take_word s') as [w r'] eqn:Et. destruct w as [|c w]; [discriminate|].
    intros [= <- <-]. apply take_word_split in Et. destruct Et as [E _]. rewrite E in Hl.
    rewrite app_length in Hl. cbn [length] in Hl. lia.
Qed.

(* with at most one double quote in the text no quoted string can match, and the
   quote is never consumed *)
Lemma parse_item_nq s it r : (nq s <= 1)%nat -> parse_item s = Some (it, r) -> nq r = nq s.
Proof.
  unfold parse_item. rewrite <- (skip_ws_nq s). generalize (skip_ws s). intros s' Hq.
  destruct (parse_quoted s') as [[it' r']|] eqn:Eq.
  - exfalso. unfold parse_quoted in Eq. destruct s' as [|c t]; [discriminate|]. rewrite quote_is in Eq.
    destruct (N.eqb_spec c 34) as [->|]; [|discriminate].
    destruct (scan_quoted t) as [[raw r'']|] eqn:Es; [|discriminate].
    apply scan_quoted_props in Es. cbn [nq] in Hq. change (34 =? 34) with true in Hq. cbv iota in Hq. lia.
  - unfold parse_word. destruct (take_word s') as [w r'] eqn:Et. destruct w as [|c w]; [discriminate|].
    intros [= <- <-]. apply take_word_split in Et. destruct Et as [E Hw]. rewrite E, nq_app, (nq_word _ Hw). reflexivity.
Qed.

(* ------------------------------------------------------------------ the list loop *)
Lemma parse_more_enough f : forall s, (length s < f)%nat -> parse_more f s <> None.
Proof.
  induction f as [|f IH]; intros s Hl; [lia|]. cbn [parse_more].
  pose proof (skip_ws_length s) as Hs. destruct (skip_ws s) as [|c t]; [discriminate|].
  destruct (c =? delim_char); [|discriminate].
  destruct (parse_item t) as [[it r]|] eqn:Ei; [|discriminate].
  apply parse_item_shrinks in Ei. cbn [length] in Hs.
  specialize (IH r ltac:(lia)). destruct (parse_more f r) as [[l r']|]; [discriminate|congruence].
Qed.
Lemma parse_more_S f : forall s x, parse_more f s = Some x -> parse_more (S f) s = Some x.
Proof.
  induction f as [|f IH]; intros s x H; [discriminate|].
  cbn [parse_more] in H. change (parse_more (S (S f)) s) with
    (match skip_ws s with
     | c :: t => if c =? delim_char then
                   match parse_item t with
                   | Some (it, r) => match parse_more (S f) r with Some (l, r') => Some (it :: l, r') | None => None end
                   | None => Some ([], s)
                   end
                 else Some ([], s)
     | [] => Some ([], s)
     end).
  destruct (skip_ws s) as [|c t]; [exact H|]. destruct (c =? delim_char); [|exact H].
  destruct (parse_item t) as [[it r]|]; [|exact H].
  destruct (parse_more f r) as [[l r']|] eqn:E; [|discriminate]. rewrite (IH _ _ E). exact H.
Qed.
Lemma parse_more_le f f' s x : (f <= f')%nat -> parse_more f s = Some x -> parse_more f' s = Some x.
Proof. induction 1 as [|f' _ IH]; [auto|]. intros H. apply parse_more_S. auto. Qed.
Lemma parse_more_any f f' s : (length s < f)%nat -> (length s < f')%nat -> parse_more f s = parse_more f' s.
Proof.
  intros H1 H2. pose proof (parse_more_enough f s H1) as N1. pose proof (parse_more_enough f' s H2) as N2.
  destruct (parse_more f s) as [x|] eqn:E1; [|congruence]. destruct (parse_more f' s) as [y|] eqn:E2; [|congruence].
  pose proof (parse_more_le f (Nat.max f f') s x ltac:(lia) E1) as A.
  pose proof (parse_more_le f' (Nat.max f f') s y ltac:(lia) E2) as B. congruence.
Qed.

Lemma parse_more_comma f F : parse_more (S f) (44 :: F) =
  match parse_item F with
  | Some (it, r) => match parse_more f r with Some (l, r') => Some (it :: l, r') | None => None end
  | None => Some ([], 44 :: F)
  end.
Proof. cbn [parse_more]. rewrite skip_ws_nonwhite by exact white_comma. rewrite delim_is.
  change (44 =? 44) with true. reflexivity. Qed.

Lemma parse_more_stop f w x rest : blank w = true -> is_white x = false -> x <> 44 ->
  parse_more (S f) (w ++ x :: rest) = Some ([], w ++ x :: rest).
Proof. intros Hw Hx Hc. cbn [parse_more]. rewrite skip_ws_blank by exact Hw. rewrite skip_ws_nonwhite by exact Hx.
  rewrite delim_is. replace (x =? 44) with false by lia. reflexivity. Qed.

(* the fields after the first one, each preceded by its comma *)
Definition tail (its : list str) : str := flat_map (fun it => 44 :: quote it) its.
Lemma join_items_tail p0 ps : join_items (p0 :: ps) = quote p0 ++ tail ps.
Proof. unfold join_items. revert p0. induction ps as [|p1 ps IH]; intros p0.
  - cbn. rewrite app_nil_r. reflexivity.
  - cbn [map]. rewrite join_cons. cbn [tail flat_map app]. f_equal. f_equal. apply (IH p1). Qed.
Lemma tail_stops its Y : stops Y = true -> stops (tail its ++ Y) = true.
Proof. destruct its; [auto|]. intros _. reflexivity. Qed.
Lemma tail_length its : (length its <= length (tail its))%nat.
Proof. induction its as [|it its IH]; [cbn; lia|]. cbn [tail flat_map length]. rewrite app_length. fold (tail its). cbn [length]. lia. Qed.

Lemma parse_more_tail its : forall Y f, Forall (fun it => item_ok it = true) its -> stops Y = true ->
  (length (tail its ++ Y) < f)%nat ->
  parse_more f (tail its ++ Y) =
  match parse_more f Y with Some (l, r) => Some (its ++ l, r) | None => None end.
Proof.
  induction its as [|it its IH]; intros Y f Hok Hs Hl.
  - cbn [tail flat_map app]. destruct (parse_more f Y) as [[l r]|]; reflexivity.
  - inversion Hok as [|? ? Hit Hits]; subst.
    destruct f as [|f]; [lia|].
    change (tail (it :: its) ++ Y) with (44 :: (quote it ++ tail its) ++ Y) in *. rewrite <- app_assoc in *.
    rewrite parse_more_comma. rewrite parse_item_quote by (try assumption; apply tail_stops; assumption).
    cbn [length] in Hl. rewrite app_length in Hl.
    rewrite IH by (try assumption; lia).
    rewrite (parse_more_any f (S f) Y) by (rewrite app_length in Hl; lia).
    destruct (parse_more (S f) Y) as [[l r]|]; reflexivity.
Qed.

Lemma parse_more_nil f : parse_more (S f) [] = Some ([], []).
Proof. reflexivity. Qed.

(* ------------------------------------------------------------------ totality (the fuel suffices) *)
Theorem parse_string_total s : (exists l, parse_string s = Ok l) \/ parse_string s = Exn ValueError.
Proof.
  unfold parse_string. destruct (parse_item s) as [[it r]|]; [|right; reflexivity].
  pose proof (parse_more_enough (S (length r)) r ltac:(lia)) as Hn.
  destruct (parse_more (S (length r)) r) as [[l r']|]; [|congruence].
  destruct (skip_ws r'); [left; eexists; reflexivity|right; reflexivity].
Qed.
Theorem split_by_commas_total v : (exists l, split_by_commas v = Ok l) \/ split_by_commas v = Exn ValueError.
Proof. apply parse_string_total. Qed.

(* ------------------------------------------------------------------ round trip *)
Lemma notab_quote it : item_ok it = true -> ~ In 9 (quote it).
Proof.
  intros H. destruct (item_ok_cases it H) as [_ [(_ & -> & Hc)|(_ & -> & Hw)]].
  - unfold quoted_field. intros Hin. apply in_app_or in Hin. destruct Hin as [[Hin|[]]|Hin]; [discriminate|].
    apply in_app_or in Hin. destruct Hin as [Hin|[Hin|[]]]; [|discriminate].
    apply in_flat_map in Hin. destruct Hin as (c & Hc1 & Hc2). rewrite forallb_forall in Hc. specialize (Hc c Hc1).
    unfold escape1 in Hc2. destruct ((c =? 34) || (c =? 92)).
    + destruct Hc2 as [E|[E|[]]]; [discriminate|]. subst c. discriminate.
    + destruct Hc2 as [E|[]]. subst c. discriminate.
  - intros Hin. rewrite forallb_forall in Hw. specialize (Hw 9 Hin). discriminate.
Qed.

Theorem split_join_roundtrip items : items <> [] -> Forall (fun it => item_ok it = true) items ->
  split_by_commas (join_items items) = Ok items.
Proof.
  intros Hn Hok. destruct items as [|p0 ps]; [congruence|]. inversion Hok as [|? ? H0 Hps]; subst.
  unfold split_by_commas, expandtabs. rewrite expandtabs_notab.
  2:{ rewrite join_items_tail. intros Hin. apply in_app_or in Hin. destruct Hin as [Hin|Hin].
      - exact (notab_quote _ H0 Hin).
      - unfold tail in Hin. apply in_flat_map in Hin. destruct Hin as (it & Hi1 & [E|Hi2]); [discriminate|].
        rewrite Forall_forall in Hps. exact (notab_quote _ (Hps _ Hi1) Hi2). }
  rewrite join_items_tail. unfold parse_string.
  rewrite <- (app_nil_r (tail ps)) at 1. rewrite parse_item_quote by (try assumption; apply tail_stops; reflexivity).
  rewrite app_nil_r. rewrite <- (app_nil_r (tail ps)) at 2.
  rewrite parse_more_tail by (try assumption; try reflexivity; rewrite app_nil_r; lia).
  rewrite parse_more_nil. cbn [skip_ws]. rewrite app_nil_r. reflexivity.
Qed.

(* printable ASCII items (space included) are in the domain as soon as they are non-empty *)
Lemma printable_item_ok it : it <> [] -> printable it = true -> item_ok it = true.
Proof.
  intros Hn Hp. unfold item_ok. destruct it as [|c0 it0]; [congruence|]. cbn [is_nil negb andb].
  set (it := c0 :: it0) in *. unfold printable in Hp.
  destruct (needs_quoting it) eqn:Eq.
  - revert Hp. apply forallb_impl. intros c Hc. apply andb_true_iff in Hc. destruct Hc as [H1 H2].
    replace (c =? 9) with false by lia. replace (c =? 10) with false by lia. replace (c =? 13) with false by lia. reflexivity.
  - unfold needs_quoting in Eq. rewrite forallb_forall in Hp. apply forallb_forall. intros c Hc.
    specialize (Hp c Hc). apply andb_true_iff in Hp. destruct Hp as [H1 H2].
    assert (Hx : (c =? 44) || (c =? 34) || (c =? 92) || (c =? 32) = false).
    { destruct ((c =? 44) || (c =? 34) || (c =? 92) || (c =? 32)) eqn:E; [|reflexivity].
      assert (existsb (fun c => (c =? 44) || (c =? 34) || (c =? 92) || (c =? 32)) it = true)
        by (apply existsb_exists; exists c; auto). congruence. }
    apply orb_false_iff in Hx. destruct Hx as [Hx H32]. apply orb_false_iff in Hx. destruct Hx as [Hx H92].
    apply orb_false_iff in Hx. destruct Hx as [H44 H34].
    apply printable_is_word; lia.
Qed.

Theorem split_join_roundtrip_printable items :
  items <> [] -> Forall (fun it => it <> [] /\ printable it = true) items ->
  split_by_commas (join_items items) = Ok items.
Proof. intros Hn H. apply split_join_roundtrip; [exact Hn|]. revert H. apply Forall_impl.
  intros it [H1 H2]. apply printable_item_ok; assumption. Qed.

(* ------------------------------------------------------------------ rejections *)
(* the text before the offending field: well-formed fields, each followed by its comma *)
Definition prefix_text (pre : list str) : str := flat_map (fun it => quote it ++ [44]) pre.
Definition tail_fields (fs : list str) : str := flat_map (fun f => 44 :: f) fs.

Lemma join_fields_cons f fs : join_fields (f :: fs) = f ++ tail_fields fs.
Proof. unfold join_fields. revert f. induction fs as [|g fs IH]; intros f.
  - cbn. rewrite app_nil_r. reflexivity.
  - rewrite join_cons. cbn [tail_fields flat_map app]. f_equal. f_equal. apply IH. Qed.
Lemma tail_fields_app a b : tail_fields (a ++ b) = tail_fields a ++ tail_fields b.
Proof. apply flat_map_app. Qed.
Lemma tail_fields_shift pre Z : tail_fields (map quote pre) ++ 44 :: Z = 44 :: prefix_text pre ++ Z.
Proof. induction pre as [|p pre IH]; [reflexivity|]. cbn [map tail_fields flat_map prefix_text].
  fold (tail_fields (map quote pre)). fold (prefix_text pre). cbn [app]. rewrite <- !app_assoc. rewrite IH.
  cbn [app]. reflexivity. Qed.
Lemma join_fields_prefix_more pre F post :
  join_fields (map quote pre ++ F :: post) = prefix_text pre ++ F ++ tail_fields post.
Proof.
  destruct pre as [|p pre]; [apply join_fields_cons|].
  cbn [map app]. rewrite join_fields_cons, tail_fields_app. cbn [tail_fields flat_map]. fold (tail_fields post).
  cbn [app]. rewrite tail_fields_shift. cbn [prefix_text flat_map]. rewrite <- !app_assoc. reflexivity.
Qed.
Lemma join_fields_prefix pre F : join_fields (map quote pre ++ [F]) = prefix_text pre ++ F.
Proof. rewrite join_fields_prefix_more. cbn [tail_fields flat_map]. rewrite app_nil_r. reflexivity. Qed.
Lemma prefix_text_tail p0 ps F : prefix_text (p0 :: ps) ++ F = quote p0 ++ tail ps ++ 44 :: F.
Proof. cbn [prefix_text flat_map]. rewrite <- !app_assoc. f_equal. cbn [app].
  induction ps as [|p ps IH]; [reflexivity|]. cbn [flat_map tail app]. rewrite <- !app_assoc. cbn [app]. f_equal. f_equal. exact IH. Qed.

Lemma notab_prefix pre : Forall (fun it => item_ok it = true) pre -> ~ In 9 (prefix_text pre).
Proof. intros Hok Hin. unfold prefix_text in Hin. apply in_flat_map in Hin. destruct Hin as (it & Hi & Hin).
  rewrite Forall_forall in Hok. apply in_app_or in Hin. destruct Hin as [Hin|[E|[]]]; [|discriminate].
  exact (notab_quote _ (Hok _ Hi) Hin). Qed.

Lemma expand_prefix pre F : Forall (fun it => item_ok it = true) pre ->
  expandtabs (prefix_text pre ++ F) = prefix_text pre ++ expandtabs_from (col_after 0 (prefix_text pre)) F.
Proof. intros Hok. unfold expandtabs. rewrite expandtabs_app, expandtabs_notab by (apply notab_prefix; exact Hok). reflexivity. Qed.

(* after well-formed fields, the outcome is decided by what happens at the next field *)
Lemma reject_core pre F : Forall (fun it => item_ok it = true) pre ->
  (forall it r, parse_item F = Some (it, r) ->
     forall fuel l r', parse_more fuel r = Some (l, r') -> skip_ws r' <> []) ->
  parse_string (prefix_text pre ++ F) = Exn ValueError.
Proof.
  intros Hok Hbad. destruct pre as [|p0 ps].
  - cbn [prefix_text flat_map app]. unfold parse_string.
    destruct (parse_item F) as [[it r]|] eqn:Ei; [|reflexivity].
    pose proof (parse_more_enough (S (length r)) r ltac:(lia)) as Hn.
    destruct (parse_more (S (length r)) r) as [[l r']|] eqn:Em; [|congruence].
    specialize (Hbad _ _ eq_refl _ _ _ Em). destruct (skip_ws r'); [congruence|reflexivity].
  - inversion Hok as [|? ? H0 Hps]; subst. rewrite prefix_text_tail. unfold parse_string.
    rewrite parse_item_quote by (try assumption; apply tail_stops; reflexivity).
    set (Y := 44 :: F). set (fuel := S (length (tail ps ++ Y))).
    rewrite parse_more_tail by (try assumption; try reflexivity; unfold fuel; lia).
    assert (Hf : (length Y < fuel)%nat) by (unfold fuel; rewrite app_length; lia).
    pose proof (parse_more_enough fuel Y Hf) as Hn.
    destruct (parse_more fuel Y) as [[l r']|] eqn:Em; [|congruence].
    destruct fuel as [|f]; [lia|]. unfold Y in Em. rewrite parse_more_comma in Em.
    destruct (parse_item F) as [[it r]|] eqn:Ei.
    + destruct (parse_more f r) as [[l2 r2]|] eqn:Em2; [|discriminate]. injection Em as <- <-.
      specialize (Hbad _ _ eq_refl _ _ _ Em2). destruct (skip_ws r2); [congruence|reflexivity].
    + injection Em as <- <-. rewrite skip_ws_nonwhite by exact white_comma. reflexivity.
Qed.

(* empty unquoted items: a field that is empty or blank, anywhere in the list *)
Lemma parse_item_blank w rest : blank w = true -> (rest = [] \/ exists r, rest = 44 :: r) ->
  parse_item (w ++ rest) = None.
Proof. intros Hw Hr. unfold parse_item. rewrite skip_ws_blank by exact Hw.
  destruct Hr as [->|[r ->]]; [reflexivity|]. rewrite skip_ws_nonwhite by exact white_comma. reflexivity. Qed.

Lemma white_tab : is_white 9 = true. Proof. reflexivity. Qed.

Theorem rejects_empty_item pre w post :
  Forall (fun it => item_ok it = true) pre -> blank w = true ->
  split_by_commas (join_fields (map quote pre ++ w :: post)) = Exn ValueError.
Proof.
  intros Hok Hw. rewrite join_fields_prefix_more. unfold split_by_commas. rewrite expand_prefix by exact Hok.
  rewrite expandtabs_app. apply reject_core; [exact Hok|]. intros it r Hi. exfalso.
  rewrite parse_item_blank in Hi; [discriminate|apply expandtabs_blank; exact Hw|].
  destruct post as [|g post]; [left; reflexivity|right]. cbn [tail_fields flat_map app].
  rewrite expandtabs_cons_notab by discriminate. eauto.
Qed.

(* text after a closing quote *)
Lemma notab_quoted_field it : forallb (fun c => negb ((c =? 9) || (c =? 10) || (c =? 13))) it = true ->
  ~ In 9 (quoted_field it).
Proof.
  intros Hc. unfold quoted_field. intros Hin. apply in_app_or in Hin. destruct Hin as [[Hin|[]]|Hin]; [discriminate|].
  apply in_app_or in Hin. destruct Hin as [Hin|[Hin|[]]]; [|discriminate].
  apply in_flat_map in Hin. destruct Hin as (c & Hc1 & Hc2). rewrite forallb_forall in Hc. specialize (Hc c Hc1).
  unfold escape1 in Hc2. destruct ((c =? 34) || (c =? 92)).
  - destruct Hc2 as [E|[E|[]]]; [discriminate|]. subst c. discriminate.
  - destruct Hc2 as [E|[]]. subst c. discriminate.
Qed.

Theorem rejects_text_after_closing_quote pre it w x rest :
  Forall (fun it => item_ok it = true) pre ->
  forallb (fun c => negb ((c =? 9) || (c =? 10) || (c =? 13))) it = true ->
  blank w = true -> is_white x = false -> x <> 44 ->
  split_by_commas (join_fields (map quote pre ++ [quoted_field it ++ w ++ x :: rest])) = Exn ValueError.
Proof.
  intros Hok Hit Hw Hx Hc. rewrite join_fields_prefix. unfold split_by_commas. rewrite expand_prefix by exact Hok.
  rewrite expandtabs_app, (expandtabs_notab (quoted_field it)) by (apply notab_quoted_field; exact Hit).
  rewrite expandtabs_app.
  assert (Hx9 : x <> 9) by (intros ->; rewrite white_tab in Hx; discriminate).
  rewrite (expandtabs_cons_notab x) by exact Hx9.
  match goal with |- context [expandtabs_from ?c w] => set (w' := expandtabs_from c w) end.
  match goal with |- context [x :: expandtabs_from ?c rest] => set (rest' := expandtabs_from c rest) end.
  assert (Hw' : blank w' = true) by (apply expandtabs_blank; exact Hw).
  apply reject_core; [exact Hok|]. intros it' r Hi.
  rewrite parse_item_quoted in Hi.
  2:{ revert Hit. apply forallb_impl. intros c H. apply negb_true_iff in H. apply negb_true_iff.
      destruct (c =? 9), (c =? 10), (c =? 13); cbn in *; congruence. }
  injection Hi as <- <-. intros fuel l r' Hm. destruct fuel as [|f]; [discriminate|].
  rewrite parse_more_stop in Hm by assumption. injection Hm as <- <-.
  rewrite skip_ws_blank by exact Hw'. rewrite skip_ws_nonwhite by exact Hx. discriminate.
Qed.

(* a quote inside or at the end of an unquoted word *)
Theorem rejects_quote_in_word pre wd rest :
  Forall (fun it => item_ok it = true) pre -> wd <> [] -> forallb is_word wd = true ->
  split_by_commas (join_fields (map quote pre ++ [wd ++ 34 :: rest])) = Exn ValueError.
Proof.
  intros Hok Hn Hwd. rewrite join_fields_prefix. unfold split_by_commas. rewrite expand_prefix by exact Hok.
  assert (Hnt : ~ In 9 wd).
  { intros Hin. rewrite forallb_forall in Hwd. specialize (Hwd 9 Hin). discriminate. }
  rewrite expandtabs_app, (expandtabs_notab wd) by exact Hnt.
  rewrite (expandtabs_cons_notab 34) by discriminate.
  match goal with |- context [34 :: expandtabs_from ?c rest] => set (rest' := expandtabs_from c rest) end.
  apply reject_core; [exact Hok|]. intros it' r Hi.
  rewrite parse_item_unquoted in Hi by (try assumption; reflexivity).
  injection Hi as <- <-. intros fuel l r' Hm. destruct fuel as [|f]; [discriminate|].
  pose proof (parse_more_stop f [] 34 rest' eq_refl white_quote ltac:(discriminate)) as Hs.
  cbn [app] in Hs. rewrite Hs in Hm.
  injection Hm as <- <-. rewrite skip_ws_nonwhite by exact white_quote. discriminate.
Qed.

(* unbalanced quotes: exactly one double quote in the last field (so nothing can close it) *)
Lemma parse_more_nq fuel : forall s l r', (nq s <= 1)%nat -> parse_more fuel s = Some (l, r') -> nq r' = nq s.
Proof.
  induction fuel as [|f IH]; intros s l r' Hq H; [discriminate|]. cbn [parse_more] in H.
  pose proof (skip_ws_nq s) as Hs. destruct (skip_ws s) as [|c t]; [injection H as <- <-; reflexivity|].
  rewrite delim_is in H. destruct (N.eqb_spec c 44) as [->|]; [|injection H as <- <-; reflexivity].
  cbn [nq] in Hs. change (44 =? 34) with false in Hs. cbv iota in Hs.
  destruct (parse_item t) as [[it r]|] eqn:Ei; [|injection H as <- <-; reflexivity].
  destruct (parse_more f r) as [[l2 r2]|] eqn:Em; [|discriminate]. injection H as <- <-.
  pose proof (parse_item_nq t it r ltac:(lia) Ei) as Hr.
  rewrite (IH r l2 r2 ltac:(lia) Em). lia.
Qed.

Theorem rejects_unbalanced pre f :
  Forall (fun it => item_ok it = true) pre -> nq f = 1%nat ->
  split_by_commas (join_fields (map quote pre ++ [f])) = Exn ValueError.
Proof.
  intros Hok Hq. rewrite join_fields_prefix. unfold split_by_commas. rewrite expand_prefix by exact Hok.
  match goal with |- context [expandtabs_from ?c f] => set (f' := expandtabs_from c f) end.
  assert (Hq' : nq f' = 1%nat) by (unfold f'; rewrite nq_expandtabs; exact Hq).
  apply reject_core; [exact Hok|]. intros it r Hi fuel l r' Hm.
  pose proof (parse_item_nq f' it r ltac:(lia) Hi) as Hr.
  pose proof (parse_more_nq fuel r l r' ltac:(lia) Hm) as Hr'.
  apply nq_pos_nonnil. rewrite skip_ws_nq. lia.
Qed.

(* a single double quote anywhere in the whole text *)
Corollary rejects_single_quote v : nq v = 1%nat -> split_by_commas v = Exn ValueError.
Proof. intros H. apply (rejects_unbalanced [] v); [constructor|exact H]. Qed.

(* ------------------------------------------------------------------ outside the domain, and examples *)
From Coq Require Import String.
(* the statement with the empty item allowed is false: an empty item is written as an
   empty unquoted field, which split_by_commas rejects (the property's own last clause) *)
Definition roundtrip_full_statement : Prop :=
  forall items, items <> [] -> Forall (fun it => printable it = true) items ->
  split_by_commas (join_items items) = Ok items.
Lemma roundtrip_full_statement_refuted : ~ roundtrip_full_statement.
Proof. intros H. specialize (H [[]] ltac:(discriminate) ltac:(repeat constructor)). vm_compute in H. discriminate. Qed.
Lemma roundtrip_empty_item_rejected pre post : Forall (fun it => item_ok it = true) pre ->
  split_by_commas (join_items (pre ++ [] :: post)) = Exn ValueError.
Proof. intros H. unfold join_items. rewrite map_app. cbn [map]. change (quote []) with (@nil N).
  apply (rejects_empty_item pre [] (map quote post) H eq_refl). Qed.

(* each clause of item_ok is needed *)
Example roundtrip_refuted_tab : split_by_commas (join_items [[97; 9; 32; 98]]) <> Ok [[97; 9; 32; 98]].
Proof. vm_compute. discriminate. Qed.
Example roundtrip_refuted_newline : split_by_commas (join_items [[97; 10; 32; 98]]) = Exn ValueError.
Proof. vm_compute. reflexivity. Qed.
Example roundtrip_refuted_cr : split_by_commas (join_items [[97; 13; 32; 98]]) = Exn ValueError.
Proof. vm_compute. reflexivity. Qed.
Example roundtrip_refuted_nonword : split_by_commas (join_items [[233]]) = Exn ValueError.
Proof. vm_compute. reflexivity. Qed.
(* ... and quoted items may hold non-ASCII text and control characters *)
Example roundtrip_wide_item : item_ok [233; 32; 0; 128512; 11] = true /\
  split_by_commas (join_items [[233; 32; 0; 128512; 11]]) = Ok [[233; 32; 0; 128512; 11]].
Proof. vm_compute. split; reflexivity. Qed.

(* non-vacuity *)
Example roundtrip_example_run :
  let items := [lit "a b"; lit "c,d"; [101; 34; 102]; [103; 92; 104]; lit "plain"; [92; 116]; [34]; [92]; [44]; [32]] in
  forallb item_ok items = true /\ split_by_commas (join_items items) = Ok items.
Proof. vm_compute. split; reflexivity. Qed.
Example rejects_examples :
  split_by_commas ([34] ++ lit "abc") = Exn ValueError /\                      (* dquote abc *)
  split_by_commas ([34; 97; 34; 98]) = Exn ValueError /\                       (* dquote a dquote b *)
  split_by_commas ([34; 97; 34; 32; 34; 98; 34]) = Exn ValueError /\           (* two quoted strings separated by a space *)
  split_by_commas ([97; 34; 98; 34]) = Exn ValueError /\                       (* a then quoted b *)
  split_by_commas (lit "a,,b") = Exn ValueError /\ split_by_commas (lit "a,") = Exn ValueError /\
  split_by_commas (lit ",a") = Exn ValueError /\ split_by_commas [] = Exn ValueError /\
  split_by_commas (lit " a , b ") = Ok [lit "a"; lit "b"] /\
  split_by_commas ([34; 34]) = Ok [[]].                                          (* two double quotes: the empty item *)
Proof. vm_compute. repeat split; reflexivity. Qed.
(* pyparsing's own escapes in quoted strings (not used by the writer's convention) *)
Example unescape_examples :
  unescape (lit "\t") = [9] /\ unescape (lit "\n\f\r") = [10; 12; 13] /\ unescape (lit "\0") = [0] /\
  unescape (lit "\03") = lit "03" /\ unescape (lit "\73") = lit "73" /\ unescape (lit "\x12") = [18] /\
  unescape (lit "\xA2") = [162] /\ unescape (lit "\uB4") = [180] /\ unescape (lit "\x1") = lit "x1" /\
  unescape (lit "\q") = lit "q" /\ unescape [92; 92; 116] = [92; 116].
Proof. vm_compute. repeat split; reflexivity. Qed.

(* instances of the rejection theorems' hypotheses (non-vacuity): after the field [a b] ... *)
Example rejects_instances :
  let pre := [[97; 32; 98]] in
  forallb item_ok pre = true /\
  (* ... a blank field, then more fields *)
  (blank [32] = true /\ split_by_commas (join_fields (map quote pre ++ [32] :: [[99]])) = Exn ValueError) /\
  (* ... a field with one double quote *)
  (nq [34; 98; 99] = 1%nat /\ split_by_commas (join_fields (map quote pre ++ [[34; 98; 99]])) = Exn ValueError) /\
  (* ... a quoted field, a blank, then text *)
  (is_white 120 = false /\
   split_by_commas (join_fields (map quote pre ++ [quoted_field [99; 44; 100] ++ [32] ++ 120 :: [44; 121]])) = Exn ValueError) /\
  (* ... a word with a quote in it *)
  (forallb is_word [99; 100] = true /\
   split_by_commas (join_fields (map quote pre ++ [[99; 100] ++ 34 :: [101; 34]])) = Exn ValueError).
Proof. vm_compute. repeat split; reflexivity. Qed.
