(* Proofs/C20.v — lemmas for C20 (file helpers). *)
Require Import OV.Base.Bytes OV.Base.Py OV.Gen.C20_Consts OV.Model.C20_OS OV.Model.C20 OV.Gen.C20_Code.
Open Scope Z_scope.

(* ---------- the statement-level translation of the source equals the model ----------
   The proofs are by exhaustive case analysis on the scrutinees of the two sides (robust
   against renamings and reorderings of the generated text; a behavioural difference
   leaves an unprovable goal). *)
Ltac atomic_bool x :=
  lazymatch x with
  | true => fail | false => fail
  | context [negb _] => fail | context [andb _ _] => fail | context [orb _ _] => fail
  | context [match _ with _ => _ end] => fail
  | _ => first [is_var x; destruct x | destruct x eqn:?]
  end.
Ltac break_match :=
  match goal with
  | |- context [negb ?x] => atomic_bool x           (* atoms of boolean conditions first *)
  | |- context [andb ?x _] => atomic_bool x
  | |- context [andb _ ?x] => atomic_bool x
  | |- context [orb ?x _] => atomic_bool x
  | |- context [orb _ ?x] => atomic_bool x
  | |- context [match ?x with _ => _ end] =>
      lazymatch x with
      | context [match _ with _ => _ end] => fail      (* innermost scrutinee first *)
      | _ => first [is_var x; destruct x | destruct x eqn:?]
      end
  end.
Ltac equiv_step := first [reflexivity | solve [cbn [andb orb negb] in *; congruence] | progress cbn [andb orb negb] | break_match].
Ltac equiv_auto := repeat equiv_step.

Section Equiv.
Context {W H : Type} (rt : runtime W H).

Theorem gen_ensure_tree_equiv path mode w :
  gen_ensure_tree rt path mode w = ensure_tree rt path mode w.
Proof. unfold gen_ensure_tree, ensure_tree. equiv_auto. Qed.

Theorem gen_delete_if_exists_equiv (path : bytes) (remove : bytes -> W -> W * ores unit) (w : W) :
  gen_delete_if_exists path remove w = delete_if_exists path remove w.
Proof. unfold gen_delete_if_exists, delete_if_exists. equiv_auto. Qed.

Lemma gen_wloop_equiv fuel fd view w :
  gen_write_to_tempfile_wloop rt fuel fd view w = write_loop rt fuel fd view w.
Proof.
  revert view w. induction fuel as [|k IH]; intros view w; [reflexivity|].
  cbn [gen_write_to_tempfile_wloop write_loop].
  repeat first [apply IH | equiv_step].
Qed.

Theorem gen_write_to_tempfile_equiv content path suffix prefix w :
  gen_write_to_tempfile rt content path suffix prefix w = write_to_tempfile rt content path suffix prefix w.
Proof.
  unfold gen_write_to_tempfile, write_to_tempfile, write_and_close, write_all.
  repeat first [rewrite gen_ensure_tree_equiv in * | rewrite gen_wloop_equiv in * | equiv_step].
Qed.

Lemma gen_loop_equiv fuel n f h :
  gen_compute_file_checksum_loop rt fuel n f h = read_loop rt fuel n f h.
Proof.
  revert f h. induction fuel as [|k IH]; intros f h; [reflexivity|].
  cbn [gen_compute_file_checksum_loop read_loop].
  repeat first [apply IH | equiv_step].
Qed.

Theorem gen_compute_file_checksum_equiv path n alg w :
  gen_compute_file_checksum rt path n alg w =
  match compute_file_checksum rt path n alg w with Some r => r | None => OExn OtherError end.
Proof.
  unfold gen_compute_file_checksum, compute_file_checksum.
  repeat first [rewrite gen_loop_equiv in * | equiv_step].
Qed.

Theorem gen_last_bytes_equiv path num w :
  gen_last_bytes rt path num w = last_bytes rt path num w.
Proof. unfold gen_last_bytes, last_bytes, tell_and_read. equiv_auto. Qed.
End Equiv.

(* ---------- the file object ---------- *)
Definition wf_fobj (f : fobj) : Prop := 0 <= f_pos f.

Lemma wf_fopen data : wf_fobj (fopen data).
Proof. unfold wf_fobj, fopen. cbn [f_pos]. lia. Qed.

Lemma frest_fopen data : frest (fopen data) = data.
Proof. unfold frest, fopen. cbn [f_pos f_data]. reflexivity. Qed.

Lemma zlen_nonneg b : 0 <= zlen b.
Proof. unfold zlen. lia. Qed.

Lemma zlen_app a b : zlen (a ++ b) = zlen a + zlen b.
Proof. unfold zlen. rewrite blen_app. lia. Qed.

Lemma zlen_nil_iff b : zlen b = 0 <-> b = [].
Proof.
  split; [|intros ->; reflexivity].
  unfold zlen. intros Hz. apply blen_0_nil. lia.
Qed.

Lemma beq_nil_r b : beq b [] = true <-> b = [].
Proof. apply beq_eq. Qed.

(* what a successful read returns and where it leaves the file *)
Definition read_data (f : fobj) (n : Z) : bytes :=
  if n =? -1 then frest f else btake (Z.to_N n) (frest f).

Lemma fread_ok f n : -1 <= n ->
  fread f n = (mk_fobj (f_data f) (f_pos f + zlen (read_data f n)), OOk (read_data f n)).
Proof.
  intros Hn. unfold fread, read_data.
  destruct (n <? -1) eqn:E; [lia|]. reflexivity.
Qed.

Lemma fread_bad f n : n < -1 -> fread f n = (f, OExn ValueError).
Proof. intros Hn. unfold fread. destruct (n <? -1) eqn:E; [reflexivity|lia]. Qed.

(* the data read is a prefix of what was left; the rest is what is left afterwards *)
Lemma read_data_split f n : wf_fobj f ->
  frest f = read_data f n ++ frest (mk_fobj (f_data f) (f_pos f + zlen (read_data f n))).
Proof.
  intros Hwf. unfold wf_fobj in Hwf.
  set (d := read_data f n).
  assert (Hpre : exists t, frest f = d ++ t).
  { subst d. unfold read_data. destruct (n =? -1).
    - exists []. rewrite app_nil_r. reflexivity.
    - exists (bskip (Z.to_N n) (frest f)). symmetry. apply btake_bskip_app. }
  destruct Hpre as [t Ht].
  unfold frest at 2. cbn [f_pos f_data].
  replace (Z.to_N (f_pos f + zlen d)) with (Z.to_N (f_pos f) + blen d)%N by (unfold zlen; lia).
  rewrite <- bskip_bskip. fold (frest f). rewrite Ht at 2.
  rewrite bskip_app_ge by lia. rewrite N.sub_diag, bskip_0. exact Ht.
Qed.

Lemma read_data_nil f n : 1 <= n \/ n = -1 -> read_data f n = [] -> frest f = [].
Proof.
  intros Hn Hd. unfold read_data in Hd.
  destruct (n =? -1) eqn:E; [exact Hd|].
  assert (Hl : blen (btake (Z.to_N n) (frest f)) = 0%N) by (rewrite Hd; reflexivity).
  rewrite blen_btake in Hl. apply blen_0_nil. lia.
Qed.

Lemma read_data_len f n : 0 <= n -> zlen (read_data f n) = Z.min n (zlen (frest f)).
Proof.
  intros Hn. unfold read_data. destruct (n =? -1) eqn:E; [lia|].
  unfold zlen. rewrite blen_btake. lia.
Qed.

(* ---------- the read loop: chunks, termination, fold ---------- *)
Section Loop.
Context {W H : Type} (rt : runtime W H).

Definition proper_chunk (n : Z) : Prop := 1 <= n \/ n = -1.

(* With fuel exceeding the number of unread bytes the loop terminates normally, the
   chunks it fed to the hash are exactly [read_chunks], and the file is at its end. *)
Lemma read_loop_chunks n : proper_chunk n -> forall fuel f h,
  wf_fobj f -> (length (frest f) < fuel)%nat ->
  exists f', read_loop rt fuel n f h = Some (OOk (f', fold_left (rt_update rt) (read_chunks fuel n f) h))
             /\ frest f' = [] /\ f_data f' = f_data f.
Proof.
  intros Hn. induction fuel as [|k IH]; intros f h Hwf Hfuel; [lia|].
  cbn [read_loop read_chunks].
  assert (Hn1 : -1 <= n) by (destruct Hn; lia).
  rewrite (fread_ok f n Hn1).
  set (d := read_data f n). set (f1 := mk_fobj (f_data f) (f_pos f + zlen d)).
  pose proof (read_data_split f n Hwf) as Hsplit. fold d in Hsplit. fold f1 in Hsplit.
  destruct (beq d []) eqn:Ed.
  - apply beq_nil_r in Ed. exists f1. cbn [fold_left]. split; [reflexivity|]. split; [|reflexivity].
    pose proof (read_data_nil f n Hn Ed) as Hr. rewrite Hr, Ed in Hsplit. cbn [app] in Hsplit. symmetry. exact Hsplit.
  - assert (Hd : d <> []) by (intros ->; discriminate).
    assert (Hwf1 : wf_fobj f1).
    { unfold wf_fobj, f1. cbn [f_pos]. unfold wf_fobj in Hwf. pose proof (zlen_nonneg d). lia. }
    assert (Hlen : (length (frest f1) < k)%nat).
    { rewrite Hsplit, app_length in Hfuel. destruct d; [congruence|]. cbn [length] in Hfuel. lia. }
    destruct (IH f1 (rt_update rt h d) Hwf1 Hlen) as [f' [Hrun [Hend Hdata]]].
    exists f'. cbn [fold_left]. split; [exact Hrun|]. split; [exact Hend|]. rewrite Hdata. reflexivity.
Qed.

(* the chunks: concatenation, non-emptiness, sizes *)
Lemma read_chunks_concat n : proper_chunk n -> forall fuel f,
  wf_fobj f -> (length (frest f) < fuel)%nat -> concat (read_chunks fuel n f) = frest f.
Proof.
  intros Hn. induction fuel as [|k IH]; intros f Hwf Hfuel; [lia|].
  cbn [read_chunks].
  assert (Hn1 : -1 <= n) by (destruct Hn; lia).
  rewrite (fread_ok f n Hn1).
  set (d := read_data f n). set (f1 := mk_fobj (f_data f) (f_pos f + zlen d)).
  pose proof (read_data_split f n Hwf) as Hsplit. fold d in Hsplit. fold f1 in Hsplit.
  destruct (beq d []) eqn:Ed.
  - apply beq_nil_r in Ed. cbn [concat]. symmetry. exact (read_data_nil f n Hn Ed).
  - assert (Hwf1 : wf_fobj f1).
    { unfold wf_fobj, f1. cbn [f_pos]. unfold wf_fobj in Hwf. pose proof (zlen_nonneg d). lia. }
    assert (Hlen : (length (frest f1) < k)%nat).
    { rewrite Hsplit, app_length in Hfuel. destruct d; [discriminate|]. cbn [length] in Hfuel. lia. }
    cbn [concat]. rewrite (IH f1 Hwf1 Hlen). symmetry. exact Hsplit.
Qed.

Lemma read_chunks_nonempty n fuel : forall f, Forall (fun c => c <> []) (read_chunks fuel n f).
Proof.
  induction fuel as [|k IH]; intros f; [constructor|].
  cbn [read_chunks]. destruct (fread f n) as [f1 [d|e|x]]; try constructor.
  destruct (beq d []) eqn:Ed; [constructor|].
  constructor; [intros ->; discriminate|apply IH].
Qed.

(* for a positive chunk size: no chunk is longer than it, and every chunk except
   possibly the last one is exactly that long *)
Lemma read_chunks_sizes n : 1 <= n -> forall fuel f, wf_fobj f ->
  Forall (fun c => zlen c <= n) (read_chunks fuel n f) /\
  Forall (fun c => zlen c = n) (removelast (read_chunks fuel n f)).
Proof.
  intros Hn. induction fuel as [|k IH]; intros f Hwf; [split; constructor|].
  cbn [read_chunks].
  rewrite (fread_ok f n) by lia.
  set (d := read_data f n). set (f1 := mk_fobj (f_data f) (f_pos f + zlen d)).
  destruct (beq d []) eqn:Ed; [split; constructor|].
  assert (Hwf1 : wf_fobj f1).
  { unfold wf_fobj, f1. cbn [f_pos]. unfold wf_fobj in Hwf. pose proof (zlen_nonneg d). lia. }
  destruct (IH f1 Hwf1) as [IH1 IH2].
  assert (Hdlen : zlen d = Z.min n (zlen (frest f))) by (apply read_data_len; lia).
  split.
  - constructor; [lia|exact IH1].
  - (* if a further chunk follows, this one was not cut short by the end of the file *)
    destruct (read_chunks k n f1) as [|c2 rest] eqn:Ec; [constructor|].
    change (removelast (d :: c2 :: rest)) with (d :: removelast (c2 :: rest)).
    constructor; [|exact IH2].
    destruct (Z_le_gt_dec n (zlen (frest f))) as [Hle|Hgt]; [lia|].
    (* d is everything that was left: then nothing can follow *)
    exfalso.
    pose proof (read_data_split f n Hwf) as Hsplit. fold d in Hsplit. fold f1 in Hsplit.
    assert (Hr1 : frest f1 = []).
    { apply zlen_nil_iff. apply (f_equal zlen) in Hsplit. rewrite zlen_app in Hsplit.
      pose proof (zlen_nonneg (frest f1)). lia. }
    destruct k as [|k']; [discriminate Ec|].
    cbn [read_chunks] in Ec. rewrite (fread_ok f1 n) in Ec by lia.
    assert (Hnil : read_data f1 n = []).
    { unfold read_data. rewrite Hr1. destruct (n =? -1); [reflexivity|apply btake_nil]. }
    rewrite Hnil in Ec. cbn [beq] in Ec. discriminate Ec.
Qed.

End Loop.

(* ---------- compute_file_checksum ---------- *)
Section Checksum.
Context {W H : Type} (rt : runtime W H).

(* CONTRACT on hashlib (tested by the harness on every algorithm): feeding a then b is
   feeding a ++ b; feeding nothing changes nothing.  (The digest is a function of the
   state: [rt_hexdigest].) *)
Record hash_contract : Prop := {
  update_app : forall h a b, rt_update rt (rt_update rt h a) b = rt_update rt h (a ++ b);
  update_nil : forall h, rt_update rt h [] = h
}.

Lemma fold_update_concat : hash_contract -> forall cs h,
  fold_left (rt_update rt) cs h = rt_update rt h (concat cs).
Proof.
  intros HC. induction cs as [|c cs IH]; intros h; cbn [fold_left concat].
  - symmetry. apply (update_nil HC).
  - rewrite IH. apply (update_app HC).
Qed.

(* the chunk list of a whole file *)
Definition file_chunks (n : Z) (data : bytes) : list bytes :=
  read_chunks (loop_fuel (fopen data)) n (fopen data).

Lemma loop_fuel_enough data : (length (frest (fopen data)) < loop_fuel (fopen data))%nat.
Proof. rewrite frest_fopen. unfold loop_fuel, fopen. cbn [f_data]. lia. Qed.

Theorem file_chunks_spec n data : proper_chunk n ->
  concat (file_chunks n data) = data /\
  Forall (fun c => c <> []) (file_chunks n data) /\
  (1 <= n -> Forall (fun c => zlen c <= n) (file_chunks n data) /\
             Forall (fun c => zlen c = n) (removelast (file_chunks n data))).
Proof.
  intros Hn. unfold file_chunks. split; [|split].
  - rewrite (read_chunks_concat n Hn _ _ (wf_fopen data) (loop_fuel_enough data)). apply frest_fopen.
  - apply read_chunks_nonempty.
  - intros H1. apply (read_chunks_sizes n H1 _ _ (wf_fopen data)).
Qed.

(* the loop as written in the source, started on a freshly opened file: it terminates
   (never [None]) and has folded [update] over [file_chunks] *)
Theorem read_loop_total n data h : proper_chunk n ->
  exists f', read_loop rt (loop_fuel (fopen data)) n (fopen data) h
             = Some (OOk (f', fold_left (rt_update rt) (file_chunks n data) h)).
Proof.
  intros Hn.
  destruct (read_loop_chunks rt n Hn _ (fopen data) h (wf_fopen data) (loop_fuel_enough data)) as [f' [Hrun _]].
  exists f'. exact Hrun.
Qed.

(* MAIN: for every content and every chunk size >= 1 (or -1 = "read everything"), the
   checksum is the digest of one update with the whole content *)
Theorem checksum_chunking_independent :
  hash_contract ->
  forall path n alg w data h0,
    proper_chunk n ->
    rt_hash_new rt alg = OOk h0 ->
    rt_open_rb rt path w = OOk data ->
    compute_file_checksum rt path n alg w = Some (rt_hexdigest rt (rt_update rt h0 data)).
Proof.
  intros HC path n alg w data h0 Hn Hnew Hopen.
  unfold compute_file_checksum. rewrite Hnew, Hopen.
  destruct (read_loop_total n data h0 Hn) as [f' Hrun]. rewrite Hrun.
  rewrite (fold_update_concat HC).
  destruct (file_chunks_spec n data Hn) as [Hcat _]. rewrite Hcat. reflexivity.
Qed.

(* the defaults of the source are proper chunk sizes, so the theorem covers them *)
Lemma default_chunk_proper : proper_chunk default_read_chunksize.
Proof. left. unfold default_read_chunksize. lia. Qed.

Corollary checksum_default_chunk :
  hash_contract ->
  forall path alg w data h0,
    rt_hash_new rt alg = OOk h0 -> rt_open_rb rt path w = OOk data ->
    compute_file_checksum rt path default_read_chunksize alg w = Some (rt_hexdigest rt (rt_update rt h0 data)).
Proof. intros HC path alg w data h0. apply (checksum_chunking_independent HC), default_chunk_proper. Qed.

(* errors: an unknown algorithm is reported before the file is opened; a file that cannot be
   opened gives its OSError; never [None] whatever the chunk size *)
Theorem checksum_errors path n alg w :
  (forall e, rt_hash_new rt alg = OErr e -> compute_file_checksum rt path n alg w = Some (OErr e)) /\
  (forall x, rt_hash_new rt alg = OExn x -> compute_file_checksum rt path n alg w = Some (OExn x)) /\
  (forall h0 e, rt_hash_new rt alg = OOk h0 -> rt_open_rb rt path w = OErr e ->
                compute_file_checksum rt path n alg w = Some (OErr e)) /\
  (forall h0 x, rt_hash_new rt alg = OOk h0 -> rt_open_rb rt path w = OExn x ->
                compute_file_checksum rt path n alg w = Some (OExn x)).
Proof.
  unfold compute_file_checksum.
  split; [|split; [|split]].
  - intros e He. rewrite He. reflexivity.
  - intros x Hx. rewrite Hx. reflexivity.
  - intros h0 e Hnew Hopen. rewrite Hnew, Hopen. reflexivity.
  - intros h0 x Hnew Hopen. rewrite Hnew, Hopen. reflexivity.
Qed.

(* outside the property's domain (documented): chunk size 0 hashes nothing, chunk sizes
   below -1 are a ValueError of read() *)
Theorem checksum_degenerate path n alg w data h0 :
  rt_hash_new rt alg = OOk h0 -> rt_open_rb rt path w = OOk data ->
  (n = 0 -> compute_file_checksum rt path n alg w = Some (rt_hexdigest rt h0)) /\
  (n < -1 -> compute_file_checksum rt path n alg w = Some (OExn ValueError)).
Proof.
  intros Hnew Hopen. unfold compute_file_checksum. rewrite Hnew, Hopen. split; intros Hn.
  - subst n. unfold loop_fuel. cbn [read_loop].
    rewrite (fread_ok (fopen data) 0) by lia.
    unfold read_data. cbn [Z.eqb Z.to_N]. rewrite btake_0. cbn [beq]. reflexivity.
  - unfold loop_fuel. cbn [read_loop]. rewrite (fread_bad _ _ Hn). reflexivity.
Qed.

End Checksum.

(* ---------- last_bytes ---------- *)
Section LastBytes.
Context {W H : Type} (rt : runtime W H).

Lemma fits_off_iff z : fits_off z = true <-> off_min <= z <= off_max.
Proof. unfold fits_off. rewrite andb_true_iff, !Z.leb_le. reflexivity. Qed.

Lemma seek_end_whence : (os_SEEK_END =? os_SEEK_SET) = false /\ (os_SEEK_END =? os_SEEK_CUR) = false.
Proof. split; reflexivity. Qed.

Lemma fseek_end (f : fobj) (off : Z) : off_min <= off <= off_max ->
  fseek f off os_SEEK_END =
  if fsize f + off <? 0 then (f, OErr (std_oserror errno_EINVAL))
  else (mk_fobj (f_data f) (fsize f + off), OOk (fsize f + off)).
Proof.
  intros Hoff. unfold fseek.
  replace (fits_off off) with true by (symmetry; apply fits_off_iff; exact Hoff).
  cbn [negb]. destruct seek_end_whence as [E1 E2]. rewrite E1, E2, Z.eqb_refl. reflexivity.
Qed.

Lemma fseek_set0 (f : fobj) : fseek f 0 os_SEEK_SET = (mk_fobj (f_data f) 0, OOk 0).
Proof. unfold fseek. cbn [fits_off]. rewrite Z.eqb_refl. reflexivity. Qed.

Lemma tell_and_read_spec data p : 0 <= p ->
  tell_and_read (mk_fobj data p) = OOk (bskip (Z.to_N p) data, p).
Proof.
  intros Hp. unfold tell_and_read, ftell. rewrite fread_ok by lia.
  unfold read_data, frest. cbn [f_pos f_data Z.eqb]. reflexivity.
Qed.

(* MAIN: for every content and every num with 0 <= num <= 2^63: the final
   min(num, size) bytes, and the number of bytes that precede them *)
Theorem last_bytes_spec path num w data :
  rt_open_rb rt path w = OOk data ->
  0 <= num <= - off_min ->
  let k := Z.min num (zlen data) in
  last_bytes rt path num w = OOk (bskip (Z.to_N (zlen data - k)) data, zlen data - k).
Proof.
  intros Hopen Hnum k. unfold last_bytes. rewrite Hopen.
  rewrite fseek_end by (unfold off_min, off_max in *; lia).
  unfold fsize, fopen. cbn [f_data f_pos].
  destruct (zlen data + - num <? 0) eqn:E.
  - (* num > size: seek fails with EINVAL, the handler goes to the start *)
    cbn [os_errno std_oserror]. rewrite Z.eqb_refl. rewrite fseek_set0. cbn [f_data].
    rewrite tell_and_read_spec by lia.
    subst k. replace (Z.min num (zlen data)) with (zlen data) by lia.
    rewrite Z.sub_diag. reflexivity.
  - rewrite tell_and_read_spec by lia.
    subst k. replace (Z.min num (zlen data)) with num by lia.
    replace (zlen data + - num) with (zlen data - num) by lia. reflexivity.
Qed.

(* the same, read as the property text: the data are the last k bytes of the content,
   k = min(num, size), and the count is the number of bytes before them *)
Corollary last_bytes_suffix path num w data :
  rt_open_rb rt path w = OOk data -> 0 <= num <= - off_min ->
  exists pre suf, last_bytes rt path num w = OOk (suf, zlen pre) /\
                  data = pre ++ suf /\ zlen suf = Z.min num (zlen data).
Proof.
  intros Hopen Hnum. pose proof (zlen_nonneg data) as Hz.
  set (k := Z.min num (zlen data)).
  exists (btake (Z.to_N (zlen data - k)) data), (bskip (Z.to_N (zlen data - k)) data).
  split; [|split].
  - rewrite (last_bytes_spec path num w data Hopen Hnum). fold k. f_equal. f_equal.
    unfold zlen. rewrite blen_btake. unfold zlen in *. lia.
  - symmetry. apply btake_bskip_app.
  - unfold zlen. rewrite blen_bskip. unfold zlen in *. lia.
Qed.

(* errors and the range of num *)
Theorem last_bytes_errors path num w :
  (forall e, rt_open_rb rt path w = OErr e -> last_bytes rt path num w = OErr e) /\
  (forall x, rt_open_rb rt path w = OExn x -> last_bytes rt path num w = OExn x) /\
  (forall data, rt_open_rb rt path w = OOk data -> - off_min < num -> last_bytes rt path num w = OExn ValueError).
Proof.
  unfold last_bytes. split; [|split].
  - intros e He. rewrite He. reflexivity.
  - intros x Hx. rewrite Hx. reflexivity.
  - intros data Hopen Hnum. rewrite Hopen. unfold fseek.
    replace (fits_off (- num)) with false; [reflexivity|].
    symmetry. apply not_true_is_false. rewrite fits_off_iff. unfold off_min in *. lia.
Qed.

End LastBytes.

(* ---------- errno filters ---------- *)
Section Filters.
Context {W H : Type} (rt : runtime W H).

(* MAIN: for EVERY outcome of os.makedirs — in particular for every OSError instance e,
   whatever its class (OSError, a builtin subclass, a user-defined subclass) and whatever its
   errno — ensure_tree succeeds exactly when makedirs succeeded, or failed with
   errno = EEXIST while the path is a directory; every other error is re-raised unchanged (the
   same instance: same class, same errno); the world is the one makedirs left.  Only the errno
   attribute is looked at. *)
Theorem ensure_tree_errno_filter path mode w w1 r :
  rt_makedirs rt path mode w = (w1, r) ->
  (forall u, r = OOk u -> ensure_tree rt path mode w = (w1, OOk tt)) /\
  (forall e, r = OErr e -> os_errno e = errno_EEXIST -> rt_isdir rt path w1 = true ->
             ensure_tree rt path mode w = (w1, OOk tt)) /\
  (forall e, r = OErr e -> os_errno e = errno_EEXIST -> rt_isdir rt path w1 = false ->
             ensure_tree rt path mode w = (w1, OErr e)) /\
  (forall e, r = OErr e -> os_errno e <> errno_EEXIST -> ensure_tree rt path mode w = (w1, OErr e)) /\
  (forall x, r = OExn x -> ensure_tree rt path mode w = (w1, OExn x)).
Proof.
  intros Hmk. unfold ensure_tree. rewrite Hmk.
  split; [|split; [|split; [|split]]].
  - intros u ->. reflexivity.
  - intros e -> He Hd. rewrite He, Z.eqb_refl, Hd. reflexivity.
  - intros e -> He Hd. rewrite He, Z.eqb_refl, Hd. reflexivity.
  - intros e -> Hne. replace (os_errno e =? errno_EEXIST) with false by (symmetry; apply Z.eqb_neq; exact Hne). reflexivity.
  - intros x ->. reflexivity.
Qed.

(* the same as a single equation *)
Corollary ensure_tree_outcome path mode w :
  ensure_tree rt path mode w =
  let (w1, r) := rt_makedirs rt path mode w in
  (w1, match r with
       | OOk _ => OOk tt
       | OErr e => if (os_errno e =? errno_EEXIST) && rt_isdir rt path w1 then OOk tt else OErr e
       | OExn x => OExn x
       end).
Proof. unfold ensure_tree. destruct (rt_makedirs rt path mode w) as [w1 [u|e|x]]; try reflexivity.
  destruct ((os_errno e =? errno_EEXIST) && rt_isdir rt path w1); reflexivity. Qed.

(* MAIN: for EVERY outcome of the remove callable — every OSError instance e of whatever class,
   every errno — delete_if_exists succeeds exactly when remove succeeded or failed with
   errno = ENOENT; every other error is re-raised unchanged; remove is called once and nothing
   else happens.  Only the errno attribute is looked at. *)
Theorem delete_if_exists_errno_filter (remove : bytes -> W -> W * ores unit) path w w1 r :
  remove path w = (w1, r) ->
  (forall u, r = OOk u -> delete_if_exists path remove w = (w1, OOk tt)) /\
  (forall e, r = OErr e -> os_errno e = errno_ENOENT -> delete_if_exists path remove w = (w1, OOk tt)) /\
  (forall e, r = OErr e -> os_errno e <> errno_ENOENT -> delete_if_exists path remove w = (w1, OErr e)) /\
  (forall x, r = OExn x -> delete_if_exists path remove w = (w1, OExn x)).
Proof.
  intros Hrm. unfold delete_if_exists. rewrite Hrm.
  split; [|split; [|split]].
  - intros u ->. reflexivity.
  - intros e -> He. rewrite He, Z.eqb_refl. reflexivity.
  - intros e -> Hne. replace (os_errno e =? errno_ENOENT) with false by (symmetry; apply Z.eqb_neq; exact Hne). reflexivity.
  - intros x ->. reflexivity.
Qed.

(* the class of the instance is irrelevant: two OSErrors with the same errno are filtered alike *)
Corollary errno_filters_ignore_class (remove1 remove2 : bytes -> W -> W * ores unit) path mode w w1 (c1 c2 : bytes) (n : Z) :
  (rt_makedirs rt path mode w = (w1, OErr (mk_oserror c1 n)) ->
   ensure_tree rt path mode w = (w1, OOk tt) \/ ensure_tree rt path mode w = (w1, OErr (mk_oserror c1 n))) /\
  (remove1 path w = (w1, OErr (mk_oserror c1 n)) -> remove2 path w = (w1, OErr (mk_oserror c2 n)) ->
   (delete_if_exists path remove1 w = (w1, OOk tt) <-> delete_if_exists path remove2 w = (w1, OOk tt))).
Proof.
  split.
  - intros Hmk. unfold ensure_tree. rewrite Hmk. cbn [os_errno].
    destruct ((n =? errno_EEXIST) && rt_isdir rt path w1); [left|right]; reflexivity.
  - intros H1 H2. unfold delete_if_exists. rewrite H1, H2. cbn [os_errno].
    destruct (n =? errno_ENOENT); split; intros Heq; try reflexivity; discriminate Heq.
Qed.

End Filters.

(* ---------- the file-system contract; idempotence; write_to_tempfile ---------- *)
Section FSContract.
Context {W H K : Type} (rt : runtime W H).
(* observations used to STATE the contract and the theorems:
   [key p]       the file-system object a path string denotes
   [look k w]    what is there in world w: nothing, a directory, a regular file + content
   [fd_key fd w] the object an open descriptor refers to
   [tmpdir]      the directory mkstemp uses when dir is None *)
Variable key : bytes -> K.
Variable look : K -> W -> option node.
Variable fd_key : Z -> W -> option K.
Variable tmpdir : bytes.

(* CONTRACT on os / tempfile (each clause is tested by the harness on the real calls) *)
Record fs_contract : Prop := {
  isdir_look : forall p w, rt_isdir rt p w = true <-> look (key p) w = Some NDir;
  (* makedirs: on success the path is a directory; it never removes or alters anything *)
  makedirs_ok : forall p m w w', rt_makedirs rt p m w = (w', OOk tt) -> look (key p) w' = Some NDir;
  makedirs_keeps : forall p m w w' r, rt_makedirs rt p m w = (w', r) ->
      forall k n, look k w = Some n -> look k w' = Some n;
  (* ... and on something that exists (file or directory) it fails with EEXIST, changing nothing *)
  makedirs_exists : forall p m w n, look (key p) w = Some n ->
      exists e, rt_makedirs rt p m w = (w, OErr e) /\ os_errno e = errno_EEXIST;
  (* unlink: on success the path is gone, nothing else changed, and a second unlink
     reports ENOENT; a failed unlink changes nothing; ENOENT means there was nothing *)
  unlink_ok : forall p w w', rt_unlink rt p w = (w', OOk tt) ->
      look (key p) w' = None /\ (forall k, k <> key p -> look k w' = look k w) /\
      (exists e, rt_unlink rt p w' = (w', OErr e) /\ os_errno e = errno_ENOENT);
  unlink_err : forall p w w' e, rt_unlink rt p w = (w', OErr e) -> w' = w;
  unlink_enoent : forall p w w' e, rt_unlink rt p w = (w', OErr e) -> os_errno e = errno_ENOENT -> look (key p) w = None;
  (* mkstemp: a name that did not exist, now an empty regular file, open on the returned
     descriptor, inside the requested directory, with the requested prefix and suffix *)
  mkstemp_ok : forall s d pre w w' fd p, rt_mkstemp rt s d pre w = (w', OOk (fd, p)) ->
      look (key p) w = None /\ look (key p) w' = Some (NFile []) /\ fd_key fd w' = Some (key p) /\
      (forall k, k <> key p -> look k w' = look k w) /\
      (exists tag, p = (match d with Some x => x | None => tmpdir end) ++ [47%N] ++ pre ++ tag ++ s);
  (* write: PROGRESS — a write of a non-empty buffer that returns at all transfers at least
     one byte and at most the buffer (it may be short: Linux caps one write(2) at
     0x7ffff000 bytes); on a descriptor of a regular file it appends the transferred prefix *)
  write_progress : forall fd c w w' n, rt_write rt fd c w = (w', OOk n) -> c <> [] -> 1 <= n <= zlen c;
  write_appends : forall fd k c old w, fd_key fd w = Some k -> look k w = Some (NFile old) -> c <> [] ->
      exists w' n, rt_write rt fd c w = (w', OOk n) /\
                   look k w' = Some (NFile (old ++ btake (Z.to_N n) c)) /\
                   (forall k', k' <> k -> look k' w' = look k' w) /\ fd_key fd w' = Some k;
  close_ok : forall fd k w, fd_key fd w = Some k ->
      exists w', rt_close rt fd w = (w', OOk tt) /\ (forall k', look k' w' = look k' w);
  open_look : forall p w c, rt_open_rb rt p w = OOk c <-> look (key p) w = Some (NFile c)
}.

Hypothesis HC : fs_contract.

(* --- ensure_tree: the work is already done / a file is in the way / post-condition / idempotence --- *)
Theorem ensure_tree_already_done path mode w :
  look (key path) w = Some NDir -> ensure_tree rt path mode w = (w, OOk tt).
Proof.
  intros Hd. unfold ensure_tree. destruct (makedirs_exists HC path mode w NDir Hd) as [e [Hmk He]].
  rewrite Hmk, He, Z.eqb_refl. replace (rt_isdir rt path w) with true by (symmetry; apply (isdir_look HC); exact Hd).
  reflexivity.
Qed.

Theorem ensure_tree_file_in_the_way path mode w c :
  look (key path) w = Some (NFile c) ->
  exists e, ensure_tree rt path mode w = (w, OErr e) /\ os_errno e = errno_EEXIST.
Proof.
  intros Hf. unfold ensure_tree. destruct (makedirs_exists HC path mode w (NFile c) Hf) as [e [Hmk He]].
  exists e. split; [|exact He]. rewrite Hmk, He, Z.eqb_refl.
  destruct (rt_isdir rt path w) eqn:Ed; [|reflexivity].
  apply (isdir_look HC) in Ed. congruence.
Qed.

Theorem ensure_tree_post path mode w w' :
  ensure_tree rt path mode w = (w', OOk tt) ->
  look (key path) w' = Some NDir /\ (forall k n, look k w = Some n -> look k w' = Some n).
Proof.
  unfold ensure_tree. destruct (rt_makedirs rt path mode w) as [w1 r] eqn:Hmk.
  pose proof (makedirs_keeps HC path mode w w1 r Hmk) as Hkeep.
  destruct r as [u|e|x].
  - intros Heq. injection Heq as <-. destruct u. split; [apply (makedirs_ok HC _ _ _ _ Hmk)|exact Hkeep].
  - destruct ((os_errno e =? errno_EEXIST) && rt_isdir rt path w1) eqn:Ec; intros Heq; [|discriminate].
    injection Heq as <-. apply andb_true_iff in Ec. destruct Ec as [_ Ed].
    split; [apply (isdir_look HC); exact Ed|exact Hkeep].
  - intros Heq. discriminate.
Qed.

Theorem ensure_tree_idempotent path mode w w' :
  ensure_tree rt path mode w = (w', OOk tt) -> ensure_tree rt path mode w' = (w', OOk tt).
Proof.
  intros Hrun. apply ensure_tree_already_done.
  destruct (ensure_tree_post _ _ _ _ Hrun) as [Hd _]. exact Hd.
Qed.

Theorem ensure_tree_post_idempotent path mode w w' :
  ensure_tree rt path mode w = (w', OOk tt) ->
  (look (key path) w' = Some NDir /\ (forall k n, look k w = Some n -> look k w' = Some n)) /\
  ensure_tree rt path mode w' = (w', OOk tt).
Proof. intros Hrun. split; [exact (ensure_tree_post _ _ _ _ Hrun)|exact (ensure_tree_idempotent _ _ _ _ Hrun)]. Qed.

(* --- delete_if_exists with the default remove (os.unlink) --- *)
Theorem delete_if_exists_post path w w' :
  delete_if_exists path (rt_unlink rt) w = (w', OOk tt) ->
  look (key path) w' = None /\ (forall k, k <> key path -> look k w' = look k w).
Proof.
  unfold delete_if_exists. destruct (rt_unlink rt path w) as [w1 r] eqn:Hrm.
  destruct r as [u|e|x].
  - intros Heq. injection Heq as <-. destruct u.
    destruct (unlink_ok HC _ _ _ Hrm) as [Hgone [Hframe _]]. split; assumption.
  - destruct (os_errno e =? errno_ENOENT) eqn:Ee; intros Heq; [|discriminate].
    injection Heq as <-. apply Z.eqb_eq in Ee.
    pose proof (unlink_err HC _ _ _ _ Hrm) as ->.
    split; [apply (unlink_enoent HC _ _ _ _ Hrm Ee)|reflexivity].
  - intros Heq. discriminate.
Qed.

Theorem delete_if_exists_idempotent path w w' :
  delete_if_exists path (rt_unlink rt) w = (w', OOk tt) ->
  delete_if_exists path (rt_unlink rt) w' = (w', OOk tt).
Proof.
  unfold delete_if_exists at 1. destruct (rt_unlink rt path w) as [w1 r] eqn:Hrm.
  destruct r as [u|e|x].
  - intros Heq. injection Heq as <-. destruct u.
    destruct (unlink_ok HC _ _ _ Hrm) as [_ [_ [e2 [Hagain He2]]]].
    unfold delete_if_exists. rewrite Hagain, He2, Z.eqb_refl. reflexivity.
  - destruct (os_errno e =? errno_ENOENT) eqn:Ee; intros Heq; [|discriminate].
    injection Heq as <-.
    pose proof (unlink_err HC _ _ _ _ Hrm) as ->.
    unfold delete_if_exists. rewrite Hrm, Ee. reflexivity.
  - intros Heq. discriminate.
Qed.

Theorem delete_if_exists_post_idempotent path w w' :
  delete_if_exists path (rt_unlink rt) w = (w', OOk tt) ->
  (look (key path) w' = None /\ (forall k, k <> key path -> look k w' = look k w)) /\
  delete_if_exists path (rt_unlink rt) w' = (w', OOk tt).
Proof. intros Hrun. split; [exact (delete_if_exists_post _ _ _ Hrun)|exact (delete_if_exists_idempotent _ _ _ Hrun)]. Qed.

(* --- write_to_tempfile --- *)
Lemma zlen_zero_nil view : (zlen view =? 0) = true -> view = [].
Proof. intros Hz. apply Z.eqb_eq in Hz. apply zlen_nil_iff. exact Hz. Qed.

Lemma zlen_nonzero view : (zlen view =? 0) = false -> view <> [].
Proof. intros Hz ->. discriminate Hz. Qed.

Lemma length_bskip_lt n view k : 1 <= n -> (length view < S k)%nat -> view <> [] ->
  (length (bskip (Z.to_N n) view) < k)%nat.
Proof.
  intros Hn Hlen Hne. pose proof (blen_bskip (Z.to_N n) view) as Hb. unfold blen in Hb.
  destruct view; [congruence|]. cbn [length] in *. lia.
Qed.

(* the write loop never runs out of fuel (its default is unreachable): every round that does
   not stop transfers at least one byte *)
Theorem write_loop_total : forall fuel fd view w, (length view < fuel)%nat ->
  exists r, write_loop rt fuel fd view w = Some r.
Proof.
  induction fuel as [|k IH]; intros fd view w Hlen; [lia|].
  cbn [write_loop]. destruct (zlen view =? 0) eqn:Ez; [eexists; reflexivity|].
  pose proof (zlen_nonzero view Ez) as Hne.
  destruct (rt_write rt fd view w) as [w1 [n|e|x]] eqn:Hw; try (eexists; reflexivity).
  destruct (write_progress HC _ _ _ _ _ Hw Hne) as [Hn1 Hn2].
  rewrite zslice_from by lia. apply IH. apply length_bskip_lt; assumption.
Qed.

Corollary write_all_not_default fd content w :
  exists r, write_loop rt (S (length content)) fd content w = Some r /\ write_all rt fd content w = r.
Proof.
  destruct (write_loop_total (S (length content)) fd content w) as [r Hr]; [lia|].
  exists r. split; [exact Hr|]. unfold write_all. rewrite Hr. reflexivity.
Qed.

(* on an open descriptor of a regular file the loop ends normally with everything appended,
   however short the individual writes were *)
Lemma write_loop_ok : forall fuel fd k view old w,
  fd_key fd w = Some k -> look k w = Some (NFile old) -> (length view < fuel)%nat ->
  exists w', write_loop rt fuel fd view w = Some (w', OOk tt) /\ look k w' = Some (NFile (old ++ view)) /\
             (forall k', k' <> k -> look k' w' = look k' w) /\ fd_key fd w' = Some k.
Proof.
  induction fuel as [|m IH]; intros fd k view old w Hfd Hold Hlen; [lia|].
  cbn [write_loop]. destruct (zlen view =? 0) eqn:Ez.
  - apply zlen_zero_nil in Ez. subst view. exists w. rewrite app_nil_r. auto.
  - pose proof (zlen_nonzero view Ez) as Hne.
    destruct (write_appends HC fd k view old w Hfd Hold Hne) as [w1 [n [Hw [Hl1 [Hfr1 Hfd1]]]]].
    destruct (write_progress HC _ _ _ _ _ Hw Hne) as [Hn1 Hn2].
    rewrite Hw. rewrite zslice_from by lia.
    destruct (IH fd k (bskip (Z.to_N n) view) (old ++ btake (Z.to_N n) view) w1 Hfd1 Hl1
                 (length_bskip_lt n view m Hn1 Hlen Hne)) as [w' [Hrun [Hl' [Hfr' Hfd']]]].
    exists w'. split; [exact Hrun|]. split; [|split; [|exact Hfd']].
    + rewrite Hl'. rewrite <- app_assoc, btake_bskip_app. reflexivity.
    + intros k' Hk'. rewrite (Hfr' k' Hk'). apply Hfr1. exact Hk'.
Qed.

Lemma write_and_close_ok fd k c w2 :
  fd_key fd w2 = Some k -> look k w2 = Some (NFile []) ->
  exists w4, write_and_close rt fd c w2 = (w4, OOk tt) /\ look k w4 = Some (NFile c) /\
             (forall k', k' <> k -> look k' w4 = look k' w2).
Proof.
  intros Hfd Hempty.
  destruct (write_loop_ok (S (length c)) fd k c [] w2 Hfd Hempty) as [w3 [Hw [Hc [Hframe Hfd3]]]]; [lia|].
  destruct (close_ok HC fd k w3 Hfd3) as [w4 [Hcl Hsame]].
  exists w4. unfold write_and_close, write_all. rewrite Hw, Hcl.
  split; [reflexivity|]. split.
  - rewrite Hsame. exact Hc.
  - intros k' Hk'. rewrite Hsame. apply Hframe. exact Hk'.
Qed.

Definition tempfile_dir (path : option bytes) : bytes :=
  match path with Some x => x | None => tmpdir end.

(* MAIN: whenever write_to_tempfile returns a name,
   (1) nothing existed under that name before (it is distinct from every existing file),
   (2) it is now a regular file holding exactly the content,
   (3) it lies in the requested directory (or the default one) and carries prefix and suffix,
   (4) if a non-empty path was given, that path is a directory afterwards, and it was made
       one (ensure_tree) BEFORE mkstemp ran,
   (5) everything that existed before is still there, unchanged. *)
Theorem write_to_tempfile_spec content path suffix prefix w w' name :
  write_to_tempfile rt content path suffix prefix w = (w', OOk name) ->
  look (key name) w = None /\
  look (key name) w' = Some (NFile content) /\
  (exists tag, name = tempfile_dir path ++ [47%N] ++ prefix ++ tag ++ suffix) /\
  (forall p, path = Some p -> nonempty p = true ->
     look (key p) w' = Some NDir /\
     exists w1 w2 fd, ensure_tree rt p default_mode w = (w1, OOk tt) /\
                      rt_mkstemp rt suffix path prefix w1 = (w2, OOk (fd, name))) /\
  (forall k n, look k w = Some n -> look k w' = Some n).
Proof.
  unfold write_to_tempfile.
  set (pre := match path with
              | Some p => if nonempty p then ensure_tree rt p default_mode w else (w, OOk tt)
              | None => (w, OOk tt) end).
  destruct pre as [w1 r1] eqn:Hpre.
  destruct r1 as [u|e|x]; [|intros Heq; discriminate|intros Heq; discriminate].
  (* facts about the first phase *)
  assert (Hkeep1 : forall k n, look k w = Some n -> look k w1 = Some n).
  { subst pre. destruct path as [p|]; [destruct (nonempty p)|].
    - destruct u. destruct (ensure_tree_post _ _ _ _ Hpre) as [_ Hk]. exact Hk.
    - injection Hpre as <- _. auto.
    - injection Hpre as <- _. auto. }
  assert (Hdir1 : forall p, path = Some p -> nonempty p = true ->
                  look (key p) w1 = Some NDir /\ ensure_tree rt p default_mode w = (w1, OOk tt)).
  { intros p -> Hp. subst pre. rewrite Hp in Hpre. destruct u.
    split; [destruct (ensure_tree_post _ _ _ _ Hpre) as [Hd _]; exact Hd|exact Hpre]. }
  destruct (rt_mkstemp rt suffix path prefix w1) as [w2 [[fd nm]|e|x]] eqn:Hmk;
    [|intros Heq; discriminate|intros Heq; discriminate].
  destruct (mkstemp_ok HC _ _ _ _ _ _ _ Hmk) as [Hfresh [Hempty [Hfd [Hframe2 Hname]]]].
  destruct (write_and_close_ok fd (key nm) content w2 Hfd Hempty) as [w4 [Hwc [Hcontent Hframe4]]].
  rewrite Hwc. intros Heq. injection Heq as <- <-.
  assert (Hkeep : forall k n, look k w1 = Some n -> look k w4 = Some n).
  { intros k n Hk. assert (Hne : k <> key nm) by (intros ->; congruence).
    rewrite (Hframe4 k Hne), (Hframe2 k Hne). exact Hk. }
  split; [|split; [|split; [|split]]].
  - destruct (look (key nm) w) as [n|] eqn:El; [|reflexivity].
    apply Hkeep1 in El. congruence.
  - exact Hcontent.
  - exact Hname.
  - intros p Hp Hne. destruct (Hdir1 p Hp Hne) as [Hd He]. split.
    + apply Hkeep. exact Hd.
    + exists w1, w2, fd. split; [exact He|exact Hmk].
  - intros k n Hk. apply Hkeep, Hkeep1. exact Hk.
Qed.

(* it does succeed whenever mkstemp does ... *)
Theorem write_to_tempfile_succeeds content path suffix prefix w w1 w2 fd name :
  (match path with
   | Some p => if nonempty p then ensure_tree rt p default_mode w else (w, OOk tt)
   | None => (w, OOk tt) end) = (w1, OOk tt) ->
  rt_mkstemp rt suffix path prefix w1 = (w2, OOk (fd, name)) ->
  exists w', write_to_tempfile rt content path suffix prefix w = (w', OOk name).
Proof.
  intros Hpre Hmk. unfold write_to_tempfile. rewrite Hpre, Hmk.
  destruct (mkstemp_ok HC _ _ _ _ _ _ _ Hmk) as [_ [Hempty [Hfd _]]].
  destruct (write_and_close_ok fd (key name) content w2 Hfd Hempty) as [w4 [Hwc _]].
  exists w4. rewrite Hwc. reflexivity.
Qed.

(* ... and an error of ensure_tree is re-raised before mkstemp is tried *)
Theorem write_to_tempfile_ensure_error content p suffix prefix w w1 :
  nonempty p = true ->
  (forall e, ensure_tree rt p default_mode w = (w1, OErr e) ->
             write_to_tempfile rt content (Some p) suffix prefix w = (w1, OErr e)) /\
  (forall x, ensure_tree rt p default_mode w = (w1, OExn x) ->
             write_to_tempfile rt content (Some p) suffix prefix w = (w1, OExn x)).
Proof.
  intros Hp. unfold write_to_tempfile. rewrite Hp.
  split; intros z Hz; rewrite Hz; reflexivity.
Qed.

End FSContract.
