(* Proofs/C20.v — lemmas for C20 (file helpers). *)
Require Import OV.Base.Bytes OV.Base.Py OV.Gen.C20_Consts OV.Model.C20_OS OV.Model.C20 OV.Gen.C20_Code.
Open Scope Z_scope.

(* ---------- the statement-level translation of the source equals the model ---------- *)
Section Equiv.
Context {W H : Type} (rt : runtime W H).

Theorem gen_ensure_tree_equiv path mode w :
  gen_ensure_tree rt path mode w = ensure_tree rt path mode w.
Proof.
  unfold gen_ensure_tree, ensure_tree.
  destruct (rt_makedirs rt path mode w) as [w1 [u|e|x]]; try reflexivity.
  destruct (e =? errno_EEXIST); cbn [andb negb]; [|reflexivity].
  destruct (rt_isdir rt path w1); reflexivity.
Qed.

Theorem gen_delete_if_exists_equiv (path : bytes) (remove : bytes -> W -> W * ores unit) (w : W) :
  gen_delete_if_exists path remove w = delete_if_exists path remove w.
Proof.
  unfold gen_delete_if_exists, delete_if_exists.
  destruct (remove path w) as [w1 [u|e|x]]; try reflexivity.
  destruct (e =? errno_ENOENT); reflexivity.
Qed.

Theorem gen_write_to_tempfile_equiv content path suffix prefix w :
  gen_write_to_tempfile rt content path suffix prefix w = write_to_tempfile rt content path suffix prefix w.
Proof.
  assert (Tail : forall w1,
    match rt_mkstemp rt suffix path prefix w1 with
    | (w2, OOk (fd, name)) =>
        match rt_write rt fd content w2 with
        | (w3, OOk _) =>
            match rt_close rt fd w3 with
            | (w4, OOk _) => (w4, OOk name) | (w4, OErr e) => (w4, OErr e) | (w4, OExn x) => (w4, OExn x) end
        | (w3, OErr e1) =>
            match rt_close rt fd w3 with
            | (w4, OOk _) => (w4, OErr e1) | (w4, OErr e) => (w4, OErr e) | (w4, OExn x) => (w4, OExn x) end
        | (w3, OExn x1) =>
            match rt_close rt fd w3 with
            | (w4, OOk _) => (w4, OExn x1) | (w4, OErr e) => (w4, OErr e) | (w4, OExn x) => (w4, OExn x) end
        end
    | (w2, OErr e) => (w2, OErr e)
    | (w2, OExn x) => (w2, OExn x)
    end =
    match rt_mkstemp rt suffix path prefix w1 with
    | (w2, OErr e) => (w2, OErr e)
    | (w2, OExn x) => (w2, OExn x)
    | (w2, OOk (fd, name)) =>
        match write_and_close rt fd content w2 with
        | (w3, OOk _) => (w3, OOk name)
        | (w3, OErr e) => (w3, OErr e)
        | (w3, OExn x) => (w3, OExn x)
        end
    end).
  { intros w1. destruct (rt_mkstemp rt suffix path prefix w1) as [w2 [[fd name]|e|x]]; try reflexivity.
    unfold write_and_close.
    destruct (rt_write rt fd content w2) as [w3 [n|e1|x1]];
      destruct (rt_close rt fd w3) as [w4 [u|e2|x2]]; reflexivity. }
  unfold gen_write_to_tempfile, write_to_tempfile.
  destruct path as [p|].
  - destruct (nonempty p).
    + rewrite gen_ensure_tree_equiv.
      destruct (ensure_tree rt p default_mode w) as [w1 [u|e|x]]; try reflexivity. apply Tail.
    + apply Tail.
  - apply Tail.
Qed.

Lemma gen_loop_equiv fuel path n alg f h :
  gen_compute_file_checksum_loop rt fuel path n alg f h = read_loop rt fuel n f h.
Proof.
  revert f h. induction fuel as [|k IH]; intros f h; [reflexivity|].
  cbn [gen_compute_file_checksum_loop read_loop].
  destruct (fread f n) as [f1 [chunk|e|x]]; try reflexivity.
  destruct (beq chunk []); [reflexivity|]. apply IH.
Qed.

Theorem gen_compute_file_checksum_equiv path n alg w :
  gen_compute_file_checksum rt path n alg w =
  match compute_file_checksum rt path n alg w with Some r => r | None => OExn OtherError end.
Proof.
  unfold gen_compute_file_checksum, compute_file_checksum.
  destruct (rt_hash_new rt alg) as [h0|e|x]; try reflexivity.
  destruct (rt_open_rb rt path w) as [data|e|x]; try reflexivity.
  rewrite gen_loop_equiv.
  destruct (read_loop rt (loop_fuel (fopen data)) n (fopen data) h0) as [[[f1 h]|e|x]|]; try reflexivity.
  destruct (rt_hexdigest rt h); reflexivity.
Qed.

Theorem gen_last_bytes_equiv path num w :
  gen_last_bytes rt path num w = last_bytes rt path num w.
Proof.
  unfold gen_last_bytes, last_bytes, tell_and_read.
  destruct (rt_open_rb rt path w) as [data|e|x]; try reflexivity.
  all: try (destruct (fseek (fopen data) (- num) os_SEEK_END) as [fp [t|e|x]]; try reflexivity).
  all: try (destruct (e =? errno_EINVAL); [|reflexivity];
            destruct (fseek fp 0 os_SEEK_SET) as [fp2 [t|e2|x]]; reflexivity).
Qed.
End Equiv.
