(* Proofs/C03_Props.v — the remaining C03 clauses in concrete form (exclusive, multiple => error, raw
   rules, allowed_formats, totality incl. detect_file_format) and the C01 wrapper verdict. *)
Require Import OV.Base.Bytes OV.Base.Py OV.Base.C06_WrapShape OV.Base.Insp_Struct.
Require Import OV.Gen.Insp_Consts OV.Gen.C06_Wrapper OV.Model.Insp_Engine OV.Model.Insp_All.
Require Import OV.Model.Wrap OV.Model.C03.
Require Import OV.Proofs.Insp_Engine OV.Proofs.Insp_FmtOk OV.Proofs.Insp_All.
Require Import OV.Proofs.C03_Engine OV.Proofs.C03_Total OV.Proofs.C03_Sig OV.Proofs.Wrap OV.Proofs.C06 OV.Proofs.C03_Wrap OV.Proofs.C03_Stable.
Open Scope N_scope.

(* ------------------------------------------------------------------ slots of the closed wrapper *)
Lemma closed_slot_in expected allowed cs f :
  allowed_key allowed (fmt_name f) = true -> In (slot_closed cs f) (w_slots (closed_wrapper expected allowed cs)).
Proof.
  intros Ha. cbn [closed_wrapper w_slots]. apply in_map. apply filter_In. split; [apply all_formats_complete | exact Ha].
Qed.

Lemma closed_nonraw_match_in expected allowed cs f :
  allowed_key allowed (fmt_name f) = true -> f <> F_raw -> cmatch (fst (run f cs)) = true ->
  In (slot_closed cs f) (cw_matches (closed_wrapper expected allowed cs)).
Proof.
  intros Ha Hr Hm. unfold cw_matches, matches, non_raw. apply filter_In. split; [|exact Hm].
  apply filter_In. split; [apply closed_slot_in; exact Ha|].
  unfold is_raw_nr. cbn [slot_closed s_name]. destruct (beq (fmt_name f) raw_lit_nonraw) eqn:Hb; [|reflexivity].
  exfalso. apply Hr. apply beq_eq in Hb. apply fmt_name_inj. rewrite Hb. reflexivity.
Qed.

Lemma slot_closed_inj cs f g : slot_closed cs f = slot_closed cs g -> f = g.
Proof. intros H. apply (f_equal (@s_name istate)) in H. cbn in H. apply fmt_name_inj. exact H. Qed.

(* for a static format, matching after close IS having the signature *)
Lemma closed_static_match f cs : is_static f = true -> cmatch (fst (run f cs)) = sigb f (concat cs).
Proof. intros Hs. rewrite (static_inspector_refines_spec_state f cs Hs). cbn [fst]. apply static_match_is_signature. exact Hs. Qed.

(* ------------------------------------------------------------------ C03_unique *)
(* format names m: no other non-raw inspector of the wrapper matches (any wrapper) *)
Theorem unique_match (w : cwrapper) m m' :
  cw_format w = Ok (Some m) -> cw_is_raw m = false ->
  In m' (w_slots w) -> cw_is_raw m' = false -> cmatch (s_insp m') = true -> m' = m.
Proof.
  intros Hf Hr Hin Hr' Hm'.
  destruct (format_some_implies_unique_match istate complete cmatch raw_lit_nonraw raw_lit_raw _ _ Hf) as (_ & [Hm|(_ & Hraw)]).
  - assert (Hi : In m' (matches istate cmatch raw_lit_nonraw w)).
    { unfold matches, non_raw. apply filter_In. split; [|exact Hm']. apply filter_In. split; [exact Hin|].
      unfold cw_is_raw, is_raw in Hr'. unfold is_raw_nr. rewrite raw_lits_agree, Hr'. reflexivity. }
    rewrite Hm in Hi. destruct Hi as [<-|[]]. reflexivity.
  - exfalso. assert (Hi : In m (filter (is_raw istate raw_lit_raw) (w_slots w))) by (rewrite Hraw; left; reflexivity).
    apply filter_In in Hi. unfold cw_is_raw in Hr. destruct Hi as [_ Hi]. congruence.
Qed.

(* content level: the format reported carries its signature and no other allowed static format does *)
Theorem unique_signature expected allowed cs w m f :
  read_and_closed expected allowed cs w -> cw_format w = Ok (Some m) -> s_name m = fmt_name f -> f <> F_raw ->
  sigb f (concat cs) = true /\
  forall g, g <> F_raw -> g <> f -> is_static g = true -> allowed_key allowed (fmt_name g) = true -> sigb g (concat cs) = false.
Proof.
  intros Hrc Hf Hn Hnr. split; [eapply format_implies_signature; eauto|].
  intros g Hg Hgf Hs Ha. destruct (sigb g (concat cs)) eqn:Hsig; [|reflexivity]. exfalso.
  rewrite (read_and_closed_is _ _ _ _ Hrc) in Hf.
  assert (Hm : cmatch (fst (run g cs)) = true) by (rewrite closed_static_match; assumption).
  assert (Hraw : forall k, k <> F_raw -> cw_is_raw (slot_closed cs k) = false).
  { intros k Hk. unfold cw_is_raw, is_raw. cbn [slot_closed s_name]. destruct (beq (fmt_name k) raw_lit_raw) eqn:Hb; [|reflexivity].
    exfalso. apply Hk. apply beq_eq in Hb. apply fmt_name_inj. exact Hb. }
  assert (Hmr : cw_is_raw m = false).
  { destruct (cw_is_raw m) eqn:Hb; [|reflexivity]. exfalso. apply Hnr. eapply is_raw_name; eauto. }
  pose proof (unique_match _ m (slot_closed cs g) Hf Hmr (closed_slot_in _ _ _ _ Ha) (Hraw g Hg) Hm) as He.
  apply Hgf. apply fmt_name_inj. rewrite <- Hn, <- He. reflexivity.
Qed.

(* ------------------------------------------------------------------ C03_multiple_raise *)
Theorem multiple_raise expected allowed cs w g1 g2 :
  read_and_closed expected allowed cs w -> g1 <> g2 -> g1 <> F_raw -> g2 <> F_raw ->
  allowed_key allowed (fmt_name g1) = true -> allowed_key allowed (fmt_name g2) = true ->
  cmatch (fst (run g1 cs)) = true -> cmatch (fst (run g2 cs)) = true ->
  cw_format w = Exn ImageFormatError.
Proof.
  intros Hrc Hne H1 H2 A1 A2 M1 M2. rewrite (read_and_closed_is _ _ _ _ Hrc).
  apply two_matches_raise; [unfold decided; cbn [closed_wrapper w_finished]; apply orb_true_r|].
  unfold matches. apply (filter_two _ _ (slot_closed cs g1) (slot_closed cs g2)); auto.
  - unfold non_raw. apply filter_In. split; [apply closed_slot_in; exact A1|].
    pose proof (closed_nonraw_match_in expected allowed cs g1 A1 H1 M1) as Hi. unfold cw_matches, matches in Hi.
    apply filter_In in Hi. destruct Hi as [Hi _]. unfold non_raw in Hi. apply filter_In in Hi. tauto.
  - unfold non_raw. apply filter_In. split; [apply closed_slot_in; exact A2|].
    pose proof (closed_nonraw_match_in expected allowed cs g2 A2 H2 M2) as Hi. unfold cw_matches, matches in Hi.
    apply filter_In in Hi. destruct Hi as [Hi _]. unfold non_raw in Hi. apply filter_In in Hi. tauto.
  - intros He. apply Hne. eapply slot_closed_inj; eauto.
Qed.

(* content level, static formats: two signatures present => ImageFormatError *)
Theorem multiple_signatures_raise expected allowed cs w g1 g2 :
  read_and_closed expected allowed cs w -> g1 <> g2 -> g1 <> F_raw -> g2 <> F_raw ->
  is_static g1 = true -> is_static g2 = true ->
  allowed_key allowed (fmt_name g1) = true -> allowed_key allowed (fmt_name g2) = true ->
  sigb g1 (concat cs) = true -> sigb g2 (concat cs) = true ->
  cw_format w = Exn ImageFormatError.
Proof.
  intros Hrc Hne H1 H2 S1 S2 A1 A2 G1 G2.
  apply (multiple_raise expected allowed cs w g1 g2 Hrc Hne H1 H2 A1 A2); rewrite closed_static_match; assumption.
Qed.

(* ------------------------------------------------------------------ C03_raw_rules *)
Theorem raw_rules expected allowed cs w m :
  read_and_closed expected allowed cs w -> cw_format w = Ok (Some m) -> cw_is_raw m = true ->
  allowed_key allowed raw_lit_raw = true /\ cw_matches w = [] /\
  (forall g, g <> F_raw -> allowed_key allowed (fmt_name g) = true -> cmatch (fst (run g cs)) = false) /\
  (forall g, g <> F_raw -> is_static g = true -> allowed_key allowed (fmt_name g) = true -> sigb g (concat cs) = false).
Proof.
  intros Hrc Hf Hr.
  destruct (raw_only_when_nothing_matches_and_allowed istate complete cmatch raw_lit_nonraw raw_lit_raw raw_lits_agree _ _ Hf Hr)
    as (Hm & Hin & _).
  rewrite (read_and_closed_is _ _ _ _ Hrc) in Hin, Hm.
  assert (Hnone : forall g, g <> F_raw -> allowed_key allowed (fmt_name g) = true -> cmatch (fst (run g cs)) = false).
  { intros g Hg Ha. destruct (cmatch (fst (run g cs))) eqn:Hc; [|reflexivity]. exfalso.
    pose proof (closed_nonraw_match_in expected allowed cs g Ha Hg Hc) as Hi. unfold cw_matches in Hi. rewrite Hm in Hi. exact Hi. }
  split; [|split; [|split]].
  - cbn [closed_wrapper w_slots] in Hin. destruct (in_closed_slots _ _ _ Hin) as (f & -> & Ha).
    pose proof (is_raw_name (slot_closed cs f) f eq_refl Hr) as Hfr. subst f. exact Ha.
  - rewrite (read_and_closed_is _ _ _ _ Hrc). exact Hm.
  - exact Hnone.
  - intros g Hg Hs Ha. rewrite <- (closed_static_match g cs Hs). apply Hnone; assumption.
Qed.

(* ------------------------------------------------------------------ C03_allowed *)
Lemma w_run_names : forall inps (w w' : cwrapper) recs,
  cw_run w inps = (w', recs) -> map (@s_name istate) (w_slots w') = map (@s_name istate) (w_slots w).
Proof.
  unfold cw_run. induction inps as [|inp rest IH]; intros w w' recs H.
  - cbn in H. inversion H; subst. reflexivity.
  - rewrite w_run_cons in H.
    destruct (w_step istate eat finish complete cmatch gen_shape w inp) as [[w1 tr1] o] eqn:Hs.
    destruct (w_run istate eat finish complete cmatch gen_shape w1 rest) as [w2 recs2] eqn:Hr.
    inversion H; subst. rewrite (IH _ _ _ Hr).
    exact (w_step_names istate eat finish complete cmatch gen_shape gen_shape_ok _ _ _ _ _ Hs).
Qed.

Theorem allowed_respected expected allowed w :
  wreach expected allowed w -> allowed <> [] ->
  (forall s, In s (w_slots w) -> In (s_name s) allowed) /\
  (forall m, cw_format w = Ok (Some m) -> In (s_name m) allowed) /\
  (forall ms m, cw_formats w = Some ms -> In m ms -> In (s_name m) allowed).
Proof.
  intros (inps & recs & H) Hne. pose proof (w_run_names _ _ _ _ H) as Hn.
  assert (Hs : forall s, In s (w_slots w) -> In (s_name s) allowed).
  { intros s Hin. assert (Hi : In (s_name s) (map (@s_name istate) (w_slots w))) by (apply in_map; exact Hin).
    rewrite Hn in Hi. apply in_map_iff in Hi. destruct Hi as (s0 & <- & Hs0).
    exact (allowed_formats_respected istate factory expected allowed s0 Hs0 Hne). }
  split; [exact Hs|]. split.
  - intros m Hf. apply Hs. exact (format_in_slots istate complete cmatch raw_lit_nonraw raw_lit_raw raw_lits_agree _ _ Hf).
  - intros ms m Hf Hin. apply Hs. unfold cw_formats, formats in Hf.
    destruct (negb _ && negb _); [discriminate|].
    destruct (matches istate cmatch raw_lit_nonraw w) as [|a t] eqn:Hm; inversion Hf; subst.
    + apply filter_In in Hin. tauto.
    + assert (Hi : In m (matches istate cmatch raw_lit_nonraw w)) by (rewrite Hm; exact Hin).
      unfold matches, non_raw in Hi. apply filter_In in Hi. destruct Hi as [Hi _]. apply filter_In in Hi. tauto.
Qed.

(* allowed_formats = [] (like None) means all ten formats *)
Theorem allowed_empty_all expected :
  map (@s_name istate) (w_slots (cw_new expected [])) = map fmt_name Insp_Consts.all_formats.
Proof. reflexivity. Qed.

(* ------------------------------------------------------------------ C03_detection_total *)
Theorem format_total_r expected allowed w :
  wreach expected allowed w ->
  format_r w = cw_format w /\ formats_r w = Ok (cw_formats w) /\
  ((exists r, format_r w = Ok r) \/ format_r w = Exn ImageFormatError).
Proof.
  intros H. pose proof (wreach_reachable _ _ _ H) as Hs.
  split; [apply format_r_spec; exact Hs|]. split; [apply formats_r_spec; exact Hs|].
  rewrite (format_r_spec w Hs). apply format_total.
Qed.

Lemma format_name_r_spec w : slots_ok reachable (w_slots w) -> format_name_r w = cw_format_name w.
Proof. intros H. unfold format_name_r, cw_format_name, format_name. rewrite (format_r_spec w H). reflexivity. Qed.

Lemma detect_loop_r_spec : forall fuel cs w s, slots_ok reachable (w_slots w) ->
  detect_loop_r fuel cs w s = detect_loop istate eat finish complete cmatch gen_shape raw_lit_nonraw raw_lit_raw fuel cs w s /\
  slots_ok reachable (w_slots (fst (fst (fst (detect_loop_r fuel cs w s))))).
Proof.
  induction fuel as [|k IH]; intros cs w s Hs; cbn [detect_loop_r detect_loop]; [split; [reflexivity | exact Hs]|].
  unfold cw_read. destruct (w_read istate eat finish complete cmatch gen_shape w s cs) as [[[[w1 s1] tr1] inp] o] eqn:Hr.
  assert (Hs1 : slots_ok reachable (w_slots w1)).
  { unfold w_read in Hr. destruct (f_read s cs) as [s' r].
    destruct (w_step istate eat finish complete cmatch gen_shape w (src_input r)) as [[w' tr] o'] eqn:Hst.
    inversion Hr; subst. eapply (w_step_slots reachable reachable_eat reachable_finish); eauto. }
  destruct o as [c|e|]; [|split; [reflexivity | exact Hs1]|split; [reflexivity | exact Hs1]].
  destruct c as [|x t]; [split; [reflexivity | exact Hs1]|].
  rewrite (format_name_r_spec w1 Hs1). fold (cw_format_name w1).
  destruct (cw_format_name w1) as [[nm|]|e]; try (split; [reflexivity | exact Hs1]).
  destruct (IH cs w1 s1 Hs1) as [He Hs2]. rewrite He.
  destruct (detect_loop istate eat finish complete cmatch gen_shape raw_lit_nonraw raw_lit_raw k cs w1 s1) as [[[w2 s2] tr2] r2] eqn:Hd.
  split; [reflexivity|]. rewrite He in Hs2. exact Hs2.
Qed.

Theorem detect_r_spec data : detect_r data = cw_detect data.
Proof.
  unfold detect_r, cw_detect, detect_file_format. fold (cw_new None []).
  assert (Hs : slots_ok reachable (w_slots (cw_new None []))) by (apply new_slots_ok; exact reachable_init).
  destruct (detect_loop_r_spec (S (length data)) detect_chunk_size (cw_new None []) {| f_data := data; f_pos := 0; f_closed := false |} Hs) as [He Hs1].
  rewrite He in *.
  destruct (detect_loop istate eat finish complete cmatch gen_shape raw_lit_nonraw raw_lit_raw (S (length data)) detect_chunk_size
              (cw_new None []) {| f_data := data; f_pos := 0; f_closed := false |}) as [[[w1 s1] tr] r].
  cbn [fst] in Hs1. cbn [w_close_f]. destruct r as [r'|]; [reflexivity|].
  rewrite format_name_r_spec; [reflexivity|]. cbn [finish_all w_slots]. unfold slots_ok in *. rewrite Forall_map.
  eapply Forall_impl; [|exact Hs1]. intros s0 H0. cbn [finish_slot s_insp]. apply reachable_finish. exact H0.
Qed.

Theorem detect_total data :
  let '(w, s, tr, r) := detect_r data in
  ((exists nm, r = Ok (Some nm)) \/ r = Exn ImageFormatError) /\ f_closed s = true /\ w_finished w = true /\ f_data s = data.
Proof.
  rewrite detect_r_spec. unfold cw_detect.
  exact (detect_file_format_total istate eat finish complete cmatch gen_shape gen_shape_ok raw_lit_nonraw raw_lit_raw
           detect_chunk_size factory data detect_chunk_size_pos).
Qed.

(* ------------------------------------------------------------------ C01: the wrapper verdict is a function of the content *)
(* the slot of a static inspector after read-through and close: built from the content alone *)
Definition spec_slot (b : bytes) (f : fmt_id) : cslot := {| s_name := fmt_name f; s_insp := spec_state f b; s_err := false |}.
Definition spec_wrapper (expected : option str) (allowed : list str) (b : bytes) : cwrapper :=
  {| w_slots := map (spec_slot b) (allowed_fmts allowed); w_expected := expected; w_finished := true |}.

Lemma slot_closed_static cs f : is_static f = true -> slot_closed cs f = spec_slot (concat cs) f.
Proof. intros Hs. unfold slot_closed, spec_slot. rewrite (static_inspector_refines_spec_state f cs Hs). reflexivity. Qed.

Theorem wrapper_static_slots expected allowed cs w f :
  read_and_closed expected allowed cs w -> is_static f = true -> allowed_key allowed (fmt_name f) = true ->
  In (spec_slot (concat cs) f) (w_slots w).
Proof.
  intros Hrc Hs Ha. rewrite (read_and_closed_is _ _ _ _ Hrc), <- (slot_closed_static cs f Hs). apply closed_slot_in. exact Ha.
Qed.

Theorem wrapper_verdict expected allowed cs w :
  read_and_closed expected allowed cs w -> forallb is_static (allowed_fmts allowed) = true ->
  w = spec_wrapper expected allowed (concat cs).
Proof.
  intros Hrc Hall. rewrite (read_and_closed_is _ _ _ _ Hrc). unfold closed_wrapper, spec_wrapper. f_equal.
  apply map_ext_in. intros f Hf. apply slot_closed_static. rewrite forallb_forall in Hall. apply Hall. exact Hf.
Qed.

Corollary wrapper_verdict_chunking expected allowed cs1 cs2 w1 w2 :
  read_and_closed expected allowed cs1 w1 -> read_and_closed expected allowed cs2 w2 ->
  forallb is_static (allowed_fmts allowed) = true -> concat cs1 = concat cs2 ->
  w1 = w2 /\ cw_format w1 = cw_format w2 /\ cw_formats w1 = cw_formats w2.
Proof.
  intros H1 H2 Hall Hc. rewrite (wrapper_verdict _ _ _ _ H1 Hall), (wrapper_verdict _ _ _ _ H2 Hall), Hc. auto.
Qed.

(* ------------------------------------------------------------------ file-like sources: contents x read sizes *)
Lemma w_run_stop_all : forall l (w w' : cwrapper) tr cs unused,
  cw_run_stop w (map InChunk l) = (w', tr, cs, None, unused) -> cs = l.
Proof.
  unfold cw_run_stop. induction l as [|a l IH]; intros w w' tr cs unused H; cbn [map] in H.
  - cbn in H. inversion H. reflexivity.
  - rewrite w_run_stop_cons in H.
    destruct (w_step istate eat finish complete cmatch gen_shape w (InChunk a)) as [[w1 tr1] o] eqn:Hs.
    pose proof (w_step_identity istate eat finish complete cmatch gen_shape _ _ _ _ _ Hs) as Hid.
    destruct o as [c|e|]; [|discriminate|discriminate].
    inversion Hid; subst c.
    destruct (w_run_stop istate eat finish complete cmatch gen_shape w1 (map InChunk l)) as [[[[w2 tr2] cs2] stop2] un2] eqn:Hr.
    inversion H; subst. f_equal. eapply IH. exact Hr.
Qed.

(* a reader calling read(size) for each size in turn on a file with the given content, no call raising:
   this is a read-through of the chunk list [delivered], whose concatenation is the part of the file read *)
Theorem file_reads_through expected allowed data sizes w' s' tr delivered :
  cw_run_reads (cw_new expected allowed) {| f_data := data; f_pos := 0; f_closed := false |} sizes = (w', s', tr, delivered, None) ->
  read_so_far expected allowed delivered w' /\ concat delivered = bsub 0 (f_pos s') data.
Proof.
  intros H. unfold cw_run_reads in H.
  set (s0 := {| f_data := data; f_pos := 0; f_closed := false |}) in *.
  destruct (run_reads_stop istate eat finish complete cmatch gen_shape sizes (cw_new expected allowed) s0 eq_refl _ _ _ _ _ H) as (un & Hs).
  pose proof (w_run_stop_all _ _ _ _ _ _ Hs) as Hd.
  split.
  - exists tr, un. unfold cw_run_stop. rewrite Hd. rewrite Hd in Hs. exact Hs.
  - destruct (reads_are_identity_file istate eat finish complete cmatch gen_shape _ _ _ _ _ _ _ _ H) as (_ & _ & Hc).
    cbn [f_pos f_data s0] in Hc. rewrite app_nil_r in Hc. exact Hc.
Qed.

(* a decision reported BEFORE close already carries the signature of the bytes read so far *)
Theorem early_format_implies_signature expected allowed cs w m f :
  read_so_far expected allowed cs w -> cw_format w = Ok (Some m) -> s_name m = fmt_name f -> f <> F_raw ->
  sigb f (concat cs) = true.
Proof.
  intros Hrs Hf Hn Hnr.
  destruct (decision_stable expected allowed cs w m Hrs Hf) as [_ Hclose].
  assert (Hrc : read_and_closed expected allowed (cs ++ []) (cw_close w)).
  { rewrite app_nil_r. destruct Hrs as (tr & un & H). exists w, tr, un. auto. }
  destruct (Hclose [] _ Hrc) as (m3 & Hf3 & Hn3).
  rewrite <- (app_nil_r cs). eapply format_implies_signature; [exact Hrc | exact Hf3 | congruence | exact Hnr].
Qed.
