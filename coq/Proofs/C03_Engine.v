(* Proofs/C03_Engine.v — further lemmas about the capture engine (Model/Insp_Engine.v) needed by C03:
   a generic preservation principle for eat_chunk, regions that keep their place, fresh region
   identities, the "quiescent" step (a complete inspector whose post_process has settled is not
   changed by further chunks), and what the last post_process call of a successful eat_chunk saw. *)
Require Import OV.Base.Bytes OV.Base.Py OV.Base.Insp_Struct OV.Gen.Insp_Consts OV.Model.Insp_Engine.
Require Import OV.Proofs.Insp_Engine OV.Proofs.Insp_Static.
Open Scope N_scope.

(* ------------------------------------------------------------------ preservation through eat_chunk *)
Section Pres.
Context {X : Type}.
Variable F : fmt X.
Variable c : bytes.
(* P0 before the call, P from the first capture on (the chunk [c] is fixed) *)
Variables P0 P : ist X -> Prop.
Hypothesis Pfirst : forall s, P0 s -> i_fin s = false ->
  P (set_regs (set_pos s (i_pos s + flen c)) (capture_regs [] c (i_pos s + flen c) (i_regs s))).
Hypothesis Pfinished : forall s, P0 s -> i_fin s = true -> P (set_pos s (i_pos s + flen c)).
Hypothesis Pcap : forall s only, P s -> i_fin s = false -> P (set_regs s (capture_regs only c (i_pos s) (i_regs s))).
Hypothesis Ppost : forall s s' e, P s -> f_post F s = (s', e) -> P s'.
Hypothesis Prc : forall n s s' e, P s -> f_rcomplete F n s = (s', e) -> P s'.

Lemma pres_do_capture only s s' e : P s -> do_capture only c s = (s', e) -> P s'.
Proof. unfold do_capture. intros HP H. destruct (i_fin s) eqn:Hf; inversion H; subst; auto. Qed.

Lemma pres_settle : forall fuel known s s' e, P s -> settle fuel F c known s = (s', e) -> P s'.
Proof.
  induction fuel as [|fuel IH]; intros known s s' e HP H; cbn [settle] in H.
  - destruct (new_names known (i_regs s)); inversion H; subst; exact HP.
  - destruct (new_names known (i_regs s)) as [|n0 new]; [inversion H; subst; exact HP|].
    destruct (do_capture (n0 :: new) c s) as [s1 [e1|]] eqn:Hc.
    + inversion H; subst. eapply pres_do_capture; eauto.
    + pose proof (pres_do_capture _ _ _ _ HP Hc) as HP1.
      destruct (f_post F s1) as [s2 [e2|]] eqn:Hp.
      * inversion H; subst. eapply Ppost; eauto.
      * eapply IH; [|exact H]. eapply Ppost; eauto.
Qed.

Lemma pres_callbacks : forall names s s' e, P s -> run_callbacks F names s = (s', e) -> P s'.
Proof.
  induction names as [|n t IH]; intros s s' e HP H; cbn [run_callbacks] in H.
  - inversion H; subst; exact HP.
  - destruct (f_rcomplete F n s) as [s1 [e1|]] eqn:Hc.
    + inversion H; subst. eapply Prc; eauto.
    + eapply IH; [|exact H]. eapply Prc; eauto.
Qed.

Theorem pres_eat_chunk s s' e : P0 s -> eat_chunk F s c = (s', e) -> P s'.
Proof.
  intros H0 He. unfold eat_chunk, do_capture in He. cbn [set_pos i_fin i_regs i_pos] in He.
  destruct (i_fin s) eqn:Hfin.
  - inversion He; subst. apply Pfinished; assumption.
  - pose proof (Pfirst s H0 Hfin) as H1.
    set (s1 := set_regs (set_pos s (i_pos s + flen c)) (capture_regs [] c (i_pos s + flen c) (i_regs s))) in *.
    destruct (f_post F s1) as [s2 [e2|]] eqn:Hp.
    + inversion He; subst. eapply Ppost; eauto.
    + pose proof (Ppost _ _ _ H1 Hp) as H2.
      destruct (settle eat_fuel F c (ids (i_regs s)) s2) as [s3 [e3|]] eqn:Hs.
      * inversion He; subst. eapply pres_settle; eauto.
      * eapply pres_callbacks; [|exact He]. eapply pres_settle; eauto.
Qed.
(* the state the last post_process call of a successful eat_chunk was made on satisfies P *)
Lemma settle_last_P : forall fuel known (s s' : ist X),
  P s -> settle fuel F c known s = (s', None) ->
  (s' = s /\ new_names known (i_regs s) = []) \/
  (exists sa, P sa /\ f_post F sa = (s', None) /\ new_names (ids (i_regs sa)) (i_regs s') = []).
Proof.
  induction fuel as [|fuel IH]; intros known s s' HP H; cbn [settle] in H.
  - destruct (new_names known (i_regs s)) eqn:Hn; inversion H; subst. left. auto.
  - destruct (new_names known (i_regs s)) as [|n0 new] eqn:Hn; [inversion H; subst; left; auto|].
    destruct (do_capture (n0 :: new) c s) as [s1 [e1|]] eqn:Hc; [discriminate|].
    pose proof (pres_do_capture _ _ _ _ HP Hc) as HP1.
    destruct (f_post F s1) as [s2 [e2|]] eqn:Hp; [discriminate|].
    pose proof (Ppost _ _ _ HP1 Hp) as HP2.
    destruct (IH _ _ _ HP2 H) as [[-> Hnn]|Hr].
    + right. exists s1. auto.
    + right. exact Hr.
Qed.

Theorem eat_last_post_P s s' :
  P0 s -> eat_chunk F s c = (s', None) ->
  exists sa s3 names, P sa /\ f_post F sa = (s3, None) /\ new_names (ids (i_regs sa)) (i_regs s3) = [] /\
                      run_callbacks F names s3 = (s', None) /\ i_fin s = false.
Proof.
  intros H0 He. unfold eat_chunk, do_capture in He. cbn [set_pos i_fin i_regs i_pos] in He.
  destruct (i_fin s) eqn:Hfin; [discriminate|].
  pose proof (Pfirst s H0 Hfin) as H1.
  set (s1 := set_regs (set_pos s (i_pos s + flen c)) (capture_regs [] c (i_pos s + flen c) (i_regs s))) in *.
  destruct (f_post F s1) as [s2 [e2|]] eqn:Hp; [discriminate|].
  pose proof (Ppost _ _ _ H1 Hp) as H2.
  destruct (settle eat_fuel F c (ids (i_regs s)) s2) as [s3 [e3|]] eqn:Hs; [discriminate|].
  destruct (settle_last_P _ _ _ _ H2 Hs) as [[-> Hnn]|(sa & HPa & Hpa & Hna)].
  - exists s1, s2, (newly_complete (complete_ids (i_regs s)) (i_regs s2)). repeat split; auto.
    subst s1. cbn [set_regs i_regs]. rewrite capture_regs_ids. exact Hnn.
  - exists sa, s3, (newly_complete (complete_ids (i_regs s)) (i_regs s3)). repeat split; auto.
Qed.
End Pres.

(* the common case: one predicate on states, any chunk *)
Section PresSimple.
Context {X : Type}.
Variable F : fmt X.
Variable P : ist X -> Prop.
Hypothesis Ppos : forall s p, P s -> P (set_pos s p).
Hypothesis Pcap : forall s only c pos, P s -> P (set_regs s (capture_regs only c pos (i_regs s))).
Hypothesis Ppost : forall s s' e, P s -> f_post F s = (s', e) -> P s'.
Hypothesis Prc : forall n s s' e, P s -> f_rcomplete F n s = (s', e) -> P s'.
Hypothesis Pfin : forall s, P s -> P (finish s).

Theorem pres_eat_chunk_simple s c s' e : P s -> eat_chunk F s c = (s', e) -> P s'.
Proof.
  apply (pres_eat_chunk F c P P).
  - intros s0 H _.
    assert (Hq : set_regs (set_pos s0 (i_pos s0 + flen c)) (capture_regs [] c (i_pos s0 + flen c) (i_regs s0))
                 = set_pos (set_regs s0 (capture_regs [] c (i_pos s0 + flen c) (i_regs s0))) (i_pos s0 + flen c))
      by (destruct s0; reflexivity).
    rewrite Hq. apply Ppos. apply Pcap. exact H.
  - intros s0 H _. apply Ppos. exact H.
  - intros s0 only H _. apply Pcap. exact H.
  - exact Ppost.
  - exact Prc.
Qed.

Theorem reach_pres st s : P (init_ist F) -> reach F st s -> P s.
Proof.
  intros Hi Hr. induction Hr as [|st s c s' e Hr IH He|st s Hr IH].
  - exact Hi.
  - eapply pres_eat_chunk_simple; eauto.
  - apply Pfin. exact IH.
Qed.
End PresSimple.

(* ------------------------------------------------------------------ looking a region up after the engine's steps *)
Lemma rget_capture only c pos l n :
  rget n (capture_regs only c pos l) = option_map (fun r => snd (cap1 only c pos (n, r))) (rget n l).
Proof.
  induction l as [|[k r] t IH]; [reflexivity|].
  rewrite capture_regs_map. cbn [map]. rewrite <- capture_regs_map.
  assert (Hk : fst (cap1 only c pos (k, r)) = k) by apply cap1_fst.
  destruct (cap1 only c pos (k, r)) as [k' r'] eqn:Hc. cbn [fst] in Hk. subst k'.
  cbn [rget]. destruct (rname_beq k n) eqn:Hb.
  - apply rname_beq_eq in Hb. subst. cbn [option_map]. rewrite Hc. reflexivity.
  - exact IH.
Qed.

Lemma rget_app_some n l l' r : rget n l = Some r -> rget n (l ++ l') = Some r.
Proof.
  induction l as [|[k r0] t IH]; cbn [rget app]; [discriminate|].
  destruct (rname_beq k n); [intros H; exact H | exact IH].
Qed.
Lemma rget_app_none n l l' : rget n l = None -> rget n (l ++ l') = rget n l'.
Proof.
  induction l as [|[k r0] t IH]; cbn [rget app]; [reflexivity|].
  destruct (rname_beq k n); [discriminate | exact IH].
Qed.
Lemma rget_rset_other n m r' l : n <> m -> rget n (rset m r' l) = rget n l.
Proof.
  intros Hne. induction l as [|[k r0] t IH]; cbn [rget rset]; [reflexivity|].
  destruct (rname_beq k m) eqn:Hm; cbn [rget].
  - apply rname_beq_eq in Hm. subst k. destruct (rname_beq m n) eqn:Hn; [|reflexivity].
    apply rname_beq_eq in Hn. congruence.
  - destruct (rname_beq k n); [reflexivity | exact IH].
Qed.
Lemma rget_rset_same n r' l r : rget n l = Some r -> rget n (rset n r' l) = Some r'.
Proof.
  induction l as [|[k r0] t IH]; cbn [rget rset]; [discriminate|].
  destruct (rname_beq k n) eqn:Hn; cbn [rget]; rewrite Hn; [reflexivity | exact IH].
Qed.
Lemma rget_rdel_other n m l : n <> m -> rget n (rdel m l) = rget n l.
Proof.
  intros Hne. induction l as [|[k r0] t IH]; cbn [rget rdel]; [reflexivity|].
  destruct (rname_beq k m) eqn:Hm.
  - apply rname_beq_eq in Hm. subst k. destruct (rname_beq m n) eqn:Hn; [|reflexivity].
    apply rname_beq_eq in Hn. congruence.
  - cbn [rget]. destruct (rname_beq k n); [reflexivity | exact IH].
Qed.
Lemma rget_rdel_same n l : NoDup (map fst l) -> rget n (rdel n l) = None.
Proof.
  induction l as [|[k r0] t IH]; cbn [rget rdel map fst]; [reflexivity|]. intros Hnd.
  inversion Hnd as [|? ? Hnin Hnd']; subst.
  destruct (rname_beq k n) eqn:Hn.
  - apply rname_beq_eq in Hn. subst k. destruct (rget n t) eqn:Hg; [|reflexivity].
    exfalso. apply Hnin. apply rget_Some_In in Hg. apply (in_map fst) in Hg. exact Hg.
  - cbn [rget]. rewrite Hn. apply IH. exact Hnd'.
Qed.
Lemma rget_finish n l :
  rget n (map (fun p : rname * region => (fst p, if r_end (snd p) then set_fin (snd p) true else snd p)) l)
  = option_map (fun r => if r_end r then set_fin r true else r) (rget n l).
Proof.
  induction l as [|[k r0] t IH]; [reflexivity|]. cbn [map fst snd rget].
  destruct (rname_beq k n); [reflexivity | exact IH].
Qed.

(* a fixed region keeps everything but its data under capture *)
Lemma cap1_fixed only c pos n r : r_end r = false ->
  let r' := snd (cap1 only c pos (n, r)) in
  r_end r' = false /\ r_off r' = r_off r /\ r_len r' = r_len r /\ r_min r' = r_min r /\ r_fin r' = r_fin r /\ r_id r' = r_id r.
Proof.
  intros He. cbv zeta. unfold cap1.
  destruct (match only with [] => false | _ :: _ => negb (mem_rname n only) end); [cbn [snd]; repeat split; auto|].
  destruct (r_end r || negb (rcomplete r)); cbn [snd]; [|repeat split; auto].
  unfold rcapture. rewrite He. unfold cap_fixed. cbv zeta.
  match goal with |- context [if ?b then _ else _] => destruct b end;
    cbn [set_data r_end r_off r_len r_min r_fin r_id]; repeat split; auto.
Qed.

(* a complete fixed region is not touched by capture *)
Lemma cap1_complete only c pos n r : r_end r = false -> rcomplete r = true -> cap1 only c pos (n, r) = (n, r).
Proof.
  intros He Hc. unfold cap1. destruct (match only with [] => false | _ :: _ => negb (mem_rname n only) end); [reflexivity|].
  rewrite He, Hc. reflexivity.
Qed.

(* ------------------------------------------------------------------ a region that keeps its place *)
(* region [n] exists, is a plain CaptureRegion at [off] with length [len] and min_length [mn] *)
Definition has_fixed (n : rname) (off len : N) (mn : option N) (l : regions) : Prop :=
  exists r, rget n l = Some r /\ r_end r = false /\ r_off r = off /\ r_len r = len /\ r_min r = mn.

Lemma has_fixed_capture n off len mn only c pos l :
  has_fixed n off len mn l -> has_fixed n off len mn (capture_regs only c pos l).
Proof.
  intros (r & Hg & He & Ho & Hl & Hm). unfold has_fixed. rewrite rget_capture, Hg. cbn [option_map].
  destruct (cap1_fixed only c pos n r He) as (H1 & H2 & H3 & H4 & _).
  eexists. split; [reflexivity|]. repeat split; congruence.
Qed.

Lemma has_fixed_new_region {X} n off len mn m sp (s s' : ist X) e :
  has_fixed n off len mn (i_regs s) -> new_region m sp s = (s', e) -> has_fixed n off len mn (i_regs s').
Proof.
  intros H Hn. unfold new_region in Hn. destruct (has_region m s); inversion Hn; subst; [exact H|].
  cbn [i_regs]. destruct H as (r & Hg & Hr). exists r. split; [apply rget_app_some; exact Hg | exact Hr].
Qed.

Lemma has_fixed_finish {X} n off len mn (s : ist X) :
  has_fixed n off len mn (i_regs s) -> has_fixed n off len mn (i_regs (finish s)).
Proof.
  intros (r & Hg & He & Hr). unfold has_fixed, finish. cbn [i_regs]. rewrite rget_finish, Hg. cbn [option_map]. rewrite He.
  exists r. auto.
Qed.

(* ------------------------------------------------------------------ region identities are fresh *)
Definition ids_lt {X} (s : ist X) : Prop := forall id, In id (ids (i_regs s)) -> (id < i_next s)%nat.

Lemma ids_lt_capture {X} (s : ist X) only c pos : ids_lt s -> ids_lt (set_regs s (capture_regs only c pos (i_regs s))).
Proof. unfold ids_lt. cbn [set_regs i_regs i_next]. rewrite capture_regs_ids. auto. Qed.
Lemma ids_lt_pos {X} (s : ist X) p : ids_lt s -> ids_lt (set_pos s p).
Proof. unfold ids_lt. cbn [set_pos i_regs i_next]. auto. Qed.
Lemma ids_lt_ext {X} (s : ist X) x : ids_lt s -> ids_lt (set_ext s x).
Proof. unfold ids_lt. cbn [set_ext i_regs i_next]. auto. Qed.
Lemma ids_lt_new_region {X} n sp (s s' : ist X) e : ids_lt s -> new_region n sp s = (s', e) -> ids_lt s'.
Proof.
  intros H Hn. unfold new_region in Hn. destruct (has_region n s); inversion Hn; subst; [exact H|].
  unfold ids_lt, ids in *. cbn [i_regs i_next]. intros id Hin. rewrite map_app in Hin. apply in_app_or in Hin.
  destruct Hin as [Hin|[<-|[]]]; [specialize (H id Hin); lia | cbn; lia].
Qed.
Lemma ids_rdel_incl n l id : In id (ids (rdel n l)) -> In id (ids l).
Proof.
  unfold ids. intros H. apply in_map_iff in H. destruct H as (p & <- & Hp). apply rdel_In in Hp.
  apply in_map_iff. exists p. auto.
Qed.
Lemma ids_lt_delete_region {X} n (s s' : ist X) e : ids_lt s -> delete_region n s = (s', e) -> ids_lt s'.
Proof.
  intros H Hd. unfold delete_region in Hd. destruct (has_region n s); inversion Hd; subst; [|exact H].
  unfold ids_lt in *. cbn [set_regs i_regs i_next]. intros id Hin. apply H. eapply ids_rdel_incl; exact Hin.
Qed.
Lemma ids_lt_add_check {X} k (s s' : ist X) e : ids_lt s -> add_check k s = (s', e) -> ids_lt s'.
Proof. intros H Ha. unfold add_check in Ha. destruct (mem_cname k (i_checks s)); inversion Ha; subst; exact H. Qed.
Lemma ids_lt_rset {X} (s : ist X) n m m' :
  ids_lt s -> rget n (i_regs s) = Some m -> r_id m' = r_id m -> ids_lt (set_regs s (rset n m' (i_regs s))).
Proof. unfold ids_lt. cbn [set_regs i_regs i_next]. intros H Hg Hi. rewrite (rset_ids _ _ _ _ Hg Hi). exact H. Qed.
Lemma ids_lt_finish {X} (s : ist X) : ids_lt s -> ids_lt (finish s).
Proof.
  unfold ids_lt, finish, ids. cbn [i_regs i_next]. intros H id Hin. apply H. rewrite map_map in Hin.
  apply in_map_iff in Hin. destruct Hin as (p & <- & Hp). apply in_map_iff. exists p. split; [|exact Hp].
  cbn [snd]. destruct (r_end (snd p)); reflexivity.
Qed.
Lemma ids_lt_init {X} (F : fmt X) : ids_lt (init_ist F).
Proof.
  unfold ids_lt, init_ist. cbn [i_regs i_next].
  assert (G : forall l k id, In id (ids (init_regs k l)) -> (k <= id < k + length l)%nat).
  { induction l as [|[n sp] t IH]; intros k id; cbn [init_regs ids map snd length]; [intros []|].
    cbn [region_of_spec r_id]. intros [<-|Hin]; [lia|]. apply IH in Hin. lia. }
  intros id Hin. apply G in Hin. lia.
Qed.

(* a region created now is new with respect to the identities that existed *)
Lemma new_region_is_new {X} n sp (s s' : ist X) :
  ids_lt s -> has_region n s = false -> new_region n sp s = (s', None) ->
  new_names (ids (i_regs s)) (i_regs s') <> [].
Proof.
  intros Hlt Hh Hn. unfold new_region in Hn. rewrite Hh in Hn. inversion Hn; subst. cbn [i_regs].
  intros Hnil. assert (Hin : In n (new_names (ids (i_regs s)) (i_regs s ++ [(n, region_of_spec (i_next s) sp)]))).
  { apply new_names_In. exists (region_of_spec (i_next s) sp). split; [apply in_or_app; right; left; reflexivity|].
    cbn [region_of_spec r_id]. intros Hin. specialize (Hlt _ Hin). lia. }
  rewrite Hnil in Hin. exact Hin.
Qed.

(* ------------------------------------------------------------------ well-formed dictionaries: fresh identities, unique names *)
Definition wf {X} (s : ist X) : Prop := ids_lt s /\ NoDup (map fst (i_regs s)).

Lemma wf_pos {X} (s : ist X) p : wf s -> wf (set_pos s p).
Proof. intros [H1 H2]. split; [apply ids_lt_pos; exact H1 | exact H2]. Qed.
Lemma wf_ext {X} (s : ist X) x : wf s -> wf (set_ext s x).
Proof. intros [H1 H2]. split; [apply ids_lt_ext; exact H1 | exact H2]. Qed.
Lemma wf_capture {X} (s : ist X) only c pos : wf s -> wf (set_regs s (capture_regs only c pos (i_regs s))).
Proof. intros [H1 H2]. split; [apply ids_lt_capture; exact H1 | cbn [set_regs i_regs]; rewrite capture_regs_names; exact H2]. Qed.
Lemma wf_new_region {X} n sp (s s' : ist X) e : wf s -> new_region n sp s = (s', e) -> wf s'.
Proof.
  intros [H1 H2] Hn. split; [eapply ids_lt_new_region; eauto|].
  unfold new_region, has_region, rhas in Hn. destruct (rget n (i_regs s)) eqn:Hg; inversion Hn; subst; [exact H2|].
  cbn [i_regs]. rewrite map_app. cbn [map fst]. apply NoDup_snoc; [exact H2 | apply rget_None_notin; exact Hg].
Qed.
Lemma wf_delete_region {X} n (s s' : ist X) e : wf s -> delete_region n s = (s', e) -> wf s'.
Proof.
  intros [H1 H2] Hd. split; [eapply ids_lt_delete_region; eauto|].
  unfold delete_region in Hd. destruct (has_region n s); inversion Hd; subst; [|exact H2].
  cbn [set_regs i_regs]. apply rdel_NoDup. exact H2.
Qed.
Lemma wf_add_check {X} k (s s' : ist X) e : wf s -> add_check k s = (s', e) -> wf s'.
Proof. intros H Ha. unfold add_check in Ha. destruct (mem_cname k (i_checks s)); inversion Ha; subst; exact H. Qed.
Lemma wf_rset {X} (s : ist X) n m m' :
  wf s -> rget n (i_regs s) = Some m -> r_id m' = r_id m -> wf (set_regs s (rset n m' (i_regs s))).
Proof. intros [H1 H2] Hg Hi. split; [eapply ids_lt_rset; eauto | cbn [set_regs i_regs]; rewrite rset_names; exact H2]. Qed.
Lemma wf_finish {X} (s : ist X) : wf s -> wf (finish s).
Proof. intros [H1 H2]. split; [apply ids_lt_finish; exact H1 | unfold finish; cbn [i_regs]; rewrite map_map; exact H2]. Qed.

Lemma init_regs_names k l : map fst (init_regs k l) = map fst l.
Proof. revert k. induction l as [|[n sp] t IH]; intros k; cbn [init_regs map fst]; [reflexivity|]. rewrite IH. reflexivity. Qed.
Lemma wf_init {X} (F : fmt X) : NoDup (map fst (init_regions (f_id F))) -> wf (init_ist F).
Proof. intros H. split; [apply ids_lt_init|]. unfold init_ist. cbn [i_regs]. rewrite init_regs_names. exact H. Qed.

(* a region whose identity is not below [k] is new with respect to identities below [k] *)
Definition fresh_in (k : nat) (l : regions) : Prop := exists p, In p l /\ (k <= r_id (snd p))%nat.
Lemma fresh_new_names known k l : (forall id, In id known -> (id < k)%nat) -> fresh_in k l -> new_names known l <> [].
Proof.
  intros Hk ([n r] & Hin & Hid) Hnil. cbn [snd] in Hid.
  assert (H : In n (new_names known l)).
  { apply new_names_In. exists r. split; [exact Hin|]. intros Hi. specialize (Hk _ Hi). lia. }
  rewrite Hnil in H. exact H.
Qed.

Lemma new_region_none {X} n sp (s s' : ist X) : new_region n sp s = (s', None) ->
  i_regs s' = i_regs s ++ [(n, region_of_spec (i_next s) sp)] /\ i_next s' = S (i_next s).
Proof. unfold new_region. destruct (has_region n s); intros H; inversion H; subst. split; reflexivity. Qed.
Lemma add_check_none {X} k (s s' : ist X) : add_check k s = (s', None) -> i_regs s' = i_regs s /\ i_next s' = i_next s.
Proof. unfold add_check. destruct (mem_cname k (i_checks s)); intros H; inversion H; subst. split; reflexivity. Qed.
Lemma delete_region_none {X} n (s s' : ist X) : delete_region n s = (s', None) ->
  i_regs s' = rdel n (i_regs s) /\ i_next s' = i_next s.
Proof. unfold delete_region. destruct (has_region n s); intros H; inversion H; subst. split; reflexivity. Qed.

(* ------------------------------------------------------------------ the quiescent step *)
Lemma capture_noop only c pos l :
  (forall p, In p l -> r_end (snd p) = false /\ rcomplete (snd p) = true) -> capture_regs only c pos l = l.
Proof.
  intros H. rewrite capture_regs_map. induction l as [|[n r] t IH]; [reflexivity|]. cbn [map].
  destruct (H (n, r) (or_introl eq_refl)) as [He Hc]. cbn [snd] in *.
  rewrite (cap1_complete only c pos n r He Hc). f_equal. apply IH. intros p Hp. apply H. right. exact Hp.
Qed.

Lemma newly_complete_nil l : newly_complete (complete_ids l) l = [].
Proof.
  unfold newly_complete, complete_ids.
  set (known := ids (filter (fun p : rname * region => rcomplete (snd p)) l)).
  assert (G : forall l0 : regions,
              (forall p, In p l0 -> rcomplete (snd p) = true -> In (r_id (snd p)) known) ->
              filter (fun p : rname * region => rcomplete (snd p) && negb (mem_nat (r_id (snd p)) known)) l0 = []).
  { induction l0 as [|p t IH]; intros H; [reflexivity|]. cbn [filter].
    destruct (rcomplete (snd p)) eqn:Hc; cbn [andb].
    - assert (Hm : mem_nat (r_id (snd p)) known = true).
      { apply mem_nat_In. apply H; [left; reflexivity | exact Hc]. }
      rewrite Hm. cbn [negb]. apply IH. intros q Hq. apply H. right. exact Hq.
    - apply IH. intros q Hq. apply H. right. exact Hq. }
  rewrite G; [reflexivity|]. intros p Hp Hc. subst known. unfold ids. apply in_map_iff. exists p. split; [reflexivity|].
  apply filter_In. auto.
Qed.

Lemma set_regs_same {X} (s : ist X) : set_regs s (i_regs s) = s.
Proof. destruct s; reflexivity. Qed.

(* an inspector that is complete, has no EndCaptureRegion, is not finished and whose post_process
   changes nothing, is left as it is by any chunk (only the position advances), without exception *)
Theorem eat_quiescent {X} (F : fmt X) (s : ist X) c :
  i_fin s = false -> complete s = true -> (forall p, In p (i_regs s) -> r_end (snd p) = false) ->
  f_post F (set_pos s (i_pos s + flen c)) = (set_pos s (i_pos s + flen c), None) ->
  eat_chunk F s c = (set_pos s (i_pos s + flen c), None).
Proof.
  intros Hfin Hc Hend Hpost. unfold eat_chunk, do_capture. cbn [set_pos i_fin i_regs i_pos]. rewrite Hfin.
  assert (Hall : forall p, In p (i_regs s) -> r_end (snd p) = false /\ rcomplete (snd p) = true).
  { intros p Hp. split; [apply Hend; exact Hp|]. unfold complete in Hc. rewrite forallb_forall in Hc. apply Hc. exact Hp. }
  rewrite (capture_noop [] c _ _ Hall).
  replace (set_regs (set_pos s (i_pos s + flen c)) (i_regs s))
    with (set_pos s (i_pos s + flen c)) by (destruct s; reflexivity).
  rewrite Hpost. unfold eat_fuel. cbn [settle set_pos i_regs].
  rewrite new_names_nil; [|intros p Hp; unfold ids; apply in_map_iff; exists p; auto].
  rewrite newly_complete_nil. reflexivity.
Qed.

(* a finished inspector refuses every chunk; only its position moves *)
Lemma eat_finished {X} (F : fmt X) (s : ist X) c :
  i_fin s = true -> eat_chunk F s c = (set_pos s (i_pos s + flen c), Some RuntimeError).
Proof. intros H. unfold eat_chunk, do_capture. cbn [set_pos i_fin]. rewrite H. reflexivity. Qed.

(* ------------------------------------------------------------------ the last post_process of a successful eat_chunk *)
Lemma settle_last {X} (F : fmt X) c : forall fuel known (s s' : ist X),
  settle fuel F c known s = (s', None) ->
  (s' = s /\ new_names known (i_regs s) = []) \/
  (exists sa, f_post F sa = (s', None) /\ new_names (ids (i_regs sa)) (i_regs s') = []).
Proof.
  induction fuel as [|fuel IH]; intros known s s' H; cbn [settle] in H.
  - destruct (new_names known (i_regs s)) eqn:Hn; inversion H; subst. left. auto.
  - destruct (new_names known (i_regs s)) as [|n0 new] eqn:Hn; [inversion H; subst; left; auto|].
    destruct (do_capture (n0 :: new) c s) as [s1 [e1|]] eqn:Hc; [discriminate|].
    destruct (f_post F s1) as [s2 [e2|]] eqn:Hp; [discriminate|].
    destruct (IH _ _ _ H) as [[-> Hnn]|Hr].
    + right. exists s1. auto.
    + right. exact Hr.
Qed.

(* eat_chunk returned normally: the state before the region_complete callbacks is the result of a
   post_process call that created no region *)
Theorem eat_last_post {X} (F : fmt X) (s s' : ist X) c :
  eat_chunk F s c = (s', None) ->
  exists sa s3 names, f_post F sa = (s3, None) /\ new_names (ids (i_regs sa)) (i_regs s3) = [] /\
                      run_callbacks F names s3 = (s', None) /\ i_fin s = false.
Proof.
  intros He. unfold eat_chunk, do_capture in He. cbn [set_pos i_fin i_regs i_pos] in He.
  destruct (i_fin s) eqn:Hfin; [discriminate|].
  set (s1 := set_regs _ _) in He.
  destruct (f_post F s1) as [s2 [e2|]] eqn:Hp; [discriminate|].
  destruct (settle eat_fuel F c (ids (i_regs s)) s2) as [s3 [e3|]] eqn:Hs; [discriminate|].
  destruct (settle_last F c _ _ _ _ Hs) as [[-> Hnn]|(sa & Hpa & Hna)].
  - exists s1, s2, (newly_complete (complete_ids (i_regs s)) (i_regs s2)). repeat split; auto.
    subst s1. cbn [set_regs i_regs]. rewrite capture_regs_ids. exact Hnn.
  - exists sa, s3, (newly_complete (complete_ids (i_regs s)) (i_regs s3)). repeat split; auto.
Qed.

(* callbacks that only touch the format's private attributes *)
Definition ext_only {X} (F : fmt X) : Prop :=
  forall n s s' e, f_rcomplete F n s = (s', e) -> exists x, s' = set_ext s x.

Lemma callbacks_ext_only {X} (F : fmt X) : ext_only F ->
  forall names s s' e, run_callbacks F names s = (s', e) -> exists x, s' = set_ext s x.
Proof.
  intros HF. induction names as [|n t IH]; intros s s' e H; cbn [run_callbacks] in H.
  - inversion H; subst. exists (i_ext s'). destruct s'; reflexivity.
  - destruct (f_rcomplete F n s) as [s1 [e1|]] eqn:Hc.
    + inversion H; subst. eapply HF; eauto.
    + destruct (HF _ _ _ _ Hc) as (x1 & ->). destruct (IH _ _ _ H) as (x2 & ->). exists x2. destruct s; reflexivity.
Qed.

(* finish never un-completes an inspector *)
Lemma rcomplete_set_fin r : rcomplete r = true -> rcomplete (if r_end r then set_fin r true else r) = true.
Proof.
  unfold rcomplete, base_complete. destruct (r_end r) eqn:He; cbn [set_fin r_end r_min r_len r_data r_fin]; [|rewrite He; auto].
  rewrite He. intros H. apply andb_true_iff in H. destruct H as [H _]. rewrite H. reflexivity.
Qed.
Lemma complete_finish {X} (s : ist X) : complete s = true -> complete (finish s) = true.
Proof.
  unfold complete, finish. cbn [i_regs]. rewrite !forallb_forall. intros H p Hp.
  apply in_map_iff in Hp. destruct Hp as (q & <- & Hq). cbn [snd]. apply rcomplete_set_fin. apply H. exact Hq.
Qed.
