(* Proofs/C14_Words.v — the generated word tuples against the documented words; the
   final-sigma rule of str.lower() cannot matter for C14. *)
From Coq Require Import String.
Require Import OV.Base.Bytes OV.Base.Py OV.Base.PyInt OV.Base.Str.
Require Import OV.Model.C14_Py OV.Gen.C14 OV.Model.C14 OV.Proofs.C14_Str OV.Proofs.C14_Bool.
Open Scope N_scope.

(* the words named by the docstring of bool_from_string / the property text *)
Definition doc_true : list str := [lit "1"; lit "t"; lit "true"; lit "on"; lit "y"; lit "yes"].
Definition doc_false : list str := [lit "0"; lit "f"; lit "false"; lit "off"; lit "n"; lit "no"].

Definition same_words (a b : list str) : bool :=
  forallb (fun w => mem_str w b) a && forallb (fun w => mem_str w a) b.

Lemma same_words_spec a b : same_words a b = true -> forall w, In w a <-> In w b.
Proof.
  unfold same_words. intros H w. apply andb_true_iff in H. destruct H as [H1 H2].
  rewrite forallb_forall in H1, H2. split; intros Hw; apply mem_str_In; auto.
Qed.

Lemma words_are_documented :
  (forall w, In w TRUE_STRINGS <-> In w doc_true) /\ (forall w, In w FALSE_STRINGS <-> In w doc_false).
Proof. split; apply same_words_spec; vm_compute; reflexivity. Qed.

(* CPython lowers a word-final capital sigma to U+03C2 instead of U+03C3 (not modelled in
   Base/Str.py_lower).  Any string that differs from py_lower's result only by such
   substitutions is in a word list exactly when py_lower's result is. *)
Inductive sigma_variant : str -> str -> Prop :=
| sv_nil : sigma_variant [] []
| sv_same c a b : sigma_variant a b -> sigma_variant (c :: a) (c :: b)
| sv_final a b : sigma_variant a b -> sigma_variant (963 :: a) (962 :: b).

Definition no_sigma (w : str) : bool := forallb (fun c => negb (c =? 963) && negb (c =? 962)) w.

Lemma sigma_variant_word a b : sigma_variant a b -> (no_sigma a = true \/ no_sigma b = true) -> a = b.
Proof.
  induction 1 as [|c a b H IH|a b H IH]; intros Hn; [reflexivity| |].
  - f_equal. apply IH. unfold no_sigma in *. cbn [forallb] in Hn. destruct Hn as [Hn|Hn]; apply andb_true_iff in Hn; tauto.
  - exfalso. unfold no_sigma in Hn. cbn [forallb] in Hn. destruct Hn as [Hn|Hn]; discriminate.
Qed.

Lemma words_no_sigma : forallb no_sigma all_words = true.
Proof. vm_compute. reflexivity. Qed.

Lemma final_sigma_irrelevant lowered real ws : incl ws all_words -> sigma_variant lowered real ->
  mem_str real ws = mem_str lowered ws.
Proof.
  intros Hi Hv. pose proof words_no_sigma as W. rewrite forallb_forall in W.
  destruct (mem_str real ws) eqn:E1; destruct (mem_str lowered ws) eqn:E2; try reflexivity.
  - apply mem_str_In in E1. rewrite (sigma_variant_word _ _ Hv (or_intror (W _ (Hi _ E1)))) in E2.
    apply mem_str_In in E1. congruence.
  - apply mem_str_In in E2. rewrite <- (sigma_variant_word _ _ Hv (or_introl (W _ (Hi _ E2)))) in E1.
    apply mem_str_In in E2. congruence.
Qed.
