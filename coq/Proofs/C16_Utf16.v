(* Proofs/C16_Utf16.v — the UTF-16 and UTF-32 codec models of Model/C16_Codecs.v
   (little / big endian, and the BOM-writing variants), for every text of any length:
     * decode (encode t) = t for every surrogate-free t, under any error policies;
     * an error policy matters only when there is an error;
     * for the BOM-less variants a strictly decodable byte string is exactly the encoding
       of its text (encode (decode b) = b);
   plus small helpers shared with Proofs/C16_Codecs.v. *)
From Coq Require Import String.
Require Import OV.Base.Bytes OV.Base.PyInt OV.Base.Str OV.Base.C16_Py.
Require Import OV.Gen.C16_Aliases OV.Model.C16 OV.Model.C16_Codecs.
Open Scope N_scope.

Ltac Zify.zify_post_hook ::= Z.div_mod_to_equations.

(* ---------- shared helpers ---------- *)
Lemma cmap_ok {A B} (f : A -> B) r y : cmap f r = COk y -> exists x, r = COk x /\ y = f x.
Proof. destruct r as [x|e]; cbn; intros H; [injection H as <-; eauto|discriminate]. Qed.

Lemma policy_strict : policy_of strict_name = Strict.
Proof. reflexivity. Qed.

Lemma some_inj {A} (x y : A) : Some x = Some y -> x = y.
Proof. congruence. Qed.

Lemma strong_list_ind {A} (P : list A -> Prop) :
  (forall l, (forall l', (length l' < length l)%nat -> P l') -> P l) -> forall l, P l.
Proof.
  intros H l. assert (G : forall n l, (length l < n)%nat -> P l).
  { induction n as [|n IH]; intros l' Hl; [lia|]. apply H. intros l'' Hl''. apply IH. lia. }
  apply (G (S (length l))). lia.
Qed.

Lemma valid_text_cons c t : valid_text (c :: t) = scalar c && valid_text t.
Proof. reflexivity. Qed.

Lemma all_bytes_cons x b : all_bytes (x :: b) = (x <? 256) && all_bytes b.
Proof. reflexivity. Qed.

(* ================= UTF-16 ================= *)

Lemma utf16_dec_cons2 le p b0 b1 r1 : utf16_dec le p (b0 :: b1 :: r1) =
  if is_low (unit_val le b0 b1) then on_dec_error p (utf16_dec le p r1)
  else if is_high (unit_val le b0 b1) then
    match r1 with
    | [] => on_dec_error p (COk [])
    | b2 :: r2 =>
      match r2 with
      | [] => on_dec_error p (COk [])
      | b3 :: r3 =>
        if is_low (unit_val le b2 b3)
        then cmap (cons (65536 + (unit_val le b0 b1 - 55296) * 1024 + (unit_val le b2 b3 - 56320))) (utf16_dec le p r3)
        else on_dec_error p (utf16_dec le p r1)
      end
    end
  else cmap (cons (unit_val le b0 b1)) (utf16_dec le p r1).
Proof. reflexivity. Qed.

Lemma unit_bytes_val le u : exists b0 b1, unit_bytes le u = [b0; b1] /\ unit_val le b0 b1 = u.
Proof.
  destruct le; unfold unit_bytes, unit_val; do 2 eexists; (split; [reflexivity|lia]).
Qed.

Lemma unit_bytes_of_val le b0 b1 : b0 < 256 -> b1 < 256 -> unit_bytes le (unit_val le b0 b1) = [b0; b1].
Proof.
  intros H0 H1. destruct le; unfold unit_bytes, unit_val; f_equal; [lia|f_equal; lia|lia|f_equal; lia].
Qed.

Lemma unit_val_lt le b0 b1 : b0 < 256 -> b1 < 256 -> unit_val le b0 b1 < 65536.
Proof. destruct le; unfold unit_val; lia. Qed.

(* one non-surrogate unit *)
Lemma utf16_dec_single le p u rest : is_low u = false -> is_high u = false ->
  utf16_dec le p (unit_bytes le u ++ rest) = cmap (cons u) (utf16_dec le p rest).
Proof.
  intros Hl Hh. destruct (unit_bytes_val le u) as (b0 & b1 & -> & Hv).
  cbv beta iota fix delta [app]. rewrite utf16_dec_cons2, Hv, Hl, Hh. reflexivity.
Qed.

(* a surrogate pair *)
Lemma utf16_dec_pair le p u1 u2 rest : is_high u1 = true -> is_low u2 = true ->
  utf16_dec le p (unit_bytes le u1 ++ unit_bytes le u2 ++ rest) =
  cmap (cons (65536 + (u1 - 55296) * 1024 + (u2 - 56320))) (utf16_dec le p rest).
Proof.
  intros Hh Hl. destruct (unit_bytes_val le u1) as (b0 & b1 & -> & Hv1).
  destruct (unit_bytes_val le u2) as (b2 & b3 & -> & Hv2).
  cbv beta iota fix delta [app]. rewrite utf16_dec_cons2, Hv1, Hv2, Hh, Hl.
  replace (is_low u1) with false by (unfold is_low, is_high in *; lia). reflexivity.
Qed.

Lemma utf16_dec_enc1 le c bs : utf16_enc1 le c = Some bs ->
  forall p rest, utf16_dec le p (bs ++ rest) = cmap (cons c) (utf16_dec le p rest).
Proof.
  unfold utf16_enc1. intros H p rest. destruct (scalar c) eqn:Es; [|discriminate].
  unfold scalar in Es. destruct (c <? 65536) eqn:E.
  - apply some_inj in H; subst bs. apply utf16_dec_single; unfold is_low, is_high; lia.
  - apply some_inj in H; subst bs. rewrite <- app_assoc. rewrite utf16_dec_pair.
    + f_equal. f_equal. lia.
    + unfold is_high. lia.
    + unfold is_low. lia.
Qed.

Lemma utf16_enc1_scalar le c : scalar c = true -> exists bs, utf16_enc1 le c = Some bs.
Proof. unfold utf16_enc1. intros ->. destruct (c <? 65536); eauto. Qed.

Theorem utf16_roundtrip le t : valid_text t = true ->
  exists b, (forall p, utf16_enc le p t = COk b) /\ (forall p, utf16_dec le p b = COk t).
Proof.
  induction t as [|c t IH]; intros H.
  - exists []. split; reflexivity.
  - rewrite valid_text_cons in H. apply andb_true_iff in H. destruct H as [Hc Ht].
    destruct (IH Ht) as (b & He & Hd). destruct (utf16_enc1_scalar le c Hc) as (bs & Hbs).
    exists (bs ++ b). split; intros p.
    + cbn [utf16_enc]. rewrite Hbs, He. reflexivity.
    + rewrite (utf16_dec_enc1 le c bs Hbs), Hd. reflexivity.
Qed.

Lemma utf16_enc_strict_any le s : forall b, utf16_enc le Strict s = COk b ->
  valid_text s = true /\ forall p, utf16_enc le p s = COk b.
Proof.
  induction s as [|c t IH]; intros b H; [split; [reflexivity|intros p; exact H]|]. cbn [utf16_enc] in *.
  destruct (utf16_enc1 le c) as [bs|] eqn:E1; [|discriminate].
  destruct (cmap_ok _ _ _ H) as (b' & E & ->). destruct (IH _ E) as [Hv Hp]. split.
  - rewrite valid_text_cons, Hv. unfold utf16_enc1 in E1. destruct (scalar c); [reflexivity|discriminate].
  - intros p. rewrite (Hp p). reflexivity.
Qed.

(* strict decoding: no error branch was taken *)
Theorem utf16_dec_strict_canonical le : forall b t,
  utf16_dec le Strict b = COk t ->
  (forall p, utf16_dec le p b = COk t) /\
  (all_bytes b = true -> valid_text t = true /\ utf16_enc le Strict t = COk b).
Proof.
  induction b as [b IH] using strong_list_ind. intros t H.
  destruct b as [|b0 [|b1 r1]].
  { injection H as <-. split; [reflexivity|split; reflexivity]. }
  { discriminate. }
  rewrite utf16_dec_cons2 in H.
  destruct (is_low (unit_val le b0 b1)) eqn:El; [discriminate|].
  destruct (is_high (unit_val le b0 b1)) eqn:Eh.
  - destruct r1 as [|b2 [|b3 r3]]; [discriminate|discriminate|].
    destruct (is_low (unit_val le b2 b3)) eqn:El2; [|discriminate].
    destruct (cmap_ok _ _ _ H) as (t' & E & ->).
    destruct (IH r3 ltac:(cbn [length]; lia) t' E) as [Hp Hc]. split.
    + intros p. rewrite utf16_dec_cons2, El, Eh, El2, (Hp p). reflexivity.
    + intros Hb. rewrite !all_bytes_cons in Hb.
      apply andb_true_iff in Hb. destruct Hb as [H0 Hb]. apply andb_true_iff in Hb. destruct Hb as [H1 Hb].
      apply andb_true_iff in Hb. destruct Hb as [H2 Hb]. apply andb_true_iff in Hb. destruct Hb as [H3 Hb].
      destruct (Hc Hb) as [Hv He].
      set (u := unit_val le b0 b1) in *. set (u2 := unit_val le b2 b3) in *.
      set (c := 65536 + (u - 55296) * 1024 + (u2 - 56320)).
      unfold is_high in Eh. unfold is_low in El2.
      assert (Hcc : scalar c = true /\ (c <? 65536) = false /\
                    55296 + (c - 65536) / 1024 = u /\ 56320 + (c - 65536) mod 1024 = u2).
      { unfold scalar. subst c. repeat split; lia. }
      destruct Hcc as (Hs & Hge & Hq & Hr). split.
      * rewrite valid_text_cons, Hs, Hv. reflexivity.
      * cbn [utf16_enc]. unfold utf16_enc1. rewrite Hs, Hge, Hq, Hr, He. subst u u2.
        rewrite !unit_bytes_of_val by lia. reflexivity.
  - destruct (cmap_ok _ _ _ H) as (t' & E & ->).
    destruct (IH r1 ltac:(cbn [length]; lia) t' E) as [Hp Hc]. split.
    + intros p. rewrite utf16_dec_cons2, El, Eh, (Hp p). reflexivity.
    + intros Hb. rewrite !all_bytes_cons in Hb.
      apply andb_true_iff in Hb. destruct Hb as [H0 Hb]. apply andb_true_iff in Hb. destruct Hb as [H1 Hb].
      destruct (Hc Hb) as [Hv He].
      pose proof (unit_val_lt le b0 b1 ltac:(lia) ltac:(lia)) as Hlt.
      set (u := unit_val le b0 b1) in *. unfold is_high in Eh. unfold is_low in El.
      assert (Hs : scalar u = true) by (unfold scalar; lia). split.
      * rewrite valid_text_cons, Hs, Hv. reflexivity.
      * cbn [utf16_enc]. unfold utf16_enc1. rewrite Hs. replace (u <? 65536) with true by lia.
        rewrite He. subst u. rewrite unit_bytes_of_val by lia. reflexivity.
Qed.

(* ---------- 'utf-16' with BOM ---------- *)
Lemma bom16_bytes le : unit_bytes le 65279 = if le then [255; 254] else [254; 255].
Proof. destruct le; reflexivity. Qed.

Lemma utf16_bom_dec_bom p rest :
  utf16_bom_dec p (unit_bytes native_le 65279 ++ rest) = utf16_dec native_le p rest.
Proof. rewrite bom16_bytes. destruct native_le; reflexivity. Qed.

Theorem utf16_bom_roundtrip t : valid_text t = true ->
  exists b, (forall p, utf16_bom_enc p t = COk b) /\ (forall p, utf16_bom_dec p b = COk t).
Proof.
  intros H. destruct (utf16_roundtrip native_le t H) as (b & He & Hd).
  exists (unit_bytes native_le 65279 ++ b). split; intros p.
  - unfold utf16_bom_enc. rewrite He. reflexivity.
  - rewrite utf16_bom_dec_bom. apply Hd.
Qed.

Lemma utf16_bom_dec_strict_any b t : utf16_bom_dec Strict b = COk t -> forall p, utf16_bom_dec p b = COk t.
Proof.
  unfold utf16_bom_dec. intros H p. destruct b as [|b0 [|b1 r]];
    try (apply (utf16_dec_strict_canonical _ _ _ H)).
  destruct ((b0 =? 255) && (b1 =? 254)); [apply (utf16_dec_strict_canonical _ _ _ H)|].
  destruct ((b0 =? 254) && (b1 =? 255)); apply (utf16_dec_strict_canonical _ _ _ H).
Qed.

(* ================= UTF-32 ================= *)

Lemma utf32_dec_cons4 le p b0 b1 b2 b3 r3 : utf32_dec le p (b0 :: b1 :: b2 :: b3 :: r3) =
  if scalar (u32_val le b0 b1 b2 b3) then cmap (cons (u32_val le b0 b1 b2 b3)) (utf32_dec le p r3)
  else on_dec_error p (utf32_dec le p r3).
Proof. reflexivity. Qed.

Lemma u32_bytes_val le c : exists b0 b1 b2 b3, u32_bytes le c = [b0; b1; b2; b3] /\ u32_val le b0 b1 b2 b3 = c.
Proof.
  destruct le; unfold u32_bytes, u32_val; do 4 eexists; (split; [reflexivity|lia]).
Qed.

Lemma u32_bytes_of_val le b0 b1 b2 b3 : b0 < 256 -> b1 < 256 -> b2 < 256 -> b3 < 256 ->
  u32_bytes le (u32_val le b0 b1 b2 b3) = [b0; b1; b2; b3].
Proof.
  intros H0 H1 H2 H3. destruct le; unfold u32_bytes, u32_val;
    (f_equal; [lia|f_equal; [lia|f_equal; [lia|f_equal; lia]]]).
Qed.

Lemma utf32_dec_enc1 le p c rest : scalar c = true ->
  utf32_dec le p (u32_bytes le c ++ rest) = cmap (cons c) (utf32_dec le p rest).
Proof.
  intros Hs. destruct (u32_bytes_val le c) as (b0 & b1 & b2 & b3 & -> & Hv).
  cbv beta iota fix delta [app]. rewrite utf32_dec_cons4, Hv, Hs. reflexivity.
Qed.

Theorem utf32_roundtrip le t : valid_text t = true ->
  exists b, (forall p, utf32_enc le p t = COk b) /\ (forall p, utf32_dec le p b = COk t).
Proof.
  induction t as [|c t IH]; intros H.
  - exists []. split; reflexivity.
  - rewrite valid_text_cons in H. apply andb_true_iff in H. destruct H as [Hc Ht].
    destruct (IH Ht) as (b & He & Hd).
    exists (u32_bytes le c ++ b). split; intros p.
    + cbn [utf32_enc]. rewrite Hc, He. reflexivity.
    + rewrite (utf32_dec_enc1 le p c b Hc), Hd. reflexivity.
Qed.

Lemma utf32_enc_strict_any le s : forall b, utf32_enc le Strict s = COk b ->
  valid_text s = true /\ forall p, utf32_enc le p s = COk b.
Proof.
  induction s as [|c t IH]; intros b H; [split; [reflexivity|intros p; exact H]|]. cbn [utf32_enc] in *.
  destruct (scalar c) eqn:Es; [|discriminate].
  destruct (cmap_ok _ _ _ H) as (b' & E & ->). destruct (IH _ E) as [Hv Hp]. split.
  - rewrite valid_text_cons, Es, Hv. reflexivity.
  - intros p. rewrite (Hp p). reflexivity.
Qed.

Theorem utf32_dec_strict_canonical le : forall b t,
  utf32_dec le Strict b = COk t ->
  (forall p, utf32_dec le p b = COk t) /\
  (all_bytes b = true -> valid_text t = true /\ utf32_enc le Strict t = COk b).
Proof.
  induction b as [b IH] using strong_list_ind. intros t H.
  destruct b as [|b0 [|b1 [|b2 [|b3 r3]]]]; try discriminate.
  { injection H as <-. split; [reflexivity|split; reflexivity]. }
  rewrite utf32_dec_cons4 in H. destruct (scalar (u32_val le b0 b1 b2 b3)) eqn:Es; [|discriminate].
  destruct (cmap_ok _ _ _ H) as (t' & E & ->).
  destruct (IH r3 ltac:(cbn [length]; lia) t' E) as [Hp Hc]. split.
  - intros p. rewrite utf32_dec_cons4, Es, (Hp p). reflexivity.
  - intros Hb. rewrite !all_bytes_cons in Hb.
    apply andb_true_iff in Hb. destruct Hb as [H0 Hb]. apply andb_true_iff in Hb. destruct Hb as [H1 Hb].
    apply andb_true_iff in Hb. destruct Hb as [H2 Hb]. apply andb_true_iff in Hb. destruct Hb as [H3 Hb].
    destruct (Hc Hb) as [Hv He]. split.
    + rewrite valid_text_cons, Es, Hv. reflexivity.
    + cbn [utf32_enc]. rewrite Es, He. rewrite u32_bytes_of_val by lia. reflexivity.
Qed.

(* ---------- 'utf-32' with BOM ---------- *)
Lemma bom32_bytes le : u32_bytes le 65279 = if le then [255; 254; 0; 0] else [0; 0; 254; 255].
Proof. destruct le; reflexivity. Qed.

Lemma utf32_bom_dec_bom p rest :
  utf32_bom_dec p (u32_bytes native_le 65279 ++ rest) = utf32_dec native_le p rest.
Proof. rewrite bom32_bytes. destruct native_le; reflexivity. Qed.

Theorem utf32_bom_roundtrip t : valid_text t = true ->
  exists b, (forall p, utf32_bom_enc p t = COk b) /\ (forall p, utf32_bom_dec p b = COk t).
Proof.
  intros H. destruct (utf32_roundtrip native_le t H) as (b & He & Hd).
  exists (u32_bytes native_le 65279 ++ b). split; intros p.
  - unfold utf32_bom_enc. rewrite He. reflexivity.
  - rewrite utf32_bom_dec_bom. apply Hd.
Qed.

Lemma utf32_bom_dec_strict_any b t : utf32_bom_dec Strict b = COk t -> forall p, utf32_bom_dec p b = COk t.
Proof.
  unfold utf32_bom_dec. intros H p. destruct b as [|b0 [|b1 [|b2 [|b3 r]]]];
    try (apply (utf32_dec_strict_canonical _ _ _ H)).
  destruct ((b0 =? 255) && (b1 =? 254) && (b2 =? 0) && (b3 =? 0)); [apply (utf32_dec_strict_canonical _ _ _ H)|].
  destruct ((b0 =? 0) && (b1 =? 0) && (b2 =? 254) && (b3 =? 255)); apply (utf32_dec_strict_canonical _ _ _ H).
Qed.

(* ================= single-byte codecs given by a decoding table ================= *)

Definition charmap_repr (tbl : list (option N)) (t : str) : bool :=
  forallb (fun c => match find_index c tbl 0 with Some _ => true | None => false end) t.

Lemma find_index_get c tbl : forall i b, find_index c tbl i = Some b -> i <= b /\ table_get tbl (b - i) = Some c.
Proof.
  induction tbl as [|[x|] r IH]; intros i b H; cbn [find_index] in H; [discriminate| |].
  - destruct (x =? c) eqn:E.
    + injection H as <-. apply N.eqb_eq in E. subst x. split; [lia|].
      unfold table_get. replace (N.to_nat (i - i)) with 0%nat by lia. reflexivity.
    + destruct (IH _ _ H) as [Hle Hg]. split; [lia|].
      unfold table_get in *. replace (N.to_nat (b - i)) with (S (N.to_nat (b - (i + 1)))) by lia. exact Hg.
  - destruct (IH _ _ H) as [Hle Hg]. split; [lia|].
    unfold table_get in *. replace (N.to_nat (b - i)) with (S (N.to_nat (b - (i + 1)))) by lia. exact Hg.
Qed.

Theorem charmap_roundtrip tbl t : charmap_repr tbl t = true ->
  exists b, (forall p, charmap_enc tbl p t = COk b) /\ (forall p, charmap_dec tbl p b = COk t).
Proof.
  induction t as [|c t IH]; intros H.
  - exists []. split; reflexivity.
  - unfold charmap_repr in H. cbn [forallb] in H. apply andb_true_iff in H. destruct H as [Hc Ht].
    destruct (IH Ht) as (b & He & Hd).
    destruct (find_index c tbl 0) as [x|] eqn:E; [|discriminate].
    exists (x :: b). split; intros p.
    + cbn [charmap_enc]. rewrite E, He. reflexivity.
    + cbn [charmap_dec]. destruct (find_index_get _ _ _ _ E) as [_ Hg]. rewrite N.sub_0_r in Hg.
      rewrite Hg, Hd. reflexivity.
Qed.

Lemma charmap_enc_strict_any tbl s : forall b, charmap_enc tbl Strict s = COk b ->
  charmap_repr tbl s = true /\ forall p, charmap_enc tbl p s = COk b.
Proof.
  induction s as [|c t IH]; intros b H; [split; [reflexivity|intros p; exact H]|]. cbn [charmap_enc] in *.
  destruct (find_index c tbl 0) as [x|] eqn:E; [|discriminate].
  destruct (cmap_ok _ _ _ H) as (b' & E' & ->). destruct (IH _ E') as [Hv Hp]. split.
  - unfold charmap_repr in *. cbn [forallb]. rewrite E, Hv. reflexivity.
  - intros p. rewrite (Hp p). reflexivity.
Qed.

(* every defined byte is the first byte of its character (decidable; computed for the generated tables) *)
Definition table_inj (tbl : list (option N)) : bool :=
  forallb (fun i => match table_get tbl i with
                    | Some c => match find_index c tbl 0 with Some j => j =? i | None => false end
                    | None => true
                    end) (map N.of_nat (seq 0 (length tbl))).

Lemma table_get_range tbl b c : table_get tbl b = Some c -> In b (map N.of_nat (seq 0 (length tbl))).
Proof.
  unfold table_get. intros H. rewrite <- (N2Nat.id b). apply in_map. apply in_seq.
  split; [lia|]. cbn. destruct (Nat.lt_ge_cases (N.to_nat b) (length tbl)) as [Hl|Hl]; [exact Hl|].
  rewrite nth_overflow in H by exact Hl. discriminate.
Qed.

Theorem charmap_dec_strict_canonical tbl : forall b t,
  charmap_dec tbl Strict b = COk t ->
  (forall p, charmap_dec tbl p b = COk t) /\
  (table_inj tbl = true -> charmap_repr tbl t = true /\ charmap_enc tbl Strict t = COk b).
Proof.
  induction b as [|x r IH]; intros t H.
  - injection H as <-. split; [reflexivity|split; reflexivity].
  - cbn [charmap_dec] in H. destruct (table_get tbl x) as [c|] eqn:E; [|discriminate].
    destruct (cmap_ok _ _ _ H) as (t' & E' & ->). destruct (IH _ E') as [Hp Hc]. split.
    + intros p. cbn [charmap_dec]. rewrite E, (Hp p). reflexivity.
    + intros Hi. destruct (Hc Hi) as [Hv He].
      pose proof (proj1 (forallb_forall _ _) Hi x (table_get_range _ _ _ E)) as Hx. cbv beta in Hx. rewrite E in Hx.
      destruct (find_index c tbl 0) as [j|] eqn:Ej; [|discriminate]. apply N.eqb_eq in Hx. subst j. split.
      * unfold charmap_repr in *. cbn [forallb]. rewrite Ej, Hv. reflexivity.
      * cbn [charmap_enc]. rewrite Ej, He. reflexivity.
Qed.

Lemma cp1252_table_inj : table_inj OV.Gen.C16_Charmaps.cp1252_table = true.
Proof. vm_compute. reflexivity. Qed.
Lemma koi8r_table_inj : table_inj OV.Gen.C16_Charmaps.koi8r_table = true.
Proof. vm_compute. reflexivity. Qed.
