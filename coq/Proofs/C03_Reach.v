(* Proofs/C03_Reach.v — signature soundness at the level of REACHABLE inspector states (any chunks,
   frozen after an exception, after finish), monotonicity of the signature predicates under extension of the
   stream, and the content-level clauses for runs in which inspectors raise or the expected-format abort
   happens: every inspector of the wrapper has seen a PREFIX of the bytes taken from the source. *)
Require Import OV.Base.Bytes OV.Base.Py OV.Base.C06_WrapShape OV.Base.Insp_Struct.
Require Import OV.Gen.Insp_Consts OV.Gen.C06_Wrapper OV.Model.Insp_Engine.
Require Import OV.Model.Insp_Raw OV.Model.Insp_Qcow2 OV.Model.Insp_Qed OV.Model.Insp_Vhd OV.Model.Insp_Vdi
               OV.Model.Insp_Iso OV.Model.Insp_Gpt OV.Model.Insp_Luks OV.Model.Insp_Vhdx OV.Model.Insp_Vmdk OV.Model.Insp_All.
Require Import OV.Model.Wrap OV.Model.C03.
Require Import OV.Proofs.Insp_Engine OV.Proofs.Insp_FmtOk OV.Proofs.Insp_Static OV.Proofs.Insp_StaticQcow OV.Proofs.Insp_All.
Require Import OV.Proofs.C03_Engine OV.Proofs.C03_Total OV.Proofs.C03_Sig OV.Proofs.Wrap OV.Proofs.C06 OV.Proofs.C03_Wrap OV.Proofs.C03_Stable OV.Proofs.C03_Props.
Open Scope N_scope.

(* ------------------------------------------------------------------ the signature predicates are monotone *)
Lemma bsub_app_le lo hi a t : hi <= blen a -> bsub lo hi (a ++ t) = bsub lo hi a.
Proof.
  intros H. unfold bsub. destruct (N.le_gt_cases lo hi) as [Hl|Hl].
  - rewrite bskip_app_le by lia. apply btake_app_le. rewrite blen_bskip. lia.
  - replace (hi - lo) with 0 by lia. rewrite !btake_0. reflexivity.
Qed.
Lemma bnth_app_lt i a t : i < blen a -> bnth i (a ++ t) = bnth i a.
Proof. intros H. unfold bnth. apply app_nth1. unfold blen in H. lia. Qed.

Lemma long_enough_app f st t : long_enough f st = true -> long_enough f (st ++ t) = true.
Proof.
  unfold long_enough. rewrite !forallb_forall. intros H p Hp. specialize (H p Hp). apply N.leb_le in H. apply N.leb_le.
  rewrite blen_app. lia.
Qed.

Theorem sigb_app f st t : sigb f st = true -> sigb f (st ++ t) = true.
Proof.
  destruct f; cbn [sigb]; intros H.
  - reflexivity.
  - apply andb_true_iff in H. destruct H as [H1 H2]. rewrite (long_enough_app _ _ _ H1), (prefixb_app_l _ _ _ H2). reflexivity.
  - apply prefixb_app_l. exact H.
  - apply prefixb_app_l. exact H.
  - apply sigb_vmdk_app. exact H.
  - apply andb_true_iff in H. destruct H as [H1 H2]. rewrite (long_enough_app _ _ _ H1). cbn [andb].
    rewrite bsub_app_le; [exact H2|]. unfold long_enough in H1. cbn [init_regions forallb snd rs_off rs_len] in H1.
    apply andb_true_iff in H1. destruct H1 as [H1 _]. apply N.leb_le in H1. unfold VDI_SIG_HI. lia.
  - apply andb_true_iff in H. destruct H as [H1 H2]. rewrite (long_enough_app _ _ _ H1), (prefixb_app_l _ _ _ H2). reflexivity.
  - apply andb_true_iff in H. destruct H as [H1 H2]. rewrite (long_enough_app _ _ _ H1). cbn [andb].
    rewrite bsub_app_le; [exact H2|]. unfold long_enough in H1. cbn [init_regions forallb snd rs_off rs_len] in H1.
    apply andb_true_iff in H1. destruct H1 as [_ H1]. apply andb_true_iff in H1. destruct H1 as [H1 _]. apply N.leb_le in H1.
    unfold iso_hdr, ISO_SIG_HI. cbn. lia.
  - apply andb_true_iff in H. destruct H as [H H3]. apply andb_true_iff in H. destruct H as [H1 H2].
    rewrite (long_enough_app _ _ _ H1). cbn [andb].
    unfold long_enough in H1. cbn [init_regions forallb snd rs_off rs_len] in H1.
    apply andb_true_iff in H1. destruct H1 as [H1 _]. apply N.leb_le in H1.
    rewrite bsub_app_le by (unfold GPT_SIG_HI; lia). rewrite H2. cbn [andb].
    rewrite !bnth_app_lt by (unfold GPT_FAT_NUM_IDX, GPT_FAT_MEDIA_IDX; lia). exact H3.
  - apply beq_eq in H. apply beq_eq.
    assert (Hl : LUKS_MAGIC_TAKE <= blen st).
    { apply (f_equal blen) in H. rewrite blen_btake in H. vm_compute (blen LUKS_MAGIC) in H. unfold LUKS_MAGIC_TAKE in *. lia. }
    rewrite btake_app_le by exact Hl. exact H.
Qed.

(* ------------------------------------------------------------------ reachable states of a static inspector *)
Section StaticReach.
Context {X : Type}.
Variable F : fmt X.
Hypothesis Hpost : f_post F = no_post.
Hypothesis Hrc : f_rcomplete F = no_rcomplete.
Hypothesis Hspecs : static_specs (init_regions (f_id F)) = true.

(* the stream up to finish() [st'] determines everything but the position *)
Lemma static_reach st s : reach F st s ->
  exists st' t fin p, st = st' ++ t /\ s = set_pos (ideal F st' fin (f_ext0 F)) p /\ (fin = false -> t = [] /\ p = blen st).
Proof.
  intros Hr. induction Hr as [|st s c s' e Hr IH He|st s Hr IH].
  - exists [], [], false, 0. rewrite (ideal_init F Hspecs). repeat split.
  - destruct IH as (st' & t & fin & p & Hst & Hs & Hf). destruct fin.
    + subst s. rewrite eat_finished in He by reflexivity. inversion He; subst.
      exists st', (t ++ c), true, (i_pos (set_pos (ideal F st' true (f_ext0 F)) p) + flen c).
      split; [symmetry; apply app_assoc|]. split; [reflexivity | discriminate].
    + destruct (Hf eq_refl) as [-> ->]. rewrite app_nil_r in *. subst st'.
      assert (Hs0 : s = ideal F st false (f_ext0 F)) by (rewrite Hs; reflexivity).
      rewrite Hs0, (ideal_eat_chunk F Hpost), (run_callbacks_none F Hrc) in He. inversion He; subst.
      exists (st ++ c), [], false, (blen (st ++ c)). rewrite app_nil_r. repeat split.
  - destruct IH as (st' & t & fin & p & Hst & Hs & Hf).
    exists st', t, true, p. split; [exact Hst|]. split; [|discriminate].
    subst s. unfold Insp_Engine.finish, ideal, set_pos. cbn [i_pos i_regs i_next i_checks i_ext]. rewrite finish_fill. reflexivity.
Qed.
End StaticReach.

(* the same for qcow2, whose private attribute follows the stream as well *)
Lemma qcow_reach st s : reach qcow_fmt st s ->
  exists st' t fin p, st = st' ++ t /\ s = set_pos (ideal qcow_fmt st' fin (qext st')) p /\ (fin = false -> t = [] /\ p = blen st).
Proof.
  intros Hr. induction Hr as [|st s c s' e Hr IH He|st s Hr IH].
  - exists [], [], false, 0. rewrite (ideal_init qcow_fmt qcow_specs), qext_nil. repeat split.
  - destruct IH as (st' & t & fin & p & Hst & Hs & Hf). destruct fin.
    + subst s. rewrite eat_finished in He by reflexivity. inversion He; subst.
      exists st', (t ++ c), true, (i_pos (set_pos (ideal qcow_fmt st' true (qext st')) p) + flen c).
      split; [symmetry; apply app_assoc|]. split; [reflexivity | discriminate].
    + destruct (Hf eq_refl) as [-> ->]. rewrite app_nil_r in *. subst st'.
      assert (Hs0 : s = ideal qcow_fmt st false (qext st)) by (rewrite Hs; reflexivity).
      rewrite Hs0, qcow_eat in He. inversion He; subst.
      exists (st ++ c), [], false, (blen (st ++ c)). rewrite app_nil_r. repeat split.
  - destruct IH as (st' & t & fin & p & Hst & Hs & Hf).
    exists st', t, true, p. split; [exact Hst|]. split; [|discriminate].
    subst s. unfold Insp_Engine.finish, ideal, set_pos. cbn [i_pos i_regs i_next i_checks i_ext]. rewrite finish_fill. reflexivity.
Qed.

(* format_match of the inspectors without private attributes reads the region dictionary only *)
Lemma unit_match_regs_only f (s1 s2 : ist unit) : i_regs s1 = i_regs s2 -> f_match (ufmt f) s1 = f_match (ufmt f) s2.
Proof.
  intros H. destruct f; cbn [ufmt f_match raw_fmt vhd_fmt vhdx_fmt vdi_fmt qed_fmt iso_fmt gpt_fmt luks_fmt]; try reflexivity.
  - unfold vhd_match, get_region. rewrite H. reflexivity.
  - unfold vhdx_match, get_region. rewrite H. reflexivity.
  - unfold vdi_match, get_region. rewrite H. reflexivity.
  - unfold qed_match, get_region. rewrite H. reflexivity.
  - unfold iso_match, get_region, Insp_Engine.complete. rewrite H. reflexivity.
  - unfold gpt_match, gpt_check_for_fat, get_region. rewrite H. reflexivity.
  - unfold luks_match, get_region. rewrite H. reflexivity.
Qed.
Lemma qcow_match_regs_only (s1 s2 : ist qx) : i_regs s1 = i_regs s2 -> i_ext s1 = i_ext s2 -> qcow_match s1 = qcow_match s2.
Proof. intros H1 H2. unfold qcow_match, get_region. rewrite H1, H2. reflexivity. Qed.

(* format_match of a reachable static inspector is the signature of the stream it had seen when it was
   finished (the whole stream when it is not finished) *)
Lemma static_unit_reach_match f st s : is_static_unit f = true -> reach (ufmt f) st s ->
  exists st' t, st = st' ++ t /\ (i_fin s = false -> t = []) /\ cmatch (I_unit f s) = sigb f st'.
Proof.
  intros Hs Hr. destruct (static_unit_facts f Hs) as (Hp & Hc & Hi & Hsp & _ & _).
  assert (Hsp' : static_specs (init_regions (f_id (ufmt f))) = true) by (rewrite Hi; exact Hsp).
  destruct (static_reach (ufmt f) Hp Hc Hsp' st s Hr) as (st' & t & fin & p & Hst & Hs0 & Hf).
  exists st', t. split; [exact Hst|]. split.
  - intros Hfin. subst s. cbn [set_pos ideal i_fin] in Hfin. subst fin. apply Hf. reflexivity.
  - rewrite <- (static_match_is_signature f st') by (destruct f; try discriminate Hs; reflexivity).
    subst s. unfold cmatch. 
    assert (Hss : spec_state f st' = I_unit f (ideal (ufmt f) st' true tt)) by (destruct f; try discriminate Hs; reflexivity).
    rewrite Hss. cbn [format_match]. rewrite (unit_match_regs_only f _ (ideal (ufmt f) st' true tt)); reflexivity.
Qed.

Lemma qcow_reach_match st s : reach qcow_fmt st s ->
  exists st' t, st = st' ++ t /\ (i_fin s = false -> t = []) /\ cmatch (I_qcow s) = sigb F_qcow2 st'.
Proof.
  intros Hr. destruct (qcow_reach st s Hr) as (st' & t & fin & p & Hst & Hs0 & Hf).
  exists st', t. split; [exact Hst|]. split.
  - intros Hfin. subst s. cbn [set_pos ideal i_fin] in Hfin. subst fin. apply Hf. reflexivity.
  - rewrite <- (static_match_is_signature F_qcow2 st' eq_refl). subst s. unfold cmatch. cbn [spec_state format_match f_match qcow_fmt].
    rewrite (qcow_match_regs_only _ (ideal qcow_fmt st' true (qext st'))); reflexivity.
Qed.

(* C03_format_implies_signature at the level of reachable states, all ten inspectors *)
Theorem reach_match_signature st i : ireach st i -> cmatch i = true -> sigb (name_of i) st = true.
Proof.
  intros Hr Hm.
  assert (Hok : format_match i = Ok true) by (rewrite (cmatch_spec i (ex_intro _ st Hr)), Hm; reflexivity).
  apply ireach_reach in Hr. destruct i as [f s|s|s]; cbn [ireach_spec name_of format_match] in *.
  - destruct Hr as (H1 & H2 & Hr).
    destruct (is_static_unit f) eqn:Hs.
    + destruct (static_unit_reach_match f st s Hs Hr) as (st' & t & -> & _ & He). apply sigb_app. rewrite <- He. exact Hm.
    + destruct f; try discriminate Hs; try contradiction. eapply vhdx_match_signature; eauto.
  - destruct (qcow_reach_match st s Hr) as (st' & t & -> & _ & He). apply sigb_app. rewrite <- He. exact Hm.
  - eapply vmdk_match_signature; eauto.
Qed.

(* ------------------------------------------------------------------ one pass of _process_chunk, slot by slot *)
(* what a call of _process_chunk with chunk c may have done to a slot: nothing, or fed it c *)
Definition touched (c : bytes) (s s' : cslot) : Prop :=
  s_name s' = s_name s /\ (s' = s \/ (s_err s = false /\ exists oe, eat (s_insp s) c = (s_insp s', oe))).
(* ... when the pass completed: errored slots untouched, all the others fed *)
Definition passed (c : bytes) (s s' : cslot) : Prop :=
  s_name s' = s_name s /\ (if s_err s then s' = s else exists oe, eat (s_insp s) c = (s_insp s', oe)).

Lemma touched_refl c s : touched c s s.
Proof. split; auto. Qed.

Lemma pc_std_rel expected c : forall ss idx ss' tr r,
  pc_std istate eat complete cmatch expected idx ss c = (ss', tr, r) ->
  Forall2 (touched c) ss ss' /\ (r = None -> Forall2 (passed c) ss ss').
Proof.
  induction ss as [|s rest IH]; intros idx ss' tr r H; cbn [pc_std] in H.
  - inversion H; subst. split; [constructor | intros _; constructor].
  - destruct (s_err s) eqn:Herr.
    + destruct (pc_std istate eat complete cmatch expected (S idx) rest c) as [[rest' tr'] r'] eqn:Hr. inversion H; subst.
      destruct (IH _ _ _ _ Hr) as [IH1 IH2]. split.
      * constructor; [apply touched_refl | exact IH1].
      * intros Hn. constructor; [|apply IH2; exact Hn]. split; [reflexivity|]. rewrite Herr. reflexivity.
    + destruct (feed_slot istate eat complete cmatch expected idx s c) as [[s' ev] r0] eqn:Hf.
      destruct (feed_slot_spec istate eat complete cmatch _ _ _ _ _ _ _ Hf) as (Hn & _ & _ & _ & Heat & _).
      assert (Ht : touched c s s') by (split; [exact Hn | right; split; [exact Herr | eauto]]).
      destruct r0 as [e0|].
      * inversion H; subst. split; [|discriminate]. constructor; [exact Ht|].
        clear. induction rest; constructor; [apply touched_refl | assumption].
      * destruct (pc_std istate eat complete cmatch expected (S idx) rest c) as [[rest' tr'] r'] eqn:Hr. inversion H; subst.
        destruct (IH _ _ _ _ Hr) as [IH1 IH2]. split; [constructor; assumption|].
        intros Hnone. constructor; [|apply IH2; exact Hnone]. split; [exact Hn|]. rewrite Herr. eauto.
Qed.

(* ------------------------------------------------------------------ every inspector has seen a prefix of what was taken from the source *)
(* [taken] = concatenation of the chunks the wrapper has taken from its source so far *)
Definition seen_prefix (taken : bytes) (s : cslot) : Prop :=
  s_name s = fmt_name (name_of (s_insp s)) /\ exists st t, ireach st (s_insp s) /\ taken = st ++ t.
(* while no exception has reached the reader, a non-errored inspector has seen everything *)
Definition seen_all (taken : bytes) (s : cslot) : Prop :=
  s_name s = fmt_name (name_of (s_insp s)) /\ exists st t, ireach st (s_insp s) /\ taken = st ++ t /\ (s_err s = false -> t = []).

Lemma name_of_eat i c i' e : eat i c = (i', e) -> name_of i' = name_of i.
Proof.
  destruct i as [f s|s|s]; cbn [eat]; [destruct (eat_chunk (ufmt f) s c) | destruct (eat_chunk qcow_fmt s c) | destruct (eat_chunk vmdk_fmt s c)];
    intros H; inversion H; reflexivity.
Qed.
Lemma name_of_finish i : name_of (finish i) = name_of i.
Proof. destruct i; reflexivity. Qed.

Lemma seen_all_prefix taken s : seen_all taken s -> seen_prefix taken s.
Proof. intros (Hn & st & t & Hr & Ht & _). split; [exact Hn|]. eauto. Qed.

Lemma touched_seen taken c s s' : seen_all taken s -> touched c s s' -> seen_prefix (taken ++ c) s'.
Proof.
  intros (Hn & st & t & Hr & Ht & Hall) (Hname & [->|(Herr & oe & He)]).
  - split; [exact Hn|]. exists st, (t ++ c). split; [exact Hr|]. rewrite Ht. symmetry. apply app_assoc.
  - split; [rewrite Hname, Hn, (name_of_eat _ _ _ _ He); reflexivity|].
    rewrite (Hall Herr), app_nil_r in Ht. subst taken. exists (st ++ c), []. split; [eapply ireach_eat; eauto | symmetry; apply app_nil_r].
Qed.

Lemma passed_seen taken c s s' : seen_all taken s -> passed c s s' -> seen_all (taken ++ c) s'.
Proof.
  intros (Hn & st & t & Hr & Ht & Hall) (Hname & Hp). destruct (s_err s) eqn:Herr.
  - subst s'. split; [exact Hn|]. exists st, (t ++ c). split; [exact Hr|]. split; [rewrite Ht; symmetry; apply app_assoc|].
    rewrite Herr. discriminate.
  - destruct Hp as (oe & He). split; [rewrite Hname, Hn, (name_of_eat _ _ _ _ He); reflexivity|].
    rewrite (Hall eq_refl), app_nil_r in Ht. subst taken. exists (st ++ c), []. split; [eapply ireach_eat; eauto|].
    split; [symmetry; apply app_nil_r | reflexivity].
Qed.

Lemma Forall2_Forall_l {A} (R : A -> A -> Prop) (P Q : A -> Prop) l l' :
  (forall a b, P a -> R a b -> Q b) -> Forall P l -> Forall2 R l l' -> Forall Q l'.
Proof.
  intros H HP HR. induction HR as [|a b l l' Hab HR IH]; [constructor|].
  inversion HP; subst. constructor; [eapply H; eauto | apply IH; assumption].
Qed.

(* the chunks a stopping reader's calls took from the source *)
Definition taken_chunks (cs : list bytes) (unused : list input) : list bytes := firstn (length cs - length unused) cs.

Lemma new_seen_all expected allowed : Forall (seen_all []) (w_slots (cw_new expected allowed)).
Proof.
  rewrite new_slots. rewrite Forall_map. apply Forall_forall. intros f _. split.
  - cbn [s_name s_insp]. destruct f; reflexivity.
  - exists [], []. cbn [s_insp s_err]. split; [apply ireach_init|]. split; reflexivity.
Qed.

(* a reader that stops at the first exception: whatever happened (inspectors raising and being frozen, the
   expected inspector aborting the stream), every inspector has seen a prefix of the bytes taken *)
Theorem run_stop_seen : forall cs (w w' : cwrapper) tr delivered stop unused taken0,
  Forall (seen_all taken0) (w_slots w) ->
  cw_run_stop w (map InChunk cs) = (w', tr, delivered, stop, unused) ->
  exists k, unused = map InChunk (skipn k cs) /\ (k <= length cs)%nat /\
            Forall (seen_prefix (taken0 ++ concat (firstn k cs))) (w_slots w') /\
            (stop = None -> k = length cs /\ delivered = cs) /\
            (forall e t, stop = Some (e, t) -> delivered = firstn (k - 1) cs /\ (0 < k)%nat).
Proof.
  unfold cw_run_stop. induction cs as [|c cs IH]; intros w w' tr delivered stop unused taken0 Hall H; cbn [map] in H.
  - cbn in H. inversion H; subst. exists 0%nat. cbn [skipn firstn concat length map]. rewrite app_nil_r.
    split; [reflexivity|]. split; [lia|]. split; [eapply Forall_impl; [|exact Hall]; apply seen_all_prefix|].
    split; [auto | discriminate].
  - rewrite w_run_stop_cons in H. cbn [w_step] in H. rewrite process_chunk_std in H by exact gen_shape_ok.
    destruct (pc_std istate eat complete cmatch (w_expected w) 0 (w_slots w) c) as [[ss t0] r] eqn:Hp.
    destruct (pc_std_rel _ _ _ _ _ _ _ Hp) as [Ht Hpass].
    destruct r as [e|].
    + inversion H; subst. exists 1%nat. cbn [skipn firstn concat length with_slots w_slots]. rewrite app_nil_r.
      split; [reflexivity|]. split; [lia|]. split.
      * eapply Forall2_Forall_l; [|exact Hall|exact Ht]. intros a b. apply touched_seen.
      * split; [discriminate|]. intros e0 t1 _. split; [reflexivity | lia].
    + specialize (Hpass eq_refl).
      assert (Hall1 : Forall (seen_all (taken0 ++ c)) ss).
      { eapply Forall2_Forall_l; [|exact Hall|exact Hpass]. intros a b. apply passed_seen. }
      destruct (w_run_stop istate eat finish complete cmatch gen_shape (with_slots istate w ss) (map InChunk cs))
        as [[[[w2 tr2] cs2] stop2] un2] eqn:Hr.
      inversion H; subst.
      destruct (IH (with_slots istate w ss) _ _ _ _ _ (taken0 ++ c) Hall1 Hr) as (k & Hu & Hk & Hseen & Hnone & Hsome).
      exists (S k). cbn [skipn firstn concat length]. split; [exact Hu|]. split; [lia|]. split.
      * rewrite app_assoc. exact Hseen.
      * split.
        -- intros Hs. destruct (Hnone Hs) as [-> ->]. auto.
        -- intros e t1 Hs. destruct (Hsome e t1 Hs) as [Hd Hpos]. split; [|lia].
           rewrite Hd. destruct k; [lia|]. cbn [firstn]. replace (S k - 1)%nat with k by lia. replace (S (S k) - 1)%nat with (S k) by lia. reflexivity.
Qed.

Lemma seen_prefix_finish taken s : seen_prefix taken s -> seen_prefix taken (finish_slot istate finish s).
Proof.
  intros (Hn & st & t & Hr & Ht). split; [cbn [finish_slot s_name s_insp]; rewrite name_of_finish; exact Hn|].
  exists st, t. split; [apply ireach_finish; exact Hr | exact Ht].
Qed.

(* from the invariant to the signature clause *)
Lemma seen_format_signature (w : cwrapper) taken m f :
  Forall (seen_prefix taken) (w_slots w) -> cw_format w = Ok (Some m) -> s_name m = fmt_name f -> f <> F_raw ->
  sigb f taken = true.
Proof.
  intros Hall Hf Hn Hnr.
  destruct (format_some_implies_unique_match istate complete cmatch raw_lit_nonraw raw_lit_raw _ _ Hf) as (_ & [Hm|(_ & Hraw)]).
  - assert (Hin : In m (matches istate cmatch raw_lit_nonraw w)) by (rewrite Hm; left; reflexivity).
    unfold matches, non_raw in Hin. apply filter_In in Hin. destruct Hin as [Hin Hc]. apply filter_In in Hin. destruct Hin as [Hin _].
    rewrite Forall_forall in Hall. destruct (Hall m Hin) as (Hname & st & t & Hr & Ht).
    assert (Hf' : name_of (s_insp m) = f) by (apply fmt_name_inj; congruence).
    rewrite Ht. apply sigb_app. rewrite <- Hf'. apply reach_match_signature; assumption.
  - exfalso. apply Hnr. apply (is_raw_name m f Hn).
    assert (Hi : In m (filter (is_raw istate raw_lit_raw) (w_slots w))) by (rewrite Hraw; left; reflexivity).
    apply filter_In in Hi. tauto.
Qed.

(* C03_format_implies_signature for EVERY stopping run: whatever the inspectors did (raised and were frozen)
   and whether or not the expected-format abort happened, a specific format reported — right after the last call
   or after close() — has its signature in the bytes taken from the source *)
Theorem stopped_format_signature expected allowed cs w1 tr delivered stop unused :
  cw_run_stop (cw_new expected allowed) (map InChunk cs) = (w1, tr, delivered, stop, unused) ->
  forall w m f, (w = w1 \/ w = cw_close w1) -> cw_format w = Ok (Some m) -> s_name m = fmt_name f -> f <> F_raw ->
  sigb f (concat (taken_chunks cs unused)) = true.
Proof.
  intros H w m f Hw Hf Hn Hnr.
  destruct (run_stop_seen cs _ _ _ _ _ _ [] (new_seen_all expected allowed) H) as (k & Hu & Hk & Hseen & _ & _).
  cbn [app] in Hseen.
  assert (Htk : taken_chunks cs unused = firstn k cs).
  { unfold taken_chunks. rewrite Hu, map_length, skipn_length. f_equal. lia. }
  rewrite Htk. apply (seen_format_signature w _ m f); auto.
  destruct Hw as [->| ->]; [exact Hseen|]. unfold cw_close, finish_all. cbn [w_slots]. rewrite Forall_map.
  eapply Forall_impl; [|exact Hseen]. intros s. apply seen_prefix_finish.
Qed.
