(* Proofs/Wrap.v — generic lemmas about the wrapper model (Model/Wrap.v), for ANY
   inspector type and ANY eat/finish/complete/fmatch: fault injection is just the
   universal quantification over [eat].  The lemmas that depend on the shape of
   _process_chunk take [shape_okb sh = true] (Gen: [gen_shape], discharged by
   computation in Proofs/C06.v). *)
Require Import OV.Base.Bytes OV.Base.Py OV.Base.C06_WrapShape OV.Model.Wrap.
Open Scope N_scope.

(* ------------------------------------------------------------------ bytes *)
Lemma firstn_skipn_app {A} (n m : nat) (l : list A) :
  firstn n l ++ firstn m (skipn n l) = firstn (n + m) l.
Proof.
  revert l. induction n as [|n IH]; intros l; cbn [firstn skipn plus app]; [reflexivity|].
  destruct l as [|x l]; cbn [firstn skipn app]; [now rewrite firstn_nil|]. now rewrite IH.
Qed.

Lemma bsub_app a b c d : a <= b -> b <= c -> bsub a b d ++ bsub b c d = bsub a c d.
Proof.
  intros Hab Hbc. unfold bsub, btake, bskip.
  replace (N.to_nat b) with (N.to_nat a + N.to_nat (b - a))%nat by lia.
  rewrite <- skipn_skipn'. rewrite firstn_skipn_app. f_equal. lia.
Qed.

Lemma bsub_same a d : bsub a a d = [].
Proof. unfold bsub. now rewrite N.sub_diag, btake_0. Qed.

Lemma btake_blen_btake k r : btake (blen (btake k r)) r = btake k r.
Proof.
  rewrite blen_btake. destruct (N.le_ge_cases k (blen r)) as [H|H].
  - now rewrite N.min_l.
  - rewrite N.min_r by assumption. now rewrite !btake_all by lia.
Qed.

(* ------------------------------------------------------------------ sources *)
Lemma f_chunk_is_slice s size :
  f_chunk s size = bsub (f_pos s) (f_pos s + blen (f_chunk s size)) (f_data s).
Proof.
  unfold bsub. replace (f_pos s + blen (f_chunk s size) - f_pos s) with (blen (f_chunk s size)) by lia.
  unfold f_chunk. destruct (size <? 0)%Z.
  - now rewrite btake_all by lia.
  - now rewrite btake_blen_btake.
Qed.

Lemma f_read_spec s size s' r : f_read s size = (s', r) ->
  f_data s' = f_data s /\
  ((f_closed s = true /\ s' = s /\ r = Exn ValueError) \/
   (f_closed s = false /\ f_closed s' = false /\ exists c, r = Ok c /\ f_pos s' = f_pos s + blen c /\
      c = bsub (f_pos s) (f_pos s') (f_data s))).
Proof.
  unfold f_read. destruct (f_closed s) eqn:Hc; intros H; inversion H; subst; clear H.
  - split; [reflexivity|]. left. auto.
  - cbn [f_data f_pos f_closed]. split; [reflexivity|]. right. repeat split.
    exists (f_chunk s size). repeat split. apply f_chunk_is_slice.
Qed.

Section WrapProofs.
Variable I : Type.
Variable eat : I -> bytes -> I * option exn.
Variable finish : I -> I.
Variable complete : I -> bool.
Variable fmatch : I -> bool.
Variable sh : pc_shape.

Notation slot := (slot I).
Notation wrapper := (wrapper I).
Notation pc_loop := (pc_loop I eat complete fmatch sh).
Notation process_chunk := (process_chunk I eat complete fmatch sh).
Notation finish_all := (finish_all I finish).
Notation w_step := (w_step I eat finish complete fmatch sh).
Notation w_run := (w_run I eat finish complete fmatch sh).
Notation w_run_stop := (w_run_stop I eat finish complete fmatch sh).
Notation w_read := (w_read I eat finish complete fmatch sh).
Notation w_next := (w_next I eat finish complete fmatch sh).
Notation run_reads := (run_reads I eat finish complete fmatch sh).
Notation run_iter := (run_iter I eat finish complete fmatch sh).

(* ------------------------------------------------------------------ the loop in standard form *)

(* what _process_chunk does with ONE inspector that is not errored (shape of the pinned code) *)
Definition feed_slot (expected : option str) (idx : nat) (s : slot) (chunk : bytes) : slot * eat_ev * option exn :=
  let (i', oe) := eat (s_insp s) chunk in
  let ev := {| ev_idx := idx; ev_name := s_name s; ev_chunk := chunk; ev_exn := oe |} in
  match oe with
  | Some e =>
    if name_is (s_name s) expected
    then ({| s_name := s_name s; s_insp := i'; s_err := s_err s |}, ev, Some e)
    else ({| s_name := s_name s; s_insp := i'; s_err := true |}, ev, None)
  | None =>
    ({| s_name := s_name s; s_insp := i'; s_err := s_err s |}, ev,
     if name_is (s_name s) expected && complete i' && negb (fmatch i') then Some ImageFormatError else None)
  end.

Fixpoint pc_std (expected : option str) (idx : nat) (ss : list slot) (chunk : bytes)
  : list slot * list eat_ev * option exn :=
  match ss with
  | [] => ([], [], None)
  | s :: rest =>
    if s_err s then
      let '(rest', tr, r) := pc_std expected (S idx) rest chunk in (s :: rest', tr, r)
    else
      let '(s', ev, r) := feed_slot expected idx s chunk in
      match r with
      | Some e => (s' :: rest, [ev], Some e)
      | None => let '(rest', tr, r') := pc_std expected (S idx) rest chunk in (s' :: rest', ev :: tr, r')
      end
  end.

Hypothesis Hsh : shape_okb sh = true.

Lemma pc_loop_std expected idx ss chunk : pc_loop expected idx ss chunk = pc_std expected idx ss chunk.
Proof.
  destruct (shape_okb_spec sh Hsh) as (Hskip & Hadd & Hrr & Helse).
  revert idx. induction ss as [|s rest IH]; intros idx; cbn [Wrap.pc_loop pc_std]; [reflexivity|].
  rewrite Hskip. cbn [andb]. unfold feed_slot. destruct (s_err s) eqn:Herr.
  - now rewrite IH.
  - destruct (eat (s_insp s) chunk) as [i' oe]. destruct oe as [e|].
    + rewrite Hrr. cbn [eval_reraise]. destruct (name_is (s_name s) expected); [reflexivity|].
      rewrite Hadd. now rewrite IH.
    + rewrite Helse. destruct (name_is (s_name s) expected && complete i' && negb (fmatch i')); [reflexivity|].
      now rewrite IH.
Qed.

(* ------------------------------------------------------------------ facts about one pass of the loop *)

Lemma feed_slot_spec expected idx s chunk s' ev r :
  feed_slot expected idx s chunk = (s', ev, r) ->
  s_name s' = s_name s /\ ev_idx ev = idx /\ ev_name ev = s_name s /\ ev_chunk ev = chunk /\
  eat (s_insp s) chunk = (s_insp s', ev_exn ev) /\
  (s_err s = true -> s_err s' = true) /\
  (forall e, ev_exn ev = Some e -> name_is (s_name s) expected = false -> s_err s' = true /\ r = None) /\
  (forall e, ev_exn ev = Some e -> name_is (s_name s) expected = true -> s_err s' = s_err s /\ r = Some e) /\
  (ev_exn ev = None -> s_err s' = s_err s /\
     r = if name_is (s_name s) expected && complete (s_insp s') && negb (fmatch (s_insp s')) then Some ImageFormatError else None).
Proof.
  unfold feed_slot. destruct (eat (s_insp s) chunk) as [i' oe] eqn:He. destruct oe as [e|].
  - destruct (name_is (s_name s) expected) eqn:Hn; intros H; inversion H; subst; clear H; cbn;
      repeat split; auto; try discriminate; intros e0 H0; inversion H0; subst; auto; discriminate.
  - intros H; inversion H; subst; clear H; cbn. repeat split; auto; discriminate.
Qed.

Lemma pc_std_names expected idx ss chunk ss' tr r :
  pc_std expected idx ss chunk = (ss', tr, r) -> map (@s_name I) ss' = map (@s_name I) ss.
Proof.
  revert idx ss' tr r. induction ss as [|s rest IH]; intros idx ss' tr r; cbn [pc_std].
  - intros H; inversion H; reflexivity.
  - destruct (s_err s).
    + destruct (pc_std expected (S idx) rest chunk) as [[rest' tr'] r'] eqn:Hr. intros H; inversion H; subst.
      cbn [map]. f_equal. eapply IH; eauto.
    + destruct (feed_slot expected idx s chunk) as [[s' ev] r0] eqn:Hf.
      destruct (feed_slot_spec _ _ _ _ _ _ _ Hf) as (Hn & _).
      destruct r0.
      * intros H; inversion H; subst. cbn [map]. now rewrite Hn.
      * destruct (pc_std expected (S idx) rest chunk) as [[rest' tr'] r'] eqn:Hr. intros H; inversion H; subst.
        cbn [map]. rewrite Hn. f_equal. eapply IH; eauto.
Qed.

Lemma pc_std_length expected idx ss chunk ss' tr r :
  pc_std expected idx ss chunk = (ss', tr, r) -> length ss' = length ss.
Proof. intros H. apply pc_std_names in H. apply (f_equal (@length _)) in H. now rewrite !map_length in H. Qed.

(* errored slots are not touched; the errored flag never goes back *)
Lemma pc_std_mono expected idx ss chunk ss' tr r :
  pc_std expected idx ss chunk = (ss', tr, r) ->
  forall k s, nth_error ss k = Some s ->
    exists s', nth_error ss' k = Some s' /\ s_name s' = s_name s /\ (s_err s = true -> s' = s).
Proof.
  revert idx ss' tr r. induction ss as [|s0 rest IH]; intros idx ss' tr r; cbn [pc_std].
  - intros _ k s Hk. destruct k; discriminate.
  - destruct (s_err s0) eqn:Herr.
    + destruct (pc_std expected (S idx) rest chunk) as [[rest' tr'] r'] eqn:Hr. intros H; inversion H; subst.
      intros [|k] s Hk; cbn [nth_error] in *.
      * inversion Hk; subst. eauto.
      * eapply IH; eauto.
    + destruct (feed_slot expected idx s0 chunk) as [[s' ev] r0] eqn:Hf.
      destruct (feed_slot_spec _ _ _ _ _ _ _ Hf) as (Hn & _).
      destruct r0.
      * intros H; inversion H; subst. intros [|k] s Hk; cbn [nth_error] in *.
        -- inversion Hk; subst. exists s'. repeat split; auto. congruence.
        -- exists s. auto.
      * destruct (pc_std expected (S idx) rest chunk) as [[rest' tr'] r'] eqn:Hr. intros H; inversion H; subst.
        intros [|k] s Hk; cbn [nth_error] in *.
        -- inversion Hk; subst. exists s'. repeat split; auto. congruence.
        -- eapply IH; eauto.
Qed.

(* every eat_chunk call of one pass: which slot, that it was not errored, what it did to it *)
Lemma pc_std_events expected idx ss chunk ss' tr r :
  pc_std expected idx ss chunk = (ss', tr, r) ->
  forall ev, In ev tr ->
    (idx <= ev_idx ev)%nat /\ ev_chunk ev = chunk /\
    exists s s', nth_error ss (ev_idx ev - idx) = Some s /\ nth_error ss' (ev_idx ev - idx) = Some s' /\
      s_err s = false /\ ev_name ev = s_name s /\
      eat (s_insp s) chunk = (s_insp s', ev_exn ev) /\
      (forall e, ev_exn ev = Some e -> name_is (ev_name ev) expected = false -> s_err s' = true).
Proof.
  revert idx ss' tr r. induction ss as [|s0 rest IH]; intros idx ss' tr r; cbn [pc_std].
  - intros H; inversion H; subst. intros ev [].
  - assert (Hshift : forall ev (l l' : list slot) a a', (S idx <= ev_idx ev)%nat ->
       (exists s s', nth_error l (ev_idx ev - S idx) = Some s /\ nth_error l' (ev_idx ev - S idx) = Some s' /\
          s_err s = false /\ ev_name ev = s_name s /\ eat (s_insp s) chunk = (s_insp s', ev_exn ev) /\
          (forall e, ev_exn ev = Some e -> name_is (ev_name ev) expected = false -> s_err s' = true)) ->
       (exists s s', nth_error (a :: l) (ev_idx ev - idx) = Some s /\ nth_error (a' :: l') (ev_idx ev - idx) = Some s' /\
          s_err s = false /\ ev_name ev = s_name s /\ eat (s_insp s) chunk = (s_insp s', ev_exn ev) /\
          (forall e, ev_exn ev = Some e -> name_is (ev_name ev) expected = false -> s_err s' = true))).
    { intros ev l l' a a' Hle (s & s' & H1 & H2 & H3).
      replace (ev_idx ev - idx)%nat with (S (ev_idx ev - S idx)) by lia. cbn [nth_error]. eauto. }
    destruct (s_err s0) eqn:Herr.
    + destruct (pc_std expected (S idx) rest chunk) as [[rest' tr'] r'] eqn:Hr. intros H; inversion H; subst.
      intros ev Hin. destruct (IH _ _ _ _ Hr ev Hin) as (Hle & Hc & Hex).
      split; [lia|]. split; [assumption|]. apply Hshift; [lia|assumption].
    + destruct (feed_slot expected idx s0 chunk) as [[s' ev0] r0] eqn:Hf.
      destruct (feed_slot_spec _ _ _ _ _ _ _ Hf) as (Hn & Hi & Hnm & Hch & Heat & _ & Hne & _).
      assert (Hhead : (idx <= ev_idx ev0)%nat /\ ev_chunk ev0 = chunk /\
        forall l l', exists s s'0, nth_error (s0 :: l) (ev_idx ev0 - idx) = Some s /\ nth_error (s' :: l') (ev_idx ev0 - idx) = Some s'0 /\
          s_err s = false /\ ev_name ev0 = s_name s /\ eat (s_insp s) chunk = (s_insp s'0, ev_exn ev0) /\
          (forall e, ev_exn ev0 = Some e -> name_is (ev_name ev0) expected = false -> s_err s'0 = true)).
      { split; [lia|]. split; [assumption|]. intros l l'. rewrite Hi, Nat.sub_diag. cbn [nth_error].
        exists s0, s'. repeat split; auto. intros e He Hx. rewrite Hnm in Hx. apply (Hne e He Hx). }
      destruct Hhead as (Hh1 & Hh2 & Hh3).
      destruct r0.
      * intros H; inversion H; subst. intros ev [<-|[]]. split; [assumption|]. split; [assumption|]. apply Hh3.
      * destruct (pc_std expected (S idx) rest chunk) as [[rest' tr'] r'] eqn:Hr. intros H; inversion H; subst.
        intros ev [<-|Hin].
        -- split; [assumption|]. split; [assumption|]. apply Hh3.
        -- destruct (IH _ _ _ _ Hr ev Hin) as (Hle & Hc & Hex).
           split; [lia|]. split; [assumption|]. apply Hshift; [lia|assumption].
Qed.

(* within one pass the positions of the inspectors fed are strictly increasing *)
Lemma pc_std_sorted expected idx ss chunk ss' tr r :
  pc_std expected idx ss chunk = (ss', tr, r) ->
  forall t1 ev t2, tr = t1 ++ ev :: t2 -> forall ev', In ev' t2 -> (ev_idx ev < ev_idx ev')%nat.
Proof.
  revert idx ss' tr r. induction ss as [|s0 rest IH]; intros idx ss' tr r; cbn [pc_std].
  - intros H; inversion H; subst. intros [|? ?] ? ? Ht; discriminate.
  - destruct (s_err s0) eqn:Herr.
    + destruct (pc_std expected (S idx) rest chunk) as [[rest' tr'] r'] eqn:Hr. intros H; inversion H; subst.
      eapply IH; eauto.
    + destruct (feed_slot expected idx s0 chunk) as [[s' ev0] r0] eqn:Hf.
      destruct (feed_slot_spec _ _ _ _ _ _ _ Hf) as (_ & Hi & _).
      destruct r0.
      * intros H; inversion H; subst. intros [|a t1] ev t2 Ht; inversion Ht; subst.
        -- intros ev' [].
        -- destruct t1; discriminate.
      * destruct (pc_std expected (S idx) rest chunk) as [[rest' tr'] r'] eqn:Hr. intros H; inversion H; subst.
        intros [|a t1] ev t2 Ht; inversion Ht; subst.
        -- intros ev' Hin. destruct (pc_std_events _ _ _ _ _ _ _ Hr ev' Hin) as (Hle & _). lia.
        -- eapply IH; eauto.
Qed.

(* where an exception leaving the loop comes from *)
Lemma pc_std_surface expected idx ss chunk ss' tr r :
  pc_std expected idx ss chunk = (ss', tr, r) ->
  match r with
  | Some e =>
    exists tr0 ev s', tr = tr0 ++ [ev] /\ name_is (ev_name ev) expected = true /\
      nth_error ss' (ev_idx ev - idx) = Some s' /\
      (ev_exn ev = Some e \/
       (ev_exn ev = None /\ e = ImageFormatError /\ complete (s_insp s') = true /\ fmatch (s_insp s') = false))
  | None =>
    forall ev, In ev tr -> name_is (ev_name ev) expected = true ->
      ev_exn ev = None /\
      exists s', nth_error ss' (ev_idx ev - idx) = Some s' /\ complete (s_insp s') && negb (fmatch (s_insp s')) = false
  end.
Proof.
  revert idx ss' tr r. induction ss as [|s0 rest IH]; intros idx ss' tr r; cbn [pc_std].
  - intros H; inversion H; subst. intros ev [].
  - destruct (s_err s0) eqn:Herr.
    + destruct (pc_std expected (S idx) rest chunk) as [[rest' tr'] r'] eqn:Hr. intros H; inversion H; subst.
      specialize (IH _ _ _ _ Hr). destruct r as [e|].
      * destruct IH as (tr0 & ev & s' & Ht & Hn & Hnth & Hc). exists tr0, ev, s'. repeat split; auto.
        assert (S idx <= ev_idx ev)%nat.
        { destruct (pc_std_events _ _ _ _ _ _ _ Hr ev) as (Hle & _); [subst; apply in_or_app; right; left; reflexivity|lia]. }
        replace (ev_idx ev - idx)%nat with (S (ev_idx ev - S idx)) by lia. exact Hnth.
      * intros ev Hin Hn. destruct (IH ev Hin Hn) as (He & s' & Hnth & Hc). split; [assumption|].
        exists s'. split; [|assumption].
        destruct (pc_std_events _ _ _ _ _ _ _ Hr ev Hin) as (Hle & _).
        replace (ev_idx ev - idx)%nat with (S (ev_idx ev - S idx)) by lia. exact Hnth.
    + destruct (feed_slot expected idx s0 chunk) as [[s' ev0] r0] eqn:Hf.
      destruct (feed_slot_spec _ _ _ _ _ _ _ Hf) as (Hn & Hi & Hnm & Hch & Heat & _ & Hne & Hee & Hnone).
      destruct r0 as [e0|].
      * intros H; inversion H; subst ss' tr r. exists [], ev0, s'. cbn [app]. rewrite Hi, Nat.sub_diag. cbn [nth_error].
        destruct (ev_exn ev0) as [e1|] eqn:Hx.
        -- destruct (name_is (s_name s0) expected) eqn:Hnx.
           ++ destruct (Hee e1 eq_refl eq_refl) as (_ & Hr). inversion Hr; subst. rewrite Hnm. repeat split; auto.
           ++ destruct (Hne e1 eq_refl eq_refl) as (_ & Hr). discriminate.
        -- destruct (Hnone eq_refl) as (_ & Hr).
           destruct (name_is (s_name s0) expected) eqn:Hnx; cbn [andb] in Hr; [|discriminate].
           destruct (complete (s_insp s')) eqn:Hc; cbn [andb] in Hr; [|discriminate].
           destruct (fmatch (s_insp s')) eqn:Hm; cbn [negb] in Hr; [discriminate|]. inversion Hr; subst.
           rewrite Hnm. repeat split; auto.
      * destruct (pc_std expected (S idx) rest chunk) as [[rest' tr'] r'] eqn:Hr. intros H; inversion H; subst ss' tr r.
        specialize (IH _ _ _ _ Hr).
        assert (Hhead : name_is (ev_name ev0) expected = true -> ev_exn ev0 = None /\
                  complete (s_insp s') && negb (fmatch (s_insp s')) = false).
        { rewrite Hnm. intros Hnx. destruct (ev_exn ev0) as [e1|] eqn:Hx.
          - destruct (Hee e1 eq_refl Hnx) as (_ & Hr0). discriminate.
          - split; [reflexivity|]. destruct (Hnone eq_refl) as (_ & Hr0). rewrite Hnx in Hr0. cbn [andb] in Hr0.
            destruct (complete (s_insp s') && negb (fmatch (s_insp s'))); [discriminate|reflexivity]. }
        destruct r' as [e|].
        -- destruct IH as (tr0 & ev & s'' & Ht & Hnn & Hnth & Hc). exists (ev0 :: tr0), ev, s''. subst tr'.
           repeat split; auto.
           assert (S idx <= ev_idx ev)%nat.
           { destruct (pc_std_events _ _ _ _ _ _ _ Hr ev) as (Hle & _); [apply in_or_app; right; left; reflexivity|lia]. }
           replace (ev_idx ev - idx)%nat with (S (ev_idx ev - S idx)) by lia. exact Hnth.
        -- intros ev [<-|Hin] Hnn.
           ++ destruct (Hhead Hnn) as (Hx & Hc). split; [assumption|]. exists s'. rewrite Hi, Nat.sub_diag. auto.
           ++ destruct (IH ev Hin Hnn) as (He & s'' & Hnth & Hc). split; [assumption|]. exists s''. split; [|assumption].
              destruct (pc_std_events _ _ _ _ _ _ _ Hr ev Hin) as (Hle & _).
              replace (ev_idx ev - idx)%nat with (S (ev_idx ev - S idx)) by lia. exact Hnth.
Qed.

(* ------------------------------------------------------------------ one wrapper call *)
Notation err_at := (err_at I).

Lemma process_chunk_std w chunk :
  process_chunk w chunk =
  let '(ss, tr, r) := pc_std (w_expected w) 0 (w_slots w) chunk in (with_slots I w ss, tr, r).
Proof. unfold Wrap.process_chunk. now rewrite pc_loop_std. Qed.

Lemma finish_all_slots w k :
  nth_error (w_slots (finish_all w)) k = option_map (finish_slot I finish) (nth_error (w_slots w) k).
Proof. unfold Wrap.finish_all. cbn [w_slots]. apply nth_error_map. Qed.

Lemma w_step_expected w inp w' tr o : w_step w inp = (w', tr, o) -> w_expected w' = w_expected w.
Proof.
  destruct inp; cbn [Wrap.w_step].
  - rewrite process_chunk_std. destruct (pc_std (w_expected w) 0 (w_slots w) c) as [[ss t] r].
    intros H; inversion H; reflexivity.
  - intros H; inversion H; reflexivity.
  - intros H; inversion H; reflexivity.
  - intros H; inversion H; reflexivity.
Qed.

Lemma w_step_names w inp w' tr o : w_step w inp = (w', tr, o) ->
  map (@s_name I) (w_slots w') = map (@s_name I) (w_slots w).
Proof.
  destruct inp; cbn [Wrap.w_step].
  - rewrite process_chunk_std. destruct (pc_std (w_expected w) 0 (w_slots w) c) as [[ss t] r] eqn:Hp.
    intros H; inversion H; subst. cbn [w_slots with_slots]. eapply pc_std_names; eauto.
  - intros H; inversion H; subst. cbn. rewrite map_map. reflexivity.
  - intros H; inversion H; reflexivity.
  - intros H; inversion H; subst. cbn. rewrite map_map. reflexivity.
Qed.

(* the errored set only grows *)
Lemma w_step_err_mono w inp w' tr o k : w_step w inp = (w', tr, o) -> err_at w k = true -> err_at w' k = true.
Proof.
  unfold Wrap.err_at. destruct inp; cbn [Wrap.w_step].
  - rewrite process_chunk_std. destruct (pc_std (w_expected w) 0 (w_slots w) c) as [[ss t] r] eqn:Hp.
    intros H; inversion H; subst. cbn [w_slots with_slots].
    destruct (nth_error (w_slots w) k) as [s|] eqn:Hk; [|discriminate]. intros He.
    destruct (pc_std_mono _ _ _ _ _ _ _ Hp k s Hk) as (s' & Hk' & _ & Hs). rewrite Hk'. rewrite (Hs He). exact He.
  - intros H; inversion H; subst. rewrite finish_all_slots. destruct (nth_error (w_slots w) k); auto.
  - intros H; inversion H; subst. auto.
  - intros H; inversion H; subst. rewrite finish_all_slots. destruct (nth_error (w_slots w) k); auto.
Qed.

(* every eat_chunk call of one wrapper call: the inspector was not in the errored set,
   it got the chunk of this call, and if it raised and is not the expected one it is
   in the errored set afterwards *)
Lemma w_step_events w inp w' tr o : w_step w inp = (w', tr, o) ->
  forall ev, In ev tr ->
    err_at w (ev_idx ev) = false /\ inp = InChunk (ev_chunk ev) /\
    (exists s s', nth_error (w_slots w) (ev_idx ev) = Some s /\ nth_error (w_slots w') (ev_idx ev) = Some s' /\
       ev_name ev = s_name s /\ eat (s_insp s) (ev_chunk ev) = (s_insp s', ev_exn ev)) /\
    (forall e, ev_exn ev = Some e -> name_is (ev_name ev) (w_expected w) = false -> err_at w' (ev_idx ev) = true).
Proof.
  unfold Wrap.err_at. destruct inp; cbn [Wrap.w_step].
  - rewrite process_chunk_std. destruct (pc_std (w_expected w) 0 (w_slots w) c) as [[ss t] r] eqn:Hp.
    intros H; inversion H; subst. intros ev Hin. cbn [w_slots with_slots].
    destruct (pc_std_events _ _ _ _ _ _ _ Hp ev Hin) as (_ & Hc & s & s' & H1 & H2 & H3 & H4 & H5 & H6).
    rewrite Nat.sub_0_r in H1, H2. rewrite H1, H2. subst c. repeat split; auto.
    exists s, s'. auto.
  - intros H; inversion H; subst. intros ev [].
  - intros H; inversion H; subst. intros ev [].
  - intros H; inversion H; subst. intros ev [].
Qed.

Lemma w_step_sorted w inp w' tr o : w_step w inp = (w', tr, o) ->
  forall t1 ev t2, tr = t1 ++ ev :: t2 -> forall ev', In ev' t2 -> (ev_idx ev < ev_idx ev')%nat.
Proof.
  destruct inp; cbn [Wrap.w_step].
  - rewrite process_chunk_std. destruct (pc_std (w_expected w) 0 (w_slots w) c) as [[ss t] r] eqn:Hp.
    intros H; inversion H; subst. eapply pc_std_sorted; eauto.
  - intros H; inversion H; subst. intros [|? ?] ? ? Ht; discriminate.
  - intros H; inversion H; subst. intros [|? ?] ? ? Ht; discriminate.
  - intros H; inversion H; subst. intros [|? ?] ? ? Ht; discriminate.
Qed.

(* THE PIPE: whatever a call returns is the chunk its source handed out in that call *)
Lemma w_step_identity w inp w' tr o : w_step w inp = (w', tr, o) ->
  match o with
  | OutChunk c => inp = InChunk c
  | OutNone => inp = InClose
  | OutExn _ => True
  end.
Proof.
  destruct inp; cbn [Wrap.w_step].
  - destruct (process_chunk w c) as [[w1 t] r]. intros H; inversion H; subst. destruct r; auto.
  - intros H; inversion H; subst. auto.
  - intros H; inversion H; subst. auto.
  - intros H; inversion H; subst. auto.
Qed.

(* where an exception reaching the reader comes from: the source itself, or the LAST
   eat_chunk call of this wrapper call, made on an inspector whose NAME is the expected
   format: either that call raised it, or it succeeded and the inspector is complete
   without matching (ImageFormatError) *)
Definition surfaced_from_expected (w w' : wrapper) (tr : list eat_ev) (e : exn) : Prop :=
  exists tr0 ev s', tr = tr0 ++ [ev] /\ name_is (ev_name ev) (w_expected w) = true /\
    nth_error (w_slots w') (ev_idx ev) = Some s' /\
    (ev_exn ev = Some e \/
     (ev_exn ev = None /\ e = ImageFormatError /\ complete (s_insp s') = true /\ fmatch (s_insp s') = false)).

Lemma w_step_surface w inp w' tr o e : w_step w inp = (w', tr, o) -> o = OutExn e ->
  (inp = InStop /\ e = StopIteration /\ tr = []) \/ (inp = InSrcErr e /\ tr = []) \/
  ((exists c, inp = InChunk c) /\ surfaced_from_expected w w' tr e).
Proof.
  destruct inp; cbn [Wrap.w_step].
  - rewrite process_chunk_std. destruct (pc_std (w_expected w) 0 (w_slots w) c) as [[ss t] r] eqn:Hp.
    intros H; inversion H; subst. clear H. destruct r as [e0|]; [|discriminate]. intros H; inversion H; subst.
    right; right. split; [eauto|]. pose proof (pc_std_surface _ _ _ _ _ _ _ Hp) as Hs. cbn in Hs.
    destruct Hs as (tr0 & ev & s' & Ht & Hn & Hnth & Hc). rewrite Nat.sub_0_r in Hnth.
    exists tr0, ev, s'. cbn [w_slots with_slots]. auto.
  - intros H; inversion H; subst. intros H0; inversion H0; subst. left. auto.
  - intros H; inversion H; subst. intros H0; inversion H0; subst. right; left. auto.
  - intros H; inversion H; subst. discriminate.
Qed.

(* ... and conversely a delivered chunk means that no inspector named like the expected
   format failed or was complete-without-match in this call *)
Lemma w_step_delivered w c w' tr o : w_step w (InChunk c) = (w', tr, o) -> o = OutChunk c ->
  forall ev, In ev tr -> name_is (ev_name ev) (w_expected w) = true ->
    ev_exn ev = None /\
    exists s', nth_error (w_slots w') (ev_idx ev) = Some s' /\ complete (s_insp s') && negb (fmatch (s_insp s')) = false.
Proof.
  cbn [Wrap.w_step]. rewrite process_chunk_std.
  destruct (pc_std (w_expected w) 0 (w_slots w) c) as [[ss t] r] eqn:Hp.
  intros H; inversion H; subst. clear H. destruct r as [e0|]; [discriminate|]. intros _.
  pose proof (pc_std_surface _ _ _ _ _ _ _ Hp) as Hs. cbn in Hs. intros ev Hin Hn.
  destruct (Hs ev Hin Hn) as (Hx & s' & Hnth & Hc). rewrite Nat.sub_0_r in Hnth. cbn [w_slots with_slots]. eauto.
Qed.

(* no inspector carries the expected name (expected_format=None, a name not in
   allowed_formats, ...): no call on a chunk ever raises *)
Lemma w_step_no_expected w c w' tr o :
  (forall s, In s (w_slots w) -> name_is (s_name s) (w_expected w) = false) ->
  w_step w (InChunk c) = (w', tr, o) -> o = OutChunk c.
Proof.
  intros Hno H. destruct o as [c'|e|].
  - apply w_step_identity in H. congruence.
  - exfalso. destruct (w_step_surface _ _ _ _ _ e H eq_refl) as [(Hx & _)|[(Hx & _)|(_ & Hs)]]; try discriminate.
    destruct Hs as (tr0 & ev & s' & Ht & Hn & _).
    destruct (w_step_events _ _ _ _ _ H ev) as (_ & _ & (s & s0 & Hk & _ & Hnm & _) & _).
    { subst. apply in_or_app. right. left. reflexivity. }
    apply nth_error_In in Hk. rewrite Hnm in Hn. rewrite (Hno s Hk) in Hn. discriminate.
  - apply w_step_identity in H. discriminate.
Qed.

(* _finish: StopIteration from the source and close() call finish() on EVERY inspector,
   errored ones included, and set _finished *)
Lemma finish_all_spec w :
  map (@s_insp I) (w_slots (finish_all w)) = map finish (map (@s_insp I) (w_slots w)) /\
  map (@s_name I) (w_slots (finish_all w)) = map (@s_name I) (w_slots w) /\
  map (@s_err I) (w_slots (finish_all w)) = map (@s_err I) (w_slots w) /\
  w_finished (finish_all w) = true /\ w_expected (finish_all w) = w_expected w.
Proof. unfold Wrap.finish_all. cbn. rewrite !map_map. repeat split. Qed.

Lemma w_step_stop w : w_step w InStop = (finish_all w, [], OutExn StopIteration).
Proof. reflexivity. Qed.
Lemma w_step_close w : w_step w InClose = (finish_all w, [], OutNone).
Proof. reflexivity. Qed.

(* ------------------------------------------------------------------ any sequence of calls *)

Lemma w_run_cons w inp rest :
  w_run w (inp :: rest) =
  let '(w1, tr1, o) := w_step w inp in let (w2, recs) := w_run w1 rest in
  (w2, {| sr_in := inp; sr_tr := tr1; sr_out := o |} :: recs).
Proof. reflexivity. Qed.

Lemma w_run_expected w inps w' recs : w_run w inps = (w', recs) -> w_expected w' = w_expected w.
Proof.
  revert w w' recs. induction inps as [|inp rest IH]; intros w w' recs.
  - intros H; inversion H; reflexivity.
  - rewrite w_run_cons. destruct (w_step w inp) as [[w1 tr1] o] eqn:Hs.
    destruct (w_run w1 rest) as [w2 recs2] eqn:Hr. intros H; inversion H; subst.
    rewrite (IH _ _ _ Hr). eapply w_step_expected; eauto.
Qed.

(* reads_are_identity, for every sequence of calls and whatever the inspectors do *)
Theorem reads_are_identity w inps w' recs : w_run w inps = (w', recs) ->
  map sr_in recs = inps /\
  Forall (fun r => match sr_out r with
                   | OutChunk c => sr_in r = InChunk c
                   | OutNone => sr_in r = InClose
                   | OutExn _ => True end) recs.
Proof.
  revert w w' recs. induction inps as [|inp rest IH]; intros w w' recs.
  - intros H; inversion H; subst. split; constructor.
  - rewrite w_run_cons. destruct (w_step w inp) as [[w1 tr1] o] eqn:Hs.
    destruct (w_run w1 rest) as [w2 recs2] eqn:Hr. intros H; inversion H; subst.
    destruct (IH _ _ _ Hr) as (Hm & Hf). split; [cbn; now rewrite Hm|].
    constructor; [|assumption]. cbn. eapply w_step_identity; eauto.
Qed.

Lemma w_run_app w l1 l2 :
  w_run w (l1 ++ l2) = let (w1, r1) := w_run w l1 in let (w2, r2) := w_run w1 l2 in (w2, r1 ++ r2).
Proof.
  revert w. induction l1 as [|inp rest IH]; intros w; cbn [app].
  - cbn. destruct (w_run w l2). reflexivity.
  - rewrite !w_run_cons. destruct (w_step w inp) as [[w1 tr1] o]. rewrite IH.
    destruct (w_run w1 rest) as [w2 r2]. destruct (w_run w2 l2) as [w3 r3]. reflexivity.
Qed.

(* source_fault_transparent: a call in which the SOURCE raises (anything but the StopIteration
   of an iterator) reaches the reader as that exception and leaves the wrapper exactly as it
   was: every other call of the session gives what it would give had the failed call not
   happened *)
Theorem source_fault_transparent w l1 e l2 :
  w_step w (InSrcErr e) = (w, [], OutExn e) /\
  w_run w (l1 ++ InSrcErr e :: l2) =
    (let (w1, r1) := w_run w l1 in let (w2, r2) := w_run w1 l2 in
     (w2, r1 ++ {| sr_in := InSrcErr e; sr_tr := []; sr_out := OutExn e |} :: r2)) /\
  w_run w (l1 ++ l2) =
    (let (w1, r1) := w_run w l1 in let (w2, r2) := w_run w1 l2 in (w2, r1 ++ r2)).
Proof.
  split; [reflexivity|]. split; [|apply w_run_app].
  rewrite w_run_app. destruct (w_run w l1) as [w1 r1]. rewrite w_run_cons. cbn [Wrap.w_step].
  destruct (w_run w1 l2) as [w2 r2]. reflexivity.
Qed.

(* an inspector in the errored set is never fed *)
Lemma errored_not_fed w inps w' recs k : w_run w inps = (w', recs) -> err_at w k = true ->
  forall ev, In ev (run_trace recs) -> ev_idx ev <> k.
Proof.
  revert w w' recs. induction inps as [|inp rest IH]; intros w w' recs.
  - intros H; inversion H; subst. intros _ ev [].
  - rewrite w_run_cons. destruct (w_step w inp) as [[w1 tr1] o] eqn:Hs.
    destruct (w_run w1 rest) as [w2 recs2] eqn:Hr. intros H; inversion H; subst. intros He ev.
    unfold run_trace. cbn [map concat sr_tr]. intros Hin. apply in_app_or in Hin. destruct Hin as [Hin|Hin].
    + destruct (w_step_events _ _ _ _ _ Hs ev Hin) as (Hne & _). intros Hk. rewrite Hk in Hne. congruence.
    + eapply IH; eauto. eapply w_step_err_mono; eauto.
Qed.

(* errored_never_fed_again: in the trace of ALL eat_chunk calls of any session, once a
   call on an inspector whose NAME is not the expected format has raised, no later call
   is made on that inspector *)
Theorem errored_never_fed_again w inps w' recs : w_run w inps = (w', recs) ->
  forall t1 ev t2 e, run_trace recs = t1 ++ ev :: t2 ->
    ev_exn ev = Some e -> name_is (ev_name ev) (w_expected w) = false ->
    forall ev', In ev' t2 -> ev_idx ev' <> ev_idx ev.
Proof.
  revert w w' recs. induction inps as [|inp rest IH]; intros w w' recs.
  - intros H; inversion H; subst. intros [|? ?] ? ? ? Ht; discriminate.
  - rewrite w_run_cons. destruct (w_step w inp) as [[w1 tr1] o] eqn:Hs.
    destruct (w_run w1 rest) as [w2 recs2] eqn:Hr. intros H; inversion H; subst.
    intros t1 ev t2 e Ht Hx Hn ev' Hin'.
    unfold run_trace in Ht. cbn [map concat sr_tr] in Ht. fold (run_trace recs2) in Ht.
    (* is ev in the trace of this call or of a later one? *)
    assert (Hcase : (exists t2a, tr1 = t1 ++ ev :: t2a /\ t2 = t2a ++ run_trace recs2) \/
                    (exists t1b, t1 = tr1 ++ t1b /\ run_trace recs2 = t1b ++ ev :: t2)).
    { clear - Ht. revert t1 Ht. induction tr1 as [|a tr1 IHt]; intros t1 Ht.
      - right. exists t1. auto.
      - destruct t1 as [|b t1]; cbn [app] in Ht.
        + inversion Ht; subst. left. exists tr1. auto.
        + inversion Ht; subst. destruct (IHt t1 H1) as [(t2a & Ha & Hb)|(t1b & Ha & Hb)].
          * left. exists t2a. split; [cbn; now rewrite Ha|assumption].
          * right. exists t1b. split; [cbn; now rewrite Ha|assumption]. }
    destruct Hcase as [(t2a & Ha & Hb)|(t1b & Ha & Hb)].
    + subst t2. apply in_app_or in Hin'. destruct Hin' as [Hin'|Hin'].
      * pose proof (w_step_sorted _ _ _ _ _ Hs _ _ _ Ha ev' Hin'). lia.
      * destruct (w_step_events _ _ _ _ _ Hs ev) as (_ & _ & _ & Herr).
        { rewrite Ha. apply in_or_app. right. left. reflexivity. }
        eapply errored_not_fed; eauto.
    + eapply IH; eauto. rewrite (w_step_expected _ _ _ _ _ Hs). exact Hn.
Qed.

(* non_expected_faults_never_surface: every exception that reaches the reader in any
   session is the source's own, or comes from the last eat_chunk call of that wrapper
   call, made on an inspector whose NAME is the expected format *)
Theorem non_expected_faults_never_surface w inps w' recs : w_run w inps = (w', recs) ->
  Forall (fun r => forall e, sr_out r = OutExn e ->
            (sr_in r = InStop /\ e = StopIteration) \/ sr_in r = InSrcErr e \/
            exists tr0 ev, sr_tr r = tr0 ++ [ev] /\ name_is (ev_name ev) (w_expected w) = true /\
              (ev_exn ev = Some e \/ (ev_exn ev = None /\ e = ImageFormatError))) recs.
Proof.
  revert w w' recs. induction inps as [|inp rest IH]; intros w w' recs.
  - intros H; inversion H; subst. constructor.
  - rewrite w_run_cons. destruct (w_step w inp) as [[w1 tr1] o] eqn:Hs.
    destruct (w_run w1 rest) as [w2 recs2] eqn:Hr. intros H; inversion H; subst.
    constructor.
    + cbn. intros e He.
      destruct (w_step_surface _ _ _ _ _ e Hs He) as [(H1 & H2 & _)|[(H1 & _)|(_ & Hsf)]]; auto.
      right; right. destruct Hsf as (tr0 & ev & s' & Ht & Hn & _ & Hc). exists tr0, ev. repeat split; auto.
      destruct Hc as [Hc|(Hc1 & Hc2 & _)]; auto.
    + specialize (IH _ _ _ Hr). rewrite (w_step_expected _ _ _ _ _ Hs) in IH. exact IH.
Qed.

(* with no inspector named like the expected format, no call on a chunk raises *)
Theorem no_expected_inspector_no_exception w inps w' recs :
  (forall s, In s (w_slots w) -> name_is (s_name s) (w_expected w) = false) ->
  w_run w inps = (w', recs) ->
  Forall (fun r => forall c, sr_in r = InChunk c -> sr_out r = OutChunk c) recs.
Proof.
  revert w w' recs. induction inps as [|inp rest IH]; intros w w' recs Hno.
  - intros H; inversion H; subst. constructor.
  - rewrite w_run_cons. destruct (w_step w inp) as [[w1 tr1] o] eqn:Hs.
    destruct (w_run w1 rest) as [w2 recs2] eqn:Hr. intros H; inversion H; subst.
    constructor.
    + cbn. intros c ->. eapply w_step_no_expected; eauto.
    + apply (IH w1 w' recs2); [|exact Hr]. intros s Hin. rewrite (w_step_expected _ _ _ _ _ Hs).
      pose proof (w_step_names _ _ _ _ _ Hs) as Hnm.
      assert (In (s_name s) (map (@s_name I) (w_slots w))) as Hi by (rewrite <- Hnm; now apply in_map).
      apply in_map_iff in Hi. destruct Hi as (s0 & Hs0 & Hin0). rewrite <- Hs0. auto.
Qed.

(* ------------------------------------------------------------------ the expected inspector: exact abort point *)

Definition nonexp (expected : option str) (l : list slot) : Prop :=
  Forall (fun x => name_is (s_name x) expected = false) l.

Lemma pc_std_nonexp expected a : nonexp expected a -> forall idx chunk,
  exists a' tra, pc_std expected idx a chunk = (a', tra, None) /\ nonexp expected a' /\ length a' = length a.
Proof.
  induction 1 as [|s0 rest Hs0 Hrest IH]; intros idx chunk; cbn [pc_std].
  - exists [], []. repeat split. constructor.
  - destruct (s_err s0) eqn:Herr.
    + destruct (IH (S idx) chunk) as (a' & tra & Hp & Hn & Hl). rewrite Hp. exists (s0 :: a'), tra.
      repeat split; [constructor; assumption | cbn; now rewrite Hl].
    + destruct (feed_slot expected idx s0 chunk) as [[s' ev] r] eqn:Hf.
      destruct (feed_slot_spec _ _ _ _ _ _ _ Hf) as (Hn & _ & _ & _ & _ & _ & Hne & _ & Hnone).
      assert (r = None) as ->.
      { destruct (ev_exn ev) as [e|] eqn:Hx.
        - now destruct (Hne e eq_refl Hs0).
        - destruct (Hnone eq_refl) as (_ & Hr). rewrite Hs0 in Hr. exact Hr. }
      destruct (IH (S idx) chunk) as (a' & tra & Hp & Hnn & Hl). rewrite Hp. exists (s' :: a'), (ev :: tra).
      repeat split; [constructor; [now rewrite Hn | assumption] | cbn; now rewrite Hl].
Qed.

Lemma pc_std_app expected a b chunk : forall idx,
  pc_std expected idx (a ++ b) chunk =
  let '(a', tra, ra) := pc_std expected idx a chunk in
  match ra with
  | Some e => (a' ++ b, tra, Some e)
  | None => let '(b', trb, rb) := pc_std expected (idx + length a) b chunk in (a' ++ b', tra ++ trb, rb)
  end.
Proof.
  induction a as [|s0 rest IH]; intros idx; cbn [pc_std app length].
  - rewrite Nat.add_0_r. destruct (pc_std expected idx b chunk) as [[b' trb] rb]. reflexivity.
  - replace (idx + S (length rest))%nat with (S idx + length rest)%nat by lia.
    destruct (s_err s0).
    + rewrite IH. destruct (pc_std expected (S idx) rest chunk) as [[a' tra] ra]. destruct ra; [reflexivity|].
      destruct (pc_std expected (S idx + length rest) b chunk) as [[b' trb] rb]. reflexivity.
    + destruct (feed_slot expected idx s0 chunk) as [[s' ev] r]. destruct r; [reflexivity|].
      rewrite IH. destruct (pc_std expected (S idx) rest chunk) as [[a' tra] ra]. destruct ra; [reflexivity|].
      destruct (pc_std expected (S idx + length rest) b chunk) as [[b' trb] rb]. reflexivity.
Qed.

(* one call on a wrapper in which exactly one inspector, not errored, carries the expected name *)
Lemma w_step_unique w n pre s post c :
  w_expected w = Some n -> w_slots w = pre ++ s :: post -> s_name s = n -> s_err s = false ->
  nonexp (Some n) pre -> nonexp (Some n) post ->
  exists w1 tr1 pre1 post1,
    let s1 := {| s_name := n; s_insp := fst (eat (s_insp s) c); s_err := false |} in
    let r := match snd (eat (s_insp s) c) with
             | Some e => Some e
             | None => if complete (s_insp s1) && negb (fmatch (s_insp s1)) then Some ImageFormatError else None
             end in
    w_step w (InChunk c) = (w1, tr1, match r with Some e => OutExn e | None => OutChunk c end) /\
    w_expected w1 = Some n /\ w_finished w1 = w_finished w /\ w_slots w1 = pre1 ++ s1 :: post1 /\
    nonexp (Some n) pre1 /\ nonexp (Some n) post1 /\ length pre1 = length pre.
Proof.
  intros He Hsl Hn Herr Hpre Hpost. cbn [Wrap.w_step]. rewrite process_chunk_std. rewrite He, Hsl.
  rewrite pc_std_app. destruct (pc_std_nonexp _ _ Hpre 0%nat c) as (pre1 & tra & Hp & Hnp & Hlp). rewrite Hp.
  cbn [pc_std]. rewrite Herr. unfold feed_slot.
  assert (Hni : name_is (s_name s) (Some n) = true) by (cbn; rewrite Hn; apply beq_refl).
  rewrite Hni. destruct (eat (s_insp s) c) as [i' oe] eqn:Heat. cbn [fst snd s_insp].
  destruct oe as [e|].
  - exists (with_slots I w (pre1 ++ {| s_name := s_name s; s_insp := i'; s_err := s_err s |} :: post)), (tra ++ [{| ev_idx := 0 + length pre; ev_name := s_name s; ev_chunk := c; ev_exn := Some e |}]), pre1, post.
    cbn. rewrite Hn, Herr. repeat split; auto.
  - cbn [andb]. destruct (complete i' && negb (fmatch i')) eqn:Hc.
    + exists (with_slots I w (pre1 ++ {| s_name := s_name s; s_insp := i'; s_err := s_err s |} :: post)), (tra ++ [{| ev_idx := 0 + length pre; ev_name := s_name s; ev_chunk := c; ev_exn := None |}]), pre1, post.
      cbn. rewrite Hn, Herr. repeat split; auto.
    + destruct (pc_std_nonexp _ _ Hpost (S (0 + length pre)) c) as (post1 & trb & Hq & Hnq & Hlq). rewrite Hq.
      exists (with_slots I w (pre1 ++ {| s_name := s_name s; s_insp := i'; s_err := s_err s |} :: post1)), (tra ++ {| ev_idx := 0 + length pre; ev_name := s_name s; ev_chunk := c; ev_exn := None |} :: trb), pre1, post1.
      cbn. rewrite Hn, Herr. repeat split; auto.
Qed.

Lemma w_run_stop_cons w inp rest :
  w_run_stop w (inp :: rest) =
  let '(w1, tr1, o) := w_step w inp in
  match o with
  | OutExn e => (w1, tr1, [], Some (e, taken inp), rest)
  | OutChunk c => let '(w2, tr2, cs, stop, unused) := w_run_stop w1 rest in (w2, tr1 ++ tr2, c :: cs, stop, unused)
  | OutNone => let '(w2, tr2, cs, stop, unused) := w_run_stop w1 rest in (w2, tr1 ++ tr2, cs, stop, unused)
  end.
Proof. reflexivity. Qed.

(* The reader feeds chunks cs (then whatever [tl] says) and stops at the first exception.
   [first_abort] of the expected inspector alone decides what happens, whatever the other
   inspectors do. *)
Lemma expected_abort_core n : forall cs w pre s post tl,
  w_expected w = Some n -> w_slots w = pre ++ s :: post -> s_name s = n -> s_err s = false ->
  nonexp (Some n) pre -> nonexp (Some n) post ->
  match first_abort I eat complete fmatch (s_insp s) cs with
  | Some (j, a) => (j < length cs)%nat /\ exists w' tr,
      w_run_stop w (map InChunk cs ++ tl) =
        (w', tr, firstn j cs, Some (abort_exn a, Some (nth j cs [])), map InChunk (skipn (S j) cs) ++ tl)
  | None => exists w1 tr1 pre1 s1 post1,
      w_expected w1 = Some n /\ w_finished w1 = w_finished w /\ w_slots w1 = pre1 ++ s1 :: post1 /\
      s_name s1 = n /\ s_err s1 = false /\ nonexp (Some n) pre1 /\ nonexp (Some n) post1 /\ length pre1 = length pre /\
      w_run_stop w (map InChunk cs ++ tl) =
        let '(w2, tr2, d2, stop2, un2) := w_run_stop w1 tl in (w2, tr1 ++ tr2, cs ++ d2, stop2, un2)
  end.
Proof.
  induction cs as [|c cs IH]; intros w pre s post tl He Hsl Hn Herr Hpre Hpost.
  - cbn [first_abort map app]. exists w, [], pre, s, post. repeat split; auto.
    destruct (w_run_stop w tl) as [[[[w2 tr2] d2] stop2] un2]. reflexivity.
  - cbn [first_abort map app]. rewrite w_run_stop_cons.
    destruct (w_step_unique w n pre s post c He Hsl Hn Herr Hpre Hpost)
      as (w1 & tr1 & pre1 & post1 & Hstep & He1 & Hf1 & Hsl1 & Hp1 & Hq1 & Hl1).
    cbn zeta in Hstep. rewrite Hstep. clear Hstep.
    destruct (eat (s_insp s) c) as [i' oe] eqn:Heat. cbn [fst snd s_insp] in *.
    destruct oe as [e|].
    + split; [cbn; lia|]. exists w1, tr1. reflexivity.
    + destruct (complete i' && negb (fmatch i')) eqn:Hc.
      * split; [cbn; lia|]. exists w1, tr1. reflexivity.
      * specialize (IH w1 pre1 {| s_name := n; s_insp := i'; s_err := false |} post1 tl He1 Hsl1 eq_refl eq_refl Hp1 Hq1).
        cbn [s_insp] in IH.
        destruct (first_abort I eat complete fmatch i' cs) as [[j a]|].
        -- destruct IH as (Hj & w' & tr & Hrun). split; [cbn; lia|]. rewrite Hrun. exists w', (tr1 ++ tr). reflexivity.
        -- destruct IH as (w2 & tr2 & pre2 & s2 & post2 & H1 & H2 & H3 & H4 & H5 & H6 & H7 & H8 & Hrun).
           exists w2, (tr1 ++ tr2), pre2, s2, post2. repeat split; auto; try congruence.
           rewrite Hrun. destruct (w_run_stop w2 tl) as [[[[w3 tr3] d3] stop3] un3]. now rewrite app_assoc.
Qed.

Notation first_abort := (first_abort I eat complete fmatch).

(* expected_fault_propagates_at_that_chunk / expected_complete_mismatch_aborts_at_that_chunk,
   in one statement: a reader that stops at the first exception gets exactly the chunks
   before the first chunk at which the expected inspector fails or is complete without
   matching, then that exception; the failing call has taken that chunk (and nothing more)
   from the source; without such a chunk everything is delivered. *)
Theorem expected_abort_exact w n pre s post cs :
  w_expected w = Some n -> w_slots w = pre ++ s :: post -> s_name s = n -> s_err s = false ->
  nonexp (Some n) pre -> nonexp (Some n) post ->
  exists w' tr, w_run_stop w (map InChunk cs) =
    match first_abort (s_insp s) cs with
    | Some (j, a) => (w', tr, firstn j cs, Some (abort_exn a, Some (nth j cs [])), map InChunk (skipn (S j) cs))
    | None => (w', tr, cs, None, [])
    end.
Proof.
  intros He Hsl Hn Herr Hpre Hpost.
  pose proof (expected_abort_core n cs w pre s post [] He Hsl Hn Herr Hpre Hpost) as H.
  rewrite !app_nil_r in H. destruct (first_abort (s_insp s) cs) as [[j a]|].
  - destruct H as (_ & w' & tr & Hr). rewrite app_nil_r in Hr. eauto.
  - destruct H as (w1 & tr1 & _ & _ & _ & _ & _ & _ & _ & _ & _ & _ & _ & Hr). cbn in Hr.
    rewrite !app_nil_r in Hr. eauto.
Qed.

Lemma first_abort_bound i cs j a : first_abort i cs = Some (j, a) -> (j < length cs)%nat.
Proof.
  revert i j. induction cs as [|c cs IH]; intros i j; cbn [Wrap.first_abort]; [discriminate|].
  destruct (eat i c) as [i' oe]. destruct oe.
  - intros H; inversion H; subst. cbn; lia.
  - destruct (complete i' && negb (fmatch i')).
    + intros H; inversion H; subst. cbn; lia.
    + destruct (first_abort i' cs) as [[k b]|] eqn:Hf; [|discriminate].
      intros H; inversion H; subst. specialize (IH _ _ Hf). cbn; lia.
Qed.

(* what [first_abort] says, in terms of feeding the inspector alone ([feed]): chunks 0..j-1
   are eaten without exception and after none of them the inspector is complete without
   matching; chunk j makes it raise e (AbFault e) or is eaten and leaves it complete without
   matching (AbMismatch).  [None]: no chunk does either. *)
Lemma first_abort_spec : forall cs i j a, first_abort i cs = Some (j, a) ->
  snd (Wrap.feed I eat i (firstn j cs)) = false /\
  (forall k, (0 < k <= j)%nat ->
     let ik := fst (Wrap.feed I eat i (firstn k cs)) in complete ik && negb (fmatch ik) = false) /\
  let ij := fst (Wrap.feed I eat i (firstn j cs)) in
  match a with
  | AbFault e => snd (eat ij (nth j cs [])) = Some e
  | AbMismatch => snd (eat ij (nth j cs [])) = None /\
                  complete (fst (eat ij (nth j cs []))) && negb (fmatch (fst (eat ij (nth j cs [])))) = true
  end.
Proof.
  induction cs as [|c cs IH]; intros i j a; cbn [Wrap.first_abort]; [discriminate|].
  destruct (eat i c) as [i' oe] eqn:Heat. destruct oe as [e|].
  - intros H; inversion H; subst. cbn. rewrite Heat. repeat split; auto. intros k Hk. lia.
  - destruct (complete i' && negb (fmatch i')) eqn:Hc.
    + intros H; inversion H; subst. cbn. rewrite Heat. cbn. repeat split; auto. intros k Hk. lia.
    + destruct (first_abort i' cs) as [[k0 b]|] eqn:Hf; [|discriminate].
      intros H; inversion H; subst. destruct (IH _ _ _ Hf) as (H1 & H2 & H3).
      cbn [firstn Wrap.feed nth]. rewrite Heat. split; [exact H1|]. split; [|exact H3].
      intros k Hk. destruct k as [|k]; [lia|]. cbn [firstn Wrap.feed]. rewrite Heat.
      destruct k as [|k]; [cbn; exact Hc|]. apply H2. lia.
Qed.

Lemma first_abort_none_spec : forall cs i, first_abort i cs = None ->
  snd (Wrap.feed I eat i cs) = false /\
  (forall k, (0 < k <= length cs)%nat ->
     let ik := fst (Wrap.feed I eat i (firstn k cs)) in complete ik && negb (fmatch ik) = false).
Proof.
  induction cs as [|c cs IH]; intros i; cbn [Wrap.first_abort].
  - intros _. split; [reflexivity|]. intros k Hk. cbn in Hk. lia.
  - destruct (eat i c) as [i' oe] eqn:Heat. destruct oe as [e|]; [discriminate|].
    destruct (complete i' && negb (fmatch i')) eqn:Hc; [discriminate|].
    destruct (first_abort i' cs) as [[k0 b]|] eqn:Hf; [discriminate|]. intros _.
    destruct (IH _ Hf) as (H1 & H2). cbn [Wrap.feed]. rewrite Heat. split; [exact H1|].
    intros k Hk. destruct k as [|k]; [lia|]. cbn [firstn Wrap.feed]. rewrite Heat.
    destruct k as [|k]; [cbn; exact Hc|]. apply H2. cbn in Hk. lia.
Qed.

(* ------------------------------------------------------------------ file-like sources: read(size) *)

Lemma w_read_open w s n : f_closed s = false ->
  w_read w s n =
  let c := f_chunk s n in
  let '(w', tr, o) := w_step w (InChunk c) in
  (w', {| f_data := f_data s; f_pos := f_pos s + blen c; f_closed := false |}, tr, InChunk c, o).
Proof. intros Hc. unfold Wrap.w_read, f_read. rewrite Hc. reflexivity. Qed.

Lemma w_read_closed w s n : f_closed s = true ->
  w_read w s n = (w, s, [], InSrcErr ValueError, OutExn ValueError).
Proof. intros Hc. unfold Wrap.w_read, f_read. rewrite Hc. reflexivity. Qed.

(* reads_are_identity for read(size): the bytes delivered (plus the chunk lost in the
   failing call, if the run ended with an exception) are exactly the bytes of the source
   between its position before and after; whatever the inspectors do *)
Theorem reads_are_identity_file : forall sizes w s w' s' tr cs stop,
  run_reads w s sizes = (w', s', tr, cs, stop) ->
  let lost := match stop with Some (_, t) => opt_bytes t | None => [] end in
  f_data s' = f_data s /\
  f_pos s' = f_pos s + blen (concat cs) + blen lost /\
  concat cs ++ lost = bsub (f_pos s) (f_pos s') (f_data s).
Proof.
  clear Hsh.   (* holds for every shape of the loop; keep lia from picking the hypothesis up *)
  induction sizes as [|n rest IH]; intros w s w' s' tr cs stop; cbn [Wrap.run_reads].
  - intros H; inversion H; subst. cbn. rewrite bsub_same. repeat split. lia.
  - destruct (f_closed s) eqn:Hc.
    + rewrite w_read_closed by assumption. intros H; inversion H; subst. cbn. rewrite bsub_same. repeat split. lia.
    + rewrite w_read_open by assumption. cbn zeta.
      destruct (w_step w (InChunk (f_chunk s n))) as [[w1 tr1] o] eqn:Hs.
      pose proof (w_step_identity _ _ _ _ _ Hs) as Hid.
      pose proof (f_chunk_is_slice s n) as Hsl.
      destruct o as [c|e|].
      * inversion Hid; subst c.
        destruct (run_reads w1 _ rest) as [[[[w2 s2] tr2] cs2] stop2] eqn:Hr.
        intros H; inversion H; subst. specialize (IH _ _ _ _ _ _ _ Hr). cbn zeta in IH. cbn [f_data f_pos] in IH.
        destruct IH as (Hd & Hp & Hcat). cbn zeta. repeat split; [assumption| |].
        -- cbn [concat]. rewrite blen_app. lia.
        -- cbn [concat]. rewrite <- app_assoc, Hcat. rewrite Hsl at 1.
           apply bsub_app; lia.
      * intros H; inversion H; subst. cbn. repeat split; [lia|]. exact Hsl.
      * discriminate.
Qed.

(* the reader's run is the core run on the chunks the file hands out *)
Lemma run_reads_stop : forall sizes w s, f_closed s = false ->
  forall w' s' tr cs stop, run_reads w s sizes = (w', s', tr, cs, stop) ->
  exists unused, w_run_stop w (map InChunk (f_chunks s sizes)) = (w', tr, cs, stop, unused).
Proof.
  induction sizes as [|n rest IH]; intros w s Hc w' s' tr cs stop; cbn [Wrap.run_reads f_chunks map].
  - intros H; inversion H; subst. exists []. reflexivity.
  - rewrite w_read_open by assumption. cbn zeta. rewrite w_run_stop_cons.
    destruct (w_step w (InChunk (f_chunk s n))) as [[w1 tr1] o] eqn:Hs.
    destruct o as [c|e|].
    + destruct (run_reads w1 _ rest) as [[[[w2 s2] tr2] cs2] stop2] eqn:Hr.
      intros H; inversion H; subst. eapply IH in Hr; [|reflexivity]. destruct Hr as (un & Hu). rewrite Hu. eauto.
    + intros H; inversion H; subst. eauto.
    + apply w_step_identity in Hs. discriminate.
Qed.

(* with an expected format, on a file: delivered bytes, exception and final source position *)
Theorem expected_abort_exact_file w s sizes n pre sl post :
  f_closed s = false ->
  w_expected w = Some n -> w_slots w = pre ++ sl :: post -> s_name sl = n -> s_err sl = false ->
  nonexp (Some n) pre -> nonexp (Some n) post ->
  forall w' s' tr delivered stop, run_reads w s sizes = (w', s', tr, delivered, stop) ->
  let cs := f_chunks s sizes in
  match first_abort (s_insp sl) cs with
  | Some (j, a) =>
    delivered = firstn j cs /\ stop = Some (abort_exn a, Some (nth j cs [])) /\
    f_pos s' = f_pos s + blen (concat (firstn (S j) cs))
  | None => delivered = cs /\ stop = None /\ f_pos s' = f_pos s + blen (concat cs)
  end.
Proof.
  intros Hc He Hsl Hn Herr Hpre Hpost w' s' tr delivered stop Hrun cs.
  destruct (run_reads_stop _ _ _ Hc _ _ _ _ _ Hrun) as (un & Hstop).
  destruct (expected_abort_exact w n pre sl post cs He Hsl Hn Herr Hpre Hpost) as (w2 & tr2 & Hex).
  fold cs in Hstop. rewrite Hstop in Hex.
  destruct (reads_are_identity_file _ _ _ _ _ _ _ _ Hrun) as (_ & Hpos & _).
  destruct (first_abort (s_insp sl) cs) as [[j a]|] eqn:Hfa.
  - inversion Hex; subst. repeat split. rewrite Hpos. cbn [opt_bytes].
    pose proof (first_abort_bound _ _ _ _ Hfa) as Hj.
    assert (Hf : firstn (S j) cs = firstn j cs ++ [nth j cs []]).
    { clear - Hj. revert j Hj. induction cs as [|c cs IH]; intros j Hj; [cbn in Hj; lia|].
      destruct j; [reflexivity|]. cbn [firstn nth app]. f_equal. apply IH. cbn in Hj. lia. }
    rewrite Hf, concat_app, blen_app. cbn [concat]. rewrite app_nil_r. lia.
  - inversion Hex; subst. repeat split. rewrite Hpos. cbn. lia.
Qed.

(* ------------------------------------------------------------------ iterator sources: next() *)

Lemma w_next_nil w s : i_chunks s = [] -> w_next w s = (finish_all w, s, [], InStop, OutExn StopIteration).
Proof. intros Hc. unfold Wrap.w_next, i_next. rewrite Hc. reflexivity. Qed.

Lemma w_next_cons w s c r : i_chunks s = c :: r ->
  w_next w s = let '(w', tr, o) := w_step w (InChunk c) in
               (w', {| i_chunks := r; i_has_close := i_has_close s |}, tr, InChunk c, o).
Proof. intros Hc. unfold Wrap.w_next, i_next. rewrite Hc. reflexivity. Qed.

(* reads_are_identity for iteration: chunks delivered, then the chunk lost in a failing
   call (if any), then what is left in the source, are the source's chunks in order *)
Theorem reads_are_identity_iter : forall fuel w s w' s' tr cs stop,
  run_iter fuel w s = (w', s', tr, cs, stop) ->
  i_chunks s = cs ++ (match stop with Some (_, Some c) => [c] | _ => [] end) ++ i_chunks s'.
Proof.
  induction fuel as [|k IH]; intros w s w' s' tr cs stop; cbn [Wrap.run_iter].
  - intros H; inversion H; subst. reflexivity.
  - destruct (i_chunks s) as [|c r] eqn:Hc.
    + rewrite w_next_nil by assumption. intros H; inversion H; subst. cbn. now rewrite Hc.
    + rewrite (w_next_cons _ _ _ _ Hc). destruct (w_step w (InChunk c)) as [[w1 tr1] o] eqn:Hs.
      pose proof (w_step_identity _ _ _ _ _ Hs) as Hid.
      destruct o as [c'|e|].
      * inversion Hid; subst c'.
        destruct (run_iter k w1 _) as [[[[w2 s2] tr2] cs2] stop2] eqn:Hr.
        intros H; inversion H; subst. specialize (IH _ _ _ _ _ _ _ Hr). cbn [i_chunks] in IH. rewrite IH. reflexivity.
      * intros H; inversion H; subst. reflexivity.
      * discriminate.
Qed.

(* [for chunk in wrapper] with enough fuel is the core run on the source's chunks followed
   by StopIteration; it always ends with an exception (StopIteration at the latest) *)
Lemma run_iter_stop : forall chunks fuel w s, i_chunks s = chunks -> (length chunks < fuel)%nat ->
  forall w' s' tr cs stop, run_iter fuel w s = (w', s', tr, cs, stop) ->
  exists unused, w_run_stop w (map InChunk chunks ++ [InStop]) = (w', tr, cs, stop, unused).
Proof.
  induction chunks as [|c r IH]; intros fuel w s Hc Hf w' s' tr cs stop.
  - destruct fuel as [|k]; [cbn in Hf; lia|]. cbn [Wrap.run_iter]. rewrite w_next_nil by assumption.
    intros H; inversion H; subst. exists []. reflexivity.
  - destruct fuel as [|k]; [cbn in Hf; lia|]. cbn [Wrap.run_iter map app]. rewrite (w_next_cons _ _ _ _ Hc).
    rewrite w_run_stop_cons. destruct (w_step w (InChunk c)) as [[w1 tr1] o] eqn:Hs.
    destruct o as [c'|e|].
    + destruct (run_iter k w1 _) as [[[[w2 s2] tr2] cs2] stop2] eqn:Hr.
      intros H; inversion H; subst.
      eapply IH in Hr; [|reflexivity|cbn in Hf; cbn; lia]. destruct Hr as (un & Hu). rewrite Hu. eauto.
    + intros H; inversion H; subst. eauto.
    + apply w_step_identity in Hs. discriminate.
Qed.

(* finish_on_stop_iteration: when the source is exhausted the call raises StopIteration
   after finish() has been called on every inspector (errored ones included) *)
Theorem finish_on_stop_iteration w s : i_chunks s = [] ->
  exists w', w_next w s = (w', s, [], InStop, OutExn StopIteration) /\ w' = finish_all w /\
    map (@s_insp I) (w_slots w') = map finish (map (@s_insp I) (w_slots w)) /\ w_finished w' = true.
Proof.
  intros Hc. exists (finish_all w). rewrite w_next_nil by assumption.
  destruct (finish_all_spec w) as (H1 & _ & _ & H4 & _). auto.
Qed.

(* ... and so does close(), on both kinds of source *)
Theorem finish_on_close w :
  (forall s, fst (w_close_f I finish w s) = finish_all w /\ f_closed (snd (w_close_f I finish w s)) = true) /\
  (forall s, fst (w_close_i I finish w s) = finish_all w /\
             (i_has_close s = true -> i_chunks (snd (w_close_i I finish w s)) = [])) /\
  map (@s_insp I) (w_slots (finish_all w)) = map finish (map (@s_insp I) (w_slots w)) /\
  w_finished (finish_all w) = true.
Proof.
  destruct (finish_all_spec w) as (H1 & _ & _ & H4 & _). repeat split; auto.
  unfold w_close_i, i_close. cbn. intros ->. reflexivity.
Qed.

Lemma run_iter_S k w s :
  run_iter (S k) w s =
  let '(w1, s1, tr1, inp, o) := w_next w s in
  match o with
  | OutChunk c => let '(w2, s2, tr2, cs, stop) := run_iter k w1 s1 in (w2, s2, tr1 ++ tr2, c :: cs, stop)
  | OutExn e => (w1, s1, tr1, [], Some (e, taken inp))
  | OutNone => (w1, s1, tr1, [], None)
  end.
Proof. reflexivity. Qed.

(* a complete iteration: either it aborts at a chunk, or it delivers every chunk, ends
   with StopIteration and leaves every inspector finished *)
Theorem iteration_complete : forall w s w' s' tr cs stop,
  run_iter (S (length (i_chunks s))) w s = (w', s', tr, cs, stop) ->
  match stop with
  | None => False
  | Some (e, None) => e = StopIteration /\ cs = i_chunks s /\ i_chunks s' = [] /\
                      w_finished w' = true /\ exists w0, w' = finish_all w0
  | Some (e, Some c) => i_chunks s = cs ++ c :: i_chunks s'
  end.
Proof.
  assert (Hgen : forall chunks w s, i_chunks s = chunks -> forall w' s' tr cs stop,
    run_iter (S (length chunks)) w s = (w', s', tr, cs, stop) ->
    match stop with
    | None => False
    | Some (e, None) => e = StopIteration /\ cs = chunks /\ i_chunks s' = [] /\
                        w_finished w' = true /\ exists w0, w' = finish_all w0
    | Some (e, Some c) => chunks = cs ++ c :: i_chunks s'
    end).
  { induction chunks as [|c r IH]; intros w s Hc w' s' tr cs stop; cbn [length]; rewrite run_iter_S.
    - rewrite w_next_nil by auto. intros H; inversion H; subst. repeat split; auto. eauto.
    - rewrite (w_next_cons _ _ c r) by auto. destruct (w_step w (InChunk c)) as [[w1 tr1] o] eqn:Hs.
      pose proof (w_step_identity _ _ _ _ _ Hs) as Hid.
      destruct o as [c'|e|].
      + inversion Hid; subst c'.
        match goal with |- context [Wrap.run_iter ?a1 ?a2 ?a3 ?a4 ?a5 ?a6 ?k ?a ?b] =>
          destruct (Wrap.run_iter a1 a2 a3 a4 a5 a6 k a b) as [[[[w2 s2] tr2] cs2] stop2] eqn:Hr end.
        intros H; inversion H; subst. apply IH in Hr; [|reflexivity].
        destruct stop as [[e [c2|]]|]; [| |contradiction].
        * cbn [app]. now rewrite Hr.
        * destruct Hr as (H1 & H2 & H3 & H4 & H5). repeat split; auto. now rewrite H2.
      + intros H; inversion H; subst. reflexivity.
      + discriminate. }
  intros w s. apply Hgen. reflexivity.
Qed.

(* with an expected format, iterating *)
Theorem expected_abort_exact_iter w s n pre sl post :
  w_expected w = Some n -> w_slots w = pre ++ sl :: post -> s_name sl = n -> s_err sl = false ->
  nonexp (Some n) pre -> nonexp (Some n) post ->
  forall w' s' tr delivered stop, run_iter (S (length (i_chunks s))) w s = (w', s', tr, delivered, stop) ->
  let cs := i_chunks s in
  match first_abort (s_insp sl) cs with
  | Some (j, a) =>
    delivered = firstn j cs /\ stop = Some (abort_exn a, Some (nth j cs [])) /\ i_chunks s' = skipn (S j) cs
  | None => delivered = cs /\ stop = Some (StopIteration, None) /\ i_chunks s' = [] /\ w_finished w' = true
  end.
Proof.
  intros He Hsl Hn Herr Hpre Hpost w' s' tr delivered stop Hrun cs.
  destruct (run_iter_stop cs _ w s eq_refl (Nat.lt_succ_diag_r _) _ _ _ _ _ Hrun) as (un & Hstop).
  pose proof (expected_abort_core n cs w pre sl post [InStop] He Hsl Hn Herr Hpre Hpost) as Hcore.
  pose proof (reads_are_identity_iter _ _ _ _ _ _ _ _ Hrun) as Hid. fold cs in Hid.
  pose proof (iteration_complete _ _ _ _ _ _ _ Hrun) as Hcompl.
  destruct (first_abort (s_insp sl) cs) as [[j a]|] eqn:Hfa.
  - destruct Hcore as (Hj & w2 & tr2 & Hr). rewrite Hstop in Hr. inversion Hr; subst. repeat split.
    assert (Hsk : skipn j cs = nth j cs [] :: skipn (S j) cs).
    { clear - Hj. revert j Hj. induction cs as [|c cs IH]; intros j Hj; [cbn in Hj; lia|].
      destruct j; [reflexivity|]. cbn [skipn nth]. apply IH. cbn in Hj. lia. }
    apply (f_equal (skipn j)) in Hid. rewrite skipn_app in Hid.
    rewrite (skipn_all2 (firstn j cs)) in Hid by (rewrite firstn_length; lia).
    rewrite firstn_length, Nat.min_l, Nat.sub_diag in Hid by lia. cbn [app skipn] in Hid.
    rewrite Hsk in Hid. inversion Hid. reflexivity.
  - destruct Hcore as (w1 & tr1 & _ & _ & _ & _ & _ & _ & _ & _ & _ & _ & _ & Hr). cbn in Hr.
    rewrite Hstop in Hr. inversion Hr; subst. rewrite app_nil_r in *. cbn in Hcompl.
    destruct Hcompl as (_ & _ & H3 & H4 & _). repeat split; auto.
Qed.

(* no_read_after_abort: the run of a reader that stops at the first exception is a prefix
   of the general run that ends with its first exception; nothing is asked of the source
   (or of any inspector) afterwards *)
Theorem no_read_after_abort : forall inps w w' tr cs stop unused,
  w_run_stop w inps = (w', tr, cs, stop, unused) ->
  exists used recs, inps = used ++ unused /\ w_run w used = (w', recs) /\ run_trace recs = tr /\
    match stop with
    | None => unused = [] /\ Forall (fun r => forall e, sr_out r <> OutExn e) recs
    | Some (e, t) => exists recs0 r, recs = recs0 ++ [r] /\ sr_out r = OutExn e /\ taken (sr_in r) = t /\
                       Forall (fun r => forall e, sr_out r <> OutExn e) recs0
    end.
Proof.
  induction inps as [|inp rest IH]; intros w w' tr cs stop unused.
  - cbn. intros H; inversion H; subst. exists [], []. repeat split; constructor.
  - rewrite w_run_stop_cons. destruct (w_step w inp) as [[w1 tr1] o] eqn:Hs.
    assert (Hgo : forall cs0, (let '(w2, tr2, cs2, stop2, unused2) := w_run_stop w1 rest in (w2, tr1 ++ tr2, cs0 cs2, stop2, unused2)) = (w', tr, cs, stop, unused) ->
      (forall e, o <> OutExn e) ->
      exists used recs, inp :: rest = used ++ unused /\ w_run w used = (w', recs) /\ run_trace recs = tr /\
        match stop with
        | None => unused = [] /\ Forall (fun r => forall e, sr_out r <> OutExn e) recs
        | Some (e, t) => exists recs0 r, recs = recs0 ++ [r] /\ sr_out r = OutExn e /\ taken (sr_in r) = t /\
                           Forall (fun r => forall e, sr_out r <> OutExn e) recs0
        end).
    { intros cs0. destruct (w_run_stop w1 rest) as [[[[w2 tr2] cs2] stop2] unused2] eqn:Hr.
      intros H Ho; inversion H; subst.
      destruct (IH _ _ _ _ _ _ Hr) as (used & recs & Hi & Hrun & Htr & Hst).
      exists (inp :: used), ({| sr_in := inp; sr_tr := tr1; sr_out := o |} :: recs).
      split; [cbn; now rewrite Hi|]. split; [rewrite w_run_cons, Hs, Hrun; reflexivity|].
      split; [unfold run_trace in *; cbn; now rewrite Htr|].
      destruct stop as [[e t]|].
      - destruct Hst as (recs0 & r & H1 & H2 & H3 & H4).
        exists ({| sr_in := inp; sr_tr := tr1; sr_out := o |} :: recs0), r. subst recs. repeat split; auto.
      - destruct Hst as (H1 & H2). split; [assumption|]. constructor; auto. }
    destruct o as [c|e|].
    + intros H. apply (Hgo (fun x => c :: x) H). discriminate.
    + intros H; inversion H; subst. exists [inp], [{| sr_in := inp; sr_tr := tr; sr_out := OutExn e |}].
      repeat split.
      * rewrite w_run_cons, Hs. reflexivity.
      * unfold run_trace. cbn. now rewrite app_nil_r.
      * exists [], {| sr_in := inp; sr_tr := tr; sr_out := OutExn e |}. repeat split. constructor.
    + intros H. apply (Hgo (fun x => x) H). discriminate.
Qed.

(* ------------------------------------------------------------------ inspectors see the stream *)
(* when a pass of the loop completes (no exception leaves it), every inspector that was
   not errored has been fed the chunk; it is errored afterwards iff it raised *)
Lemma pc_std_full_pass expected idx ss chunk ss' tr :
  pc_std expected idx ss chunk = (ss', tr, None) ->
  forall k s, nth_error ss k = Some s -> s_err s = false ->
    exists s', nth_error ss' k = Some s' /\ s_name s' = s_name s /\
      s_insp s' = fst (eat (s_insp s) chunk) /\
      s_err s' = match snd (eat (s_insp s) chunk) with Some _ => true | None => false end.
Proof.
  revert idx ss' tr. induction ss as [|s0 rest IH]; intros idx ss' tr; cbn [pc_std].
  - intros _ k s Hk. destruct k; discriminate.
  - destruct (s_err s0) eqn:Herr.
    + destruct (pc_std expected (S idx) rest chunk) as [[rest' tr'] r'] eqn:Hr. intros H; inversion H; subst.
      intros [|k] s Hk Hs; cbn [nth_error] in *.
      * inversion Hk; subst. congruence.
      * eapply IH; eauto.
    + destruct (feed_slot expected idx s0 chunk) as [[s' ev] r0] eqn:Hf.
      destruct (feed_slot_spec _ _ _ _ _ _ _ Hf) as (Hn & _ & _ & _ & Heat & _ & Hne & Hee & Hnone).
      destruct r0 as [e0|]; [intros H; inversion H|].
      destruct (pc_std expected (S idx) rest chunk) as [[rest' tr'] r'] eqn:Hr. intros H; inversion H; subst.
      intros [|k] s Hk Hs; cbn [nth_error] in *.
      * inversion Hk; subst. exists s'. rewrite Heat. cbn [fst snd]. repeat split; auto.
        destruct (ev_exn ev) as [e1|] eqn:Hx.
        -- destruct (name_is (s_name s) expected) eqn:Hnx.
           ++ destruct (Hee e1 eq_refl eq_refl) as (_ & Hbad). discriminate.
           ++ now destruct (Hne e1 eq_refl eq_refl).
        -- destruct (Hnone eq_refl) as (He & _). congruence.
      * eapply IH; eauto.
Qed.

Notation feed := (feed I eat).

(* wrapper_slots_are_feed: after a run in which every chunk was delivered, an inspector
   that was not errored at the start holds exactly the state reached by feeding it the
   delivered chunks up to its first exception, and is errored iff it raised *)
Theorem wrapper_slots_are_feed : forall cs w w' tr unused,
  w_run_stop w (map InChunk cs) = (w', tr, cs, None, unused) ->
  forall k s, nth_error (w_slots w) k = Some s -> s_err s = false ->
    exists s', nth_error (w_slots w') k = Some s' /\ s_name s' = s_name s /\
      (s_insp s', s_err s') = feed (s_insp s) cs.
Proof.
  induction cs as [|c cs IH]; intros w w' tr unused; cbn [map].
  - cbn. intros H; inversion H; subst. intros k s Hk Hs. exists s. rewrite Hs. auto.
  - rewrite w_run_stop_cons. destruct (w_step w (InChunk c)) as [[w1 tr1] o] eqn:Hs.
    destruct o as [c'|e|]; [| discriminate | apply w_step_identity in Hs; discriminate].
    destruct (w_run_stop w1 (map InChunk cs)) as [[[[w2 tr2] cs2] stop2] un2] eqn:Hr.
    intros H; inversion H; subst. clear H.
    intros k s Hk Hse. cbn [Wrap.w_step] in Hs. rewrite process_chunk_std in Hs.
    destruct (pc_std (w_expected w) 0 (w_slots w) c) as [[ss t] r] eqn:Hp.
    destruct r as [e|]; [inversion Hs|]. inversion Hs; subst. clear Hs.
    destruct (pc_std_full_pass _ _ _ _ _ _ Hp k s Hk Hse) as (s1 & Hk1 & Hn1 & Hi1 & He1).
    cbn [Wrap.feed]. destruct (eat (s_insp s) c) as [i' oe] eqn:Heat. cbn [fst snd] in *.
    destruct oe as [e|].
    + (* raised: errored from now on, never touched again *)
      assert (Hfix : forall cs0 wa wb trb unb, w_run_stop wa (map InChunk cs0) = (wb, trb, cs0, None, unb) ->
                nth_error (w_slots wa) k = Some s1 -> nth_error (w_slots wb) k = Some s1).
      { induction cs0 as [|c0 cs0 IHc]; intros wa wb trb unb; cbn [map].
        - cbn. intros H; inversion H; subst. auto.
        - rewrite w_run_stop_cons. destruct (w_step wa (InChunk c0)) as [[wa1 tra1] oa] eqn:Hsa.
          destruct oa as [ca|ea|]; [| discriminate | apply w_step_identity in Hsa; discriminate].
          destruct (w_run_stop wa1 (map InChunk cs0)) as [[[[wa2 tra2] csa2] stopa2] una2] eqn:Hra.
          intros H; inversion H; subst. intros Hka. eapply IHc; eauto.
          cbn [Wrap.w_step] in Hsa. rewrite process_chunk_std in Hsa.
          destruct (pc_std (w_expected wa) 0 (w_slots wa) c0) as [[ssa ta] ra] eqn:Hpa.
          inversion Hsa; subst. cbn [w_slots with_slots].
          destruct (pc_std_mono _ _ _ _ _ _ _ Hpa k s1 Hka) as (s2 & Hk2 & _ & Hsame). rewrite Hk2.
          f_equal. apply Hsame. exact He1. }
      exists s1. split; [eapply Hfix; eauto|]. split; [assumption|]. now rewrite Hi1, He1.
    + destruct (IH _ _ _ _ Hr k s1 Hk1 He1) as (s2 & Hk2 & Hn2 & Hf2).
      exists s2. split; [assumption|]. split; [congruence|]. now rewrite Hf2, Hi1.
Qed.

End WrapProofs.

(* ================================================================== formats / format (C03-facing) *)
Section FormatProofs.
Variable I : Type.
Variable complete : I -> bool.
Variable fmatch : I -> bool.
Variable raw_nr raw_r : str.

Notation slot := (slot I).
Notation wrapper := (wrapper I).
Notation non_raw := (non_raw I raw_nr).
Notation is_raw := (is_raw I raw_r).
Notation all_complete := (all_complete I complete raw_nr).
Notation matches := (matches I fmatch raw_nr).
Notation formats := (formats I complete fmatch raw_nr raw_r).
Notation format := (format I complete fmatch raw_nr raw_r).

(* a decision has been reached: every non-raw inspector is complete, or EOF was signalled *)
Definition decided (w : wrapper) : bool := all_complete w || w_finished w.

Lemma formats_none w : formats w = None <-> decided w = false.
Proof.
  unfold Wrap.formats, decided. destruct (all_complete w), (w_finished w); cbn;
    try (destruct (matches w)); split; intros; try discriminate; reflexivity.
Qed.

Lemma formats_some w : decided w = true ->
  formats w = Some (match matches w with [] => filter is_raw (w_slots w) | ms => ms end).
Proof.
  unfold Wrap.formats, decided. intros H.
  destruct (all_complete w), (w_finished w); cbn in *; try discriminate; destruct (matches w); reflexivity.
Qed.

(* formats_total: format returns or raises ImageFormatError, nothing else *)
Theorem format_total w : (exists r, format w = Ok r) \/ format w = Exn ImageFormatError.
Proof.
  unfold Wrap.format. destruct (formats w) as [ms|]; [|left; eauto].
  destruct (1 <? length ms)%nat; [right; reflexivity|]. destruct ms; [right; reflexivity|left; eauto].
Qed.

Lemma format_spec w :
  format w =
  if decided w then
    match matches w with
    | [m] => Ok (Some m)
    | _ :: _ :: _ => Exn ImageFormatError
    | [] => match filter is_raw (w_slots w) with [m] => Ok (Some m) | _ => Exn ImageFormatError end
    end
  else Ok None.
Proof.
  unfold Wrap.format. destruct (decided w) eqn:Hd.
  - rewrite (formats_some w Hd). destruct (matches w) as [|m [|m2 ms]]; cbn; try reflexivity.
    destruct (filter is_raw (w_slots w)) as [|r [|r2 rs]]; reflexivity.
  - apply formats_none in Hd. now rewrite Hd.
Qed.

(* format_some_implies_unique_match *)
Theorem format_some_implies_unique_match w m : format w = Ok (Some m) ->
  decided w = true /\
  (matches w = [m] \/ (matches w = [] /\ filter is_raw (w_slots w) = [m])).
Proof.
  rewrite format_spec. intros Hx. destruct (decided w); [|discriminate]. split; [reflexivity|].
  destruct (matches w) as [|m1 [|m2 ms]].
  - destruct (filter is_raw (w_slots w)) as [|r [|r2 rs]]; inversion Hx. auto.
  - inversion Hx. auto.
  - inversion Hx.
Qed.

(* two_matches_raise *)
Theorem two_matches_raise w : decided w = true -> (1 < length (matches w))%nat ->
  format w = Exn ImageFormatError.
Proof.
  intros Hd Hl. rewrite format_spec, Hd. destruct (matches w) as [|m1 [|m2 ms]]; cbn in Hl; try lia. reflexivity.
Qed.

Lemma two_positions_two_matches w a b l1 l2 l3 :
  non_raw w = l1 ++ a :: l2 ++ b :: l3 -> fmatch (s_insp a) = true -> fmatch (s_insp b) = true ->
  (1 < length (matches w))%nat.
Proof.
  intros Hn Ha Hb. unfold Wrap.matches. rewrite Hn. rewrite filter_app. cbn [filter]. rewrite Ha.
  rewrite filter_app. cbn [filter]. rewrite Hb. rewrite !app_length. cbn [length]. rewrite app_length. cbn [length]. lia.
Qed.

Hypothesis Hraw : raw_nr = raw_r.

Lemma matches_not_raw w m : In m (matches w) -> is_raw m = false /\ fmatch (s_insp m) = true /\ In m (w_slots w).
Proof.
  unfold Wrap.matches, Wrap.non_raw. intros H. apply filter_In in H. destruct H as (H1 & H2).
  apply filter_In in H1. destruct H1 as (H0 & H1). unfold Wrap.is_raw_nr in H1. unfold Wrap.is_raw. rewrite <- Hraw.
  destruct (beq (s_name m) raw_nr); [discriminate|]. auto.
Qed.

(* raw_only_when_nothing_matches_and_allowed *)
Theorem raw_only_when_nothing_matches_and_allowed w m : format w = Ok (Some m) -> is_raw m = true ->
  matches w = [] /\ In m (w_slots w) /\ decided w = true.
Proof.
  intros Hf Hr. destruct (format_some_implies_unique_match w m Hf) as (Hd & [Hm|(Hm & Hrs)]).
  - exfalso. destruct (matches_not_raw w m) as (H1 & _); [rewrite Hm; left; reflexivity|]. congruence.
  - repeat split; auto. assert (In m (filter is_raw (w_slots w))) as Hi by (rewrite Hrs; left; reflexivity).
    apply filter_In in Hi. tauto.
Qed.

(* raw_never_with_others *)
Theorem raw_never_with_others w ms : formats w = Some ms -> (exists m, In m ms /\ is_raw m = true) ->
  matches w = [] /\ Forall (fun m => is_raw m = true) ms.
Proof.
  intros Hf (m & Hin & Hr).
  assert (Hd : decided w = true).
  { destruct (decided w) eqn:Hd; [reflexivity|]. apply formats_none in Hd. congruence. }
  rewrite (formats_some w Hd) in Hf.
  destruct (matches w) as [|m1 ms1] eqn:Hm; inversion Hf as [Hms]; clear Hf.
  - split; [reflexivity|]. apply Forall_forall. intros x Hx. apply filter_In in Hx. tauto.
  - exfalso. destruct (matches_not_raw w m) as (H1 & _); [rewrite Hm, Hms; exact Hin|]. congruence.
Qed.

(* the answer is one of the wrapper's inspectors; so is every element of formats *)
Theorem format_in_slots w m : format w = Ok (Some m) -> In m (w_slots w).
Proof.
  intros Hf. destruct (format_some_implies_unique_match w m Hf) as (_ & [Hm|(_ & Hrs)]).
  - apply (matches_not_raw w m). rewrite Hm. left; reflexivity.
  - assert (In m (filter is_raw (w_slots w))) as Hi by (rewrite Hrs; left; reflexivity).
    apply filter_In in Hi. tauto.
Qed.

(* without a raw inspector (allowed_formats without 'raw') and nothing matching: ImageFormatError *)
Theorem no_raw_no_match_raises w : decided w = true -> matches w = [] ->
  (forall s, In s (w_slots w) -> is_raw s = false) -> format w = Exn ImageFormatError.
Proof.
  intros Hd Hm Hno. rewrite format_spec, Hd, Hm.
  assert (filter is_raw (w_slots w) = []) as ->; [|reflexivity].
  induction (w_slots w) as [|s l IH]; [reflexivity|]. cbn [filter]. rewrite (Hno s (or_introl eq_refl)).
  apply IH. intros x Hx. apply Hno. now right.
Qed.

End FormatProofs.

(* ================================================================== __init__ : allowed_formats *)
Section InitProofs.
Variable I : Type.

Lemma mk_slots_names (factory : list (str * I)) allowed :
  map (@s_name I) (mk_slots I factory allowed) = filter (allowed_key allowed) (map fst factory).
Proof.
  unfold mk_slots. rewrite map_map. cbn [s_name].
  induction factory as [|p l IH]; [reflexivity|]. cbn [filter map]. destruct (allowed_key allowed (fst p)); cbn [map]; now rewrite IH.
Qed.

Lemma mk_slots_fresh (factory : list (str * I)) allowed s :
  In s (mk_slots I factory allowed) -> s_err s = false /\ In (s_name s, s_insp s) factory.
Proof.
  unfold mk_slots. intros H. apply in_map_iff in H. destruct H as (p & <- & Hp). apply filter_In in Hp.
  cbn. destruct p; cbn in *. tauto.
Qed.

(* allowed_formats_respected: with a non-empty allow-list every inspector of the wrapper
   carries an allowed name; None and [] allow everything *)
Theorem allowed_formats_respected (factory : list (str * I)) expected allowed s :
  In s (w_slots (mk_wrapper I factory expected allowed)) ->
  allowed <> [] -> In (s_name s) allowed.
Proof.
  cbn [mk_wrapper w_slots]. intros Hin Hne.
  assert (In (s_name s) (map (@s_name I) (mk_slots I factory allowed))) as Hn by now apply in_map.
  rewrite mk_slots_names in Hn. apply filter_In in Hn. destruct Hn as (_ & Hk).
  unfold allowed_key in Hk. destruct allowed as [|a l]; [congruence|].
  unfold memb in Hk. apply existsb_exists in Hk. destruct Hk as (x & Hx & Hb). apply beq_eq in Hb. now subst.
Qed.

Theorem allowed_empty_means_all (factory : list (str * I)) expected :
  map (@s_name I) (w_slots (mk_wrapper I factory expected [])) = map fst factory.
Proof.
  cbn [mk_wrapper w_slots]. rewrite mk_slots_names. cbn [allowed_key].
  induction (map fst factory) as [|x l IH]; [reflexivity|]. cbn [filter]. now rewrite IH.
Qed.

(* with distinct names, the inspector carrying a given name splits the collection as the
   exact-abort theorems require *)
Lemma unique_name_split (ss : list (slot I)) s n :
  NoDup (map (@s_name I) ss) -> In s ss -> s_name s = n ->
  exists pre post, ss = pre ++ s :: post /\ nonexp I (Some n) pre /\ nonexp I (Some n) post.
Proof.
  intros Hnd Hin Hn. apply in_split in Hin. destruct Hin as (pre & post & ->). exists pre, post.
  split; [reflexivity|]. rewrite map_app in Hnd. cbn [map] in Hnd.
  assert (Hne : forall x, In x pre \/ In x post -> name_is (s_name x) (Some n) = false).
  { intros x Hx. cbn. destruct (beq (s_name x) n) eqn:Hb; [|reflexivity]. exfalso. apply beq_eq in Hb.
    apply NoDup_remove_2 in Hnd. apply Hnd. rewrite Hn, <- Hb. apply in_or_app.
    destruct Hx as [Hx|Hx]; [left|right]; now apply in_map. }
  split; apply Forall_forall; intros x Hx; apply Hne; auto.
Qed.

End InitProofs.

(* ================================================================== a freshly constructed wrapper *)
Section FreshProofs.
Variable I : Type.
Variable eat : I -> bytes -> I * option exn.
Variable finish : I -> I.
Variable complete : I -> bool.
Variable fmatch : I -> bool.
Variable sh : pc_shape.
Hypothesis Hsh : shape_okb sh = true.

(* InspectWrapper(source, expected_format=n, allowed_formats=allowed) over a table with
   distinct names in which n is present and allowed: the exact-abort theorem applies, with
   the fresh instance i0 of the expected format *)
Theorem expected_abort_exact_fresh (factory : list (str * I)) allowed n i0 cs :
  NoDup (map fst factory) -> In (n, i0) factory -> allowed_key allowed n = true ->
  exists w' tr,
    w_run_stop I eat finish complete fmatch sh (mk_wrapper I factory (Some n) allowed) (map InChunk cs) =
    match first_abort I eat complete fmatch i0 cs with
    | Some (j, a) => (w', tr, firstn j cs, Some (abort_exn a, Some (nth j cs [])), map InChunk (skipn (S j) cs))
    | None => (w', tr, cs, None, [])
    end.
Proof.
  intros Hnd Hin Hal.
  set (s := {| s_name := n; s_insp := i0; s_err := false |}).
  assert (Hs : In s (mk_slots I factory allowed)).
  { unfold mk_slots. apply in_map_iff. exists (n, i0). split; [reflexivity|]. apply filter_In. auto. }
  assert (Hnd' : NoDup (map (@s_name I) (mk_slots I factory allowed))).
  { rewrite mk_slots_names. apply NoDup_filter. exact Hnd. }
  destruct (unique_name_split I _ s n Hnd' Hs eq_refl) as (pre & post & Hsplit & Hpre & Hpost).
  exact (expected_abort_exact I eat finish complete fmatch sh Hsh (mk_wrapper I factory (Some n) allowed)
           n pre s post cs eq_refl Hsplit eq_refl eq_refl Hpre Hpost).
Qed.

(* expected_format=None: every chunk of every call sequence is delivered *)
Theorem no_expectation_no_exception (factory : list (str * I)) allowed inps w' recs :
  w_run I eat finish complete fmatch sh (mk_wrapper I factory None allowed) inps = (w', recs) ->
  Forall (fun r => forall c, sr_in r = InChunk c -> sr_out r = OutChunk c) recs.
Proof.
  apply (no_expected_inspector_no_exception I eat finish complete fmatch sh Hsh). intros s _. reflexivity.
Qed.

End FreshProofs.

(* ================================================================== detect_file_format *)
Section DetectProofs.
Variable I : Type.
Variable eat : I -> bytes -> I * option exn.
Variable finish : I -> I.
Variable complete : I -> bool.
Variable fmatch : I -> bool.
Variable sh : pc_shape.
Hypothesis Hsh : shape_okb sh = true.
Variable raw_nr raw_r : str.

Notation format_name := (format_name I complete fmatch raw_nr raw_r).
Notation detect_loop := (detect_loop I eat finish complete fmatch sh raw_nr raw_r).
Notation detect_file_format := (detect_file_format I eat finish complete fmatch sh raw_nr raw_r).

Lemma format_name_cases w :
  (exists nm, format_name w = Ok (Some nm)) \/ format_name w = Exn ImageFormatError \/
  (format_name w = Ok None /\ decided I complete raw_nr w = false).
Proof.
  unfold Wrap.format_name. rewrite format_spec. destruct (decided I complete raw_nr w); [|auto].
  destruct (matches I fmatch raw_nr w) as [|m [|m2 ms]]; eauto.
  destruct (filter (is_raw I raw_r) (w_slots w)) as [|r [|r2 rs]]; eauto.
Qed.

Lemma f_chunk_nil_eof s cs : (0 < cs)%Z -> f_chunk s cs = [] -> blen (f_data s) <= f_pos s.
Proof.
  intros Hcs H. apply (f_equal blen) in H. unfold f_chunk in H.
  destruct (cs <? 0)%Z eqn:Hn; [lia|]. rewrite blen_btake, blen_bskip in H. cbn in H. lia.
Qed.

Lemma f_chunk_len s cs : (0 < cs)%Z -> blen (f_chunk s cs) <= blen (f_data s) - f_pos s.
Proof.
  intros Hcs. unfold f_chunk. destruct (cs <? 0)%Z; [rewrite blen_bskip; lia|].
  rewrite blen_btake, blen_bskip. lia.
Qed.

(* the read loop with expected_format=None on an open file: reads never raise; the only
   exception is ImageFormatError from wrapper.format; leaving the loop without a result
   means EOF was reached (the fuel S (bytes left) is never exhausted) *)
Lemma detect_loop_spec : forall fuel cs w s, w_expected w = None -> f_closed s = false ->
  forall w' s' tr r, detect_loop fuel cs w s = (w', s', tr, r) ->
  w_expected w' = None /\ f_closed s' = false /\ f_data s' = f_data s /\ f_pos s <= f_pos s' /\
  match r with
  | Some (Exn e) => e = ImageFormatError
  | Some (Ok None) => False
  | Some (Ok (Some _)) => True
  | None => (0 < cs)%Z -> (N.to_nat (blen (f_data s) - f_pos s) < fuel)%nat -> blen (f_data s) <= f_pos s'
  end.
Proof.
  induction fuel as [|k IH]; intros cs w s He Hc w' s' tr r; cbn [Wrap.detect_loop].
  - intros H; inversion H; subst. repeat split; auto; try lia.
  - rewrite (w_read_open I eat finish complete fmatch sh) by assumption. cbn zeta.
    destruct (Wrap.w_step I eat finish complete fmatch sh w (InChunk (f_chunk s cs))) as [[w1 tr1] o] eqn:Hs.
    assert (Ho : o = OutChunk (f_chunk s cs)).
    { eapply (w_step_no_expected I eat finish complete fmatch sh Hsh); eauto. intros x _. now rewrite He. }
    pose proof (w_step_expected I eat finish complete fmatch sh Hsh _ _ _ _ _ Hs) as He1. rewrite He in He1.
    subst o. destruct (f_chunk s cs) as [|x t] eqn:Hch.
    + intros H; inversion H; subst. cbn [f_pos f_data f_closed]. repeat split; auto; try (cbn; lia).
      intros Hcs _. cbn [blen length]. pose proof (f_chunk_nil_eof s cs Hcs Hch). cbn. lia.
    + destruct (format_name_cases w1) as [(nm & Hf)|[Hf|(Hf & _)]]; rewrite Hf.
      * intros H; inversion H; subst. cbn [f_pos f_data f_closed]. repeat split; auto. lia.
      * intros H; inversion H; subst. cbn [f_pos f_data f_closed]. repeat split; auto. lia.
      * match goal with |- context [Wrap.detect_loop ?a1 ?a2 ?a3 ?a4 ?a5 ?a6 ?a7 ?a8 ?kk ?cc ?ww ?ss] =>
          destruct (Wrap.detect_loop a1 a2 a3 a4 a5 a6 a7 a8 kk cc ww ss) as [[[w2 s2] tr2] r2] eqn:Hr end.
        intros H; inversion H; subst.
        apply IH in Hr; [|assumption|reflexivity]. cbn [f_pos f_data f_closed] in Hr.
        destruct Hr as (H1 & H2 & H3 & H4 & H5). repeat split; auto; try lia.
        destruct r as [[[nm|]|e]|]; auto.
        intros Hcs Hfuel. apply H5; [assumption|].
        pose proof (f_chunk_len s cs Hcs) as Hl. rewrite Hch in Hl.
        assert (1 <= blen (x :: t)) by (rewrite blen_cons; lia). lia.
Qed.

(* detect_file_format_total: on every file content the function returns the NAME of an
   inspector or raises ImageFormatError; never None, never another exception; the file is
   closed and every inspector finished afterwards *)
Theorem detect_file_format_total cs (factory : list (str * I)) data : (0 < cs)%Z ->
  let '(w, s, tr, r) := detect_file_format cs factory data in
  ((exists nm, r = Ok (Some nm)) \/ r = Exn ImageFormatError) /\
  f_closed s = true /\ w_finished w = true /\ f_data s = data.
Proof.
  intros Hcs. unfold Wrap.detect_file_format.
  match goal with |- context [Wrap.detect_loop ?a1 ?a2 ?a3 ?a4 ?a5 ?a6 ?a7 ?a8 ?kk ?cc ?ww ?ss] =>
    destruct (Wrap.detect_loop a1 a2 a3 a4 a5 a6 a7 a8 kk cc ww ss) as [[[w1 s1] tr1] r1] eqn:Hr end.
  apply detect_loop_spec in Hr; [|reflexivity|reflexivity]. cbn [f_pos f_data f_closed] in Hr.
  destruct Hr as (H1 & H2 & H3 & H4 & H5). cbn [w_close_f].
  destruct r1 as [[[nm|]|e]|]; cbn [f_close f_closed f_data w_finished Wrap.finish_all].
  - repeat split; eauto.
  - contradiction.
  - subst e. repeat split; auto.
  - repeat split; auto.
    destruct (format_name_cases (Wrap.finish_all I finish w1)) as [(nm & Hf)|[Hf|(_ & Hd)]]; eauto.
    unfold decided in Hd. cbn [w_finished Wrap.finish_all] in Hd. rewrite orb_true_r in Hd. discriminate.
Qed.

End DetectProofs.
