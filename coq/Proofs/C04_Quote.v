(* Proofs/C04_Quote.v — the quote-delimited patterns whose key is preceded by a greedy run
   (['"][^'"]*key…): the matcher has to backtrack, so the first-attempt relation [gm] of
   C04_Regex.v does not apply.  Instead: (i) a match EXISTS (completeness of the matcher,
   Proofs/C11_Regex.v, for an explicit declarative parse); (ii) EVERY successful parse reads the
   same text, because group 1 always consumes a fixed number of quote characters and ends in
   one (language soundness of the matcher + counting quotes).  Imports the declarative relation
   [mt] with m_sound / m_complete of C11_Regex.v; adds the version of soundness that also
   tracks the recorded groups. *)
Require Import OV.Base.Bytes OV.Base.PyInt OV.Base.Regex OV.Base.C04_Tmpl.
Require Import OV.Proofs.C11_Regex OV.Proofs.C04_Regex.
Open Scope N_scope.

(* ---------- consumed prefix of a declarative parse ---------- *)
Lemma mt_consumed r s p s' p' : mt r s p s' p' -> exists c, s = c ++ s' /\ p' = p + blen c.
Proof.
  induction 1.
  - exists []. split; [reflexivity|cbn; lia].
  - exists [c]. split; [reflexivity|cbn; lia].
  - destruct IHmt1 as (c1 & -> & ->). destruct IHmt2 as (c2 & -> & ->).
    exists (c1 ++ c2). split; [rewrite app_assoc; reflexivity|rewrite blen_app; lia].
  - assumption.
  - assumption.
  - exists (firstn n s). split; [symmetry; apply firstn_skipn|].
    unfold blen. rewrite firstn_length. pose proof (run_len_le cs s mx). lia.
  - assumption.
  - exists []. split; [reflexivity|cbn; lia].
  - assumption.
  - exists []. split; [reflexivity|cbn; lia].
  - exists []. split; [reflexivity|cbn; lia].
  - exists []. split; [reflexivity|cbn; lia].
Qed.

(* ---------- soundness of the matcher w.r.t. [mt], with the groups it records ---------- *)
Lemma m_sound_g R r : forall s p g (k : cont R) x,
  m R r s p g k = Some x ->
  exists s' p' gs, mt r s p s' p' /\ k s' p' (gs ++ g) = Some x /\ Forall (span_ok (gids r) p p') gs.
Proof.
  induction r as [|cs|a IHa b IHb|a IHa b IHb|cs mn mx|a IHa|i a IHa| |]; intros s p g k x H.
  - exists s, p, []. split; [constructor|]. split; [exact H|constructor].
  - cbn [m] in H. destruct s as [|c t]; [discriminate|]. destruct (cmem c cs) eqn:E; [|discriminate].
    exists t, (p + 1), []. split; [constructor; exact E|]. split; [exact H|constructor].
  - cbn [m] in H. destruct (IHa _ _ _ _ _ H) as (s1 & p1 & gs1 & Ma & K1 & F1).
    destruct (IHb _ _ _ _ _ K1) as (s2 & p2 & gs2 & Mb & K2 & F2).
    destruct (mt_consumed _ _ _ _ _ Ma) as (c1 & _ & E1). destruct (mt_consumed _ _ _ _ _ Mb) as (c2 & _ & E2).
    exists s2, p2, (gs2 ++ gs1). split; [econstructor; eassumption|]. split; [rewrite <- app_assoc; exact K2|].
    apply Forall_app. split; eapply Forall_impl; try eassumption; intros e He; cbn [gids].
    + eapply span_ok_weaken; [exact He|apply incl_appr, incl_refl|lia|lia].
    + eapply span_ok_weaken; [exact He|apply incl_appl, incl_refl|lia|lia].
  - cbn [m] in H. destruct (m R a s p g k) eqn:E.
    + inversion H; subst. destruct (IHa _ _ _ _ _ E) as (s' & p' & gs & M & K & F).
      exists s', p', gs. split; [apply mt_alt_l; exact M|]. split; [exact K|].
      eapply Forall_impl; [|exact F]. intros e He.
      eapply span_ok_weaken; [exact He|cbn [gids]; apply incl_appl, incl_refl|lia|lia].
    + destruct (IHb _ _ _ _ _ H) as (s' & p' & gs & M & K & F).
      exists s', p', gs. split; [apply mt_alt_r; exact M|]. split; [exact K|].
      eapply Forall_impl; [|exact F]. intros e He.
      eapply span_ok_weaken; [exact He|cbn [gids]; apply incl_appr, incl_refl|lia|lia].
  - cbn [m] in H. destruct (Nat.ltb (run_len cs s mx) mn) eqn:L; [discriminate|]. apply Nat.ltb_ge in L.
    apply try_counts_sound in H; [|exact L]. destruct H as (j & Hj & H).
    exists (skipn j s), (p + N.of_nat j), []. split; [constructor; exact Hj|]. split; [exact H|constructor].
  - cbn [m] in H. destruct (m R a s p g k) eqn:E.
    + inversion H; subst. destruct (IHa _ _ _ _ _ E) as (s' & p' & gs & M & K & F).
      exists s', p', gs. split; [apply mt_opt_some; exact M|]. split; [exact K|exact F].
    + exists s, p, []. split; [apply mt_opt_none|]. split; [exact H|constructor].
  - cbn [m] in H. destruct (IHa _ _ _ _ _ H) as (s' & p' & gs & M & K & F).
    destruct (mt_consumed _ _ _ _ _ M) as (c & _ & E).
    exists s', p', ((i, (p, p')) :: gs). split; [constructor; exact M|]. split; [exact K|].
    constructor.
    + unfold span_ok. cbn. repeat split; auto; lia.
    + eapply Forall_impl; [|exact F]. intros e He.
      eapply span_ok_weaken; [exact He|cbn [gids]; apply incl_tl, incl_refl|lia|lia].
  - cbn [m] in H. destruct (p =? 0) eqn:E; [|discriminate]. apply N.eqb_eq in E. subst p.
    exists s, 0, []. split; [constructor|]. split; [exact H|constructor].
  - cbn [m] in H. rewrite eol_case in H. destruct (eol_ok s) eqn:E; [|discriminate].
    apply eol_ok_iff in E. exists s, p, []. split; [destruct E as [->| ->]; constructor|]. split; [exact H|constructor].
Qed.

(* a successful match of (G1 a) x (G2 b): three declarative parses and the two group spans *)
Lemma two_group_mt a x b s e g :
  no_gid 1 x = true -> no_gid 1 b = true ->
  match_at (Seq (Group 1 a) (Seq x (Group 2 b))) s 0 = Some (e, g) ->
  exists s1 p1 s2 p2 s3, mt a s 0 s1 p1 /\ mt x s1 p1 s2 p2 /\ mt b s2 p2 s3 e /\
    gget g 1 = Some (0, p1) /\ gget g 2 = Some (p2, e).
Proof.
  intros Hx Hb H. apply no_gid_notin in Hx. apply no_gid_notin in Hb.
  unfold match_at in H. cbn [m] in H.
  destruct (m_sound_g _ _ _ _ _ _ _ H) as (s1 & p1 & gs1 & M1 & K1 & F1). clear H. cbn beta in K1.
  destruct (m_sound_g _ _ _ _ _ _ _ K1) as (s2 & p2 & gs2 & M2 & K2 & F2). clear K1. cbn beta in K2.
  destruct (m_sound_g _ _ _ _ _ _ _ K2) as (s3 & p3 & gs3 & M3 & K3 & F3). clear K2. cbn beta in K3.
  inversion K3; subst; clear K3.
  exists s1, p1, s2, p2, s3. repeat split; try assumption.
  - cbn [gget Nat.eqb]. rewrite (gget_skip gs3 _ 1 _ _ _ F3 Hb). rewrite (gget_skip gs2 _ 1 _ _ _ F2 Hx).
    cbn [gget Nat.eqb]. reflexivity.
Qed.

(* ---------- counting the characters of a set Q (the quotes) in what a regex consumes ---------- *)
Definition range_incl (a b : N * N) : bool := (fst b <=? fst a) && (snd a <=? snd b).
Definition cset_incl (a b : cset) : bool := forallb (fun x => existsb (range_incl x) b) a.

Lemma cset_incl_sound a b c : cset_incl a b = true -> cmem c a = true -> cmem c b = true.
Proof.
  unfold cset_incl. induction a as [|[lo hi] a IH]; intros H Hc; [discriminate|].
  cbn [forallb] in H. apply andb_true_iff in H. destruct H as [H1 H2].
  cbn [cmem] in Hc. apply orb_true_iff in Hc. destruct Hc as [Hc|Hc]; [|auto].
  clear IH H2. induction b as [|[lo' hi'] b IH]; [discriminate|].
  cbn [existsb] in H1. apply orb_true_iff in H1. cbn [cmem]. destruct H1 as [H1|H1].
  - unfold range_incl in H1. cbn [fst snd] in H1. replace ((lo' <=? c) && (c <=? hi')) with true by lia. reflexivity.
  - rewrite (IH H1). apply orb_true_r.
Qed.

Definition countq (Q : cset) (c : str) : nat := length (filter (fun x => cmem x Q) c).
Lemma countq_app Q a b : countq Q (a ++ b) = (countq Q a + countq Q b)%nat.
Proof. unfold countq. rewrite filter_app, app_length. reflexivity. Qed.
Lemma countq_none Q cs v : all_in cs v = true -> cset_disj cs Q = true -> countq Q v = 0%nat.
Proof.
  intros Hv Hd. unfold countq. induction v as [|c v IH]; [reflexivity|].
  cbn [all_in forallb] in Hv. apply andb_true_iff in Hv. destruct Hv as [Hc Hv].
  cbn [filter]. rewrite (cset_disj_sound _ _ _ Hd Hc). apply IH. exact Hv.
Qed.
Lemma countq_one Q q : cmem q Q = true -> countq Q [q] = 1%nat.
Proof. intros H. unfold countq. cbn [filter]. rewrite H. reflexivity. Qed.
Lemma countq_cons_q Q q v : cmem q Q = true -> countq Q (q :: v) = S (countq Q v).
Proof. intros H. unfold countq. cbn [filter]. rewrite H. reflexivity. Qed.
Lemma countq_cons_n Q q v : cmem q Q = false -> countq Q (q :: v) = countq Q v.
Proof. intros H. unfold countq. cbn [filter]. rewrite H. reflexivity. Qed.

(* how many Q characters every parse of r consumes (None: not determined syntactically) *)
Fixpoint qcount (Q : cset) (r : re) : option nat :=
  match r with
  | Eps => Some 0%nat
  | Chr cs => if cset_disj cs Q then Some 0%nat else if cset_incl cs Q then Some 1%nat else None
  | Rep cs _ _ => if cset_disj cs Q then Some 0%nat else None
  | Seq a b => match qcount Q a, qcount Q b with Some x, Some y => Some (x + y)%nat | _, _ => None end
  | Group _ a => qcount Q a
  | _ => None
  end.

Lemma firstn_all_in cs s mx j : (j <= run_len cs s mx)%nat -> all_in cs (firstn j s) = true.
Proof.
  revert s mx. induction j as [|j IH]; intros s mx H; [reflexivity|].
  destruct s as [|c t]; [reflexivity|]. cbn [run_len] in H.
  assert (Hc : cmem c cs = true /\ (j <= run_len cs t (option_map pred mx))%nat).
  { destruct mx as [[|k]|]; try lia; destruct (cmem c cs); try lia; split; try reflexivity; lia. }
  destruct Hc as [Hc Hj]. cbn [firstn all_in forallb]. rewrite Hc. apply (IH _ _ Hj).
Qed.

Lemma qcount_sound Q r : forall n s p s' p', qcount Q r = Some n -> mt r s p s' p' ->
  exists c, s = c ++ s' /\ p' = p + blen c /\ countq Q c = n.
Proof.
  induction r as [|cs|a IHa b IHb|a IHa b IHb|cs mn mx|a IHa|i a IHa| |]; intros n s p s' p' Hq H; cbn [qcount] in Hq; try discriminate.
  - inversion Hq; subst. inversion H; subst. exists []. repeat split; cbn; lia.
  - inversion H; subst. exists [c]. split; [reflexivity|]. split; [cbn; lia|].
    destruct (cset_disj cs Q) eqn:D.
    + inversion Hq; subst. apply countq_cons_n. apply (cset_disj_sound _ _ _ D). assumption.
    + destruct (cset_incl cs Q) eqn:I; [|discriminate]. inversion Hq; subst.
      apply countq_one. apply (cset_incl_sound _ _ _ I). assumption.
  - destruct (qcount Q a) as [x|] eqn:Qa; [|discriminate]. destruct (qcount Q b) as [y|] eqn:Qb; [|discriminate].
    inversion Hq; subst. inversion H as [| |? ? ? ? s1 p1 ? ? Ha Hb| | | | | | | | |]; subst.
    destruct (IHa _ _ _ _ _ eq_refl Ha) as (c1 & -> & -> & C1). destruct (IHb _ _ _ _ _ eq_refl Hb) as (c2 & -> & -> & C2).
    exists (c1 ++ c2). split; [rewrite app_assoc; reflexivity|]. split; [rewrite blen_app; lia|].
    rewrite countq_app. lia.
  - destruct (cset_disj cs Q) eqn:D; [|discriminate]. inversion Hq; subst.
    inversion H as [| | | | |? ? ? ? ? j Hj| | | | | |]; subst.
    exists (firstn j s). split; [symmetry; apply firstn_skipn|]. split.
    + unfold blen. rewrite firstn_length. pose proof (run_len_le cs s mx). lia.
    + apply (countq_none Q cs); [|exact D]. apply (firstn_all_in cs s mx). lia.
  - inversion H; subst. eapply IHa; eassumption.
Qed.

(* the last character every parse of r consumes lies in Q *)
Fixpoint last_q (Q : cset) (r : re) : bool :=
  match r with
  | Chr cs => cset_incl cs Q
  | Seq _ b => last_q Q b
  | Group _ a => last_q Q a
  | _ => false
  end.

Lemma last_q_sound Q r : forall s p s' p', last_q Q r = true -> mt r s p s' p' ->
  exists c0 q, s = (c0 ++ [q]) ++ s' /\ cmem q Q = true.
Proof.
  induction r as [|cs|a IHa b IHb|a IHa b IHb|cs mn mx|a IHa|i a IHa| |]; intros s p s' p' Hl H; cbn [last_q] in Hl; try discriminate.
  - inversion H; subst. exists [], c. split; [reflexivity|]. apply (cset_incl_sound _ _ _ Hl). assumption.
  - inversion H as [| |? ? ? ? s1 p1 ? ? Ha Hb| | | | | | | | |]; subst.
    destruct (mt_consumed _ _ _ _ _ Ha) as (c1 & -> & _).
    destruct (IHb _ _ _ _ Hl Hb) as (c0 & q & -> & Hq).
    exists (c1 ++ c0), q. split; [rewrite !app_assoc; reflexivity|exact Hq].
  - inversion H; subst. eapply IHa; eassumption.
Qed.

(* two prefixes of one string with the same number of Q characters, both ending in one, coincide *)
Lemma prefix_unique Q c1 r1 c2 r2 a1 q1 a2 q2 :
  c1 ++ r1 = c2 ++ r2 -> countq Q c1 = countq Q c2 ->
  c1 = a1 ++ [q1] -> cmem q1 Q = true -> c2 = a2 ++ [q2] -> cmem q2 Q = true -> c1 = c2 /\ r1 = r2.
Proof.
  intros E C E1 H1 E2 H2.
  assert (G : forall (x y : str) rx ry ax qx, x ++ rx = y ++ ry -> countq Q x = countq Q y ->
              x = ax ++ [qx] -> cmem qx Q = true -> (exists l, x = y ++ l) -> x = y).
  { intros x y rx ry ax qx Exy Cxy Ex Hqx (l & El). destruct l as [|c l] using rev_ind; [rewrite app_nil_r in El; exact El|].
    exfalso. clear IHl. rewrite El in Cxy. rewrite countq_app in Cxy.
    assert (c = qx). { rewrite El in Ex. rewrite app_assoc in Ex. apply app_inj_tail in Ex. destruct Ex as [_ Ex]. exact Ex. }
    subst c. rewrite countq_app, (countq_one Q qx Hqx) in Cxy. lia. }
  pose proof E as E0. apply app_eq_app in E. destruct E as (l & [[Ea Eb]|[Ea Eb]]).
  - assert (Hx : c1 = c2) by (apply (G c1 c2 r1 r2 a1 q1 E0 C E1 H1); exists l; exact Ea).
    assert (l = []). { apply (app_inv_head c2). rewrite app_nil_r, <- Ea. exact Hx. }
    subst l. split; [exact Hx|]. rewrite Eb. reflexivity.
  - assert (Hx : c2 = c1) by (apply (G c2 c1 r2 r1 a2 q2 (eq_sym E0) (eq_sym C) E2 H2); exists l; exact Ea).
    assert (l = []). { apply (app_inv_head c1). rewrite app_nil_r, <- Ea. exact Hx. }
    subst l. split; [symmetry; exact Hx|]. rewrite Eb. reflexivity.
Qed.

(* ---------- building a declarative parse ---------- *)
Lemma run_len_ge cs v rest mx : all_in cs v = true -> within (length v) mx = true ->
  (length v <= run_len cs (v ++ rest) mx)%nat.
Proof.
  revert mx. induction v as [|c v IH]; intros mx Hv Hw; [cbn; lia|].
  cbn [all_in forallb] in Hv. apply andb_true_iff in Hv. destruct Hv as [Hc Hv].
  cbn [app run_len length]. rewrite Hc. destruct mx as [[|j]|].
  - cbn in Hw. discriminate.
  - cbn [option_map pred]. apply le_n_S. apply IH; auto.
  - apply le_n_S. apply IH; auto.
Qed.

Lemma mt_rep_run cs mn mx v rest p :
  all_in cs v = true -> (mn <= length v)%nat -> within (length v) mx = true ->
  mt (Rep cs mn mx) (v ++ rest) p rest (p + blen v).
Proof.
  intros Hv Hmn Hw. pose proof (mt_rep cs mn mx (v ++ rest) p (length v)) as H.
  rewrite skipn_app_exact in H. apply H. split; [exact Hmn|]. apply run_len_ge; assumption.
Qed.

Lemma mt_keyseq tbl k K : casing_ok tbl k K -> forall rest s p s' p',
  mt rest s (p + blen K) s' p' -> mt (keyseq tbl k rest) (K ++ s) p s' p'.
Proof.
  induction 1 as [|c C k K Hc _ IH]; intros rest s p s' p' H.
  - cbn in *. rewrite N.add_0_r in H. exact H.
  - cbn [keyseq app]. econstructor; [constructor; exact Hc|]. apply IH.
    rewrite blen_cons in H. replace (p + 1 + blen K) with (p + (1 + blen K)) by lia. exact H.
Qed.

Lemma mt_rep_inv cs mn mx s p s' p' : mt (Rep cs mn mx) s p s' p' ->
  exists j, (mn <= j <= run_len cs s mx)%nat /\ s' = skipn j s /\ p' = p + N.of_nat j.
Proof. inversion 1; subst. eexists. repeat split; eauto; lia. Qed.
Lemma mt_chr_inv cs s p s' p' : mt (Chr cs) s p s' p' -> exists c, s = c :: s' /\ cmem c cs = true /\ p' = p + 1.
Proof. inversion 1; subst. eexists. repeat split; eauto. Qed.
Lemma mt_group_inv i a s p s' p' : mt (Group i a) s p s' p' -> mt a s p s' p'.
Proof. inversion 1; subst. assumption. Qed.
Lemma mt_seq_inv a b s p s' p' : mt (Seq a b) s p s' p' -> exists s1 p1, mt a s p s1 p1 /\ mt b s1 p1 s' p'.
Proof. inversion 1; subst. eauto. Qed.

(* ---------- the generic theorem for (G1 a) [^Q]* (G2 [Q]) ---------- *)
Theorem quote_delimited_sub Q a nq qc h v q4 mask nA pA h0 q3 :
  qcount Q a = Some nA -> last_q Q a = true -> cset_disj nq Q = true -> cset_incl qc Q = true ->
  mt a (h ++ v ++ [q4]) 0 (v ++ [q4]) pA ->
  countq Q h = nA -> h = h0 ++ [q3] -> cmem q3 Q = true ->
  all_in nq v = true -> cmem q4 qc = true ->
  re_sub (Seq (Group 1 a) (Seq (Rep nq 0 None) (Group 2 (Chr qc)))) (t2 mask) (h ++ v ++ [q4]) = h ++ mask ++ [q4].
Proof.
  intros Hqa Hla Hd Hi Ma Ch Eh Hq3 Hv Hq4.
  set (r := Seq (Group 1 a) (Seq (Rep nq 0 None) (Group 2 (Chr qc)))).
  set (s := h ++ v ++ [q4]).
  assert (Hq4Q : cmem q4 Q = true) by (apply (cset_incl_sound _ _ _ Hi); exact Hq4).
  assert (Hq4n : cmem q4 nq = false).
  { destruct (cmem q4 nq) eqn:E; [|reflexivity]. rewrite (cset_disj_sound _ _ _ Hd E) in Hq4Q. discriminate. }
  (* (i) a match exists *)
  assert (Hex : match_at r s 0 <> None).
  { unfold match_at. apply (m_complete _ r s 0 [] (pA + blen v + 1)); [|intros; discriminate].
    unfold r. econstructor; [constructor; exact Ma|]. econstructor.
    - apply mt_rep_run; [exact Hv|lia|reflexivity].
    - constructor. constructor. exact Hq4. }
  destruct (match_at r s 0) as [[e g]|] eqn:Em; [clear Hex|congruence].
  (* (ii) every successful parse reads the same text *)
  destruct (two_group_mt a (Rep nq 0 None) (Chr qc) s e g eq_refl eq_refl Em) as (s1 & p1 & s2 & p2 & s3 & M1 & M2 & M3 & G1 & G2).
  destruct (qcount_sound Q a _ _ _ _ _ Hqa M1) as (c1 & Es & Ep1 & Cc1).
  destruct (last_q_sound Q a _ _ _ _ Hla M1) as (c0 & q & Es' & Hq).
  assert (Hc1 : c1 = c0 ++ [q]) by (apply (app_inv_tail s1); rewrite <- Es, <- Es'; reflexivity).
  unfold s in Es.
  destruct (prefix_unique Q h (v ++ [q4]) c1 s1 h0 q3 c0 q Es (eq_trans Ch (eq_sym Cc1)) Eh Hq3 Hc1 Hq) as [Ec Er].
  clear Es'. rewrite <- Ec in *. rewrite <- Er in *. clear Ec Er.
  destruct (mt_rep_inv _ _ _ _ _ _ _ M2) as (j & Hj & -> & ->).
  destruct (mt_chr_inv _ _ _ _ _ M3) as (c & Ec & Hc & ->). rename s3 into t.
  assert (Hrun : run_len nq (v ++ [q4]) None = length v).
  { apply run_len_exact; [exact Hv|reflexivity|]. left. cbn [hd_notin]. rewrite Hq4n. reflexivity. }
  rewrite Hrun in Hj.
  assert (j = length v).
  { destruct (Nat.eq_dec j (length v)) as [E|N]; [exact E|]. exfalso.
    assert (Hlt : (j < length v)%nat) by lia.
    rewrite skipn_app in Ec. replace (j - length v)%nat with 0%nat in Ec by lia. cbn [skipn] in Ec.
    destruct (skipn j v) as [|c' t'] eqn:Esk.
    - apply (f_equal (@length _)) in Esk. rewrite skipn_length in Esk. cbn in Esk. lia.
    - cbn [app] in Ec. inversion Ec; subst c'.
      assert (Hin : In c v). { rewrite <- (firstn_skipn j v), Esk. apply in_or_app. right. left. reflexivity. }
      unfold all_in in Hv. rewrite forallb_forall in Hv. specialize (Hv c Hin).
      pose proof (cset_incl_sound _ _ _ Hi Hc) as HcQ. rewrite (cset_disj_sound _ _ _ Hd Hv) in HcQ. discriminate. }
  subst j. rewrite skipn_app_exact in Ec. inversion Ec; subst c t. clear Ec.
  clear M1 M2 M3. subst p1.
  (* the match spans the whole subject with the expected groups *)
  assert (Ee : 0 + blen h + N.of_nat (length v) + 1 = blen s).
  { unfold s. rewrite !blen_app. unfold blen. cbn [length]. lia. }
  rewrite Ee in Em, G2.
  assert (Hne : s <> []). { unfold s. intros E. apply (f_equal (@length _)) in E. rewrite !app_length in E. cbn in E. lia. }
  rewrite (re_sub_whole r _ s g Hne Em).
  rewrite (expand_t2 _ _ _ _ _ _ _ G1 G2). unfold s.
  replace (0 + blen h) with (blen h) by lia. rewrite slice_head. f_equal. f_equal.
  replace (blen h + N.of_nat (length v)) with (blen (h ++ v)) by (rewrite blen_app; unfold blen; lia).
  rewrite (app_assoc h v [q4]). apply slice_tail.
Qed.

(* ---------- the same at an arbitrary position, followed by arbitrary text ---------- *)
Lemma two_group_mt_at a x b s p e g :
  no_gid 1 x = true -> no_gid 1 b = true ->
  match_at (Seq (Group 1 a) (Seq x (Group 2 b))) s p = Some (e, g) ->
  exists s1 p1 s2 p2 s3, mt a s p s1 p1 /\ mt x s1 p1 s2 p2 /\ mt b s2 p2 s3 e /\
    gget g 1 = Some (p, p1) /\ gget g 2 = Some (p2, e).
Proof.
  intros Hx Hb H. apply no_gid_notin in Hx. apply no_gid_notin in Hb.
  unfold match_at in H. cbn [m] in H.
  destruct (m_sound_g _ _ _ _ _ _ _ H) as (s1 & p1 & gs1 & M1 & K1 & F1). clear H. cbn beta in K1.
  destruct (m_sound_g _ _ _ _ _ _ _ K1) as (s2 & p2 & gs2 & M2 & K2 & F2). clear K1. cbn beta in K2.
  destruct (m_sound_g _ _ _ _ _ _ _ K2) as (s3 & p3 & gs3 & M3 & K3 & F3). clear K2. cbn beta in K3.
  inversion K3; subst; clear K3.
  exists s1, p1, s2, p2, s3. repeat split; try assumption.
  - cbn [gget Nat.eqb]. rewrite (gget_skip gs3 _ 1 _ _ _ F3 Hb). rewrite (gget_skip gs2 _ 1 _ _ _ F2 Hx).
    cbn [gget Nat.eqb]. reflexivity.
Qed.

Theorem quote_delimited_at Q a nq qc pre h v q4 post nA pA h0 q3 :
  qcount Q a = Some nA -> last_q Q a = true -> cset_disj nq Q = true -> cset_incl qc Q = true ->
  mt a (h ++ v ++ q4 :: post) (blen pre) (v ++ q4 :: post) pA ->
  countq Q h = nA -> h = h0 ++ [q3] -> cmem q3 Q = true ->
  all_in nq v = true -> cmem q4 qc = true ->
  exists g, match_at (Seq (Group 1 a) (Seq (Rep nq 0 None) (Group 2 (Chr qc)))) (h ++ v ++ q4 :: post) (blen pre)
            = Some (blen (pre ++ h ++ v ++ [q4]), g) /\
            gget g 1 = Some (blen pre, blen (pre ++ h)) /\ gget g 2 = Some (blen (pre ++ h ++ v), blen (pre ++ h ++ v ++ [q4])).
Proof.
  intros Hqa Hla Hd Hi Ma Ch Eh Hq3 Hv Hq4.
  set (r := Seq (Group 1 a) (Seq (Rep nq 0 None) (Group 2 (Chr qc)))).
  set (s := h ++ v ++ q4 :: post).
  assert (Hq4Q : cmem q4 Q = true) by (apply (cset_incl_sound _ _ _ Hi); exact Hq4).
  assert (Hq4n : cmem q4 nq = false).
  { destruct (cmem q4 nq) eqn:E; [|reflexivity]. rewrite (cset_disj_sound _ _ _ Hd E) in Hq4Q. discriminate. }
  assert (Hex : match_at r s (blen pre) <> None).
  { unfold match_at. apply (m_complete _ r s (blen pre) post (pA + blen v + 1)); [|intros; discriminate].
    unfold r. econstructor; [constructor; exact Ma|]. econstructor.
    - apply mt_rep_run; [exact Hv|lia|reflexivity].
    - constructor. constructor. exact Hq4. }
  destruct (match_at r s (blen pre)) as [[e g]|] eqn:Em; [clear Hex|congruence].
  destruct (two_group_mt_at a (Rep nq 0 None) (Chr qc) s (blen pre) e g eq_refl eq_refl Em) as (s1 & p1 & s2 & p2 & s3 & M1 & M2 & M3 & G1 & G2).
  destruct (qcount_sound Q a _ _ _ _ _ Hqa M1) as (c1 & Es & Ep1 & Cc1).
  destruct (last_q_sound Q a _ _ _ _ Hla M1) as (c0 & q & Es' & Hq).
  assert (Hc1 : c1 = c0 ++ [q]) by (apply (app_inv_tail s1); rewrite <- Es, <- Es'; reflexivity).
  unfold s in Es.
  destruct (prefix_unique Q h (v ++ q4 :: post) c1 s1 h0 q3 c0 q Es (eq_trans Ch (eq_sym Cc1)) Eh Hq3 Hc1 Hq) as [Ec Er].
  clear Es'. rewrite <- Ec in *. rewrite <- Er in *. clear Ec Er.
  destruct (mt_rep_inv _ _ _ _ _ _ _ M2) as (j & Hj & -> & ->).
  destruct (mt_chr_inv _ _ _ _ _ M3) as (c & Ec & Hc & ->). rename s3 into t.
  assert (Hrun : run_len nq (v ++ q4 :: post) None = length v).
  { apply run_len_exact; [exact Hv|reflexivity|]. left. cbn [hd_notin]. rewrite Hq4n. reflexivity. }
  rewrite Hrun in Hj.
  assert (j = length v).
  { destruct (Nat.eq_dec j (length v)) as [E|N]; [exact E|]. exfalso.
    assert (Hlt : (j < length v)%nat) by lia.
    rewrite skipn_app in Ec. replace (j - length v)%nat with 0%nat in Ec by lia. cbn [skipn] in Ec.
    destruct (skipn j v) as [|c' t'] eqn:Esk.
    - apply (f_equal (@length _)) in Esk. rewrite skipn_length in Esk. cbn in Esk. lia.
    - cbn [app] in Ec. inversion Ec; subst c'.
      assert (Hin : In c v). { rewrite <- (firstn_skipn j v), Esk. apply in_or_app. right. left. reflexivity. }
      unfold all_in in Hv. rewrite forallb_forall in Hv. specialize (Hv c Hin).
      pose proof (cset_incl_sound _ _ _ Hi Hc) as HcQ. rewrite (cset_disj_sound _ _ _ Hd Hv) in HcQ. discriminate. }
  subst j. rewrite skipn_app_exact in Ec. inversion Ec; subst c t. clear Ec M1 M2 M3. subst p1.
  exists g. subst r s. rewrite ?blen_app in *. unfold blen in *. cbn [length] in *.
  split; [f_equal; f_equal; lia|].
  split; [etransitivity; [exact G1|f_equal; f_equal; lia]|etransitivity; [exact G2|f_equal; f_equal; lia]].
Qed.
