(* Proofs/C02_Equiv.v — the statement-level translations of the safety checks (Gen/C02_Checks.v, regenerated from
   the source on every run by tools/gen/gen_C02_checks.py) compute what the hand-written model computes.
   Every lemma named *_equiv is a proof obligation of property C02. *)
Require Import OV.Base.Bytes OV.Base.Py OV.Base.PyInt OV.Base.Str OV.Base.Insp_Struct OV.Base.C02_Py.
Require Import OV.Gen.Insp_Consts OV.Gen.C02_Checks OV.Model.Insp_Engine.
Require Import OV.Model.Insp_Qcow2 OV.Model.Insp_Gpt OV.Model.Insp_Luks OV.Model.Insp_Vmdk OV.Model.C02.
Require Import OV.Proofs.C02_Bytes.
Open Scope N_scope.

(* ---------- Z-level Python operations against the N-level model operations ---------- *)
Lemma zslice_nsub lo hi b : zslice (Some (Z.of_N lo)) (Some (Z.of_N hi)) b = nsub lo hi b.
Proof. rewrite zslice_range by lia. rewrite !N2Z.id, nsub_bsub. reflexivity. Qed.

Lemma zslice_ntake n b : zslice None (Some (Z.of_N n)) b = ntake n b.
Proof. rewrite zslice_to by lia. rewrite N2Z.id, ntake_btake. reflexivity. Qed.

Lemma zslice_nlast n b : 0 < n -> zslice (Some (- Z.of_N n)%Z) None b = nlast n b.
Proof.
  intros Hn. unfold nlast. replace (n =? 0) with false by lia. rewrite nskip_bskip, flen_blen.
  unfold zslice, norm_idx. replace (- Z.of_N n <? 0)%Z with true by lia.
  replace (Z.to_N (Z.max 0 (Z.min (Z.of_N (blen b)) (- Z.of_N n + Z.of_N (blen b))))) with (blen b - n) by lia.
  rewrite N2Z.id. unfold bsub. apply btake_all. rewrite blen_bskip. lia.
Qed.

Definition resZ (r : res N) : res Z := match r with Ok x => Ok (Z.of_N x) | Exn e => Exn e end.

Lemma bidxZ_N b i : bidxZ b (Z.of_N i) = resZ (bidx b i).
Proof.
  unfold bidxZ, bidx, zlen. rewrite flen_blen.
  replace (0 <=? Z.of_N i)%Z with true by lia. cbn [andb].
  destruct (i <? blen b) eqn:E.
  - replace (Z.of_N i <? Z.of_N (blen b))%Z with true by lia. rewrite N2Z.id. reflexivity.
  - replace (Z.of_N i <? Z.of_N (blen b))%Z with false by lia.
    replace (Z.of_N i <? 0)%Z with false by lia. reflexivity.
Qed.

Lemma land_ZN x m : Z.land (Z.of_N x) (Z.of_N m) = Z.of_N (N.land x m).
Proof.
  apply Z.bits_inj'. intros n Hn. rewrite Z.land_spec, !Z.testbit_of_N' by exact Hn. symmetry. apply N.land_spec.
Qed.
Lemma ldiff_ZN x m : Z.land (Z.of_N x) (Z.lnot (Z.of_N m)) = Z.of_N (N.ldiff x m).
Proof.
  rewrite <- Z.ldiff_land. apply Z.bits_inj'. intros n Hn. rewrite Z.ldiff_spec, !Z.testbit_of_N' by exact Hn.
  symmetry. apply N.ldiff_spec.
Qed.
Lemma eqbZ_N x y : (Z.of_N x =? Z.of_N y)%Z = (x =? y).
Proof. destruct (x =? y) eqn:E; lia. Qed.
Lemma eqbZ_lit x z : (0 <= z)%Z -> (Z.of_N x =? z)%Z = (x =? Z.to_N z).
Proof. intros H. destruct (x =? Z.to_N z) eqn:E; lia. Qed.
Lemma eqbZ_N0 x : (Z.of_N x =? 0)%Z = (x =? 0).
Proof. apply (eqbZ_N x 0). Qed.

(* ---------- QcowInspector.check_backing_file ---------- *)
Lemma qcow_check_backing_file_equiv (s : ist qx) r :
  rget R_header (i_regs s) = Some r ->
  gen_qcow_check_backing_file (r_data r) = qcow_check_backing_file s.
Proof.
  intros Hr. unfold gen_qcow_check_backing_file, qcow_check_backing_file, get_region. rewrite Hr. cbn [bind].
  rewrite <- N2Z.inj_add, zslice_nsub. unfold unpackZ. change C02sf_0 with sf_qcow_bf.
  destruct (unpack sf_qcow_bf _) as [u|e]; cbn [bind]; [|reflexivity].
  unfold ufield. rewrite eqbZ_N0. destruct (sint sf_qcow_bf 0 u =? 0); reflexivity.
Qed.

(* ---------- QcowInspector.check_data_file ---------- *)
Lemma qcow_check_data_file_equiv (s : ist qx) r :
  rget R_header (i_regs s) = Some r ->
  gen_qcow_check_data_file (r_data r) = qcow_check_data_file s.
Proof.
  intros Hr. unfold gen_qcow_check_data_file, qcow_check_data_file, get_region, qcow_features. rewrite Hr. cbn [bind].
  rewrite <- N2Z.inj_add, zslice_nsub.
  set (feats := nsub QCOW_I_FEATURES (QCOW_I_FEATURES + QCOW_I_FEATURES_LEN) (r_data r)).
  assert (E1 : (Z.of_N QCOW_I_FEATURES_LEN - 1 - Z.of_N QCOW_I_FEATURES_DATAFILE_BIT / 8)%Z
               = Z.of_N (QCOW_I_FEATURES_LEN - 1 - QCOW_I_FEATURES_DATAFILE_BIT / 8)) by reflexivity.
  assert (E2 : Z.shiftl 1 (Z.of_N QCOW_I_FEATURES_DATAFILE_BIT - 1 mod 8) = Z.of_N (N.shiftl 1 (QCOW_I_FEATURES_DATAFILE_BIT - 1 mod 8))) by reflexivity.
  rewrite E1, E2, bidxZ_N. destruct (bidx feats _) as [x|e]; cbn [resZ bind]; [|reflexivity].
  rewrite land_ZN, eqbZ_N0. destruct (N.land x _ =? 0); reflexivity.
Qed.

(* ---------- QcowInspector.check_unknown_features ---------- *)
Lemma qcow_feature_loop_equiv hdr version ver feats : forall k i, i + N.of_nat k = QCOW_I_FEATURES_LEN ->
  gen_qcow_check_unknown_features_loop1 k (Z.of_N i) (Z.of_N QCOW_I_FEATURES_LEN) hdr feats (Z.of_N QCOW_I_FEATURES_MAX_BIT / 8) ver version
  = qcow_feature_loop k i feats.
Proof.
  induction k as [|k IH]; intros i Hk; cbn [gen_qcow_check_unknown_features_loop1 qcow_feature_loop]; [reflexivity|].
  assert (Hbn : (Z.of_N QCOW_I_FEATURES_LEN - 1 - Z.of_N i)%Z = Z.of_N (QCOW_I_FEATURES_LEN - 1 - i)) by lia.
  rewrite Hbn. set (bn := QCOW_I_FEATURES_LEN - 1 - i).
  assert (Hnext : (Z.of_N i + 1)%Z = Z.of_N (i + 1)) by lia.
  rewrite Hnext. rewrite !(IH (i + 1)) by lia.
  assert (Hmb : (Z.of_N QCOW_I_FEATURES_MAX_BIT / 8)%Z = Z.of_N (QCOW_I_FEATURES_MAX_BIT / 8)) by reflexivity.
  rewrite Hmb. set (mb := QCOW_I_FEATURES_MAX_BIT / 8).
  rewrite !bidxZ_N.
  assert (M1 : (Z.shiftl 1 (Z.of_N QCOW_I_FEATURES_MAX_BIT mod 8) - 1)%Z = Z.of_N (N.shiftl 1 (QCOW_I_FEATURES_MAX_BIT mod 8) - 1)) by reflexivity.
  change 0%Z with (Z.of_N QCOW_MASK_ABOVE) at 2. change 255%Z with (Z.of_N QCOW_MASK_BELOW).
  rewrite M1. unfold qcow_allow_mask. fold mb.
  rewrite eqbZ_N. replace (Z.of_N bn >? Z.of_N mb)%Z with (mb <? bn) by lia.
  destruct (bn =? mb); [|destruct (mb <? bn)];
    (destruct (bidx feats i) as [x|e]; cbn [resZ bind]; [|reflexivity];
     rewrite ldiff_ZN, eqbZ_N0; destruct (N.ldiff x _ =? 0); cbn [negb]; [reflexivity|];
     destruct (bidx feats bn); reflexivity).
Qed.

Lemma qcow_check_unknown_features_equiv (s : ist qx) r :
  rget R_header (i_regs s) = Some r ->
  gen_qcow_check_unknown_features (r_data r) (option_map (fun h => Z.of_N (q_version h)) (i_ext s))
  = qcow_check_unknown_features s.
Proof.
  intros Hr. unfold gen_qcow_check_unknown_features, qcow_check_unknown_features.
  destruct (i_ext s) as [h|]; cbn [option_map opt_eqb]; [|reflexivity].
  change 2%Z with (Z.of_N QCOW_VER_A). change 3%Z with (Z.of_N QCOW_VER_B). rewrite !eqbZ_N.
  destruct (q_version h =? QCOW_VER_A); [reflexivity|].
  destruct (q_version h =? QCOW_VER_B); cbn [negb]; [|reflexivity].
  unfold get_region. rewrite Hr. cbn [bind]. unfold qcow_features.
  rewrite <- N2Z.inj_add, zslice_nsub.
  replace (Z.to_nat (Z.of_N QCOW_I_FEATURES_LEN)) with (N.to_nat QCOW_I_FEATURES_LEN) by lia.
  change 0%Z with (Z.of_N 0).
  rewrite (qcow_feature_loop_equiv _ _ _ _ (N.to_nat QCOW_I_FEATURES_LEN) 0) by lia.
  destruct (qcow_feature_loop _ 0 _) as [[]|e]; reflexivity.
Qed.

(* ---------- GPTInspector.check_mbr_partitions ---------- *)
Definition resVF (r : res (list N * bool)) : res (bool * list Z) :=
  match r with Ok (v, f) => Ok (f, map Z.of_N v) | Exn e => Exn e end.

Lemma gpt_pte_loop_equiv mbr : forall k i valid found,
  gen_gpt_check_mbr_partitions_loop1 k (Z.of_N i) 4 mbr found (map Z.of_N valid)
  = resVF (gpt_pte_loop k i mbr valid found).
Proof.
  induction k as [|k IH]; intros i valid found; cbn [gen_gpt_check_mbr_partitions_loop1 gpt_pte_loop resVF]; [reflexivity|].
  assert (Hs : (Z.of_N GPT_MBR_PTE_START + 16 * Z.of_N i)%Z = Z.of_N (GPT_MBR_PTE_START + GPT_PTE_STRIDE * i)) by (unfold GPT_PTE_STRIDE; lia).
  rewrite Hs. set (st := GPT_MBR_PTE_START + GPT_PTE_STRIDE * i).
  replace (Z.of_N st + 16)%Z with (Z.of_N (st + GPT_PTE_LEN)) by (unfold GPT_PTE_LEN; lia).
  rewrite zslice_nsub. unfold unpackZ. change C02sf_1 with sf_gpt_pte.
  destruct (unpack sf_gpt_pte _) as [u|e]; cbn [bind resVF]; [|reflexivity].
  unfold ufield. rewrite !eqbZ_lit by lia. cbn [Z.to_N].
  replace (Z.of_N i + 1)%Z with (Z.of_N (i + 1)) by lia.
  assert (Happ : map Z.of_N valid ++ [Z.of_N i] = map Z.of_N (valid ++ [i])) by (rewrite map_app; reflexivity).
  rewrite Happ. rewrite !IH.
  unfold GPT_BOOT_A, GPT_BOOT_B, GPT_OSTYPE_GPT, GPT_CHS_H, GPT_CHS_S, GPT_CHS_T, GPT_START_LBA.
  destruct ((sint sf_gpt_pte 0 u =? 0) || (sint sf_gpt_pte 0 u =? 128)); cbn [negb resVF]; [|reflexivity].
  destruct (sint sf_gpt_pte 4 u =? 0); cbn [negb];
    (destruct (sint sf_gpt_pte 4 u =? 238); [|reflexivity];
     destruct ((sint sf_gpt_pte 1 u =? 0) && (sint sf_gpt_pte 2 u =? 2) && (sint sf_gpt_pte 3 u =? 0)); cbn [negb resVF]; [|reflexivity];
     destruct (sint sf_gpt_pte 8 u =? 1); cbn [negb resVF]; reflexivity).
Qed.

Lemma zlist_single_zero v : zlist_eqb (map Z.of_N v) [0%Z] = is_single_zero v.
Proof.
  destruct v as [|x [|y t]]; cbn [map zlist_eqb is_single_zero]; try reflexivity.
  - change 0%Z with (Z.of_N 0). rewrite eqbZ_N. apply andb_true_r.
  - apply andb_false_r.
Qed.

Lemma gpt_check_mbr_partitions_equiv (s : ist unit) r :
  rget R_mbr (i_regs s) = Some r ->
  gen_gpt_check_mbr_partitions (r_data r) = gpt_check_mbr_partitions s.
Proof.
  intros Hr. unfold gen_gpt_check_mbr_partitions, gpt_check_mbr_partitions, get_region. rewrite Hr. cbn [bind].
  change (Z.to_nat 4) with (N.to_nat GPT_PTE_COUNT). change 0%Z with (Z.of_N 0) at 1.
  change (@nil Z) with (map Z.of_N (@nil N)). rewrite gpt_pte_loop_equiv.
  destruct (gpt_pte_loop _ 0 _ [] false) as [[v f]|e]; cbn [resVF bind]; [|reflexivity].
  rewrite zlist_single_zero. destruct (f && negb (is_single_zero v)); [reflexivity|].
  destruct v; reflexivity.
Qed.

(* ---------- LUKSInspector.check_version (header_items: struct format, slice and field names read from the source) ---------- *)
Lemma sfield16_eq1 f i u : snd (nth i (sf_fields f) (0, 0)) = 2 -> sint f i u < 65536 ->
  (sfield f i u =? 1)%Z = (sint f i u =? 1).
Proof.
  intros Hw Hb. unfold sfield. rewrite Hw. change (2 ^ (8 * Z.of_N 2 - 1))%Z with 32768%Z. change (2 ^ (8 * Z.of_N 2))%Z with 65536%Z.
  destruct (Z.of_N (sint f i u) <? 32768)%Z eqn:E; lia.
Qed.

Lemma luks_check_version_equiv (s : ist unit) r :
  rget R_header (i_regs s) = Some r -> all_bytes (r_data r) = true ->
  gen_luks_check_version (r_data r) = luks_check_version s.
Proof.
  intros Hr Hb. unfold gen_luks_check_version, luks_check_version, luks_header_items, get_region. rewrite Hr. cbn [bind].
  change 108%Z with (Z.of_N LUKS_HDR_SLICE). rewrite zslice_ntake. unfold unpackZ. change C02sf_2 with sf_luks_hdr.
  destruct (unpack sf_luks_hdr (ntake LUKS_HDR_SLICE (r_data r))) as [u|e] eqn:Hu; cbn [bind]; [|reflexivity].
  assert (Hbu : all_bytes u = true).
  { unfold unpack in Hu. destruct (flen _ =? _); [|discriminate]. injection Hu as <-. rewrite ntake_bslice. apply all_bytes_bslice. exact Hb. }
  rewrite sfield16_eq1; [|reflexivity|].
  - change LUKS_VERSION with 1. destruct (sint sf_luks_hdr 1 u =? 1); reflexivity.
  - change (sint sf_luks_hdr 1 u) with (be_val (bslice 6 2 u)).
    pose proof (be_val_bound (bslice 6 2 u) (all_bytes_bslice 6 2 u Hbu)) as H.
    assert (Hl : blen (bslice 6 2 u) <= 2) by (rewrite blen_bslice; lia).
    eapply N.lt_le_trans; [exact H|]. change 65536 with (256 ^ 2). apply N.pow_le_mono_r; lia.
Qed.

(* ---------- VMDKInspector._parse_sparse_header / check_footer ---------- *)
Definition res5 (r : res (bytes * N * N * N * N)) : res (bytes * Z * Z * Z * Z) :=
  match r with Ok (a, b, c, d, e) => Ok (a, Z.of_N b, Z.of_N c, Z.of_N d, Z.of_N e) | Exn x => Exn x end.

Lemma vmdk_parse_sparse_header_equiv (s : ist vx) n r off :
  rget n (i_regs s) = Some r ->
  gen_vmdk_parse_sparse_header (r_data r) (Z.of_N off) = res5 (vmdk_parse_sparse s n off).
Proof.
  intros Hr. unfold gen_vmdk_parse_sparse_header, vmdk_parse_sparse, get_region. rewrite Hr. cbn [bind].
  rewrite <- N2Z.inj_add, zslice_nsub. unfold unpackZ. change C02sf_3 with sf_vmdk_sparse.
  destruct (unpack sf_vmdk_sparse _) as [u|e]; reflexivity.
Qed.

Lemma brepeat_pad : brepeat [0] 496 = repeatN (hd 0 VMDK_PAD_BYTE) (N.to_nat VMDK_FT_PAD).
Proof. vm_compute. reflexivity. Qed.

Lemma vmdk_check_footer_equiv (s : ist vx) h f :
  rget R_header (i_regs s) = Some h -> rget R_footer (i_regs s) = Some f ->
  gen_vmdk_check_footer (r_data h) (r_data f) = vmdk_check_footer s.
Proof.
  intros Hh Hf. unfold gen_vmdk_check_footer, vmdk_check_footer.
  change 0%Z with (Z.of_N 0) at 1. rewrite (vmdk_parse_sparse_header_equiv s R_header h 0 Hh).
  change 512%Z with (Z.of_N VMDK_FT_HDR_OFF) at 1. rewrite (vmdk_parse_sparse_header_equiv s R_footer f VMDK_FT_HDR_OFF Hf).
  destruct (vmdk_parse_sparse s R_header 0) as [[[[[hs hv] hds] hdn] hg]|e]; cbn [res5 bind]; [|reflexivity].
  destruct (vmdk_parse_sparse s R_footer VMDK_FT_HDR_OFF) as [[[[[fs fv] fds] fdn] fg]|e]; cbn [res5 bind]; [|reflexivity].
  rewrite !eqbZ_N. unfold get_region. rewrite Hf. cbn [bind].
  (* the four header/footer comparisons: whatever their order in the source, only their conjunction matters *)
  destruct (beq hs fs), (hv =? fv), (hds =? fds), (hdn =? fdn), (fg =? VMDK_GD_AT_END); cbn [negb orb]; try reflexivity.
  rewrite brepeat_pad. set (pad := repeatN _ _).
  change 512%Z with (Z.of_N VMDK_FT_FIRST) at 1. rewrite zslice_ntake.
  replace (- (512))%Z with (- Z.of_N VMDK_FT_LAST)%Z by reflexivity. rewrite zslice_nlast by reflexivity.
  unfold unpackZ, ufield, bfield. change C02sf_4 with sf_vmdk_marker.
  destruct (unpack sf_vmdk_marker (ntake VMDK_FT_FIRST (r_data f))) as [m1|e]; cbn [bind]; [|reflexivity].
  rewrite ?eqbZ_N. rewrite !eqbZ_lit by lia. cbn [Z.to_N].
  change sf_vmdk_marker2 with sf_vmdk_marker.
  destruct (sint sf_vmdk_marker 1 m1 =? 0), (sint sf_vmdk_marker 2 m1 =? VMDK_MARKER_FOOTER), (beq (sraw sf_vmdk_marker 3 m1) pad); cbn [negb orb]; try reflexivity.
  destruct (unpack sf_vmdk_marker (nlast VMDK_FT_LAST (r_data f))) as [m2|e]; cbn [bind]; [|reflexivity].
  rewrite ?eqbZ_N. rewrite !eqbZ_lit by lia. cbn [Z.to_N].
  destruct (sint sf_vmdk_marker 0 m2 =? 0), (sint sf_vmdk_marker 1 m2 =? 0), (sint sf_vmdk_marker 2 m2 =? VMDK_MARKER_EOS), (beq (sraw sf_vmdk_marker 3 m2) pad); reflexivity.
Qed.

(* ---------- VMDKInspector.check_descriptor ---------- *)
Definition is_ddb (c : lclass) : bool := match c with L_ddb => true | _ => false end.
Definition is_field (c : lclass) : bool := match c with L_field => true | _ => false end.

Lemma check_descriptor_loop1_equiv dt ty : forall lines ddb hf ext,
  gen_vmdk_check_descriptor_loop1 lines dt VMDK_EXTENT_ACCESS ty ddb ext hf =
  if existsb (fun l => is_bad (classify_line l)) lines then Exn SafetyViolation
  else Ok (ddb ++ filter (fun l => is_ddb (classify_line l)) lines,
           ext ++ filter (fun l => is_extent (classify_line l)) lines,
           hf ++ filter (fun l => is_field (classify_line l)) lines).
Proof.
  induction lines as [|l lines IH]; intros ddb hf ext; cbn [gen_vmdk_check_descriptor_loop1 existsb filter].
  - rewrite !app_nil_r. reflexivity.
  - assert (Hc : classify_line l =
                 if prefixb [35%N] l || match l with [] => true | _ :: _ => false end then L_skip
                 else if prefixb [100; 100; 98]%N l then L_ddb
                 else if memN 61%N l && negb (memN 32%N (hd [] (split_char 61%N l))) then L_field
                 else if mem_str (hd [] (split_char 32%N l)) VMDK_EXTENT_ACCESS then L_extent else L_bad) by reflexivity.
    rewrite Hc. clear Hc. unfold first_field.
    assert (Hnil : negb (negb (is_nil l)) = match l with [] => true | _ :: _ => false end) by (destruct l; reflexivity).
    rewrite Hnil.
    destruct (prefixb [35%N] l || match l with [] => true | _ :: _ => false end); cbn [is_bad is_ddb is_field is_extent orb].
    { rewrite IH. reflexivity. }
    destruct (prefixb [100; 100; 98]%N l); cbn [is_bad is_ddb is_field is_extent orb].
    { rewrite IH, <- app_assoc. reflexivity. }
    destruct (memN 61%N l && negb (memN 32%N (hd [] (split_char 61%N l)))); cbn [is_bad is_ddb is_field is_extent orb].
    { rewrite IH, <- app_assoc. reflexivity. }
    destruct (mem_str (hd [] (split_char 32%N l)) VMDK_EXTENT_ACCESS); cbn [is_bad is_ddb is_field is_extent orb].
    { rewrite IH, <- app_assoc. reflexivity. }
    reflexivity.
Qed.

Lemma check_descriptor_loop2_equiv dt ty ea hf ext0 ddb : forall exts,
  gen_vmdk_check_descriptor_loop2 exts ddb dt ea ext0 hf ty =
  if existsb (memN 47%N) exts then Exn SafetyViolation else Ok tt.
Proof.
  induction exts as [|e exts IH]; cbn [gen_vmdk_check_descriptor_loop2 existsb]; [reflexivity|].
  destruct (memN 47%N e); cbn [orb]; [reflexivity|apply IH].
Qed.

Lemma vmdk_check_descriptor_equiv (s : ist vx) :
  gen_vmdk_check_descriptor (v_desc_text (i_ext s)) (v_vmdktype (i_ext s)) = vmdk_check_descriptor s.
Proof.
  unfold gen_vmdk_check_descriptor, vmdk_check_descriptor.
  destruct (v_desc_text (i_ext s)) as [[|c0 text]|]; try reflexivity.
  change [[114; 119]%N; [114; 100; 111; 110; 108; 121]%N; [110; 111; 97; 99; 99; 101; 115; 115]%N] with VMDK_EXTENT_ACCESS.
  change [[109; 111; 110; 111; 108; 105; 116; 104; 105; 99; 115; 112; 97; 114; 115; 101]%N; [115; 116; 114; 101; 97; 109; 111; 112; 116; 105; 109; 105; 122; 101; 100]%N] with VMDK_SUBFORMATS.
  destruct (negb (mem_str (v_vmdktype (i_ext s)) VMDK_SUBFORMATS)); [reflexivity|].
  change VMDK_CH_NL with 10%N. change VMDK_CH_SLASH with 47%N.
  rewrite check_descriptor_loop1_equiv. cbn [app].
  destruct (existsb (fun l => is_bad (classify_line l)) (map strip (split_char 10%N (c0 :: text)))); [reflexivity|].
  rewrite check_descriptor_loop2_equiv.
  destruct (existsb (memN 47%N) _); [reflexivity|].
  destruct (filter (fun l => is_extent (classify_line l)) _); reflexivity.
Qed.

(* ---------- SafetyCheck.__call__ and FileInspector.safety_check ---------- *)
Lemma check_call_equiv target : gen_check_call target = call_check target.
Proof. destruct target as [[]|e]; [reflexivity|]. destruct e; reflexivity. Qed.

Definition sc_of (r : safety_result) : res (option (list bytes)) :=
  match r with
  | Pass => Ok None
  | Fail names => Ok (Some (map cname_str names))
  | Refused => Exn ImageFormatError
  | Crash e => Exn e
  end.

Lemma safety_check_loop_equiv {X} (F : fmt X) (s : ist X) : forall cs acc,
  gen_safety_check_loop (map (fun c => (cname_str c, f_check F c s)) cs) acc
  = Ok (acc ++ map cname_str (filter (fun c => is_exn (f_check F c s)) cs)).
Proof.
  induction cs as [|c cs IH]; intros acc; cbn [map gen_safety_check_loop filter]; [rewrite app_nil_r; reflexivity|].
  rewrite check_call_equiv. destruct (f_check F c s) as [[]|e]; cbn [call_check is_exn].
  - apply IH.
  - assert (He : call_check (Exn e) = Exn SafetyViolation) by (destruct e; reflexivity).
    unfold call_check in He. rewrite He. cbn [map]. rewrite IH, <- app_assoc. reflexivity.
Qed.

(* the registered checks run in registration order, each through SafetyCheck.__call__; format_match did not raise *)
Lemma safety_check_equiv {X} (F : fmt X) (s : ist X) fm :
  f_match F s = Ok fm ->
  gen_safety_check (Insp_Engine.complete s) fm (map (fun c => (cname_str c, f_check F c s)) (i_checks s))
  = sc_of (safety_check F s).
Proof.
  intros Hm. unfold gen_safety_check, safety_check. rewrite Hm.
  destruct (Insp_Engine.complete s); cbn [negb]; [|reflexivity].
  destruct fm; cbn [negb]; [|reflexivity].
  rewrite safety_check_loop_equiv. cbn [app].
  destruct (filter (fun c => is_exn (f_check F c s)) (i_checks s)); reflexivity.
Qed.
