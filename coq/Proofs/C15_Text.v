(* Proofs/C15_Text.v — the C15 headline theorems END TO END on text: prefix text through C11's
   IPNetwork / is_valid_ipv4 models, MAC text through the netaddr.EUI recogniser, escape_ipv6
   through C11's is_valid_ipv6 model. *)
From Coq Require Import String.
Require Import OV.Base.Bytes OV.Base.Py OV.Base.PyInt OV.Base.Str OV.Base.C11_Lib.
Require Import OV.Gen.C11_Netutils OV.Model.C11 OV.Model.C11_Spec.
Require Import OV.Proofs.C11_Split OV.Proofs.C11_V4 OV.Proofs.C11_V6 OV.Proofs.C11 OV.Proofs.C11_Aton OV.Proofs.C11_Net.
Require Import OV.Base.C15_PyVal OV.Gen.C15_Netutils OV.Model.C15 OV.Model.C15_Spec OV.Model.C15_Text.
Require Import OV.Proofs.C15_Str OV.Proofs.C15_Eui OV.Proofs.C15 OV.Proofs.C15_Net OV.Proofs.C15_Mac.
Open Scope Z_scope.

(* the network address of an IPv6 network: the value with the host bits cleared *)
Definition network_of (value plen : N) : Z := Z.of_N value / 2 ^ (128 - Z.of_N plen) * 2 ^ (128 - Z.of_N plen).

Lemma text_flags_v6 p value plen : ipnetwork_v p = Net true value plen ->
  flag_of (valid_ipv4 false p) = false /\ flag_of (valid_ipv4 true p) = false.
Proof.
  intros H. apply v6_result_has_colon in H. rewrite !(colon_not_ipv4 _ p H). split; reflexivity.
Qed.

(* ------------------------------------------------------------------ value *)

(* for every MAC text m that netaddr.EUI reads as the 48-bit value v and every IPv6 network text p
   (value, prefix length as netaddr.IPNetwork computes them) whose network address has its low 64
   bits clear: the result is the IPv6 address network(p) + iid(v) = network(p) | iid(v) *)
Theorem eui64_text_value_gen p m v value plen :
  eui_of_text m = Some (EUI48 v) -> ipnetwork_v p = Net true value plen ->
  network_of value plen mod 2 ^ 64 = 0 ->
  get_ipv6_addr_by_EUI64_text p m = Ok (6, network_of value plen + modified_eui64_arith v) /\
  network_of value plen + modified_eui64_arith v = Z.lor (network_of value plen) (modified_eui64_arith v).
Proof.
  intros Hm Hp H0. pose proof (eui_of_text_48_range m v Hm) as Rv.
  destruct (v6_result_bounds p value plen Hp) as [Bv Bk].
  destruct (text_flags_v6 p value plen Hp) as [F1 F2].
  assert (NF : Z.of_N (net_first true value plen) = network_of value plen) by (apply net_first_Z; assumption).
  assert (R : 0 <= network_of value plen < 2 ^ 128).
  { rewrite <- NF. split; [lia|]. unfold network_of in NF.
    assert (P : 0 < 2 ^ (128 - Z.of_N plen)) by (apply Z.pow_pos_nonneg; lia).
    pose proof (Z.mul_div_le (Z.of_N value) _ P). rewrite NF. unfold network_of.
    change (2 ^ 128) with (Z.of_N (2 ^ 128)). lia. }
  unfold get_ipv6_addr_by_EUI64_text, get_ipv6_addr_by_EUI64_gen, mac_lres, net_lres.
  rewrite Hm, Hp, F1, F2, NF.
  destruct (eui64_value (network_of value plen) v Rv R H0) as (E1 & E2 & _).
  split; assumption.
Qed.

(* every prefix length up to 64 — with or without host bits in the text — qualifies *)
Theorem eui64_text_value p m v value plen :
  eui_of_text m = Some (EUI48 v) -> ipnetwork_v p = Net true value plen -> (plen <= 64)%N ->
  get_ipv6_addr_by_EUI64_text p m = Ok (6, network_of value plen + modified_eui64_arith v) /\
  network_of value plen + modified_eui64_arith v = Z.lor (network_of value plen) (modified_eui64_arith v).
Proof.
  intros Hm Hp Hk. apply eui64_text_value_gen; try assumption.
  destruct (v6_result_bounds p value plen Hp) as [Bv _].
  destruct (net_first_low_clear value plen Bv Hk) as [_ L].
  rewrite net_first_Z in L by lia. exact L.
Qed.

(* the two spellings the property's quantifier names, fully declarative on the prefix side:
   an RFC 4291 address text a of value [value] followed by "/n", n <= 64 *)
Corollary eui64_text_value_decimal a value n m v :
  ipv6_value a value -> (n <= 64)%N -> eui_of_text m = Some (EUI48 v) ->
  get_ipv6_addr_by_EUI64_text (a ++ 47%N :: dec_of_N n) m = Ok (6, network_of value n + modified_eui64_arith v).
Proof.
  intros Ha Hn Hm. apply (eui64_text_value _ m v value n); try assumption.
  apply ipnetwork_v_decimal; [exact Ha|lia].
Qed.

(* ------------------------------------------------------------------ round trip through text *)

(* get_mac_addr_by_ipv6 of the result prints the canonical text of the MAC, and that text is
   read back by netaddr.EUI as the same value *)
Theorem eui64_text_roundtrip p m v value plen :
  eui_of_text m = Some (EUI48 v) -> ipnetwork_v p = Net true value plen -> (plen <= 64)%N ->
  exists r, get_ipv6_addr_by_EUI64_text p m = Ok (6, r) /\
            get_mac_text r = Some (eui48_print (Z.to_N v)) /\
            eui_of_text (eui48_print (Z.to_N v)) = Some (EUI48 v).
Proof.
  intros Hm Hp Hk. pose proof (eui_of_text_48_range m v Hm) as Rv.
  destruct (eui64_text_value p m v value plen Hm Hp Hk) as [E _].
  exists (network_of value plen + modified_eui64_arith v). split; [exact E|]. split.
  - unfold get_mac_text, get_mac_addr_by_ipv6. cbn [Z.eqb Pos.eqb].
    assert (K : 2 ^ (128 - Z.of_N plen) = 2 ^ (64 - Z.of_N plen) * 2 ^ 64).
    { rewrite <- Z.pow_add_r by lia. f_equal. lia. }
    unfold network_of. set (q := Z.of_N value / 2 ^ (128 - Z.of_N plen)).
    assert (Hq : 0 <= q) by (subst q; apply Z.div_pos; [lia|apply Z.pow_pos_nonneg; lia]).
    replace (q * 2 ^ (128 - Z.of_N plen)) with (q * 2 ^ (64 - Z.of_N plen) * 2 ^ 64)
      by (rewrite <- Z.mul_assoc, <- K; reflexivity).
    rewrite mac_of_interface_id.
    + unfold eui_of_int. replace (0 <=? v) with true by lia. replace (v <=? 2 ^ 48 - 1) with true by lia. reflexivity.
    + exact Rv.
    + apply Z.mul_nonneg_nonneg; [exact Hq|apply Z.pow_nonneg; lia].
  - rewrite eui_print_parse.
    + rewrite Z2N.id by lia. reflexivity.
    + change (2 ^ 48)%N with (Z.to_N (2 ^ 48)). lia.
Qed.

(* a MAC given in the printed form comes back literally *)
Corollary eui64_text_roundtrip_literal p v value plen :
  (v < 2 ^ 48)%N -> ipnetwork_v p = Net true value plen -> (plen <= 64)%N ->
  exists r, get_ipv6_addr_by_EUI64_text p (eui48_print v) = Ok (6, r) /\ get_mac_text r = Some (eui48_print v).
Proof.
  intros Hv Hp Hk. pose proof (eui_print_parse v Hv) as Hm.
  destruct (eui64_text_roundtrip p _ _ value plen Hm Hp Hk) as (r & E1 & E2 & _).
  exists r. rewrite N2Z.id in E2. split; assumption.
Qed.

(* ------------------------------------------------------------------ exceptions on text *)

(* an IPv4 address text (is_valid_ipv4(prefix, False), i.e. C11's inet_aton text without ':') *)
Theorem eui64_text_ipv4_rejected p mac :
  valid_ipv4 false p = AOk true -> exists e, get_ipv6_addr_by_EUI64_gen p mac = Exn e /\ is_VE_TE e.
Proof.
  intros H. unfold get_ipv6_addr_by_EUI64_gen, get_ipv6_addr_by_EUI64. rewrite H. cbn [flag_of].
  destruct (run_guards true true (flag_of (valid_ipv4 true p)) gen_eui64_prechecks) as [g|] eqn:G.
  - exists g. split; [reflexivity|]. eapply guards_classes; exact G.
  - exfalso. destruct (flag_of (valid_ipv4 true p)); vm_compute in G; discriminate.
Qed.

(* a MAC text netaddr.EUI refuses, a prefix text netaddr.IPNetwork refuses *)
Theorem eui64_text_bad_mac p m :
  eui_of_text m = None -> exists e, get_ipv6_addr_by_EUI64_text p m = Exn e /\ is_VE_TE e.
Proof.
  intros H. unfold get_ipv6_addr_by_EUI64_text, get_ipv6_addr_by_EUI64_gen, mac_lres. rewrite H.
  apply bad_mac_rejected. reflexivity.
Qed.

Theorem eui64_text_bad_prefix p m e x :
  eui_of_text m = Some x -> ipnetwork_v p = NetRaise e ->
  exists e', get_ipv6_addr_by_EUI64_text p m = Exn e' /\ is_VE_TE e'.
Proof.
  intros Hm Hp. unfold get_ipv6_addr_by_EUI64_text, get_ipv6_addr_by_EUI64_gen, mac_lres, net_lres.
  rewrite Hm, Hp. apply bad_prefix_rejected.
  destruct (ipnetwork_v_raises p e Hp) as [-> | ->]; reflexivity.
Qed.

(* whatever the two texts: a result, or ValueError / TypeError — and a result exactly when the
   prefix is no IPv4 address text, both libraries accept, and the sum stays below 2^128 *)
Theorem eui64_text_total p m :
  (exists r, get_ipv6_addr_by_EUI64_text p m = Ok r) \/
  (exists e, get_ipv6_addr_by_EUI64_text p m = Exn e /\ is_VE_TE e).
Proof.
  destruct (get_ipv6_addr_by_EUI64_text p m) as [r|e] eqn:E; [left; eexists; reflexivity|right].
  exists e. split; [reflexivity|].
  unfold get_ipv6_addr_by_EUI64_text, get_ipv6_addr_by_EUI64_gen in E.
  eapply eui64_only_VE_TE; [| |exact E].
  - unfold mac_lres. intros x Hx. destruct (eui_of_text m); inversion Hx. reflexivity.
  - unfold net_lres. intros x Hx. destruct (ipnetwork_v p) as [v6 v k|e0] eqn:N; inversion Hx.
    destruct (ipnetwork_v_raises p e0 N) as [-> | ->]; reflexivity.
Qed.

(* a result is returned only when the prefix is no IPv4 address text and both libraries accept *)
Theorem eui64_text_ok_inv p m r :
  get_ipv6_addr_by_EUI64_text p m = Ok r ->
  valid_ipv4 false p <> AOk true /\
  (exists x, eui_of_text m = Some x) /\ (exists v6 value plen, ipnetwork_v p = Net v6 value plen).
Proof.
  intros E. split.
  - intros V. destruct (eui64_text_ipv4_rejected p (mac_lres m) V) as (e & H & _).
    unfold get_ipv6_addr_by_EUI64_text in E. congruence.
  - unfold get_ipv6_addr_by_EUI64_text, get_ipv6_addr_by_EUI64_gen, get_ipv6_addr_by_EUI64, mac_lres, net_lres in E.
    destruct (run_guards _ _ _ _); [discriminate|].
    destruct (eui_of_text m) as [x|]; [|discriminate].
    destruct (ipnetwork_v p) as [v6 v k|e]; [|discriminate].
    split; [eexists; reflexivity|eexists _, _, _; reflexivity].
Qed.

(* ------------------------------------------------------------------ escape_ipv6 / parse_host_port on text *)

Lemma flag_ipv6_iff h : flag_of (is_valid_ipv6 h) = true <-> ipv6_scoped_text h.
Proof.
  rewrite <- is_valid_ipv6_iff. destruct (is_valid_ipv6 h) as [[|]|e]; cbn [flag_of]; split; intros H; try reflexivity; try discriminate.
Qed.

(* every h that is RFC 4291 text, optionally followed by '%' and a scope id of 1..15 characters
   without '%' or '/': no parameter left *)
Theorem host_port_roundtrip_ipv6_text h port : ipv6_scoped_text h ->
  parse_host_port (escape_ipv6_text h ++ [58%N] ++ dec_of_Z port) VNone = Ok (Some h, Some port).
Proof.
  intros H. apply flag_ipv6_iff in H. unfold escape_ipv6_text. rewrite H. apply host_port_roundtrip_ipv6.
Qed.

Theorem host_default_ipv6_text h d : ipv6_scoped_text h ->
  parse_host_port (escape_ipv6_text h) (pv_of d) = Ok (Some h, d).
Proof.
  intros H. apply flag_ipv6_iff in H. unfold escape_ipv6_text. rewrite H. apply host_default_ipv6.
Qed.

(* exactly which texts round-trip *)
Theorem host_port_roundtrip_text_iff h port :
  parse_host_port (escape_ipv6_text h ++ [58%N] ++ dec_of_Z port) VNone = Ok (Some h, Some port)
  <-> ipv6_scoped_text h \/ (has_char 58%N h = false /\ prefixb [91%N] h = false).
Proof.
  unfold escape_ipv6_text. rewrite host_port_roundtrip_iff. unfold rt_host.
  destruct (flag_of (is_valid_ipv6 h)) eqn:F.
  - apply flag_ipv6_iff in F. split; [intros _; left; exact F|reflexivity].
  - split.
    + intros H. apply andb_true_iff in H. destruct H as [H1 H2]. right.
      split; [destruct (has_char 58%N h)|destruct (prefixb [91%N] h)]; try reflexivity; discriminate.
    + intros [H|[H1 H2]].
      * apply flag_ipv6_iff in H. congruence.
      * rewrite H1, H2. reflexivity.
Qed.

(* IPv4 literals: dotted quads contain no ':' and start with a digit *)
Lemma memN_In c s : has_char c s = true <-> In c s.
Proof.
  unfold has_char. induction s as [|x s IH]; cbn [memN In]; [split; [discriminate|tauto]|].
  rewrite orb_true_iff, IH, N.eqb_eq. tauto.
Qed.

Theorem host_port_roundtrip_ipv4_text h port : dotted_quad h ->
  parse_host_port (escape_ipv6_text h ++ [58%N] ++ dec_of_Z port) VNone = Ok (Some h, Some port).
Proof.
  intros Q. apply host_port_roundtrip_text_iff. right. split.
  - destruct (has_char 58%N h) eqn:E; [|reflexivity]. apply memN_In in E. exfalso. exact (quad_nocolon h Q E).
  - destruct Q as (a & b & c & d & _ & _ & _ & _ & ->). unfold dots.
    pose proof (dec_of_N_digits a) as D. pose proof (dec_of_N_nonnil a) as NN.
    destruct (dec_of_N a) as [|x t] eqn:E; [congruence|].
    cbn [join app prefixb]. cbn [all_ascii_digits forallb] in D. apply andb_true_iff in D. destruct D as [D _].
    unfold ascii_digit in D. replace (91 =? x)%N with false by lia. reflexivity.
Qed.

Example ex_scoped_text : ipv6_scoped_text (lit "fe80::1%eth0").
Proof. apply is_valid_ipv6_iff. vm_compute. reflexivity. Qed.
Example ex_text_doc :
  get_ipv6_addr_by_EUI64_text (lit "2001:db8::1/64") (lit "00-16-3E-33-44-55") = Ok (6, 0x20010db80000000002163efffe334455) /\
  get_mac_text 0x20010db80000000002163efffe334455 = Some (lit "00:16:3e:33:44:55").
Proof. split; vm_compute; reflexivity. Qed.
Example ex_text_hyps :
  eui_of_text (lit "00-16-3E-33-44-55") = Some (EUI48 0x00163e334455) /\
  ipnetwork_v (lit "2001:db8::1/64") = Net true 0x20010db8000000000000000000000001 64.
Proof. split; vm_compute; reflexivity. Qed.
Example ex_text_ipv4 : valid_ipv4 false (lit "10.1") = AOk true /\
  get_ipv6_addr_by_EUI64_text (lit "10.1") (lit "00:16:3e:33:44:55") = Exn ValueError.
Proof. split; vm_compute; reflexivity. Qed.
Example ex_text_bad : get_ipv6_addr_by_EUI64_text (lit "2001:db8::/129") (lit "00:16:3e:33:44:55") = Exn ValueError /\
  get_ipv6_addr_by_EUI64_text (lit "2001:db8::/64") (lit "00:16:3e:33:44") = Exn ValueError.
Proof. split; vm_compute; reflexivity. Qed.
