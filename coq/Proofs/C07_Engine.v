(* Proofs/C07_Engine.v — facts about the capture engine (Model/Insp_Engine.v) used by the C07 proofs:
   a plain CaptureRegion that holds the slice of the bytes consumed so far keeps holding it after any
   chunk; static inspectors (no post_process) are a function of the consumed bytes, whatever the chunking. *)
Require Import OV.Base.Bytes OV.Base.Py OV.Base.Insp_Struct OV.Gen.Insp_Consts OV.Model.Insp_Engine OV.Model.Insp_All.
Open Scope N_scope.

(* ---------- small facts ---------- *)
Lemma set_data_same r : set_data r (r_data r) = r.
Proof. destruct r; reflexivity. Qed.

Lemma set_data_eq r d : r_data r = d -> set_data r d = r.
Proof. intros <-. apply set_data_same. Qed.

Lemma bslice_nil o l : bslice o l [] = [].
Proof. unfold bslice. rewrite bskip_nil, btake_nil. reflexivity. Qed.

Lemma blen_concat_app (b c : bytes) : blen (b ++ c) = blen b + blen c.
Proof. apply blen_app. Qed.

(* a plain region: CaptureRegion(offset, length) without min_length *)
Definition plain (r : region) : Prop := r_end r = false /\ r_min r = None.
(* the region holds exactly the part of the consumed bytes [b] that lies in [offset, offset+length) *)
Definition holds (b : bytes) (r : region) : Prop := r_data r = bslice (r_off r) (r_len r) b.
Definition fill1 (b : bytes) (r : region) : region := set_data r (bslice (r_off r) (r_len r) b).

Lemma holds_fill1 b r : holds b (fill1 b r).
Proof. destruct r; reflexivity. Qed.

Lemma fill1_fill1 b b' r : fill1 b' (fill1 b r) = fill1 b' r.
Proof. destruct r; reflexivity. Qed.

Lemma fill1_holds b r : holds b r -> fill1 b r = r.
Proof. intros H. unfold fill1. apply set_data_eq. exact H. Qed.

(* a full slice does not change when the stream grows *)
Lemma bslice_full_ext o l b c : blen (bslice o l b) = l -> bslice o l (b ++ c) = bslice o l b.
Proof.
  intros H. rewrite blen_bslice in H. unfold bslice.
  destruct (N.eq_dec l 0) as [->|Hl]; [rewrite !btake_0; reflexivity|].
  assert (Ho : o <= blen b) by lia.
  rewrite bskip_app_le by exact Ho. apply btake_app_le. rewrite blen_bskip. lia.
Qed.

(* CaptureRegion.capture on a region that holds the slice of the consumed bytes *)
Lemma cap_fixed_slice r b c :
  holds b r -> cap_fixed r c (blen b + flen c) = fill1 (b ++ c) r.
Proof.
  unfold holds, cap_fixed, fill1. intros H.
  rewrite !flen_blen. replace (blen b + blen c - blen c) with (blen b) by lia.
  assert (Hd : blen (r_data r) = N.min (r_len r) (blen b - r_off r)) by (rewrite H; apply blen_bslice).
  set (o := r_off r) in *. set (L := r_len r) in *.
  rewrite ntake_btake, nskip_bskip.
  destruct (N.le_gt_cases (blen b) o) as [Hbo|Hbo].
  - (* nothing of the region seen yet *)
    assert (Hnil : r_data r = []).
    { rewrite H. unfold bslice. rewrite bskip_all by exact Hbo. apply btake_nil. }
    rewrite Hnil. cbn [blen length N.of_nat app]. rewrite N.add_0_r.
    replace (blen b <=? o) with true by lia. cbn [andb].
    destruct (o <=? blen b + blen c) eqn:Hop.
    + f_equal. unfold bslice. rewrite bskip_app_ge by exact Hbo. reflexivity.
    + symmetry. apply set_data_eq. rewrite Hnil. unfold bslice.
      rewrite bskip_all by (rewrite blen_app; lia). symmetry. apply btake_nil.
  - destruct (N.le_gt_cases L (blen b - o)) as [HL|HL].
    + (* already full *)
      assert (Hfull : blen (bslice o L b) = L) by (rewrite blen_bslice; lia).
      rewrite (bslice_full_ext o L b c Hfull). rewrite <- H.
      destruct ((blen b <=? o + blen (r_data r)) && (o + blen (r_data r) <=? blen b + blen c)) eqn:Hc.
      * f_equal. rewrite btake_app_le by lia. apply btake_all. lia.
      * symmetry. apply set_data_same.
    + (* partially filled: the next wanted byte is the first byte of the chunk *)
      assert (Hdd : r_data r = bskip o b).
      { rewrite H. unfold bslice. apply btake_all. rewrite blen_bskip. lia. }
      assert (Hw : o + blen (r_data r) = blen b) by (rewrite Hdd, blen_bskip; lia).
      rewrite Hw. replace (blen b <=? blen b) with true by lia.
      replace (blen b <=? blen b + blen c) with true by lia. cbn [andb].
      replace (blen b - blen b) with 0 by lia. rewrite bskip_0. f_equal.
      unfold bslice. rewrite bskip_app_le by lia. rewrite Hdd. reflexivity.
Qed.

(* the per-region step of FileInspector._capture (no `only` filter) *)
Definition cap1 (chunk : bytes) (pos : N) (r : region) : region :=
  if r_end r || negb (rcomplete r) then rcapture r chunk pos else r.

Lemma cap1_plain r b c : plain r -> holds b r -> cap1 c (blen b + flen c) r = fill1 (b ++ c) r.
Proof.
  intros [He Hm] H. unfold cap1, rcapture, rcomplete, base_complete. rewrite He, Hm. cbn [orb].
  destruct (r_len r =? flen (r_data r)) eqn:Hc; cbn [negb].
  - unfold fill1. symmetry. apply set_data_eq. unfold holds in H. rewrite H.
    symmetry. apply bslice_full_ext. rewrite <- H. rewrite flen_blen in Hc. lia.
  - apply cap_fixed_slice. exact H.
Qed.

Lemma capture_regs_all chunk pos l :
  capture_regs [] chunk pos l = map (fun p => (fst p, cap1 chunk pos (snd p))) l.
Proof. unfold capture_regs. apply map_ext. intros [n r]. cbn [fst snd]. unfold cap1. destruct (r_end r || negb (rcomplete r)); reflexivity. Qed.

Definition fill (b : bytes) (l : regions) : regions := map (fun p => (fst p, fill1 b (snd p))) l.

Definition all_plain (l : regions) : Prop := Forall (fun p => plain (snd p)) l.

Lemma plain_fill1 b r : plain r -> plain (fill1 b r).
Proof. destruct r; cbn. tauto. Qed.

Lemma capture_regs_fill b c l :
  all_plain l -> capture_regs [] c (blen b + flen c) (fill b l) = fill (b ++ c) l.
Proof.
  intros Hp. rewrite capture_regs_all. unfold fill. rewrite map_map. apply map_ext_in.
  intros [n r] Hin. cbn [fst snd]. f_equal.
  unfold all_plain in Hp. rewrite Forall_forall in Hp. specialize (Hp _ Hin). cbn [snd] in Hp.
  rewrite cap1_plain with (b := b); [apply fill1_fill1|apply plain_fill1; exact Hp|apply holds_fill1].
Qed.

Lemma ids_fill b l : ids (fill b l) = ids l.
Proof. unfold ids, fill. rewrite map_map. apply map_ext. intros [n r]. destruct r; reflexivity. Qed.

Lemma mem_nat_in n l : In n l -> mem_nat n l = true.
Proof.
  induction l as [|k l IH]; intros H; [destruct H|].
  cbn [mem_nat]. destruct H as [->|H]; [rewrite Nat.eqb_refl; reflexivity|rewrite IH by exact H; apply orb_true_r].
Qed.

Lemma new_names_same l l' : ids l' = ids l -> new_names (ids l) l' = [].
Proof.
  intros H. unfold new_names. rewrite <- H.
  assert (G : forall l0 known, incl (ids l0) known ->
           filter (fun p : rname * region => negb (mem_nat (r_id (snd p)) known)) l0 = []).
  { induction l0 as [|[n r] l0 IH]; intros known Hk; [reflexivity|].
    cbn [filter snd]. rewrite mem_nat_in by (apply Hk; left; reflexivity). cbn [negb].
    apply IH. intros x Hx. apply Hk. right. exact Hx. }
  rewrite G; [reflexivity|apply incl_refl].
Qed.

Lemma run_callbacks_none {X} (F : fmt X) names s :
  (forall n s0, f_rcomplete F n s0 = (s0, None)) -> run_callbacks F names s = (s, None).
Proof. intros H. induction names as [|n t IH]; cbn [run_callbacks]; [reflexivity|]. rewrite H. exact IH. Qed.

(* ---------- static inspectors: post_process is the base-class no-op ---------- *)
Section Static.
Variable X : Type.
Variable F : fmt X.
Hypothesis Hpost : forall s, f_post F s = (s, None).
Let R0 := i_regs (init_ist F).
Hypothesis Hplain : all_plain R0.

(* the inspector object after consuming exactly the bytes [b], with private attributes [x] *)
Definition sstate (x : X) (b : bytes) : ist X :=
  mkIst (blen b) (fill b R0) (i_next (init_ist F)) false (i_checks (init_ist F)) x.

Lemma eat_static x b c :
  eat_chunk F (sstate x b) c =
  run_callbacks F (newly_complete (complete_ids (fill b R0)) (fill (b ++ c) R0)) (sstate x (b ++ c)).
Proof.
  unfold eat_chunk, do_capture, sstate. cbn [i_fin set_pos i_pos i_regs i_next i_checks i_ext set_regs].
  rewrite capture_regs_fill by exact Hplain. rewrite Hpost.
  unfold eat_fuel, set_regs, set_pos. cbn [settle i_regs i_pos i_next i_fin i_checks i_ext].
  rewrite new_names_same by (rewrite !ids_fill; reflexivity).
  rewrite flen_blen, <- blen_app. reflexivity.
Qed.

Hypothesis Hrc : forall n s0, f_rcomplete F n s0 = (s0, None).

Lemma eat_static_nocb x b c : eat_chunk F (sstate x b) c = (sstate x (b ++ c), None).
Proof. rewrite eat_static. apply run_callbacks_none. exact Hrc. Qed.

Lemma eat_all_static x b cs : eat_all F (sstate x b) cs = (sstate x (b ++ concat cs), None).
Proof.
  revert b. induction cs as [|c cs IH]; intros b; cbn [eat_all concat].
  - rewrite app_nil_r. reflexivity.
  - rewrite eat_static_nocb. rewrite IH. rewrite app_assoc. reflexivity.
Qed.
End Static.

Lemma fill_nil_init id l : fill [] (init_regs id l) = init_regs id l.
Proof.
  revert id. induction l as [|[n sp] l IH]; intros id; [reflexivity|].
  cbn [init_regs fill map fst snd]. fold (fill [] (init_regs (S id) l)). rewrite IH. f_equal. f_equal.
  unfold fill1, region_of_spec, set_data. cbn [r_id r_end r_off r_len r_min r_data r_fin]. rewrite bslice_nil. reflexivity.
Qed.

Lemma sstate_init {X} (F : fmt X) : sstate X F (f_ext0 F) [] = init_ist F.
Proof. unfold sstate, init_ist. cbn [i_regs i_next i_checks]. rewrite fill_nil_init. reflexivity. Qed.

(* ---------- the interface of Model/Insp_All.v over the engine ---------- *)
Lemma eat_list_unit f s cs :
  eat_list (I_unit f s) cs = (I_unit f (fst (eat_all (ufmt f) s cs)), snd (eat_all (ufmt f) s cs)).
Proof.
  revert s. induction cs as [|c cs IH]; intros s; cbn [eat_list eat_all]; [reflexivity|].
  cbn [eat]. destruct (eat_chunk (ufmt f) s c) as [s' [e|]]; [reflexivity|]. apply IH.
Qed.

Lemma eat_list_qcow s cs :
  eat_list (I_qcow s) cs = (I_qcow (fst (eat_all Insp_Qcow2.qcow_fmt s cs)), snd (eat_all Insp_Qcow2.qcow_fmt s cs)).
Proof.
  revert s. induction cs as [|c cs IH]; intros s; cbn [eat_list eat_all]; [reflexivity|].
  cbn [eat]. destruct (eat_chunk Insp_Qcow2.qcow_fmt s c) as [s' [e|]]; [reflexivity|]. apply IH.
Qed.

Lemma eat_list_vmdk s cs :
  eat_list (I_vmdk s) cs = (I_vmdk (fst (eat_all Insp_Vmdk.vmdk_fmt s cs)), snd (eat_all Insp_Vmdk.vmdk_fmt s cs)).
Proof.
  revert s. induction cs as [|c cs IH]; intros s; cbn [eat_list eat_all]; [reflexivity|].
  cbn [eat]. destruct (eat_chunk Insp_Vmdk.vmdk_fmt s c) as [s' [e|]]; [reflexivity|]. apply IH.
Qed.

(* finish() does not touch plain regions' data *)
Lemma rget_finish_regs n l :
  rget n (map (fun p : rname * region => (fst p, if r_end (snd p) then set_fin (snd p) true else snd p)) l)
  = option_map (fun r => if r_end r then set_fin r true else r) (rget n l).
Proof.
  induction l as [|[k r] l IH]; [reflexivity|]. cbn [map rget fst snd].
  destruct (rname_beq k n); [reflexivity|exact IH].
Qed.

(* ---------- finish() on a static inspector ---------- *)
Section StaticFinish.
Variable X : Type.
Variable F : fmt X.
Let R0 := i_regs (init_ist F).
Hypothesis Hplain : all_plain R0.

Definition fstate (x : X) (b : bytes) : ist X :=
  mkIst (blen b) (fill b R0) (i_next (init_ist F)) true (i_checks (init_ist F)) x.

Lemma finish_sstate x b : Insp_Engine.finish (sstate X F x b) = fstate x b.
Proof.
  unfold Insp_Engine.finish, sstate, fstate. cbn [i_pos i_regs i_next i_checks i_ext]. f_equal.
  fold R0. unfold fill. rewrite map_map. apply map_ext_in. intros [n r] Hin. cbn [fst snd].
  unfold all_plain in Hplain. rewrite Forall_forall in Hplain. specialize (Hplain _ Hin). cbn [snd] in Hplain.
  destruct Hplain as [He _]. destruct r; cbn in *. rewrite He. reflexivity.
Qed.
End StaticFinish.

(* ---------- slices of slices, struct.unpack on exact slices ---------- *)
Lemma bslice_bslice o L o' L' b : o' + L' <= L -> bslice o' L' (bslice o L b) = bslice (o + o') L' b.
Proof.
  intros H. unfold bslice. rewrite bskip_btake, btake_btake, bskip_bskip.
  f_equal. lia.
Qed.

Lemma nsub_bslice lo hi d : nsub lo hi d = bslice lo (hi - lo) d.
Proof. rewrite nsub_bsub. reflexivity. Qed.

Lemma ntake_bslice n d : ntake n d = bslice 0 n d.
Proof. rewrite ntake_btake. reflexivity. Qed.

Lemma unpack_ok f d : blen d = sf_size f -> unpack f d = Ok d.
Proof. intros H. unfold unpack. rewrite flen_blen, H, N.eqb_refl. reflexivity. Qed.

Lemma unpack_bad f d : blen d <> sf_size f -> unpack f d = Exn StructError.
Proof. intros H. unfold unpack. rewrite flen_blen. destruct (blen d =? sf_size f) eqn:E; [apply N.eqb_eq in E; contradiction|reflexivity]. Qed.

Lemma blen_le_enc k v : blen (le_enc k v) = N.of_nat k.
Proof. unfold blen. rewrite length_le_enc. reflexivity. Qed.

Lemma blen_be_enc k v : blen (be_enc k v) = N.of_nat k.
Proof. unfold be_enc, blen. rewrite rev_length, length_le_enc. reflexivity. Qed.

Lemma bslice_0_all n d : blen d <= n -> bslice 0 n d = d.
Proof. intros H. unfold bslice. rewrite bskip_0. apply btake_all. exact H. Qed.

Lemma prefixb_bslice p b : prefixb p b = beq (bslice 0 (blen p) b) p.
Proof. rewrite prefixb_btake. reflexivity. Qed.

(* a prefix test on the first [n] bytes is a prefix test on the stream when the pattern fits *)
Lemma prefixb_btake_le p n b : blen p <= n -> prefixb p (btake n b) = prefixb p b.
Proof.
  intros H. rewrite !prefixb_btake. rewrite btake_btake. f_equal. f_equal. lia.
Qed.

Lemma nth_firstn_lt {A} (i n : nat) (l : list A) d : (i < n)%nat -> nth i (firstn n l) d = nth i l d.
Proof.
  revert i l. induction n as [|n IH]; intros i l H; [lia|].
  destruct l as [|x l]; [destruct i; reflexivity|]. destruct i as [|i]; [reflexivity|].
  cbn [firstn nth]. apply IH. lia.
Qed.
Lemma nth_skipn_add {A} (i o : nat) (l : list A) d : nth i (skipn o l) d = nth (o + i) l d.
Proof.
  revert l. induction o as [|o IH]; intros l; [reflexivity|].
  destruct l as [|x l]; [destruct i; reflexivity|]. cbn [skipn plus nth]. apply IH.
Qed.
Lemma bnth_bslice i o L b : i < L -> bnth i (bslice o L b) = bnth (o + i) b.
Proof.
  intros H. unfold bnth, bslice, btake, bskip. rewrite nth_firstn_lt by lia. rewrite nth_skipn_add.
  f_equal. lia.
Qed.

(* ---------- unfolding eat_chunk / settle ---------- *)
Lemma eat_chunk_unfold {X} (F : fmt X) (s : ist X) c :
  i_fin s = false ->
  eat_chunk F s c =
  let pos := i_pos s + flen c in
  let s1 := mkIst pos (capture_regs [] c pos (i_regs s)) (i_next s) false (i_checks s) (i_ext s) in
  match f_post F s1 with
  | (s2, Some e) => (s2, Some e)
  | (s2, None) =>
    match settle eat_fuel F c (ids (i_regs s)) s2 with
    | (s3, Some e) => (s3, Some e)
    | (s3, None) => run_callbacks F (newly_complete (complete_ids (i_regs s)) (i_regs s3)) s3
    end
  end.
Proof.
  intros Hf. unfold eat_chunk, do_capture. destruct s as [p r n fi ch x]. cbn in Hf. subst fi.
  cbn [i_fin set_pos i_pos i_regs i_next i_checks i_ext set_regs]. reflexivity.
Qed.

Lemma settle_done {X} (F : fmt X) fuel c known (s : ist X) :
  new_names known (i_regs s) = [] -> settle fuel F c known s = (s, None).
Proof. intros H. destruct fuel; cbn [settle]; rewrite H; reflexivity. Qed.

Lemma settle_step {X} (F : fmt X) fuel c known (s : ist X) n ns :
  new_names known (i_regs s) = n :: ns -> i_fin s = false ->
  settle (S fuel) F c known s =
  let s1 := set_regs s (capture_regs (n :: ns) c (i_pos s) (i_regs s)) in
  match f_post F s1 with
  | (s2, Some e) => (s2, Some e)
  | (s2, None) => settle fuel F c (ids (i_regs s1)) s2
  end.
Proof. intros H Hf. cbn [settle]. rewrite H. unfold do_capture. rewrite Hf. reflexivity. Qed.
