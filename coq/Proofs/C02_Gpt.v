(* Proofs/C02_Gpt.v — GPTInspector.check_mbr_partitions and format_match on the bytes *)
Require Import OV.Base.Bytes OV.Base.Py OV.Base.Insp_Struct OV.Gen.Insp_Consts OV.Model.Insp_Engine.
Require Import OV.Model.Insp_Gpt OV.Model.Insp_All.
Require Import OV.Model.C02 OV.Proofs.C02_Engine OV.Proofs.C02_Bytes OV.Proofs.C02_Static.
Open Scope N_scope.

Lemma gpt_state b fin :
  static_state gpt_fmt b fin tt
  = mkIst (blen b) [(R_mbr, mkRegion 0 false 0 512 None (bslice 0 512 b) false)] 1 fin [K_mbr] tt.
Proof. reflexivity. Qed.

Definition gst (b : bytes) (fin : bool) : ist unit :=
  mkIst (blen b) [(R_mbr, mkRegion 0 false 0 512 None (bslice 0 512 b) false)] 1 fin [K_mbr] tt.

(* ---------- format_match ---------- *)
Lemma gpt_match_state b fin : 512 <= blen b ->
  gpt_match (gst b fin) = Ok ((le_at 510 2 b =? 43605) && negb ((bnth 16 b =? 2) && (bnth 21 b =? 248))).
Proof.
  intros Hl. unfold gpt_match, gst. cbn [get_region i_regs rget rname_beq bind].
  rewrite rcomplete_header. replace (512 <=? blen b) with true by lia. cbn [negb].
  unfold gpt_check_for_fat. cbn [get_region i_regs rget rname_beq bind r_data].
  unfold GPT_FAT_NUM_IDX, GPT_FAT_MEDIA_IDX, GPT_SIG_LO, GPT_SIG_HI.
  rewrite !bidx_ok by (rewrite blen_bslice; lia). cbn [bind].
  rewrite !bnth_bslice by lia. change (0 + 16) with 16. change (0 + 21) with 21.
  slices. change (512 - 510) with 2. change (0 + 510) with 510.
  rewrite unpack_slice by (try reflexivity; lia). cbn [bind].
  change (sint sf_gpt_sig 0 (bslice 510 2 b)) with (le_val (bslice 0 2 (bslice 510 2 b))). slices.
  change (510 + 0) with 510. reflexivity.
Qed.

(* ---------- one partition table entry ---------- *)
Lemma blen_pte b i : 512 <= blen b -> i < 4 -> blen (pte b i) = 16.
Proof. intros. unfold pte. rewrite blen_bslice. lia. Qed.

Lemma byte_field e o : o < blen e -> le_val (bslice o 1 e) = bnth o e.
Proof. intros H. rewrite bslice_one by exact H. apply le_val_one. Qed.

Fixpoint seqN (i : N) (k : nat) : list N :=
  match k with O => [] | S k' => i :: seqN (i + 1) k' end.

Lemma gpt_loop_spec b k : 512 <= blen b -> forall i valid found, i + N.of_nat k <= 4 ->
  gpt_pte_loop k i (bslice 0 512 b) valid found =
  if forallb (fun j => entry_okb (pte b j)) (seqN i k)
  then Ok (valid ++ filter (fun j => nonzero (pte b j)) (seqN i k), found || existsb (fun j => is_ee (pte b j)) (seqN i k))
  else Exn SafetyViolation.
Proof.
  intros Hl. induction k as [|k IH]; intros i valid found Hk; cbn [gpt_pte_loop seqN forallb filter existsb].
  - rewrite app_nil_r, orb_false_r. reflexivity.
  - assert (Hi : i < 4) by lia.
    unfold GPT_MBR_PTE_START, GPT_PTE_STRIDE, GPT_PTE_LEN.
    slices. replace (446 + 16 * i + 16 - (446 + 16 * i)) with 16 by lia.
    replace (0 + (446 + 16 * i)) with (446 + 16 * i) by lia.
    fold (pte b i). set (e := pte b i).
    assert (He : blen e = 16) by (apply blen_pte; assumption).
    rewrite unpack_ok by (rewrite He; reflexivity). cbn [bind].
    change (sint sf_gpt_pte 0 e) with (le_val (bslice 0 1 e)).
    change (sint sf_gpt_pte 1 e) with (le_val (bslice 1 1 e)).
    change (sint sf_gpt_pte 2 e) with (le_val (bslice 2 1 e)).
    change (sint sf_gpt_pte 3 e) with (le_val (bslice 3 1 e)).
    change (sint sf_gpt_pte 4 e) with (le_val (bslice 4 1 e)).
    change (sint sf_gpt_pte 8 e) with (le_val (bslice 8 4 e)).
    rewrite !byte_field by lia.
    unfold GPT_BOOT_A, GPT_BOOT_B, GPT_OSTYPE_GPT, GPT_CHS_H, GPT_CHS_S, GPT_CHS_T, GPT_START_LBA.
    unfold entry_okb, boot_okb, is_ee, nonzero, start_okb, pte_boot, pte_type, pte_lba, le_at.
    destruct ((bnth 0 e =? 0) || (bnth 0 e =? 128)); cbn [negb andb]; [|reflexivity].
    rewrite !IH by lia.
    destruct (bnth 4 e =? 238) eqn:Hee; cbn [negb orb].
    + assert (Hnz : (bnth 4 e =? 0) = false) by lia. rewrite Hnz. cbn [negb].
      destruct ((bnth 1 e =? 0) && (bnth 2 e =? 2) && (bnth 3 e =? 0)) eqn:Hchs; cbn [negb andb]; [|reflexivity].
      destruct (le_val (bslice 8 4 e) =? 1); cbn [negb]; [|reflexivity].
      destruct (forallb _ (seqN (i + 1) k)); [|reflexivity].
      rewrite <- app_assoc, orb_true_r. reflexivity.
    + destruct (forallb _ (seqN (i + 1) k)); [|reflexivity].
      destruct (bnth 4 e =? 0); cbn [negb]; [reflexivity|]. rewrite <- app_assoc. reflexivity.
Qed.

(* ---------- the whole check ---------- *)
Definition T (b : bytes) (i : N) : N := pte_type (pte b i).

Lemma gpt_check_state b fin : 512 <= blen b ->
  gpt_check_mbr_partitions (gst b fin) = Ok tt <->
  forallb (fun j => entry_okb (pte b j)) idx4 = true /\
  (existsb (fun j => is_ee (pte b j)) idx4 = true ->
     T b 0 <> 0 /\ T b 1 = 0 /\ T b 2 = 0 /\ T b 3 = 0) /\
  existsb (fun j => nonzero (pte b j)) idx4 = true.
Proof.
  intros Hl. unfold gpt_check_mbr_partitions, gst. cbn [get_region i_regs rget rname_beq bind r_data].
  unfold GPT_PTE_COUNT. change (N.to_nat 4) with 4%nat.
  rewrite gpt_loop_spec by (try exact Hl; cbn; lia).
  change (seqN 0 4) with idx4.
  destruct (forallb (fun j => entry_okb (pte b j)) idx4); cbn [bind].
  2:{ split; [discriminate|]. intros [H _]. discriminate. }
  cbn [app orb].
  unfold idx4. cbn [filter existsb]. unfold nonzero, is_ee, T.
  destruct (pte_type (pte b 0) =? 0) eqn:H0; destruct (pte_type (pte b 1) =? 0) eqn:H1;
  destruct (pte_type (pte b 2) =? 0) eqn:H2; destruct (pte_type (pte b 3) =? 0) eqn:H3;
  cbn [negb orb is_single_zero andb N.eqb];
  destruct ((pte_type (pte b 0) =? 238) || ((pte_type (pte b 1) =? 238) || ((pte_type (pte b 2) =? 238) || ((pte_type (pte b 3) =? 238) || false)))) eqn:Hf;
  cbn [andb negb]; unfold violation;
  (split; [intros H; try discriminate H; (split; [reflexivity|]); (split; [|reflexivity]); intros Hx; try discriminate Hx; repeat split; lia
          |intros [_ [Hs Hv]]; try discriminate Hv; try reflexivity; specialize (Hs eq_refl); lia]).
Qed.

Lemma idx4_spec i : In i idx4 <-> i < 4.
Proof. unfold idx4. cbn [In]. lia. Qed.

Lemma table_conditions_iff b :
  (forallb (fun j => entry_okb (pte b j)) idx4 = true /\
   (existsb (fun j => is_ee (pte b j)) idx4 = true -> T b 0 <> 0 /\ T b 1 = 0 /\ T b 2 = 0 /\ T b 3 = 0) /\
   existsb (fun j => nonzero (pte b j)) idx4 = true)
  <-> mbr_table_ok b.
Proof.
  unfold mbr_table_ok. rewrite forallb_forall, !existsb_exists. split.
  - intros [HA [HB HC]]. split; [|split].
    + intros i Hi. apply idx4_spec in Hi. apply HA in Hi. unfold entry_okb, boot_okb in Hi. lia.
    + destruct HC as [x [Hx Hn]]. exists x. apply idx4_spec in Hx. split; [exact Hx|]. unfold nonzero in Hn. lia.
    + intros i Hi Ht.
      assert (Hee : exists x, In x idx4 /\ is_ee (pte b x) = true).
      { exists i. split; [apply idx4_spec; exact Hi|]. unfold is_ee. lia. }
      destruct (HB Hee) as [H0 [H1 [H2 H3]]]. unfold T in *.
      assert (i = 0).
      { assert (Hc : i = 0 \/ i = 1 \/ i = 2 \/ i = 3) by lia. destruct Hc as [Hc|[Hc|[Hc|Hc]]]; subst i; try reflexivity; lia. }
      subst i. split; [reflexivity|].
      assert (Hin : In 0 idx4) by (apply idx4_spec; lia). apply HA in Hin.
      unfold entry_okb, is_ee, start_okb in Hin.
      assert (Hs : (bnth 1 (pte b 0) =? 0) && (bnth 2 (pte b 0) =? 2) && (bnth 3 (pte b 0) =? 0) && (pte_lba (pte b 0) =? 1) = true) by lia.
      apply andb_true_iff in Hs. destruct Hs as [Hs Hlba]. apply andb_true_iff in Hs. destruct Hs as [Hs H3'].
      apply andb_true_iff in Hs. destruct Hs as [H1' H2'].
      split; [|split].
      * unfold pte_chs. apply N.eqb_eq in H1', H2', H3'. rewrite H1', H2', H3'. reflexivity.
      * lia.
      * intros j Hj Hj0. assert (Hc : j = 1 \/ j = 2 \/ j = 3) by lia. destruct Hc as [Hc|[Hc|Hc]]; subst j; assumption.
  - intros [H1 [H2 H3]]. split; [|split].
    + intros x Hx. apply idx4_spec in Hx. unfold entry_okb, boot_okb, is_ee, start_okb.
      pose proof (H1 x Hx) as Hb.
      destruct (pte_type (pte b x) =? 238) eqn:Hee.
      * apply N.eqb_eq in Hee. destruct (H3 x Hx Hee) as [_ [Hchs [Hlba _]]].
        unfold pte_chs in Hchs. injection Hchs as Ha Hb' Hc. rewrite Ha, Hb', Hc, Hlba. rewrite !N.eqb_refl. cbn [negb orb andb]. lia.
      * cbn [negb orb]. lia.
    + intros [x [Hx Hee]]. apply idx4_spec in Hx. unfold is_ee in Hee. apply N.eqb_eq in Hee.
      destruct (H3 x Hx Hee) as [-> [_ [_ Hj]]]. unfold T. repeat split; try (apply Hj; lia). lia.
    + destruct H2 as [i [Hi Hn]]. exists i. split; [apply idx4_spec; exact Hi|]. unfold nonzero. lia.
Qed.

Theorem gpt_pass_iff cs :
  safety (fst (Insp_All.run F_gpt cs)) = Pass <-> gpt_safe (concat cs).
Proof.
  rewrite run_static_unit by reflexivity. cbn [fst safety ufmt]. set (b := concat cs).
  rewrite safety_pass_iff. rewrite complete_static by reflexivity.
  cbn [f_id gpt_fmt init_regions forallb snd rs_off rs_len]. rewrite gpt_state. fold (gst b true).
  cbn [f_match gpt_fmt f_check]. unfold gpt_safe, looks_like_fat.
  split.
  - intros [Hc [Hm Hk]]. assert (Hl : 512 <= blen b) by lia. split; [exact Hl|].
    rewrite (gpt_match_state b true Hl) in Hm. injection Hm as Hm.
    split; [lia|]. split; [lia|].
    specialize (Hk K_mbr (or_introl eq_refl)). cbn [gpt_check] in Hk.
    apply table_conditions_iff. apply (gpt_check_state b true Hl). exact Hk.
  - intros [Hl [Hs [Hf Ht]]]. split; [|split].
    + replace (0 + 512 <=? blen b) with true by lia. reflexivity.
    + rewrite (gpt_match_state b true Hl). f_equal.
      rewrite Hs. rewrite N.eqb_refl. cbn [andb].
      destruct (bnth 16 b =? 2) eqn:E1; destruct (bnth 21 b =? 248) eqn:E2; try reflexivity.
      exfalso. apply Hf. split; lia.
    + intros c [<-|[]]. cbn [gpt_check]. apply (gpt_check_state b true Hl). apply table_conditions_iff. exact Ht.
Qed.

(* the corollaries the property names *)
Corollary gpt_invalid_boot_flag_rejected cs i :
  i < 4 -> pte_boot (pte (concat cs) i) <> 0 -> pte_boot (pte (concat cs) i) <> 128 ->
  safety (fst (Insp_All.run F_gpt cs)) <> Pass.
Proof.
  intros Hi H0 H1 Hp. apply gpt_pass_iff in Hp. destruct Hp as [_ [_ [_ [Hb _]]]].
  destruct (Hb i Hi); contradiction.
Qed.
Corollary gpt_no_partition_rejected cs :
  (forall i, i < 4 -> pte_type (pte (concat cs) i) = 0) -> safety (fst (Insp_All.run F_gpt cs)) <> Pass.
Proof.
  intros H Hp. apply gpt_pass_iff in Hp. destruct Hp as [_ [_ [_ [_ [[i [Hi Hn]] _]]]]]. apply Hn, H, Hi.
Qed.
Corollary gpt_misplaced_protective_rejected cs i :
  i < 4 -> i <> 0 -> pte_type (pte (concat cs) i) = 238 -> safety (fst (Insp_All.run F_gpt cs)) <> Pass.
Proof.
  intros Hi Hn Ht Hp. apply gpt_pass_iff in Hp. destruct Hp as [_ [_ [_ [_ [_ H3]]]]].
  destruct (H3 i Hi Ht) as [H0 _]. contradiction.
Qed.
Corollary gpt_accompanied_protective_rejected cs j :
  pte_type (pte (concat cs) 0) = 238 -> j < 4 -> j <> 0 -> pte_type (pte (concat cs) j) <> 0 ->
  safety (fst (Insp_All.run F_gpt cs)) <> Pass.
Proof.
  intros Ht Hj Hj0 Hn Hp. apply gpt_pass_iff in Hp. destruct Hp as [_ [_ [_ [_ [_ H3]]]]].
  destruct (H3 0 ltac:(lia) Ht) as [_ [_ [_ H]]]. apply Hn, H; assumption.
Qed.
