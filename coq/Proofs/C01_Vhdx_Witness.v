(* Proofs/C01_Vhdx_Witness.v — concrete streams: a well-formed image lies outside both zones; inside
   each zone there are two chunkings of the same bytes with different verdicts (findings F2, F4). *)
Require Import OV.Base.Bytes OV.Base.Py OV.Base.Insp_Struct OV.Gen.Insp_Consts OV.Model.Insp_Engine.
Require Import OV.Model.Insp_All OV.Model.C01_Vhdx.
Open Scope N_scope.

(* the unrestricted statement (no zone hypotheses) — false for the code that exists *)
Definition vhdx_full_statement : Prop :=
  forall cs1 cs2, concat cs1 = concat cs2 -> verdict_of (run F_vhdx cs1) = verdict_of (run F_vhdx cs2).

Lemma cut_concat k (b : bytes) : concat [b] = concat [ntake k b; nskip k b].
Proof. cbn [concat]. rewrite !app_nil_r, ntake_btake, nskip_bskip. symmetry. apply btake_bskip_app. Qed.

Ltac witness k b := split; [exact (cut_concat k b)|]; repeat (match goal with |- _ /\ _ => split end); vm_compute; reflexivity.

(* ---- a well-formed image, builder style: 2 foreign region entries, 3 foreign metadata entries,
   metadata at 260 KiB, the size item 64 KiB into the metadata region ---- *)
Definition wf_image : bytes := vx_image 2 3 VHDX_META_SIG 266240 65536 8 (le_enc 8 4294967297) 4096.

Lemma wf_image_outside : zone_vhdx_backptr wf_image = false /\ zone_vhdx_metasig wf_image = false.
Proof. split; vm_compute; reflexivity. Qed.

Lemma wf_image_spec :
  vhdx_spec wf_image = mkVerdict None (Ok true) true (Ok 4294967297%Z) Pass.
Proof. vm_compute. reflexivity. Qed.

(* ---- F2, first kind: the metadata region lies BEFORE the region table (offset 100000 < 256 KiB) ---- *)
Definition back_meta_image : bytes := vx_image_back 100000 65536 8 (le_enc 8 77) 16.
Definition back_meta_cs1 : list bytes := [back_meta_image].
Definition back_meta_cs2 : list bytes := [ntake 200000 back_meta_image; nskip 200000 back_meta_image].

Lemma back_meta_witness :
  concat back_meta_cs1 = concat back_meta_cs2 /\
  zone_vhdx_backptr (concat back_meta_cs1) = true /\ zone_vhdx_metasig (concat back_meta_cs1) = false /\
  verdict_of (run F_vhdx back_meta_cs1) = mkVerdict None (Ok true) true (Ok 77%Z) Pass /\
  verdict_of (run F_vhdx back_meta_cs2) = mkVerdict None (Ok true) false (Ok 0%Z) Refused.
Proof. witness 200000 back_meta_image. Qed.

(* ---- F2, second kind: the size item lies inside the entry table (item offset 40 < 32 + 32*1) ---- *)
Definition back_item_image : bytes := vx_image 0 0 VHDX_META_SIG 266240 40 8 [] 64.
Definition back_item_cs1 : list bytes := [back_item_image].
Definition back_item_cs2 : list bytes := [ntake 266290 back_item_image; nskip 266290 back_item_image].

Lemma back_item_witness :
  concat back_item_cs1 = concat back_item_cs2 /\
  zone_vhdx_backptr (concat back_item_cs1) = true /\ zone_vhdx_metasig (concat back_item_cs1) = false /\
  v_complete (verdict_of (run F_vhdx back_item_cs1)) = true /\
  v_complete (verdict_of (run F_vhdx back_item_cs2)) = false.
Proof. witness 266290 back_item_image. Qed.

(* ---- F4: 64 KiB of metadata region without the 'metadata' signature ---- *)
Definition bad_sig_image : bytes := vx_image 0 0 [109;101;116;97;100;97;116;98] 266240 65536 8 (le_enc 8 77) 16.
Definition bad_sig_cs1 : list bytes := [bad_sig_image].
Definition bad_sig_cs2 : list bytes := [ntake 270336 bad_sig_image; nskip 270336 bad_sig_image].

Lemma bad_sig_witness :
  concat bad_sig_cs1 = concat bad_sig_cs2 /\
  zone_vhdx_backptr (concat bad_sig_cs1) = false /\ zone_vhdx_metasig (concat bad_sig_cs1) = true /\
  verdict_of (run F_vhdx bad_sig_cs1) = mkVerdict (Some ImageFormatError) (Ok true) true (Ok 0%Z) Pass /\
  verdict_of (run F_vhdx bad_sig_cs2) = mkVerdict (Some ImageFormatError) (Ok true) false (Ok 0%Z) Refused.
Proof. witness 270336 bad_sig_image. Qed.

Theorem refuted_vhdx_backptr :
  exists cs1 cs2, concat cs1 = concat cs2 /\
    zone_vhdx_backptr (concat cs1) = true /\ zone_vhdx_metasig (concat cs1) = false /\
    verdict_of (run F_vhdx cs1) <> verdict_of (run F_vhdx cs2).
Proof.
  exists back_meta_cs1, back_meta_cs2. destruct back_meta_witness as (H1 & H2 & H3 & H4 & H5).
  split; [exact H1|]. split; [exact H2|]. split; [exact H3|]. rewrite H4, H5. intros E. discriminate E.
Qed.

Theorem refuted_vhdx_backptr_item :
  exists cs1 cs2, concat cs1 = concat cs2 /\
    zone_vhdx_backptr (concat cs1) = true /\ zone_vhdx_metasig (concat cs1) = false /\
    verdict_of (run F_vhdx cs1) <> verdict_of (run F_vhdx cs2).
Proof.
  exists back_item_cs1, back_item_cs2. destruct back_item_witness as (H1 & H2 & H3 & H4 & H5).
  split; [exact H1|]. split; [exact H2|]. split; [exact H3|]. intros E. rewrite E, H5 in H4. discriminate H4.
Qed.

Theorem refuted_vhdx_metasig :
  exists cs1 cs2, concat cs1 = concat cs2 /\
    zone_vhdx_backptr (concat cs1) = false /\ zone_vhdx_metasig (concat cs1) = true /\
    verdict_of (run F_vhdx cs1) <> verdict_of (run F_vhdx cs2).
Proof.
  exists bad_sig_cs1, bad_sig_cs2. destruct bad_sig_witness as (H1 & H2 & H3 & H4 & H5).
  split; [exact H1|]. split; [exact H2|]. split; [exact H3|]. rewrite H4, H5. intros E. discriminate E.
Qed.

Theorem vhdx_full_statement_refuted : ~ vhdx_full_statement.
Proof.
  intros H. destruct refuted_vhdx_metasig as (cs1 & cs2 & Hc & _ & _ & Hne). exact (Hne (H cs1 cs2 Hc)).
Qed.
