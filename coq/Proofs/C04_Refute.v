(* Proofs/C04_Refute.v — K12: the wildcard pattern refutes the full statement (witness by vm_compute) *)
From Coq Require Import String.
Require Import OV.Base.Bytes OV.Base.PyInt OV.Base.Str OV.Base.Regex.
Require Import OV.Model.C04 OV.Model.C04_Spec OV.Model.C04_Sweep OV.Proofs.C04_Bounded.
Open Scope N_scope.

Definition k12_witness : str := [32; 34] ++ lit "password" ++ [34; 58; 32; 34] ++ lit "abc" ++ [34; 32; 32; 32; 34] ++ lit "token" ++ [34; 58; 32; 34] ++ lit "def" ++ [34; 32].
Definition k12_once : str := mask_password k12_witness (lit "***").
Definition k12_twice : str := mask_password k12_once (lit "***").

Lemma k12_values :
  k12_once = [32; 34] ++ lit "password" ++ [34; 58; 32; 34] ++ lit "***" ++ [34; 32; 32; 32; 34] ++ lit "token" ++ [34; 58; 32; 34; 32] /\
  k12_once <> k12_twice /\ zone_K12 k12_witness = true.
Proof. vm_compute. split; [reflexivity|split; [discriminate|reflexivity]]. Qed.

Lemma idempotent_bounded c : In c family_quick -> in_zone (case_msg c) = false ->
  mask_password (mask_password (case_msg c) (case_mask c)) (case_mask c) = mask_password (case_msg c) (case_mask c).
Proof. intros Hin Hz. destruct (mask_whole_bounded c Hin Hz) as [H1 H2]. rewrite H1. exact H2. Qed.

Lemma family_nonvacuous : N.of_nat (length family_quick) = 801 /\ (exists c, In c family_quick /\ in_zone (case_msg c) = false).
Proof.
  split; [vm_compute; reflexivity|].
  exists (lit "run ", (lit "admin_password=", ([233; 94], ([], (lit " ok", lit "***"))))). split; [|vm_compute; reflexivity].
  vm_compute. left. reflexivity.
Qed.

(* the full statement: two secrets in neutral text (digits / white space) *)
Definition full_statement : Prop :=
  forall k1 k2 KD1 KD2 (r1 r2 : rend) v1 v2 pre sep post mask,
    In k1 spec_keys_35 -> In k2 spec_keys_35 -> In KD1 (casings k1) -> In KD2 (casings k2) ->
    In r1 (renderings KD1) -> In r2 (renderings KD2) ->
    forallb (fst r1) v1 = true -> forallb (fst r2) v2 = true -> v1 <> [] -> v2 <> [] ->
    neutral pre = true -> neutral sep = true -> neutral post = true ->
    mask_password (pre ++ [32] ++ fst (snd r1) ++ v1 ++ snd (snd r1) ++ [32] ++ sep ++ [32] ++
                   fst (snd r2) ++ v2 ++ snd (snd r2) ++ [32] ++ post) mask
    = pre ++ [32] ++ fst (snd r1) ++ mask ++ snd (snd r1) ++ [32] ++ sep ++ [32] ++
      fst (snd r2) ++ mask ++ snd (snd r2) ++ [32] ++ post.

Ltac solve_in := repeat first [left; reflexivity | right].

Lemma refuted_wildcard :
  ~ full_statement /\
  mask_password k12_witness (lit "***") = k12_once /\ mask_password k12_once (lit "***") = k12_twice /\
  k12_once <> k12_twice /\ zone_K12 k12_witness = true.
Proof.
  split; [|split; [reflexivity|split; [reflexivity|exact (proj2 k12_values)]]].
  intros H.
  specialize (H (lit "password") (lit "token") (lit "password") (lit "token")
                (quoted_char, ([34] ++ lit "password" ++ [34; 58; 32; 34], [34]))
                (quoted_char, ([34] ++ lit "token" ++ [34; 58; 32; 34], [34]))
                (lit "abc") (lit "def") [] [] [] (lit "***")).
  assert (H' := H ltac:(cbn; solve_in) ltac:(cbn; solve_in) ltac:(cbn; solve_in) ltac:(cbn; solve_in)
                  ltac:(cbn [renderings]; solve_in) ltac:(cbn [renderings]; solve_in)
                  eq_refl eq_refl ltac:(discriminate) ltac:(discriminate) eq_refl eq_refl eq_refl).
  clear H. vm_compute in H'. discriminate H'.
Qed.

(* ---------- K14: one secret in neutral text, `--K value` with a flag-like value ---------- *)
Definition single_statement : Prop :=
  forall k KD (r : rend) v pre post mask,
    In k spec_keys_35 -> In KD (casings k) -> In r (renderings KD) ->
    forallb (fst r) v = true -> v <> [] -> neutral pre = true -> neutral post = true ->
    mask_password (pre ++ [32] ++ fst (snd r) ++ v ++ snd (snd r) ++ [32] ++ post) mask
    = pre ++ [32] ++ fst (snd r) ++ mask ++ snd (snd r) ++ [32] ++ post.

Definition k14_witness : str := lit " --auth_password -ab 1".

Lemma refuted_K14 :
  ~ single_statement /\
  mask_password k14_witness (lit "***") = lit " --auth_password *** ***" /\
  zone_K14 k14_witness = true /\ zone_K12 k14_witness = false /\
  (* the same value under the suffix key itself, and a non-flag value under the longer key, are fine *)
  mask_password (lit " --password -ab 1") (lit "***") = lit " --password *** 1" /\
  zone_K14 (lit " --password -ab 1") = false /\
  mask_password (lit " --auth_password -ab1 1") (lit "***") = lit " --auth_password *** 1" /\
  zone_K14 (lit " --auth_password -ab1 1") = false.
Proof.
  split; [|vm_compute; repeat split; reflexivity].
  intros H.
  specialize (H (lit "auth_password") (lit "auth_password") (dd_char, (lit "--" ++ lit "auth_password" ++ lit " ", []))
                (lit "-ab") [] (lit "1") (lit "***")).
  assert (H' := H ltac:(cbn; solve_in) ltac:(cbn; solve_in) ltac:(cbn [renderings]; solve_in)
                  eq_refl ltac:(discriminate) eq_refl eq_refl).
  clear H. vm_compute in H'. discriminate H'.
Qed.
