(* Proofs/C02_Static.v — the eight static formats: for EVERY chunk list the run ends without exception in a
   state that is a function of the concatenated bytes, and safety_check() on it is characterised on the bytes. *)
Require Import OV.Base.Bytes OV.Base.Py OV.Base.Insp_Struct OV.Gen.Insp_Consts OV.Model.Insp_Engine.
Require Import OV.Model.Insp_Raw OV.Model.Insp_Qcow2 OV.Model.Insp_Qed OV.Model.Insp_Vhd OV.Model.Insp_Vdi
               OV.Model.Insp_Iso OV.Model.Insp_Gpt OV.Model.Insp_Luks OV.Model.Insp_Vhdx OV.Model.Insp_Vmdk OV.Model.Insp_All.
Require Import OV.Model.C02 OV.Proofs.C02_Engine OV.Proofs.C02_Bytes.
Open Scope N_scope.

(* ---------- the interface level follows the engine level ---------- *)
Lemma eat_list_unit f s cs :
  eat_list (I_unit f s) cs = let '(s', e) := eat_all (ufmt f) s cs in (I_unit f s', e).
Proof.
  revert s. induction cs as [|c cs IH]; intros s; cbn [eat_list eat_all eat]; [reflexivity|].
  destruct (eat_chunk (ufmt f) s c) as [s' [e|]]; [reflexivity|apply IH].
Qed.
Lemma eat_list_qcow s cs :
  eat_list (I_qcow s) cs = let '(s', e) := eat_all qcow_fmt s cs in (I_qcow s', e).
Proof.
  revert s. induction cs as [|c cs IH]; intros s; cbn [eat_list eat_all eat]; [reflexivity|].
  destruct (eat_chunk qcow_fmt s c) as [s' [e|]]; [reflexivity|apply IH].
Qed.
Lemma eat_list_vmdk s cs :
  eat_list (I_vmdk s) cs = let '(s', e) := eat_all vmdk_fmt s cs in (I_vmdk s', e).
Proof.
  revert s. induction cs as [|c cs IH]; intros s; cbn [eat_list eat_all eat]; [reflexivity|].
  destruct (eat_chunk vmdk_fmt s c) as [s' [e|]]; [reflexivity|apply IH].
Qed.

Definition is_unit_fmt (f : fmt_id) : bool := match f with F_qcow2 | F_vmdk => false | _ => true end.

Lemma run_unit f cs : is_unit_fmt f = true ->
  Insp_All.run f cs = let '(s, e) := run_fmt (ufmt f) cs in (I_unit f s, e).
Proof.
  intros Hf. unfold Insp_All.run, run_fmt.
  assert (Hi : init f = I_unit f (init_ist (ufmt f))) by (destruct f; try discriminate; reflexivity).
  rewrite Hi, eat_list_unit. destruct (eat_all (ufmt f) (init_ist (ufmt f)) cs) as [s e]. reflexivity.
Qed.
Lemma run_qcow cs : Insp_All.run F_qcow2 cs = let '(s, e) := run_fmt qcow_fmt cs in (I_qcow s, e).
Proof.
  unfold Insp_All.run, run_fmt. change (init F_qcow2) with (I_qcow (init_ist qcow_fmt)).
  rewrite eat_list_qcow. destruct (eat_all qcow_fmt (init_ist qcow_fmt) cs) as [s e]. reflexivity.
Qed.
Lemma run_vmdk cs : Insp_All.run F_vmdk cs = let '(s, e) := run_fmt vmdk_fmt cs in (I_vmdk s, e).
Proof.
  unfold Insp_All.run, run_fmt. change (init F_vmdk) with (I_vmdk (init_ist vmdk_fmt)).
  rewrite eat_list_vmdk. destruct (eat_all vmdk_fmt (init_ist vmdk_fmt) cs) as [s e]. reflexivity.
Qed.

(* the seven static formats without private attributes *)
Definition is_static_unit (f : fmt_id) : bool :=
  match f with F_raw | F_qed | F_vhd | F_vdi | F_iso | F_gpt | F_luks => true | _ => false end.

Theorem run_static_unit f cs : is_static_unit f = true ->
  Insp_All.run f cs = (I_unit f (static_state (ufmt f) (concat cs) true tt), None).
Proof.
  intros Hf. rewrite run_unit by (destruct f; try discriminate; reflexivity).
  rewrite run_fmt_static_unit; [reflexivity| | |]; destruct f; try discriminate; reflexivity.
Qed.

(* ---------- reading a static state ---------- *)
Lemma complete_static {X} (F : fmt X) b fin x :
  forallb (fun p => plain_spec (snd p)) (init_regions (f_id F)) = true ->
  Insp_Engine.complete (static_state F b fin x)
  = forallb (fun p => (rs_off (snd p) + rs_len (snd p) <=? blen b) || (rs_len (snd p) =? 0)) (init_regions (f_id F)).
Proof.
  unfold Insp_Engine.complete, static_state. cbn [i_regs]. generalize 0%nat. generalize (init_regions (f_id F)).
  induction l as [|[n sp] l IH]; intros id Hp; cbn [static_regs forallb snd]; [reflexivity|].
  cbn [forallb snd] in Hp. apply andb_true_iff in Hp. destruct Hp as [Hp Hl].
  rewrite static_region_complete by exact Hp. rewrite IH by exact Hl. reflexivity.
Qed.

(* ---------- VHD ---------- *)
Lemma vhd_state b fin :
  static_state vhd_fmt b fin tt
  = mkIst (blen b) [(R_header, mkRegion 0 false 0 512 None (bslice 0 512 b) false)] 1 fin [K_null] tt.
Proof. reflexivity. Qed.

Theorem vhd_pass_iff cs :
  safety (fst (Insp_All.run F_vhd cs)) = Pass <-> vhd_ok (concat cs).
Proof.
  rewrite run_static_unit by reflexivity. cbn [fst safety ufmt]. set (b := concat cs).
  rewrite safety_pass_iff. rewrite complete_static by reflexivity.
  rewrite vhd_state. cbn [f_match vhd_fmt vhd_match get_region i_regs rget rname_beq bind r_data i_checks f_check f_id init_regions forallb snd rs_off rs_len].
  rewrite prefixb_bslice by (vm_compute; discriminate).
  change (blen VHD_MAGIC) with 8. unfold vhd_ok. change VHD_MAGIC with vhd_magic.
  split.
  - intros [Hc [Hm _]]. split; [lia|]. injection Hm as Hm. apply beq_true_eq. exact Hm.
  - intros [Hl Hm]. split; [|split].
    + replace (0 + 512 <=? blen b) with true by lia. reflexivity.
    + rewrite Hm, beq_refl. reflexivity.
    + intros c [<-|[]]. reflexivity.
Qed.

(* ---------- helpers for reading the header region of a complete static state ---------- *)
Lemma unpack_slice f o l b : l = sf_size f -> o + l <= blen b -> unpack f (bslice o l b) = Ok (bslice o l b).
Proof. intros -> H. apply unpack_ok. apply blen_bslice_full. exact H. Qed.

Lemma rcomplete_header id len b :
  rcomplete (mkRegion id false 0 len None (bslice 0 len b) false) = (len <=? blen b).
Proof.
  unfold rcomplete, base_complete. cbn [r_end r_min r_len r_data]. rewrite flen_blen, blen_bslice. lia.
Qed.

Ltac slices :=
  repeat first [rewrite nsub_bslice | rewrite ntake_bslice | rewrite bslice_bslice by lia].

(* ---------- raw ---------- *)
Theorem raw_pass cs : safety (fst (Insp_All.run F_raw cs)) = Pass.
Proof.
  rewrite run_static_unit by reflexivity. cbn [fst safety ufmt].
  apply safety_pass_iff. split; [reflexivity|]. split; [reflexivity|].
  intros c [<-|[]]. reflexivity.
Qed.

(* ---------- QED: banned ---------- *)
Theorem qed_never_passes cs : safety (fst (Insp_All.run F_qed cs)) <> Pass.
Proof.
  rewrite run_static_unit by reflexivity. cbn [fst safety ufmt].
  intros H. apply safety_pass_iff in H. destruct H as [_ [_ H]].
  specialize (H K_banned (or_introl eq_refl)). discriminate.
Qed.

(* any QED inspector object whatsoever: the banned check is registered by _initialize and checks only grow *)
Lemma qed_state_never_passes (s : ist unit) : In K_banned (i_checks s) -> safety_check qed_fmt s <> Pass.
Proof. intros Hin. apply (check_exception_fails qed_fmt s K_banned SafetyViolation Hin). reflexivity. Qed.

(* ---------- VDI ---------- *)
Lemma vdi_state b fin :
  static_state vdi_fmt b fin tt
  = mkIst (blen b) [(R_header, mkRegion 0 false 0 512 None (bslice 0 512 b) false)] 1 fin [K_null] tt.
Proof. reflexivity. Qed.

Theorem vdi_pass_iff cs :
  safety (fst (Insp_All.run F_vdi cs)) = Pass <-> vdi_ok (concat cs).
Proof.
  rewrite run_static_unit by reflexivity. cbn [fst safety ufmt]. set (b := concat cs).
  rewrite safety_pass_iff. rewrite complete_static by reflexivity.
  cbn [f_id vdi_fmt init_regions forallb snd rs_off rs_len]. rewrite vdi_state.
  cbn [f_match vdi_fmt vdi_match get_region i_regs rget rname_beq bind r_data i_checks f_check].
  rewrite rcomplete_header. unfold vdi_ok.
  assert (Hm : 512 <= blen b ->
          (do b0 <- unpack sf_vdi_sig (nsub VDI_SIG_LO VDI_SIG_HI (bslice 0 512 b)); Ok (sint sf_vdi_sig 0 b0 =? VDI_SIG))
          = Ok (le_at 64 4 b =? 3201962111)).
  { intros Hl. unfold VDI_SIG_LO, VDI_SIG_HI. slices. change (68 - 64) with 4. change (0 + 64) with 64.
    rewrite unpack_slice by (try reflexivity; lia). cbn [bind].
    change (sint sf_vdi_sig 0 (bslice 64 4 b)) with (le_val (bslice 0 4 (bslice 64 4 b))).
    slices. reflexivity. }
  split.
  - intros [Hc [Hmm _]]. assert (Hl : 512 <= blen b) by lia. split; [exact Hl|].
    replace (512 <=? blen b) with true in Hmm by lia. cbn [negb] in Hmm. rewrite (Hm Hl) in Hmm.
    injection Hmm as Hmm. apply N.eqb_eq. exact Hmm.
  - intros [Hl Hv]. split; [|split].
    + replace (0 + 512 <=? blen b) with true by lia. reflexivity.
    + replace (512 <=? blen b) with true by lia. cbn [negb]. rewrite (Hm Hl). rewrite Hv. reflexivity.
    + intros c [<-|[]]. reflexivity.
Qed.

(* ---------- ISO ---------- *)
Lemma iso_state b fin :
  static_state iso_fmt b fin tt
  = mkIst (blen b) [(R_system_area, mkRegion 0 false 0 32768 None (bslice 0 32768 b) false);
                    (R_header, mkRegion 1 false 32768 2048 None (bslice 32768 2048 b) false)] 2 fin [K_null] tt.
Proof. reflexivity. Qed.

Lemma mem_str_In x l : mem_str x l = true <-> In x l.
Proof.
  induction l as [|y l IH]; cbn [mem_str In]; [split; [discriminate|intros []]|].
  rewrite orb_true_iff, IH, beq_eq. split; intros [H|H]; auto.
Qed.

Lemma iso_match_state b fin :
  iso_match (mkIst (blen b) [(R_system_area, mkRegion 0 false 0 32768 None (bslice 0 32768 b) false);
                             (R_header, mkRegion 1 false 32768 2048 None (bslice 32768 2048 b) false)] 2 fin [K_null] tt)
  = Ok ((34816 <=? blen b) && mem_str (bslice 32769 5 b) iso_idents).
Proof.
  unfold iso_match, Insp_Engine.complete. cbn [i_regs forallb snd].
  unfold rcomplete, base_complete. cbn [r_end r_min r_len r_data]. rewrite !flen_blen, !blen_bslice.
  destruct (34816 <=? blen b) eqn:Hl.
  - replace (32768 =? N.min 32768 (blen b - 0)) with true by lia.
    replace (2048 =? N.min 2048 (blen b - 32768)) with true by lia. cbn [andb negb].
    cbn [get_region i_regs rget rname_beq bind r_data].
    unfold ISO_SIG_LO, ISO_SIG_HI. slices. reflexivity.
  - replace ((32768 =? N.min 32768 (blen b - 0)) && ((2048 =? N.min 2048 (blen b - 32768)) && true)) with false by lia.
    reflexivity.
Qed.

Theorem iso_pass_iff cs :
  safety (fst (Insp_All.run F_iso cs)) = Pass <-> iso_ok (concat cs).
Proof.
  rewrite run_static_unit by reflexivity. cbn [fst safety ufmt]. set (b := concat cs).
  rewrite safety_pass_iff. rewrite complete_static by reflexivity.
  cbn [f_id iso_fmt init_regions forallb snd rs_off rs_len]. rewrite iso_state.
  cbn [f_match iso_fmt]. rewrite iso_match_state. cbn [i_checks f_check iso_fmt]. unfold iso_ok.
  split.
  - intros [Hc [Hm _]]. injection Hm as Hm. apply andb_true_iff in Hm. destruct Hm as [Hl Hi].
    split; [lia|]. apply mem_str_In. exact Hi.
  - intros [Hl Hi]. split; [|split].
    + replace (0 + 32768 <=? blen b) with true by lia. replace (32768 + 2048 <=? blen b) with true by lia. reflexivity.
    + apply mem_str_In in Hi. rewrite Hi. replace (34816 <=? blen b) with true by lia. reflexivity.
    + intros c [<-|[]]. reflexivity.
Qed.

(* ---------- LUKS ---------- *)
Lemma luks_state b fin :
  static_state luks_fmt b fin tt
  = mkIst (blen b) [(R_header, mkRegion 0 false 0 592 None (bslice 0 592 b) false)] 1 fin [K_version] tt.
Proof. reflexivity. Qed.

Theorem luks_pass_iff cs :
  safety (fst (Insp_All.run F_luks cs)) = Pass <-> luks_safe (concat cs).
Proof.
  rewrite run_static_unit by reflexivity. cbn [fst safety ufmt]. set (b := concat cs).
  rewrite safety_pass_iff. rewrite complete_static by reflexivity.
  cbn [f_id luks_fmt init_regions forallb snd rs_off rs_len]. rewrite luks_state.
  cbn [f_match luks_fmt luks_match get_region i_regs rget rname_beq bind r_data i_checks f_check].
  unfold luks_safe, LUKS_MAGIC_TAKE. 
  assert (Hv : 592 <= blen b ->
          luks_check_version (mkIst (blen b) [(R_header, mkRegion 0 false 0 592 None (bslice 0 592 b) false)] 1 true [K_version] tt)
          = if be_at 6 2 b =? 1 then Ok tt else violation).
  { intros Hl. unfold luks_check_version, luks_header_items. cbn [get_region i_regs rget rname_beq bind r_data].
    unfold LUKS_HDR_SLICE. slices. change (0 + 0) with 0.
    rewrite unpack_slice by (try reflexivity; lia). cbn [bind].
    change (sint sf_luks_hdr 1 (bslice 0 108 b)) with (be_val (bslice 6 2 (bslice 0 108 b))).
    slices. reflexivity. }
  change LUKS_MAGIC with luks_magic.
  split.
  - intros [Hc [Hm Hk]]. assert (Hl : 592 <= blen b) by lia. split; [exact Hl|].
    slices. change (0 + 0) with 0. split.
    + injection Hm as Hm. revert Hm. slices. change (0 + 0) with 0. apply beq_true_eq.
    + specialize (Hk K_version (or_introl eq_refl)). cbn [luks_check] in Hk. rewrite (Hv Hl) in Hk.
      destruct (be_at 6 2 b =? 1) eqn:E; [lia|discriminate].
  - intros [Hl [Hm Hver]]. split; [|split].
    + replace (0 + 592 <=? blen b) with true by lia. reflexivity.
    + slices. change (0 + 0) with 0. rewrite Hm, beq_refl. reflexivity.
    + intros c [<-|[]]. cbn [luks_check]. rewrite (Hv Hl), Hver. reflexivity.
Qed.

(* a LUKS stream shorter than the captured header is refused, whatever it contains (no StructError can escape) *)
Theorem luks_short_refused cs : blen (concat cs) < 592 -> safety (fst (Insp_All.run F_luks cs)) = Refused.
Proof.
  intros H. rewrite run_static_unit by reflexivity. cbn [fst safety ufmt].
  apply safety_incomplete_refused. rewrite complete_static by reflexivity.
  cbn [f_id luks_fmt init_regions forallb snd rs_off rs_len]. lia.
Qed.
