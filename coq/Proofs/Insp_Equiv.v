(* Proofs/Insp_Equiv.v — the statement-level translations of CaptureRegion.capture / complete and
   EndCaptureRegion.capture (Gen/Insp_Code.v, regenerated from the source by py2gal) compute what the
   hand-written engine model computes. *)
Require Import OV.Base.Bytes OV.Base.Py OV.Base.Insp_Struct OV.Gen.Insp_Consts OV.Gen.Insp_Code OV.Model.Insp_Engine.
Open Scope N_scope.

Lemma zlen_N b : zlen b = Z.of_N (blen b).
Proof. reflexivity. Qed.

Definition zfields (r : region) : Z * Z * bytes := (Z.of_N (r_off r), Z.of_N (r_len r), r_data r).

(* CaptureRegion.capture; the position handed to capture is the stream position AFTER the chunk *)
Lemma gen_capture_equiv r chunk pos :
  blen chunk <= pos ->
  gen_capture (Z.of_N (r_off r)) (Z.of_N (r_len r)) (r_data r) chunk (Z.of_N pos)
  = (zfields (cap_fixed r chunk pos), tt).
Proof.
  intros Hp. unfold gen_capture, cap_fixed, zfields. rewrite !zlen_N, !flen_blen.
  set (rs := pos - blen chunk). set (w := r_off r + blen (r_data r)).
  assert (E1 : (Z.of_N pos - Z.of_N (blen chunk) <=? Z.of_N (r_off r) + Z.of_N (blen (r_data r)))%Z = (rs <=? w)) by (subst rs w; lia).
  assert (E2 : (Z.of_N (r_off r) + Z.of_N (blen (r_data r)) <=? Z.of_N pos)%Z = (w <=? pos)) by (subst w; lia).
  rewrite E1, E2. destruct ((rs <=? w) && (w <=? pos)) eqn:Hc; [|reflexivity].
  cbn [set_data r_off r_len r_data].
  rewrite zslice_from by lia. rewrite zslice_to by lia. rewrite ntake_btake, nskip_bskip.
  replace (Z.to_N (Z.of_N (r_off r) + Z.of_N (blen (r_data r)) - (Z.of_N pos - Z.of_N (blen chunk)))) with (w - rs) by (subst rs w; lia).
  rewrite N2Z.id. reflexivity.
Qed.

(* CaptureRegion.complete *)
Lemma gen_complete_equiv r :
  snd (gen_complete (Z.of_N (r_len r)) (r_data r) (option_map Z.of_N (r_min r))) = base_complete r.
Proof.
  unfold gen_complete, base_complete. rewrite flen_blen. destruct (r_min r) as [m|]; cbn [option_map snd]; rewrite zlen_N; lia.
Qed.

(* EndCaptureRegion.capture *)
Lemma gen_end_capture_equiv r chunk pos :
  blen (r_data r) + blen chunk <= pos ->
  gen_end_capture (Z.of_N (r_off r)) (Z.of_N (r_len r)) (r_data r) chunk (Z.of_N pos)
  = (zfields (cap_end r chunk pos), tt).
Proof.
  intros Hp. unfold gen_end_capture, cap_end, zfields. cbn [set_off set_data r_off r_len r_data].
  assert (Hs : zslice (Some (0 - Z.of_N (r_len r))%Z) None (r_data r ++ chunk) = nlast (r_len r) (r_data r ++ chunk)).
  { unfold nlast. destruct (r_len r =? 0) eqn:Hz.
    - replace (r_len r) with 0 by lia. cbn [Z.of_N Z.sub]. rewrite zslice_from by lia. reflexivity.
    - rewrite nskip_bskip, flen_blen. unfold zslice, norm_idx.
      replace (0 - Z.of_N (r_len r) <? 0)%Z with true by lia.
      set (n := blen (r_data r ++ chunk)).
      replace (Z.to_N (Z.max 0 (Z.min (Z.of_N n) (0 - Z.of_N (r_len r) + Z.of_N n)))) with (n - r_len r) by lia.
      rewrite N2Z.id. unfold bsub. apply btake_all. rewrite blen_bskip. lia. }
  rewrite Hs. rewrite zlen_N, flen_blen.
  assert (Hl : blen (nlast (r_len r) (r_data r ++ chunk)) <= pos).
  { unfold nlast. destruct (r_len r =? 0); [rewrite blen_app; lia|]. rewrite nskip_bskip, blen_bskip, flen_blen, blen_app. lia. }
  repeat f_equal. lia.
Qed.
