(* Proofs/C02_Bits.v — bit-level facts about N used for the qcow2 feature word *)
Require Import OV.Base.Bytes.
Open Scope N_scope.

(* all bits from m upwards are clear  <->  the number is below 2^m *)
Lemma high_bits_clear_iff x m : (forall n, m <= n -> N.testbit x n = false) <-> x < 2 ^ m.
Proof.
  split.
  - intros H. destruct (N.eq_dec x 0) as [->|Hx]; [apply N.neq_0_lt_0, N.pow_nonzero; lia|].
    destruct (N.lt_ge_cases x (2 ^ m)) as [Hlt|Hge]; [exact Hlt|].
    exfalso. assert (Hlog : m <= N.log2 x) by (apply N.log2_le_pow2; lia).
    specialize (H (N.log2 x) Hlog). rewrite N.bit_log2 in H by exact Hx. discriminate.
  - intros H n Hn. destruct (N.eq_dec x 0) as [->|Hx]; [apply N.bits_0|].
    apply N.bits_above_log2. apply N.log2_lt_pow2; [lia|].
    eapply N.lt_le_trans; [exact H|]. apply N.pow_le_mono_r; lia.
Qed.

(* x & ~(2^m - 1) = 0  <->  x < 2^m *)
Lemma ldiff_ones_zero_iff x m : N.ldiff x (N.shiftl 1 m - 1) = 0 <-> x < 2 ^ m.
Proof.
  rewrite N.shiftl_1_l. replace (2 ^ m - 1) with (N.ones m) by (rewrite N.ones_equiv; lia).
  rewrite <- high_bits_clear_iff. split.
  - intros H n Hn. assert (Hb : N.testbit (N.ldiff x (N.ones m)) n = false) by (rewrite H; apply N.bits_0).
    rewrite N.ldiff_spec, N.ones_spec_high in Hb by lia. cbn [negb] in Hb. rewrite andb_true_r in Hb. exact Hb.
  - intros H. apply N.bits_inj_0. intros n. rewrite N.ldiff_spec.
    destruct (N.lt_ge_cases n m) as [Hlt|Hge].
    + rewrite N.ones_spec_low by exact Hlt. apply andb_false_r.
    + rewrite (H n Hge). reflexivity.
Qed.

Lemma ldiff_zero_mask x : N.ldiff x 0 = x.
Proof. apply N.ldiff_0_r. Qed.

(* x & 2^k = 0  <->  bit k of x is clear *)
Lemma land_pow2_zero_iff x k : N.land x (2 ^ k) = 0 <-> N.testbit x k = false.
Proof.
  split.
  - intros H. assert (Hb : N.testbit (N.land x (2 ^ k)) k = false) by (rewrite H; apply N.bits_0).
    rewrite N.land_spec, N.pow2_bits_true, andb_true_r in Hb. exact Hb.
  - intros H. apply N.bits_inj_0. intros n. rewrite N.land_spec.
    destruct (N.eq_dec n k) as [->|Hn]; [rewrite H; reflexivity|].
    rewrite N.pow2_bits_false by congruence. apply andb_false_r.
Qed.

(* the low bits of a + 2^k * r are those of a *)
Lemma testbit_low_add a r k n : a < 2 ^ k -> n < k -> N.testbit (a + 2 ^ k * r) n = N.testbit a n.
Proof.
  intros Ha Hn. rewrite <- (N.mod_pow2_bits_low (a + 2 ^ k * r) k n Hn).
  replace (a + 2 ^ k * r) with (a + r * 2 ^ k) by lia.
  rewrite N.mod_add by (apply N.pow_nonzero; lia).
  rewrite N.mod_small by exact Ha. reflexivity.
Qed.
