(* Proofs/C01_Vmdk_Base.v — byte-string facts used by the VMDK refinement proof:
   prefixes, "no createtype before the first NUL" is inherited by prefixes, tails. *)
Require Import OV.Base.Bytes OV.Base.Py OV.Base.PyInt OV.Base.Str OV.Base.Insp_Struct OV.Gen.Insp_Consts.
Require Import OV.Model.Insp_Engine OV.Model.Insp_Vmdk OV.Model.Insp_All OV.Model.C01_Vmdk.
Require Import OV.Proofs.Insp_Engine.
Open Scope N_scope.

(* ---------------------------------------------------------------- prefixes *)
Definition is_prefix (p s : bytes) : Prop := exists t, s = p ++ t.

Lemma is_prefix_refl s : is_prefix s s.
Proof. exists []. rewrite app_nil_r. reflexivity. Qed.
Lemma is_prefix_app p s c : is_prefix p s -> is_prefix p (s ++ c).
Proof. intros [t ->]. exists (t ++ c). rewrite app_assoc. reflexivity. Qed.
Lemma is_prefix_trans a b c : is_prefix a b -> is_prefix b c -> is_prefix a c.
Proof. intros [t ->] [u ->]. exists (t ++ u). rewrite app_assoc. reflexivity. Qed.
Lemma is_prefix_btake n s : is_prefix (btake n s) s.
Proof. exists (bskip n s). symmetry. apply btake_bskip_app. Qed.
Lemma is_prefix_len p s : is_prefix p s -> blen p <= blen s.
Proof. intros [t ->]. rewrite blen_app. lia. Qed.
Lemma btake_prefix n p s : is_prefix p s -> n <= blen p -> btake n p = btake n s.
Proof. intros [t ->] H. rewrite btake_app_le by exact H. reflexivity. Qed.
Lemma bslice_prefix off len p s : is_prefix p s -> off + len <= blen p -> bslice off len p = bslice off len s.
Proof.
  intros [t ->] H. unfold bslice. rewrite bskip_app_le by lia. rewrite btake_app_le; [reflexivity|].
  rewrite blen_bskip. lia.
Qed.
Lemma prefixb_prefix m p s : is_prefix p s -> blen m <= blen p -> prefixb m p = prefixb m s.
Proof. intros Hp Hl. rewrite !prefixb_btake. rewrite (btake_prefix _ _ _ Hp Hl). reflexivity. Qed.

Lemma forallb_prefix (f : N -> bool) p s : is_prefix p s -> forallb f s = true -> forallb f p = true.
Proof. intros [t ->] H. rewrite forallb_app in H. apply andb_true_iff in H. tauto. Qed.

Lemma map_prefix (f : N -> N) p s : is_prefix p s -> is_prefix (map f p) (map f s).
Proof. intros [t ->]. exists (map f t). apply map_app. Qed.

(* ---------------------------------------------------------------- find / occursb *)
Lemma find_from_None sub s i : find_from sub s i = None <-> occursb sub s = false.
Proof.
  revert i. induction s as [|x t IH]; intros i; cbn [find_from occursb].
  - destruct (prefixb sub []); cbn [orb]; split; intros H; try discriminate; reflexivity.
  - destruct (prefixb sub (x :: t)); cbn [orb]; [split; discriminate|]. apply IH.
Qed.
Lemma find_None sub s : find sub s = None <-> occursb sub s = false.
Proof. apply find_from_None. Qed.

Lemma prefixb_mono a p t : prefixb a p = true -> prefixb a (p ++ t) = true.
Proof. intros H. apply prefixb_spec in H. destruct H as [u ->]. rewrite <- app_assoc. apply prefixb_app. Qed.

Lemma occursb_prefix a p s : is_prefix p s -> occursb a s = false -> occursb a p = false.
Proof.
  intros [t ->]. induction p as [|x p IH]; cbn [app]; intros H.
  - cbn [occursb]. destruct (prefixb a []) eqn:Hp; [|reflexivity].
    apply (prefixb_mono a [] t) in Hp. cbn [app] in Hp.
    destruct t; cbn [occursb] in H; rewrite Hp in H; discriminate.
  - cbn [occursb] in *. apply orb_false_iff in H. destruct H as [H1 H2].
    rewrite (IH H2), orb_false_r. destruct (prefixb a (x :: p)) eqn:Hp; [|reflexivity].
    apply (prefixb_mono a _ t) in Hp. cbn [app] in Hp. congruence.
Qed.

Lemma prefixb_len a s : prefixb a s = true -> blen a <= blen s.
Proof. intros H. apply prefixb_spec in H. destruct H as [t ->]. rewrite blen_app. lia. Qed.

Lemma occursb_short a s : blen s < blen a -> occursb a s = false.
Proof.
  induction s as [|x t IH]; intros H; cbn [occursb].
  - destruct (prefixb a []) eqn:Hp; [|reflexivity]. apply prefixb_len in Hp. lia.
  - rewrite IH by (rewrite blen_cons in H; lia). rewrite orb_false_r.
    destruct (prefixb a (x :: t)) eqn:Hp; [|reflexivity]. apply prefixb_len in Hp. lia.
Qed.

(* ---------------------------------------------------------------- the text before the first NUL *)
Fixpoint cut0 (d : bytes) : bytes :=
  match d with [] => [] | x :: t => if 0 =? x then [] else x :: cut0 t end.

Lemma find_nul_spec s i :
  match find_from VMDK_NUL s i with
  | Some j => i <= j /\ btake (j - i) s = cut0 s
  | None => cut0 s = s
  end.
Proof.
  revert i. induction s as [|x t IH]; intros i.
  - reflexivity.
  - cbn [find_from VMDK_NUL prefixb cut0]. destruct (0 =? x) eqn:Hx; cbn [andb].
    + split; [lia|]. replace (i - i) with 0 by lia. reflexivity.
    + specialize (IH (i + 1)). destruct (find_from VMDK_NUL t (i + 1)) as [j|].
      * destruct IH as [Hj Ht]. split; [lia|].
        unfold btake in *. replace (N.to_nat (j - i)) with (S (N.to_nat (j - (i + 1)))) by lia.
        cbn [firstn]. rewrite Ht. reflexivity.
      * rewrite IH. reflexivity.
Qed.

Lemma upto_nul_cut0 d : upto_nul d = cut0 d.
Proof.
  unfold upto_nul, find. pose proof (find_nul_spec d 0) as H.
  destruct (find_from VMDK_NUL d 0) as [j|]; [|symmetry; exact H].
  destruct H as [_ H]. rewrite ntake_btake. rewrite N.sub_0_r in H. exact H.
Qed.

Lemma cut0_prefix p s : is_prefix p s -> is_prefix (cut0 p) (cut0 s).
Proof.
  intros [t ->]. induction p as [|x p IH]; cbn [app cut0].
  - exists (cut0 t). reflexivity.
  - destruct (0 =? x); [exists []; reflexivity|]. destruct IH as [u Hu]. exists u. rewrite Hu. reflexivity.
Qed.

Lemma blen_cut0 d : blen (cut0 d) <= blen d.
Proof. induction d as [|x t IH]; cbn [cut0]; [lia|]. destruct (0 =? x); rewrite ?blen_cons, ?blen_nil; lia. Qed.

(* ---------------------------------------------------------------- "createtype= does not occur before the first NUL" *)
Definition noct (b : bytes) : Prop := occursb VMDK_CREATETYPE (lower_ascii (upto_nul b)) = false.

Lemma noct_prefix p b : is_prefix p b -> noct b -> noct p.
Proof.
  unfold noct. intros Hp. rewrite !upto_nul_cut0. apply occursb_prefix. unfold lower_ascii. apply map_prefix.
  apply cut0_prefix. exact Hp.
Qed.

Lemma noct_type d : noct d -> vmdk_type_of (lower_ascii (upto_nul d)) = VMDK_NOTFOUND.
Proof. unfold noct, vmdk_type_of. intros H. apply find_None in H. rewrite H. reflexivity. Qed.

Lemma blen_map (f : N -> N) s : blen (map f s) = blen s.
Proof. unfold blen. rewrite map_length. reflexivity. Qed.

(* a valid sparse header has a NUL at offset 5 at the latest: nothing to find before it *)
Lemma valid_noct b : valid_magic_ver b = true -> noct b.
Proof.
  unfold valid_magic_ver, noct. intros H. apply andb_true_iff in H. destruct H as [Hm Hv].
  apply occursb_short. unfold lower_ascii. rewrite blen_map, upto_nul_cut0.
  apply beq_eq in Hm.
  assert (Hc : blen (cut0 b) <= 5).
  { destruct b as [|a0 [|a1 [|a2 [|a3 r]]]]; try discriminate Hm.
    unfold btake in Hm. change (N.to_nat 4) with 4%nat in Hm. cbn [firstn] in Hm.
    change (bslice 4 4 (a0 :: a1 :: a2 :: a3 :: r)) with (btake 4 r) in Hv.
    unfold VMDK_MAGIC_PP in Hm. inversion Hm; subst. cbn [cut0 N.eqb].
    rewrite !blen_cons.
    assert (blen (cut0 r) <= 1); [|lia].
    unfold ver_ok, VMDK_VER_A, VMDK_VER_B, VMDK_VER_C in Hv.
    destruct r as [|v [|w r]]; cbn [cut0]; [rewrite blen_nil; lia | destruct (0 =? v); rewrite ?blen_cons, ?blen_nil; lia |].
    destruct (0 =? v) eqn:Hz; [rewrite blen_nil; lia|].
    assert (Hw : w = 0).
    { unfold btake in Hv. change (N.to_nat 4) with 4%nat in Hv.
      destruct r as [|y [|z r]]; cbn [firstn le_val] in Hv; lia. }
    subst w. cbn [N.eqb]. rewrite blen_cons, blen_nil. lia. }
  change (blen VMDK_CREATETYPE) with 12. lia.
Qed.

(* ---------------------------------------------------------------- tails *)
Lemma btail_last n b : btail n b = last_bytes n b.
Proof. reflexivity. Qed.
Lemma btail_app_ge n pre a : n <= blen a -> btail n (pre ++ a) = btail n a.
Proof.
  intros H. unfold btail. rewrite blen_app. rewrite bskip_app_ge by lia. f_equal. lia.
Qed.
