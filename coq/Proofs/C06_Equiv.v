(* Proofs/C06_Equiv.v — the statement-level translation of InspectWrapper / detect_file_format
   (Gen/C06_Code.v, regenerated from /repo on every run) equals the hand-written model
   (Model/Wrap.v).  Every lemma named *_equiv is a proof obligation of C06. *)
Require Import OV.Base.Bytes OV.Base.Py OV.Base.C06_WrapShape.
Require Import OV.Gen.C06_Wrapper OV.Gen.C06_Code OV.Model.Wrap OV.Model.C06_CodeLib.
Open Scope N_scope.

Section Equiv.
Variable I : Type.
Variable eat : I -> bytes -> I * option exn.
Variable finish : I -> I.
Variable complete : I -> bool.
Variable fmatch : I -> bool.

Definition exn_outcome {A} (r : option exn) : outcome A := match r with Some e => Raise e | None => Normal end.
Definition exn_res (r : option exn) : res unit := match r with Some e => Exn e | None => Ok tt end.

(* ---- _process_chunk: the for / try / except / else loop is [pc_loop] at the regenerated shape *)
Lemma gen_process_chunk_loop_equiv w chunk : forall l idx,
  gen_process_chunk_loop1 I eat complete fmatch w chunk l =
  let '(l', tr, r) := pc_loop I eat complete fmatch gen_shape (w_expected w) idx l chunk in (l', exn_outcome r).
Proof.
  assert (Hs1 : sh_skip_errored gen_shape = true) by reflexivity.
  assert (Hs2 : sh_reraise gen_shape = RrNameEq) by reflexivity.
  assert (Hs3 : sh_add_errored gen_shape = true) by reflexivity.
  induction l as [|x rest IH]; intros idx; [reflexivity|].
  cbn [gen_process_chunk_loop1 pc_loop]. rewrite Hs1. cbn [andb].
  assert (Hrec : forall (x' : slot I),
     (let '(rest__, o__) := gen_process_chunk_loop1 I eat complete fmatch w chunk rest in (x' :: rest__, o__)) =
     (let '(l', tr, r) := pc_loop I eat complete fmatch gen_shape (w_expected w) (S idx) rest chunk in (x' :: l', exn_outcome (A:=unit) r))).
  { intros x'. rewrite (IH (S idx)). destruct (pc_loop I eat complete fmatch gen_shape (w_expected w) (S idx) rest chunk) as [[l' tr] r]. reflexivity. }
  destruct (s_err x) eqn:Herr; cbn [negb].
  - rewrite Hrec. destruct (pc_loop I eat complete fmatch gen_shape (w_expected w) (S idx) rest chunk) as [[l' tr] r]. reflexivity.
  - destruct (eat (s_insp x) chunk) as [i' oe]. unfold slot_set_insp, slot_set_err. cbn [s_name s_insp s_err]. rewrite Herr.
    destruct oe as [e|].
    + rewrite Hs2, Hs3. cbn [eval_reraise].
      destruct (name_is (s_name x) (w_expected w)); [reflexivity|].
      destruct (negb (truthy_optstr (w_expected w)));
        rewrite Hrec; destruct (pc_loop I eat complete fmatch gen_shape (w_expected w) (S idx) rest chunk) as [[l' tr] r]; reflexivity.
    + (* the early-abort test: same truth table, whatever the order of the conjuncts *)
      destruct (name_is (s_name x) (w_expected w)), (complete i'), (fmatch i');
        match goal with |- context [eval_else ?l ?a ?b ?c] =>
          let v := eval vm_compute in (eval_else l a b c) in change (eval_else l a b c) with v end;
        cbn [andb orb negb]; try reflexivity;
        rewrite Hrec; destruct (pc_loop I eat complete fmatch gen_shape (w_expected w) (S idx) rest chunk) as [[l' tr] r]; reflexivity.
Qed.

Theorem gen_process_chunk_equiv w chunk :
  gen_process_chunk I eat complete fmatch w chunk =
  let '(w', tr, r) := process_chunk I eat complete fmatch gen_shape w chunk in (w', exn_res r).
Proof.
  unfold gen_process_chunk, process_chunk. rewrite (gen_process_chunk_loop_equiv w chunk (w_slots w) 0%nat).
  destruct (pc_loop I eat complete fmatch gen_shape (w_expected w) 0 (w_slots w) chunk) as [[l' tr] r].
  destruct r; reflexivity.
Qed.

(* ---- _finish *)
Lemma gen_finish_loop_equiv w : forall l, gen_finish_loop1 I finish w l = (map (finish_slot I finish) l, Normal).
Proof.
  induction l as [|x rest IH]; [reflexivity|]. cbn [gen_finish_loop1 map]. rewrite IH. reflexivity.
Qed.

Theorem gen_finish_equiv w : gen_finish I finish w = (finish_all I finish w, Ok tt).
Proof. unfold gen_finish. rewrite gen_finish_loop_equiv. reflexivity. Qed.

(* ---- formats / format *)
Lemma forallb_id_map {A} (f : A -> bool) l : forallb (fun b => b) (map f l) = forallb f l.
Proof. induction l as [|a l IH]; [reflexivity|]. cbn. now rewrite IH. Qed.

Theorem gen_formats_equiv w :
  gen_formats I complete fmatch w = Ok (formats I complete fmatch raw_lit_nonraw raw_lit_raw w).
Proof.
  unfold gen_formats, formats, all_complete, matches, non_raw, is_raw_nr, is_raw, raw_lit_nonraw, raw_lit_raw.
  cbv zeta. rewrite forallb_id_map.
  match goal with |- context [filter (fun v => negb (beq (s_name v) ?lit)) (w_slots w)] =>
    set (nr := filter (fun v => negb (beq (s_name v) lit)) (w_slots w)) end.
  set (ms := filter (fun v => fmatch (s_insp v)) nr).
  destruct (forallb (fun v => complete (s_insp v)) nr), (w_finished w); cbn [negb andb orb]; try reflexivity;
    destruct ms; reflexivity.
Qed.

Theorem gen_format_equiv w :
  gen_format I complete fmatch w = format I complete fmatch raw_lit_nonraw raw_lit_raw w.
Proof.
  unfold gen_format, format. rewrite gen_formats_equiv.
  destruct (formats I complete fmatch raw_lit_nonraw raw_lit_raw w) as [ms|]; [|reflexivity].
  destruct (1 <? length ms)%nat; [reflexivity|]. destruct ms; reflexivity.
Qed.

(* ---- read / __next__ over ANY source: its read()/next() may raise any exception, at any call.
   read lets every exception through untouched; __next__ finishes the inspectors on
   StopIteration ONLY - the lemma distinguishes the class that is caught. *)
Theorem gen_read_equiv (Src : Type) (src_read : Src -> Z -> Src * res bytes) w s size :
  gen_read I eat complete fmatch Src src_read w s size =
  let '(w', s', tr, inp, o) := w_read_on I eat finish complete fmatch gen_shape Src src_read w s size in (w', s', out_res o).
Proof.
  unfold gen_read, w_read_on. destruct (src_read s size) as [s1 r]. destruct r as [c|e]; cbn [src_input_read w_step].
  - rewrite gen_process_chunk_equiv. destruct (process_chunk I eat complete fmatch gen_shape w c) as [[w1 tr] r1].
    destruct r1; reflexivity.
  - reflexivity.
Qed.

Theorem gen_next_equiv (Src : Type) (src_next : Src -> Src * res bytes) w s :
  gen_next I eat finish complete fmatch Src src_next w s =
  let '(w', s', tr, inp, o) := w_next_on I eat finish complete fmatch gen_shape Src src_next w s in (w', s', out_res o).
Proof.
  unfold gen_next, w_next_on. destruct (src_next s) as [s1 r]. destruct r as [c|e].
  - cbn [src_input w_step]. rewrite gen_process_chunk_equiv.
    destruct (process_chunk I eat complete fmatch gen_shape w c) as [[w1 tr] r1]. destruct r1; reflexivity.
  - destruct e; cbn [src_input w_step]; rewrite ?gen_finish_equiv; reflexivity.
Qed.

(* the concrete sources of the theorems are instances *)
Lemma w_read_is_on w s size :
  w_read I eat finish complete fmatch gen_shape w s size = w_read_on I eat finish complete fmatch gen_shape fsrc f_read w s size.
Proof.
  unfold w_read, w_read_on. destruct (f_read s size) as [s1 r] eqn:Hr.
  assert (Hcase : (exists c, r = Ok c) \/ r = Exn ValueError).
  { unfold f_read in Hr. destruct (f_closed s); inversion Hr; eauto. }
  destruct Hcase as [(c & ->)| ->]; reflexivity.
Qed.

Lemma w_next_is_on w s :
  w_next I eat finish complete fmatch gen_shape w s = w_next_on I eat finish complete fmatch gen_shape isrc i_next w s.
Proof. reflexivity. Qed.

Theorem gen_read_file_equiv w s size :
  gen_read I eat complete fmatch fsrc f_read w s size =
  let '(w', s', tr, inp, o) := w_read I eat finish complete fmatch gen_shape w s size in (w', s', out_res o).
Proof. rewrite gen_read_equiv, w_read_is_on. reflexivity. Qed.

Theorem gen_next_iter_equiv w s :
  gen_next I eat finish complete fmatch isrc i_next w s =
  let '(w', s', tr, inp, o) := w_next I eat finish complete fmatch gen_shape w s in (w', s', out_res o).
Proof. rewrite gen_next_equiv, w_next_is_on. reflexivity. Qed.

Theorem gen_close_file_equiv w s :
  gen_close I finish fsrc (fun _ => true) f_close w s = (fst (w_close_f I finish w s), snd (w_close_f I finish w s), Ok tt).
Proof. unfold gen_close, w_close_f. cbn beta iota. rewrite gen_finish_equiv. reflexivity. Qed.

Theorem gen_close_iter_equiv w s :
  gen_close I finish isrc i_has_close i_close w s = (fst (w_close_i I finish w s), snd (w_close_i I finish w s), Ok tt).
Proof.
  unfold gen_close, w_close_i, i_close. destruct (i_has_close s); rewrite gen_finish_equiv; reflexivity.
Qed.

(* ---- __init__ *)
Theorem gen_init_equiv (Src : Type) (factory : list (str * I)) (source : Src) expected allowed :
  gen_init I Src factory source expected allowed = (mk_wrapper I factory expected (allowed_list allowed), source).
Proof.
  unfold gen_init, mk_wrapper, mk_slots. f_equal. f_equal.
  assert (Hk : forall k, (negb (truthy_optlist allowed) || opt_memb k allowed) = allowed_key (allowed_list allowed) k).
  { intros k. destruct allowed as [[|a l]|]; reflexivity. }
  induction factory as [|[k v] l IH]; [reflexivity|]. cbn [filter map fst snd]. rewrite Hk.
  destruct (allowed_key (allowed_list allowed) k); cbn [map]; now rewrite IH.
Qed.

(* ---- detect_file_format with _chunked_reader inlined; the file is a file-like source *)
Definition open_file (data : bytes) : fsrc := {| f_data := data; f_pos := 0; f_closed := false |}.
Definition name_res (r : res (option (slot I))) : res (option str) :=
  match r with Ok (Some m) => Ok (Some (s_name m)) | Ok None => Ok None | Exn e => Exn e end.
Definition loop_result (o : outcome (option (slot I))) : option (res (option str)) :=
  match o with Return r => Some (name_res (Ok r)) | Raise e => Some (Exn e) | _ => None end.

Lemma gen_detect_loop_equiv : forall fuel w s,
  (let '(w', s', o) := gen_detect_loop1 I eat complete fmatch fsrc f_read fuel w s in (w', s', loop_result o)) =
  (let '(w', s', tr, r) := detect_loop I eat finish complete fmatch gen_shape raw_lit_nonraw raw_lit_raw fuel detect_chunk_size w s in (w', s', r)).
Proof.
  induction fuel as [|k IH]; intros w s; [reflexivity|].
  cbn [gen_detect_loop1 detect_loop]. change (4096%Z) with detect_chunk_size. rewrite gen_read_file_equiv.
  destruct (w_read I eat finish complete fmatch gen_shape w s detect_chunk_size) as [[[[w1 s1] tr1] inp] o].
  destruct o as [c|e|]; cbn [out_res]; [|reflexivity|reflexivity].
  destruct c as [|x t]; [reflexivity|]. cbn [is_nil negb]. rewrite gen_format_equiv. unfold format_name.
  destruct (format I complete fmatch raw_lit_nonraw raw_lit_raw w1) as [[m|]|e]; cbn [is_some]; try reflexivity.
  pose proof (IH w1 s1) as Hk.
  destruct (gen_detect_loop1 I eat complete fmatch fsrc f_read k w1 s1) as [[w2 s2] o2].
  destruct (detect_loop I eat finish complete fmatch gen_shape raw_lit_nonraw raw_lit_raw k detect_chunk_size w1 s1) as [[[w2' s2'] tr2] r2].
  inversion Hk; subst. destruct o2; reflexivity.
Qed.

(* the while loop ends by falling through, returning or raising: break / continue do not leave it *)
Lemma gen_detect_loop_no_break : forall fuel w s,
  let '(_, _, o) := gen_detect_loop1 I eat complete fmatch fsrc f_read fuel w s in o <> Break /\ o <> Continue.
Proof.
  induction fuel as [|k IH]; intros w s; [cbn; split; discriminate|].
  cbn [gen_detect_loop1].
  repeat (match goal with
          | |- context [gen_read ?a ?b ?c ?d ?e ?f ?g ?h ?i] => destruct (gen_read a b c d e f g h i) as [[? ?] [[|? ?]|?]]
          | |- context [gen_format ?a ?b ?c ?d] => destruct (gen_format a b c d) as [[?|]|?]
          end; cbn [is_nil negb is_some]);
    try apply IH; try (split; discriminate).
Qed.

Theorem gen_detect_file_format_equiv (factory : list (str * I)) data :
  (let '(w, s, r) := gen_detect_file_format I eat finish complete fmatch fsrc f_read (fun _ => true) f_close open_file factory
                       (S (length data)) data in (w, s, name_res r)) =
  (let '(w, s, tr, r) := detect_file_format I eat finish complete fmatch gen_shape raw_lit_nonraw raw_lit_raw
                           detect_chunk_size factory data in (w, s, r)).
Proof.
  unfold gen_detect_file_format, detect_file_format. rewrite gen_init_equiv. cbn [allowed_list]. fold (open_file data).
  pose proof (gen_detect_loop_equiv (S (length data)) (mk_wrapper I factory None []) (open_file data)) as Hl.
  pose proof (gen_detect_loop_no_break (S (length data)) (mk_wrapper I factory None []) (open_file data)) as Hnb.
  destruct (gen_detect_loop1 I eat complete fmatch fsrc f_read (S (length data)) (mk_wrapper I factory None []) (open_file data)) as [[w1 s1] o1].
  destruct (detect_loop I eat finish complete fmatch gen_shape raw_lit_nonraw raw_lit_raw (S (length data)) detect_chunk_size
              (mk_wrapper I factory None []) (open_file data)) as [[[w1' s1'] tr] r1].
  inversion Hl; subst; clear Hl.
  destruct Hnb as (Hnb1 & Hnb2).
  destruct o1 as [|r|e| |]; try congruence; cbv beta iota zeta; rewrite gen_close_file_equiv; unfold w_close_f; cbn [fst snd loop_result name_res call_res];
    try reflexivity;
    try (rewrite gen_format_equiv; unfold format_name;
         destruct (format I complete fmatch raw_lit_nonraw raw_lit_raw (finish_all I finish w1')) as [[m|]|e']; reflexivity).
  all: try (match goal with x : option (slot I) |- _ => destruct x; reflexivity end).
Qed.

End Equiv.
