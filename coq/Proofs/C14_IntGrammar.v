(* Proofs/C14_IntGrammar.v — int(s) (base 10) accepts EXACTLY the declarative literal grammar

     whitespace*  [+-]?  digits ( _ digits )*  whitespace*

   over Unicode: whitespace as int() sees it (Base.PyInt.int_space: str.isspace minus
   U+001C..U+001F), digits = ASCII digits or non-ASCII decimal digits of the generated
   table, at most [lim] digits when the limit is on; the value is the base-10 value of the
   digits with the sign.  Both directions, all strings. *)
From Coq Require Import String.
Require Import OV.Base.Bytes OV.Base.Py OV.Base.PyInt OV.Base.Str OV.Gen.Unicode OV.Model.C14_Py.
Require Import OV.Proofs.C14_Str OV.Proofs.C14_Int.
Open Scope N_scope.

(* ---------------------------------------------------------------- the declarative grammar *)
(* a decimal digit and its value *)
Definition udigit (c : N) : option N :=
  if c <? 127 then (if ascii_digit c then Some (c - 48) else None)
  else if is_space c then None else digit_val c.
Definition is_udigit (c : N) : bool := match udigit c with Some _ => true | None => false end.
Fixpoint uval (s : str) (acc : N) : N :=
  match s with [] => acc | c :: t => uval t (acc * 10 + match udigit c with Some d => d | None => 0 end) end.
Definition ugroup (g : str) : bool := match g with [] => false | _ => forallb is_udigit g end.
Definition ugroups (ds : list str) : bool := match ds with [] => false | _ => forallb ugroup ds end.

Definition int_literal (lim : N) (s : str) (z : Z) : Prop :=
  exists pre sg ds post,
    s = pre ++ sign_text sg ++ join [95] ds ++ post /\
    forallb int_space pre = true /\ forallb int_space post = true /\
    ugroups ds = true /\
    over_limit lim (blen (concat ds)) = false /\
    z = signed sg (uval (concat ds) 0).

(* ---------------------------------------------------------------- the ASCII level, reject direction *)
Definition stops (rest : str) : Prop :=
  match rest with [] => True | c :: _ => c <> 95 /\ digit_of 10 c = None end.

Lemma digit_of_10_inv c d : digit_of 10 c = Some d -> ascii_digit c = true /\ d = c - 48.
Proof.
  unfold digit_of, ascii_digit. destruct ((48 <=? c) && (c <=? 57)) eqn:E1.
  - destruct (c - 48 <? 10); [|discriminate]. intros H. injection H as <-. split; reflexivity.
  - destruct ((97 <=? c) && (c <=? 122)) eqn:E2.
    + replace (c - 87 <? 10) with false by lia. discriminate.
    + destruct ((65 <=? c) && (c <=? 90)) eqn:E3.
      * replace (c - 55 <? 10) with false by lia. discriminate.
      * discriminate.
Qed.

Lemma join_cons_all (g : str) tl : join [95] (g :: tl) = g ++ concat (map (cons 95) tl).
Proof.
  revert g. induction tl as [|g2 t IH]; intros g.
  - cbn [join map concat]. rewrite app_nil_r. reflexivity.
  - rewrite join_cons, IH. cbn [map concat app]. reflexivity.
Qed.

(* what a successful digit scan has read *)
Lemma scan_inv s : forall acc nd b v nd' rest,
  scan 10 s acc nd b = Some (v, nd', rest) ->
  exists g tl, all_ascii_digits g = true /\ forallb digit_group tl = true /\
    s = g ++ concat (map (cons 95) tl) ++ rest /\ (b = true -> g <> []) /\
    v = dval (g ++ concat tl) acc /\ nd' = nd + blen (g ++ concat tl) /\ stops rest.
Proof.
  induction s as [|c t IH]; intros acc nd b v nd' rest H.
  - cbn [scan] in H. destruct b; [discriminate|]. injection H as <- <- <-.
    exists [], []. cbn. repeat split; try reflexivity; try discriminate. lia.
  - cbn [scan] in H. destruct (c =? 95) eqn:E95.
    + apply N.eqb_eq in E95. subst c. destruct b; [discriminate|].
      destruct (IH _ _ _ _ _ _ H) as (g & tl & Hg & Htl & Hs & Hne & Hv & Hn & Hst).
      specialize (Hne eq_refl).
      exists [], (g :: tl). split; [reflexivity|]. split.
      { cbn [forallb]. rewrite Htl, andb_true_r. destruct g; [congruence|exact Hg]. }
      split; [cbn [map concat app]; rewrite Hs, <- app_assoc; reflexivity|].
      split; [discriminate|]. cbn [app concat]. repeat split; assumption.
    + destruct (digit_of 10 c) as [d|] eqn:Ed.
      * destruct (digit_of_10_inv c d Ed) as [Hc ->].
        destruct (IH _ _ _ _ _ _ H) as (g & tl & Hg & Htl & Hs & _ & Hv & Hn & Hst).
        exists (c :: g), tl. split; [unfold all_ascii_digits in *; cbn [forallb]; rewrite Hc, Hg; reflexivity|].
        split; [exact Htl|]. split; [cbn [app]; rewrite Hs; reflexivity|]. split; [discriminate|].
        cbn [app dval]. rewrite blen_cons. repeat split; [exact Hv|lia|exact Hst].
      * destruct b; [discriminate|]. injection H as <- <- <-.
        exists [], []. cbn [app map concat]. split; [reflexivity|]. split; [reflexivity|]. split; [reflexivity|].
        split; [discriminate|]. split; [reflexivity|]. split; [rewrite blen_nil; lia|].
        cbn [stops]. split; [apply N.eqb_neq, E95|exact Ed].
Qed.

Lemma lstrip_c_split s : exists pre, s = pre ++ lstrip_c s /\ forallb c_isspace pre = true /\
  match lstrip_c s with [] => True | c :: _ => c_isspace c = false end.
Proof.
  induction s as [|c t IH]; [exists []; repeat split|].
  cbn [lstrip_c]. destruct (c_isspace c) eqn:Hc.
  - destruct IH as (pre & H1 & H2 & H3). exists (c :: pre). cbn [app forallb]. rewrite Hc, H2.
    repeat split; [f_equal; exact H1|exact H3].
  - exists []. repeat split. exact Hc.
Qed.

(* ASCII text: int_ascii succeeds exactly on the ASCII literal grammar *)
Definition ascii_literal (lim : N) (a : str) (z : Z) : Prop :=
  exists pre sg ds post,
    a = pre ++ sign_text sg ++ join [95] ds ++ post /\
    forallb c_isspace pre = true /\ forallb c_isspace post = true /\ digit_groups ds = true /\
    over_limit lim (blen (concat ds)) = false /\ z = signed sg (dval (concat ds) 0).

Lemma int_ascii_inv lim a z : int_ascii lim 10 a = Some z -> ascii_literal lim a z.
Proof.
  unfold int_ascii. destruct (lstrip_c_split a) as (pre & Ha & Hpre & _).
  destruct (split_sign (lstrip_c a)) as [neg s2] eqn:Es. rewrite skip_prefix_10.
  destruct (starts_with_underscore s2) eqn:Eu; [discriminate|].
  destruct (scan 10 s2 0 0 false) as [[[v nd] rest]|] eqn:Esc; [|discriminate].
  destruct (nd =? 0) eqn:End; [discriminate|].
  destruct (forallb c_isspace rest) eqn:Erest; [|discriminate]. cbn [negb].
  change (10 =? 10) with true. cbn [andb]. destruct (over_limit lim nd) eqn:Elim; [discriminate|].
  intros H. injection H as <-.
  destruct (scan_inv _ _ _ _ _ _ _ Esc) as (g & tl & Hg & Htl & Hs & _ & Hv & Hn & _).
  assert (Hgne : g <> []).
  { intros ->. destruct tl as [|g2 tl'].
    - cbn [app concat] in Hn. rewrite blen_nil in Hn. apply N.eqb_neq in End. lia.
    - rewrite Hs in Eu. cbn in Eu. discriminate. }
  assert (Hds : digit_groups (g :: tl) = true).
  { cbn [digit_groups forallb]. rewrite Htl, andb_true_r. destruct g; [congruence|exact Hg]. }
  assert (Hbody : s2 = join [95] (g :: tl) ++ rest) by (rewrite join_cons_all, <- app_assoc; exact Hs).
  (* the sign *)
  assert (Hsign : exists sg, lstrip_c a = sign_text sg ++ s2 /\ neg = match sg with Some true => true | _ => false end).
  { unfold split_sign in Es. destruct (lstrip_c a) as [|c t].
    - injection Es as <- <-. exists None. split; reflexivity.
    - destruct (c =? 43) eqn:E1; [apply N.eqb_eq in E1; subst; injection Es as <- <-; exists (Some false); split; reflexivity|].
      destruct (c =? 45) eqn:E2; [apply N.eqb_eq in E2; subst; injection Es as <- <-; exists (Some true); split; reflexivity|].
      injection Es as <- <-. exists None. split; reflexivity. }
  destruct Hsign as (sg & Hl & Hneg).
  exists pre, sg, (g :: tl), rest. split; [rewrite Ha at 1; rewrite Hl, Hbody; reflexivity|].
  split; [exact Hpre|]. split; [exact Erest|]. split; [exact Hds|].
  change (concat (g :: tl)) with (g ++ concat tl). rewrite N.add_0_l in Hn. rewrite <- Hn. split; [exact Elim|].
  subst neg. unfold signed. rewrite <- Hv. destruct sg as [[|]|]; reflexivity.
Qed.

Lemma ascii_lt_127 pre sg ds post : forallb c_isspace pre = true -> forallb c_isspace post = true ->
  digit_groups ds = true -> Forall (fun c => c < 127) (pre ++ sign_text sg ++ join [95] ds ++ post).
Proof.
  intros Hpre Hpost Hds. apply Forall_app. split; [apply isspace_lt_127, Hpre|]. apply Forall_app. split.
  - destruct sg as [[|]|]; repeat constructor; lia.
  - apply Forall_app. split; [apply groups_lt_127, Hds|apply isspace_lt_127, Hpost].
Qed.

Lemma int_ascii_iff lim a z : int_ascii lim 10 a = Some z <-> ascii_literal lim a z.
Proof.
  split; [apply int_ascii_inv|].
  intros (pre & sg & ds & post & -> & Hpre & Hpost & Hds & Hlim & ->).
  pose proof (int_literal_ascii lim pre sg ds post Hpre Hpost Hds Hlim) as H.
  unfold int_parse in H. rewrite transform_ascii in H by (apply ascii_lt_127; assumption). exact H.
Qed.

(* ---------------------------------------------------------------- through the transformation *)
Definition trel (c x : N) : Prop := tr_char c = Some x.

Lemma transform_Forall2 s a : transform s = Some a <-> Forall2 trel s a.
Proof.
  revert a. induction s as [|c t IH]; intros a.
  - cbn [transform]. split; [intros H; injection H as <-; constructor|intros H; inversion H; reflexivity].
  - cbn [transform]. split.
    + destruct (tr_char c) as [x|] eqn:Ec; [|discriminate]. destruct (transform t) as [r|] eqn:Et; [|discriminate].
      intros H. injection H as <-. constructor; [exact Ec|apply IH; reflexivity].
    + intros H. inversion H as [|c' x t' r Hc Ht]; subst. unfold trel in Hc. rewrite Hc.
      apply IH in Ht. rewrite Ht. reflexivity.
Qed.

(* ASCII whitespace of int() on the generated table: str.isspace below 127 is 9..13, 28..32 *)
Lemma int_space_ascii_table :
  forallb (fun c => Bool.eqb (int_space c) (c_isspace c)) ascii_range = true.
Proof. vm_compute. reflexivity. Qed.

Lemma int_space_spec c : int_space c = if c <? 127 then c_isspace c else is_space c.
Proof.
  destruct (c <? 127) eqn:E.
  - pose proof int_space_ascii_table as T. rewrite forallb_forall in T.
    assert (Hc : c < 128) by lia. specialize (T c (in_ascii_range c Hc)). apply Bool.eqb_prop in T. exact T.
  - unfold int_space. replace ((28 <=? c) && (c <=? 31)) with false by lia. cbn [negb]. apply andb_true_r.
Qed.

Lemma digit_in_bound c starts d : digit_in c starts = Some d -> d < 10.
Proof.
  induction starts as [|s t IH]; [discriminate|]. cbn [digit_in].
  destruct ((s <=? c) && (c <? s + 10)) eqn:E; [intros H; injection H as <-; lia|exact IH].
Qed.

(* characters that int() turns into whitespace / into the ASCII digit 48+d / keeps *)
Lemma tr_space c x : tr_char c = Some x -> c_isspace x = true -> int_space c = true.
Proof.
  rewrite int_space_spec. unfold tr_char. destruct (c <? 127); [intros H; injection H as <-; auto|].
  destruct (is_space c); [reflexivity|]. destruct (digit_val c) as [d|] eqn:Ed; [|discriminate].
  intros H. assert (Hx0 : x = 48 + d) by congruence. subst x. clear H. apply digit_in_bound in Ed.
  intros Hx. exfalso. unfold c_isspace in Hx. lia.
Qed.

Lemma space_tr c : int_space c = true -> exists x, tr_char c = Some x /\ c_isspace x = true.
Proof.
  rewrite int_space_spec. unfold tr_char. destruct (c <? 127); [intros H; exists c; auto|].
  intros ->. exists 32. split; reflexivity.
Qed.

Lemma tr_digit c x : tr_char c = Some x -> ascii_digit x = true -> udigit c = Some (x - 48).
Proof.
  unfold tr_char, udigit. destruct (c <? 127); [intros H; injection H as <-; intros ->; reflexivity|].
  destruct (is_space c); [intros H; injection H as <-; discriminate|].
  destruct (digit_val c) as [d|]; [|discriminate]. intros H. assert (Hx0 : x = 48 + d) by congruence. subst x.
  intros _. f_equal. lia.
Qed.

Lemma digit_tr c d : udigit c = Some d -> tr_char c = Some (48 + d) /\ ascii_digit (48 + d) = true.
Proof.
  unfold tr_char, udigit. destruct (c <? 127).
  - destruct (ascii_digit c) eqn:E; [|discriminate]. intros H. injection H as <-.
    unfold ascii_digit in *. replace (48 + (c - 48)) with c by lia. auto.
  - destruct (is_space c); [discriminate|]. unfold digit_val. intros H. rewrite H.
    apply digit_in_bound in H. unfold ascii_digit. split; [reflexivity|lia].
Qed.

Lemma tr_keeps c x : tr_char c = Some x -> x = 43 \/ x = 45 \/ x = 95 -> c = x.
Proof.
  unfold tr_char. destruct (c <? 127); [intros H; injection H; auto|].
  destruct (is_space c); [intros H; injection H as <-; lia|].
  destruct (digit_val c) as [d|] eqn:Ed; [|discriminate]. intros H. assert (Hx0 : x = 48 + d) by congruence.
  apply digit_in_bound in Ed. lia.
Qed.

Lemma keeps_tr x : x = 43 \/ x = 45 \/ x = 95 -> tr_char x = Some x.
Proof. intros H. unfold tr_char. replace (x <? 127) with true by lia. reflexivity. Qed.

(* pieces *)
Lemma F2_space s a : Forall2 trel s a -> forallb c_isspace a = true -> forallb int_space s = true.
Proof.
  induction 1 as [|c x s a Hc Ht IH]; [reflexivity|]. cbn [forallb]. intros H. apply andb_true_iff in H.
  destruct H as [Hx Ha]. rewrite (tr_space c x Hc Hx), (IH Ha). reflexivity.
Qed.

Lemma space_F2 s : forallb int_space s = true -> exists a, Forall2 trel s a /\ forallb c_isspace a = true.
Proof.
  induction s as [|c t IH]; [exists []; split; [constructor|reflexivity]|].
  cbn [forallb]. intros H. apply andb_true_iff in H. destruct H as [Hc Ht].
  destruct (space_tr c Hc) as (x & Hx1 & Hx2). destruct (IH Ht) as (a & Ha1 & Ha2).
  exists (x :: a). split; [constructor; assumption|]. cbn [forallb]. rewrite Hx2, Ha2. reflexivity.
Qed.

Lemma F2_sign s sg : Forall2 trel s (sign_text sg) -> s = sign_text sg.
Proof.
  destruct sg as [[|]|]; cbn [sign_text]; intros H; inversion H as [|c x t r Hc Ht]; subst; try reflexivity;
    inversion Ht; subst; f_equal; apply (tr_keeps _ _ Hc); auto.
Qed.

Lemma sign_F2 sg : Forall2 trel (sign_text sg) (sign_text sg).
Proof. destruct sg as [[|]|]; cbn [sign_text]; repeat constructor; apply keeps_tr; auto. Qed.

(* a group of digits *)
Lemma F2_digits g g' : Forall2 trel g g' -> all_ascii_digits g' = true ->
  forallb is_udigit g = true /\ forall acc, uval g acc = dval g' acc.
Proof.
  induction 1 as [|c x g g' Hc Ht IH]; [split; reflexivity|]. unfold all_ascii_digits. cbn [forallb].
  intros H. apply andb_true_iff in H. destruct H as [Hx Hg]. destruct (IH Hg) as [I1 I2].
  pose proof (tr_digit c x Hc Hx) as Hd. split.
  - unfold is_udigit at 1. rewrite Hd, I1. reflexivity.
  - intros acc. cbn [uval dval]. rewrite Hd. apply I2.
Qed.

Lemma digits_F2 g : forallb is_udigit g = true ->
  exists g', Forall2 trel g g' /\ all_ascii_digits g' = true /\ forall acc, uval g acc = dval g' acc.
Proof.
  induction g as [|c t IH]; [exists []; repeat split; constructor|].
  cbn [forallb]. intros H. apply andb_true_iff in H. destruct H as [Hc Ht].
  unfold is_udigit in Hc. destruct (udigit c) as [d|] eqn:Ed; [|discriminate].
  destruct (digit_tr c d Ed) as [T1 T2]. destruct (IH Ht) as (g' & G1 & G2 & G3).
  exists ((48 + d) :: g'). split; [constructor; assumption|]. split.
  - unfold all_ascii_digits in *. cbn [forallb]. rewrite T2, G2. reflexivity.
  - intros acc. cbn [uval dval]. rewrite Ed. replace (48 + d - 48) with d by lia. apply G3.
Qed.

Lemma Forall2_length' {A B} (R : A -> B -> Prop) l l' : Forall2 R l l' -> length l = length l'.
Proof. induction 1; cbn; congruence. Qed.

(* the body: groups joined by underscores *)
Lemma F2_body ds' : forall body, digit_groups ds' = true -> Forall2 trel body (join [95] ds') ->
  exists ds, body = join [95] ds /\ ugroups ds = true /\
    (forall acc, uval (concat ds) acc = dval (concat ds') acc) /\ blen (concat ds) = blen (concat ds').
Proof.
  destruct ds' as [|g' tl']; [discriminate|]. cbn [digit_groups]. revert g'.
  induction tl' as [|g2' t' IH]; intros g' body Hds HF; cbn [forallb] in Hds; apply andb_true_iff in Hds; destruct Hds as [Hg Hr].
  - cbn [join] in HF. destruct g' as [|c0 g0]; [discriminate|]. cbn [digit_group] in Hg.
    destruct (F2_digits _ _ HF Hg) as [D1 D2].
    exists [body]. cbn [join concat]. rewrite !app_nil_r. split; [reflexivity|]. split.
    + cbn [ugroups forallb ugroup]. rewrite andb_true_r. destruct body; [inversion HF|exact D1].
    + split; [exact D2|]. unfold blen. rewrite (Forall2_length' _ _ _ HF). reflexivity.
  - rewrite join_cons in HF. apply Forall2_app_inv_r in HF. destruct HF as (b1 & brest & F1 & F2 & ->).
    apply Forall2_app_inv_r in F2. destruct F2 as (bu & b2 & Fu & F2 & ->).
    destruct g' as [|c0 g0]; [discriminate|]. cbn [digit_group] in Hg.
    destruct (F2_digits _ _ F1 Hg) as [D1 D2].
    assert (bu = [95]).
    { inversion Fu as [|c x t r Hc Ht]; subst. inversion Ht; subst. f_equal. apply (tr_keeps _ _ Hc). auto. }
    subst bu.
    destruct (IH g2' b2 Hr F2) as (ds2 & -> & U2 & V2 & L2).
    exists (b1 :: ds2). split.
    { destruct ds2 as [|h t2]; [discriminate|]. rewrite join_cons. reflexivity. }
    split.
    { destruct ds2 as [|h t2]; [discriminate|]. cbn [ugroups forallb] in *. rewrite U2, andb_true_r.
      cbn [ugroup]. destruct b1; [inversion F1|exact D1]. }
    split.
    + intros acc. change (concat (b1 :: ds2)) with (b1 ++ concat ds2).
      change (concat ((c0 :: g0) :: g2' :: t')) with ((c0 :: g0) ++ concat (g2' :: t')).
      rewrite dval_app. rewrite <- D2, <- V2. clear. revert acc. induction b1 as [|c b IHb]; intros acc; [reflexivity|].
      cbn [app uval]. apply IHb.
    + change (concat (b1 :: ds2)) with (b1 ++ concat ds2).
      change (concat ((c0 :: g0) :: g2' :: t')) with ((c0 :: g0) ++ concat (g2' :: t')).
      rewrite !blen_app, L2. f_equal. unfold blen. rewrite (Forall2_length' _ _ _ F1). reflexivity.
Qed.

Lemma uval_app a b acc : uval (a ++ b) acc = uval b (uval a acc).
Proof. revert acc. induction a as [|c a IH]; intros acc; cbn [app uval]; auto. Qed.

Lemma body_F2 ds : ugroups ds = true ->
  exists ds', Forall2 trel (join [95] ds) (join [95] ds') /\ digit_groups ds' = true /\
    (forall acc, uval (concat ds) acc = dval (concat ds') acc) /\ blen (concat ds) = blen (concat ds').
Proof.
  destruct ds as [|g tl]; [discriminate|]. cbn [ugroups]. revert g.
  induction tl as [|g2 t IH]; intros g H; cbn [forallb] in H; apply andb_true_iff in H; destruct H as [Hg Hr].
  - destruct g as [|c0 g0]; [discriminate|]. cbn [ugroup] in Hg.
    destruct (digits_F2 _ Hg) as (g' & G1 & G2 & G3).
    exists [g']. cbn [join concat]. rewrite !app_nil_r. split; [exact G1|]. split.
    + cbn [digit_groups forallb digit_group]. rewrite andb_true_r. destruct g'; [inversion G1|exact G2].
    + split; [exact G3|]. unfold blen. rewrite (Forall2_length' _ _ _ G1). reflexivity.
  - destruct g as [|c0 g0]; [discriminate|]. cbn [ugroup] in Hg.
    destruct (digits_F2 _ Hg) as (g' & G1 & G2 & G3).
    destruct (IH g2 Hr) as (ds2' & F2 & D2 & V2 & L2).
    exists (g' :: ds2'). destruct ds2' as [|h' t2']; [discriminate|]. split.
    { rewrite !join_cons. apply Forall2_app; [exact G1|]. apply Forall2_app; [repeat constructor; apply keeps_tr; auto|exact F2]. }
    split.
    { cbn [digit_groups forallb] in *. rewrite D2, andb_true_r. cbn [digit_group]. destruct g'; [inversion G1|exact G2]. }
    split.
    + intros acc. change (concat ((c0 :: g0) :: g2 :: t)) with ((c0 :: g0) ++ concat (g2 :: t)).
      change (concat (g' :: h' :: t2')) with (g' ++ concat (h' :: t2')).
      rewrite uval_app, dval_app, G3. apply V2.
    + change (concat ((c0 :: g0) :: g2 :: t)) with ((c0 :: g0) ++ concat (g2 :: t)).
      change (concat (g' :: h' :: t2')) with (g' ++ concat (h' :: t2')).
      rewrite !blen_app, L2. f_equal. unfold blen. rewrite (Forall2_length' _ _ _ G1). reflexivity.
Qed.

(* ---------------------------------------------------------------- the theorem *)
Theorem int_parse_iff_literal lim s z : int_parse lim 10 s = Some z <-> int_literal lim s z.
Proof.
  unfold int_parse. split.
  - destruct (transform s) as [a|] eqn:Et; [|discriminate]. intros H.
    apply transform_Forall2 in Et. apply int_ascii_iff in H.
    destruct H as (pre' & sg & ds' & post' & -> & Hpre & Hpost & Hds & Hlim & ->).
    apply Forall2_app_inv_r in Et. destruct Et as (pre & r1 & Fpre & F1 & ->).
    apply Forall2_app_inv_r in F1. destruct F1 as (sgs & r2 & Fsg & F2 & ->).
    apply Forall2_app_inv_r in F2. destruct F2 as (body & post & Fb & Fpost & ->).
    apply F2_sign in Fsg. subst sgs.
    destruct (F2_body ds' body Hds Fb) as (ds & -> & Hu & Hv & Hl).
    exists pre, sg, ds, post. split; [reflexivity|].
    split; [apply (F2_space _ _ Fpre Hpre)|]. split; [apply (F2_space _ _ Fpost Hpost)|].
    split; [exact Hu|]. split; [rewrite Hl; exact Hlim|]. rewrite Hv. reflexivity.
  - intros (pre & sg & ds & post & -> & Hpre & Hpost & Hu & Hlim & ->).
    destruct (space_F2 pre Hpre) as (pre' & Fpre & Hpre').
    destruct (space_F2 post Hpost) as (post' & Fpost & Hpost').
    destruct (body_F2 ds Hu) as (ds' & Fb & Hds & Hv & Hl).
    assert (Et : transform (pre ++ sign_text sg ++ join [95] ds ++ post) = Some (pre' ++ sign_text sg ++ join [95] ds' ++ post')).
    { apply transform_Forall2. repeat apply Forall2_app; try assumption. apply sign_F2. }
    rewrite Et. apply int_ascii_iff. exists pre', sg, ds', post'. split; [reflexivity|].
    split; [exact Hpre'|]. split; [exact Hpost'|]. split; [exact Hds|]. split; [rewrite <- Hl; exact Hlim|].
    rewrite Hv. reflexivity.
Qed.

(* hence: everything int() rejects is outside the grammar *)
Corollary int_parse_none_iff lim s : int_parse lim 10 s = None <-> forall z, ~ int_literal lim s z.
Proof.
  split.
  - intros H z Hz. apply int_parse_iff_literal in Hz. congruence.
  - intros H. destruct (int_parse lim 10 s) as [z|] eqn:E; [|reflexivity].
    exfalso. apply (H z). apply int_parse_iff_literal. exact E.
Qed.

Example int_literal_instance :
  int_literal 4300 ([160; 9] ++ sign_text (Some true) ++ join [95] [[1633; 50]; [65299]] ++ [12288]) (-123)%Z.
Proof.
  exists [160; 9], (Some true), [[1633; 50]; [65299]], [12288]. repeat split; vm_compute; reflexivity.
Qed.
