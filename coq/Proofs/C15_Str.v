(* Proofs/C15_Str.v — facts about split/count/in on character lists used by the
   parse_host_port and urlsplit proofs. *)
Require Import OV.Base.Bytes OV.Base.Py OV.Base.PyInt OV.Base.Str OV.Base.C15_PyVal.
Require Import OV.Model.C15.
Open Scope N_scope.

Lemma has_char_cons c x t : has_char c (x :: t) = (x =? c) || has_char c t.
Proof. reflexivity. Qed.

Lemma has_char_app c a b : has_char c (a ++ b) = has_char c a || has_char c b.
Proof.
  unfold has_char. induction a as [|x a IH]; [reflexivity|].
  cbn [app memN]. rewrite IH. apply orb_assoc.
Qed.

Lemma count_char_app c a b : (count_char c (a ++ b) = count_char c a + count_char c b)%Z.
Proof. induction a as [|x a IH]; cbn [app count_char]; [reflexivity|]. rewrite IH. lia. Qed.

Lemma count_char_nonneg c s : (0 <= count_char c s)%Z.
Proof. induction s as [|x s IH]; cbn [count_char]; [lia|]. destruct (x =? c); lia. Qed.

Lemma count_char_0 c s : has_char c s = false <-> count_char c s = 0%Z.
Proof.
  induction s as [|x s IH]; [cbn; tauto|].
  rewrite has_char_cons. cbn [count_char]. pose proof (count_char_nonneg c s).
  destruct (x =? c); cbn [orb]; [split; [discriminate|lia]|].
  rewrite IH. split; lia.
Qed.

Lemma count_char_pos c s : has_char c s = true -> (1 <= count_char c s)%Z.
Proof.
  intros H. pose proof (count_char_nonneg c s).
  destruct (Z.eq_dec (count_char c s) 0) as [E|E]; [|lia].
  apply count_char_0 in E. congruence.
Qed.

(* ---- split_char ---- *)

Lemma split_aux_none c s cur : has_char c s = false -> split_char_aux c s cur = [rev cur ++ s].
Proof.
  revert cur. induction s as [|x s IH]; intros cur H; cbn [split_char_aux].
  - rewrite app_nil_r. reflexivity.
  - rewrite has_char_cons in H. apply orb_false_iff in H. destruct H as [Hx Hs].
    rewrite Hx, (IH _ Hs). cbn [rev]. rewrite <- app_assoc. reflexivity.
Qed.

Lemma split_aux_app c a b cur : has_char c a = false ->
  split_char_aux c (a ++ c :: b) cur = (rev cur ++ a) :: split_char_aux c b [].
Proof.
  revert cur. induction a as [|x a IH]; intros cur H; cbn [app split_char_aux].
  - rewrite N.eqb_refl, app_nil_r. reflexivity.
  - rewrite has_char_cons in H. apply orb_false_iff in H. destruct H as [Hx Ha].
    rewrite Hx, (IH _ Ha). cbn [rev]. rewrite <- app_assoc. reflexivity.
Qed.

Lemma split_char_none c s : has_char c s = false -> split_char c s = [s].
Proof. intros H. unfold split_char. rewrite split_aux_none by exact H. reflexivity. Qed.

Lemma split_char_app c a b : has_char c a = false -> split_char c (a ++ c :: b) = a :: split_char c b.
Proof. intros H. unfold split_char. rewrite split_aux_app by exact H. reflexivity. Qed.

Lemma split_char_two c a b : has_char c a = false -> has_char c b = false ->
  split_char c (a ++ c :: b) = [a; b].
Proof. intros Ha Hb. rewrite split_char_app, split_char_none by assumption. reflexivity. Qed.

(* number of fields = number of separators + 1 *)
Lemma split_aux_length c s cur :
  Z.of_nat (length (split_char_aux c s cur)) = (1 + count_char c s)%Z.
Proof.
  revert cur. induction s as [|x s IH]; intros cur; cbn [split_char_aux count_char]; [reflexivity|].
  destruct (x =? c).
  - cbn [length]. rewrite Nat2Z.inj_succ, IH. lia.
  - rewrite IH. lia.
Qed.
Lemma split_char_length c s : Z.of_nat (length (split_char c s)) = (1 + count_char c s)%Z.
Proof. apply split_aux_length. Qed.

(* the fields contain no separator and joining them gives the text back *)
Lemma has_char_rev c l : has_char c (rev l) = has_char c l.
Proof.
  induction l as [|y l IH]; [reflexivity|]. cbn [rev]. rewrite has_char_app, IH, has_char_cons.
  cbn [has_char memN]. rewrite orb_false_r. apply orb_comm.
Qed.

Lemma split_aux_inv c s cur : has_char c cur = false ->
  Forall (fun f => has_char c f = false) (split_char_aux c s cur) /\
  join [c] (split_char_aux c s cur) = rev cur ++ s.
Proof.
  revert cur. induction s as [|x s IH]; intros cur Hc; cbn [split_char_aux].
  - split.
    + constructor; [|constructor]. rewrite has_char_rev. exact Hc.
    + cbn [join]. rewrite app_nil_r. reflexivity.
  - destruct (x =? c) eqn:E.
    + apply N.eqb_eq in E. subst x.
      destruct (IH [] eq_refl) as [F J]. split.
      * constructor; [|exact F]. rewrite has_char_rev. exact Hc.
      * destruct (split_char_aux c s []) as [|f fs] eqn:Es.
        { exfalso. pose proof (split_aux_length c s []) as L. rewrite Es in L. cbn [length Z.of_nat] in L.
          pose proof (count_char_nonneg c s). lia. }
        rewrite join_cons. cbn [rev app] in J. rewrite J. reflexivity.
    + assert (Hc' : has_char c (x :: cur) = false) by (rewrite has_char_cons, E, Hc; reflexivity).
      destruct (IH _ Hc') as [F J]. split; [exact F|].
      rewrite J. cbn [rev]. rewrite <- app_assoc. reflexivity.
Qed.

Lemma split_char_two_inv c s h p : split_char c s = [h; p] ->
  s = h ++ c :: p /\ has_char c h = false /\ has_char c p = false.
Proof.
  intros E. destruct (split_aux_inv c s [] eq_refl) as [F J].
  unfold split_char in E. rewrite E in F, J. cbn [join rev app] in J.
  split; [symmetry; exact J|].
  inversion F as [|? ? Fh F' Eq1]. inversion F' as [|? ? Fp _ Eq2]. split; assumption.
Qed.

(* ---- split_char_max with maxsplit 1 ---- *)

Lemma split_max1_aux c s cur :
  split_char_max_aux c s cur 1 =
  match cut_at c s with Some (a, b) => [rev cur ++ a; b] | None => [rev cur ++ s] end.
Proof.
  revert cur. induction s as [|x s IH]; intros cur; cbn [split_char_max_aux cut_at].
  - rewrite app_nil_r. reflexivity.
  - destruct (x =? c).
    + rewrite app_nil_r. destruct s; reflexivity.
    + rewrite IH. destruct (cut_at c s) as [[a b]|]; cbn [rev]; rewrite <- app_assoc; reflexivity.
Qed.

Lemma cut_at_has c s : has_char c s = match cut_at c s with Some _ => true | None => false end.
Proof.
  induction s as [|x s IH]; [reflexivity|]. rewrite has_char_cons. cbn [cut_at].
  destruct (x =? c); [reflexivity|]. cbn [orb]. rewrite IH. destruct (cut_at c s) as [[a b]|]; reflexivity.
Qed.

Lemma cut_at_spec c s a b : cut_at c s = Some (a, b) -> s = a ++ c :: b /\ has_char c a = false.
Proof.
  revert a b. induction s as [|x s IH]; intros a b H; cbn [cut_at] in H; [discriminate|].
  destruct (x =? c) eqn:E.
  - inversion H; subst. apply N.eqb_eq in E. subst. split; reflexivity.
  - destruct (cut_at c s) as [[a' b']|]; [|discriminate]. inversion H; subst.
    destruct (IH _ _ eq_refl) as [-> Ha]. split; [reflexivity|].
    rewrite has_char_cons, E, Ha. reflexivity.
Qed.

Lemma cut_at_app_skip c u v : has_char c u = false ->
  cut_at c (u ++ v) = match cut_at c v with Some (a, b) => Some (u ++ a, b) | None => None end.
Proof.
  intros H. induction u as [|x u IH]; cbn [app cut_at].
  - destruct (cut_at c v) as [[a b]|]; reflexivity.
  - rewrite has_char_cons in H. apply orb_false_iff in H. destruct H as [Hx Hu].
    rewrite Hx, (IH Hu). destruct (cut_at c v) as [[a b]|]; reflexivity.
Qed.

(* ---- rsplit with maxsplit 1 / the last occurrence ---- *)

Lemma rsplit_max1 c s :
  rsplit_char_max c s 1 = match rcut_at c s with Some (a, b) => [a; b] | None => [s] end.
Proof.
  unfold rsplit_char_max, rcut_at, split_char_max. rewrite split_max1_aux. cbn [rev app].
  destruct (cut_at c (rev s)) as [[a b]|]; cbn [rev app map]; [reflexivity|].
  rewrite rev_involutive. reflexivity.
Qed.

Lemma rcut_at_has c s : has_char c s = match rcut_at c s with Some _ => true | None => false end.
Proof.
  unfold rcut_at. rewrite <- has_char_rev, cut_at_has.
  destruct (cut_at c (rev s)) as [[a b]|]; reflexivity.
Qed.

Lemma rcut_at_spec c s a b : rcut_at c s = Some (a, b) -> s = a ++ c :: b /\ has_char c b = false.
Proof.
  unfold rcut_at. destruct (cut_at c (rev s)) as [[a' b']|] eqn:E; [|discriminate].
  intros H. inversion H; subst. destruct (cut_at_spec _ _ _ _ E) as [Hs Ha].
  split; [|rewrite has_char_rev; exact Ha].
  rewrite <- (rev_involutive s), Hs, rev_app_distr. cbn [rev]. rewrite <- app_assoc. reflexivity.
Qed.

(* a tail without the separator does not move the last occurrence *)
Lemma rcut_at_app_tail c x y : has_char c y = false ->
  rcut_at c (x ++ y) = match rcut_at c x with Some (a, b) => Some (a, b ++ y) | None => None end.
Proof.
  intros H. unfold rcut_at. rewrite rev_app_distr, cut_at_app_skip by (rewrite has_char_rev; exact H).
  destruct (cut_at c (rev x)) as [[a b]|]; [|reflexivity].
  rewrite rev_app_distr, rev_involutive. reflexivity.
Qed.

Lemma rcut_at_last c a b : has_char c b = false -> rcut_at c (a ++ c :: b) = Some (a, b).
Proof.
  intros H. change (a ++ c :: b) with (a ++ [c] ++ b). rewrite app_assoc, rcut_at_app_tail by exact H.
  unfold rcut_at. rewrite rev_app_distr. cbn [rev app cut_at]. rewrite N.eqb_refl.
  rewrite rev_involutive. reflexivity.
Qed.

(* ---- digits ---- *)
Lemma digits_no_char c s : all_ascii_digits s = true -> (c < 48 \/ 57 < c) -> has_char c s = false.
Proof.
  intros H Hc. induction s as [|x s IH]; [reflexivity|].
  cbn [all_ascii_digits forallb] in H. apply andb_true_iff in H. destruct H as [Hx Hs].
  rewrite has_char_cons, (IH Hs). unfold ascii_digit in Hx.
  replace (x =? c) with false by lia. reflexivity.
Qed.

Lemma dec_of_Z_no_char c z : c <> 45 -> (c < 48 \/ 57 < c) -> has_char c (dec_of_Z z) = false.
Proof.
  intros H45 Hc. destruct z as [|p|p]; unfold dec_of_Z.
  - rewrite has_char_cons. replace (48 =? c) with false by lia. reflexivity.
  - apply digits_no_char; [apply dec_of_N_digits|exact Hc].
  - rewrite has_char_cons. replace (45 =? c) with false by lia.
    apply digits_no_char; [apply dec_of_N_digits|exact Hc].
Qed.
