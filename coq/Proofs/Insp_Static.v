(* Proofs/Insp_Static.v — capture_slice and the refinement of the inspectors whose regions all come
   from _initialize (no min_length, no EndCaptureRegion): after ANY chunk list the state is the
   "ideal" state computed from the concatenated bytes alone. *)
Require Import OV.Base.Bytes OV.Base.Py OV.Base.Insp_Struct OV.Gen.Insp_Consts OV.Model.Insp_Engine.
Require Import OV.Proofs.Insp_Engine.
Open Scope N_scope.

Definition static_spec (sp : rspec) : bool :=
  negb (rs_end sp) && match rs_min sp with None => true | Some _ => false end.
Definition static_specs (l : list (rname * rspec)) : bool := forallb (fun p => static_spec (snd p)) l.

(* the region dictionary when the stream [st] has been presented: every region holds the part of
   its window [off, off+len) that exists in [st] *)
Fixpoint fill_regs (id : nat) (l : list (rname * rspec)) (st : bytes) : regions :=
  match l with
  | [] => []
  | (n, sp) :: t =>
    (n, mkRegion id false (rs_off sp) (rs_len sp) None (bslice (rs_off sp) (rs_len sp) st) false)
      :: fill_regs (S id) t st
  end.

Lemma bslice_of_nil off len : bslice off len [] = [].
Proof. unfold bslice. rewrite bskip_nil, btake_nil. reflexivity. Qed.

Lemma init_regs_fill id l : static_specs l = true -> init_regs id l = fill_regs id l [].
Proof.
  revert id. induction l as [|[n sp] t IH]; intros id H; cbn [init_regs fill_regs]; [reflexivity|].
  cbn [static_specs forallb snd] in H. apply andb_true_iff in H. destruct H as [Hs Ht].
  rewrite (IH _ Ht). unfold static_spec in Hs. apply andb_true_iff in Hs. destruct Hs as [He Hm].
  unfold region_of_spec. destruct sp as [e o ln m]. cbn [rs_end rs_off rs_len rs_min] in *.
  destruct e; [discriminate|]. destruct m; [discriminate|]. rewrite bslice_of_nil. reflexivity.
Qed.

Lemma region_eta a b :
  r_id a = r_id b -> r_end a = r_end b -> r_off a = r_off b -> r_len a = r_len b -> r_min a = r_min b ->
  r_data a = r_data b -> r_fin a = r_fin b -> a = b.
Proof. destruct a, b; cbn. intros; subst; reflexivity. Qed.

(* capture_slice, one region, one chunk (any chunk, also empty) *)
Lemma capture_step_mk id off len st c :
  let r := mkRegion id false off len None (bslice off len st) false in
  (if r_end r || negb (rcomplete r) then rcapture r c (blen st + blen c) else r)
  = mkRegion id false off len None (bslice off len (st ++ c)) false.
Proof.
  intros r.
  pose proof (capture_step st c r eq_refl eq_refl eq_refl) as H. cbv zeta in H.
  change (r_end r) with false. cbn [orb]. unfold rcapture. change (r_end r) with false. cbn iota.
  destruct H as (H1 & H2 & H3 & H4 & H5 & H6 & H7). unfold on_track in H1.
  destruct (rcomplete r); cbn [negb]; apply region_eta; cbn [r_id r_end r_off r_len r_min r_data r_fin];
    try assumption; rewrite H1, ?H4, ?H5; reflexivity.
Qed.

Lemma capture_regs_fill id l st c :
  capture_regs [] c (blen st + blen c) (fill_regs id l st) = fill_regs id l (st ++ c).
Proof.
  revert id. induction l as [|[n sp] t IH]; intros id; cbn [fill_regs]; [reflexivity|].
  rewrite capture_regs_map. cbn [map]. rewrite <- capture_regs_map, IH. f_equal.
  unfold cap1. rewrite <- (capture_step_mk id (rs_off sp) (rs_len sp) st c). cbv zeta.
  match goal with |- (if ?b then _ else _) = _ => destruct b end; reflexivity.
Qed.

Lemma new_names_nil known l : (forall p, In p l -> In (r_id (snd p)) known) -> new_names known l = [].
Proof.
  unfold new_names. induction l as [|p t IH]; intros H; cbn [filter map]; [reflexivity|].
  assert (Hm : mem_nat (r_id (snd p)) known = true) by (apply mem_nat_In; apply H; left; reflexivity).
  rewrite Hm. cbn [negb]. apply IH. intros q Hq. apply H. right. exact Hq.
Qed.

Lemma fill_regs_ids id l st st' : ids (fill_regs id l st) = ids (fill_regs id l st').
Proof. revert id. induction l as [|[n sp] t IH]; intros id; cbn [fill_regs ids map snd r_id]; [reflexivity|]. f_equal. apply IH. Qed.

Lemma finish_fill id l st :
  map (fun p => (fst p, if r_end (snd p) then set_fin (snd p) true else snd p)) (fill_regs id l st) = fill_regs id l st.
Proof. revert id. induction l as [|[n sp] t IH]; intros id; cbn [fill_regs map fst snd r_end]; [reflexivity|]. rewrite IH. reflexivity. Qed.

Section Static.
Context {X : Type}.
Variable F : fmt X.
Hypothesis Hpost : f_post F = no_post.
Hypothesis Hspecs : static_specs (init_regions (f_id F)) = true.

(* the state after the stream [st], with attributes [x] *)
Definition ideal (st : bytes) (fin : bool) (x : X) : ist X :=
  mkIst (blen st) (fill_regs 0 (init_regions (f_id F)) st) (length (init_regions (f_id F))) fin
        (init_checks (f_id F)) x.

Lemma ideal_init : init_ist F = ideal [] false (f_ext0 F).
Proof. unfold init_ist, ideal. rewrite (init_regs_fill 0 _ Hspecs). reflexivity. Qed.

(* eat_chunk on an ideal state: capture, no new regions, then the callbacks of the newly complete regions *)
Lemma ideal_eat_chunk st c x :
  eat_chunk F (ideal st false x) c =
  run_callbacks F (newly_complete (complete_ids (fill_regs 0 (init_regions (f_id F)) st))
                                  (fill_regs 0 (init_regions (f_id F)) (st ++ c)))
                (ideal (st ++ c) false x).
Proof.
  unfold eat_chunk, do_capture. cbn [ideal i_fin i_pos i_regs set_pos set_regs].
  rewrite flen_blen, capture_regs_fill. rewrite Hpost. unfold no_post.
  unfold eat_fuel. cbn [settle i_regs].
  rewrite new_names_nil.
  - unfold ideal. rewrite blen_app. reflexivity.
  - intros p Hp. rewrite (fill_regs_ids 0 _ st (st ++ c)). unfold ids. apply in_map_iff. exists p. split; [reflexivity|exact Hp].
Qed.

Lemma ideal_finish st x : finish (ideal st false x) = ideal st true x.
Proof. unfold finish, ideal. cbn [i_pos i_regs i_next i_checks i_ext]. rewrite finish_fill. reflexivity. Qed.

Section NoCallback.
Hypothesis Hrc : f_rcomplete F = no_rcomplete.

Lemma run_callbacks_none names (s : ist X) : run_callbacks F names s = (s, None).
Proof. induction names as [|n t IH]; cbn [run_callbacks]; [reflexivity|]. rewrite Hrc. unfold no_rcomplete. exact IH. Qed.

Lemma ideal_eat_all st cs x : eat_all F (ideal st false x) cs = (ideal (st ++ concat cs) false x, None).
Proof.
  revert st. induction cs as [|c t IH]; intros st; cbn [eat_all concat].
  - rewrite app_nil_r. reflexivity.
  - rewrite ideal_eat_chunk, run_callbacks_none, IH, app_assoc. reflexivity.
Qed.

(* static_inspector_refines_spec, engine form: the whole life of the inspector ends in the ideal
   state of the concatenated bytes, without exception — for ALL byte strings and ALL chunk lists *)
Theorem static_run cs : run_fmt F cs = (ideal (concat cs) true (f_ext0 F), None).
Proof.
  unfold run_fmt. rewrite ideal_init, ideal_eat_all. cbn [app]. rewrite ideal_finish. reflexivity.
Qed.
End NoCallback.
End Static.
