(* Proofs/C12_Calendar.v — the civil calendar conversions are mutually inverse,
   for every day number >= 0 and every valid date of every year >= 1 (unbounded). *)
From Coq Require Import ZArith Bool Lia List.
Require Import OV.Model.C12_Calendar.
Open Scope Z_scope.

Ltac zdm := Z.div_mod_to_equations.

Lemma is_leap_cases y :
  (is_leap y = true /\ (y mod 4 = 0 /\ (y mod 100 <> 0 \/ y mod 400 = 0))) \/
  (is_leap y = false /\ (y mod 4 <> 0 \/ (y mod 100 = 0 /\ y mod 400 <> 0))).
Proof.
  unfold is_leap.
  destruct (y mod 4 =? 0) eqn:E4; destruct (y mod 100 =? 0) eqn:E100; destruct (y mod 400 =? 0) eqn:E400;
    cbn [andb orb negb]; lia.
Qed.

Lemma year_len_pos y : 365 <= year_len y <= 366.
Proof. unfold year_len. destruct (is_leap y); lia. Qed.

(* one year further = year_len more days *)
Lemma dby_step y : days_before_year (y + 1) = days_before_year y + year_len y.
Proof.
  unfold days_before_year, year_len.
  destruct (is_leap_cases y) as [[-> H]|[-> H]]; replace (y + 1 - 1) with y by lia; zdm; lia.
Qed.

Lemma dby_mono_le y k : 0 <= k -> days_before_year y + 365 * k <= days_before_year (y + k).
Proof.
  intros Hk. pattern k. apply natlike_ind; [replace (y + 0) with y by lia; lia| |exact Hk].
  intros x Hx IH. replace (y + Z.succ x) with ((y + x) + 1) by lia. rewrite dby_step.
  pose proof (year_len_pos (y + x)). lia.
Qed.

(* a (year, day-of-year) decomposition of a day number is unique *)
Lemma yd_unique y1 d1 y2 d2 :
  0 <= d1 < year_len y1 -> 0 <= d2 < year_len y2 ->
  days_before_year y1 + d1 = days_before_year y2 + d2 -> y1 = y2 /\ d1 = d2.
Proof.
  intros H1 H2 E.
  assert (Hlt : forall a da b db, 0 <= da < year_len a -> 0 <= db -> a < b ->
                 days_before_year a + da < days_before_year b + db).
  { intros a da b db Ha Hb Hab.
    pose proof (dby_mono_le (a + 1) (b - (a + 1)) ltac:(lia)) as Hm.
    replace (a + 1 + (b - (a + 1))) with b in Hm by lia. rewrite dby_step in Hm. lia. }
  destruct (Z.lt_trichotomy y1 y2) as [L|[L|L]].
  - specialize (Hlt y1 d1 y2 d2 H1 ltac:(lia) L). lia.
  - subst. lia.
  - specialize (Hlt y2 d2 y1 d1 H2 ltac:(lia) L). lia.
Qed.

Lemma yd_of_days_spec n : 0 <= n ->
  let '(y, doy) := yd_of_days n in
  1 <= y /\ 0 <= doy < year_len y /\ days_before_year y + doy = n.
Proof.
  intros Hn. unfold yd_of_days.
  set (n400 := n / 146097). set (r := n mod 146097).
  set (n100 := r / 36524). set (r2 := r mod 36524).
  set (n4 := r2 / 1461). set (r3 := r2 mod 1461).
  set (n1 := r3 / 365). set (r4 := r3 mod 365).
  assert (E1 : n = 146097 * n400 + r /\ 0 <= r < 146097) by (subst n400 r; zdm; lia).
  assert (E2 : r = 36524 * n100 + r2 /\ 0 <= r2 < 36524) by (subst n100 r2; zdm; lia).
  assert (E3 : r2 = 1461 * n4 + r3 /\ 0 <= r3 < 1461) by (subst n4 r3; zdm; lia).
  assert (E4 : r3 = 365 * n1 + r4 /\ 0 <= r4 < 365) by (subst n1 r4; zdm; lia).
  clearbody n400 r n100 r2 n4 r3 n1 r4.
  assert (B400 : 0 <= n400) by lia.
  assert (B100 : 0 <= n100 <= 4) by lia.
  assert (B4 : 0 <= n4 <= 24) by lia.
  assert (B1 : 0 <= n1 <= 4) by lia.
  destruct ((n1 =? 4) || (n100 =? 4)) eqn:Esp.
  - (* last day of a leap year ending a 4-year or 400-year cycle *)
    replace (n400 * 400 + n100 * 100 + n4 * 4 + n1 + 1 - 1) with (n400 * 400 + n100 * 100 + n4 * 4 + n1) by lia.
    set (y := n400 * 400 + n100 * 100 + n4 * 4 + n1).
    assert (Hy : y = n400 * 400 + n100 * 100 + n4 * 4 + n1) by reflexivity. clearbody y.
    unfold year_len, days_before_year.
    destruct (is_leap_cases y) as [[-> H]|[-> H]]; zdm; lia.
  - set (y := n400 * 400 + n100 * 100 + n4 * 4 + n1 + 1).
    assert (Hy : y = n400 * 400 + n100 * 100 + n4 * 4 + n1 + 1) by reflexivity. clearbody y.
    unfold year_len, days_before_year.
    destruct (is_leap_cases y) as [[-> H]|[-> H]]; zdm; lia.
Qed.

Lemma yd_of_days_inv y doy : 1 <= y -> 0 <= doy < year_len y ->
  yd_of_days (days_before_year y + doy) = (y, doy).
Proof.
  intros Hy Hd.
  assert (Hn : 0 <= days_before_year y + doy).
  { pose proof (dby_mono_le 1 (y - 1) ltac:(lia)) as H. replace (1 + (y - 1)) with y in H by lia.
    change (days_before_year 1) with 0 in H. lia. }
  pose proof (yd_of_days_spec _ Hn) as S.
  destruct (yd_of_days (days_before_year y + doy)) as [y' d'].
  destruct S as (_ & Hr & He).
  destruct (yd_unique y' d' y doy Hr Hd He) as [-> ->]. reflexivity.
Qed.

(* month / day within a year *)
Definition month_ok (m : Z) : Prop := 1 <= m <= 12.

Lemma month_cases m : month_ok m ->
  m = 1 \/ m = 2 \/ m = 3 \/ m = 4 \/ m = 5 \/ m = 6 \/ m = 7 \/ m = 8 \/ m = 9 \/ m = 10 \/ m = 11 \/ m = 12.
Proof. unfold month_ok. lia. Qed.

Lemma dbm_table leap :
  days_before_month leap 1 = 0 /\ days_before_month leap 2 = 31 /\
  (let l := (if leap then 1 else 0) : Z in
  days_before_month leap 3 = 59 + l /\ days_before_month leap 4 = 90 + l /\
  days_before_month leap 5 = 120 + l /\ days_before_month leap 6 = 151 + l /\
  days_before_month leap 7 = 181 + l /\ days_before_month leap 8 = 212 + l /\
  days_before_month leap 9 = 243 + l /\ days_before_month leap 10 = 273 + l /\
  days_before_month leap 11 = 304 + l /\ days_before_month leap 12 = 334 + l /\
  days_before_month leap 13 = 365 + l).
Proof. destruct leap; cbv zeta; repeat apply conj; reflexivity. Qed.


Lemma dbm_next leap m : month_ok m ->
  days_before_month leap (m + 1) = days_before_month leap m + days_in_month leap m.
Proof.
  intros H. destruct (month_cases m H) as [->|[->|[->|[->|[->|[->|[->|[->|[->|[->|[->| ->]]]]]]]]]]];
    destruct leap; reflexivity.
Qed.

Lemma md_of_doy_inv (leap : bool) m d : month_ok m -> 1 <= d <= days_in_month leap m ->
  md_of_doy leap (days_before_month leap m + (d - 1)) = (m, d).
Proof.
  intros H Hd.
  destruct (dbm_table leap) as (T1 & T2 & T3 & T4 & T5 & T6 & T7 & T8 & T9 & T10 & T11 & T12 & T13).
  cbv zeta in *.
  destruct (month_cases m H) as [->|[->|[->|[->|[->|[->|[->|[->|[->|[->|[->| ->]]]]]]]]]]];
    unfold md_of_doy;
    rewrite ?T1, ?T2, ?T3, ?T4, ?T5, ?T6, ?T7, ?T8, ?T9, ?T10, ?T11, ?T12 in *;
    destruct leap; cbv [days_in_month Z.eqb orb Pos.eqb] in Hd;
    repeat match goal with |- context [?a <? ?b] => destruct (Z.ltb_spec a b); try lia end;
    rewrite ?T1, ?T2, ?T3, ?T4, ?T5, ?T6, ?T7, ?T8, ?T9, ?T10, ?T11, ?T12; f_equal; lia.
Qed.

Lemma md_of_doy_spec (leap : bool) doy : 0 <= doy < (if leap then 366 else 365) ->
  let '(m, d) := md_of_doy leap doy in
  month_ok m /\ 1 <= d <= days_in_month leap m /\ days_before_month leap m + (d - 1) = doy.
Proof.
  intros Hd. unfold md_of_doy, month_ok.
  destruct (dbm_table leap) as (T1 & T2 & T3 & T4 & T5 & T6 & T7 & T8 & T9 & T10 & T11 & T12 & T13).
  cbv zeta in *.
  assert (Hl : 0 <= (if leap then 1 else 0) <= 1) by (destruct leap; lia).
  assert (Hfeb : days_in_month leap 2 = 28 + (if leap then 1 else 0)) by (destruct leap; reflexivity).
  repeat match goal with |- context [?a <? ?b] => destruct (Z.ltb_spec a b) end;
  rewrite ?T1, ?T2, ?T3, ?T4, ?T5, ?T6, ?T7, ?T8, ?T9, ?T10, ?T11, ?T12 in *;
  rewrite ?Hfeb; change (days_in_month leap 1) with 31; 
  try change (days_in_month leap 3) with 31; try change (days_in_month leap 4) with 30;
  try change (days_in_month leap 5) with 31; try change (days_in_month leap 6) with 30;
  try change (days_in_month leap 7) with 31; try change (days_in_month leap 8) with 31;
  try change (days_in_month leap 9) with 30; try change (days_in_month leap 10) with 31;
  try change (days_in_month leap 11) with 30; try change (days_in_month leap 12) with 31;
  destruct leap; lia.
Qed.

(* ------------------------------------------------------------------ round trips *)

Lemma valid_ymd_spec y m d : valid_ymd y m d = true <->
  1 <= y /\ month_ok m /\ 1 <= d <= days_in_month (is_leap y) m.
Proof. unfold valid_ymd, month_ok. lia. Qed.

Theorem ymd_of_days_of_ymd y m d : valid_ymd y m d = true ->
  ymd_of_days (days_of_ymd y m d) = (y, m, d).
Proof.
  rewrite valid_ymd_spec. intros (Hy & Hm & Hd).
  unfold ymd_of_days, days_of_ymd.
  assert (Hdoy : 0 <= days_before_month (is_leap y) m + (d - 1) < year_len y).
  { pose proof (md_of_doy_inv (is_leap y) m d Hm Hd) as Hi.
    pose proof (dbm_next (is_leap y) m Hm) as Hn.
    assert (0 <= days_before_month (is_leap y) m /\ days_before_month (is_leap y) (m + 1) <= year_len y) as [A B].
    { unfold year_len. destruct (month_cases m Hm) as [->|[->|[->|[->|[->|[->|[->|[->|[->|[->|[->| ->]]]]]]]]]]];
        destruct (is_leap y); cbv; split; congruence. }
    lia. }
  rewrite <- Z.add_assoc. rewrite (yd_of_days_inv y _ Hy Hdoy).
  rewrite (md_of_doy_inv _ m d Hm Hd). reflexivity.
Qed.

Theorem days_of_ymd_of_days n : 0 <= n ->
  let '(y, m, d) := ymd_of_days n in
  valid_ymd y m d = true /\ days_of_ymd y m d = n.
Proof.
  intros Hn. unfold ymd_of_days.
  pose proof (yd_of_days_spec n Hn) as S. destruct (yd_of_days n) as [y doy].
  destruct S as (Hy & Hr & He).
  assert (Hr' : 0 <= doy < (if is_leap y then 366 else 365)) by (unfold year_len in Hr; destruct (is_leap y); lia).
  pose proof (md_of_doy_spec (is_leap y) doy Hr') as S2. destruct (md_of_doy (is_leap y) doy) as [m d].
  destruct S2 as (Hm & Hd & Hs).
  split.
  - apply valid_ymd_spec. auto.
  - unfold days_of_ymd. lia.
Qed.

(* days_of_ymd is strictly increasing in the lexicographic order of valid dates: used for
   the range facts (first and last representable day) *)
Lemma days_of_ymd_nonneg y m d : valid_ymd y m d = true -> 0 <= days_of_ymd y m d.
Proof.
  intros H. pose proof (ymd_of_days_of_ymd y m d H) as R.
  apply valid_ymd_spec in H. destruct H as (Hy & Hm & Hd).
  unfold days_of_ymd.
  pose proof (dby_mono_le 1 (y - 1) ltac:(lia)) as Hb. replace (1 + (y - 1)) with y in Hb by lia.
  change (days_before_year 1) with 0 in Hb.
  assert (0 <= days_before_month (is_leap y) m).
  { destruct (month_cases m Hm) as [->|[->|[->|[->|[->|[->|[->|[->|[->|[->|[->| ->]]]]]]]]]]];
      destruct (is_leap y); cbv; congruence. }
  lia.
Qed.

Lemma days_of_ymd_upper y m d : valid_ymd y m d = true -> days_of_ymd y m d < days_before_year (y + 1).
Proof.
  intros H. apply valid_ymd_spec in H. destruct H as (Hy & Hm & Hd).
  unfold days_of_ymd. rewrite dby_step.
  pose proof (dbm_next (is_leap y) m Hm) as Hn.
  assert (days_before_month (is_leap y) (m + 1) <= year_len y).
  { unfold year_len. destruct (month_cases m Hm) as [->|[->|[->|[->|[->|[->|[->|[->|[->|[->|[->| ->]]]]]]]]]]];
      destruct (is_leap y); cbv; congruence. }
  lia.
Qed.

Lemma yd_of_days_year_bound n Y : 0 <= n < days_before_year (Y + 1) -> 1 <= Y -> fst (yd_of_days n) <= Y.
Proof.
  intros Hn HY. pose proof (yd_of_days_spec n ltac:(lia)) as S.
  destruct (yd_of_days n) as [y doy]. cbn [fst]. destruct S as (Hy & Hr & He).
  destruct (Z_le_gt_dec y Y) as [L|G]; [exact L|exfalso].
  pose proof (dby_mono_le (Y + 1) (y - (Y + 1)) ltac:(lia)) as Hm.
  replace (Y + 1 + (y - (Y + 1))) with y in Hm by lia. lia.
Qed.
