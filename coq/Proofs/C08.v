(* Proofs/C08.v — mask_dict_password: the generated loop body against the four
   rules, soundness/uniqueness of the relation Masked, key preservation, the
   sanitize-key test. *)
From Coq Require Import String.
Require Import OV.Base.Bytes OV.Base.Py OV.Base.Str.
Require Import OV.Gen.Unicode.
Require Import OV.Model.C08_Syntax OV.Gen.C08_Keys OV.Gen.C08_Shape OV.Model.C08.
Open Scope N_scope.

(* ================================================================== *)
(* 1. The regenerated loop body computes the four-way decision.        *)
(* ================================================================== *)

(* What one pass through the loop body must store, as a function of the
   isinstance facts and of the key test — in the ORDER the property gives:
   Mapping first (whatever the key), then the str-key test, then str values. *)
Definition spec_action (e : env) : res (option action) :=
  if e_val_is e CMapping then Ok (Some (ARecurse SecGiven))
  else
    let plain := Some (if e_val_is e CStr then AMask SecGiven else AKeep) in
    if e_key_is e CStr then
      match e_has e HLower with
      | Exn x => Exn x
      | Ok true => Ok (Some ASecret)
      | Ok false => Ok plain
      end
    else Ok plain.

(* translator-equivalence obligation: the term regenerated from the source's
   loop body, evaluated, IS that decision — for every combination of facts.
   A reordered test, a dropped recursion, a dropped .lower(), a default secret
   passed on ... change gen_body and this stops being provable. *)
Lemma gen_body_equiv : forall e : env, run_body gen_body e = spec_action e.
Proof.
  intros [ki vi h]. unfold run_body, spec_action, gen_body.
  cbn [exec_list exec eval_cond e_key_is e_val_is e_has st_out st_flags st_cont st0 bind flag_get N.eqb Pos.eqb negb].
  destruct (vi CMapping), (ki CStr), (h HLower) as [[|]|x], (vi CStr); reflexivity.
Qed.

(* the guard, the exception and the container of the result, as regenerated *)
Lemma gen_guard_is_mapping_test : gen_guard_cls = CMapping. Proof. reflexivity. Qed.
Lemma gen_guard_raises_TypeError : gen_guard_exn = TypeError. Proof. reflexivity. Qed.
Lemma gen_out_is_dict : gen_out_kind = dict_kind. Proof. reflexivity. Qed.

(* ================================================================== *)
(* 2. Induction over nested values; keys; dict assignment.             *)
(* ================================================================== *)

Section ValueInd.
  Variable P : value -> Prop.
  Hypothesis Hstr : forall s, P (VStr s).
  Hypothesis Hother : forall t, P (VOther t).
  Hypothesis Hmap : forall kd items, Forall (fun kv => P (snd kv)) items -> P (VMap kd items).
  Fixpoint value_ind' (v : value) : P v :=
    match v with
    | VStr s => Hstr s
    | VOther t => Hother t
    | VMap kd items =>
        Hmap kd items
          ((fix go (l : list (key * value)) : Forall (fun kv => P (snd kv)) l :=
              match l with
              | [] => Forall_nil _
              | kv :: t => Forall_cons kv (value_ind' (snd kv)) (go t)
              end) items)
    end.
End ValueInd.

Lemma key_eqb_eq a b : key_eqb a b = true <-> a = b.
Proof.
  destruct a as [s|s], b as [t|t]; cbn [key_eqb]; try (split; [discriminate|congruence]);
    rewrite beq_eq; split; congruence.
Qed.

Lemma key_in_In k l : existsb (key_eqb k) l = true <-> In k l.
Proof.
  rewrite existsb_exists. split.
  - intros [x [Hin Heq]]. apply key_eqb_eq in Heq. subst. exact Hin.
  - intros Hin. exists k. split; [exact Hin|]. apply key_eqb_eq. reflexivity.
Qed.

Lemma nodup_keys_NoDup l : nodup_keys l = true -> NoDup l.
Proof.
  induction l as [|k t IH]; intros H; [constructor|].
  cbn [nodup_keys] in H. apply andb_true_iff in H. destruct H as [H1 H2].
  constructor; [|auto]. intros Hin. apply key_in_In in Hin. rewrite Hin in H1. discriminate.
Qed.

Lemma NoDup_nodup_keys l : NoDup l -> nodup_keys l = true.
Proof.
  induction 1 as [|k t Hk _ IH]; [reflexivity|]. cbn [nodup_keys]. rewrite IH, andb_true_r.
  destruct (existsb (key_eqb k) t) eqn:E; [|reflexivity]. apply key_in_In in E. contradiction.
Qed.

(* storing under a key that is not there yet appends *)
Lemma dict_set_fresh k v d : ~ In k (map fst d) -> dict_set k v d = d ++ [(k, v)].
Proof.
  induction d as [|[k' v'] t IH]; intros H; [reflexivity|].
  cbn [dict_set map fst In app] in *.
  destruct (key_eqb k' k) eqn:E.
  - apply key_eqb_eq in E. subst. tauto.
  - rewrite IH by tauto. reflexivity.
Qed.

Lemma wf_VMap kd items :
  wf (VMap kd items) = true <-> NoDup (map fst items) /\ Forall (fun kv => wf (snd kv) = true) items.
Proof.
  cbn [wf]. rewrite andb_true_iff, forallb_forall, Forall_forall. split.
  - intros [H1 H2]. split; [apply nodup_keys_NoDup; exact H1|exact H2].
  - intros [H1 H2]. split; [apply NoDup_nodup_keys; exact H1|exact H2].
Qed.

(* ================================================================== *)
(* 3. mask_dict_password, unfolded.                                    *)
(* ================================================================== *)

Section MDP.
  Variable mp : str -> str -> str.

  (* the value stored for an entry, given the action the loop body chose *)
  Definition entry_value (secret : str) (a : action) (v : value) : res value :=
    match a with
    | ARecurse sa => mdp mp (pick gen_default_secret sa secret) v
    | ASecret => Ok (VStr secret)
    | AMask sa => match v with
                  | VStr s => Ok (VStr (mp s (pick gen_mp_default_secret sa secret)))
                  | _ => Exn OtherError
                  end
    | AKeep => Ok v
    end.

  Fixpoint go_items (secret : str) (l out : list (key * value)) : res (list (key * value)) :=
    match l with
    | [] => Ok out
    | (k, v) :: t =>
        match run_body gen_body (env_of k v) with
        | Exn err => Exn err
        | Ok None => go_items secret t out
        | Ok (Some a) =>
            match entry_value secret a v with
            | Exn err => Exn err
            | Ok v' => go_items secret t (dict_set k v' out)
            end
        end
    end.

  Lemma mdp_unfold secret kd items :
    mdp mp secret (VMap kd items) =
    if val_is (VMap kd items) gen_guard_cls then
      match go_items secret items [] with
      | Ok out => Ok (VMap gen_out_kind out)
      | Exn err => Exn err
      end
    else Exn gen_guard_exn.
  Proof.
    cbn [mdp]. destruct (val_is (VMap kd items) gen_guard_cls); [|reflexivity].
    match goal with |- match ?a with _ => _ end = match ?b with _ => _ end => assert (Hab : a = b) end.
    2: { rewrite Hab. reflexivity. }
    generalize (@nil (key * value)) as out.
    induction items as [|[k v] t IH]; intros out; [reflexivity|].
    cbn [go_items]. destruct (run_body gen_body (env_of k v)) as [[a|]|err]; [|apply IH|reflexivity].
    unfold entry_value.
    destruct a as [sa| |sa|].
    - destruct (mdp mp (pick gen_default_secret sa secret) v); [apply IH|reflexivity].
    - apply IH.
    - destruct v; try reflexivity. apply IH.
    - apply IH.
  Qed.

  Lemma mdp_non_mapping secret d : is_mapping d = false -> mdp mp secret d = Exn TypeError.
  Proof. destruct d; cbn; intros H; try reflexivity. discriminate. Qed.

  (* the decision for a concrete entry *)
  Lemma key_has_lower k : key_is k CStr = true -> key_has k HLower = Ok (secret_key k).
  Proof.
    destruct k as [s|t]; cbn [key_is]; [intros _|discriminate].
    unfold key_has, secret_key. destruct gen_keys; reflexivity.
  Qed.

  Lemma secret_key_str k : secret_key k = true -> key_is k CStr = true.
  Proof. destruct k; [reflexivity|discriminate]. Qed.

  Definition plain_action (v : value) : action := if val_is v CStr then AMask SecGiven else AKeep.

  Lemma entry_action k v :
    run_body gen_body (env_of k v) =
    Ok (Some (if is_mapping v then ARecurse SecGiven
              else if secret_key k then ASecret else plain_action v)).
  Proof.
    rewrite gen_body_equiv. unfold spec_action, env_of, is_mapping, plain_action.
    cbn [e_val_is e_key_is e_has].
    destruct (val_is v CMapping); [reflexivity|].
    destruct (key_is k CStr) eqn:Ek.
    - rewrite key_has_lower by exact Ek. destruct (secret_key k); reflexivity.
    - destruct (secret_key k) eqn:Es; [|reflexivity]. apply secret_key_str in Es. congruence.
  Qed.

  (* ================================================================== *)
  (* 4. Soundness and uniqueness w.r.t. the relation Masked (Model/C08). *)
  (* ================================================================== *)

  Notation Masked := (Masked mp).
  Notation MaskedItems := (MaskedItems mp).
  Notation MaskedEntry := (MaskedEntry mp).

  Definition sound_at (v : value) : Prop :=
    forall secret, wf v = true -> is_mapping v = true ->
    exists r, mdp mp secret v = Ok r /\ Masked secret v r.

  Lemma go_items_sound secret items :
    Forall (fun kv => sound_at (snd kv)) items ->
    Forall (fun kv => wf (snd kv) = true) items ->
    NoDup (map fst items) ->
    forall out, (forall k, In k (map fst items) -> ~ In k (map fst out)) ->
    exists items', go_items secret items out = Ok (out ++ items') /\ MaskedItems secret items items'.
  Proof.
    induction items as [|[k v] t IH]; intros Hs Hw Hnd out Hdis.
    - exists []. rewrite app_nil_r. split; [reflexivity|constructor].
    - inversion Hs as [|? ? Hs1 Hs2]; subst. inversion Hw as [|? ? Hw1 Hw2]; subst.
      cbn [map fst] in Hnd. inversion Hnd as [|? ? Hk Hnd']; subst. cbn [snd] in *.
      assert (Hfresh : ~ In k (map fst out)) by (apply Hdis; left; reflexivity).
      assert (Hnext : forall v', forall k0, In k0 (map fst t) -> ~ In k0 (map fst (out ++ [(k, v')]))).
      { intros v' k0 Hin. rewrite map_app, in_app_iff. cbn [map fst In].
        intros [H|[H|[]]]; [apply (Hdis k0); [right; exact Hin|exact H]|subst; contradiction]. }
      cbn [go_items]. rewrite entry_action.
      assert (Hstep : forall v', MaskedEntry secret k v v' ->
                exists items', go_items secret t (dict_set k v' out) = Ok (out ++ items')
                               /\ MaskedItems secret ((k, v) :: t) items').
      { intros v' He. rewrite dict_set_fresh by exact Hfresh.
        destruct (IH Hs2 Hw2 Hnd' (out ++ [(k, v')]) (Hnext v')) as [items' [Hgo HM]].
        exists ((k, v') :: items'). rewrite Hgo, <- app_assoc. split; [reflexivity|]. constructor; assumption. }
      destruct (is_mapping v) eqn:Em.
      + destruct (Hs1 secret Hw1 Em) as [r [Hr HMr]]. cbn [entry_value pick]. rewrite Hr.
        apply Hstep. apply ME_mapping; assumption.
      + destruct (secret_key k) eqn:Esk.
        * cbn [entry_value]. apply Hstep. apply ME_secret; assumption.
        * unfold plain_action. destruct v as [s|kd its|tg]; cbn [val_is entry_value pick].
          -- apply Hstep. apply ME_string. exact Esk.
          -- discriminate.
          -- apply Hstep. apply ME_other. exact Esk.
  Qed.

  Lemma mdp_sound_all : forall v, sound_at v.
  Proof.
    induction v as [s|t|kd items IH] using value_ind'; intros secret Hw Hm; try discriminate.
    apply wf_VMap in Hw. destruct Hw as [Hnd Hw].
    destruct (go_items_sound secret items IH Hw Hnd [] (fun _ _ H => H)) as [items' [Hgo HM]].
    exists (VMap dict_kind items'). rewrite mdp_unfold, gen_guard_is_mapping_test. cbn [val_is].
    rewrite Hgo. cbn [app]. split; [reflexivity|]. constructor. exact HM.
  Qed.

  Theorem mdp_sound secret d :
    wf d = true -> is_mapping d = true -> exists r, mdp mp secret d = Ok r /\ Masked secret d r.
  Proof. intros. apply mdp_sound_all; assumption. Qed.

  (* the relation is functional: the four rules never overlap *)
  Lemma MaskedEntry_unique secret k v :
    (forall r1 r2, Masked secret v r1 -> Masked secret v r2 -> r1 = r2) ->
    forall r1 r2, MaskedEntry secret k v r1 -> MaskedEntry secret k v r2 -> r1 = r2.
  Proof.
    intros IH r1 r2 H1 H2.
    inversion H1; subst; inversion H2; subst; try reflexivity; try congruence;
      try (cbn in *; congruence); auto.
  Qed.

  Theorem mdp_unique secret : forall d r1 r2, Masked secret d r1 -> Masked secret d r2 -> r1 = r2.
  Proof.
    induction d as [s|t|kd items IH] using value_ind'; intros r1 r2 H1 H2;
      inversion H1 as [? ? o1 M1]; subst; inversion H2 as [? ? o2 M2]; subst.
    f_equal. clear H1 H2. revert o1 o2 M1 M2.
    induction items as [|[k v] t IHt]; intros o1 o2 M1 M2.
    - inversion M1; inversion M2; reflexivity.
    - inversion IH as [|? ? IHv IHrest]; subst. cbn [snd] in IHv.
      inversion M1 as [|? ? v1 ? t1 E1 R1]; subst. inversion M2 as [|? ? v2 ? t2 E2 R2]; subst.
      f_equal.
      + f_equal. eapply MaskedEntry_unique; eassumption.
      + apply IHt; assumption.
  Qed.

  Corollary mdp_complete secret d r :
    wf d = true -> Masked secret d r -> mdp mp secret d = Ok r.
  Proof.
    intros Hw HM. assert (Hm : is_mapping d = true) by (inversion HM; reflexivity).
    destruct (mdp_sound secret d Hw Hm) as [r' [Hr HM']].
    rewrite (mdp_unique secret d r r' HM HM'). exact Hr.
  Qed.

  (* ================================================================== *)
  (* 5. Consequences: keys at every level, dict containers, recursion     *)
  (*    under a secret key.                                              *)
  (* ================================================================== *)

  Lemma Masked_skeleton secret : forall d r, Masked secret d r -> skel r = skel d /\ all_dict r = true.
  Proof.
    induction d as [s|t|kd items IH] using value_ind'; intros r H; inversion H as [? ? out M]; subst.
    cbn [skel all_dict]. rewrite N.eqb_refl. cbn [andb].
    assert (HH : map (fun kv => (fst kv, skel (snd kv))) out = map (fun kv => (fst kv, skel (snd kv))) items
                 /\ forallb (fun kv => all_dict (snd kv)) out = true).
    { clear H. revert out M. induction items as [|[k v] t IHt]; intros out M.
      - inversion M; subst. split; reflexivity.
      - inversion IH as [|? ? IHv IHrest]; subst. cbn [snd] in IHv.
        inversion M as [|? ? v' ? t' E R]; subst. destruct (IHt IHrest t' R) as [A B].
        cbn [map forallb fst snd]. rewrite A, B, andb_true_r.
        assert (Hv : skel v' = skel v /\ all_dict v' = true).
        { inversion E; subst.
          - apply IHv. assumption.
          - destruct v; try discriminate; split; reflexivity.
          - split; reflexivity.
          - split; reflexivity. }
        destruct Hv as [Hv1 Hv2]. rewrite Hv1, Hv2. split; reflexivity. }
    destruct HH as [A B]. rewrite A, B. split; reflexivity.
  Qed.

  Theorem keys_preserved_at_every_level secret d r :
    wf d = true -> mdp mp secret d = Ok r -> skel r = skel d /\ all_dict r = true.
  Proof.
    intros Hw Hr. destruct (is_mapping d) eqn:Em.
    - destruct (mdp_sound secret d Hw Em) as [r' [Hr' HM]]. rewrite Hr in Hr'. inversion Hr'; subst.
      eapply Masked_skeleton. exact HM.
    - rewrite mdp_non_mapping in Hr by exact Em. discriminate.
  Qed.

  Lemma MaskedItems_In secret items out k v :
    MaskedItems secret items out -> In (k, v) items -> exists v', In (k, v') out /\ MaskedEntry secret k v v'.
  Proof.
    induction 1 as [|k0 v0 v0' t t' E R IH]; intros Hin; [contradiction|].
    destruct Hin as [Heq|Hin].
    - inversion Heq; subst. exists v0'. split; [left; reflexivity|exact E].
    - destruct (IH Hin) as [v' [H1 H2]]. exists v'. split; [right; exact H1|exact H2].
  Qed.

  (* the Mapping test comes first: a mapping stored under a secret key is not
     replaced by the mask, it is processed recursively *)
  Theorem mapping_under_secret_key_is_recursed secret kd items k kd' sub :
    wf (VMap kd items) = true -> In (k, VMap kd' sub) items -> secret_key k = true ->
    exists out sub',
      mdp mp secret (VMap kd items) = Ok (VMap dict_kind out) /\
      mdp mp secret (VMap kd' sub) = Ok (VMap dict_kind sub') /\
      In (k, VMap dict_kind sub') out /\ Masked secret (VMap kd' sub) (VMap dict_kind sub').
  Proof.
    intros Hw Hin _.
    destruct (mdp_sound secret (VMap kd items) Hw eq_refl) as [r [Hr HM]].
    inversion HM as [? ? out M]; subst.
    destruct (MaskedItems_In secret items out k (VMap kd' sub) M Hin) as [v' [Hin' E]].
    inversion E as [? ? ? _ HMs| ? ? Hnm _ | |]; subst; [|discriminate].
    inversion HMs as [? ? sub' Ms]; subst.
    exists out, sub'. split; [exact Hr|]. split; [|split; [exact Hin'|exact HMs]].
    apply mdp_complete; [|exact HMs].
    apply wf_VMap in Hw. destruct Hw as [_ Hw]. rewrite Forall_forall in Hw. apply (Hw _ Hin).
  Qed.

  (* the four rules, read off the function itself: what is stored under each key *)
  Theorem entry_rules secret kd items k v :
    wf (VMap kd items) = true -> In (k, v) items ->
    exists out v',
      mdp mp secret (VMap kd items) = Ok (VMap dict_kind out) /\ In (k, v') out /\
      (is_mapping v = true -> mdp mp secret v = Ok v') /\
      (is_mapping v = false -> secret_key k = true -> v' = VStr secret) /\
      (secret_key k = false -> forall s, v = VStr s -> v' = VStr (mp s secret)) /\
      (secret_key k = false -> forall t, v = VOther t -> v' = VOther t).
  Proof.
    intros Hw Hin.
    destruct (mdp_sound secret (VMap kd items) Hw eq_refl) as [r [Hr HM]].
    inversion HM as [? ? out M]; subst.
    destruct (MaskedItems_In secret items out k v M Hin) as [v' [Hin' E]].
    assert (Hwv : wf v = true).
    { apply wf_VMap in Hw. destruct Hw as [_ Hw]. rewrite Forall_forall in Hw. apply (Hw _ Hin). }
    exists out, v'. split; [exact Hr|]. split; [exact Hin'|].
    inversion E as [? ? ? Hm HMv|? ? Hnm Hsk|? s0 Hsk|? t0 Hsk]; subst.
    - split; [intros _; apply mdp_complete; assumption|].
      split; [intros H; congruence|]. split; intros _ ? ->; discriminate.
    - split; [intros H; congruence|]. split; [reflexivity|]. split; intros H; congruence.
    - split; [discriminate|]. split; [intros _ H; congruence|].
      split; [intros _ s1 H; inversion H; reflexivity|intros _ t1 H; discriminate].
    - split; [discriminate|]. split; [intros _ H; congruence|].
      split; [intros _ s1 H; discriminate|intros _ t1 H; inversion H; reflexivity].
  Qed.

  (* a mapping argument never raises *)
  Corollary mapping_argument_ok secret d : wf d = true -> is_mapping d = true -> exists r, mdp mp secret d = Ok r.
  Proof. intros Hw Hm. destruct (mdp_sound secret d Hw Hm) as [r [Hr _]]. exists r. exact Hr. Qed.

End MDP.

(* ================================================================== *)
(* 6. The sanitize-key test: substring of k.lower(), all 35 keys.       *)
(* ================================================================== *)

Lemma occursb_spec a s : occursb a s = true <-> exists p q, s = p ++ a ++ q.
Proof.
  split.
  - induction s as [|c t IH]; cbn [occursb]; intros H; apply orb_true_iff in H; destruct H as [H|H].
    + apply prefixb_spec in H. destruct H as [q Hq]. exists [], q. exact Hq.
    + discriminate.
    + apply prefixb_spec in H. destruct H as [q Hq]. exists [], q. exact Hq.
    + destruct (IH H) as [p [q Hq]]. exists (c :: p), q. rewrite Hq. reflexivity.
  - intros [p [q Hs]]. subst. induction p as [|c p IH].
    + cbn [app]. destruct (a ++ q) eqn:E; cbn [occursb]; rewrite <- E, prefixb_app; reflexivity.
    + cbn [app occursb]. rewrite IH. apply orb_true_r.
Qed.

Lemma contains_any_spec keys hay :
  contains_any keys hay = true <-> exists sk p q, In sk keys /\ hay = p ++ sk ++ q.
Proof.
  unfold contains_any. rewrite existsb_exists. split.
  - intros [sk [Hin Ho]]. apply occursb_spec in Ho. destruct Ho as [p [q Hq]]. exists sk, p, q. auto.
  - intros [sk [p [q [Hin Hq]]]]. exists sk. split; [exact Hin|]. apply occursb_spec. exists p, q. exact Hq.
Qed.

(* exactly: some sanitize key of the regenerated list is a substring of k.lower() *)
Theorem secret_key_iff_substring_of_lower s :
  secret_key (KStr s) = true <-> exists sk p q, In sk gen_keys /\ py_lower s = p ++ sk ++ q.
Proof. apply contains_any_spec. Qed.

Lemma secret_key_not_str t : secret_key (KOther t) = false.
Proof. reflexivity. Qed.

(* all 35 keys of the property reading are in the regenerated list
   (one may be added, none may be dropped) *)
Fixpoint mem_str (x : str) (l : list str) : bool :=
  match l with [] => false | y :: t => beq x y || mem_str x t end.
Lemma mem_str_In x l : mem_str x l = true -> In x l.
Proof.
  induction l as [|y t IH]; cbn [mem_str]; [discriminate|]. intros H. apply orb_true_iff in H.
  destruct H as [H|H]; [left; symmetry; apply beq_eq; exact H|right; auto].
Qed.

Theorem uses_all_spec_keys : incl spec_keys_35 gen_keys.
Proof.
  assert (H : forallb (fun k => mem_str k gen_keys) spec_keys_35 = true) by (vm_compute; reflexivity).
  intros k Hk. rewrite forallb_forall in H. apply mem_str_In, H, Hk.
Qed.

Lemma spec_keys_35_length : length spec_keys_35 = 35%nat.
Proof. reflexivity. Qed.

(* str.lower() on ASCII text is the ASCII rule (checked on all 128 code points
   of the regenerated Unicode table) *)
Definition ascii_range : list N := map N.of_nat (seq 0 128).
Lemma py_lower1_ascii c : c < 128 -> py_lower1 c = [lower_ascii1 c].
Proof.
  intros Hc.
  assert (H : forallb (fun c => beq (py_lower1 c) [lower_ascii1 c]) ascii_range = true) by (vm_compute; reflexivity).
  rewrite forallb_forall in H. apply beq_eq, H. unfold ascii_range.
  apply in_map_iff. exists (N.to_nat c). split; [lia|]. apply in_seq. lia.
Qed.

Definition is_ascii (s : str) : bool := forallb (fun c => c <? 128) s.

Lemma py_lower_ascii s : is_ascii s = true -> py_lower s = lower_ascii s.
Proof.
  induction s as [|c t IH]; [reflexivity|]. cbn [is_ascii forallb]. intros H.
  apply andb_true_iff in H. destruct H as [Hc Ht]. unfold py_lower, lower_ascii in *.
  cbn [flat_map map]. rewrite py_lower1_ascii by lia. fold (is_ascii t) in Ht. rewrite (IH Ht). reflexivity.
Qed.

Lemma py_lower_app a b : py_lower (a ++ b) = py_lower a ++ py_lower b.
Proof. unfold py_lower. apply flat_map_app. Qed.

Lemma lower_ascii_is_ascii u : is_ascii (lower_ascii u) = true -> is_ascii u = true.
Proof.
  induction u as [|c t IH]; [reflexivity|]. unfold lower_ascii, is_ascii in *. cbn [map forallb].
  intros H. apply andb_true_iff in H. destruct H as [Hc Ht]. rewrite (IH Ht), andb_true_r.
  unfold lower_ascii1 in Hc. destruct ((65 <=? c) && (c <=? 90)) eqn:E; lia.
Qed.

Lemma spec_keys_ascii sk : In sk spec_keys_35 -> is_ascii sk = true.
Proof.
  assert (H : forallb is_ascii spec_keys_35 = true) by (vm_compute; reflexivity).
  rewrite forallb_forall in H. apply H.
Qed.

(* case-insensitive, any position: whatever surrounds it, an occurrence of a
   documented key in ANY mix of upper and lower case makes the key a secret key *)
Theorem secret_key_case_insensitive_substring sk pre u post :
  In sk spec_keys_35 -> lower_ascii u = sk -> secret_key (KStr (pre ++ u ++ post)) = true.
Proof.
  intros Hin Hu. apply secret_key_iff_substring_of_lower.
  exists sk, (py_lower pre), (py_lower post). split; [apply uses_all_spec_keys; exact Hin|].
  rewrite !py_lower_app. f_equal. f_equal. rewrite py_lower_ascii; [exact Hu|].
  apply lower_ascii_is_ascii. rewrite Hu. apply spec_keys_ascii. exact Hin.
Qed.

(* non-ASCII characters whose lower() contains ASCII letters take part in the
   match, as in Python: KELVIN SIGN lowers to 'k'; LATIN CAPITAL I WITH DOT
   ABOVE lowers to 'i' + COMBINING DOT ABOVE (so it breaks "adminpass" but not
   a key that ends right before the dot); LONG S is not lowered to 's' *)
Example kelvin_sign_matches : secret_key (KStr (lit "TO" ++ [8490] ++ lit "EN")) = true.
Proof. vm_compute. reflexivity. Qed.
Example dotted_I_breaks_adminpass : secret_key (KStr (lit "ADM" ++ [304] ++ lit "NPASS")) = false.
Proof. vm_compute. reflexivity. Qed.
Example long_s_is_no_s : secret_key (KStr ([383] ++ lit "ecret")) = false.
Proof. vm_compute. reflexivity. Qed.
Example near_miss_is_no_key : secret_key (KStr (lit "pass_word")) = false.
Proof. vm_compute. reflexivity. Qed.
Example embedded_mixed_case : secret_key (KStr (lit "My-AdMiN_PaSs.old")) = true.
Proof. vm_compute. reflexivity. Qed.

(* CPython's str.lower() differs from py_lower in one respect only: a capital
   sigma in word-final position becomes U+03C2 instead of U+03C3.  For a key list
   without either small sigma the test cannot tell the difference. *)
Definition sig_norm (c : N) : N := if c =? 962 then 963 else c.
Definition sigma_free (keys : list str) : bool :=
  forallb (fun sk => negb (memN 962 sk) && negb (memN 963 sk)) keys.

Lemma prefixb_sig_norm sk : negb (memN 962 sk) && negb (memN 963 sk) = true ->
  forall t, prefixb sk (map sig_norm t) = prefixb sk t.
Proof.
  induction sk as [|x sk IH]; intros H t; [reflexivity|].
  cbn [memN] in H. rewrite !negb_orb in H.
  destruct t as [|y t]; [reflexivity|]. cbn [map prefixb].
  assert (Hx : x <> 962 /\ x <> 963) by lia.
  assert (Hs : negb (memN 962 sk) && negb (memN 963 sk) = true) by lia.
  rewrite (IH Hs). f_equal. unfold sig_norm. destruct (y =? 962) eqn:E; lia.
Qed.

Lemma occursb_sig_norm sk : negb (memN 962 sk) && negb (memN 963 sk) = true ->
  forall t, occursb sk (map sig_norm t) = occursb sk t.
Proof.
  intros H. induction t as [|y t IH].
  - reflexivity.
  - cbn [map occursb]. rewrite <- IH. change (sig_norm y :: map sig_norm t) with (map sig_norm (y :: t)).
    rewrite (prefixb_sig_norm sk H). reflexivity.
Qed.

Theorem final_sigma_irrelevant keys t s :
  sigma_free keys = true -> map sig_norm t = map sig_norm s -> contains_any keys t = contains_any keys s.
Proof.
  intros Hf Heq. unfold contains_any, sigma_free in *. rewrite forallb_forall in Hf.
  induction keys as [|sk keys IH]; [reflexivity|]. cbn [existsb].
  rewrite IH by (intros x Hx; apply Hf; right; exact Hx). f_equal.
  rewrite <- (occursb_sig_norm sk (Hf sk (or_introl eq_refl)) t),
          <- (occursb_sig_norm sk (Hf sk (or_introl eq_refl)) s), Heq. reflexivity.
Qed.

Example spec_keys_sigma_free : sigma_free spec_keys_35 = true.
Proof. vm_compute. reflexivity. Qed.

(* ================================================================== *)
(* 7. Non-vacuity: instances of the hypotheses of the theorems.         *)
(* ================================================================== *)

(* a stand-in for mask_password, only to compute the examples *)
Definition toy_mp (s secret : str) : str := lit "<" ++ secret ++ lit ">" ++ s.

(* {'Admin_Password': 'x', 'user': 'password=abc', 5: b'..',
    'my_secret': ROMapping({'inner': OrderedDict({'TOKEN2': None, 'note': 'n'})}), 'list': [...]} *)
Definition ex_d : value :=
  VMap 0 [ (KStr (lit "Admin_Password"), VStr (lit "x"));
           (KStr (lit "user"), VStr (lit "password=abc"));
           (KOther (lit "i5"), VOther (lit "b00"));
           (KStr (lit "my_secret"),
              VMap 3 [ (KStr (lit "inner"), VMap 1 [ (KStr (lit "TOKEN2"), VOther (lit "n"));
                                                     (KStr (lit "note"), VStr (lit "n")) ]) ]);
           (KStr (lit "list"), VOther (lit "l[]")) ].

Example ex_d_wf : wf ex_d = true /\ is_mapping ex_d = true.
Proof. split; vm_compute; reflexivity. Qed.

Example ex_d_result :
  mdp toy_mp (lit "***") ex_d =
  Ok (VMap 0 [ (KStr (lit "Admin_Password"), VStr (lit "***"));
               (KStr (lit "user"), VStr (lit "<***>password=abc"));
               (KOther (lit "i5"), VOther (lit "b00"));
               (KStr (lit "my_secret"),
                  VMap 0 [ (KStr (lit "inner"), VMap 0 [ (KStr (lit "TOKEN2"), VStr (lit "***"));
                                                         (KStr (lit "note"), VStr (lit "<***>n")) ]) ]);
               (KStr (lit "list"), VOther (lit "l[]")) ]).
Proof. vm_compute. reflexivity. Qed.

Example ex_secret_key_holds_mapping :
  exists kd' sub, In (KStr (lit "my_secret"), VMap kd' sub)
                     (match ex_d with VMap _ items => items | _ => [] end)
                  /\ secret_key (KStr (lit "my_secret")) = true.
Proof. eexists. eexists. split; [right; right; right; left; reflexivity|vm_compute; reflexivity]. Qed.

Example ex_non_mapping : is_mapping (VStr (lit "password")) = false /\ is_mapping (VOther (lit "l[m0{}]")) = false.
Proof. split; reflexivity. Qed.

Example ex_case_insensitive :
  In (lit "admin_pass") spec_keys_35 /\ lower_ascii (lit "AdMiN_PaSs") = lit "admin_pass".
Proof. split; [vm_compute; tauto|vm_compute; reflexivity]. Qed.

(* duplicate keys are what wf excludes: a dict cannot hold them, and the model's
   dict assignment would merge them *)
Example ex_not_wf : wf (VMap 0 [(KStr (lit "a"), VStr []); (KStr (lit "a"), VStr [])]) = false.
Proof. reflexivity. Qed.
