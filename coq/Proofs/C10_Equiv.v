(* Proofs/C10_Equiv.v — the statement-by-statement translation of string_to_bytes
   (Gen/C10_Code.v, regenerated from the source on every run) computes the same
   function as the hand-written model (Model/C10.v). *)
From Coq Require Import String.
Require Import OV.Base.Bytes OV.Base.Py OV.Base.PyInt OV.Base.Str OV.Base.Regex OV.Base.PyFloat.
Require Import OV.Model.C10_Regex OV.Gen.C10_Units OV.Model.C10 OV.Gen.C10_Code.
Open Scope Z_scope.

Lemma is_bit_unit_in o : optstr_in o [[98%N]; [98%N; 105%N; 116%N]] = is_bit_unit o.
Proof.
  destruct o as [s|]; [|reflexivity]. unfold optstr_in, is_bit_unit. cbn [existsb].
  rewrite orb_false_r. reflexivity.
Qed.

Theorem gen_string_to_bytes_equiv : forall text unit_system return_int,
  gen_string_to_bytes text unit_system return_int = string_to_bytes text unit_system return_int.
Proof.
  intros t u ri. unfold gen_string_to_bytes, string_to_bytes.
  destruct (lookup u unit_system_info) as [[base rx]|]; [|reflexivity].
  cbv zeta. destruct (rz_match rx t) as [[e g]|]; [|reflexivity].
  unfold float_of_optstr. destruct (group_text t g 1) as [g1|]; [|reflexivity].
  destruct (py_float_of_str g1) as [m|]; [|reflexivity].
  rewrite is_bit_unit_in.
  unfold effective_base, finish, bind, lookup_opt, truthy.
  change (lit "mixed") with [109%N; 105%N; 120%N; 101%N; 100%N]. change (lit "i") with [105%N].
  destruct (is_bit_unit (group_text t g 3));
    [destruct (f_div_int m 8) as [m'|ex]; [|reflexivity]|];
    (destruct (beq u [109%N; 105%N; 120%N; 101%N; 100%N]);
     destruct (group_text t g 2) as [[|c r]|]; cbn [negb]; try reflexivity;
     repeat match goal with
            | |- context [negb (endswith ?a ?b)] => destruct (negb (endswith a b))
            | |- context [lookup ?k unit_prefix_exponent] => destruct (lookup k unit_prefix_exponent)
            end; reflexivity).
Qed.

(* _extract_bytes calls string_to_bytes with the default unit system of the source *)
Lemma gen_default_unit_system_equiv : gen_default_unit_system = lit "IEC".
Proof. reflexivity. Qed.

(* ---------- QemuImgInfo: the translated methods (Gen/C10_QemuCode.v) against the model ---------- *)
Require Import OV.Gen.C10_QemuCode.

Theorem gen_canonicalize_equiv : forall field, gen_canonicalize field = canonicalize field.
Proof. intros. reflexivity. Qed.

Theorem gen_extract_bytes_equiv : forall details, gen_extract_bytes details = extract_bytes details.
Proof.
  intros d. unfold gen_extract_bytes, extract_bytes, search_groups.
  destruct (re_search size_re d) as [[[a e] g]|]; [|reflexivity].
  cbv zeta. destruct (group_text d g 1) as [g1|]; [|reflexivity].
  unfold has_e. change (lit "e") with [101%N].
  unfold float_of_optstr, int_of_optstr, str_of_optstr, bind.
  change (lit "B") with [66%N].
  destruct (occursb [101%N] (py_lower g1)).
  - destruct (py_float_of_str g1) as [x|]; [|reflexivity].
    destruct (truthy (group_text d g 3)); [reflexivity|].
    destruct (group_text d g 2) as [[|c r]|]; cbn [truthy negb]; try reflexivity.
    destruct ((zlen (c :: r) =? 1) && negb (beq (c :: r) [66%N])); reflexivity.
  - destruct (truthy (group_text d g 3)); [reflexivity|].
    destruct (group_text d g 2) as [[|c r]|]; cbn [truthy negb]; try reflexivity.
    destruct ((zlen (c :: r) =? 1) && negb (beq (c :: r) [66%N])); reflexivity.
Qed.

Theorem gen_size_details_equiv : forall root_cmd root_details,
  gen_size_details root_cmd root_details = size_details root_cmd root_details.
Proof.
  intros c d. unfold gen_size_details, size_details, optstr_in.
  match goal with |- context [beq c ?l] => destruct (beq c l) eqn:E end.
  { apply beq_eq in E. subst c. reflexivity. }
  clear E.
  match goal with |- (if existsb (beq c) ?l then _ else _) = _ => change l with size_fields end.
  destruct (existsb (beq c) size_fields).
  - f_equal.
    match goal with |- (if existsb (beq d) ?l then _ else _) = _ => change l with zero_words end.
    destruct (existsb (beq d) zero_words); [reflexivity|].
    rewrite gen_extract_bytes_equiv. destruct (extract_bytes d); reflexivity.
  - repeat match goal with |- context [if ?b then None else _] => destruct b end; reflexivity.
Qed.
