(* Proofs/C12_Equiv.v — the statement-by-statement translation of timeutils.py
   (Gen/C12_Timeutils.v, regenerated from /repo on every run) computes the same function
   as the hand-written model (Model/C12.v), for every argument and every world. *)
From Coq Require Import String.
Require Import OV.Base.Bytes OV.Base.Py.
Require Import OV.Model.C12_Calendar OV.Model.C12_Prim OV.Model.C12 OV.Gen.C12_Timeutils.
Open Scope Z_scope.

Lemma max_datetime_sec_equiv : gen_MAX_DATETIME_SEC = MAX_DATETIME_SEC.
Proof. reflexivity. Qed.

Lemma parse_isotime_equiv : forall s w, gen_parse_isotime s w = parse_isotime s w.
Proof. reflexivity. Qed.

Lemma utcnow_equiv : forall b w, gen_utcnow b w = utcnow b w.
Proof. reflexivity. Qed.

Lemma normalize_time_equiv : forall d w, gen_normalize_time d w = lift (normalize_time d) w.
Proof. intros d w. unfold gen_normalize_time, normalize_time, lift, ret. destruct (dt_utcoffset d); reflexivity. Qed.

Lemma set_time_override_equiv : forall o w, gen_set_time_override o w = set_time_override o w.
Proof. reflexivity. Qed.

Lemma advance_time_delta_equiv : forall d w, gen_advance_time_delta d w = advance_time_delta d w.
Proof. reflexivity. Qed.

Lemma clear_time_override_equiv : forall w, gen_clear_time_override w = clear_time_override w.
Proof. reflexivity. Qed.

Ltac mcase :=
  match goal with
  | |- context [match ?x with _ => _ end] =>
      lazymatch x with
      | context [match _ with _ => _ end] => fail
      | _ => destruct x eqn:?; try reflexivity
      end
  end.

Lemma advance_time_seconds_equiv : forall s w, gen_advance_time_seconds s w = advance_time_seconds s w.
Proof.
  intros s w. unfold gen_advance_time_seconds, advance_time_seconds, bindM, ret.
  change (gen_advance_time_delta (td_of_days_seconds 0 s) w) with (advance_time_delta (td_of_days_seconds 0 s) w).
  destruct (advance_time_delta (td_of_days_seconds 0 s) w) as [[[]|e] w']; reflexivity.
Qed.

Lemma is_older_than_equiv : forall t s w, gen_is_older_than t s w = is_older_than t s w.
Proof.
  intros t s w. unfold gen_is_older_than, is_older_than, targ_to_dt.
  change gen_parse_isotime with parse_isotime. change gen_utcnow with utcnow.
  destruct t as [d|str_]; unfold bindM, ret.
  - rewrite normalize_time_equiv. unfold lift. repeat mcase.
  - destruct (parse_isotime str_ w) as [[d|e] w']; [|reflexivity].
    rewrite normalize_time_equiv. unfold lift. repeat mcase.
Qed.

Lemma is_newer_than_equiv : forall t s w, gen_is_newer_than t s w = is_newer_than t s w.
Proof.
  intros t s w. unfold gen_is_newer_than, is_newer_than, targ_to_dt.
  change gen_parse_isotime with parse_isotime. change gen_utcnow with utcnow.
  destruct t as [d|str_]; unfold bindM, ret.
  - rewrite normalize_time_equiv. unfold lift. repeat mcase.
  - destruct (parse_isotime str_ w) as [[d|e] w']; [|reflexivity].
    rewrite normalize_time_equiv. unfold lift. repeat mcase.
Qed.

Lemma is_soon_equiv : forall t s w, gen_is_soon t s w = is_soon t s w.
Proof.
  intros t s w. unfold gen_is_soon, is_soon. change gen_utcnow with utcnow. unfold bindM, lift, dt_le.
  destruct (utcnow false w) as [[now|e] w']; [|reflexivity].
  destruct (dt_add_td now (td_of_seconds s)) as [soon|e]; [|reflexivity].
  destruct (as_dt t) as [d|e]; [|reflexivity].
  rewrite normalize_time_equiv. unfold lift. repeat mcase.
Qed.

Lemma utcnow_ts_equiv : forall b w, gen_utcnow_ts b w = utcnow_ts b w.
Proof.
  intros b w. unfold gen_utcnow_ts, utcnow_ts. change gen_utcnow with utcnow. unfold bindM, get_ov, ret.
  destruct (ov w) eqn:E; cbn [ov_is_none]; destruct b; cbn [negb]; try reflexivity; repeat mcase.
Qed.

Lemma marshall_now_equiv : forall n w, gen_marshall_now n w = marshall_now n w.
Proof.
  intros n w. unfold gen_marshall_now, marshall_now. change gen_utcnow with utcnow. unfold bindM, ret.
  destruct n as [d|].
  - destruct (dt_has_tzinfo d); reflexivity.
  - destruct (utcnow false w) as [[d|e] w']; [|reflexivity]. destruct (dt_has_tzinfo d); reflexivity.
Qed.

Lemma unmarshall_time_equiv : forall m w, gen_unmarshall_time m w = unmarshall_time m w.
Proof.
  intros m w. unfold gen_unmarshall_time, unmarshall_time. rewrite max_datetime_sec_equiv. unfold bindM, lift, ret.
  repeat mcase.
Qed.

Lemma delta_seconds_equiv : forall a b w, gen_delta_seconds a b w = lift (delta_seconds a b) w.
Proof.
  intros a b w. unfold gen_delta_seconds, delta_seconds, bindM, lift, ret. destruct (dt_sub b a); reflexivity.
Qed.
