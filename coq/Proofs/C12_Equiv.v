(* Proofs/C12_Equiv.v — the statement-by-statement translation of timeutils.py
   (Gen/C12_Timeutils.v, regenerated from /repo on every run) computes the same function
   as the hand-written model (Model/C12.v), for every argument and every world. *)
From Coq Require Import String.
Require Import OV.Base.Bytes OV.Base.Py OV.Base.PyFloat.
Require Import OV.Model.C12_Calendar OV.Model.C12_Prim OV.Model.C12 OV.Gen.C12_Timeutils.
Open Scope Z_scope.

Lemma max_datetime_sec_equiv : gen_MAX_DATETIME_SEC = MAX_DATETIME_SEC.
Proof. reflexivity. Qed.

Lemma parse_isotime_equiv : forall s w, gen_parse_isotime s w = parse_isotime s w.
Proof. reflexivity. Qed.

Lemma utcnow_equiv : forall b w, gen_utcnow b w = utcnow b w.
Proof. reflexivity. Qed.

Lemma normalize_time_equiv : forall d w, gen_normalize_time d w = lift (normalize_time d) w.
Proof. intros d w. unfold gen_normalize_time, normalize_time, lift, ret. destruct (dt_utcoffset d); reflexivity. Qed.

Lemma set_time_override_equiv : forall o w, gen_set_time_override o w = set_time_override o w.
Proof. reflexivity. Qed.

Lemma advance_time_delta_equiv : forall d w, gen_advance_time_delta d w = advance_time_delta d w.
Proof. reflexivity. Qed.

Lemma clear_time_override_equiv : forall w, gen_clear_time_override w = clear_time_override w.
Proof. reflexivity. Qed.

Ltac mcase :=
  match goal with
  | |- context [match ?x with _ => _ end] =>
      lazymatch x with
      | context [match _ with _ => _ end] => fail
      | _ => destruct x eqn:?; try reflexivity
      end
  end.

Lemma advance_time_seconds_equiv : forall s w, gen_advance_time_seconds s w = advance_time_seconds s w.
Proof.
  intros s w. unfold gen_advance_time_seconds, advance_time_seconds, bindM, lift, ret.
  destruct (td_of_days_seconds 0 s) as [u|e]; [|reflexivity].
  change (gen_advance_time_delta u w) with (advance_time_delta u w).
  destruct (advance_time_delta u w) as [[[]|e] w']; reflexivity.
Qed.

Lemma fixture_setUp_equiv : forall o w, gen_fixture_setUp o w = fixture_setUp o w.
Proof. reflexivity. Qed.
Lemma fixture_cleanUp_equiv : forall w, gen_fixture_cleanUp w = fixture_cleanUp w.
Proof. reflexivity. Qed.
Lemma fixture_advance_time_delta_equiv : forall d w, gen_fixture_advance_time_delta d w = fixture_advance_time_delta d w.
Proof. reflexivity. Qed.
Lemma fixture_advance_time_seconds_equiv : forall s w, gen_fixture_advance_time_seconds s w = fixture_advance_time_seconds s w.
Proof. intros. apply advance_time_seconds_equiv. Qed.

Lemma is_older_than_equiv : forall t s w, gen_is_older_than t s w = is_older_than t s w.
Proof.
  intros t s w. unfold gen_is_older_than, is_older_than, targ_to_dt.
  change gen_parse_isotime with parse_isotime. change gen_utcnow with utcnow.
  destruct t as [d|str_]; unfold bindM, ret.
  - rewrite normalize_time_equiv. unfold lift. repeat mcase.
  - destruct (parse_isotime str_ w) as [[d|e] w']; [|reflexivity].
    rewrite normalize_time_equiv. unfold lift. repeat mcase.
Qed.

Lemma is_newer_than_equiv : forall t s w, gen_is_newer_than t s w = is_newer_than t s w.
Proof.
  intros t s w. unfold gen_is_newer_than, is_newer_than, targ_to_dt.
  change gen_parse_isotime with parse_isotime. change gen_utcnow with utcnow.
  destruct t as [d|str_]; unfold bindM, ret.
  - rewrite normalize_time_equiv. unfold lift. repeat mcase.
  - destruct (parse_isotime str_ w) as [[d|e] w']; [|reflexivity].
    rewrite normalize_time_equiv. unfold lift. repeat mcase.
Qed.

Lemma is_soon_equiv : forall t s w, gen_is_soon t s w = is_soon t s w.
Proof.
  intros t s w. unfold gen_is_soon, is_soon, targ_to_dt.
  change gen_parse_isotime with parse_isotime. change gen_utcnow with utcnow.
  destruct t as [d|str_]; unfold bindM, lift, ret, dt_le.
  - destruct (utcnow false w) as [[now|e] w']; [|reflexivity].
    destruct (td_of_seconds s) as [delta|e]; [|reflexivity].
    destruct (dt_add_td now delta) as [soon|e]; [|reflexivity].
    rewrite normalize_time_equiv. unfold lift. repeat mcase.
  - destruct (parse_isotime str_ w) as [[d|e] w0]; [|reflexivity].
    destruct (utcnow false w0) as [[now|e] w']; [|reflexivity].
    destruct (td_of_seconds s) as [delta|e]; [|reflexivity].
    destruct (dt_add_td now delta) as [soon|e]; [|reflexivity].
    rewrite normalize_time_equiv. unfold lift. repeat mcase.
Qed.

Lemma utcnow_ts_equiv : forall b w, gen_utcnow_ts b w = utcnow_ts b w.
Proof.
  intros b w. unfold gen_utcnow_ts, utcnow_ts. change gen_utcnow with utcnow. unfold bindM, get_ov, ret.
  destruct (ov w) eqn:E; cbn [ov_is_none]; destruct b; cbn [negb]; try reflexivity; repeat mcase.
Qed.

Lemma marshall_now_equiv : forall n w, gen_marshall_now n w = marshall_now n w.
Proof.
  intros n w. unfold gen_marshall_now, marshall_now. change gen_utcnow with utcnow. unfold bindM, ret.
  destruct n as [d|].
  - destruct (dt_has_tzinfo d); reflexivity.
  - destruct (utcnow false w) as [[d|e] w']; [|reflexivity]. destruct (dt_has_tzinfo d); reflexivity.
Qed.

Lemma unmarshall_time_equiv : forall m w, gen_unmarshall_time m w = unmarshall_time m w.
Proof.
  intros m w. unfold gen_unmarshall_time, unmarshall_time. rewrite max_datetime_sec_equiv. unfold bindM, lift, ret.
  repeat mcase.
Qed.

Lemma delta_seconds_equiv : forall a b w, gen_delta_seconds a b w = lift (delta_seconds a b) w.
Proof.
  intros a b w. unfold gen_delta_seconds, delta_seconds, bindM, lift, ret. destruct (dt_sub b a); reflexivity.
Qed.

(* ------------------------------------------------------------------ the theorems of Proofs/C12.v, transported to the translated code *)
Require Import OV.Proofs.C12.

Theorem gen_normalize_naive_id d w : tz d = None -> gen_normalize_time d w = (Ok d, w).
Proof. intros H. rewrite normalize_time_equiv. unfold lift. rewrite (normalize_naive_id d H). reflexivity. Qed.

Theorem gen_normalize_preserves_instant d z w : tz d = Some z ->
  gen_normalize_time d w = (if in_range (instant d) then Ok (naive (instant d)) else Exn OverflowError, w).
Proof. intros H. rewrite normalize_time_equiv. unfold lift. rewrite (normalize_preserves_instant d z H). reflexivity. Qed.

Theorem gen_override_returns_instant w t b : ov w = One t -> gen_utcnow b w = (Ok t, w).
Proof. exact (override_returns_instant w t b). Qed.

Theorem gen_set_then_utcnow w t b :
  let w1 := snd (gen_set_time_override (One t) w) in
  ov w1 = One t /\ gen_utcnow b w1 = (Ok t, w1) /\ real w1 = real w.
Proof. exact (set_then_utcnow w t b). Qed.

Theorem gen_utcnow_ts_seconds w t : ov w = One t ->
  gen_utcnow_ts false w = (Ok (FInt (wall t / US_PER_SEC - EPOCH_S)), w).
Proof. intros H. rewrite utcnow_ts_equiv. exact (utcnow_ts_seconds w t H). Qed.

Theorem gen_utcnow_ts_micro w t : ov w = One t -> in_range (wall t) = true ->
  exists e n d, gen_utcnow_ts true w = (Ok e, w) /\ fval e = Some (n, d) /\ 0 < d /\
                n * US_PER_SEC = (wall t - EPOCH_S * US_PER_SEC) * d.
Proof. intros H R. rewrite utcnow_ts_equiv. exact (utcnow_ts_micro w t H R). Qed.

Definition gen_run_adv (a : adv) : M unit :=
  match a with
  | ByDelta u => gen_advance_time_delta u | BySeconds x => gen_advance_time_seconds x
  | FxByDelta u => gen_fixture_advance_time_delta u | FxBySeconds x => gen_fixture_advance_time_seconds x
  end.
Fixpoint gen_run_advs (l : list adv) : M unit :=
  match l with [] => ret tt | a :: r => bindM (gen_run_adv a) (fun _ => gen_run_advs r) end.

Lemma run_advs_equiv l : forall w, gen_run_advs l w = run_advs l w.
Proof.
  induction l as [|a r IH]; intros w; [reflexivity|].
  cbn [gen_run_advs run_advs]. unfold bindM.
  assert (E : gen_run_adv a w = run_adv a w).
  { destruct a; cbn [gen_run_adv run_adv]; try reflexivity;
      [apply advance_time_seconds_equiv | apply fixture_advance_time_seconds_equiv]. }
  rewrite E. destruct (run_adv a w) as [[[]|e] w']; [apply IH|reflexivity].
Qed.

Theorem gen_advance_exact l w t : ov w = One t -> prefixes_ok (wall t) l = true ->
  gen_run_advs l w = (Ok tt, set_ov w (One (mkDt (wall t + sum_us l) (tz t)))).
Proof. intros H P. rewrite run_advs_equiv. exact (advance_exact l w t H P). Qed.

Theorem gen_advance_then_utcnow l w t b : ov w = One t -> prefixes_ok (wall t) l = true ->
  bindM (gen_run_advs l) (fun _ => gen_utcnow b) w =
    (Ok (mkDt (wall t + sum_us l) (tz t)), set_ov w (One (mkDt (wall t + sum_us l) (tz t)))).
Proof. intros H P. unfold bindM. rewrite (gen_advance_exact l w t H P). reflexivity. Qed.

Theorem gen_advance_overflow w t x delta : ov w = One t -> td_of_days_seconds 0 x = Ok delta -> in_range (wall t + delta) = false ->
  gen_advance_time_delta delta w = (Exn OverflowError, w) /\ gen_advance_time_seconds x w = (Exn OverflowError, w).
Proof.
  intros H Hx R. split.
  - exact (advance_overflow w t delta H R).
  - rewrite advance_time_seconds_equiv, (advance_seconds_is_delta x delta w Hx). exact (advance_overflow w t delta H R).
Qed.

(* the fixture's methods ARE the module functions *)
Theorem gen_fixture_is_module :
  (forall o w, gen_fixture_setUp o w = gen_set_time_override o w) /\
  (forall w, gen_fixture_cleanUp w = gen_clear_time_override w) /\
  (forall d w, gen_fixture_advance_time_delta d w = gen_advance_time_delta d w) /\
  (forall x w, gen_fixture_advance_time_seconds x w = gen_advance_time_seconds x w).
Proof. repeat split. Qed.

(* list overrides *)
Fixpoint gen_utcnow_n (n : nat) : M (list dt) :=
  match n with O => ret [] | S k => bindM (gen_utcnow false) (fun d => bindM (gen_utcnow_n k) (fun r => ret (d :: r))) end.
Theorem gen_utcnow_pops_in_order : forall n l w, ov w = Many l -> (n <= length l)%nat ->
  gen_utcnow_n n w = (Ok (firstn n l), set_ov w (Many (skipn n l))).
Proof. exact utcnow_pops_in_order. Qed.
Theorem gen_advance_list_noop w l delta : ov w = Many l ->
  gen_advance_time_delta delta w =
    (if forallb (fun t => in_range (wall t + delta)) l then Ok tt else Exn OverflowError, w).
Proof. exact (advance_list_noop w l delta). Qed.
Theorem gen_aware_override_raises w now z t d s :
  ov w = One now -> tz now = Some z -> resolves w t d -> normalizable d = true ->
  gen_is_older_than t s w = (Exn TypeError, w) /\ gen_is_newer_than t s w = (Exn TypeError, w).
Proof. intros. rewrite is_older_than_equiv, is_newer_than_equiv. eapply older_aware_override_raises; eassumption. Qed.

Theorem gen_older_iff w now t d s su :
  ov w = One now -> tz now = None -> resolves w t d -> normalizable d = true -> td_of_seconds s = Ok su ->
  exists b, gen_is_older_than t s w = (Ok b, w) /\ (b = true <-> wall now - instant d > su).
Proof. intros. rewrite is_older_than_equiv. eapply older_iff; eassumption. Qed.

Theorem gen_newer_iff w now t d s su :
  ov w = One now -> tz now = None -> resolves w t d -> normalizable d = true -> td_of_seconds s = Ok su ->
  exists b, gen_is_newer_than t s w = (Ok b, w) /\ (b = true <-> instant d - wall now > su).
Proof. intros. rewrite is_newer_than_equiv. eapply newer_iff; eassumption. Qed.

Theorem gen_soon_iff w now t d s su :
  ov w = One now -> tz now = None -> resolves w t d -> normalizable d = true -> td_of_seconds s = Ok su ->
  in_range (wall now + su) = true ->
  exists b, gen_is_soon t s w = (Ok b, w) /\ (b = true <-> instant d <= wall now + su).
Proof. intros. rewrite is_soon_equiv. eapply soon_iff; eassumption. Qed.

Lemma marshall_unmarshall_equiv o w : bindM (gen_marshall_now o) gen_unmarshall_time w = bindM (marshall_now o) unmarshall_time w.
Proof.
  unfold bindM. rewrite marshall_now_equiv. destruct (marshall_now o w) as [[m|e] w']; [apply unmarshall_time_equiv|reflexivity].
Qed.

Theorem gen_unmarshall_marshall_naive w d : tz d = None -> in_range (wall d) = true ->
  bindM (gen_marshall_now (Some d)) gen_unmarshall_time w = (Ok d, w).
Proof. intros. rewrite marshall_unmarshall_equiv. apply unmarshall_marshall_naive; assumption. Qed.

Theorem gen_unmarshall_marshall_utc w d n z :
  tz d = Some (mkTz 0 (Some n)) -> is_utc_name n = true -> in_range (wall d) = true ->
  lib_zone w utc_name = Ok z -> z_utcoffset z (wall d) = 0 ->
  exists d', bindM (gen_marshall_now (Some d)) gen_unmarshall_time w = (Ok d', w) /\
             wall d' = wall d /\ dt_utcoffset d' = Some 0 /\ instant d' = instant d.
Proof. intros. rewrite marshall_unmarshall_equiv. eapply unmarshall_marshall_utc; eassumption. Qed.

Theorem gen_unmarshall_leap_capped m w : 59 <= m_second m ->
  gen_unmarshall_time m w = gen_unmarshall_time (with_second m 59) w.
Proof. intros. rewrite !unmarshall_time_equiv. apply unmarshall_leap_capped. assumption. Qed.

Theorem gen_marshall_fields w d : in_range (wall d) = true ->
  exists m, gen_marshall_now (Some d) w = (Ok m, w) /\
    us_of_fields (mkF (m_year m) (m_month m) (m_day m) (m_hour m) (m_minute m) (m_second m) (m_microsecond m)) = wall d.
Proof. intros. rewrite marshall_now_equiv. apply marshall_fields. assumption. Qed.

Theorem gen_marshall_now_override w t : ov w = One t -> gen_marshall_now None w = gen_marshall_now (Some t) w.
Proof. intros. rewrite !marshall_now_equiv. apply marshall_now_override. assumption. Qed.

(* parse_isotime with the modelled iso8601 as the library inverts isoformat *)
Require Import OV.Model.C12_Iso OV.Proofs.C12_Iso.
Theorem gen_parse_isotime_inverts_isoformat w d :
  lib_parse w = iso_parse -> in_range (wall d) = true -> iso_offset_ok d = true ->
  exists d', gen_parse_isotime (iso_format d) w = (Ok d', w) /\ wall d' = wall d /\ instant d' = instant d.
Proof.
  intros HL R Ho. destruct (iso_roundtrip_instant d R Ho) as (d' & E & W & I).
  exists d'. unfold gen_parse_isotime. rewrite HL, E. auto.
Qed.
