(* Proofs/C07_Vhdx.v — C07 for the VHDX inspector: region table -> metadata region -> metadata table ->
   virtual disk size item, for every table layout admitted by wf_vhdx and every chunking. *)
From Coq Require Import String.
Require Import OV.Base.Bytes OV.Base.Py OV.Base.Str OV.Base.Insp_Struct OV.Gen.Insp_Consts
               OV.Model.Insp_Engine OV.Model.Insp_All OV.Model.Insp_Vhdx OV.Model.C07
               OV.Proofs.C07_Engine OV.Proofs.C07_Vmdk.
Open Scope N_scope.

(* ---------- the two table walks ---------- *)
Lemma guid_is_16 buf g : blen buf = 16 -> vhdx_guid_is buf g = Ok (beq buf g).
Proof. intros H. unfold vhdx_guid_is. rewrite unpack_ok by (rewrite H; reflexivity). reflexivity. Qed.

Lemma bslice_bskip o L n b : bslice o L (bskip n b) = bslice (n + o) L b.
Proof. unfold bslice. rewrite bskip_bskip. reflexivity. Qed.

Lemma N_of_nat_S j : N.of_nat (S j) = N.of_nat j + 1.
Proof. lia. Qed.

(* region table: [rest] = table[16 + 32*i :]; the first entry whose GUID is the metadata region's is entry j *)
Lemma rt_loop_find j : forall k rest,
  (j < k)%nat -> 32 * N.of_nat (S j) <= blen rest ->
  (forall i, (i < j)%nat -> beq (bslice (32 * N.of_nat i) 16 rest) VHDX_GUID_METAREGION = false) ->
  beq (bslice (32 * N.of_nat j) 16 rest) VHDX_GUID_METAREGION = true ->
  vhdx_rt_loop k rest
  = Ok (Some (mkRspec false (le_val (bslice (32 * N.of_nat j + 16) 8 rest)) (VHDX_META_A * VHDX_META_B) None)).
Proof.
  induction j as [|j IH]; intros k rest Hk Hl Hbefore Hat; (destruct k as [|k]; [lia|]); cbn [vhdx_rt_loop].
  - change (32 * N.of_nat 0) with 0 in *. change VHDX_RT_ENTRY with 32. change VHDX_RT_GUID with 16. change VHDX_RT_REST with 16.
    rewrite !ntake_bslice, !nskip_bskip. rewrite (bslice_bslice 0 32 0 16 rest) by (vm_compute; discriminate). rewrite N.add_0_l.
    rewrite guid_is_16 by (rewrite blen_bslice; lia). cbn [bind]. rewrite Hat.
    replace (bskip 16 (bslice 0 32 rest)) with (bslice 16 16 rest).
    2:{ unfold bslice. rewrite bskip_0. rewrite bskip_btake. reflexivity. }
    rewrite unpack_ok by (rewrite blen_bslice; change (sf_size sf_vhdx_rt_rest) with 16; lia). cbn [bind].
    unfold sint, sraw. cbn [sf_vhdx_rt_rest sf_big sf_fields nth].
    rewrite (bslice_bslice 16 16 0 8 rest) by (vm_compute; discriminate). reflexivity.
  - change VHDX_RT_ENTRY with 32. change VHDX_RT_GUID with 16. change VHDX_RT_STRIDE with 32.
    rewrite !ntake_bslice, !nskip_bskip. rewrite (bslice_bslice 0 32 0 16 rest) by (vm_compute; discriminate). rewrite N.add_0_l.
    rewrite guid_is_16 by (rewrite blen_bslice; lia). cbn [bind].
    pose proof (Hbefore 0%nat ltac:(lia)) as H0. change (32 * N.of_nat 0) with 0 in H0. rewrite H0.
    rewrite (IH k (bskip 32 rest)).
    + rewrite bslice_bskip. replace (32 + (32 * N.of_nat j + 16)) with (32 * N.of_nat (S j) + 16) by lia. reflexivity.
    + lia.
    + rewrite blen_bskip. lia.
    + intros i Hi. rewrite bslice_bskip. replace (32 + 32 * N.of_nat i) with (32 * N.of_nat (S i)) by lia. apply Hbefore. lia.
    + rewrite bslice_bskip. replace (32 + 32 * N.of_nat j) with (32 * N.of_nat (S j)) by lia. exact Hat.
Qed.

(* metadata table: [rest] = table[32 + 32*i :]; result (item offset, clamped item length) *)
Lemma mt_loop_find g j : forall k rest,
  (j < k)%nat -> 32 * N.of_nat (S j) <= blen rest ->
  (forall i, (i < j)%nat -> beq (bslice (32 * N.of_nat i) 16 rest) g = false) ->
  beq (bslice (32 * N.of_nat j) 16 rest) g = true ->
  vhdx_mt_loop k g rest
  = Ok (Some (le_val (bslice (32 * N.of_nat j + 16) 4 rest),
              N.min (le_val (bslice (32 * N.of_nat j + 20) 4 rest)) VHDX_VHDX_METADATA_TABLE_MAX_SIZE)).
Proof.
  induction j as [|j IH]; intros k rest Hk Hl Hbefore Hat; (destruct k as [|k]; [lia|]); cbn [vhdx_mt_loop].
  - change (32 * N.of_nat 0) with 0 in *. change VHDX_MT_GUID with 16.
    rewrite ntake_bslice. rewrite guid_is_16 by (rewrite blen_bslice; lia). cbn [bind]. rewrite Hat.
    rewrite nsub_bslice. change (VHDX_MT_F_HI - VHDX_MT_F_LO) with 12. change VHDX_MT_F_LO with 16.
    rewrite unpack_ok by (rewrite blen_bslice; change (sf_size sf_vhdx_mt_item) with 12; lia). cbn [bind].
    unfold sint, sraw. cbn [sf_vhdx_mt_item sf_big sf_fields nth].
    rewrite (bslice_bslice 16 12 0 4 rest) by (vm_compute; discriminate).
    rewrite (bslice_bslice 16 12 4 4 rest) by (vm_compute; discriminate). reflexivity.
  - change VHDX_MT_GUID with 16. change VHDX_MT_STRIDE2 with 32.
    rewrite !ntake_bslice, !nskip_bskip. rewrite guid_is_16 by (rewrite blen_bslice; lia). cbn [bind].
    pose proof (Hbefore 0%nat ltac:(lia)) as H0. change (32 * N.of_nat 0) with 0 in H0. rewrite H0.
    rewrite (IH k (bskip 32 rest)).
    + rewrite !bslice_bskip. replace (32 + (32 * N.of_nat j + 16)) with (32 * N.of_nat (S j) + 16) by lia.
      replace (32 + (32 * N.of_nat j + 20)) with (32 * N.of_nat (S j) + 20) by lia. reflexivity.
    + lia.
    + rewrite blen_bskip. lia.
    + intros i Hi. rewrite bslice_bskip. replace (32 + 32 * N.of_nat i) with (32 * N.of_nat (S i)) by lia. apply Hbefore. lia.
    + rewrite bslice_bskip. replace (32 + 32 * N.of_nat j) with (32 * N.of_nat (S j)) by lia. exact Hat.
Qed.

Lemma others_before_spec base k g b i :
  others_before base k g b = true -> (i < k)%nat -> beq (entry_guid base i b) g = false.
Proof.
  unfold others_before. intros H Hi. rewrite forallb_forall in H.
  specialize (H i). rewrite negb_true_iff in H. apply H. apply in_seq. lia.
Qed.

Section VhdxImage.
Variables (w : bytes) (size : N) (l : vhdx_layout).
Hypothesis Hsize : size < 2 ^ 64.
Hypothesis Hwf : wf_vhdx size l w = true.
Local Notation mo := (vl_meta_off l).
Local Notation io := (vl_item_off l).
Local Notation rc := (vl_rt_count l).
Local Notation ri := (vl_rt_index l).
Local Notation mc := (vl_mt_count l).
Local Notation mi := (vl_mt_index l).
Local Notation es := (32 + 32 * vl_mt_count l).          (* the metadata table: header + entries *)
Local Notation vo := (vl_meta_off l + vl_item_off l).    (* file offset of the size item *)

Record vhdx_facts : Prop := {
  F_ident : prefixb SPEC_VHDX_IDENT w = true;
  F_regi : bslice 196608 4 w = SPEC_VHDX_REGI;
  F_rc : bslice 196616 4 w = le_enc 4 rc;
  F_rc_max : rc <= 2047;
  F_ri : N.of_nat ri < rc;
  F_rt_before : forall i, (i < ri)%nat -> beq (entry_guid 196624 i w) SPEC_GUID_METAREGION = false;
  F_rt_at : entry_guid 196624 ri w = SPEC_GUID_METAREGION;
  F_rt_off : bslice (196624 + 32 * N.of_nat ri + 16) 8 w = le_enc 8 mo;
  F_mo : 262144 <= mo;
  F_mo64 : mo < 18446744073709551616;
  F_sig : bslice mo 8 w = SPEC_VHDX_META_SIG;
  F_mc : bslice (mo + 10) 2 w = le_enc 2 mc;
  F_mc_max : mc <= 2047;
  F_mi : N.of_nat mi < mc;
  F_mt_before : forall i, (i < mi)%nat -> beq (entry_guid (mo + 32) i w) SPEC_GUID_VDS = false;
  F_mt_at : entry_guid (mo + 32) mi w = SPEC_GUID_VDS;
  F_mt_off : bslice (mo + 32 + 32 * N.of_nat mi + 16) 4 w = le_enc 4 io;
  F_mt_len : bslice (mo + 32 + 32 * N.of_nat mi + 20) 4 w = le_enc 4 8;
  F_io : es <= io;
  F_io32 : io < 4294967296;
  F_item : bslice vo 8 w = le_enc 8 size;
  F_len : vo + 8 <= blen w
}.

Lemma facts : vhdx_facts.
Proof.
  pose proof Hwf as W. unfold wf_vhdx, SPEC_VHDX_RT, SPEC_VHDX_RT_END, SPEC_VHDX_MAX_ENTRIES, vhdx_known_at in W.
  change (196608 + 16) with 196624 in W. change (196608 + 8) with 196616 in W.
  repeat (apply andb_true_iff in W; destruct W as [W ?]).
  repeat match goal with H : beq _ _ = true |- _ => apply beq_eq in H end.
  constructor; try assumption; try lia.
  - intros i Hi. eapply others_before_spec; eassumption.
  - intros i Hi. eapply others_before_spec; eassumption.
Qed.

(* ---------- the shapes of the inspector object ---------- *)
Definition vi (b : bytes) : region := mkRegion 0 false 0 32 None (bslice 0 32 b) false.
Definition vt (b : bytes) : region := mkRegion 1 false 196608 65536 None (bslice 196608 65536 b) false.
Definition vm (b : bytes) : region := mkRegion 2 false mo 65536 None (bslice mo 65536 b) false.
(* the metadata region once the size item has been located: its length is frozen at what had been captured *)
Definition vmf (b : bytes) : region := mkRegion 2 false mo (blen (bslice mo 65536 b)) None (bslice mo 65536 b) false.
Definition vv (b : bytes) : region := mkRegion 3 false vo 8 None (bslice vo 8 b) false.

Definition sA (pos : N) (b : bytes) : ist unit :=
  mkIst pos [(R_ident, vi b); (R_header, vt b)] 2 false [K_null] tt.
Definition sB (pos : N) (bh bm : bytes) : ist unit :=
  mkIst pos [(R_ident, vi bh); (R_header, vt bh); (R_metadata, vm bm)] 3 false [K_null] tt.
Definition sC (pos : N) (bh bm bv : bytes) : ist unit :=
  mkIst pos [(R_ident, vi bh); (R_header, vt bh); (R_metadata, vmf bm); (R_vds, vv bv)] 4 false [K_null] tt.

Lemma rcomplete_vt b : rcomplete (vt b) = (262144 <=? blen b).
Proof.
  unfold rcomplete, base_complete, vt. cbn [r_end r_min r_len r_data]. rewrite flen_blen, blen_bslice.
  rewrite (full_iff_reached 196608 65536 (blen b)) by lia. reflexivity.
Qed.
Lemma rcomplete_vmf b : rcomplete (vmf b) = true.
Proof. unfold rcomplete, base_complete, vmf. cbn [r_end r_min r_len r_data]. rewrite flen_blen. apply N.eqb_refl. Qed.
Lemma rcomplete_vv b : rcomplete (vv b) = (vo + 8 <=? blen b).
Proof.
  unfold rcomplete, base_complete, vv. cbn [r_end r_min r_len r_data]. rewrite flen_blen, blen_bslice.
  rewrite (full_iff_reached vo 8 (blen b)) by lia. reflexivity.
Qed.

(* ---------- _find_meta_region ---------- *)
Lemma find_meta_region (s : ist unit) bh :
  rget R_header (i_regs s) = Some (vt bh) -> is_prefix bh w = true -> 262144 <= blen bh ->
  vhdx_find_meta_region s = Ok (Some (mkRspec false mo 65536 None)).
Proof.
  intros Hg Hp Hl. pose proof facts as FX. pose proof (F_rc_max FX). pose proof (F_ri FX). pose proof (F_mo FX). unfold vhdx_find_meta_region, get_region. rewrite Hg. cbn [bind vt r_data].
  rewrite (prefix_bslice bh w 196608 65536 Hp) by lia.
  assert (Hw : 262144 <= blen w) by (apply is_prefix_blen in Hp; lia).
  set (RT := bslice 196608 65536 w).
  assert (HRT : blen RT = 65536) by (unfold RT; rewrite blen_bslice; lia).
  rewrite ntake_bslice. change VHDX_RT_HDR with 16.
  rewrite unpack_ok by (rewrite blen_bslice; change (sf_size sf_vhdx_rt_hdr) with 16; lia). cbn [bind].
  unfold sint, sraw. cbn [sf_vhdx_rt_hdr sf_big sf_fields nth].
  rewrite !(bslice_bslice 0 16 0 4 RT), !(bslice_bslice 0 16 8 4 RT) by (vm_compute; discriminate).
  assert (Hregi : bslice (0 + 0) 4 RT = bslice 196608 4 w) by (unfold RT; rewrite bslice_bslice by (vm_compute; discriminate); reflexivity).
  assert (Hcnt : bslice (0 + 8) 4 RT = bslice 196616 4 w) by (unfold RT; rewrite bslice_bslice by (vm_compute; discriminate); reflexivity).
  rewrite Hregi, Hcnt.
  rewrite (F_regi FX), (F_rc FX). change (le_val SPEC_VHDX_REGI =? VHDX_REGI) with true. cbn [negb].
  rewrite (le_val_enc 4 rc) by (change (256 ^ N.of_nat 4) with 4294967296; lia).
  change VHDX_RT_LIMIT with 2048. replace (2048 <=? rc) with false by lia.
  rewrite nskip_bskip. change VHDX_RT_FIRST with 16.
  assert (Hsl : forall o L, 16 + o + L <= 65536 -> bslice o L (bskip 16 RT) = bslice (196624 + o) L w).
  { intros o L HoL. rewrite bslice_bskip. unfold RT. rewrite bslice_bslice by lia. f_equal. lia. }
  rewrite (rt_loop_find ri).
  - rewrite Hsl by lia. replace (196624 + (32 * N.of_nat ri + 16)) with (196624 + 32 * N.of_nat ri + 16) by lia.
    rewrite (F_rt_off FX). rewrite (le_val_enc 8 mo) by exact (F_mo64 FX). reflexivity.
  - lia.
  - rewrite blen_bskip, HRT. lia.
  - intros i Hi. rewrite Hsl by lia. apply (F_rt_before FX). exact Hi.
  - rewrite Hsl by lia. change VHDX_GUID_METAREGION with SPEC_GUID_METAREGION. pose proof (F_rt_at FX) as Hat. unfold entry_guid in Hat.
    rewrite Hat. apply beq_refl.
Qed.

(* ---------- _find_meta_entry(VIRTUAL_DISK_SIZE) ---------- *)
(* the metadata table is not complete yet: nothing happens *)
Lemma find_meta_entry_short (s : ist unit) bm :
  rget R_metadata (i_regs s) = Some (vm bm) -> is_prefix bm w = true -> blen bm < mo + es ->
  vhdx_find_meta_entry VHDX_GUID_VIRTUAL_DISK_SIZE s = (s, Ok None).
Proof.
  intros Hg Hp Hl. pose proof facts as FX. pose proof (F_mc_max FX). pose proof (F_mo FX).
  unfold vhdx_find_meta_entry, get_region. rewrite Hg. cbn [vm r_data].
  set (buf := bslice mo 65536 bm).
  assert (Hbl : blen buf = N.min 65536 (blen bm - mo)) by (unfold buf; apply blen_bslice).
  rewrite !flen_blen. change VHDX_MT_MIN with 32.
  destruct (blen buf <? 32) eqn:E32; [reflexivity|].
  rewrite ntake_bslice. change VHDX_MT_HDR with 12.
  rewrite unpack_ok by (rewrite blen_bslice; change (sf_size sf_vhdx_mt_hdr) with 12; lia).
  unfold sint, sraw. cbn [sf_vhdx_mt_hdr sf_big sf_fields nth].
  rewrite !(bslice_bslice 0 12 0 8 buf), !(bslice_bslice 0 12 10 2 buf) by (vm_compute; discriminate).
  assert (Hsl : forall o L, o + L <= 32 -> bslice o L buf = bslice (mo + o) L w).
  { intros o L HoL. unfold buf. rewrite bslice_bslice by lia. apply prefix_bslice; [exact Hp|lia]. }
  rewrite !Hsl by (vm_compute; discriminate). change (mo + (0 + 0)) with (mo + 0). rewrite N.add_0_r.
  change (0 + 10) with 10.
  rewrite (F_sig FX), (F_mc FX). change VHDX_META_SIG with SPEC_VHDX_META_SIG. rewrite beq_refl. cbn [negb].
  rewrite (le_val_enc 2 mc) by (change (256 ^ N.of_nat 2) with 65536; lia).
  change VHDX_MT_BASE with 32. change VHDX_MT_STRIDE with 32.
  replace (blen buf <? 32 + mc * 32) with true by lia. reflexivity.
Qed.

(* the chunk that completes the table: the size item is located, the metadata region is frozen *)
Lemma find_meta_entry_found (s : ist unit) bm :
  rget R_metadata (i_regs s) = Some (vm bm) -> is_prefix bm w = true -> mo + es <= blen bm ->
  vhdx_find_meta_entry VHDX_GUID_VIRTUAL_DISK_SIZE s
  = (set_regs s (rset R_metadata (vmf bm) (i_regs s)), Ok (Some (mkRspec false vo 8 None))).
Proof.
  intros Hg Hp Hl. pose proof facts as FX. pose proof (F_mc_max FX). pose proof (F_mo FX). pose proof (F_mi FX).
  unfold vhdx_find_meta_entry, get_region. rewrite Hg. cbn [vm r_data r_off].
  set (buf := bslice mo 65536 bm).
  assert (Hbl : blen buf = N.min 65536 (blen bm - mo)) by (unfold buf; apply blen_bslice).
  rewrite !flen_blen. change VHDX_MT_MIN with 32.
  replace (blen buf <? 32) with false by lia.
  rewrite ntake_bslice. change VHDX_MT_HDR with 12.
  rewrite unpack_ok by (rewrite blen_bslice; change (sf_size sf_vhdx_mt_hdr) with 12; lia).
  unfold sint, sraw. cbn [sf_vhdx_mt_hdr sf_big sf_fields nth].
  rewrite !(bslice_bslice 0 12 0 8 buf), !(bslice_bslice 0 12 10 2 buf) by (vm_compute; discriminate).
  assert (Hsl : forall o L, o + L <= es -> bslice o L buf = bslice (mo + o) L w).
  { intros o L HoL. unfold buf. rewrite bslice_bslice by lia. apply prefix_bslice; [exact Hp|lia]. }
  rewrite !Hsl by lia. change (mo + (0 + 0)) with (mo + 0). rewrite N.add_0_r. change (0 + 10) with 10.
  rewrite (F_sig FX), (F_mc FX). change VHDX_META_SIG with SPEC_VHDX_META_SIG. rewrite beq_refl. cbn [negb].
  rewrite (le_val_enc 2 mc) by (change (256 ^ N.of_nat 2) with 65536; lia).
  change VHDX_MT_BASE with 32. change VHDX_MT_STRIDE with 32. change VHDX_MT_LIMIT with 2048. change VHDX_MT_BASE2 with 32.
  replace (blen buf <? 32 + mc * 32) with false by lia. replace (2048 <=? mc) with false by lia.
  rewrite nskip_bskip.
  assert (Hsl2 : forall o L, 32 + o + L <= es -> bslice o L (bskip 32 buf) = bslice (mo + 32 + o) L w).
  { intros o L HoL. rewrite bslice_bskip. rewrite Hsl by lia. f_equal. lia. }
  rewrite (mt_loop_find VHDX_GUID_VIRTUAL_DISK_SIZE mi).
  - rewrite !Hsl2 by lia.
    replace (mo + 32 + (32 * N.of_nat mi + 16)) with (mo + 32 + 32 * N.of_nat mi + 16) by lia.
    replace (mo + 32 + (32 * N.of_nat mi + 20)) with (mo + 32 + 32 * N.of_nat mi + 20) by lia.
    rewrite (F_mt_off FX), (F_mt_len FX).
    rewrite (le_val_enc 4 io) by (change (256 ^ N.of_nat 4) with 4294967296; exact (F_io32 FX)).
    rewrite (le_val_enc 4 8) by (vm_compute; reflexivity).
    change (N.min 8 VHDX_VHDX_METADATA_TABLE_MAX_SIZE) with 8. reflexivity.
  - lia.
  - rewrite blen_bskip. lia.
  - intros i Hi. rewrite Hsl2 by lia. apply (F_mt_before FX). exact Hi.
  - rewrite Hsl2 by lia. change VHDX_GUID_VIRTUAL_DISK_SIZE with SPEC_GUID_VDS. pose proof (F_mt_at FX) as Hat.
    unfold entry_guid in Hat. rewrite Hat. apply beq_refl.
Qed.

(* ---------- post_process on each shape ---------- *)
Lemma post_A_incomplete pos bh : blen bh < 262144 -> vhdx_post (sA pos bh) = (sA pos bh, None).
Proof.
  intros H. unfold vhdx_post, get_region, has_region, rhas. cbn [sA i_regs rget].
  change (rname_beq R_ident R_header) with false. change (rname_beq R_header R_header) with true. cbv iota.
  rewrite rcomplete_vt. replace (262144 <=? blen bh) with false by lia. reflexivity.
Qed.

Lemma post_A_complete pos bh bm0 :
  262144 <= blen bh -> is_prefix bh w = true -> blen bm0 <= mo ->
  vhdx_post (sA pos bh) = (sB pos bh bm0, None).
Proof.
  intros Hl Hp Hm. unfold vhdx_post, get_region.
  assert (Hg : rget R_header (i_regs (sA pos bh)) = Some (vt bh)) by reflexivity.
  rewrite Hg. rewrite rcomplete_vt. replace (262144 <=? blen bh) with true by lia.
  change (has_region R_metadata (sA pos bh)) with false. cbn [negb andb].
  rewrite (find_meta_region _ bh Hg Hp Hl).
  unfold sB, vm. rewrite (bslice_beyond mo 65536 bm0 Hm). reflexivity.
Qed.

Lemma post_B_short pos bh bm :
  262144 <= blen bh -> is_prefix bm w = true -> blen bm < mo + es ->
  vhdx_post (sB pos bh bm) = (sB pos bh bm, None).
Proof.
  intros Hl Hp Hm. unfold vhdx_post, get_region.
  assert (Hg : rget R_header (i_regs (sB pos bh bm)) = Some (vt bh)) by reflexivity.
  rewrite Hg. change (has_region R_metadata (sB pos bh bm)) with true. change (has_region R_vds (sB pos bh bm)) with false.
  rewrite andb_false_r. cbn [negb andb].
  rewrite (find_meta_entry_short _ bm) by (try reflexivity; assumption). reflexivity.
Qed.

Lemma post_B_found pos bh bm bv0 :
  is_prefix bm w = true -> mo + es <= blen bm -> blen bv0 <= vo ->
  vhdx_post (sB pos bh bm) = (sC pos bh bm bv0, None).
Proof.
  intros Hp Hm Hv. unfold vhdx_post, get_region.
  assert (Hg : rget R_header (i_regs (sB pos bh bm)) = Some (vt bh)) by reflexivity.
  rewrite Hg. change (has_region R_metadata (sB pos bh bm)) with true. change (has_region R_vds (sB pos bh bm)) with false.
  rewrite andb_false_r. cbn [negb andb].
  rewrite (find_meta_entry_found _ bm) by (try reflexivity; assumption).
  unfold sC, vv. rewrite (bslice_beyond vo 8 bv0 Hv). reflexivity.
Qed.

Lemma post_C pos bh bm bv : vhdx_post (sC pos bh bm bv) = (sC pos bh bm bv, None).
Proof.
  unfold vhdx_post, get_region.
  assert (Hg : rget R_header (i_regs (sC pos bh bm bv)) = Some (vt bh)) by reflexivity.
  rewrite Hg. change (has_region R_metadata (sC pos bh bm bv)) with true. change (has_region R_vds (sC pos bh bm bv)) with true.
  rewrite andb_false_r. reflexivity.
Qed.

(* ---------- capture on each region ---------- *)
Lemma cap1_vi b c : cap1 c (blen b + flen c) (vi b) = vi (b ++ c).
Proof. rewrite cap1_plain with (b := b); [reflexivity|split; reflexivity|reflexivity]. Qed.
Lemma cap1_vt b c : cap1 c (blen b + flen c) (vt b) = vt (b ++ c).
Proof. rewrite cap1_plain with (b := b); [reflexivity|split; reflexivity|reflexivity]. Qed.
Lemma cap1_vm b c : cap1 c (blen b + flen c) (vm b) = vm (b ++ c).
Proof. rewrite cap1_plain with (b := b); [reflexivity|split; reflexivity|reflexivity]. Qed.
Lemma cap1_vv b c : cap1 c (blen b + flen c) (vv b) = vv (b ++ c).
Proof. rewrite cap1_plain with (b := b); [reflexivity|split; reflexivity|reflexivity]. Qed.
Lemma cap1_vmf bm c pos : cap1 c pos (vmf bm) = vmf bm.
Proof. unfold cap1. rewrite rcomplete_vmf. reflexivity. Qed.

Lemma capture_only_meta c pos a h m :
  capture_regs [R_metadata] c pos [(R_ident, a); (R_header, h); (R_metadata, m)]
  = [(R_ident, a); (R_header, h); (R_metadata, cap1 c pos m)].
Proof.
  unfold capture_regs, cap1. cbn [map mem_rname].
  change (rname_beq R_metadata R_ident) with false. change (rname_beq R_metadata R_header) with false.
  change (rname_beq R_metadata R_metadata) with true. cbn [orb negb].
  destruct (r_end m || negb (rcomplete m)); reflexivity.
Qed.

Lemma capture_only_vds c pos a h m v :
  capture_regs [R_vds] c pos [(R_ident, a); (R_header, h); (R_metadata, m); (R_vds, v)]
  = [(R_ident, a); (R_header, h); (R_metadata, m); (R_vds, cap1 c pos v)].
Proof.
  unfold capture_regs, cap1. cbn [map mem_rname].
  change (rname_beq R_vds R_ident) with false. change (rname_beq R_vds R_header) with false.
  change (rname_beq R_vds R_metadata) with false. change (rname_beq R_vds R_vds) with true. cbn [orb negb].
  destruct (r_end v || negb (rcomplete v)); reflexivity.
Qed.

(* ---------- the part of eat_chunk that follows the capture once the metadata region exists and has been
   offered the chunk: post_process, then the `while new_regions` loop with known = {ident, header, metadata} ---------- *)
Definition after_meta (b c : bytes) : ist unit :=
  if blen (b ++ c) <? mo + es then sB (blen b + flen c) (b ++ c) (b ++ c) else sC (blen b + flen c) (b ++ c) (b ++ c) (b ++ c).

Lemma tail_B fuel b c :
  is_prefix (b ++ c) w = true -> 262144 <= blen (b ++ c) -> blen b < mo + es ->
  (let (s2, o) := vhdx_post (sB (blen b + flen c) (b ++ c) (b ++ c)) in
   match o with
   | Some e => (s2, Some e)
   | None => settle (S fuel) vhdx_fmt c [0%nat; 1%nat; 2%nat] s2
   end) = (after_meta b c, None).
Proof.
  intros Hw Hl Hb. pose proof facts as FX. pose proof (F_io FX). unfold after_meta.
  destruct (blen (b ++ c) <? mo + es) eqn:E.
  - rewrite post_B_short by (try assumption; lia). apply settle_done. reflexivity.
  - rewrite (post_B_found _ _ _ b) by (try assumption; lia).
    rewrite (settle_step vhdx_fmt fuel c _ _ R_vds []) by reflexivity.
    cbn zeta. cbn [sC i_regs i_pos set_regs i_next i_fin i_checks i_ext]. rewrite capture_only_vds, cap1_vv.
    change (f_post vhdx_fmt) with vhdx_post.
    match goal with |- context [vhdx_post ?st] => change st with (sC (blen b + flen c) (b ++ c) (b ++ c) (b ++ c)) end.
    rewrite post_C. apply settle_done. reflexivity.
Qed.

(* ---------- the invariant ---------- *)
Inductive hinv (b : bytes) : ist unit -> Prop :=
| HA : blen b < 262144 -> hinv b (sA (blen b) b)
| HB : 262144 <= blen b -> blen b < mo + es -> hinv b (sB (blen b) b b)
| HC bm : mo + es <= blen b -> hinv b (sC (blen b) b bm b).

Lemma hinv_init : hinv [] (init_ist vhdx_fmt).
Proof. change (init_ist vhdx_fmt) with (sA (blen []) []). apply HA. reflexivity. Qed.

Lemma vhdx_no_callbacks names (s : ist unit) : run_callbacks vhdx_fmt names s = (s, None).
Proof. apply run_callbacks_none. reflexivity. Qed.

Lemma hinv_after_meta b c : 262144 <= blen (b ++ c) -> hinv (b ++ c) (after_meta b c).
Proof.
  intros H. unfold after_meta. rewrite flen_blen, <- blen_app.
  destruct (blen (b ++ c) <? mo + es) eqn:E; [apply HB|apply HC]; lia.
Qed.

Lemma step_HA b c :
  blen b < 262144 -> is_prefix (b ++ c) w = true ->
  exists s', eat_chunk vhdx_fmt (sA (blen b) b) c = (s', None) /\ hinv (b ++ c) s'.
Proof.
  intros Hb Hw. pose proof facts as FX. pose proof (F_mo FX).
  rewrite eat_chunk_unfold by reflexivity. cbn zeta. cbn [sA i_pos i_next i_checks i_ext i_regs].
  rewrite capture_regs_all. cbn [map fst snd]. rewrite cap1_vi, cap1_vt.
  change (f_post vhdx_fmt) with vhdx_post.
  match goal with |- context [vhdx_post ?st] => change st with (sA (blen b + flen c) (b ++ c)) end.
  destruct (blen (b ++ c) <? 262144) eqn:E.
  - rewrite post_A_incomplete by lia. rewrite settle_done by reflexivity. rewrite vhdx_no_callbacks.
    eexists. split; [reflexivity|]. rewrite flen_blen, <- blen_app. apply HA. lia.
  - rewrite (post_A_complete _ _ b) by (try assumption; lia).
    unfold eat_fuel. rewrite (settle_step vhdx_fmt _ c _ _ R_metadata []) by reflexivity.
    cbn zeta. cbn [sB i_regs i_pos set_regs i_next i_fin i_checks i_ext]. rewrite capture_only_meta, cap1_vm.
    change (f_post vhdx_fmt) with vhdx_post.
    match goal with |- context [vhdx_post ?st] => change st with (sB (blen b + flen c) (b ++ c) (b ++ c)) end.
    cbn [ids map snd vi vt vm r_id].
    rewrite tail_B by (try assumption; lia). rewrite vhdx_no_callbacks.
    eexists. split; [reflexivity|]. apply hinv_after_meta. lia.
Qed.

Lemma step_HB b c :
  262144 <= blen b -> blen b < mo + es -> is_prefix (b ++ c) w = true ->
  exists s', eat_chunk vhdx_fmt (sB (blen b) b b) c = (s', None) /\ hinv (b ++ c) s'.
Proof.
  intros Hb1 Hb2 Hw.
  rewrite eat_chunk_unfold by reflexivity. cbn zeta. cbn [sB i_pos i_next i_checks i_ext i_regs].
  rewrite capture_regs_all. cbn [map fst snd]. rewrite cap1_vi, cap1_vt, cap1_vm.
  change (f_post vhdx_fmt) with vhdx_post.
  match goal with |- context [vhdx_post ?st] => change st with (sB (blen b + flen c) (b ++ c) (b ++ c)) end.
  pose proof facts as FX. pose proof (F_io FX).
  cbn [ids map snd vi vt vm r_id]. unfold eat_fuel.
  assert (Hl : 262144 <= blen (b ++ c)) by (rewrite blen_app; lia).
  pose proof (hinv_after_meta b c Hl) as Hinv. unfold after_meta in *.
  destruct (blen (b ++ c) <? mo + es) eqn:E.
  - rewrite post_B_short by (try assumption; lia). rewrite settle_done by reflexivity. rewrite vhdx_no_callbacks.
    eexists. split; [reflexivity|exact Hinv].
  - rewrite (post_B_found _ _ _ b) by (try assumption; lia).
    rewrite (settle_step vhdx_fmt _ c _ _ R_vds []) by reflexivity.
    cbn zeta. cbn [sC i_regs i_pos set_regs i_next i_fin i_checks i_ext]. rewrite capture_only_vds, cap1_vv.
    change (f_post vhdx_fmt) with vhdx_post.
    match goal with |- context [vhdx_post ?st] => change st with (sC (blen b + flen c) (b ++ c) (b ++ c) (b ++ c)) end.
    rewrite post_C. rewrite settle_done by reflexivity. rewrite vhdx_no_callbacks.
    eexists. split; [reflexivity|exact Hinv].
Qed.

Lemma step_HC b bm c :
  mo + es <= blen b ->
  exists s', eat_chunk vhdx_fmt (sC (blen b) b bm b) c = (s', None) /\ hinv (b ++ c) s'.
Proof.
  intros Hb.
  rewrite eat_chunk_unfold by reflexivity. cbn zeta. cbn [sC i_pos i_next i_checks i_ext i_regs].
  rewrite capture_regs_all. cbn [map fst snd]. rewrite cap1_vi, cap1_vt, cap1_vmf, cap1_vv.
  change (f_post vhdx_fmt) with vhdx_post.
  match goal with |- context [vhdx_post ?st] => change st with (sC (blen b + flen c) (b ++ c) bm (b ++ c)) end.
  rewrite post_C. rewrite settle_done by reflexivity. rewrite vhdx_no_callbacks.
  eexists. split; [reflexivity|]. rewrite flen_blen, <- blen_app. apply HC. rewrite blen_app. lia.
Qed.

Lemma hinv_step b s c :
  hinv b s -> is_prefix (b ++ c) w = true -> exists s', eat_chunk vhdx_fmt s c = (s', None) /\ hinv (b ++ c) s'.
Proof.
  intros [H1|H1 H2|bm H1] Hw.
  - apply step_HA; assumption.
  - apply step_HB; assumption.
  - apply step_HC; assumption.
Qed.

Lemma hinv_all cs b s :
  hinv b s -> is_prefix (b ++ concat cs) w = true ->
  exists s', eat_all vhdx_fmt s cs = (s', None) /\ hinv (b ++ concat cs) s'.
Proof.
  revert b s. induction cs as [|c cs IH]; intros b s Hi Hw; cbn [eat_all concat] in *.
  - rewrite app_nil_r. exists s. split; [reflexivity|exact Hi].
  - rewrite app_assoc in Hw.
    assert (Hw1 : is_prefix (b ++ c) w = true).
    { eapply is_prefix_trans; [|exact Hw]. unfold is_prefix. apply prefixb_app. }
    destruct (hinv_step b s c Hi Hw1) as (s1 & E1 & I1).
    rewrite E1. destruct (IH _ _ I1 Hw) as (s2 & E2 & I2). exists s2. rewrite app_assoc. split; assumption.
Qed.

(* ---------- virtual_size on the invariant states ---------- *)
Definition vhdx_size_at (b : bytes) : res Z :=
  if blen b <? vo + 8 then Ok 0%Z else Ok (Z.of_N size).

Lemma vsize_C (s : ist unit) b :
  rget R_vds (i_regs s) = Some (vv b) -> is_prefix b w = true -> vhdx_vsize s = vhdx_size_at b.
Proof.
  intros Hg Hp. pose proof facts as FX. unfold vhdx_vsize, has_region, rhas, get_region, vhdx_size_at. rewrite Hg.
  cbn [negb bind]. rewrite rcomplete_vv.
  destruct (blen b <? vo + 8) eqn:E.
  - replace (vo + 8 <=? blen b) with false by lia. reflexivity.
  - replace (vo + 8 <=? blen b) with true by lia. cbn [negb vv r_data].
    rewrite (prefix_bslice b w vo 8 Hp) by lia. rewrite (F_item FX).
    rewrite unpack_ok by (rewrite blen_le_enc; reflexivity). cbn [bind].
    unfold sint, sraw. cbn [sf_vhdx_vds sf_big sf_fields nth].
    rewrite bslice_0_all by (rewrite blen_le_enc; vm_compute; discriminate).
    rewrite (le_val_enc 8 size) by exact Hsize. reflexivity.
Qed.

Lemma hinv_vsize b s :
  hinv b s -> is_prefix b w = true ->
  vhdx_vsize s = vhdx_size_at b /\ vhdx_vsize (Insp_Engine.finish s) = vhdx_size_at b.
Proof.
  pose proof facts as FX. pose proof (F_io FX). unfold vhdx_size_at.
  intros [H1|H1 H2|bm H1] Hp.
  - pose proof (F_mo FX). replace (blen b <? vo + 8) with true by lia. split; reflexivity.
  - replace (blen b <? vo + 8) with true by lia. split; reflexivity.
  - split; apply (vsize_C _ b); try assumption; reflexivity.
Qed.
End VhdxImage.

(* ---------- the theorems ---------- *)
Lemma vhdx_feed_inv w size l cs :
  size < 2 ^ 64 -> wf_vhdx size l w = true -> is_prefix (concat cs) w = true ->
  exists s, feed F_vhdx cs = (I_unit F_vhdx s, None) /\ hinv l (concat cs) s.
Proof.
  intros Hs Hwf Hp. unfold feed. change (init F_vhdx) with (I_unit F_vhdx (init_ist vhdx_fmt)). rewrite eat_list_unit.
  change (ufmt F_vhdx) with vhdx_fmt.
  destruct (hinv_all w size l Hs Hwf cs [] _ (hinv_init l) Hp) as (s & E & I).
  cbn [app] in *. rewrite E. exists s. split; [reflexivity|exact I].
Qed.

Lemma vsize_vhdx_prefix_lemma w size l cs :
  size < 2 ^ 64 -> wf_vhdx size l w = true -> is_prefix (concat cs) w = true ->
  quiet F_vhdx cs /\
  vsize_now F_vhdx cs = (if blen (concat cs) <? vhdx_known_at l then Ok 0%Z else Ok (Z.of_N size)) /\
  vsize_end F_vhdx cs = (if blen (concat cs) <? vhdx_known_at l then Ok 0%Z else Ok (Z.of_N size)).
Proof.
  intros Hs Hwf Hp. destruct (vhdx_feed_inv w size l cs Hs Hwf Hp) as (s & E & I).
  destruct (hinv_vsize w size l Hs Hwf _ _ I Hp) as [V1 V2].
  unfold quiet, vsize_now, vsize_end, run. fold (feed F_vhdx cs). rewrite E.
  cbn [fst snd finish virtual_size ufmt f_vsize vhdx_fmt].
  repeat split; assumption.
Qed.

Lemma vsize_vhdx_wellformed_lemma size l b cs :
  size < 2 ^ 64 -> wf_vhdx size l b = true -> concat cs = b ->
  quiet F_vhdx cs /\ vsize_end F_vhdx cs = Ok (Z.of_N size).
Proof.
  intros Hs Hwf Hc.
  destruct (vsize_vhdx_prefix_lemma b size l cs Hs Hwf) as (Q & _ & V).
  { rewrite Hc. apply is_prefix_refl. }
  split; [exact Q|]. rewrite V, Hc.
  pose proof (F_len b size l (facts b size l Hs Hwf)) as L.
  unfold vhdx_known_at. replace (blen b <? vl_meta_off l + vl_item_off l + 8) with false by lia. reflexivity.
Qed.

Lemma vsize_zero_while_unknown_vhdx_lemma w size l cs :
  size < 2 ^ 64 -> wf_vhdx size l w = true ->
  is_prefix (concat cs) w = true -> blen (concat cs) < vhdx_known_at l ->
  quiet F_vhdx cs /\ vsize_now F_vhdx cs = Ok 0%Z /\ vsize_end F_vhdx cs = Ok 0%Z.
Proof.
  intros Hs Hwf Hp Hl.
  destruct (vsize_vhdx_prefix_lemma w size l cs Hs Hwf Hp) as (Q & V1 & V2).
  rewrite V1, V2. replace (blen (concat cs) <? vhdx_known_at l) with true by lia. repeat split; assumption.
Qed.
