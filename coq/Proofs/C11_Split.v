(* Proofs/C11_Split.v — str.split(c) / c.join(...) are mutually inverse (Base/Str.v definitions). *)
Require Import OV.Base.Bytes OV.Base.PyInt OV.Base.Str.
Open Scope N_scope.

Lemma split_aux_nonnil c s cur : split_char_aux c s cur <> [].
Proof.
  revert cur. induction s as [|x t IH]; intros cur; cbn [split_char_aux]; [discriminate|].
  destruct (x =? c); [discriminate|apply IH].
Qed.

Lemma split_nonnil c s : split_char c s <> [].
Proof. apply split_aux_nonnil. Qed.

Lemma join_cons_ne sep x l : l <> [] -> join sep (x :: l) = x ++ sep ++ join sep l.
Proof. destruct l; [congruence|reflexivity]. Qed.

(* join . split = id *)
Lemma join_split_aux c s cur : join [c] (split_char_aux c s cur) = rev cur ++ s.
Proof.
  revert cur. induction s as [|x t IH]; intros cur; cbn [split_char_aux].
  - cbn. rewrite app_nil_r. reflexivity.
  - destruct (x =? c) eqn:E.
    + apply N.eqb_eq in E. subst x.
      rewrite join_cons_ne by apply split_aux_nonnil. rewrite IH. reflexivity.
    + rewrite IH. cbn [rev]. rewrite <- app_assoc. reflexivity.
Qed.

Lemma join_split c s : join [c] (split_char c s) = s.
Proof. unfold split_char. rewrite join_split_aux. reflexivity. Qed.

(* split of a text without the separator *)
Lemma split_aux_notin c a cur : ~ In c a -> split_char_aux c a cur = [rev cur ++ a].
Proof.
  revert cur. induction a as [|x t IH]; intros cur H; cbn [split_char_aux].
  - rewrite app_nil_r. reflexivity.
  - destruct (x =? c) eqn:E.
    + apply N.eqb_eq in E. subst. exfalso. apply H. left. reflexivity.
    + rewrite IH by (intros Hin; apply H; right; exact Hin).
      cbn [rev]. rewrite <- app_assoc. reflexivity.
Qed.

Lemma split_notin c a : ~ In c a -> split_char c a = [a].
Proof. intros H. unfold split_char. rewrite split_aux_notin by exact H. reflexivity. Qed.

(* split distributes over a separator *)
Lemma split_aux_app c a b cur :
  split_char_aux c (a ++ c :: b) cur = split_char_aux c a cur ++ split_char c b.
Proof.
  revert cur. induction a as [|x t IH]; intros cur; cbn [split_char_aux app].
  - rewrite N.eqb_refl. reflexivity.
  - destruct (x =? c); [|apply IH].
    rewrite IH. reflexivity.
Qed.

Lemma split_app c a b : split_char c (a ++ c :: b) = split_char c a ++ split_char c b.
Proof. apply split_aux_app. Qed.

Lemma split_cons_sep c b : split_char c (c :: b) = [] :: split_char c b.
Proof. unfold split_char. cbn [split_char_aux]. rewrite N.eqb_refl. reflexivity. Qed.

Lemma split_nil c : split_char c [] = [[]].
Proof. reflexivity. Qed.

(* split . join = id on non-empty lists of separator-free fields *)
Lemma split_join c fs : fs <> [] -> Forall (fun f => ~ In c f) fs -> split_char c (join [c] fs) = fs.
Proof.
  induction fs as [|x t IH]; intros Hne Hall; [congruence|].
  inversion Hall as [|? ? Hx Ht]; subst.
  destruct t as [|y t'].
  - cbn [join]. apply split_notin. exact Hx.
  - rewrite join_cons_ne by discriminate. cbn [app].
    rewrite split_app, split_notin by exact Hx. rewrite IH; [reflexivity|discriminate|exact Ht].
Qed.

(* the fields produced by split contain no separator *)
Lemma split_aux_fields c s cur : ~ In c cur -> Forall (fun f => ~ In c f) (split_char_aux c s cur).
Proof.
  revert cur. induction s as [|x t IH]; intros cur H; cbn [split_char_aux].
  - constructor; [|constructor]. rewrite <- in_rev. exact H.
  - destruct (x =? c) eqn:E.
    + constructor; [rewrite <- in_rev; exact H|]. apply IH. intros [].
    + apply IH. intros [Hx|Hin]; [apply N.eqb_neq in E; congruence|exact (H Hin)].
Qed.

Lemma split_fields c s : Forall (fun f => ~ In c f) (split_char c s).
Proof. apply split_aux_fields. intros []. Qed.

(* exactly one field <-> no separator *)
Lemma split_single c s f : split_char c s = [f] -> f = s /\ ~ In c s.
Proof.
  intros H. pose proof (join_split c s) as J. rewrite H in J. cbn in J. subst f.
  split; [reflexivity|]. pose proof (split_fields c s) as F. rewrite H in F. inversion F; assumption.
Qed.

Lemma In_split_length c s : In c s -> (2 <= length (split_char c s))%nat.
Proof.
  intros H. apply in_split in H. destruct H as [a [b ->]].
  rewrite split_app, app_length.
  pose proof (split_nonnil c a). pose proof (split_nonnil c b).
  destruct (split_char c a); [congruence|]. destruct (split_char c b); [congruence|]. cbn. lia.
Qed.
