(* Proofs/C07_Equiv.v — the py2gal translations of the virtual_size properties (Gen/C07_Code.v, regenerated from
   /repo on every run) compute what the hand-written model (Model/Insp_*.v) computes. *)
Require Import OV.Base.Bytes OV.Base.Py OV.Base.Insp_Struct OV.Gen.Insp_Consts OV.Model.Insp_Engine.
Require Import OV.Model.Insp_Vhd OV.Model.Insp_Vdi OV.Model.Insp_Iso OV.Model.Insp_Luks OV.Model.Insp_Vhdx.
Require Import OV.Model.C07_Struct OV.Gen.C07_Code OV.Proofs.C07_Engine.
Open Scope N_scope.

(* struct.unpack on a single-field format, model side vs generated side *)
Lemma unpack1_equiv (sf : sfmt) (w : N) (x : bytes) :
  sf_size sf = w -> sf_fields sf = [(0, w)] ->
  (do b <- unpack sf x; Ok (Z.of_N (sint sf 0 b))) = C07_unpack1 (sf_big sf) w x.
Proof.
  intros Hs Hf. unfold unpack, C07_unpack1. rewrite flen_blen, Hs.
  destruct (blen x =? w) eqn:E; [|reflexivity]. cbn [bind]. unfold sint, sraw. rewrite Hf. cbn [nth].
  rewrite bslice_0_all by (apply N.eqb_eq in E; lia). reflexivity.
Qed.

Lemma zslice_nsub lo hi b : zslice (Some (Z.of_N lo)) (Some (Z.of_N hi)) b = nsub lo hi b.
Proof. rewrite zslice_range by lia. rewrite !N2Z.id. symmetry. apply nsub_bsub. Qed.

Lemma zslice_ntake n b : zslice None (Some (Z.of_N n)) b = ntake n b.
Proof. rewrite zslice_to by lia. rewrite N2Z.id. symmetry. apply ntake_btake. Qed.

(* VHDInspector.virtual_size *)
Lemma C07_vhd_vsize_equiv (s : ist unit) r :
  rget R_header (i_regs s) = Some r ->
  vhd_vsize s = C07_gen_vhd_vsize (rcomplete r) (prefixb VHD_MAGIC (r_data r)) (r_data r).
Proof.
  intros Hg. unfold vhd_vsize, vhd_match, get_region, C07_gen_vhd_vsize. rewrite Hg. cbn [bind].
  destruct (rcomplete r); cbn [negb]; [|reflexivity].
  destruct (prefixb VHD_MAGIC (r_data r)); cbn [negb]; [|reflexivity].
  change 40%Z with (Z.of_N VHD_SIZE_LO). change 48%Z with (Z.of_N VHD_SIZE_HI). rewrite zslice_nsub.
  rewrite <- (unpack1_equiv sf_vhd_size 8) by reflexivity.
  destruct (unpack sf_vhd_size (nsub VHD_SIZE_LO VHD_SIZE_HI (r_data r))); reflexivity.
Qed.

(* VDIInspector.virtual_size; format_match is evaluated only when the header region is complete *)
Lemma C07_vdi_vsize_equiv (s : ist unit) r m :
  rget R_header (i_regs s) = Some r -> (rcomplete r = true -> vdi_match s = Ok m) ->
  vdi_vsize s = C07_gen_vdi_vsize (rcomplete r) m (r_data r).
Proof.
  intros Hg Hm. unfold vdi_vsize, get_region, C07_gen_vdi_vsize. rewrite Hg. cbn [bind].
  destruct (rcomplete r); cbn [negb]; [|reflexivity]. rewrite (Hm eq_refl). cbn [bind].
  destruct m; cbn [negb]; [|reflexivity].
  change 368%Z with (Z.of_N VDI_SIZE_LO). change 376%Z with (Z.of_N VDI_SIZE_HI). rewrite zslice_nsub.
  rewrite <- (unpack1_equiv sf_vdi_size 8) by reflexivity.
  destruct (unpack sf_vdi_size (nsub VDI_SIZE_LO VDI_SIZE_HI (r_data r))); reflexivity.
Qed.

(* ISOInspector.virtual_size; [ty] is header.data[0] *)
Lemma C07_iso_vsize_equiv (s : ist unit) r m ty :
  rget R_header (i_regs s) = Some r -> iso_match s = Ok m -> bidx (r_data r) ISO_TYPE_IDX = Ok ty ->
  iso_vsize s = C07_gen_iso_vsize (Insp_Engine.complete s) m (Z.of_N ty) (r_data r).
Proof.
  intros Hg Hm Hty. unfold iso_vsize, get_region, C07_gen_iso_vsize. rewrite Hm, Hg. cbn [bind].
  destruct (Insp_Engine.complete s); cbn [negb]; [|reflexivity].
  destruct m; cbn [negb]; [|reflexivity]. rewrite Hty. cbn [bind].
  replace (Z.of_N ty =? 1)%Z with (ty =? ISO_TYPE_PVD) by (change ISO_TYPE_PVD with 1; destruct (ty =? 1) eqn:E; lia).
  destruct (ty =? ISO_TYPE_PVD); cbn [negb]; [|reflexivity].
  change 128%Z with (Z.of_N ISO_LBS_LO). change 132%Z with (Z.of_N ISO_LBS_HI).
  change 80%Z with (Z.of_N ISO_VSS_LO). change 88%Z with (Z.of_N ISO_VSS_HI).
  change 2%Z with (Z.of_N ISO_LBS_TAKE). change 4%Z with (Z.of_N ISO_VSS_TAKE).
  rewrite !zslice_nsub, !zslice_ntake.
  rewrite <- (unpack1_equiv sf_iso_lbs 2) by reflexivity.
  destruct (unpack sf_iso_lbs (ntake ISO_LBS_TAKE (nsub ISO_LBS_LO ISO_LBS_HI (r_data r)))) as [lb|e]; cbn [bind]; [|reflexivity].
  rewrite <- (unpack1_equiv sf_iso_vss 4) by reflexivity.
  destruct (unpack sf_iso_vss (ntake ISO_VSS_TAKE (nsub ISO_VSS_LO ISO_VSS_HI (r_data r)))) as [vs|e]; cbn [bind]; [|reflexivity].
  rewrite N2Z.inj_mul. reflexivity.
Qed.

(* LUKSInspector.virtual_size: super().virtual_size - header_items['payload_offset'] * 512 *)
Lemma C07_luks_vsize_equiv (s : ist unit) :
  luks_vsize s = (do b <- luks_header_items s;
                  Ok (C07_gen_luks_vsize (Z.of_N (i_pos s)) (Z.of_N (sint sf_luks_hdr 5 b)))).
Proof. reflexivity. Qed.

(* VHDXInspector.virtual_size *)
Lemma C07_vhdx_vsize_equiv (s : ist unit) :
  vhdx_vsize s = match rget R_vds (i_regs s) with
                 | Some r => C07_gen_vhdx_vsize true (rcomplete r) (r_data r)
                 | None => C07_gen_vhdx_vsize false false []
                 end.
Proof.
  unfold vhdx_vsize, has_region, rhas, get_region, C07_gen_vhdx_vsize.
  destruct (rget R_vds (i_regs s)) as [r|]; cbn [negb bind orb]; [|reflexivity].
  destruct (rcomplete r); cbn [negb]; [|reflexivity].
  rewrite <- (unpack1_equiv sf_vhdx_vds 8) by reflexivity.
  destruct (unpack sf_vhdx_vds (r_data r)); reflexivity.
Qed.
