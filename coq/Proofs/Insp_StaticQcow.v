(* Proofs/Insp_StaticQcow.v — refinement of the qcow2 inspector: its private attribute
   (qemu_header_info) is a function of the bytes as well. *)
Require Import OV.Base.Bytes OV.Base.Py OV.Base.Insp_Struct OV.Gen.Insp_Consts OV.Model.Insp_Engine OV.Model.Insp_Qcow2.
Require Import OV.Proofs.Insp_Engine OV.Proofs.Insp_Static.
Open Scope N_scope.

Definition qcow_hdr_len : N := match init_regions F_qcow2 with [(_, sp)] => rs_len sp | _ => 0 end.
Lemma qcow_init_regions : init_regions F_qcow2 = [(R_header, mkRspec false 0 qcow_hdr_len None)].
Proof. reflexivity. Qed.
Lemma qcow_slice_le : QCOW_HDR_SLICE <= qcow_hdr_len.
Proof. vm_compute. discriminate. Qed.
Lemma qcow_slice_size : sf_size sf_qcow_hdr = QCOW_HDR_SLICE.
Proof. reflexivity. Qed.

Definition qR (st : bytes) : region := mkRegion 0 false 0 qcow_hdr_len None (bslice 0 qcow_hdr_len st) false.
Lemma qcow_fill st : fill_regs 0 (init_regions (f_id qcow_fmt)) st = [(R_header, qR st)].
Proof. cbn [f_id qcow_fmt]. rewrite qcow_init_regions. reflexivity. Qed.

Lemma qcow_specs : static_specs (init_regions (f_id qcow_fmt)) = true.
Proof. reflexivity. Qed.

(* qemu_header_info after the stream st: what region_complete computes once the header is complete *)
Definition qext (st : bytes) : qx :=
  let s := ideal qcow_fmt st false None in
  if complete s then i_ext (fst (qcow_rcomplete R_header s)) else None.

Lemma ist_eta {X} (s : ist X) : set_ext s (i_ext s) = s.
Proof. destruct s; reflexivity. Qed.

Lemma qrc_shape n s s' e : qcow_rcomplete n s = (s', e) -> s' = set_ext s (i_ext s').
Proof.
  unfold qcow_rcomplete. intros H.
  destruct (get_region R_header s); [|inversion H; subst; symmetry; apply ist_eta].
  destruct (unpack sf_qcow_hdr _); [|inversion H; subst; symmetry; apply ist_eta].
  destruct (qcow_match _) as [[|]|]; inversion H; subst; reflexivity.
Qed.

Lemma qrc_noexn n (s : ist qx) r :
  rget R_header (i_regs s) = Some r -> QCOW_HDR_SLICE <= blen (r_data r) -> snd (qcow_rcomplete n s) = None.
Proof.
  intros Hg Hl. unfold qcow_rcomplete, get_region. rewrite Hg.
  unfold unpack. rewrite flen_blen, ntake_btake, blen_btake, qcow_slice_size.
  replace (N.min QCOW_HDR_SLICE (blen (r_data r)) =? QCOW_HDR_SLICE) with true by lia.
  unfold qcow_match, get_region. cbn [set_ext i_regs]. rewrite Hg. cbn [bind].
  destruct (negb (rcomplete r)); [reflexivity|].
  match goal with |- snd (if ?b then _ else _) = None => destruct b end; reflexivity.
Qed.

Lemma qrc_regs_only n (s1 s2 : ist qx) :
  i_regs s1 = i_regs s2 -> i_ext s1 = i_ext s2 ->
  i_ext (fst (qcow_rcomplete n s1)) = i_ext (fst (qcow_rcomplete n s2)).
Proof.
  intros Hr He. unfold qcow_rcomplete, get_region. rewrite Hr.
  destruct (rget R_header (i_regs s2)) as [r|]; [|exact He].
  destruct (unpack sf_qcow_hdr _); [|exact He].
  unfold qcow_match, get_region. cbn [set_ext i_regs i_ext]. rewrite Hr.
  destruct (rget R_header (i_regs s2)); cbn [bind fst i_ext]; [|reflexivity].
  destruct (negb (rcomplete r0)); [reflexivity|].
  match goal with |- context [if ?b then _ else _] => destruct b end; reflexivity.
Qed.

Lemma qR_complete_len st : rcomplete (qR st) = true -> blen (bslice 0 qcow_hdr_len st) = qcow_hdr_len.
Proof. unfold rcomplete, base_complete, qR. cbn [r_end r_min r_len r_data]. rewrite flen_blen. lia. Qed.

Lemma qR_complete_mono st c : rcomplete (qR st) = true -> bslice 0 qcow_hdr_len (st ++ c) = bslice 0 qcow_hdr_len st.
Proof.
  intros H. apply qR_complete_len in H. rewrite blen_bslice in H. unfold bslice. rewrite !bskip_0.
  rewrite btake_app_le; [reflexivity|]. lia.
Qed.

Lemma complete_ideal st x : complete (ideal qcow_fmt st false x) = rcomplete (qR st).
Proof. unfold complete, ideal. cbn [i_regs]. rewrite qcow_fill. cbn [forallb snd]. apply andb_true_r. Qed.

(* the callback on the ideal state of a complete header *)
Lemma qcow_callback st :
  rcomplete (qR st) = true ->
  qcow_rcomplete R_header (ideal qcow_fmt st false None) = (ideal qcow_fmt st false (qext st), None).
Proof.
  intros Hc. destruct (qcow_rcomplete R_header (ideal qcow_fmt st false None)) as [s' e] eqn:H.
  pose proof (qrc_shape _ _ _ _ H) as Hs.
  assert (He : e = None).
  { change e with (snd (s', e)). rewrite <- H. apply (qrc_noexn _ _ (qR st)).
    - unfold ideal. cbn [i_regs]. rewrite qcow_fill. reflexivity.
    - cbn [qR r_data]. rewrite (qR_complete_len st Hc). exact qcow_slice_le. }
  assert (Hx : qext st = i_ext s').
  { unfold qext. cbv zeta. rewrite complete_ideal, Hc, H. reflexivity. }
  rewrite Hs, He, Hx. reflexivity.
Qed.

Lemma qext_incomplete st : rcomplete (qR st) = false -> qext st = None.
Proof. intros H. unfold qext. cbv zeta. rewrite complete_ideal, H. reflexivity. Qed.

Lemma qext_mono st c : rcomplete (qR st) = true -> qext (st ++ c) = qext st /\ rcomplete (qR (st ++ c)) = true.
Proof.
  intros H. assert (HR : qR (st ++ c) = qR st) by (unfold qR; rewrite (qR_complete_mono st c H); reflexivity).
  split; [|rewrite HR; exact H].
  unfold qext. cbv zeta. rewrite !complete_ideal, HR, H.
  apply qrc_regs_only; [|reflexivity]. unfold ideal. cbn [i_regs]. rewrite !qcow_fill, HR. reflexivity.
Qed.

Lemma qcow_eat st c :
  eat_chunk qcow_fmt (ideal qcow_fmt st false (qext st)) c = (ideal qcow_fmt (st ++ c) false (qext (st ++ c)), None).
Proof.
  rewrite (ideal_eat_chunk qcow_fmt eq_refl). rewrite !qcow_fill.
  unfold complete_ids, newly_complete. cbn [filter snd].
  destruct (rcomplete (qR st)) eqn:Hc.
  - destruct (qext_mono st c Hc) as [Hx Hc']. rewrite Hc'. cbn [ids map snd qR r_id mem_nat Nat.eqb orb negb andb filter].
    cbn [run_callbacks]. rewrite Hx. reflexivity.
  - cbn [ids map mem_nat negb]. rewrite andb_true_r. rewrite (qext_incomplete st Hc).
    destruct (rcomplete (qR (st ++ c))) eqn:Hc'; cbn [filter map fst run_callbacks].
    + cbn [f_rcomplete qcow_fmt]. rewrite (qcow_callback (st ++ c) Hc'). reflexivity.
    + rewrite (qext_incomplete _ Hc'). reflexivity.
Qed.

Lemma qcow_eat_all st cs :
  eat_all qcow_fmt (ideal qcow_fmt st false (qext st)) cs = (ideal qcow_fmt (st ++ concat cs) false (qext (st ++ concat cs)), None).
Proof.
  revert st. induction cs as [|c t IH]; intros st; cbn [eat_all concat].
  - rewrite app_nil_r. reflexivity.
  - rewrite qcow_eat, IH, app_assoc. reflexivity.
Qed.

Lemma qext_nil : qext [] = None.
Proof. apply qext_incomplete. vm_compute. reflexivity. Qed.

Theorem qcow_run cs : run_fmt qcow_fmt cs = (ideal qcow_fmt (concat cs) true (qext (concat cs)), None).
Proof.
  unfold run_fmt. rewrite (ideal_init qcow_fmt qcow_specs). cbn [f_ext0 qcow_fmt]. rewrite <- qext_nil.
  rewrite qcow_eat_all. cbn [app]. rewrite ideal_finish. reflexivity.
Qed.
