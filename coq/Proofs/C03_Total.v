(* Proofs/C03_Total.v — queries_total: in EVERY reachable state of every concrete inspector (any
   chunks, also after an exception, after finish, chunks after finish) format_match returns
   (complete is a total boolean by construction).  This is the statement finding D2 broke
   (VMDKInspector.vmdktype not initialised: AttributeError).  Then: every wrapper a reader can
   produce holds reachable inspectors only, so the properties with raising queries ([formats_r],
   [format_r], Model/C03.v) coincide with the boolean ones of Model/Wrap.v. *)
Require Import OV.Base.Bytes OV.Base.Py OV.Base.C06_WrapShape OV.Base.Insp_Struct.
Require Import OV.Gen.Insp_Consts OV.Gen.C06_Wrapper OV.Model.Insp_Engine.
Require Import OV.Model.Insp_Raw OV.Model.Insp_Qcow2 OV.Model.Insp_Qed OV.Model.Insp_Vhd OV.Model.Insp_Vdi
               OV.Model.Insp_Iso OV.Model.Insp_Gpt OV.Model.Insp_Luks OV.Model.Insp_Vhdx OV.Model.Insp_Vmdk OV.Model.Insp_All.
Require Import OV.Model.Wrap OV.Model.C03.
Require Import OV.Proofs.Insp_Engine OV.Proofs.Insp_FmtOk OV.Proofs.Insp_Static OV.Proofs.Insp_StaticQcow OV.Proofs.Insp_All.
Require Import OV.Proofs.C03_Engine OV.Proofs.Wrap OV.Proofs.C06.
Open Scope N_scope.

(* ------------------------------------------------------------------ slices and struct.unpack *)
Lemma flen_nsub lo hi d : flen (nsub lo hi d) = N.min (hi - lo) (flen d - lo).
Proof. rewrite nsub_bsub, !flen_blen. unfold bsub. rewrite blen_btake, blen_bskip. reflexivity. Qed.

Lemma unpack_nsub_ok f lo hi d : sf_size f = hi - lo -> hi <= flen d -> unpack f (nsub lo hi d) = Ok (nsub lo hi d).
Proof.
  intros Hs Hh. unfold unpack. rewrite flen_nsub, Hs.
  replace (N.min (hi - lo) (flen d - lo) =? hi - lo) with true by (symmetry; apply N.eqb_eq; lia). reflexivity.
Qed.

Lemma bidx_ok d i : i < flen d -> bidx d i = Ok (bnth i d).
Proof. intros H. unfold bidx. replace (i <? flen d) with true by (symmetry; apply N.ltb_lt; exact H). reflexivity. Qed.

(* a complete plain region without min_length holds exactly [length] bytes *)
Lemma rcomplete_fixed_len r : r_end r = false -> r_min r = None -> rcomplete r = true -> flen (r_data r) = r_len r.
Proof. unfold rcomplete, base_complete. intros -> ->. intros H. apply N.eqb_eq in H. auto. Qed.

(* ------------------------------------------------------------------ regions that stay where _initialize put them *)
Definition spec_of (f : fmt_id) (n : rname) : rspec :=
  match List.find (fun p => rname_beq (fst p) n) (init_regions f) with
  | Some p => snd p
  | None => mkRspec false 0 0 None
  end.

(* region n of format F is present, with the offset / length / min_length _initialize gave it *)
Definition stays {X} (F : fmt X) (n : rname) (s : ist X) : Prop :=
  has_fixed n (rs_off (spec_of (f_id F) n)) (rs_len (spec_of (f_id F) n)) (rs_min (spec_of (f_id F) n)) (i_regs s).

Definition keeps {X} (F : fmt X) (n : rname) : Prop :=
  (forall s s' e, stays F n s -> f_post F s = (s', e) -> stays F n s') /\
  (forall m s s' e, stays F n s -> f_rcomplete F m s = (s', e) -> stays F n s').

Lemma reach_stays {X} (F : fmt X) n st s :
  keeps F n -> stays F n (init_ist F) -> reach F st s -> stays F n s.
Proof.
  intros [Hp Hc] Hi Hr.
  refine (reach_pres F (stays F n) _ _ Hp Hc _ st s Hi Hr).
  - intros s0 p H. exact H.
  - intros s0 only c pos H. unfold stays in *. cbn [set_regs i_regs]. apply has_fixed_capture. exact H.
  - intros s0 H. unfold stays in *. apply has_fixed_finish. exact H.
Qed.

Lemma keeps_static {X} (F : fmt X) n : f_post F = no_post -> f_rcomplete F = no_rcomplete -> keeps F n.
Proof.
  intros H1 H2. split.
  - intros s s' e H Hp. rewrite H1 in Hp. inversion Hp; subst. exact H.
  - intros m s s' e H Hp. rewrite H2 in Hp. inversion Hp; subst. exact H.
Qed.

Lemma keeps_qcow n : keeps qcow_fmt n.
Proof.
  split.
  - intros s s' e H Hp. inversion Hp; subst. exact H.
  - intros m s s' e H Hp. cbn [f_rcomplete qcow_fmt] in Hp. apply qrc_shape in Hp. rewrite Hp. exact H.
Qed.

Lemma vhdx_post_regs n (s s' : ist unit) e off len mn :
  n <> R_metadata -> has_fixed n off len mn (i_regs s) -> vhdx_post s = (s', e) -> has_fixed n off len mn (i_regs s').
Proof.
  intros Hn H Hp. unfold vhdx_post in Hp.
  destruct (get_region R_header s) as [h|]; [|inversion Hp; subst; exact H].
  destruct (rcomplete h && negb (has_region R_metadata s)).
  - destruct (vhdx_find_meta_region s) as [[sp|]|]; try (inversion Hp; subst; exact H).
    eapply has_fixed_new_region; eauto.
  - destruct (has_region R_metadata s && negb (has_region R_vds s)); [|inversion Hp; subst; exact H].
    destruct (vhdx_find_meta_entry VHDX_GUID_VIRTUAL_DISK_SIZE s) as [s1 r] eqn:Hf.
    assert (H1 : has_fixed n off len mn (i_regs s1)).
    { apply vhdx_find_meta_entry_spec in Hf. destruct Hf as [[->|(m & Hg & ->)] _]; [exact H|].
      cbn [set_regs i_regs]. destruct H as (r0 & Hg0 & Hr0). exists r0. split; [|exact Hr0].
      rewrite rget_rset_other by exact Hn. exact Hg0. }
    destruct r as [[sp|]|]; try (inversion Hp; subst; exact H1).
    eapply has_fixed_new_region; eauto.
Qed.

Lemma keeps_vhdx n : n <> R_metadata -> keeps vhdx_fmt n.
Proof.
  intros Hn. split.
  - intros s s' e H Hp. cbn [f_post vhdx_fmt] in Hp. unfold stays in *. eapply vhdx_post_regs; eauto.
  - intros m s s' e H Hp. inversion Hp; subst. exact H.
Qed.

Ltac init_stays := unfold stays, has_fixed; eexists; split; [vm_compute; reflexivity | repeat split; reflexivity].

(* ------------------------------------------------------------------ queries_total, format by format *)
Definition total {X} (F : fmt X) : Prop := forall st s, reach F st s -> exists b, f_match F s = Ok b.

Lemma stays_get {X} (F : fmt X) n (s : ist X) : stays F n s ->
  exists r, get_region n s = Ok r /\ rget n (i_regs s) = Some r /\ r_end r = false /\
            r_off r = rs_off (spec_of (f_id F) n) /\ r_len r = rs_len (spec_of (f_id F) n) /\ r_min r = rs_min (spec_of (f_id F) n).
Proof. intros (r & Hg & H). exists r. unfold get_region. rewrite Hg. tauto. Qed.

Lemma raw_total : total raw_fmt.
Proof. intros st s _. exists true. reflexivity. Qed.

Lemma qcow_total : total qcow_fmt.
Proof.
  intros st s Hr. pose proof (reach_stays qcow_fmt R_header st s (keeps_qcow _) ltac:(init_stays) Hr) as H.
  destruct (stays_get _ _ _ H) as (r & Hg & _). cbn [f_match qcow_fmt]. unfold qcow_match. rewrite Hg. cbn [bind].
  destruct (negb (rcomplete r)); eauto.
Qed.

Lemma qed_total : total qed_fmt.
Proof.
  intros st s Hr. pose proof (reach_stays qed_fmt R_header st s (keeps_static qed_fmt R_header eq_refl eq_refl) ltac:(init_stays) Hr) as H.
  destruct (stays_get _ _ _ H) as (r & Hg & _). cbn [f_match qed_fmt]. unfold qed_match. rewrite Hg. cbn [bind].
  destruct (negb (rcomplete r)); eauto.
Qed.

Lemma vhd_total : total vhd_fmt.
Proof.
  intros st s Hr. pose proof (reach_stays vhd_fmt R_header st s (keeps_static vhd_fmt R_header eq_refl eq_refl) ltac:(init_stays) Hr) as H.
  destruct (stays_get _ _ _ H) as (r & Hg & _). cbn [f_match vhd_fmt]. unfold vhd_match. rewrite Hg. cbn [bind]. eauto.
Qed.

Lemma luks_total : total luks_fmt.
Proof.
  intros st s Hr. pose proof (reach_stays luks_fmt R_header st s (keeps_static luks_fmt R_header eq_refl eq_refl) ltac:(init_stays) Hr) as H.
  destruct (stays_get _ _ _ H) as (r & Hg & _). cbn [f_match luks_fmt]. unfold luks_match. rewrite Hg. cbn [bind]. eauto.
Qed.

Lemma iso_total : total iso_fmt.
Proof.
  intros st s Hr. pose proof (reach_stays iso_fmt R_header st s (keeps_static iso_fmt R_header eq_refl eq_refl) ltac:(init_stays) Hr) as H.
  destruct (stays_get _ _ _ H) as (r & Hg & _). cbn [f_match iso_fmt]. unfold iso_match.
  destruct (negb (Insp_Engine.complete s)); [eauto|]. rewrite Hg. cbn [bind]. eauto.
Qed.

(* the header of a VDI file is long enough for the signature field, which has the size of its struct format *)
Lemma vdi_consts : VDI_SIG_HI <= rs_len (spec_of F_vdi R_header) /\ sf_size sf_vdi_sig = VDI_SIG_HI - VDI_SIG_LO.
Proof. vm_compute. split; [discriminate | reflexivity]. Qed.

Lemma vdi_total : total vdi_fmt.
Proof.
  intros st s Hr. pose proof (reach_stays vdi_fmt R_header st s (keeps_static vdi_fmt R_header eq_refl eq_refl) ltac:(init_stays) Hr) as H.
  destruct (stays_get _ _ _ H) as (r & Hg & _ & He & _ & Hl & Hm). cbn [f_match vdi_fmt]. unfold vdi_match. rewrite Hg. cbn [bind].
  destruct (rcomplete r) eqn:Hc; cbn [negb]; [|eauto].
  pose proof (rcomplete_fixed_len r He Hm Hc) as Hlen. destruct vdi_consts as [C1 C2]. cbn [f_id vdi_fmt] in Hl.
  rewrite unpack_nsub_ok; [cbn [bind]; eauto | exact C2 | rewrite Hlen, Hl; exact C1].
Qed.

(* the MBR region covers the two FAT bytes and the signature field *)
Lemma gpt_consts :
  GPT_FAT_NUM_IDX < rs_len (spec_of F_gpt R_mbr) /\ GPT_FAT_MEDIA_IDX < rs_len (spec_of F_gpt R_mbr) /\
  GPT_SIG_HI <= rs_len (spec_of F_gpt R_mbr) /\ sf_size sf_gpt_sig = GPT_SIG_HI - GPT_SIG_LO.
Proof. vm_compute. repeat split; try reflexivity; discriminate. Qed.

Lemma gpt_total : total gpt_fmt.
Proof.
  intros st s Hr. pose proof (reach_stays gpt_fmt R_mbr st s (keeps_static gpt_fmt R_mbr eq_refl eq_refl) ltac:(init_stays) Hr) as H.
  destruct (stays_get _ _ _ H) as (r & Hg & _ & He & _ & Hl & Hm). cbn [f_match gpt_fmt]. unfold gpt_match, gpt_check_for_fat.
  rewrite Hg. cbn [bind].
  destruct (rcomplete r) eqn:Hc; cbn [negb]; [|eauto].
  pose proof (rcomplete_fixed_len r He Hm Hc) as Hlen. destruct gpt_consts as (C1 & C2 & C3 & C4). cbn [f_id gpt_fmt] in Hl.
  rewrite !bidx_ok by (rewrite Hlen, Hl; assumption). cbn [bind].
  rewrite unpack_nsub_ok; [cbn [bind]; eauto | exact C4 | rewrite Hlen, Hl; exact C3].
Qed.

Lemma vhdx_total : total vhdx_fmt.
Proof.
  intros st s Hr. pose proof (reach_stays vhdx_fmt R_ident st s (keeps_vhdx R_ident ltac:(discriminate)) ltac:(init_stays) Hr) as H.
  destruct (stays_get _ _ _ H) as (r & Hg & _). cbn [f_match vhdx_fmt]. unfold vhdx_match. rewrite Hg. cbn [bind]. eauto.
Qed.

(* VMDK: format_match reads self.vmdktype when the header region is gone; _initialize sets it
   (repair D2, f999f5c), so the attribute exists in every state: [v_vmdktype] is a total field *)
Lemma vmdk_total : total vmdk_fmt.
Proof.
  intros st s _. cbn [f_match vmdk_fmt]. unfold vmdk_match. destruct (rget R_header (i_regs s)); eauto.
Qed.

(* ------------------------------------------------------------------ the uniform interface *)
Theorem format_match_total st i : ireach st i -> exists b, format_match i = Ok b.
Proof.
  intros H. apply ireach_reach in H. destruct i as [f s|s|s]; cbn [ireach_spec format_match] in *.
  - destruct H as (H1 & H2 & H3). destruct f; try contradiction; cbn [ufmt] in *.
    + exact (raw_total _ _ H3). + exact (vhd_total _ _ H3). + exact (vhdx_total _ _ H3). + exact (vdi_total _ _ H3).
    + exact (qed_total _ _ H3). + exact (iso_total _ _ H3). + exact (gpt_total _ _ H3). + exact (luks_total _ _ H3).
  - exact (qcow_total _ _ H).
  - exact (vmdk_total _ _ H).
Qed.

Definition reachable (i : istate) : Prop := exists st, ireach st i.

Lemma reachable_init f : reachable (init f).
Proof. exists []. apply ireach_init. Qed.
Lemma reachable_eat i c i' e : reachable i -> eat i c = (i', e) -> reachable i'.
Proof. intros (st & H) He. exists (st ++ c). eapply ireach_eat; eauto. Qed.
Lemma reachable_finish i : reachable i -> reachable (finish i).
Proof. intros (st & H). exists st. apply ireach_finish. exact H. Qed.

Lemma cmatch_spec i : reachable i -> format_match i = Ok (cmatch i).
Proof. intros (st & H). destruct (format_match_total st i H) as (b & Hb). unfold cmatch. rewrite Hb. reflexivity. Qed.

(* ------------------------------------------------------------------ every wrapper holds reachable inspectors *)
Section SlotInv.
Variable P : istate -> Prop.
Hypothesis Peat : forall i c i' e, P i -> eat i c = (i', e) -> P i'.
Hypothesis Pfinish : forall i, P i -> P (finish i).

Definition slots_ok (ss : list cslot) : Prop := Forall (fun s => P (s_insp s)) ss.

Lemma pc_loop_slots sh expected : forall ss idx chunk ss' tr r,
  slots_ok ss -> pc_loop istate eat complete cmatch sh expected idx ss chunk = (ss', tr, r) -> slots_ok ss'.
Proof.
  induction ss as [|s rest IH]; intros idx chunk ss' tr r Hs H; cbn [pc_loop] in H.
  - inversion H; subst. constructor.
  - inversion Hs as [|? ? Hs0 Hrest]; subst.
    destruct (sh_skip_errored sh && s_err s).
    + destruct (pc_loop istate eat complete cmatch sh expected (S idx) rest chunk) as [[rest' tr'] r'] eqn:Hr.
      inversion H; subst. constructor; [exact Hs0 | eapply IH; eauto].
    + destruct (eat (s_insp s) chunk) as [i' oe] eqn:He. pose proof (Peat _ _ _ _ Hs0 He) as Hi'.
      destruct oe as [e|].
      * destruct (eval_reraise (sh_reraise sh) (name_is (s_name s) expected)).
        -- inversion H; subst. constructor; [exact Hi' | exact Hrest].
        -- destruct (pc_loop istate eat complete cmatch sh expected (S idx) rest chunk) as [[rest' tr'] r'] eqn:Hr.
           inversion H; subst. constructor; [exact Hi' | eapply IH; eauto].
      * destruct (eval_else (sh_else sh) (name_is (s_name s) expected) (complete i') (cmatch i')).
        -- inversion H; subst. constructor; [exact Hi' | exact Hrest].
        -- destruct (pc_loop istate eat complete cmatch sh expected (S idx) rest chunk) as [[rest' tr'] r'] eqn:Hr.
           inversion H; subst. constructor; [exact Hi' | eapply IH; eauto].
Qed.

Lemma w_step_slots w inp w' tr o : slots_ok (w_slots w) -> cw_step w inp = (w', tr, o) -> slots_ok (w_slots w').
Proof.
  intros Hs H. unfold cw_step in H. destruct inp; cbn [w_step] in H.
  - unfold process_chunk in H.
    destruct (pc_loop istate eat complete cmatch gen_shape (w_expected w) 0 (w_slots w) c) as [[ss t] r] eqn:Hp.
    inversion H; subst. cbn [with_slots w_slots]. eapply pc_loop_slots; eauto.
  - inversion H; subst. cbn [finish_all w_slots]. unfold slots_ok in *. rewrite Forall_map.
    eapply Forall_impl; [|exact Hs]. intros s Hs0. cbn [finish_slot s_insp]. apply Pfinish. exact Hs0.
  - inversion H; subst. exact Hs.
  - inversion H; subst. cbn [finish_all w_slots]. unfold slots_ok in *. rewrite Forall_map.
    eapply Forall_impl; [|exact Hs]. intros s Hs0. cbn [finish_slot s_insp]. apply Pfinish. exact Hs0.
Qed.

Lemma w_run_slots : forall inps w w' recs, slots_ok (w_slots w) -> cw_run w inps = (w', recs) -> slots_ok (w_slots w').
Proof.
  induction inps as [|inp rest IH]; intros w w' recs Hs H; unfold cw_run in *; cbn [w_run] in H.
  - inversion H; subst. exact Hs.
  - destruct (w_step istate eat finish complete cmatch gen_shape w inp) as [[w1 tr1] o] eqn:H1.
    destruct (w_run istate eat finish complete cmatch gen_shape w1 rest) as [w2 recs2] eqn:H2.
    inversion H; subst. eapply IH; [|exact H2]. eapply w_step_slots; eauto.
Qed.
End SlotInv.

Lemma new_slots_ok (P : istate -> Prop) expected allowed :
  (forall f, P (init f)) -> slots_ok P (w_slots (cw_new expected allowed)).
Proof.
  intros HP. unfold cw_new, mk_wrapper, mk_slots, slots_ok. cbn [w_slots]. rewrite Forall_map.
  apply Forall_forall. intros p Hp. apply filter_In in Hp. destruct Hp as [Hp _]. unfold factory in Hp.
  apply in_map_iff in Hp. destruct Hp as (f & <- & _). cbn [s_insp snd]. apply HP.
Qed.

(* everything a reader can make of a fresh wrapper holds reachable inspector objects only *)
Theorem wreach_reachable expected allowed w : wreach expected allowed w -> slots_ok reachable (w_slots w).
Proof.
  intros (inps & recs & H). eapply (w_run_slots reachable); [exact reachable_eat | exact reachable_finish | | exact H].
  apply new_slots_ok. exact reachable_init.
Qed.

(* ------------------------------------------------------------------ the raising properties coincide with the boolean ones *)
Lemma matches_r_ok ss : slots_ok reachable ss -> matches_r ss = Ok (filter (fun s => cmatch (s_insp s)) ss).
Proof.
  induction 1 as [|s t Hs Ht IH]; [reflexivity|]. cbn [matches_r filter].
  rewrite (cmatch_spec _ Hs). cbn [bind]. rewrite IH. cbn [bind]. reflexivity.
Qed.

Lemma slots_ok_filter P f ss : slots_ok P ss -> slots_ok P (filter f ss).
Proof. unfold slots_ok. intros H. apply Forall_forall. intros x Hx. apply filter_In in Hx. rewrite Forall_forall in H. apply H. tauto. Qed.

Theorem formats_r_spec w : slots_ok reachable (w_slots w) -> formats_r w = Ok (cw_formats w).
Proof.
  intros H. unfold formats_r, cw_formats, formats, matches, cw_non_raw, cw_is_raw.
  rewrite matches_r_ok by (apply slots_ok_filter; exact H). cbn [bind].
  destruct (negb (all_complete istate complete raw_lit_nonraw w) && negb (w_finished w)); [reflexivity|].
  destruct (filter (fun s : slot istate => cmatch (s_insp s)) (non_raw istate raw_lit_nonraw w)); reflexivity.
Qed.

Theorem format_r_spec w : slots_ok reachable (w_slots w) -> format_r w = cw_format w.
Proof.
  intros H. unfold format_r, cw_format, format. rewrite (formats_r_spec w H). cbn [bind]. fold (cw_formats w).
  destruct (cw_formats w) as [ms|]; reflexivity.
Qed.
