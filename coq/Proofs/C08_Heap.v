(* Proofs/C08_Heap.v — mask_dict_password with object identity (Model/C08_Heap.v):
   frame (the argument and everything that existed is unmodified), freshness of the
   result's dicts, agreement with the functional model on the tree the argument denotes. *)
From Coq Require Import String.
Require Import OV.Base.Bytes OV.Base.Py OV.Base.Str.
Require Import OV.Model.C08_Syntax OV.Gen.C08_Keys OV.Gen.C08_Shape OV.Gen.C08_Frame.
Require Import OV.Model.C08 OV.Model.C08_Heap OV.Proofs.C08.
From Coq Require Import Arith.
Open Scope nat_scope.

(* ================================================================== *)
(* 1. Heaps.                                                            *)
(* ================================================================== *)

Lemma hget_lt h l o : hget h l = Some o -> l < length h.
Proof. unfold hget. intros H. apply nth_error_Some. congruence. Qed.

Lemma hget_app_old h e l : l < length h -> hget (h ++ e) l = hget h l.
Proof. unfold hget. apply nth_error_app1. Qed.

Lemma hget_alloc_new h o : hget (h ++ [o]) (length h) = Some o.
Proof. unfold hget. rewrite nth_error_app2 by lia. rewrite Nat.sub_diag. reflexivity. Qed.

Lemma length_hset h l o : length (hset h l o) = length h.
Proof. revert l. induction h as [|x h IH]; intros [|l]; cbn [hset length]; auto. Qed.

Lemma hget_hset_same h l o : l < length h -> hget (hset h l o) l = Some o.
Proof.
  revert l. induction h as [|x h IH]; intros [|l] H; cbn [hset length] in *; try lia; [reflexivity|].
  unfold hget in *. cbn [nth_error]. apply IH. lia.
Qed.

Lemma hget_hset_other h l o m : m <> l -> hget (hset h l o) m = hget h m.
Proof.
  revert l m. induction h as [|x h IH]; intros [|l] [|m] H; cbn [hset]; try reflexivity; try congruence.
  unfold hget in *. cbn [nth_error]. apply IH. congruence.
Qed.

(* [pres n h h']: h' is at least as long as h and agrees with it below n *)
Definition pres (n : nat) (h h' : heap) : Prop :=
  length h <= length h' /\ forall l, l < n -> hget h' l = hget h l.

Lemma pres_refl n h : pres n h h.
Proof. split; [lia|reflexivity]. Qed.

Lemma pres_trans n m h1 h2 h3 : n <= m -> n <= length h1 -> pres n h1 h2 -> pres m h2 h3 -> pres n h1 h3.
Proof.
  intros Hnm Hn [L1 P1] [L2 P2]. split; [lia|]. intros l Hl. rewrite P2 by lia. apply P1. exact Hl.
Qed.

Lemma pres_weaken n m h h' : n <= m -> pres m h h' -> pres n h h'.
Proof. intros Hnm [L P]. split; [exact L|]. intros l Hl. apply P. lia. Qed.

Lemma pres_app h e : pres (length h) h (h ++ e).
Proof. split; [rewrite app_length; lia|]. intros l Hl. apply hget_app_old. exact Hl. Qed.

(* the regenerated frame facts: a fresh dict, written to only, returned *)
Lemma gen_out_init_fresh : gen_out_init = InitFresh dict_kind. Proof. reflexivity. Qed.
Lemma gen_store_only_out : gen_store_vars = [VarOut]. Proof. reflexivity. Qed.
Lemma gen_return_out : gen_return_var = VarOut. Proof. reflexivity. Qed.

(* ================================================================== *)
(* 1b. Denotation of a location as a tree.                              *)
(* ================================================================== *)

Fixpoint DenItems (n0 : nat) (h : heap) (its : list (key * loc)) (vs : list (key * value)) {struct vs} : Prop :=
  match its, vs with
  | [], [] => True
  | (k, l') :: its', (k', v') :: vs' => k = k' /\ Den n0 h l' v' /\ DenItems n0 h its' vs'
  | _, _ => False
  end.

Lemma Den_VMap n0 h l kd vs :
  Den n0 h l (VMap kd vs) <->
  n0 <= l /\ exists items, hget h l = Some (PDict kd items) /\ DenItems n0 h items vs.
Proof.
  cbn [Den].
  assert (E : forall vs its,
    (fix items_den (its : list (key * loc)) (vs : list (key * value)) {struct vs} : Prop :=
       match its, vs with
       | [], [] => True
       | (k, l') :: its', (k', v') :: vs' => k = k' /\ Den n0 h l' v' /\ items_den its' vs'
       | _, _ => False
       end) its vs = DenItems n0 h its vs).
  { clear. induction vs as [|[k' v'] vs IH]; intros [|[k l'] its]; try reflexivity.
    cbn [DenItems]. rewrite IH. reflexivity. }
  split.
  - intros [H1 [items [H2 H3]]]. split; [exact H1|]. exists items. split; [exact H2|]. rewrite <- E. exact H3.
  - intros [H1 [items [H2 H3]]]. split; [exact H1|]. exists items. split; [exact H2|]. rewrite E. exact H3.
Qed.

Lemma DenItems_impl a h1 b h2 : forall vs its,
  Forall (fun kv => forall l, Den a h1 l (snd kv) -> Den b h2 l (snd kv)) vs ->
  DenItems a h1 its vs -> DenItems b h2 its vs.
Proof.
  induction vs as [|[k' v'] vs IH]; intros [|[k l'] its] HF H; cbn [DenItems] in *; try tauto.
  inversion HF as [|? ? Hv Hrest]; subst. cbn [snd] in Hv. destruct H as [H1 [H2 H3]].
  split; [exact H1|]. split; [apply Hv; exact H2|apply IH; assumption].
Qed.

Lemma Den_mono n1 n2 h : n1 <= n2 -> forall v l, Den n2 h l v -> Den n1 h l v.
Proof.
  intros Hn. induction v as [s|t|kd vs IH] using value_ind'; intros l H; try exact H.
  apply Den_VMap in H. apply Den_VMap. destruct H as [H1 [items [H2 H3]]]. split; [lia|].
  exists items. split; [exact H2|]. eapply DenItems_impl; [|exact H3]. exact IH.
Qed.

(* h2 may differ from h1 only at dict locations below n1 (and beyond h1's end) *)
Lemma Den_stable n1 h1 h2 :
  (forall m, m < length h1 -> hget h2 m = hget h1 m \/ (m < n1 /\ loc_is h1 m CMapping = true)) ->
  forall v l, Den n1 h1 l v -> Den n1 h2 l v.
Proof.
  intros Hag. induction v as [s|t|kd vs IH] using value_ind'; intros l H.
  - cbn [Den] in *. destruct (Hag l (hget_lt _ _ _ H)) as [E|[_ E]]; [congruence|].
    unfold loc_is in E. rewrite H in E. discriminate.
  - cbn [Den] in *. destruct (Hag l (hget_lt _ _ _ H)) as [E|[_ E]]; [congruence|].
    unfold loc_is in E. rewrite H in E. discriminate.
  - apply Den_VMap in H. apply Den_VMap. destruct H as [H1 [items [H2 H3]]]. split; [exact H1|].
    exists items. split.
    + destruct (Hag l (hget_lt _ _ _ H2)) as [E|[E _]]; [congruence|lia].
    + eapply DenItems_impl; [|exact H3]. exact IH.
Qed.

Lemma Den_pres n1 h1 h2 v l : pres (length h1) h1 h2 -> Den n1 h1 l v -> Den n1 h2 l v.
Proof. intros [_ P]. apply Den_stable. intros m Hm. left. apply P. exact Hm. Qed.

(* isinstance facts read from the heap = those of the denoted tree *)
Lemma Den_loc_is h l v c : Den 0 h l v -> loc_is h l c = val_is v c.
Proof.
  destruct v as [s|kd vs|t]; intros H.
  - cbn [Den] in H. unfold loc_is. rewrite H. destruct c; reflexivity.
  - apply Den_VMap in H. destruct H as [_ [items [H _]]]. unfold loc_is. rewrite H. destruct c; reflexivity.
  - cbn [Den] in H. unfold loc_is. rewrite H. destruct c; reflexivity.
Qed.

Lemma run_body_heap h k l v : Den 0 h l v -> run_body gen_body (env_h h k l) = run_body gen_body (env_of k v).
Proof.
  intros H. rewrite !gen_body_equiv. unfold spec_action, env_h, env_of. cbn [e_val_is e_key_is e_has].
  rewrite !(Den_loc_is h l v _ H). reflexivity.
Qed.

Lemma dict_set_den n h k nl nv : Den n h nl nv -> forall accv accl,
  DenItems n h accl accv -> DenItems n h (dict_set_l k nl accl) (dict_set k nv accv).
Proof.
  intros Hn. induction accv as [|[k' v'] accv IH]; intros [|[k0 l0] accl] H; cbn [DenItems] in H; try tauto.
  - cbn [dict_set_l dict_set DenItems]. auto.
  - destruct H as [H1 [H2 H3]]. subst k'. cbn [dict_set_l dict_set].
    destruct (key_eqb k0 k); cbn [DenItems]; auto.
Qed.

Lemma height_items kd vs f : height (VMap kd vs) < S f -> Forall (fun kv => height (snd kv) < f) vs.
Proof.
  cbn [height]. induction vs as [|kv vs IH]; intros H; constructor; cbn [fold_right] in H; [lia|].
  apply IH. lia.
Qed.


Section Frame.
  Variable mp_h : heap -> loc -> loc -> heap * loc.      (* mask_password on the heap *)
  (* contract, first half: it only allocates *)
  Hypothesis mp_h_extends : forall h m s, exists e, fst (mp_h h m s) = h ++ e.

  Notation mdp_h := (mdp_h mp_h).
  Notation go_h := (go_h mp_h).
  Notation entry_loc := (entry_loc mp_h).

  Lemma mdp_h_unfold_dict f h secret d kd items :
    hget h d = Some (PDict kd items) ->
    mdp_h (S f) h secret d =
    match go_h (mdp_h f) secret [length h] items (h ++ [PDict dict_kind []]) with
    | Exn e => Exn e
    | Ok hf => Ok (hf, length h)
    end.
  Proof. intros H. cbn [C08_Heap.mdp_h]. rewrite H. reflexivity. Qed.

  Lemma mdp_h_result_loc fuel h secret d h' r : mdp_h fuel h secret d = Ok (h', r) -> r = length h.
  Proof.
    destruct fuel as [|f]; [discriminate|]. cbn [C08_Heap.mdp_h].
    destruct (hget h d) as [o|]; [|discriminate].
    destruct (obj_is o gen_guard_cls); [|discriminate].
    destruct o as [kd items| |]; try discriminate.
    cbn. destruct (C08_Heap.go_h _ _ _ _ _ _); [|discriminate]. intros H. inversion H. reflexivity.
  Qed.

  (* ================================================================== *)
  (* 2. Frame: everything that existed before the call is unmodified.     *)
  (*    No hypothesis on the heap: sharing, cycles, anything.             *)
  (* ================================================================== *)

  Definition rec_frames (rec : heap -> loc -> loc -> res (heap * loc)) : Prop :=
    forall h s d h' r, rec h s d = Ok (h', r) -> pres (length h) h h'.

  Lemma secret_loc_pres hc dflt sa secret : pres (length hc) hc (fst (secret_loc hc dflt sa secret)).
  Proof. destruct sa; cbn; [apply pres_refl|apply pres_app]. Qed.

  Lemma entry_loc_frame rec hc secret a vl h3 nl :
    rec_frames rec -> entry_loc rec hc secret a vl = Ok (h3, nl) -> pres (length hc) hc h3.
  Proof.
    intros Hrec H. destruct a as [sa| |sa|]; cbn [C08_Heap.entry_loc] in H.
    - pose proof (secret_loc_pres hc gen_default_secret sa secret) as P.
      destruct (secret_loc hc gen_default_secret sa secret) as [h2 s2]. cbn [fst] in P.
      apply Hrec in H. eapply pres_trans; [| |exact P|exact H]; [apply P|lia].
    - inversion H; subst. apply pres_refl.
    - destruct (loc_is hc vl CStr); [|discriminate].
      pose proof (secret_loc_pres hc gen_mp_default_secret sa secret) as P.
      destruct (secret_loc hc gen_mp_default_secret sa secret) as [h2 s2]. cbn [fst] in P.
      destruct (mp_h_extends h2 vl s2) as [e He]. inversion H as [Hm]. 
      assert (h3 = h2 ++ e) by (rewrite <- He, Hm; reflexivity). subst h3.
      eapply pres_trans; [| |exact P|apply pres_app]; [apply P|lia].
    - inversion H; subst. apply pres_refl.
  Qed.

  (* a store into the dict at [out] changes that location only *)
  Lemma hstore_out h out k nl h4 :
    hstore_all h [out] k nl = Ok h4 ->
    length h4 = length h /\ (forall l, l <> out -> hget h4 l = hget h l) /\
    exists kd items, hget h out = Some (PDict kd items) /\ hget h4 out = Some (PDict kd (dict_set_l k nl items)).
  Proof.
    cbn [hstore_all]. unfold hstore. destruct (hget h out) as [[kd items| |]|] eqn:E; try discriminate.
    intros H. inversion H; subst. split; [apply length_hset|]. split.
    - intros l Hl. apply hget_hset_other. exact Hl.
    - exists kd, items. split; [reflexivity|]. apply hget_hset_same. eapply hget_lt. exact E.
  Qed.

  Lemma go_h_frame rec secret out items : rec_frames rec ->
    forall hc hf, go_h rec secret [out] items hc = Ok hf ->
    length hc <= length hf /\ forall l, l < length hc -> l <> out -> hget hf l = hget hc l.
  Proof.
    intros Hrec. induction items as [|[k vl] t IH]; intros hc hf H; cbn [C08_Heap.go_h] in H.
    - inversion H; subst. split; [lia|reflexivity].
    - destruct (run_body gen_body (env_h hc k vl)) as [[a|]|]; [|apply IH; exact H|discriminate].
      destruct (entry_loc rec hc secret a vl) as [[h3 nl]|] eqn:E; [|discriminate].
      apply entry_loc_frame in E; [|exact Hrec]. destruct E as [L3 P3].
      destruct (hstore_all h3 [out] k nl) as [h4|] eqn:S4; [|discriminate].
      apply hstore_out in S4. destruct S4 as [L4 [P4 _]].
      apply IH in H. destruct H as [Lf Pf]. split; [lia|].
      intros l Hl Hne. rewrite Pf by (try lia; exact Hne). rewrite P4 by exact Hne. apply P3. exact Hl.
  Qed.

  Theorem mdp_h_frame fuel : forall h secret d h' r,
    mdp_h fuel h secret d = Ok (h', r) -> pres (length h) h h'.
  Proof.
    induction fuel as [|f IH]; intros h secret d h' r H; [discriminate|].
    cbn [C08_Heap.mdp_h] in H.
    destruct (hget h d) as [o|]; [|discriminate].
    destruct (obj_is o gen_guard_cls); [|discriminate].
    destruct o as [kd items| |]; try discriminate.
    rewrite gen_out_init_fresh, gen_store_only_out, gen_return_out in H. cbn [halloc map var_loc] in H.
    match type of H with context [C08_Heap.go_h ?a ?b ?c ?d ?e ?g] => destruct (C08_Heap.go_h a b c d e g) as [hf|] eqn:G end; [|discriminate].
    inversion H; subst. apply go_h_frame in G; [|exact IH]. destruct G as [L P].
    rewrite app_length in L. cbn [length] in L. split; [lia|].
    intros l Hl. rewrite P; [apply hget_app_old; exact Hl|rewrite app_length; lia|lia].
  Qed.

  (* what the code does on a structure that contains itself: it recurses until the
     interpreter's limit (the fuel) — RecursionError, a RuntimeError *)
  Theorem cycle_RecursionError k kd rest d : forall fuel h secret,
    hget h d = Some (PDict kd ((k, d) :: rest)) -> mdp_h fuel h secret d = Exn RuntimeError.
  Proof.
    induction fuel as [|f IH]; intros h secret Hd; [reflexivity|].
    rewrite (mdp_h_unfold_dict f h secret d kd _ Hd). cbn [C08_Heap.go_h].
    assert (Hd' : hget (h ++ [PDict dict_kind []]) d = Some (PDict kd ((k, d) :: rest))).
    { rewrite hget_app_old; [exact Hd|eapply hget_lt; exact Hd]. }
    assert (Hrun : run_body gen_body (env_h (h ++ [PDict dict_kind []]) k d) = Ok (Some (ARecurse SecGiven))).
    { rewrite gen_body_equiv. unfold spec_action, env_h. cbn [e_val_is]. unfold loc_is. rewrite Hd'. reflexivity. }
    rewrite Hrun. cbn [C08_Heap.entry_loc secret_loc]. rewrite (IH _ secret Hd'). reflexivity.
  Qed.
End Frame.

Section Heap.
  Variable mp : str -> str -> str.                       (* mask_password on strings *)
  Variable mp_h : heap -> loc -> loc -> heap * loc.      (* ... and on the heap *)
  (* contract of mask_password on the heap: it only allocates, and the reference it returns
     holds mask_password(message, secret) — which may be a new object or an existing one *)
  Hypothesis mp_h_extends : forall h m s, exists e, fst (mp_h h m s) = h ++ e.
  Hypothesis mp_h_result : forall h m s ms ss,
    hget h m = Some (PStr ms) -> hget h s = Some (PStr ss) ->
    hget (fst (mp_h h m s)) (snd (mp_h h m s)) = Some (PStr (mp ms ss)).

  Notation mdp_h := (mdp_h mp_h).
  Notation go_h := (go_h mp_h).
  Notation entry_loc := (entry_loc mp_h).
  Let mdp_h_frame := mdp_h_frame mp_h mp_h_extends.
  Let mdp_h_unfold_dict := mdp_h_unfold_dict mp_h.

  (* ================================================================== *)
  (* 3. Agreement with the functional model; freshness of the result.     *)
  (* ================================================================== *)

  (* one store into the dict under construction at [o] *)
  Lemma store_step o hc h2 k nl nv accl accv :
    pres (length hc) hc h2 -> o < length hc ->
    hget hc o = Some (PDict dict_kind accl) ->
    DenItems (S o) hc accl accv -> Den (S o) h2 nl nv ->
    exists h3, hstore_all h2 [o] k nl = Ok h3 /\
      length h3 = length h2 /\
      (forall m, m <> o -> hget h3 m = hget h2 m) /\
      hget h3 o = Some (PDict dict_kind (dict_set_l k nl accl)) /\
      DenItems (S o) h3 (dict_set_l k nl accl) (dict_set k nv accv).
  Proof.
    intros [L P] Ho Hg HA HN.
    assert (Hg2 : hget h2 o = Some (PDict dict_kind accl)) by (rewrite P by exact Ho; exact Hg).
    cbn [hstore_all]. unfold hstore. rewrite Hg2.
    set (h3 := hset h2 o (PDict dict_kind (dict_set_l k nl accl))).
    assert (O3 : forall m, m <> o -> hget h3 m = hget h2 m) by (intros m Hm; apply hget_hset_other; exact Hm).
    exists h3. split; [reflexivity|]. split; [apply length_hset|]. split; [exact O3|].
    split; [apply hget_hset_same; lia|].
    apply dict_set_den.
    - eapply Den_stable; [|exact HN]. intros m Hm. destruct (Nat.eq_dec m o) as [->|Hne].
      + right. split; [lia|]. unfold loc_is. rewrite Hg2. reflexivity.
      + left. apply O3. exact Hne.
    - eapply DenItems_impl; [|exact HA]. apply Forall_forall. intros kv _ l. apply Den_stable.
      intros m Hm. destruct (Nat.eq_dec m o) as [->|Hne].
      + right. split; [lia|]. unfold loc_is. rewrite Hg. reflexivity.
      + left. rewrite O3 by exact Hne. apply P. exact Hm.
  Qed.

  Definition sound_h (v : value) : Prop :=
    forall fuel h d secret ss, height v < fuel -> Den 0 h d v -> is_mapping v = true ->
      hget h secret = Some (PStr ss) ->
      exists h' r t', mdp_h fuel h secret d = Ok (h', r) /\ mdp mp ss v = Ok t' /\ Den (length h) h' r t'.

  Lemma go_h_correct f o h0 secret ss : o = length h0 -> hget h0 secret = Some (PStr ss) ->
    forall vs, Forall (fun kv => sound_h (snd kv)) vs -> Forall (fun kv => height (snd kv) < f) vs ->
    forall its hc accl accv,
      DenItems 0 h0 its vs -> pres (length h0) h0 hc -> o < length hc ->
      hget hc o = Some (PDict dict_kind accl) -> DenItems (S o) hc accl accv ->
      exists hf accl' accv',
        go_h (mdp_h f) secret [o] its hc = Ok hf /\ go_items mp ss vs accv = Ok accv' /\
        pres (length h0) h0 hf /\ o < length hf /\
        hget hf o = Some (PDict dict_kind accl') /\ DenItems (S o) hf accl' accv'.
  Proof.
    intros Ho Hs. induction vs as [|[k' v] vs IH]; intros HS HH [|[k l] its] hc accl accv HD HP Hol Hgo HA;
      cbn [DenItems] in HD; try tauto.
    - exists hc, accl, accv. cbn [C08_Heap.go_h go_items]. auto 10.
    - destruct HD as [Hk [HDv HDr]]. subst k'.
      inversion HS as [|? ? Hv HSr]; subst. inversion HH as [|? ? Hhv HHr]; subst. cbn [snd] in Hv, Hhv.
      assert (HDc : Den 0 hc l v) by (eapply Den_pres; eassumption).
      assert (Hso : secret < length h0) by (eapply hget_lt; exact Hs).
      assert (Hsc : hget hc secret = Some (PStr ss)) by (destruct HP as [_ P]; rewrite P by exact Hso; exact Hs).
      assert (Lhc : length h0 <= length hc) by apply HP.
      cbn [C08_Heap.go_h go_items]. rewrite (run_body_heap hc k l v HDc), entry_action.
      assert (K : forall h2 nl nv, pres (length hc) hc h2 -> Den (S (length h0)) h2 nl nv ->
                exists hf accl' accv',
                  match hstore_all h2 [length h0] k nl with
                  | Exn e => Exn e
                  | Ok h4 => go_h (mdp_h f) secret [length h0] its h4
                  end = Ok hf /\ go_items mp ss vs (dict_set k nv accv) = Ok accv' /\
                  pres (length h0) h0 hf /\ length h0 < length hf /\
                  hget hf (length h0) = Some (PDict dict_kind accl') /\ DenItems (S (length h0)) hf accl' accv').
      { intros h2 nl nv P2 D2.
        destruct (store_step (length h0) hc h2 k nl nv accl accv P2 Hol Hgo HA D2) as [h3 [S3 [L3 [O3 [G3 D3]]]]].
        rewrite S3. destruct P2 as [L2 P2]. destruct HP as [L0 P0].
        apply (IH HSr HHr its h3 (dict_set_l k nl accl) (dict_set k nv accv) HDr); [|lia|exact G3|exact D3].
        split; [lia|]. intros m Hm. rewrite O3 by lia. rewrite P2 by lia. apply P0. exact Hm. }
      destruct (is_mapping v) eqn:Em.
      + cbn [C08_Heap.entry_loc secret_loc entry_value pick].
        destruct (Hv f hc l secret ss Hhv HDc Em Hsc) as [h2 [r [t' [E1 [E2 D2]]]]].
        rewrite E1, E2. apply K; [eapply mdp_h_frame; exact E1|].
        eapply Den_mono; [|exact D2]. lia.
      + destruct (secret_key k) eqn:Esk.
        * cbn [C08_Heap.entry_loc entry_value]. apply K; [apply pres_refl|]. cbn [Den]. exact Hsc.
        * unfold plain_action. destruct v as [s|kd vs'|t]; cbn [val_is]; [| discriminate |].
          -- cbn [C08_Heap.entry_loc secret_loc entry_value pick].
             rewrite (Den_loc_is hc l (VStr s) CStr HDc). cbn [val_is].
             cbn [Den] in HDc. pose proof (mp_h_result hc l secret s ss HDc Hsc) as R.
             destruct (mp_h_extends hc l secret) as [e He].
             destruct (mp_h hc l secret) as [h2 r]. cbn [fst snd] in R, He. subst h2.
             apply K; [apply pres_app|]. cbn [Den]. exact R.
          -- cbn [C08_Heap.entry_loc entry_value]. apply K; [apply pres_refl|]. exact HDc.
  Qed.

  Lemma mdp_h_sound_all : forall v, sound_h v.
  Proof.
    induction v as [s|t|kd vs IH] using value_ind'; intros fuel h d secret ss Hh HD Hm Hs; try discriminate.
    destruct fuel as [|f]; [lia|].
    apply Den_VMap in HD. destruct HD as [_ [items [Hg HDi]]].
    rewrite (mdp_h_unfold_dict f h secret d kd items Hg).
    destruct (go_h_correct f (length h) h secret ss eq_refl Hs vs IH (height_items kd vs f Hh)
                items (h ++ [PDict dict_kind []]) [] [] HDi (pres_app h _))
      as [hf [accl' [accv' [G [F [P [Lo [Ho D]]]]]]]].
    - rewrite app_length. cbn [length]. lia.
    - apply hget_alloc_new.
    - exact I.
    - rewrite G. exists hf, (length h), (VMap dict_kind accv'). split; [reflexivity|]. split.
      + rewrite mdp_unfold, gen_guard_is_mapping_test. cbn [val_is]. rewrite F. reflexivity.
      + apply Den_VMap. split; [lia|]. exists accl'. split; [exact Ho|].
        eapply DenItems_impl; [|exact D]. apply Forall_forall. intros kv _ l. apply Den_mono. lia.
  Qed.

  (* C08_heap_agrees_with_tree + C08_result_fresh, in one statement *)
  Theorem heap_agrees_with_tree fuel h d secret ss t :
    Den 0 h d t -> is_mapping t = true -> hget h secret = Some (PStr ss) -> height t < fuel ->
    exists h' r t',
      mdp_h fuel h secret d = Ok (h', r) /\ mdp mp ss t = Ok t' /\
      Den (length h) h' r t' /\ r = length h.
  Proof.
    intros HD Hm Hs Hf. destruct (mdp_h_sound_all t fuel h d secret ss Hf HD Hm Hs) as [h' [r [t' [E1 [E2 D]]]]].
    exists h', r, t'. split; [exact E1|]. split; [exact E2|]. split; [exact D|].
    eapply mdp_h_result_loc. exact E1.
  Qed.

  (* the argument reads back as the same tree after the call *)
  Corollary argument_denotes_the_same fuel h secret d h' r : mdp_h fuel h secret d = Ok (h', r) ->
    forall l v, Den 0 h l v -> Den 0 h' l v.
  Proof. intros H l v. apply Den_pres. eapply mdp_h_frame. exact H. Qed.

End Heap.

(* ================================================================== *)
(* 4. Non-vacuity.                                                      *)
(* ================================================================== *)

(* an instance of the abstract heap-level mask_password that meets the contract *)
Definition mp_h_alloc (mp : str -> str -> str) (h : heap) (m s : loc) : heap * loc :=
  match hget h m, hget h s with
  | Some (PStr ms), Some (PStr ss) => halloc h (PStr (mp ms ss))
  | _, _ => (h, m)
  end.
Lemma mp_h_alloc_extends mp h m s : exists e, fst (mp_h_alloc mp h m s) = h ++ e.
Proof.
  unfold mp_h_alloc. destruct (hget h m) as [[| ms|]|]; try (exists []; rewrite app_nil_r; reflexivity).
  destruct (hget h s) as [[| ss|]|]; try (exists []; rewrite app_nil_r; reflexivity).
  eexists. reflexivity.
Qed.
Lemma mp_h_alloc_result mp h m s ms ss :
  hget h m = Some (PStr ms) -> hget h s = Some (PStr ss) ->
  hget (fst (mp_h_alloc mp h m s)) (snd (mp_h_alloc mp h m s)) = Some (PStr (mp ms ss)).
Proof. intros Hm Hs. unfold mp_h_alloc. rewrite Hm, Hs. cbn [halloc fst snd]. apply hget_alloc_new. Qed.

(* a heap with sharing: d = {'password': s0, 'a': e, 'b': e, 'l': o} with e = {'token': o, 'note': s0}
   (e reachable twice, the list o and the string s0 shared), secret '***' at 4 *)
Definition ex_heap : heap :=
  [ PDict 0 [(KStr (lit "password"), 2); (KStr (lit "a"), 1); (KStr (lit "b"), 1); (KStr (lit "l"), 3)];
    PDict 3 [(KStr (lit "token"), 3); (KStr (lit "note"), 2)];
    PStr (lit "x");
    POther (lit "l[]");
    PStr (lit "***") ].

Example ex_heap_denotes : exists t, denote 6 ex_heap 0 = Some t /\ is_mapping t = true /\ height t < 3.
Proof. eexists. split; [vm_compute; reflexivity|split; [reflexivity|vm_compute; lia]]. Qed.

(* the call allocates locations 5.. ; the argument (0..4) is untouched; both results for e are
   new dicts (6 and 7); the list 3 and the secret 4 are shared by reference *)
Example ex_heap_run :
  mdp_h (mp_h_alloc toy_mp) 3 ex_heap 4 0 =
  Ok (ex_heap ++
      [ PDict 0 [(KStr (lit "password"), 4); (KStr (lit "a"), 6); (KStr (lit "b"), 8); (KStr (lit "l"), 3)];
        PDict 0 [(KStr (lit "token"), 4); (KStr (lit "note"), 7)];
        PStr (lit "<***>x");
        PDict 0 [(KStr (lit "token"), 4); (KStr (lit "note"), 9)];
        PStr (lit "<***>x") ], 5).
Proof. vm_compute. reflexivity. Qed.

(* a dict that contains itself *)
Example ex_cycle : forall fuel,
  mdp_h (mp_h_alloc toy_mp) fuel [PDict 0 [(KStr (lit "self"), 0)]; PStr (lit "***")] 1 0 = Exn RuntimeError.
Proof. intros fuel. eapply cycle_RecursionError. reflexivity. Qed.

(* the decidable route to the hypothesis [Den 0 h d t]: read the structure back with fuel *)
Lemma denote_sound : forall n h l v, denote n h l = Some v -> Den 0 h l v.
Proof.
  induction n as [|n IH]; intros h l v H; [discriminate|].
  cbn [denote] in H. destruct (hget h l) as [[kd items|s|t]|] eqn:E; try discriminate.
  - match type of H with match ?g items with _ => _ end = _ => set (go := g) in * end.
    destruct (go items) as [vs|] eqn:G; [|discriminate]. inversion H; subst. clear H.
    apply Den_VMap. split; [lia|]. exists items. split; [exact E|].
    clear E. revert vs G. induction items as [|[k l'] its IHi]; intros vs G; cbn in G.
    + inversion G. exact I.
    + destruct (denote n h l') as [v'|] eqn:Dv; [|discriminate].
      fold (go its) in G. destruct (go its) as [r|] eqn:Gr; [|discriminate]. inversion G; subst.
      cbn [DenItems]. split; [reflexivity|]. split; [apply IH; exact Dv|apply IHi; reflexivity].
  - inversion H; subst. exact E.
  - inversion H; subst. exact E.
Qed.

(* ================================================================== *)
(* 5. The sharing structure of the result.                              *)
(* ================================================================== *)

Definition slot_ok (n0 : nat) (secret : loc) (h0 h' : heap) (k : key) (al rl : loc) (v' : value) : Prop :=
  match v' with
  | VMap _ _ => Shr n0 secret h0 h' al rl v'
  | VStr _ => if secret_key k then rl = secret else True
  | VOther _ => rl = if secret_key k then secret else al
  end.

Fixpoint ShrSlots (n0 : nat) (secret : loc) (h0 h' : heap) (aits rits : list (key * loc))
         (vs : list (key * value)) {struct vs} : Prop :=
  match aits, rits, vs with
  | [], [], [] => True
  | (k, al) :: aits', (k1, rl) :: rits', (k2, v') :: vs' =>
      k1 = k /\ k2 = k /\ slot_ok n0 secret h0 h' k al rl v' /\ ShrSlots n0 secret h0 h' aits' rits' vs'
  | _, _, _ => False
  end.

Lemma Shr_VMap n0 secret h0 h' a r kd vs :
  Shr n0 secret h0 h' a r (VMap kd vs) <->
  n0 <= r /\ exists aitems ritems,
    hget h0 a = Some (PDict kd aitems) /\ hget h' r = Some (PDict dict_kind ritems) /\
    ShrSlots n0 secret h0 h' aitems ritems vs.
Proof.
  cbn [Shr].
  assert (E : forall vs aits rits,
    (fix slots (aits rits : list (key * loc)) (vs : list (key * value)) {struct vs} : Prop :=
       match aits, rits, vs with
       | [], [], [] => True
       | (k, al) :: aits', (k1, rl) :: rits', (k2, v') :: vs' =>
           k1 = k /\ k2 = k /\
           match v' with
           | VMap _ _ => Shr n0 secret h0 h' al rl v'
           | VStr _ => if secret_key k then rl = secret else True
           | VOther _ => rl = if secret_key k then secret else al
           end /\ slots aits' rits' vs'
       | _, _, _ => False
       end) aits rits vs = ShrSlots n0 secret h0 h' aits rits vs).
  { clear. induction vs as [|[k2 v'] vs IH]; intros [|[k al] aits] [|[k1 rl] rits]; try reflexivity.
    cbn [ShrSlots]. unfold slot_ok. rewrite IH. reflexivity. }
  split.
  - intros [H1 [ai [ri [H2 [H3 H4]]]]]. split; [exact H1|]. exists ai, ri. rewrite <- E. auto.
  - intros [H1 [ai [ri [H2 [H3 H4]]]]]. split; [exact H1|]. exists ai, ri. rewrite E. auto.
Qed.

Lemma ShrSlots_impl a b secret h0 h1 h2 : forall vs aits rits,
  Forall (fun kv => forall al rl, Shr a secret h0 h1 al rl (snd kv) -> Shr b secret h0 h2 al rl (snd kv)) vs ->
  ShrSlots a secret h0 h1 aits rits vs -> ShrSlots b secret h0 h2 aits rits vs.
Proof.
  induction vs as [|[k2 v'] vs IH]; intros [|[k al] aits] [|[k1 rl] rits] HF H; cbn [ShrSlots] in *; try tauto.
  inversion HF as [|? ? Hv Hrest]; subst. cbn [snd] in Hv. destruct H as [H1 [H2 [H3 H4]]].
  split; [exact H1|]. split; [exact H2|]. split; [|apply IH; assumption].
  unfold slot_ok in *. destruct v'; auto.
Qed.

Lemma Shr_mono n1 n2 secret h0 h' : n1 <= n2 -> forall v a r, Shr n2 secret h0 h' a r v -> Shr n1 secret h0 h' a r v.
Proof.
  intros Hn. induction v as [s|t|kd vs IH] using value_ind'; intros a r H; try exact I.
  apply Shr_VMap in H. apply Shr_VMap. destruct H as [H1 [ai [ri [H2 [H3 H4]]]]]. split; [lia|].
  exists ai, ri. split; [exact H2|]. split; [exact H3|]. eapply ShrSlots_impl; [|exact H4]. exact IH.
Qed.

(* the relation reads the result heap only at dict locations >= n1 *)
Lemma Shr_stable n1 secret h0 h1 h2 :
  (forall m, n1 <= m -> m < length h1 -> hget h2 m = hget h1 m) ->
  forall v a r, Shr n1 secret h0 h1 a r v -> Shr n1 secret h0 h2 a r v.
Proof.
  intros Hag. induction v as [s|t|kd vs IH] using value_ind'; intros a r H; try exact I.
  apply Shr_VMap in H. apply Shr_VMap. destruct H as [H1 [ai [ri [H2 [H3 H4]]]]]. split; [exact H1|].
  exists ai, ri. split; [exact H2|]. split.
  - rewrite Hag; [exact H3|exact H1|eapply hget_lt; exact H3].
  - eapply ShrSlots_impl; [|exact H4]. exact IH.
Qed.

Lemma ShrSlots_stable n1 secret h0 h1 h2 aits rits vs :
  (forall m, n1 <= m -> m < length h1 -> hget h2 m = hget h1 m) ->
  ShrSlots n1 secret h0 h1 aits rits vs -> ShrSlots n1 secret h0 h2 aits rits vs.
Proof.
  intros Hag. apply ShrSlots_impl. apply Forall_forall. intros kv _ al rl. apply Shr_stable. exact Hag.
Qed.

Lemma ShrSlots_snoc n secret h0 h k al rl v : slot_ok n secret h0 h k al rl v ->
  forall pv pa pr, ShrSlots n secret h0 h pa pr pv ->
  ShrSlots n secret h0 h (pa ++ [(k, al)]) (pr ++ [(k, rl)]) (pv ++ [(k, v)]).
Proof.
  intros Hs. induction pv as [|[k2 v'] pv IH]; intros [|[k0 al0] pa] [|[k1 rl0] pr] H; cbn [ShrSlots] in H; try tauto.
  - cbn [app ShrSlots]. auto.
  - destruct H as [H1 [H2 [H3 H4]]]. cbn [app ShrSlots]. auto.
Qed.

Lemma dict_set_l_fresh k l d : ~ In k (map fst d) -> dict_set_l k l d = d ++ [(k, l)].
Proof.
  induction d as [|[k' l'] t IH]; intros H; [reflexivity|].
  cbn [dict_set_l map fst In app] in *.
  destruct (key_eqb k' k) eqn:E.
  - apply key_eqb_eq in E. subst. tauto.
  - rewrite IH by tauto. reflexivity.
Qed.

Lemma DenItems_keys n h : forall vs its, DenItems n h its vs -> map fst its = map fst vs.
Proof.
  induction vs as [|[k' v'] vs IH]; intros [|[k l] its] H; cbn [DenItems] in H; try tauto; try reflexivity.
  destruct H as [H1 [_ H3]]. cbn [map fst]. rewrite H1, (IH its H3). reflexivity.
Qed.

Section Sharing.
  Variable mp_h : heap -> loc -> loc -> heap * loc.
  Hypothesis mp_h_extends : forall h m s, exists e, fst (mp_h h m s) = h ++ e.
  Notation mdp_h := (mdp_h mp_h).
  Notation go_h := (go_h mp_h).

  (* h0: the heap in which the argument lives; hc: the (extended) heap at the time of the call *)
  Definition shr_at (h0 : heap) (secret : loc) (v : value) : Prop :=
    forall fuel hc d h' r, pres (length h0) h0 hc -> Den 0 h0 d v -> wf v = true -> is_mapping v = true ->
      mdp_h fuel hc secret d = Ok (h', r) -> Shr (length hc) secret h0 h' d r v.

  Lemma go_h_sharing f o h0 secret ss : hget h0 secret = Some (PStr ss) -> length h0 <= o ->
    forall vs, Forall (fun kv => shr_at h0 secret (snd kv)) vs -> Forall (fun kv => wf (snd kv) = true) vs ->
    forall its hc accl paits pvs hf,
      DenItems 0 h0 its vs -> pres (length h0) h0 hc -> o < length hc ->
      hget hc o = Some (PDict dict_kind accl) ->
      (forall k, In k (map fst its) -> ~ In k (map fst accl)) -> NoDup (map fst its) ->
      ShrSlots (S o) secret h0 hc paits accl pvs ->
      go_h (mdp_h f) secret [o] its hc = Ok hf ->
      exists accl', hget hf o = Some (PDict dict_kind accl') /\
                    ShrSlots (S o) secret h0 hf (paits ++ its) accl' (pvs ++ vs).
  Proof.
    intros Hs Hlo. induction vs as [|[k' v] vs IH]; intros HS HW [|[k l] its] hc accl paits pvs hf HD HP Hol Hgo Hdis Hnd HA G;
      cbn [DenItems] in HD; try tauto.
    - cbn [C08_Heap.go_h] in G. inversion G; subst. exists accl. rewrite !app_nil_r. auto.
    - destruct HD as [Hk [HDv HDr]]. subst k'.
      inversion HS as [|? ? Hv HSr]; subst. inversion HW as [|? ? Hwv HWr]; subst. cbn [snd] in Hv, Hwv.
      cbn [map fst] in Hnd. inversion Hnd as [|? ? Hkn Hnd']; subst.
      assert (HDc : Den 0 hc l v) by (eapply Den_pres; eassumption).
      destruct HP as [L0 P0].
      cbn [C08_Heap.go_h] in G. rewrite (run_body_heap hc k l v HDc), entry_action in G.
      assert (K : forall h2 nl, pres (length hc) hc h2 -> slot_ok (S o) secret h0 h2 k l nl v ->
                match hstore_all h2 [o] k nl with
                | Exn e => Exn e
                | Ok h4 => go_h (mdp_h f) secret [o] its h4
                end = Ok hf ->
                exists accl', hget hf o = Some (PDict dict_kind accl') /\
                  ShrSlots (S o) secret h0 hf (paits ++ (k, l) :: its) accl' (pvs ++ (k, v) :: vs)).
      { intros h2 nl [L2 P2] Hslot G2.
        destruct (hstore_all h2 [o] k nl) as [h4|] eqn:S4; [|discriminate].
        apply hstore_out in S4. destruct S4 as [L4 [P4 [kd [items [Hg2 Hg4]]]]].
        rewrite P2 in Hg2 by exact Hol. rewrite Hgo in Hg2. inversion Hg2; subst kd items.
        rewrite dict_set_l_fresh in Hg4 by (apply Hdis; left; reflexivity).
        assert (Hst : forall m, S o <= m -> m < length hc -> hget h4 m = hget hc m).
        { intros m Hm Hm'. rewrite P4 by lia. apply P2. exact Hm'. }
        destruct (IH HSr HWr its h4 (accl ++ [(k, nl)]) (paits ++ [(k, l)]) (pvs ++ [(k, v)]) hf HDr) as [accl' [Ha Hb]].
        - split; [lia|]. intros m Hm. rewrite P4 by lia. rewrite P2 by lia. apply P0. exact Hm.
        - lia.
        - exact Hg4.
        - intros k0 Hin. rewrite map_app, in_app_iff. cbn [map fst In].
          intros [H|[H|[]]]; [apply (Hdis k0); [right; exact Hin|exact H]|subst; contradiction].
        - exact Hnd'.
        - apply ShrSlots_snoc.
          + unfold slot_ok in *. destruct v; auto. eapply Shr_stable; [|exact Hslot].
            intros m Hm _. apply P4. lia.
          + eapply ShrSlots_stable; [|exact HA]. exact Hst.
        - exact G2.
        - exists accl'. split; [exact Ha|]. rewrite <- !app_assoc in Hb. exact Hb. }
      destruct (is_mapping v) eqn:Em.
      + cbn [C08_Heap.entry_loc secret_loc] in G.
        destruct (mdp_h f hc secret l) as [[h2 r2]|] eqn:E; [|discriminate].
        apply (K h2 r2); [eapply mdp_h_frame; [exact mp_h_extends|exact E]| |exact G].
        assert (HS2 : Shr (length hc) secret h0 h2 l r2 v) by (apply (Hv f hc l h2 r2); auto; split; assumption).
        destruct v; try discriminate. unfold slot_ok. eapply Shr_mono; [|exact HS2]. lia.
      + destruct (secret_key k) eqn:Esk.
        * cbn [C08_Heap.entry_loc] in G. apply (K hc secret); [apply pres_refl| |exact G].
          unfold slot_ok. destruct v; [rewrite Esk; reflexivity|discriminate|rewrite Esk; reflexivity].
        * unfold plain_action in G. destruct v as [s|kd vs'|t]; cbn [val_is] in G; [|discriminate|].
          -- cbn [C08_Heap.entry_loc secret_loc] in G.
             rewrite (Den_loc_is hc l (VStr s) CStr HDc) in G. cbn [val_is] in G.
             destruct (mp_h_extends hc l secret) as [e He].
             destruct (mp_h hc l secret) as [h2 r]. cbn [fst] in He. subst h2.
             apply (K (hc ++ e) r); [apply pres_app| |exact G]. unfold slot_ok. rewrite Esk. exact I.
          -- cbn [C08_Heap.entry_loc] in G. apply (K hc l); [apply pres_refl| |exact G].
             unfold slot_ok. rewrite Esk. reflexivity.
  Qed.

  Lemma sharing_all h0 secret ss : hget h0 secret = Some (PStr ss) -> forall v, shr_at h0 secret v.
  Proof.
    intros Hs. induction v as [s|t|kd vs IH] using value_ind'; intros fuel hc d h' r HP HD Hw Hm H; try discriminate.
    destruct fuel as [|f]; [discriminate|].
    apply Den_VMap in HD. destruct HD as [_ [items [Hg HDi]]].
    assert (Hgc : hget hc d = Some (PDict kd items)).
    { destruct HP as [_ P]. rewrite P; [exact Hg|eapply hget_lt; exact Hg]. }
    rewrite (mdp_h_unfold_dict mp_h f hc secret d kd items Hgc) in H.
    destruct (go_h (mdp_h f) secret [length hc] items (hc ++ [PDict dict_kind []])) as [hf|] eqn:G; [|discriminate].
    inversion H; subst hf r. clear H.
    apply wf_VMap in Hw. destruct Hw as [Hnd Hw]. rewrite Forall_forall in Hw.
    destruct (go_h_sharing f (length hc) h0 secret ss Hs (proj1 HP) vs IH
                (proj2 (Forall_forall _ _) Hw) items (hc ++ [PDict dict_kind []]) [] [] [] h' HDi)
      as [accl' [Ha Hb]].
    - destruct HP as [L P]. split; [rewrite app_length; lia|]. intros m Hm'. rewrite hget_app_old by lia. apply P. exact Hm'.
    - rewrite app_length. cbn [length]. lia.
    - apply hget_alloc_new.
    - intros k _ [].
    - rewrite (DenItems_keys 0 h0 vs items HDi). exact Hnd.
    - exact I.
    - exact G.
    - apply Shr_VMap. split; [lia|]. exists items, accl'. split; [exact Hg|]. split; [exact Ha|].
      cbn [app] in Hb. eapply ShrSlots_impl; [|exact Hb]. apply Forall_forall. intros kv _ al rl. apply Shr_mono. lia.
  Qed.

  (* C08_result_sharing *)
  Theorem result_sharing fuel h d secret ss t h' r :
    Den 0 h d t -> wf t = true -> is_mapping t = true -> hget h secret = Some (PStr ss) ->
    mdp_h fuel h secret d = Ok (h', r) -> Shr (length h) secret h h' d r t.
  Proof. intros HD Hw Hm Hs H. eapply (sharing_all h secret ss Hs t); eauto. apply pres_refl. Qed.
End Sharing.

(* on the example heap: both images of the shared mapping e are new dicts, the list (3) and the
   secret (4) are shared by reference *)
Example ex_heap_sharing :
  exists t h' r, denote 6 ex_heap 0 = Some t /\ wf t = true /\
    mdp_h (mp_h_alloc toy_mp) 3 ex_heap 4 0 = Ok (h', r) /\ Shr (length ex_heap) 4 ex_heap h' 0 r t.
Proof.
  eexists. eexists. eexists. split; [vm_compute; reflexivity|]. split; [vm_compute; reflexivity|].
  split; [apply ex_heap_run|].
  eapply result_sharing with (ss := lit "***"); try apply ex_heap_run.
  - apply mp_h_alloc_extends.
  - apply (denote_sound 6). vm_compute. reflexivity.
  - vm_compute. reflexivity.
  - reflexivity.
  - reflexivity.
Qed.
