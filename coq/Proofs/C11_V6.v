(* Proofs/C11_V6.v — the IPv6 text form: model recogniser <-> RFC 4291 grammar. *)
Require Import OV.Base.Bytes OV.Base.Py OV.Base.PyInt OV.Base.Str OV.Base.C11_Lib.
Require Import OV.Gen.C11_Netutils OV.Model.C11 OV.Model.C11_Spec OV.Proofs.C11_Split OV.Proofs.C11_V4.
Open Scope N_scope.

Lemma is_hex_iff c : is_hex c = true <-> hex_char c.
Proof. unfold is_hex, hex_char. lia. Qed.

Lemma forallb_Forall {A} (P : A -> bool) (Q : A -> Prop) l :
  (forall x, P x = true <-> Q x) -> (forallb P l = true <-> Forall Q l).
Proof.
  intros E. induction l as [|x t IH]; cbn.
  - split; constructor.
  - rewrite andb_true_iff, IH, E. split.
    + intros [? ?]. constructor; assumption.
    + intros H. inversion H. split; assumption.
Qed.

Lemma h16b_iff f : h16b f = true <-> h16 f.
Proof.
  unfold h16b, h16. destruct f as [|c t].
  - split; [discriminate|]. cbn. lia.
  - rewrite andb_true_iff, (forallb_Forall is_hex hex_char) by apply is_hex_iff.
    rewrite Nat.leb_le. cbn [length]. split; intros [? ?]; split; try assumption; lia.
Qed.

Lemma h16_nonempty f : h16 f -> f <> [].
Proof. intros [[H _] _] ->. cbn in H. lia. Qed.

Lemma h16_nocolon f : h16 f -> ~ In 58 f.
Proof.
  intros [_ H] Hin. rewrite Forall_forall in H. specialize (H _ Hin). unfold hex_char in H. lia.
Qed.

Lemma quad_nocolon q : dotted_quad q -> ~ In 58 q.
Proof.
  intros Q Hin. apply quad_chars in Q. rewrite forallb_forall in Q. specialize (Q _ Hin). discriminate.
Qed.

Lemma quad_has_dot q : dotted_quad q -> In 46 q.
Proof.
  intros [a [b [c [d [_ [_ [_ [_ ->]]]]]]]]. unfold dots. cbn [join]. apply in_or_app. right. left. reflexivity.
Qed.

Lemma quad_not_h16 q : dotted_quad q -> h16b q = false.
Proof.
  intros Q. destruct (h16b q) eqn:E; [|reflexivity]. apply h16b_iff in E. destruct E as [_ E].
  rewrite Forall_forall in E. specialize (E _ (quad_has_dot q Q)). unfold hex_char in E. lia.
Qed.

(* ---------- units ---------- *)
Lemma units_h_spec fs n : units_h fs = Some n <-> Forall h16 fs /\ n = length fs.
Proof.
  revert n. induction fs as [|f t IH]; intros n; cbn [units_h].
  - split; [intros [= <-]; split; [constructor|reflexivity]|intros [_ ->]; reflexivity].
  - destruct (h16b f) eqn:E.
    + destruct (units_h t) as [m|] eqn:U; cbn [option_map].
      * destruct (IH m) as [I1 _]. destruct (I1 eq_refl) as [Ht ->]. split.
        -- intros [= <-]. split; [constructor; [apply h16b_iff; exact E|exact Ht]|reflexivity].
        -- intros [_ ->]. reflexivity.
      * split; [discriminate|]. intros [H ->]. inversion H; subst.
        assert (X : None = Some (length t)) by (apply IH; split; [assumption|reflexivity]). discriminate X.
    + split; [discriminate|]. intros [H _]. inversion H as [|? ? Hf _]; subst. apply h16b_iff in Hf. congruence.
Qed.

(* what a '::'-free field list may be: groups, optionally ending in a dotted quad *)
Definition tail_shape (R : list str) (n : nat) : Prop :=
  (Forall h16 R /\ n = length R) \/
  (exists g q, R = g ++ [q] /\ Forall h16 g /\ dotted_quad q /\ n = (length g + 2)%nat).

Lemma units_spec fs n : units fs = Some n <-> tail_shape fs n.
Proof.
  revert n. induction fs as [|f t IH]; intros n.
  - cbn [units]. unfold tail_shape. split.
    + intros [= <-]. left. split; [constructor|reflexivity].
    + intros [[_ ->]|[g [q [H _]]]]; [reflexivity|]. destruct g; discriminate.
  - destruct t as [|f2 t2].
    + cbn [units]. unfold tail_shape. destruct (h16b f) eqn:E.
      * split.
        -- intros [= <-]. left. split; [constructor; [apply h16b_iff; exact E|constructor]|reflexivity].
        -- intros [[_ ->]|[g [q [H [_ [Q _]]]]]]; [reflexivity|].
           destruct g as [|x [|y g]]; try discriminate. injection H as ->.
           rewrite (quad_not_h16 _ Q) in E. discriminate.
      * destruct (pton4b f) eqn:P.
        -- split.
           ++ intros [= <-]. right. exists [], f. repeat split; [constructor|apply pton4b_iff; exact P].
           ++ intros [[H _]|[g [q [H [_ [_ ->]]]]]].
              ** inversion H as [|? ? Hf _]; subst. apply h16b_iff in Hf. congruence.
              ** destruct g as [|x [|y g]]; try discriminate. reflexivity.
        -- split; [discriminate|].
           intros [[H _]|[g [q [H [_ [Q _]]]]]].
           ++ inversion H as [|? ? Hf _]; subst. apply h16b_iff in Hf. congruence.
           ++ destruct g as [|x [|y g]]; try discriminate. injection H as ->. apply pton4b_iff in Q. congruence.
    + change (units (f :: f2 :: t2)) with (if h16b f then option_map S (units (f2 :: t2)) else None).
      destruct (h16b f) eqn:E.
      * destruct (units (f2 :: t2)) as [m|] eqn:U; cbn [option_map].
        -- destruct (IH m) as [I1 _]. specialize (I1 eq_refl). split.
           ++ intros [= <-]. destruct I1 as [[Ht ->]|[g [q [Hg [Hh [Q ->]]]]]].
              ** left. split; [constructor; [apply h16b_iff; exact E|exact Ht]|reflexivity].
              ** right. exists (f :: g), q. rewrite Hg. repeat split; try assumption.
                 constructor; [apply h16b_iff; exact E|exact Hh].
           ++ intros [[H ->]|[g [q [Hg [Hh [Q ->]]]]]].
              ** inversion H as [|? ? _ Ht]; subst.
                 assert (X : Some m = Some (length (f2 :: t2))) by (apply IH; left; split; [assumption|reflexivity]).
                 injection X as ->. reflexivity.
              ** destruct g as [|x g]; [discriminate|]. injection Hg as -> Hg. inversion Hh as [|? ? _ Hh']; subst.
                 assert (X : Some m = Some (length g + 2)%nat) by (apply IH; right; exists g, q; repeat split; assumption).
                 injection X as ->. reflexivity.
        -- split; [discriminate|].
           intros [[H ->]|[g [q [Hg [Hh [Q ->]]]]]].
           ++ inversion H as [|? ? _ Ht]; subst.
              assert (X : None = Some (length (f2 :: t2))) by (apply IH; left; split; [assumption|reflexivity]). discriminate X.
           ++ destruct g as [|x g]; [discriminate|]. injection Hg as -> Hg. inversion Hh as [|? ? _ Hh']; subst.
              assert (X : None = Some (length g + 2)%nat) by (apply IH; right; exists g, q; repeat split; assumption). discriminate X.
      * split; [discriminate|].
        intros [[H _]|[g [q [Hg [Hh _]]]]].
        -- inversion H as [|? ? Hf _]; subst. apply h16b_iff in Hf. congruence.
        -- destruct g as [|x g]; [discriminate|]. injection Hg as -> _. inversion Hh as [|? ? Hf _]; subst.
           apply h16b_iff in Hf. congruence.
Qed.

(* fields of a tail: non-empty and colon-free *)
Definition plain (f : str) : Prop := f <> [] /\ ~ In 58 f.

Lemma h16_plain f : h16 f -> plain f.
Proof. intros H. split; [apply h16_nonempty|apply h16_nocolon]; exact H. Qed.

Lemma quad_plain q : dotted_quad q -> plain q.
Proof. intros Q. split; [apply quad_nonempty|apply quad_nocolon]; exact Q. Qed.

Lemma Forall_h16_plain l : Forall h16 l -> Forall plain l.
Proof. apply Forall_impl. exact h16_plain. Qed.

Lemma tail_shape_plain R n : tail_shape R n -> Forall plain R.
Proof.
  intros [[H _]|[g [q [-> [H [Q _]]]]]].
  - apply Forall_h16_plain, H.
  - apply Forall_app. split; [apply Forall_h16_plain, H|constructor; [apply quad_plain, Q|constructor]].
Qed.

(* ---------- cut_empty ---------- *)
Lemma cut_empty_none fs : Forall (fun f => f <> []) fs -> cut_empty fs = None.
Proof.
  induction fs as [|f t IH]; intros H; [reflexivity|]. inversion H as [|? ? Hf Ht]; subst.
  cbn [cut_empty]. destruct f; [congruence|]. rewrite IH by exact Ht. reflexivity.
Qed.

Lemma cut_empty_some l r : Forall (fun f => f <> []) l -> cut_empty (l ++ [] :: r) = Some (l, r).
Proof.
  induction l as [|f t IH]; intros H; [reflexivity|]. inversion H as [|? ? Hf Ht]; subst.
  cbn [cut_empty app]. destruct f; [congruence|]. rewrite IH by exact Ht. reflexivity.
Qed.

Lemma cut_empty_inv fs l r : cut_empty fs = Some (l, r) -> fs = l ++ [] :: r.
Proof.
  revert l r. induction fs as [|f t IH]; intros l r H; [discriminate|].
  cbn [cut_empty] in H. destruct f as [|c f'].
  - injection H as <- <-. reflexivity.
  - destruct (cut_empty t) as [[l' r']|] eqn:E; [|discriminate]. injection H as <- <-.
    rewrite (IH _ _ eq_refl). reflexivity.
Qed.

Lemma plain_nonempty l : Forall plain l -> Forall (fun f => f <> []) l.
Proof. apply Forall_impl. intros f [H _]. exact H. Qed.

Lemma plain_nocolon l : Forall plain l -> Forall (fun f => ~ In 58 f) l.
Proof. apply Forall_impl. intros f [_ H]. exact H. Qed.

(* ---------- joins ---------- *)
Lemma join_app sep a b : a <> [] -> b <> [] -> join sep (a ++ b) = join sep a ++ sep ++ join sep b.
Proof.
  intros Ha Hb. induction a as [|x t IH]; [congruence|].
  destruct t as [|y t'].
  - cbn [app]. rewrite join_cons_ne by exact Hb. reflexivity.
  - change ((x :: y :: t') ++ b) with (x :: ((y :: t') ++ b)).
    rewrite join_cons_ne by (cbn [app]; discriminate). rewrite IH by discriminate.
    rewrite (join_cons_ne sep x (y :: t')) by discriminate. rewrite <- !app_assoc. reflexivity.
Qed.

Lemma colons_head_plain x l : plain x -> exists c t, colons (x :: l) = c :: t /\ c <> 58.
Proof.
  intros [Hne Hnc]. destruct x as [|c x']; [congruence|].
  exists c. destruct l as [|y l'].
  - exists x'. split; [reflexivity|]. intros ->. apply Hnc. left. reflexivity.
  - unfold colons. rewrite join_cons_ne by discriminate. cbn [app]. eexists. split; [reflexivity|].
    intros ->. apply Hnc. left. reflexivity.
Qed.

(* split of the text of a tail *)
Lemma split_colons_tail R : Forall plain R -> split_char 58 (colons R) = match R with [] => [[]] | _ => R end.
Proof.
  intros H. destruct R as [|x t]; [reflexivity|]. unfold colons. apply split_join; [discriminate|apply plain_nocolon, H].
Qed.

Lemma tail_units_of R n : tail_shape R n -> tail_units (match R with [] => [[]] | _ => R end) = Some n.
Proof.
  intros H. destruct R as [|x t].
  - destruct H as [[_ ->]|[g [q [E _]]]]; [reflexivity|destruct g; discriminate].
  - pose proof (tail_shape_plain _ _ H) as P. inversion P as [|? ? [Hx _] _]; subst.
    unfold tail_units. destruct x as [|c x']; [congruence|].
    apply units_spec in H. destruct t; exact H.
Qed.

(* ---------- recogniser => grammar ---------- *)
Lemma shape_7_text l R n : Forall h16 l -> tail_shape R n -> (length l + n <= 7)%nat ->
  ipv6_text (colons l ++ [58; 58] ++ colons R).
Proof.
  intros Hl [[HR ->]|[g [q [-> [Hg [Q ->]]]]]] Hn.
  - right. right. left. exists l, R. repeat split; assumption.
  - right. right. right. exists l, g, q. repeat split; try assumption. lia.
Qed.

Lemma tail_units_inv r0 nr : tail_units r0 = Some nr ->
  r0 <> [] /\ exists R, tail_shape R nr /\ colons r0 = colons R.
Proof.
  unfold tail_units. destruct r0 as [|f t]; [discriminate|].
  intros H. split; [discriminate|].
  destruct f as [|c f'].
  - destruct t as [|f2 t2].
    + injection H as <-. exists []. split; [left; split; [constructor|reflexivity]|reflexivity].
    + cbn [units] in H. discriminate.
  - exists ((c :: f') :: t). split; [|reflexivity]. apply units_spec. destruct t; exact H.
Qed.

Lemma pton6_fields_colon_inv t : pton6_fields (58 :: t) = true -> ipv6_text (58 :: 58 :: t).
Proof.
  unfold pton6_fields. rewrite split_cons_sep. cbn [cut_empty units_h].
  destruct (tail_units (split_char 58 t)) as [nr|] eqn:T; [|discriminate].
  intros Hn. apply Nat.leb_le in Hn.
  destruct (tail_units_inv _ _ T) as [_ [R [HR E]]].
  unfold colons in E. rewrite join_split in E. rewrite E.
  apply (shape_7_text [] R nr); [constructor|exact HR|exact Hn].
Qed.

Lemma split_head_empty c s r : split_char c s = [] :: r -> s = [] \/ exists t, s = c :: t.
Proof.
  intros H. pose proof (join_split c s) as J. rewrite H in J. destruct r as [|y r'].
  - left. symmetry. exact J.
  - right. rewrite join_cons_ne in J by discriminate. cbn [app] in J. eexists. symmetry. exact J.
Qed.

Lemma pton6_fields_nocolon_inv c t : c <> 58 -> pton6_fields (c :: t) = true -> ipv6_text (c :: t).
Proof.
  intros Hc. unfold pton6_fields. set (s := c :: t).
  pose proof (join_split 58 s) as J.
  destruct (cut_empty (split_char 58 s)) as [[l0 r0]|] eqn:CE.
  - destruct (units_h l0) as [nl|] eqn:UH; [|discriminate].
    destruct (tail_units r0) as [nr|] eqn:T; [|discriminate].
    intros Hn. apply Nat.leb_le in Hn.
    apply units_h_spec in UH. destruct UH as [Hl ->].
    apply cut_empty_inv in CE.
    destruct (tail_units_inv _ _ T) as [Hr0 [R [HR E]]].
    assert (Hl0 : l0 <> []).
    { intros ->. cbn [app] in CE. apply split_head_empty in CE. destruct CE as [CE|[t' CE]]; subst s; [discriminate|].
      injection CE as -> _. congruence. }
    rewrite CE in J. rewrite join_app in J by (assumption || discriminate).
    rewrite join_cons_ne in J by exact Hr0. cbn [app] in J.
    rewrite <- J. fold (colons l0). fold (colons r0). rewrite E.
    apply (shape_7_text l0 R nr); assumption.
  - destruct (units (split_char 58 s)) as [n|] eqn:U; [|discriminate].
    intros Hn. apply Nat.eqb_eq in Hn. subst n. apply units_spec in U.
    destruct U as [[Hg Hlen]|[g [q [Hs [Hg [Q Hlen]]]]]].
    + left. exists (split_char 58 s). repeat split; [exact Hg|symmetry; exact Hlen|symmetry; exact J].
    + right. left. exists g, q. repeat split; try assumption; [lia|]. rewrite <- Hs. symmetry. exact J.
Qed.

Lemma pton6b_sound s : pton6b s = true -> ipv6_text s.
Proof.
  unfold pton6b. destruct s as [|c t]; [discriminate|].
  destruct (c =? 58) eqn:E.
  - apply N.eqb_eq in E. subst c. destruct t as [|c2 t2]; [discriminate|].
    destruct (c2 =? 58) eqn:E2; [|discriminate]. apply N.eqb_eq in E2. subst c2.
    apply pton6_fields_colon_inv.
  - apply N.eqb_neq in E. apply pton6_fields_nocolon_inv. exact E.
Qed.

(* ---------- grammar => recogniser ---------- *)
Lemma pton6b_nocolon c t : c <> 58 -> pton6b (c :: t) = pton6_fields (c :: t).
Proof. intros H. unfold pton6b. apply N.eqb_neq in H. rewrite H. reflexivity. Qed.

Lemma pton6b_full R : tail_shape R 8 -> pton6b (colons R) = true.
Proof.
  intros H. pose proof (tail_shape_plain _ _ H) as P.
  destruct R as [|x R'].
  { destruct H as [[_ H]|[g [q [E _]]]]; [discriminate|destruct g; discriminate]. }
  inversion P as [|? ? Px _]; subst.
  destruct (colons_head_plain x R' Px) as [c [t [E Hc]]]. rewrite E.
  rewrite pton6b_nocolon by exact Hc. rewrite <- E.
  unfold pton6_fields. rewrite (split_colons_tail _ P).
  rewrite cut_empty_none by (apply plain_nonempty, P).
  apply units_spec in H. rewrite H. reflexivity.
Qed.

Lemma pton6b_compressed l R n : Forall h16 l -> tail_shape R n -> (length l + n <= 7)%nat ->
  pton6b (colons l ++ [58; 58] ++ colons R) = true.
Proof.
  intros Hl HR Hn. pose proof (tail_shape_plain _ _ HR) as PR. pose proof (Forall_h16_plain _ Hl) as Pl.
  destruct l as [|x l'].
  - cbn [colons join app]. unfold pton6b. cbn [N.eqb Pos.eqb].
    unfold pton6_fields. rewrite split_cons_sep. cbn [cut_empty units_h].
    rewrite (split_colons_tail _ PR), (tail_units_of _ _ HR).
    apply Nat.leb_le. cbn [length] in Hn. lia.
  - inversion Pl as [|? ? Px _]; subst.
    destruct (colons_head_plain x l' Px) as [c [t [E Hc]]].
    rewrite E. cbn [app]. rewrite pton6b_nocolon by exact Hc.
    change (c :: t ++ 58 :: 58 :: colons R) with ((c :: t) ++ 58 :: (58 :: colons R)). rewrite <- E.
    unfold pton6_fields. rewrite split_app, split_cons_sep.
    unfold colons at 1. rewrite split_join by (discriminate || apply plain_nocolon, Pl).
    rewrite cut_empty_some by (apply plain_nonempty, Pl).
    destruct (units_h_spec (x :: l') (length (x :: l'))) as [_ UH]. rewrite UH by (split; [exact Hl|reflexivity]).
    rewrite (split_colons_tail _ PR), (tail_units_of _ _ HR).
    apply Nat.leb_le. exact Hn.
Qed.

Lemma pton6b_complete s : ipv6_text s -> pton6b s = true.
Proof.
  intros [[g [Hg [Hlen ->]]]|[[g [q [Hg [Hlen [Q ->]]]]]|[[l [r [Hl [Hr [Hn ->]]]]]|[l [r [q [Hl [Hr [Q [Hn ->]]]]]]]]]].
  - apply pton6b_full. left. split; [exact Hg|symmetry; exact Hlen].
  - apply pton6b_full. right. exists g, q. repeat split; try assumption. lia.
  - apply (pton6b_compressed l r (length r)); [exact Hl|left; split; [exact Hr|reflexivity]|exact Hn].
  - apply (pton6b_compressed l (r ++ [q]) (length r + 2)); [exact Hl| |lia].
    right. exists r, q. repeat split; assumption.
Qed.

Theorem pton6b_iff s : pton6b s = true <-> ipv6_text s.
Proof. split; [apply pton6b_sound|apply pton6b_complete]. Qed.
