(* Proofs/C02_VmdkSpec.v — the executable sparse-VMDK predicate is the declarative one, and it decides acceptance *)
Require Import OV.Base.Bytes OV.Base.Py OV.Base.PyInt OV.Base.Str OV.Base.Insp_Struct OV.Gen.Insp_Consts OV.Model.Insp_Engine.
Require Import OV.Model.Insp_Vmdk OV.Model.Insp_All.
Require Import OV.Model.C02 OV.Proofs.C02_Engine OV.Proofs.C02_Bytes OV.Proofs.C02_Vmdk OV.Proofs.C02_VmdkRun.
Open Scope N_scope.

Lemma descriptor_okb_iff x : descriptor_okb x = true <-> descriptor_ok x.
Proof.
  unfold descriptor_okb. rewrite <- (check_descriptor_iff (mkIst 0 [] 0%nat false [] x)).
  destruct (vmdk_check_descriptor _) as [[]|e]; split; intros H; try reflexivity; discriminate H.
Qed.

Lemma footer_okb_iff hdr foot : footer_okb hdr foot = true <-> footer_ok hdr foot.
Proof.
  unfold footer_okb, footer_ok. cbn zeta.
  rewrite !andb_true_iff, !beq_eq, negb_true_iff, !N.eqb_eq, N.eqb_neq. tauto.
Qed.

Theorem vmdk_sparse_safeb_correct cs v :
  vmdk_sparse_safeb (concat cs) = Some v -> (accepted (Insp_All.run F_vmdk cs) = true <-> v = true).
Proof.
  set (b := concat cs). unfold vmdk_sparse_safeb. fold b.
  destruct ((64 <=? blen b) && beq (vmdk_sig b) VMDK_MAGIC_PP && ((vmdk_ver b =? 1) || (vmdk_ver b =? 2) || (vmdk_ver b =? 3))) eqn:Hz; [|discriminate].
  apply andb_true_iff in Hz. destruct Hz as [Hz Hver]. apply andb_true_iff in Hz. destruct Hz as [Hlen Hsig].
  apply beq_eq in Hsig.
  assert (Hl : 64 <= blen b) by lia.
  assert (Hpre : hdr_pre b) by (split; [exact Hsig|lia]).
  destruct ((vmdk_gd b =? gd_at_end) && (blen b <? 1599)) eqn:Hf3; [discriminate|].
  intros Hv. injection Hv as <-.
  rewrite !andb_true_iff, orb_true_iff, negb_true_iff, descriptor_okb_iff, footer_okb_iff, N.eqb_eq, N.leb_le.
  split.
  - intros Hacc.
    assert (Hp : safety (fst (Insp_All.run F_vmdk cs)) = Pass).
    { unfold accepted in Hacc. destruct (snd (Insp_All.run F_vmdk cs)); [discriminate|].
      destruct (safety (fst (Insp_All.run F_vmdk cs))); try discriminate. reflexivity. }
    destruct (vmdk_sparse_pass_implies cs Hl Hpre Hp) as [H1 [H2 [H3 [H4 H5]]]]. fold b in H1, H2, H3, H4, H5.
    split; [split; [split; [split|]|]|]; try assumption.
    destruct (vmdk_gd b =? gd_at_end) eqn:E; [right|left; reflexivity].
    apply N.eqb_eq in E. apply (H5 E).
  - intros [[[[H1 H2] H3] H4] H5].
    apply (clean_vmdk_accepted cs Hl Hpre H1 H2 H3 H4). fold b.
    intros Hgd. split; [lia|]. destruct H5 as [H5|H5]; [lia|exact H5].
Qed.
