(* Proofs/C12_Iso.v — the model of iso8601.parse_date inverts the model of
   datetime.isoformat() for every representable datetime whose UTC offset is a whole
   number of minutes (or that is naive: read as UTC), and rejects every other offset. *)
From Coq Require Import String.
Require Import OV.Base.Bytes OV.Base.Py.
Require Import OV.Model.C12_Calendar OV.Model.C12_Prim OV.Model.C12 OV.Model.C12_Iso.
Require Import OV.Proofs.C12_Calendar OV.Proofs.C12.
Open Scope Z_scope.

Lemma dval_digit k : dval (digit k) = Some (k mod 10).
Proof.
  unfold dval, digit. assert (H : 0 <= k mod 10 < 10) by (apply Z.mod_pos_bound; lia).
  destruct ((48 <=? Z.to_N (48 + k mod 10)) && (Z.to_N (48 + k mod 10) <=? 57))%N eqn:E; [f_equal; lia|lia].
Qed.

Lemma num_fmt2 n : 0 <= n < 100 -> num (fmt2 n) = Some n.
Proof.
  intros H. unfold num, fmt2. cbn [num_acc]. rewrite !dval_digit. f_equal. zdm. lia.
Qed.
Lemma num_fmt4 n : 0 <= n < 10000 -> num (fmt4 n) = Some n.
Proof.
  intros H. unfold num, fmt4. cbn [num_acc]. rewrite !dval_digit. f_equal. zdm. lia.
Qed.
Lemma num_fmt6 n : 0 <= n < 1000000 -> num (fmt6 n) = Some n.
Proof.
  intros H. unfold num, fmt6. cbn [num_acc]. rewrite !dval_digit. f_equal. zdm. lia.
Qed.

(* what follows the seconds in isoformat() output: nothing, or a sign *)
Definition tail_ok (t : str) : Prop := t = [] \/ exists sg r, t = sg :: r /\ dval sg = None /\ sg <> 46%N /\ sg <> 44%N.

Lemma span_digits_fmt6 n t : tail_ok t -> span_digits (fmt6 n ++ t) = (fmt6 n, t).
Proof.
  intros Ht. unfold fmt6. cbn [app span_digits]. rewrite !dval_digit.
  assert (E : span_digits t = ([], t)).
  { destruct Ht as [->|(sg & r & -> & Hd & _)]; [reflexivity|]. cbn [span_digits]. rewrite Hd. reflexivity. }
  rewrite E. reflexivity.
Qed.

Lemma parse_frac_iso us t : 0 <= us <= 999999 -> tail_ok t ->
  parse_frac ((if us =? 0 then [] else [c_dot] ++ fmt6 us) ++ t) = Some (us, t).
Proof.
  intros Hu Ht. destruct (us =? 0) eqn:E.
  - apply Z.eqb_eq in E. subst us. cbn [app].
    destruct Ht as [->|(sg & r & -> & Hd & H1 & H2)]; [reflexivity|].
    unfold parse_frac. destruct ((sg =? 46) || (sg =? 44))%N eqn:Es; [lia|reflexivity].
  - cbn [app]. unfold parse_frac, c_dot. cbn [N.eqb Pos.eqb orb].
    rewrite (span_digits_fmt6 us t Ht).
    change (length (fmt6 us)) with 6%nat. cbn [Nat.leb andb].
    change (firstn 6 (fmt6 us ++ [48; 48; 48; 48; 48]%N)) with (fmt6 us).
    rewrite num_fmt6 by lia. reflexivity.
Qed.

Lemma iso_parse_shape_eq y mo d h mi s rest :
  0 <= y < 10000 -> 0 <= mo < 100 -> 0 <= d < 100 -> 0 <= h < 100 -> 0 <= mi < 100 -> 0 <= s < 100 ->
  iso_parse_shape (fmt4 y ++ [c_dash] ++ fmt2 mo ++ [c_dash] ++ fmt2 d ++ [c_T] ++ fmt2 h ++ [c_colon] ++ fmt2 mi ++ [c_colon] ++ fmt2 s ++ rest) =
  match parse_frac rest with
  | Some (us, rest') =>
      match parse_tz rest' with
      | Some (Ok z) => match mk_datetime (mkF y mo d h mi s us) with Ok n => Ok (mkDt (wall n) (Some z)) | Exn e => Exn e end
      | Some (Exn e) => Exn e
      | None => unmodelled
      end
  | None => unmodelled
  end.
Proof.
  intros Hy Hmo Hd Hh Hmi Hs.
  pose proof (num_fmt4 y Hy) as E1. pose proof (num_fmt2 mo Hmo) as E2. pose proof (num_fmt2 d Hd) as E3.
  pose proof (num_fmt2 h Hh) as E4. pose proof (num_fmt2 mi Hmi) as E5. pose proof (num_fmt2 s Hs) as E6.
  unfold fmt4, fmt2 in *. unfold iso_parse_shape, c_dash, c_T, c_colon. cbn [app].
  cbn [N.eqb Pos.eqb orb]. rewrite E1, E2, E3, E4, E5, E6. reflexivity.
Qed.

(* offsets isoformat() prints as +HH:MM / -HH:MM *)
Definition whole_minutes (o : Z) : bool := (o mod US_PER_MIN =? 0) && (Z.abs o <? 1440 * US_PER_MIN).
Definition iso_offset_ok (d : dt) : bool := match tz d with None => true | Some z => whole_minutes (tz_off z) end.

Lemma fmt_offset_whole o : whole_minutes o = true ->
  fmt_offset o = [if o <? 0 then c_dash else c_plus] ++ fmt2 (Z.abs o / US_PER_HOUR) ++ [c_colon] ++ fmt2 ((Z.abs o / US_PER_MIN) mod 60).
Proof.
  unfold whole_minutes. intros H. apply andb_prop in H. destruct H as [H1 H2].
  apply Z.eqb_eq in H1. apply Z.ltb_lt in H2. unfold fmt_offset.
  assert (E1 : (Z.abs o / US_PER_SEC) mod 60 = 0) by (unfold US_PER_MIN, US_PER_SEC in *; zdm; lia).
  assert (E2 : Z.abs o mod US_PER_SEC = 0) by (unfold US_PER_MIN, US_PER_SEC in *; zdm; lia).
  rewrite E1, E2. cbn [Z.eqb andb]. rewrite !app_nil_r. reflexivity.
Qed.

Lemma parse_tz_whole o : whole_minutes o = true ->
  exists nm, parse_tz (fmt_offset o) = Some (Ok (mkTz o (Some nm))).
Proof.
  intros H. rewrite (fmt_offset_whole o H).
  unfold whole_minutes in H. apply andb_prop in H. destruct H as [H1 H2].
  apply Z.eqb_eq in H1. apply Z.ltb_lt in H2.
  set (hh := Z.abs o / US_PER_HOUR). set (mm := (Z.abs o / US_PER_MIN) mod 60).
  assert (Hh : 0 <= hh < 100) by (subst hh; unfold US_PER_HOUR, US_PER_MIN, US_PER_SEC in *; zdm; lia).
  assert (Hm : 0 <= mm < 100) by (subst mm; unfold US_PER_MIN, US_PER_SEC in *; zdm; lia).
  pose proof (num_fmt2 hh Hh) as E1. pose proof (num_fmt2 mm Hm) as E2.
  assert (Hmins : hh * 60 + mm < 1440 /\ (if o <? 0 then -1 else 1) * (hh * 60 + mm) * US_PER_MIN = o).
  { subst hh mm. unfold US_PER_HOUR, US_PER_MIN, US_PER_SEC in *. destruct (o <? 0) eqn:Eo; zdm; lia. }
  destruct Hmins as [Hlt Hval].
  unfold fmt2 in *. cbn [app]. unfold parse_tz.
  destruct (o <? 0) eqn:Eo; unfold c_dash, c_plus, c_colon; cbn [N.eqb Pos.eqb orb]; rewrite E1, E2;
    (destruct (hh * 60 + mm <? 1440) eqn:El; [|lia]); eexists; do 3 f_equal; exact Hval.
Qed.

Lemma tail_ok_offset o : tail_ok (fmt_offset o).
Proof.
  right. unfold fmt_offset. cbn [app]. eexists. eexists. split; [reflexivity|].
  destruct (o <? 0); unfold c_dash, c_plus; repeat split; try reflexivity; discriminate.
Qed.

(* the round trip *)
Theorem iso_roundtrip_shape d : in_range (wall d) = true -> iso_offset_ok d = true ->
  exists z, iso_parse_shape (iso_format d) = Ok (mkDt (wall d) (Some z)) /\
            tz_off z = match tz d with None => 0 | Some t => tz_off t end.
Proof.
  intros R Ho. destruct (dt_fields_valid d R) as [V E].
  pose proof V as V'. apply valid_fields_spec in V'. destruct V' as (Vd & Vy & VH & VM & VS & Vu).
  apply valid_ymd_spec in Vd. destruct Vd as (Vy1 & Vm & Vdd). unfold month_ok in Vm.
  assert (Vd31 : f_day (dt_fields d) <= 31).
  { revert Vdd. unfold days_in_month. destruct (is_leap (f_year (dt_fields d)));
      repeat match goal with |- context [if ?c then _ else _] => destruct c end; lia. }
  unfold MAXYEAR in Vy.
  unfold iso_format. cbv zeta.
  rewrite iso_parse_shape_eq by lia.
  unfold iso_offset_ok in Ho. destruct (tz d) as [t|].
  - rewrite (parse_frac_iso _ _ Vu (tail_ok_offset (tz_off t))).
    replace (mkF _ _ _ _ _ _ _) with (dt_fields d) by (destruct (dt_fields d); reflexivity).
    unfold mk_datetime. rewrite V, E. cbn [naive wall].
    destruct (parse_tz_whole (tz_off t) Ho) as [nm Ep]. rewrite Ep. eexists. split; reflexivity.
  - rewrite (parse_frac_iso _ [] Vu (or_introl eq_refl)).
    replace (mkF _ _ _ _ _ _ _) with (dt_fields d) by (destruct (dt_fields d); reflexivity).
    unfold mk_datetime. rewrite V, E. cbn [naive wall parse_tz]. eexists. split; reflexivity.
Qed.

Theorem iso_roundtrip d : in_range (wall d) = true -> iso_offset_ok d = true ->
  exists z, iso_parse (iso_format d) = Ok (mkDt (wall d) (Some z)) /\
            tz_off z = match tz d with None => 0 | Some t => tz_off t end.
Proof.
  intros R Ho. destruct (iso_roundtrip_shape d R Ho) as (z & E & Ez). exists z. split; [|exact Ez].
  unfold iso_parse. rewrite E. reflexivity.
Qed.

(* read back through normalize_time, the parsed text denotes the instant of the original
   (a naive original is read as UTC) *)
Corollary iso_roundtrip_instant d : in_range (wall d) = true -> iso_offset_ok d = true ->
  exists d', iso_parse (iso_format d) = Ok d' /\ wall d' = wall d /\ instant d' = instant d.
Proof.
  intros R Ho. destruct (iso_roundtrip d R Ho) as (z & E & Ez). eexists. split; [exact E|].
  split; [reflexivity|]. unfold instant. cbn [tz wall]. rewrite Ez. destruct (tz d); lia.
Qed.

(* ...and an offset with a seconds part is printed by isoformat() but rejected by the parser
   (finding iso-submin): the statement for all offsets is false *)
Definition iso_full_statement : Prop :=
  forall d, in_range (wall d) = true ->
            match tz d with None => True | Some t => Z.abs (tz_off t) < 1440 * US_PER_MIN end ->
            exists d', iso_parse (iso_format d) = Ok d' /\ wall d' = wall d /\ instant d' = instant d.

Definition iso_witness : dt := mkDt 63713433600000000 (Some (mkTz 30000000 None)).   (* 2020-01-01T00:00:00+00:00:30 *)

Theorem iso_submin_refuted : ~ iso_full_statement.
Proof.
  intros H. specialize (H iso_witness eq_refl). cbn [tz iso_witness tz_off] in H.
  destruct (H ltac:(unfold US_PER_MIN, US_PER_SEC; lia)) as (d' & E & _).
  assert (X : iso_parse (iso_format iso_witness) = Exn ValueError) by (vm_compute; reflexivity).
  rewrite X in E. clear -E. discriminate E.
Qed.

Example iso_roundtrip_ex :
  iso_parse (iso_format (mkDt 63713433600000001 (Some (mkTz (-19800000000) None))))
  = Ok (mkDt 63713433600000001 (Some (mkTz (-19800000000) (Some (lit "-05:30"))))).
Proof. vm_compute. reflexivity. Qed.
Example iso_offset_ok_ex : iso_offset_ok (mkDt 63713433600000001 (Some (mkTz (-19800000000) None))) = true /\
                           iso_offset_ok iso_witness = false /\ in_range 63713433600000001 = true.
Proof. repeat split; vm_compute; reflexivity. Qed.
