(* Proofs/C02_F1.v — finding F1: in VMDK text-descriptor mode only what the first read delivered is examined.
   The full statement for VMDK descriptors and its refutation by a witness. *)
From Coq Require Import String.
Require Import OV.Base.Bytes OV.Base.Py OV.Base.PyInt OV.Base.Str OV.Base.Insp_Struct OV.Gen.Insp_Consts OV.Model.Insp_Engine.
Require Import OV.Model.Insp_Vmdk OV.Model.Insp_All OV.Model.C02.
Open Scope N_scope.

(* What the property demands of a VMDK that has no sparse header (descriptor-only file), for all chunkings:
   if it is accepted, no extent line of its descriptor contains a '/' and every line is recognised. *)
Definition C02_vmdk_text_full_statement : Prop :=
  forall cs : list bytes,
    prefixb VMDK_MAGIC (concat cs) = false ->
    accepted (Insp_All.run F_vmdk cs) = true ->
    (forall l, In l (extent_lines (text_of (concat cs))) -> memN 47 l = false) /\
    (forall l, In l (desc_lines (text_of (concat cs))) -> line_ok l).

Definition nl : bytes := [10].
Fixpoint times (n : nat) (b : bytes) : bytes := match n with O => [] | S k => b ++ times k b end.
Definition f1_head : bytes :=
  lit "# Disk DescriptorFile" ++ nl ++ lit "version=1" ++ nl ++ lit "createType=" ++ [34] ++ lit "monolithicSparse" ++ [34] ++ nl ++
  lit "RW 2048 SPARSE " ++ [34] ++ lit "disk.vmdk" ++ [34] ++ nl.
Definition f1_tail : bytes := lit "RW 1 FLAT " ++ [34] ++ lit "/etc/passwd" ++ [34] ++ lit " 0" ++ nl.
Definition f1_witness : bytes := f1_head ++ times 700 (lit "# pad" ++ nl) ++ f1_tail.
(* the reads of detect_file_format / _chunked_reader: 4096 bytes at a time *)
Definition reads4096 (b : bytes) : list bytes := [btake 4096 b; bskip 4096 b].

Lemma f1_reads : concat (reads4096 f1_witness) = f1_witness.
Proof. unfold reads4096. cbn [concat]. rewrite app_nil_r. apply btake_bskip_app. Qed.

(* accepted under 4096-byte reads ... *)
Lemma f1_accepted : accepted (Insp_All.run F_vmdk (reads4096 f1_witness)) = true.
Proof. vm_compute. reflexivity. Qed.
(* ... although an extent line names /etc/passwd ... *)
Lemma f1_has_path : existsb (memN 47) (extent_lines (text_of f1_witness)) = true.
Proof. vm_compute. reflexivity. Qed.
(* ... and the very same bytes are rejected when they arrive as one chunk *)
Lemma f1_one_chunk_rejected : safety (fst (Insp_All.run F_vmdk [f1_witness])) = Fail [K_descriptor].
Proof. vm_compute. reflexivity. Qed.
Lemma f1_no_sparse_header : prefixb VMDK_MAGIC f1_witness = false.
Proof. vm_compute. reflexivity. Qed.

Theorem vmdk_text_refuted : ~ C02_vmdk_text_full_statement.
Proof.
  intros H. specialize (H (reads4096 f1_witness)). rewrite f1_reads in H.
  destruct (H f1_no_sparse_header f1_accepted) as [Hp _].
  pose proof f1_has_path as He. apply existsb_exists in He. destruct He as [l [Hin Hl]].
  rewrite (Hp l Hin) in Hl. discriminate.
Qed.
