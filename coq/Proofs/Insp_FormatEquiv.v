(* Proofs/Insp_FormatEquiv.v — the ten inspectors meet the obligations of gen_eat_chunk_equiv ([hooks_wf]),
   every reachable state is well-formed, hence in every reachable state of every inspector the translated
   eat_chunk / finish / ... of the source equal the model. *)
Require Import OV.Base.Bytes OV.Base.Py OV.Base.Insp_Struct OV.Gen.Insp_Consts OV.Model.Insp_Engine OV.Model.Insp_PyPrims.
Require Import OV.Model.Insp_Raw OV.Model.Insp_Qcow2 OV.Model.Insp_Qed OV.Model.Insp_Vhd OV.Model.Insp_Vdi
               OV.Model.Insp_Iso OV.Model.Insp_Gpt OV.Model.Insp_Luks OV.Model.Insp_Vhdx OV.Model.Insp_Vmdk OV.Model.Insp_All.
Require Import OV.Gen.Insp_EngineCode.
Require Import OV.Proofs.Insp_Engine OV.Proofs.Insp_FmtOk OV.Proofs.Insp_All OV.Proofs.Insp_EngineEquiv.
Open Scope N_scope.

(* ---------- Wf is kept by the building blocks of the hooks ---------- *)
Lemma rdel_ids_NoDup n l : NoDup (ids l) -> NoDup (ids (rdel n l)).
Proof.
  unfold ids. induction l as [|[k r] t IH]; cbn [rdel map snd]; [intros H; exact H|].
  intros H. inversion H as [|? ? Hn Hd]; subst. destruct (rname_beq k n); [exact Hd|].
  cbn [map snd]. constructor; [|exact (IH Hd)].
  intros Hin. apply Hn. apply in_map_iff in Hin. destruct Hin as (p & Hf & Hp). apply rdel_In in Hp.
  apply in_map_iff. exists p. split; assumption.
Qed.

Section WfHooks.
Context {X : Type}.

Lemma Wf_same (s s' : ist X) : Wf s -> i_regs s' = i_regs s -> i_next s' = i_next s -> Wf s'.
Proof. intros (H1 & H2 & H3) Hr Hn. unfold Wf. rewrite Hr, Hn. auto. Qed.

Lemma Wf_new_region (s s' : ist X) n sp e : Wf s -> new_region n sp s = (s', e) -> Wf s'.
Proof.
  intros (H1 & H2 & H3) Hn. unfold new_region, has_region, rhas in Hn.
  destruct (rget n (i_regs s)) eqn:Hg; inversion Hn; subst; clear Hn; [repeat split; assumption|].
  unfold Wf. cbn [i_regs i_next]. unfold ids in *. rewrite !map_app. cbn [map fst snd region_of_spec r_id].
  split; [apply NoDup_snoc; [exact H1 | apply rget_None_notin; exact Hg]|]. split.
  - apply NoDup_snoc; [exact H2|]. intros Hin. rewrite Forall_forall in H3. specialize (H3 _ Hin). lia.
  - apply Forall_app. split; [eapply Forall_impl; [|exact H3]; intros a Ha; cbv beta in *; lia | constructor; [lia | constructor]].
Qed.

Lemma Wf_delete_region (s s' : ist X) n e : Wf s -> delete_region n s = (s', e) -> Wf s'.
Proof.
  intros (H1 & H2 & H3) Hd. unfold delete_region in Hd. destruct (has_region n s); inversion Hd; subst; clear Hd; [|repeat split; assumption].
  unfold Wf. cbn [set_regs i_regs i_next]. split; [apply rdel_NoDup; exact H1|]. split; [apply rdel_ids_NoDup; exact H2|].
  apply Forall_forall. intros i Hi. unfold ids in Hi. apply in_map_iff in Hi. destruct Hi as (p & <- & Hp). apply rdel_In in Hp.
  rewrite Forall_forall in H3. apply H3. unfold ids. apply in_map_iff. exists p. split; [reflexivity | exact Hp].
Qed.

Lemma Wf_add_check (s s' : ist X) c e : Wf s -> add_check c s = (s', e) -> Wf s'.
Proof.
  intros HW Ha. unfold add_check in Ha. destruct (mem_cname c (i_checks s)); inversion Ha; subst; [exact HW|].
  eapply Wf_same; [exact HW| |]; reflexivity.
Qed.

Lemma Wf_set_ext (s : ist X) x : Wf s -> Wf (set_ext s x).
Proof. intros HW. eapply Wf_same; [exact HW| |]; reflexivity. Qed.

Lemma Wf_rset (s : ist X) n m m' : Wf s -> rget n (i_regs s) = Some m -> r_id m' = r_id m -> Wf (set_regs s (rset n m' (i_regs s))).
Proof.
  intros (H1 & H2 & H3) Hg Hi. unfold Wf. cbn [set_regs i_regs i_next]. rewrite rset_names, (rset_ids _ _ _ _ Hg Hi). auto.
Qed.
End WfHooks.

Lemma hooks_wf_static {X} (F : fmt X) :
  f_post F = no_post ->
  (forall n s s' e, f_rcomplete F n s = (s', e) -> exists x, s' = set_ext s x) ->
  hooks_wf F.
Proof.
  intros Hp Hc. split.
  - intros s s' e HW H. rewrite Hp in H. inversion H; subst. exact HW.
  - intros n s s' e HW H. destruct (Hc _ _ _ _ H) as [x ->]. split; [apply Wf_set_ext; exact HW | reflexivity].
Qed.

Lemma no_rcomplete_ext {X} (F : fmt X) : f_rcomplete F = no_rcomplete ->
  forall n s s' e, f_rcomplete F n s = (s', e) -> exists x, s' = set_ext s x.
Proof. intros HF n s s' e H. rewrite HF in H. inversion H; subst. exists (i_ext s'). symmetry. destruct s'; reflexivity. Qed.

Lemma ufmt_static_hooks f : is_static_unit f = true -> hooks_wf (ufmt f).
Proof.
  intros H. destruct (static_unit_facts f H) as (Hp & Hc & _). apply hooks_wf_static; [exact Hp | apply no_rcomplete_ext; exact Hc].
Qed.

Lemma qcow_hooks : hooks_wf qcow_fmt.
Proof.
  apply hooks_wf_static; [reflexivity|]. intros n s s' e H. cbn [f_rcomplete qcow_fmt] in H.
  exists (i_ext s'). exact (Insp_StaticQcow.qrc_shape _ _ _ _ H).
Qed.

Lemma vhdx_hooks : hooks_wf vhdx_fmt.
Proof.
  split; [|intros n s s' e HW H; inversion H; subst; split; [exact HW | reflexivity]].
  intros s s' e HW Hp. cbn [f_post vhdx_fmt] in Hp. unfold vhdx_post in Hp.
  destruct (get_region R_header s) as [h|]; [|inversion Hp; subst; exact HW].
  destruct (rcomplete h && negb (has_region R_metadata s)).
  - destruct (vhdx_find_meta_region s) as [[sp|]|]; try (inversion Hp; subst; exact HW).
    eapply Wf_new_region; [exact HW | exact Hp].
  - destruct (has_region R_metadata s && negb (has_region R_vds s)); [|inversion Hp; subst; exact HW].
    destruct (vhdx_find_meta_entry VHDX_GUID_VIRTUAL_DISK_SIZE s) as [s1 r] eqn:Hf.
    apply vhdx_find_meta_entry_spec in Hf. destruct Hf as [Hs1 _].
    assert (HW1 : Wf s1).
    { destruct Hs1 as [->|(m & Hg & ->)]; [exact HW|]. eapply Wf_rset; [exact HW | exact Hg | reflexivity]. }
    destruct r as [[sp|]|]; try (inversion Hp; subst; exact HW1).
    eapply Wf_new_region; [exact HW1 | exact Hp].
Qed.

Lemma vmdk_hooks : hooks_wf vmdk_fmt.
Proof.
  split.
  - intros s s' e HW Hp. cbn [f_post vmdk_fmt] in Hp. unfold vmdk_post in Hp.
    destruct (rget R_header (i_regs s)) as [h|]; [|inversion Hp; subst; exact HW].
    destruct (negb (rcomplete h)); [inversion Hp; subst; exact HW|].
    destruct (vmdk_parse_sparse s R_header 0) as [[[[[sig ver] dsec] dnum] gd]|ex]; [|inversion Hp; subst; exact HW].
    destruct (negb (beq sig VMDK_MAGIC_PP)).
    { destruct (forallb ascii_text (r_data h)); [|inversion Hp; subst; exact HW]. eapply Wf_delete_region; [exact HW | exact Hp]. }
    destruct (negb _); [inversion Hp; subst; exact HW|].
    match type of Hp with (match ?m with _ => _ end) = _ => destruct m as [s1 e1] eqn:Hm end.
    assert (HW1 : Wf s1).
    { destruct ((gd =? VMDK_GD_AT_END) && negb (has_region R_footer s)); [|inversion Hm; subst; exact HW].
      destruct (new_region R_footer _ s) as [sa ea] eqn:Hn.
      assert (HWa : Wf sa) by (eapply Wf_new_region; [exact HW | exact Hn]).
      destruct ea; [inversion Hm; subst; exact HWa|]. eapply Wf_add_check; [exact HWa | exact Hm]. }
    destruct e1; [inversion Hp; subst; exact HW1|].
    destruct (negb (_ =? VMDK_DESC_OFFSET)); [inversion Hp; subst; exact HW1|].
    destruct (get_region R_descriptor s1) as [d|]; [|inversion Hp; subst; exact HW1].
    destruct (r_off d =? 0); [|inversion Hp; subst; exact HW1].
    destruct (delete_region R_descriptor s1) as [s2 e2] eqn:Hd.
    assert (HW2 : Wf s2) by (eapply Wf_delete_region; [exact HW1 | exact Hd]).
    destruct e2; [inversion Hp; subst; exact HW2|].
    eapply Wf_new_region; [exact HW2 | exact Hp].
  - intros n s s' e HW Hc. cbn [f_rcomplete vmdk_fmt] in Hc. unfold vmdk_rcomplete, vmdk_parse_descriptor in Hc.
    destruct n; try (inversion Hc; subst; split; [exact HW | reflexivity]).
    destruct (get_region R_descriptor s); [|inversion Hc; subst; split; [exact HW | reflexivity]].
    destruct (negb _); inversion Hc; subst; (split; [try apply Wf_set_ext; exact HW | reflexivity]).
Qed.

(* ---------- every reachable state is well-formed ---------- *)
Section Reach.
Context {X : Type}.
Variable F : fmt X.
Hypothesis HF : hooks_wf F.

Lemma Wf_settle c : forall fuel known (s s' : ist X) e, Wf s -> settle fuel F c known s = (s', e) -> Wf s'.
Proof.
  induction fuel as [|fuel IH]; intros known s s' e HW Hs; cbn [settle] in Hs.
  - destruct (new_names known (i_regs s)); inversion Hs; subst; exact HW.
  - destruct (new_names known (i_regs s)) as [|n0 nw]; [inversion Hs; subst; exact HW|].
    unfold do_capture in Hs. destruct (i_fin s); [inversion Hs; subst; exact HW|].
    match type of Hs with context [f_post F ?s1] => assert (HW1 : Wf s1) by (apply Wf_capture; exact HW); destruct (f_post F s1) as [s2 [e2|]] eqn:Hp end.
    + inversion Hs; subst. exact (proj1 HF _ _ _ HW1 Hp).
    + exact (IH _ _ _ _ (proj1 HF _ _ _ HW1 Hp) Hs).
Qed.

Lemma Wf_callbacks : forall names (s s' : ist X) e, Wf s -> run_callbacks F names s = (s', e) -> Wf s'.
Proof.
  induction names as [|n t IH]; intros s s' e HW Hr; cbn [run_callbacks] in Hr; [inversion Hr; subst; exact HW|].
  destruct (f_rcomplete F n s) as [s1 [e1|]] eqn:Hc.
  - inversion Hr; subst. exact (proj1 (proj2 HF _ _ _ _ HW Hc)).
  - exact (IH _ _ _ (proj1 (proj2 HF _ _ _ _ HW Hc)) Hr).
Qed.

Lemma Wf_eat_chunk (s s' : ist X) c e : Wf s -> eat_chunk F s c = (s', e) -> Wf s'.
Proof.
  intros HW He. unfold eat_chunk, do_capture in He. cbn [set_pos i_fin i_regs i_pos] in He.
  destruct (i_fin s); [inversion He; subst; exact HW|].
  match type of He with context [f_post F ?s1] =>
    assert (HW1 : Wf s1) by (apply (Wf_capture (set_pos s (i_pos s + flen c))); exact HW); destruct (f_post F s1) as [s2 [e2|]] eqn:Hp end.
  - inversion He; subst. exact (proj1 HF _ _ _ HW1 Hp).
  - pose proof (proj1 HF _ _ _ HW1 Hp) as HW2.
    destruct (settle eat_fuel F c (ids (i_regs s)) s2) as [s3 [e3|]] eqn:Hs.
    + inversion He; subst. exact (Wf_settle _ _ _ _ _ _ HW2 Hs).
    + exact (Wf_callbacks _ _ _ _ (Wf_settle _ _ _ _ _ _ HW2 Hs) He).
Qed.

Lemma Wf_finish (s : ist X) : Wf s -> Wf (Insp_Engine.finish s).
Proof.
  intros (H1 & H2 & H3). unfold Wf, Insp_Engine.finish, ids. cbn [i_regs i_next]. rewrite !map_map. cbn [fst snd].
  assert (E : map (fun x => r_id (if r_end (snd x) then set_fin (snd x) true else snd x)) (i_regs s) = ids (i_regs s)).
  { unfold ids. apply map_ext. intros p. destruct (r_end (snd p)); reflexivity. }
  rewrite E. auto.
Qed.

Lemma init_regs_ids id l : ids (init_regs id l) = seq id (length l) /\ map fst (init_regs id l) = map fst l.
Proof.
  revert id. induction l as [|[n sp] t IH]; intros id; cbn [init_regs ids map snd fst length seq region_of_spec r_id]; [auto|].
  destruct (IH (S id)) as [E1 E2]. unfold ids in E1. rewrite E1, E2. auto.
Qed.

Lemma Wf_init : NoDup (map fst (init_regions (f_id F))) -> Wf (init_ist F).
Proof.
  intros Hn. unfold Wf, init_ist. cbn [i_regs i_next]. destruct (init_regs_ids 0 (init_regions (f_id F))) as [E1 E2].
  rewrite E1, E2. split; [exact Hn|]. split; [apply seq_NoDup|].
  apply Forall_forall. intros i Hi. apply in_seq in Hi. lia.
Qed.

Lemma reach_Wf st (s : ist X) : NoDup (map fst (init_regions (f_id F))) -> reach F st s -> Wf s.
Proof.
  intros Hn Hr. induction Hr as [|st s c s' e Hr IH He|st s Hr IH].
  - apply Wf_init. exact Hn.
  - eapply Wf_eat_chunk; eassumption.
  - apply Wf_finish. exact IH.
Qed.
End Reach.

(* ---------- the interface level: in every reachable state of every inspector the translated eat_chunk of
   the source is the model's eat ---------- *)
Definition gen_eat (i : istate) (chunk : bytes) : istate * option exn :=
  match i with
  | I_unit f s => let '(s', e) := gen_eat_chunk (ufmt f) s chunk in (I_unit f s', e)
  | I_qcow s => let '(s', e) := gen_eat_chunk qcow_fmt s chunk in (I_qcow s', e)
  | I_vmdk s => let '(s', e) := gen_eat_chunk vmdk_fmt s chunk in (I_vmdk s', e)
  end.

Lemma ufmt_hooks f : f <> F_qcow2 -> f <> F_vmdk -> hooks_wf (ufmt f).
Proof.
  intros H1 H2. destruct f; try contradiction; try (apply ufmt_static_hooks; reflexivity). exact vhdx_hooks.
Qed.

Theorem gen_eat_reachable_equiv st i c : ireach st i -> gen_eat i c = eat i c.
Proof.
  intros H. apply ireach_reach in H. destruct i as [f s|s|s]; cbn [ireach_spec gen_eat eat] in *.
  - destruct H as (H1 & H2 & H3). pose proof (ufmt_ok f H1 H2) as (_ & _ & Hn & _).
    rewrite (gen_eat_chunk_equiv (ufmt f) (ufmt_hooks f H1 H2) s c (reach_Wf (ufmt f) (ufmt_hooks f H1 H2) st s Hn H3)). reflexivity.
  - pose proof qcow_fmt_ok as (_ & _ & Hn & _).
    rewrite (gen_eat_chunk_equiv qcow_fmt qcow_hooks s c (reach_Wf qcow_fmt qcow_hooks st s Hn H)). reflexivity.
  - pose proof vmdk_fmt_ok as (_ & _ & Hn & _).
    rewrite (gen_eat_chunk_equiv vmdk_fmt vmdk_hooks s c (reach_Wf vmdk_fmt vmdk_hooks st s Hn H)). reflexivity.
Qed.
