(* Proofs/C06.v — the facts about the REGENERATED values (Gen/C06_Wrapper.v) that the
   property theorems need, and instances showing that the hypotheses of the theorems
   can be met (non-vacuity). *)
From Coq Require Import String.
Require Import OV.Base.Bytes OV.Base.Py OV.Base.C06_WrapShape.
Require Import OV.Gen.C06_Wrapper OV.Model.Wrap OV.Proofs.Wrap.
Open Scope N_scope.

(* the shape read off InspectWrapper._process_chunk is the one the theorems are about:
   errored inspectors are skipped; a failing inspector is re-raised iff its NAME is the
   expected format, otherwise added to the errored set; the early abort tests
   NAME == expected and complete and not format_match (in any order) *)
Lemma gen_shape_ok : shape_okb gen_shape = true.
Proof. vm_compute. reflexivity. Qed.

(* the two 'raw' literals of InspectWrapper.formats agree *)
Lemma raw_lits_agree : raw_lit_nonraw = raw_lit_raw.
Proof. reflexivity. Qed.

(* every key of ALL_FORMATS is the NAME of its class (so filtering by key in __init__ and
   comparing NAME with expected_format in _process_chunk speak about the same names) *)
Lemma all_formats_keys_are_names : forallb (fun p => beq (fst p) (snd p)) all_formats = true.
Proof. vm_compute. reflexivity. Qed.

Fixpoint nodupb (l : list str) : bool :=
  match l with [] => true | x :: t => negb (existsb (beq x) t) && nodupb t end.
Lemma nodupb_NoDup l : nodupb l = true -> NoDup l.
Proof.
  induction l as [|x t IH]; cbn [nodupb]; intros H; constructor.
  - apply andb_prop in H. destruct H as (H & _). intros Hin.
    assert (existsb (beq x) t = true) as He.
    { apply existsb_exists. exists x. split; [assumption|apply beq_refl]. }
    rewrite He in H. discriminate.
  - apply IH. apply andb_prop in H. tauto.
Qed.
Lemma all_formats_names_distinct : NoDup (map fst all_formats).
Proof. apply nodupb_NoDup. vm_compute. reflexivity. Qed.

(* a raw inspector exists (the fallback of formats is not empty when everything is allowed) *)
Lemma raw_is_a_format : In raw_lit_raw (map fst all_formats).
Proof.
  assert (existsb (beq raw_lit_raw) (map fst all_formats) = true) as H by (vm_compute; reflexivity).
  apply existsb_exists in H. destruct H as (x & Hx & Hb). apply beq_eq in Hb. now subst.
Qed.

(* ------------------------------------------------------------------ instances (non-vacuity) *)
(* a toy inspector: its state counts the chunks seen; [bad] = the call at which it raises
   (0-based), [done_] = the count from which it is complete; it never matches *)
Record toy := { t_seen : nat; t_bad : nat; t_done : nat }.
Definition toy_eat (i : toy) (c : bytes) : toy * option exn :=
  ({| t_seen := S (t_seen i); t_bad := t_bad i; t_done := t_done i |},
   if Nat.eqb (t_seen i) (t_bad i) then Some RuntimeError else None).
Definition toy_finish (i : toy) : toy := i.
Definition toy_complete (i : toy) : bool := Nat.leb (t_done i) (t_seen i).
Definition toy_match (i : toy) : bool := false.
Definition toy_slot (nm : string) (bad done_ : nat) : slot toy :=
  {| s_name := lit nm; s_insp := {| t_seen := 0; t_bad := bad; t_done := done_ |}; s_err := false |}.

(* vmdk fails on its 2nd chunk; qcow2 (expected) is complete after 3 chunks, without matching *)
Definition toy_w : wrapper toy :=
  {| w_slots := [toy_slot "raw" 99 0; toy_slot "vmdk" 1 9; toy_slot "qcow2" 99 3; toy_slot "vhd" 0 9];
     w_expected := Some (lit "qcow2"); w_finished := false |}.
Definition toy_chunks : list bytes := [[1]; [2]; [3]; [4]; [5]].

Example toy_hypotheses :
  w_expected toy_w = Some (lit "qcow2") /\
  w_slots toy_w = [toy_slot "raw" 99 0; toy_slot "vmdk" 1 9] ++ toy_slot "qcow2" 99 3 :: [toy_slot "vhd" 0 9] /\
  s_name (toy_slot "qcow2" 99 3) = lit "qcow2" /\ s_err (toy_slot "qcow2" 99 3) = false /\
  nonexp toy (Some (lit "qcow2")) [toy_slot "raw" 99 0; toy_slot "vmdk" 1 9] /\
  nonexp toy (Some (lit "qcow2")) [toy_slot "vhd" 0 9] /\
  first_abort toy toy_eat toy_complete toy_match (s_insp (toy_slot "qcow2" 99 3)) toy_chunks = Some (2%nat, AbMismatch).
Proof. repeat split; repeat constructor. Qed.

(* the run itself: two chunks delivered, ImageFormatError at the third, which is consumed;
   the vmdk inspector raised at its 2nd call, was fed twice and never again; vhd (after the
   expected inspector in the collection) raised at once and is errored *)
Example toy_run :
  let '(w', tr, delivered, stop, unused) :=
      w_run_stop toy toy_eat toy_finish toy_complete toy_match gen_shape toy_w (map InChunk toy_chunks) in
  delivered = [[1]; [2]] /\ stop = Some (ImageFormatError, Some [3]) /\ unused = [InChunk [4]; InChunk [5]] /\
  map ev_idx tr = [0; 1; 2; 3; 0; 1; 2; 0; 2]%nat /\
  map (@s_err toy) (w_slots w') = [false; true; false; true].
Proof. vm_compute. repeat split. Qed.

(* a fault in the expected inspector propagates: same wrapper, qcow2 fails at its 2nd call *)
Example toy_fault :
  let w := {| w_slots := [toy_slot "raw" 99 0; toy_slot "qcow2" 1 9]; w_expected := Some (lit "qcow2"); w_finished := false |} in
  first_abort toy toy_eat toy_complete toy_match (s_insp (toy_slot "qcow2" 1 9)) toy_chunks = Some (1%nat, AbFault RuntimeError) /\
  let '(w', tr, delivered, stop, unused) :=
      w_run_stop toy toy_eat toy_finish toy_complete toy_match gen_shape w (map InChunk toy_chunks) in
  delivered = [[1]] /\ stop = Some (RuntimeError, Some [2]).
Proof. vm_compute. repeat split. Qed.

(* file source: sizes 2,2,2 over 5 bytes then EOF reads *)
Example toy_file :
  let s := {| f_data := [10; 11; 12; 13; 14]; f_pos := 0; f_closed := false |} in
  f_chunks s [2; 2; 2; 2]%Z = [[10; 11]; [12; 13]; [14]; []].
Proof. reflexivity. Qed.

(* detect_file_format reads with a positive chunk size (so the loop makes progress) *)
Lemma detect_chunk_size_pos : (0 < detect_chunk_size)%Z.
Proof. reflexivity. Qed.
