(* Proofs/C03_Wrap.v — lifting the inspector facts through the concrete wrapper:
   what the wrapper holds after a stream was read through and closed (every slot = the run of
   that inspector on the delivered chunks), and the concrete forms of the C03 clauses. *)
Require Import OV.Base.Bytes OV.Base.Py OV.Base.C06_WrapShape OV.Base.Insp_Struct.
Require Import OV.Gen.Insp_Consts OV.Gen.C06_Wrapper OV.Model.Insp_Engine.
Require Import OV.Model.Insp_Vhdx OV.Model.Insp_Vmdk OV.Model.Insp_Qcow2 OV.Model.Insp_All.
Require Import OV.Model.Wrap OV.Model.C03.
Require Import OV.Proofs.Insp_Engine OV.Proofs.Insp_FmtOk OV.Proofs.Insp_All.
Require Import OV.Proofs.C03_Engine OV.Proofs.C03_Total OV.Proofs.C03_Sig OV.Proofs.Wrap OV.Proofs.C06.
Open Scope N_scope.

(* ------------------------------------------------------------------ lists *)
Lemma nth_error_map_ext {A B} (g : A -> B) (l1 : list A) (l2 : list B) :
  length l2 = length l1 ->
  (forall k a, nth_error l1 k = Some a -> nth_error l2 k = Some (g a)) -> l2 = map g l1.
Proof.
  revert l2. induction l1 as [|a t IH]; intros l2 Hl H; destruct l2 as [|b u]; try discriminate Hl; [reflexivity|].
  cbn [map]. f_equal.
  - specialize (H 0%nat a eq_refl). cbn in H. congruence.
  - apply IH; [cbn in Hl; lia|]. intros k x Hk. apply (H (S k) x Hk).
Qed.

Lemma filter_two {A} (f : A -> bool) (l : list A) a b :
  In a l -> In b l -> a <> b -> f a = true -> f b = true -> (1 < length (filter f l))%nat.
Proof.
  induction l as [|x t IH]; intros Ha Hb Hne Hfa Hfb; [destruct Ha|].
  cbn [filter]. destruct Ha as [<-|Ha], Hb as [<-|Hb].
  - contradiction.
  - rewrite Hfa. cbn [length]. assert (In b (filter f t)) by (apply filter_In; auto).
    destruct (filter f t); [contradiction | cbn; lia].
  - rewrite Hfb. cbn [length]. assert (In a (filter f t)) by (apply filter_In; auto).
    destruct (filter f t); [contradiction | cbn; lia].
  - specialize (IH Ha Hb Hne Hfa Hfb). destruct (f x); cbn [length]; lia.
Qed.

(* ------------------------------------------------------------------ names *)
Lemma fmt_name_inj f g : fmt_name f = fmt_name g -> f = g.
Proof. destruct f, g; intros H; try reflexivity; vm_compute in H; discriminate H. Qed.

Lemma all_formats_complete f : In f Insp_Consts.all_formats.
Proof. destruct f; cbn; tauto. Qed.

Lemma raw_name : fmt_name F_raw = raw_lit_raw.
Proof. reflexivity. Qed.

Lemma factory_names : map fst factory = map fst C06_Wrapper.all_formats.
Proof. reflexivity. Qed.

(* ------------------------------------------------------------------ feed = eat_list *)
Lemma feed_eat_list : forall cs i,
  Wrap.feed istate eat i cs = (fst (eat_list i cs), match snd (eat_list i cs) with Some _ => true | None => false end).
Proof.
  induction cs as [|c t IH]; intros i; cbn [Wrap.feed eat_list]; [reflexivity|].
  destruct (eat i c) as [i' [e|]]; [reflexivity | apply IH].
Qed.

Lemma eat_list_reach : forall cs st i i1 e1, ireach st i -> eat_list i cs = (i1, e1) ->
  exists j, ireach (st ++ concat (firstn j cs)) i1.
Proof.
  induction cs as [|c t IH]; intros st i i1 e1 Hr He; cbn [eat_list] in He.
  - inversion He; subst. exists 0%nat. cbn. rewrite app_nil_r. exact Hr.
  - destruct (eat i c) as [i' [x|]] eqn:Hc.
    + inversion He; subst. exists 1%nat. cbn [firstn concat]. rewrite app_nil_r. eapply ireach_eat; eauto.
    + assert (Hr' : ireach (st ++ c) i') by (eapply ireach_eat; eauto).
      destruct (IH _ _ _ _ Hr' He) as (j & Hj). exists (S j). cbn [firstn concat]. rewrite app_assoc. exact Hj.
Qed.

Lemma concat_firstn_prefix {A} (cs : list (list A)) j : concat cs = concat (firstn j cs) ++ concat (skipn j cs).
Proof. rewrite <- concat_app, firstn_skipn. reflexivity. Qed.

(* the state of inspector f after the chunks cs and finish is reachable on a prefix of the content *)
Lemma run_reach f cs : exists st t, ireach st (fst (run f cs)) /\ concat cs = st ++ t.
Proof.
  unfold run. destruct (eat_list (init f) cs) as [i e] eqn:He.
  destruct (eat_list_reach cs [] (init f) i e (ireach_init f) He) as (j & Hj). cbn [app] in Hj.
  exists (concat (firstn j cs)), (concat (skipn j cs)). cbn [fst]. split; [apply ireach_finish; exact Hj | apply concat_firstn_prefix].
Qed.

(* ------------------------------------------------------------------ the wrapper after read-through and close *)
Definition allowed_fmts (allowed : list str) : list fmt_id :=
  filter (fun f => allowed_key allowed (fmt_name f)) Insp_Consts.all_formats.

Lemma new_slots expected allowed :
  w_slots (cw_new expected allowed) =
  map (fun f => {| s_name := fmt_name f; s_insp := init f; s_err := false |}) (allowed_fmts allowed).
Proof.
  unfold cw_new, mk_wrapper, mk_slots, factory, allowed_fmts. cbn [w_slots].
  induction Insp_Consts.all_formats as [|f t IH]; [reflexivity|]. cbn [map filter fst].
  destruct (allowed_key allowed (fmt_name f)); cbn [map fst snd]; rewrite IH; reflexivity.
Qed.

Lemma w_run_stop_names : forall inps (w w' : cwrapper) tr cs stop unused,
  cw_run_stop w inps = (w', tr, cs, stop, unused) ->
  map (@s_name istate) (w_slots w') = map (@s_name istate) (w_slots w) /\ w_expected w' = w_expected w.
Proof.
  unfold cw_run_stop.
  induction inps as [|inp rest IH]; intros w w' tr cs stop unused H.
  - cbn in H. inversion H; subst. auto.
  - rewrite w_run_stop_cons in H.
    destruct (w_step istate eat finish complete cmatch gen_shape w inp) as [[w1 tr1] o] eqn:Hs.
    pose proof (w_step_names istate eat finish complete cmatch gen_shape gen_shape_ok _ _ _ _ _ Hs) as Hn.
    pose proof (w_step_expected istate eat finish complete cmatch gen_shape gen_shape_ok _ _ _ _ _ Hs) as He.
    destruct o as [c|e|].
    + destruct (w_run_stop istate eat finish complete cmatch gen_shape w1 rest) as [[[[w2 tr2] cs2] stop2] un2] eqn:Hr.
      inversion H; subst. destruct (IH _ _ _ _ _ _ Hr) as [H1 H2]. split; congruence.
    + inversion H; subst. auto.
    + destruct (w_run_stop istate eat finish complete cmatch gen_shape w1 rest) as [[[[w2 tr2] cs2] stop2] un2] eqn:Hr.
      inversion H; subst. destruct (IH _ _ _ _ _ _ Hr) as [H1 H2]. split; congruence.
Qed.

Lemma w_run_stop_finished : forall cs (w w' : cwrapper) tr unused,
  cw_run_stop w (map InChunk cs) = (w', tr, cs, None, unused) -> w_finished w' = w_finished w.
Proof.
  unfold cw_run_stop. induction cs as [|c t IH]; intros w w' tr unused H; cbn [map] in H.
  - cbn in H. inversion H; reflexivity.
  - rewrite w_run_stop_cons in H. cbn [w_step] in H.
    destruct (process_chunk istate eat complete cmatch gen_shape w c) as [[w1 tr1] r] eqn:Hp.
    assert (Hf : w_finished w1 = w_finished w).
    { unfold process_chunk in Hp. destruct (pc_loop istate eat complete cmatch gen_shape (w_expected w) 0 (w_slots w) c) as [[ss t0] r0].
      inversion Hp; subst. reflexivity. }
    destruct r as [e|]; [discriminate|].
    destruct (w_run_stop istate eat finish complete cmatch gen_shape w1 (map InChunk t)) as [[[[w2 tr2] cs2] stop2] un2] eqn:Hr.
    inversion H; subst. rewrite (IH _ _ _ _ Hr). exact Hf.
Qed.

(* the slot of format f after the reads cs *)
Definition slot_after (cs : list bytes) (f : fmt_id) : cslot :=
  {| s_name := fmt_name f; s_insp := fst (eat_list (init f) cs);
     s_err := match snd (eat_list (init f) cs) with Some _ => true | None => false end |}.
(* ... and after close() *)
Definition slot_closed (cs : list bytes) (f : fmt_id) : cslot :=
  {| s_name := fmt_name f; s_insp := fst (run f cs);
     s_err := match snd (run f cs) with Some _ => true | None => false end |}.

Lemma run_fst_snd f cs : fst (run f cs) = finish (fst (eat_list (init f) cs)) /\ snd (run f cs) = snd (eat_list (init f) cs).
Proof. unfold run. destruct (eat_list (init f) cs); auto. Qed.

(* every chunk delivered: each inspector of the collection has been fed the chunks up to its first exception *)
Theorem read_so_far_slots expected allowed cs w :
  read_so_far expected allowed cs w ->
  w_slots w = map (slot_after cs) (allowed_fmts allowed) /\ w_finished w = false /\ w_expected w = expected.
Proof.
  intros (tr & unused & H).
  pose proof (w_run_stop_names _ _ _ _ _ _ _ H) as [Hn He].
  pose proof (w_run_stop_finished _ _ _ _ _ H) as Hf.
  split; [|split; [exact Hf | exact He]].
  rewrite new_slots in Hn.
  assert (Hmm : map (slot_after cs) (allowed_fmts allowed)
                = map (fun s : cslot => {| s_name := s_name s; s_insp := fst (Wrap.feed istate eat (s_insp s) cs);
                                           s_err := snd (Wrap.feed istate eat (s_insp s) cs) |})
                      (w_slots (cw_new expected allowed))).
  { rewrite new_slots, map_map. apply map_ext. intros f. cbn [s_name s_insp]. rewrite feed_eat_list. reflexivity. }
  rewrite Hmm. apply nth_error_map_ext.
  - apply (f_equal (@length _)) in Hn. rewrite !map_length in Hn. rewrite new_slots, map_length. exact Hn.
  - intros k a Hk.
    assert (Ha : s_err a = false).
    { rewrite new_slots in Hk. apply nth_error_In in Hk. apply in_map_iff in Hk. destruct Hk as (f & <- & _). reflexivity. }
    destruct (wrapper_slots_are_feed istate eat finish complete cmatch gen_shape gen_shape_ok cs _ _ _ _ H k a Hk Ha)
      as (s' & Hk' & Hn' & Hfeed).
    rewrite Hk'. f_equal. destruct s' as [nm ins er]. cbn [s_name s_insp s_err] in *. rewrite <- Hfeed. cbn [fst snd]. congruence.
Qed.

Theorem read_and_closed_slots expected allowed cs w :
  read_and_closed expected allowed cs w ->
  w_slots w = map (slot_closed cs) (allowed_fmts allowed) /\ w_finished w = true /\ w_expected w = expected.
Proof.
  intros (w1 & tr & unused & H & ->).
  destruct (read_so_far_slots expected allowed cs w1 (ex_intro _ tr (ex_intro _ unused H))) as (Hs & _ & He).
  unfold cw_close, finish_all. cbn [w_slots w_finished w_expected]. split; [|split; [reflexivity | exact He]].
  rewrite Hs, map_map. apply map_ext. intros f. unfold finish_slot, slot_after, slot_closed. cbn [s_name s_insp s_err].
  destruct (run_fst_snd f cs) as [H1 H2]. rewrite H1, H2. reflexivity.
Qed.

(* the wrapper after read-through and close is a function of the chunk list *)
Definition closed_wrapper (expected : option str) (allowed : list str) (cs : list bytes) : cwrapper :=
  {| w_slots := map (slot_closed cs) (allowed_fmts allowed); w_expected := expected; w_finished := true |}.

Corollary read_and_closed_is expected allowed cs w :
  read_and_closed expected allowed cs w -> w = closed_wrapper expected allowed cs.
Proof.
  intros H. destruct (read_and_closed_slots _ _ _ _ H) as (H1 & H2 & H3).
  destruct w as [ss ex fi]. cbn [w_slots w_finished w_expected] in *. subst. reflexivity.
Qed.

(* without an expected format every chunk of every chunk list is delivered: the hypothesis of the
   theorems above is met by every read-through *)
Theorem no_expectation_reads_through allowed cs :
  exists w, read_so_far None allowed cs w.
Proof.
  unfold read_so_far, cw_run_stop.
  assert (G : forall cs (w : cwrapper), w_expected w = None ->
            exists w' tr unused, w_run_stop istate eat finish complete cmatch gen_shape w (map InChunk cs) = (w', tr, cs, None, unused)).
  { intros cs0. induction cs0 as [|c t IH]; intros w He; cbn [map].
    - exists w, [], []. reflexivity.
    - rewrite w_run_stop_cons.
      destruct (w_step istate eat finish complete cmatch gen_shape w (InChunk c)) as [[w1 tr1] o] eqn:Hs.
      assert (Ho : o = OutChunk c).
      { eapply (w_step_no_expected istate eat finish complete cmatch gen_shape gen_shape_ok); eauto. intros x _. rewrite He. reflexivity. }
      pose proof (w_step_expected istate eat finish complete cmatch gen_shape gen_shape_ok _ _ _ _ _ Hs) as He1. rewrite He in He1.
      subst o. destruct (IH w1 He1) as (w' & tr & un & Hr). rewrite Hr. eauto. }
  destruct (G cs (cw_new None allowed) eq_refl) as (w' & tr & un & H). eauto.
Qed.

(* ------------------------------------------------------------------ membership facts *)
Lemma in_closed_slots allowed cs m :
  In m (map (slot_closed cs) (allowed_fmts allowed)) ->
  exists f, m = slot_closed cs f /\ allowed_key allowed (fmt_name f) = true.
Proof.
  intros H. apply in_map_iff in H. destruct H as (f & <- & Hf). exists f. split; [reflexivity|].
  apply filter_In in Hf. tauto.
Qed.

Lemma closed_matches_in expected allowed cs m :
  In m (cw_matches (closed_wrapper expected allowed cs)) ->
  exists f, m = slot_closed cs f /\ allowed_key allowed (fmt_name f) = true /\ f <> F_raw /\ cmatch (fst (run f cs)) = true.
Proof.
  unfold cw_matches, matches, non_raw. intros H. apply filter_In in H. destruct H as [H Hm].
  apply filter_In in H. destruct H as [H Hr]. cbn [closed_wrapper w_slots] in H.
  destruct (in_closed_slots _ _ _ H) as (f & -> & Ha). exists f. repeat split; auto.
  intros ->. unfold is_raw_nr in Hr. cbn [slot_closed s_name] in Hr. vm_compute in Hr. discriminate.
Qed.

Lemma eat_list_unit f : forall cs s, exists s', fst (eat_list (I_unit f s) cs) = I_unit f s'.
Proof.
  induction cs as [|c t IH]; intros s; cbn [eat_list eat fst]; [eauto|].
  destruct (eat_chunk (ufmt f) s c) as [s' [e|]]; [cbn; eauto | apply IH].
Qed.
Lemma eat_list_vmdk : forall cs s, exists s', fst (eat_list (I_vmdk s) cs) = I_vmdk s'.
Proof.
  induction cs as [|c t IH]; intros s; cbn [eat_list eat fst]; [eauto|].
  destruct (eat_chunk vmdk_fmt s c) as [s' [e|]]; [cbn; eauto | apply IH].
Qed.
Lemma run_vhdx_shape cs : exists s, fst (run F_vhdx cs) = I_unit F_vhdx s.
Proof.
  destruct (run_fst_snd F_vhdx cs) as [H _]. rewrite H. cbn [init].
  destruct (eat_list_unit F_vhdx cs (init_ist (ufmt F_vhdx))) as (s' & Hs'). rewrite Hs'. cbn [finish]. eauto.
Qed.
Lemma run_vmdk_shape cs : exists s, fst (run F_vmdk cs) = I_vmdk s.
Proof.
  destruct (run_fst_snd F_vmdk cs) as [H _]. rewrite H. cbn [init].
  destruct (eat_list_vmdk cs (init_ist vmdk_fmt)) as (s' & Hs'). rewrite Hs'. cbn [finish]. eauto.
Qed.

(* ------------------------------------------------------------------ C03_format_implies_signature *)
(* format_match of the closed inspector implies the signature of the content, for every format *)
Theorem closed_match_signature f cs : cmatch (fst (run f cs)) = true -> sigb f (concat cs) = true.
Proof.
  intros Hm. destruct (is_static f) eqn:Hs.
  - rewrite (static_inspector_refines_spec_state f cs Hs) in Hm. cbn [fst] in Hm.
    rewrite (static_match_is_signature f _ Hs) in Hm. exact Hm.
  - destruct (run_reach f cs) as (st & t & Hr & Hc). rewrite Hc.
    assert (Hok : format_match (fst (run f cs)) = Ok true).
    { rewrite (cmatch_spec _ (ex_intro _ st Hr)), Hm. reflexivity. }
    apply ireach_reach in Hr.
    destruct f; try discriminate Hs.
    + (* vhdx *)
      destruct (run_vhdx_shape cs) as (s & Hi). rewrite Hi in Hr, Hok. cbn [ireach_spec format_match ufmt] in Hr, Hok.
      destruct Hr as (_ & _ & Hr). apply sigb_vhdx_app. eapply vhdx_match_signature; eauto.
    + (* vmdk *)
      destruct (run_vmdk_shape cs) as (s & Hi). rewrite Hi in Hr, Hok. cbn [ireach_spec format_match] in Hr, Hok.
      apply sigb_vmdk_app. eapply vmdk_match_signature; eauto.
Qed.

Lemma is_raw_name (m : cslot) f : s_name m = fmt_name f -> cw_is_raw m = true -> f = F_raw.
Proof.
  intros Hn Hr. unfold cw_is_raw, is_raw in Hr. apply beq_eq in Hr. rewrite Hn in Hr.
  apply fmt_name_inj. rewrite Hr. reflexivity.
Qed.

Theorem format_implies_signature expected allowed cs w m f :
  read_and_closed expected allowed cs w -> cw_format w = Ok (Some m) -> s_name m = fmt_name f -> f <> F_raw ->
  sigb f (concat cs) = true.
Proof.
  intros Hrc Hf Hn Hnr. rewrite (read_and_closed_is _ _ _ _ Hrc) in Hf.
  destruct (format_some_implies_unique_match istate complete cmatch raw_lit_nonraw raw_lit_raw _ _ Hf) as (_ & [Hm|(_ & Hraw)]).
  - assert (Hin : In m (cw_matches (closed_wrapper expected allowed cs))) by (unfold cw_matches; rewrite Hm; left; reflexivity).
    destruct (closed_matches_in _ _ _ _ Hin) as (g & -> & _ & _ & Hc). cbn [slot_closed s_name] in Hn.
    apply fmt_name_inj in Hn. subst g. apply closed_match_signature. exact Hc.
  - exfalso. apply Hnr. apply (is_raw_name m f Hn).
    assert (Hi : In m (filter (is_raw istate raw_lit_raw) (w_slots (closed_wrapper expected allowed cs)))) by (rewrite Hraw; left; reflexivity).
    apply filter_In in Hi. tauto.
Qed.
