(* Proofs/C20_FS.v — the concrete runtime of Model/C20_FS.v (the one the correspondence
   check runs against the real file system) satisfies the contracts of Proofs/C20.v, for
   every world.  Hence the contract-premised theorems are not vacuous, and they apply to the
   validated model. *)
From Coq Require Import String.
Require Import OV.Base.Bytes OV.Base.Py OV.Base.PyInt OV.Base.Str.
Require Import OV.Gen.C20_Consts OV.Model.C20_OS OV.Model.C20 OV.Model.C20_FS OV.Proofs.C20.
Open Scope Z_scope.

(* ---------- keys and association lists ---------- *)
Lemma key_eqb_eq a b : key_eqb a b = true <-> a = b.
Proof.
  revert b. induction a as [|x a IH]; intros [|y b]; cbn [key_eqb]; try (split; [discriminate|congruence]).
  - split; reflexivity.
  - rewrite andb_true_iff, beq_eq, IH. split; [intros [-> ->]; reflexivity|intros Heq; injection Heq; auto].
Qed.

Lemma key_eqb_refl a : key_eqb a a = true.
Proof. apply key_eqb_eq. reflexivity. Qed.

Lemma key_eqb_neq a b : a <> b -> key_eqb a b = false.
Proof. intros Hne. destruct (key_eqb a b) eqn:E; [|reflexivity]. apply key_eqb_eq in E. contradiction. Qed.

Lemma assoc_remove_same {A} k (l : list (fskey * A)) : assoc_key k (remove_key k l) = None.
Proof.
  induction l as [|[k' v] l IH]; cbn [remove_key assoc_key]; [reflexivity|].
  destruct (key_eqb k k') eqn:E; [exact IH|]. cbn [assoc_key]. rewrite E. exact IH.
Qed.

Lemma assoc_remove_other {A} k k' (l : list (fskey * A)) : k' <> k ->
  assoc_key k' (remove_key k l) = assoc_key k' l.
Proof.
  intros Hne. induction l as [|[k2 v] l IH]; cbn [remove_key assoc_key]; [reflexivity|].
  destruct (key_eqb k k2) eqn:E.
  - apply key_eqb_eq in E. subst k2. rewrite (key_eqb_neq k' k Hne). exact IH.
  - cbn [assoc_key]. rewrite IH. reflexivity.
Qed.

Lemma look_nil w : fs_look [] w = Some NDir.
Proof. reflexivity. Qed.

Lemma look_cons x k w : fs_look (x :: k) w = assoc_key (x :: k) (fs_nodes w).
Proof. reflexivity. Qed.

Lemma look_nodes k w w' : fs_nodes w' = fs_nodes w -> fs_look k w' = fs_look k w.
Proof. intros Hn. destruct k; [reflexivity|]. rewrite !look_cons, Hn. reflexivity. Qed.

Lemma add_dirs_assoc ks : forall nodes k,
  assoc_key k (add_dirs ks nodes) =
  match assoc_key k nodes with
  | Some n => Some n
  | None => if existsb (key_eqb k) ks then Some NDir else None
  end.
Proof.
  unfold add_dirs. induction ks as [|a ks IH]; intros nodes k; cbn [fold_left existsb].
  - destruct (assoc_key k nodes); reflexivity.
  - rewrite IH. destruct (assoc_key a nodes) as [na|] eqn:Ea.
    + destruct (assoc_key k nodes) as [n|] eqn:Ek; [reflexivity|].
      destruct (key_eqb k a) eqn:Eka; [|reflexivity].
      apply key_eqb_eq in Eka. subst a. congruence.
    + cbn [assoc_key]. destruct (key_eqb k a) eqn:Eka.
      * apply key_eqb_eq in Eka. subst a. rewrite Ea. reflexivity.
      * destruct (assoc_key k nodes); reflexivity.
Qed.

Lemma existsb_ext_in' {A} (f g : A -> bool) l :
  (forall a, In a l -> f a = g a) -> existsb f l = existsb g l.
Proof.
  induction l as [|x l IH]; intros Hfg; cbn [existsb]; [reflexivity|].
  rewrite (Hfg x (or_introl eq_refl)), IH; [reflexivity|].
  intros a Ha. apply Hfg. right. exact Ha.
Qed.

Lemma existsb_key_last k ks : existsb (key_eqb k) (ks ++ [k]) = true.
Proof. rewrite existsb_app. cbn [existsb]. rewrite key_eqb_refl. cbn [orb]. apply orb_true_r. Qed.

(* proper prefixes are strictly shorter, hence different from the key *)
Lemma proper_prefixes_from_len pre k a :
  In a (proper_prefixes_from pre k) -> (length a < length pre + length k)%nat.
Proof.
  revert pre. induction k as [|x k IH]; intros pre Hin; cbn [proper_prefixes_from] in Hin; [contradiction|].
  destruct k as [|y k]; [contradiction|].
  destruct Hin as [<-|Hin].
  - rewrite app_length. cbn [length]. lia.
  - apply IH in Hin. rewrite app_length in Hin. cbn [length] in *. lia.
Qed.

Lemma proper_prefix_neq k a : In a (proper_prefixes k) -> a <> k.
Proof. intros Hin ->. apply proper_prefixes_from_len in Hin. cbn [length] in Hin. lia. Qed.

(* ---------- freshness of the generated name ---------- *)
Definition comp_max (k : fskey) : nat := fold_right (fun c m => Nat.max (length c) m) O k.

Lemma comp_max_in k c : In c k -> (length c <= comp_max k)%nat.
Proof.
  induction k as [|x k IH]; intros Hin; [contradiction|]. cbn [comp_max fold_right].
  destruct Hin as [->|Hin]; [lia|]. apply IH in Hin. unfold comp_max in Hin. lia.
Qed.

Lemma assoc_some_len k nodes n c :
  assoc_key k nodes = Some n -> In c k -> (length c <= max_name_len nodes)%nat.
Proof.
  induction nodes as [|[k' v] nodes IH]; cbn [assoc_key]; [discriminate|].
  intros Hk Hin. unfold max_name_len. cbn [fold_right fst]. fold (max_name_len nodes). fold (comp_max k').
  destruct (key_eqb k k') eqn:E.
  - apply key_eqb_eq in E. subst k'. apply comp_max_in in Hin. lia.
  - specialize (IH Hk Hin). lia.
Qed.

Lemma length_repeatN x n : length (repeatN x n) = n.
Proof. induction n; cbn [repeatN length]; congruence. Qed.

Lemma fresh_name_missing w dk prefix suffix :
  assoc_key (dk ++ [prefix ++ fresh_tag w ++ suffix]) (fs_nodes w) = None.
Proof.
  destruct (assoc_key _ (fs_nodes w)) as [n|] eqn:E; [|reflexivity]. exfalso.
  assert (Hin : In (prefix ++ fresh_tag w ++ suffix) (dk ++ [prefix ++ fresh_tag w ++ suffix])).
  { apply in_or_app. right. left. reflexivity. }
  pose proof (assoc_some_len _ _ _ _ E Hin) as Hlen.
  rewrite !app_length in Hlen. unfold fresh_tag in Hlen. rewrite length_repeatN in Hlen. lia.
Qed.

(* ---------- splitting "dir/name" ---------- *)
Open Scope N_scope.
Lemma split_aux_sep c a b : forall cur,
  split_char_aux c (a ++ c :: b) cur = split_char_aux c a cur ++ split_char_aux c b [].
Proof.
  induction a as [|x a IH]; intros cur; cbn [app split_char_aux].
  - rewrite N.eqb_refl. reflexivity.
  - destruct (x =? c); [rewrite IH; reflexivity|apply IH].
Qed.

Lemma split_aux_nosep c s : forallb (fun x => negb (x =? c)) s = true -> forall cur,
  split_char_aux c s cur = [rev cur ++ s].
Proof.
  induction s as [|x s IH]; intros Hs cur; cbn [split_char_aux].
  - rewrite app_nil_r. reflexivity.
  - cbn [forallb] in Hs. apply andb_true_iff in Hs. destruct Hs as [Hx Hs].
    destruct (x =? c); [discriminate|]. rewrite (IH Hs). cbn [rev]. rewrite <- app_assoc. reflexivity.
Qed.

Lemma has_slash_false b : has_slash b = false -> forallb (fun x => negb (x =? 47)) b = true.
Proof.
  unfold has_slash. induction b as [|x b IH]; cbn [existsb forallb]; [reflexivity|].
  intros Hb. apply orb_false_iff in Hb. destruct Hb as [Hx Hb].
  rewrite (IH Hb), N.eqb_sym, Hx. reflexivity.
Qed.

Lemma forallb_app' {A} (f : A -> bool) a b : forallb f (a ++ b) = forallb f a && forallb f b.
Proof. induction a as [|x a IH]; cbn [app forallb]; [reflexivity|]. rewrite IH, andb_assoc. reflexivity. Qed.

Lemma fs_key_join d name :
  forallb (fun x => negb (x =? 47)) name = true -> name <> [] ->
  fs_key (d ++ [47] ++ name) = fs_key d ++ [name].
Proof.
  intros Hns Hne. unfold fs_key, split_char. cbn [app].
  rewrite split_aux_sep, filter_app. f_equal.
  rewrite (split_aux_nosep 47 name Hns). cbn [rev app filter].
  destruct name; [contradiction|reflexivity].
Qed.

Lemma repeatN_noslash n : forallb (fun x => negb (x =? 47)) (repeatN 120 n) = true.
Proof. induction n; cbn [repeatN forallb]; [reflexivity|]. rewrite IHn. reflexivity. Qed.
Open Scope Z_scope.

(* ---------- the hash model satisfies the streaming contract ---------- *)
Theorem cat_hash_contract : hash_contract fs_runtime.
Proof.
  split; cbn [rt_update fs_runtime fs_runtime_lim]; unfold cat_update.
  - intros [alg d] a b. cbn [fst snd]. rewrite app_assoc. reflexivity.
  - intros [alg d]. cbn [fst snd]. rewrite app_nil_r. reflexivity.
Qed.

(* ---------- the file-system model satisfies the contract ---------- *)
Lemma errno_distinct : (errno_EISDIR =? errno_ENOENT) = false /\ (errno_ENOTDIR =? errno_ENOENT) = false.
Proof. split; reflexivity. Qed.

Lemma is_file_at_nodes w w' a : fs_look a w' = fs_look a w -> is_file_at w' a = is_file_at w a.
Proof. unfold is_file_at. intros ->. reflexivity. Qed.

(* what one write of the model transfers: a prefix of the buffer, at least one byte of a
   non-empty buffer when the per-call limit is positive *)
Definition sent_of (limit : Z) (c : bytes) : bytes :=
  if zlen c <=? limit then c else btake (Z.to_N limit) c.

Lemma sent_of_prefix limit c : btake (Z.to_N (zlen (sent_of limit c))) c = sent_of limit c.
Proof.
  unfold sent_of. destruct (zlen c <=? limit) eqn:E.
  - apply btake_all. unfold zlen. lia.
  - apply Z.leb_gt in E. unfold zlen in *. rewrite blen_btake.
    f_equal. lia.
Qed.

Lemma sent_of_range limit c : 0 < limit -> c <> [] -> 1 <= zlen (sent_of limit c) <= zlen c.
Proof.
  intros Hl Hne. assert (Hc : 1 <= zlen c).
  { pose proof (zlen_nonneg c). destruct (Z.eq_dec (zlen c) 0) as [Hz|Hz]; [apply zlen_nil_iff in Hz; contradiction|lia]. }
  unfold sent_of. destruct (zlen c <=? limit) eqn:E; [lia|].
  apply Z.leb_gt in E. unfold zlen in *. rewrite blen_btake. lia.
Qed.

Theorem fs_lim_satisfies_contract (limit : Z) : 0 < limit ->
  fs_contract (fs_runtime_lim limit) fs_key fs_look fs_fd_key fs_tmpdir.
Proof.
  intros Hlimit.
  split; cbn [rt_isdir rt_makedirs rt_unlink rt_mkstemp rt_write rt_close rt_open_rb fs_runtime_lim].
  - (* isdir_look *)
    intros p w. unfold fs_isdir. destruct (fs_look (fs_key p) w) as [[|c]|]; split; congruence.
  - (* makedirs_ok *)
    intros p m w w'. unfold fs_makedirs.
    destruct (fs_look (fs_key p) w) as [n|] eqn:El; [intros Heq; discriminate|].
    destruct (existsb (is_file_at w) (proper_prefixes (fs_key p))); intros Heq; [discriminate|].
    injection Heq as <-.
    destruct (fs_key p) as [|x k] eqn:Ek; [discriminate El|].
    rewrite look_cons in *. cbn [fs_nodes]. rewrite add_dirs_assoc, El, existsb_key_last. reflexivity.
  - (* makedirs_keeps *)
    intros p m w w' r. unfold fs_makedirs.
    destruct (fs_look (fs_key p) w) as [n0|] eqn:El; [intros Heq; injection Heq as <- _; auto|].
    destruct (existsb (is_file_at w) (proper_prefixes (fs_key p))); intros Heq; injection Heq as <- _; [auto|].
    intros k n Hk. destruct k as [|x k]; [exact Hk|].
    rewrite look_cons in *. cbn [fs_nodes]. rewrite add_dirs_assoc, Hk. reflexivity.
  - (* makedirs_exists *)
    intros p m w n Hl. unfold fs_makedirs. rewrite Hl. eexists. split; reflexivity.
  - (* unlink_ok *)
    intros p w w'. unfold fs_unlink.
    destruct (existsb (is_file_at w) (proper_prefixes (fs_key p))) eqn:Epre; [intros Heq; discriminate|].
    destruct (fs_look (fs_key p) w) as [[|c]|] eqn:El; intros Heq; try discriminate.
    injection Heq as <-.
    destruct (fs_key p) as [|x k] eqn:Ek; [discriminate El|].
    set (w' := mk_fsw (remove_key (x :: k) (fs_nodes w)) (fs_fds w) (fs_next_fd w)).
    assert (Hframe : forall k', k' <> x :: k -> fs_look k' w' = fs_look k' w).
    { intros k' Hne. destruct k' as [|y k']; [reflexivity|].
      rewrite !look_cons. cbn [fs_nodes w']. apply assoc_remove_other. exact Hne. }
    assert (Hgone : fs_look (x :: k) w' = None).
    { rewrite look_cons. cbn [fs_nodes w']. apply assoc_remove_same. }
    split; [exact Hgone|]. split; [exact Hframe|].
    cbv zeta. rewrite Hgone.
    replace (existsb (is_file_at w') (proper_prefixes (x :: k))) with false; [eexists; split; reflexivity|].
    rewrite <- Epre. apply existsb_ext_in'.
    intros a Ha. symmetry. apply is_file_at_nodes, Hframe, proper_prefix_neq. exact Ha.
  - (* unlink_err *)
    intros p w w' e. unfold fs_unlink.
    destruct (existsb (is_file_at w) (proper_prefixes (fs_key p))); [intros Heq; injection Heq as <- _; reflexivity|].
    destruct (fs_look (fs_key p) w) as [[|c]|]; intros Heq; try discriminate; injection Heq as <- _; reflexivity.
  - (* unlink_enoent *)
    intros p w w' e. unfold fs_unlink. destruct errno_distinct as [E1 E2].
    destruct (existsb (is_file_at w) (proper_prefixes (fs_key p))).
    { intros Heq He. injection Heq as _ <-. cbn [os_errno std_oserror] in He.
      apply Z.eqb_eq in He. congruence. }
    destruct (fs_look (fs_key p) w) as [[|c]|]; intros Heq He.
    + injection Heq as _ <-. cbn [os_errno std_oserror] in He. apply Z.eqb_eq in He. congruence.
    + discriminate Heq.
    + reflexivity.
  - (* mkstemp_ok *)
    intros s d pre w w' fd p. unfold fs_mkstemp. cbv zeta.
    remember (match d with Some x => x | None => fs_tmpdir end) as dstr eqn:Hdstr.
    destruct (has_slash pre || has_slash s) eqn:Esl; [intros Heq; discriminate|].
    apply orb_false_iff in Esl. destruct Esl as [Hpre Hs].
    remember (pre ++ fresh_tag w ++ s) as name eqn:Hname.
    destruct (fs_look (fs_key dstr) w) as [[|c]|] eqn:Ed; intros Heq; try discriminate.
    injection Heq as <- <- <-. cbn [app].
    assert (Hkey : fs_key (dstr ++ 47%N :: name) = fs_key dstr ++ [name]).
    { apply (fs_key_join dstr name).
      - subst name. rewrite !forallb_app'. rewrite (has_slash_false _ Hpre), (has_slash_false _ Hs).
        unfold fresh_tag. rewrite repeatN_noslash. reflexivity.
      - subst name. unfold fresh_tag. cbn [repeatN]. destruct pre; discriminate. }
    rewrite Hkey.
    assert (Hk : exists x k, fs_key dstr ++ [name] = x :: k).
    { destruct (fs_key dstr) as [|x k]; [exists name, []|exists x, (k ++ [name])]; reflexivity. }
    destruct Hk as [x [k Hxk]].
    pose proof (fresh_name_missing w (fs_key dstr) pre s) as Hfresh. rewrite <- Hname in Hfresh.
    split; [|split; [|split; [|split]]].
    + rewrite Hxk, look_cons, <- Hxk. exact Hfresh.
    + rewrite Hxk, look_cons. cbn [fs_nodes assoc_key]. rewrite <- Hxk, key_eqb_refl. reflexivity.
    + unfold fs_fd_key. cbn [fs_fds assoc_fd]. rewrite Z.eqb_refl. reflexivity.
    + intros k' Hne. destruct k' as [|y k']; [reflexivity|].
      rewrite !look_cons. cbn [fs_nodes assoc_key]. rewrite (key_eqb_neq _ _ Hne). reflexivity.
    + exists (fresh_tag w). subst name dstr. reflexivity.
  - (* write_progress *)
    intros fd c w w' n. unfold fs_write_lim. fold (sent_of limit c).
    destruct (fs_fd_key fd w) as [k|]; [|intros Heq; discriminate].
    destruct (fs_look k w) as [[|old]|]; intros Heq; try discriminate.
    injection Heq as _ <-. apply sent_of_range. exact Hlimit.
  - (* write_appends *)
    intros fd k c old w Hfd Hold Hne. unfold fs_write_lim. fold (sent_of limit c). rewrite Hfd, Hold.
    eexists. eexists. split; [reflexivity|].
    destruct k as [|x k]; [discriminate Hold|].
    split; [|split].
    + rewrite look_cons. cbn [fs_nodes assoc_key]. rewrite key_eqb_refl, sent_of_prefix. reflexivity.
    + intros k' Hk'. destruct k' as [|y k']; [reflexivity|].
      rewrite !look_cons. cbn [fs_nodes assoc_key]. rewrite (key_eqb_neq _ _ Hk').
      apply assoc_remove_other. exact Hk'.
    + exact Hfd.
  - (* close_ok *)
    intros fd k w Hfd. unfold fs_close. rewrite Hfd. eexists. split; [reflexivity|].
    intros k'. apply look_nodes. reflexivity.
  - (* open_look *)
    intros p w c. unfold fs_open_rb.
    destruct (fs_look (fs_key p) w) as [[|c0]|]; split; intros Heq; try discriminate; congruence.
Qed.

Theorem fs_satisfies_contract : fs_contract fs_runtime fs_key fs_look fs_fd_key fs_tmpdir.
Proof. apply (fs_lim_satisfies_contract max_rw_count). reflexivity. Qed.

(* ---------- consequences for the validated model (no premises left) ---------- *)
Theorem fs_ensure_tree_idempotent path mode w w' :
  ensure_tree fs_runtime path mode w = (w', OOk tt) -> ensure_tree fs_runtime path mode w' = (w', OOk tt).
Proof. exact (ensure_tree_idempotent fs_runtime fs_key fs_look fs_fd_key fs_tmpdir fs_satisfies_contract path mode w w'). Qed.

Theorem fs_delete_if_exists_idempotent path w w' :
  delete_if_exists path fs_unlink w = (w', OOk tt) -> delete_if_exists path fs_unlink w' = (w', OOk tt).
Proof. exact (delete_if_exists_idempotent fs_runtime fs_key fs_look fs_fd_key fs_tmpdir fs_satisfies_contract path w w'). Qed.

(* ---------- concrete instances (non-vacuity of the hypotheses of the main theorems) ---------- *)
Definition ex_world : fsw :=
  mk_fsw [(fs_key (lit "tmp"), NDir); (fs_key (lit "a"), NDir); (fs_key (lit "a/f"), NFile (lit "0123456789"))] [] 3.

(* chunk size 4 over a 10-byte file: chunks 4,4,2; the digest is that of the whole content *)
Example ex_checksum :
  file_chunks 4 (lit "0123456789") = [lit "0123"; lit "4567"; lit "89"] /\
  compute_file_checksum fs_runtime (lit "a/f") 4 (lit "md5") ex_world
  = Some (OOk (lit "md5:0123456789")).
Proof. split; vm_compute; reflexivity. Qed.

Example ex_last_bytes :
  last_bytes fs_runtime (lit "a/f") 3 ex_world = OOk (lit "789", 7) /\
  last_bytes fs_runtime (lit "a/f") 11 ex_world = OOk (lit "0123456789", 0) /\
  last_bytes fs_runtime (lit "a/f") 1099511627776 ex_world = OOk (lit "0123456789", 0).
Proof. repeat split; vm_compute; reflexivity. Qed.

(* a missing nested directory is created, the new file is fresh and holds the content *)
Example ex_write_to_tempfile :
  exists w' name,
    write_to_tempfile fs_runtime (lit "data") (Some (lit "a/b/c")) (lit ".s") (lit "pp") ex_world = (w', OOk name) /\
    fs_look (fs_key name) ex_world = None /\
    fs_look (fs_key name) w' = Some (NFile (lit "data")) /\
    fs_look (fs_key (lit "a/b/c")) w' = Some NDir /\
    fs_look (fs_key (lit "a/f")) w' = Some (NFile (lit "0123456789")).
Proof. eexists. eexists. repeat split; vm_compute; reflexivity. Qed.

(* a regular file at the path: EEXIST is re-raised *)
Example ex_ensure_tree_file :
  snd (ensure_tree fs_runtime (lit "a/f") default_mode ex_world) = OErr (mk_oserror (lit "FileExistsError") errno_EEXIST) /\
  snd (ensure_tree fs_runtime (lit "a") default_mode ex_world) = OOk tt /\
  snd (ensure_tree fs_runtime (lit "a/x/y") default_mode ex_world) = OOk tt /\
  snd (ensure_tree fs_runtime (lit "a/f/y") default_mode ex_world) = OErr (mk_oserror (lit "NotADirectoryError") errno_ENOTDIR).
Proof. repeat split; vm_compute; reflexivity. Qed.

(* the default algorithm of the source is one hashlib.new accepts and whose hexdigest()
   takes no argument (tables of the running interpreter) *)
Theorem default_algorithm_usable :
  str_mem default_algorithm hash_algorithms = true /\ str_mem default_algorithm hash_xof = false.
Proof. split; vm_compute; reflexivity. Qed.

(* fault injection, for EVERY class name and EVERY errno: instances of the two filter theorems
   (e.g. a user-defined OSError subclass carrying ENOENT is swallowed by delete_if_exists, a
   FileNotFoundError whose errno was changed to something else is re-raised) *)
Example ex_inject_every_class_and_errno : forall (cls : bytes) (e : Z) (p : bytes),
  snd (ensure_tree (script_rt (OErr (mk_oserror cls e)) true) p default_mode tt)
    = (if e =? errno_EEXIST then OOk tt else OErr (mk_oserror cls e)) /\
  snd (ensure_tree (script_rt (OErr (mk_oserror cls e)) false) p default_mode tt) = OErr (mk_oserror cls e) /\
  snd (delete_if_exists p (rt_unlink (script_rt (OErr (mk_oserror cls e)) false)) tt)
    = (if e =? errno_ENOENT then OOk tt else OErr (mk_oserror cls e)).
Proof.
  intros cls e p. unfold ensure_tree, delete_if_exists, script_rt. cbn [rt_makedirs rt_isdir rt_unlink snd os_errno].
  rewrite andb_true_r, andb_false_r.
  destruct (e =? errno_EEXIST); destruct (e =? errno_ENOENT); repeat split; reflexivity.
Qed.

(* ---------- short writes (the repaired defect C20-W1) ----------
   Whatever the positive per-call limit of write(2), the loop stores the whole content.
   Instance: at most 3 bytes per write, a 5-byte content (before the repair — one os.write
   whose return value was ignored — the file held "dat"). *)
Theorem fs_write_to_tempfile_any_limit (limit : Z) : 0 < limit ->
  forall content path suffix prefix w w' name,
    write_to_tempfile (fs_runtime_lim limit) content path suffix prefix w = (w', OOk name) ->
    fs_look (fs_key name) w = None /\ fs_look (fs_key name) w' = Some (NFile content).
Proof.
  intros Hl content path suffix prefix w w' name Hrun.
  destruct (write_to_tempfile_spec (fs_runtime_lim limit) fs_key fs_look fs_fd_key fs_tmpdir
              (fs_lim_satisfies_contract limit Hl) content path suffix prefix w w' name Hrun) as [Hfresh [Hcontent _]].
  split; assumption.
Qed.

Example ex_short_writes :
  exists w' name,
    write_to_tempfile (fs_runtime_lim 3) (lit "data!") None [] (lit "tmp") ex_world = (w', OOk name) /\
    fs_look (fs_key name) w' = Some (NFile (lit "data!")).
Proof. eexists. eexists. split; vm_compute; reflexivity. Qed.
