(* Proofs/C04_Multi.v — bounded: four secrets under the same key and rendering in one message *)
Require Import OV.Base.Bytes OV.Base.PyInt OV.Base.Str OV.Base.Regex.
Require Import OV.Model.C04 OV.Model.C04_Spec OV.Model.C04_Sweep.

Lemma family_multi_checked : forallb check_multi family_multi = true.
Proof. vm_cast_no_check (eq_refl true). Qed.

Lemma check_multi_with_spec f z c : check_multi_with f z c = true -> z (fst c) = false ->
  f (fst c) (snd (snd c)) = fst (snd c) /\ f (fst (snd c)) (snd (snd c)) = fst (snd c).
Proof.
  unfold check_multi_with. intros H Hz. rewrite Hz in H. cbn [orb] in H. apply andb_true_iff in H.
  destruct H as [H1 H2]. apply beq_eq in H1, H2. split; assumption.
Qed.

Lemma many_secrets_bounded c : In c family_multi -> in_zone (fst c) = false ->
  mask_password (fst c) (snd (snd c)) = fst (snd c) /\ mask_password (fst (snd c)) (snd (snd c)) = fst (snd c).
Proof.
  intros Hin Hz. pose proof family_multi_checked as H. rewrite forallb_forall in H.
  exact (check_multi_with_spec mask_password in_zone c (H c Hin) Hz).
Qed.

Lemma family_multi_nonvacuous :
  N.of_nat (length family_multi) = 48%N /\
  N.of_nat (length (filter (fun c => negb (in_zone (fst c))) family_multi)) = 36%N.
Proof. vm_compute. split; reflexivity. Qed.
