(* Proofs/C04_Multi.v — bounded: four secrets under the same key and rendering in one message *)
Require Import OV.Base.Bytes OV.Base.PyInt OV.Base.Str OV.Base.Regex.
Require Import OV.Model.C04 OV.Model.C04_Spec OV.Model.C04_Sweep.

Lemma family_multi_checked : forallb check_multi family_multi = true.
Proof. vm_cast_no_check (eq_refl true). Qed.

Lemma check_multi_with_spec f z c : check_multi_with f z c = true -> z (fst c) = false ->
  f (fst c) (snd (snd c)) = fst (snd c) /\ f (fst (snd c)) (snd (snd c)) = fst (snd c).
Proof.
  unfold check_multi_with. intros H Hz. rewrite Hz in H. cbn [orb] in H. apply andb_true_iff in H.
  destruct H as [H1 H2]. apply beq_eq in H1, H2. split; assumption.
Qed.

Lemma many_secrets_bounded c : In c family_multi -> in_zone (fst c) = false ->
  mask_password (fst c) (snd (snd c)) = fst (snd c) /\ mask_password (fst (snd c)) (snd (snd c)) = fst (snd c).
Proof.
  intros Hin Hz. pose proof family_multi_checked as H. rewrite forallb_forall in H.
  exact (check_multi_with_spec mask_password in_zone c (H c Hin) Hz).
Qed.

Lemma family_multi_nonvacuous :
  N.of_nat (length family_multi) = 48%N /\
  N.of_nat (length (filter (fun c => negb (in_zone (fst c))) family_multi)) = 36%N.
Proof. vm_compute. split; reflexivity. Qed.

(* ---------- the empty mask ---------- *)
Require Import OV.Proofs.C04_Bounded.
Lemma family_empty_checked : forallb check_case family_empty = true /\ forallb check_first family_empty_dd = true.
Proof. vm_cast_no_check (conj (eq_refl true) (eq_refl true)). Qed.

Lemma check_first_with_spec f z c : check_first_with f z c = true -> z (case_msg c) = false ->
  f (case_msg c) (case_mask c) = case_want c.
Proof. unfold check_first_with. intros H Hz. rewrite Hz in H. cbn [orb] in H. apply beq_eq in H. exact H. Qed.

Lemma empty_mask_bounded :
  (forall c, In c family_empty -> in_zone (case_msg c) = false ->
     case_mask c = [] /\ mask_password (case_msg c) (case_mask c) = case_want c /\ mask_password (case_want c) (case_mask c) = case_want c) /\
  (forall c, In c family_empty_dd -> in_zone (case_msg c) = false ->
     case_mask c = [] /\ mask_password (case_msg c) (case_mask c) = case_want c) /\
  N.of_nat (length family_empty) = 48%N /\ N.of_nat (length family_empty_dd) = 3%N /\
  forallb (fun c => negb (in_zone (case_msg c))) (family_empty ++ family_empty_dd) = true.
Proof.
  destruct family_empty_checked as [H1 H2]. rewrite forallb_forall in H1, H2.
  assert (M1 : forallb (fun c => beq (case_mask c) []) family_empty = true) by (vm_compute; reflexivity).
  assert (M2 : forallb (fun c => beq (case_mask c) []) family_empty_dd = true) by (vm_compute; reflexivity).
  rewrite forallb_forall in M1, M2.
  split; [|split; [|vm_compute; repeat split; reflexivity]].
  - intros c Hin Hz. pose proof (M1 c Hin) as Hm. apply beq_eq in Hm.
    destruct (check_with_spec mask_password in_zone c (H1 c Hin) Hz) as [A B]. repeat split; assumption.
  - intros c Hin Hz. pose proof (M2 c Hin) as Hm. apply beq_eq in Hm.
    split; [exact Hm|exact (check_first_with_spec mask_password in_zone c (H2 c Hin) Hz)].
Qed.
