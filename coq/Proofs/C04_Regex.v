(* Proofs/C04_Regex.v — generic lemmas about the backtracking matcher of
   Base/Regex.v: the continuation invariant (a successful match consumes a
   prefix and records well-placed groups), the frame lemma for re_sub (text
   outside matches is copied unchanged), the literal-prefix and greedy-run
   lemmas used to evaluate a pattern template on a rendering. *)
Require Import OV.Base.Bytes OV.Base.PyInt OV.Base.Regex.
Open Scope N_scope.

(* ---------- group ids of a regex ---------- *)
Fixpoint gids (r : re) : list nat :=
  match r with
  | Seq a b | Alt a b => gids a ++ gids b
  | Opt a => gids a
  | Group i a => i :: gids a
  | _ => []
  end.

Definition span_ok (ids : list nat) (lo hi : N) (e : nat * (N * N)) : Prop :=
  In (fst e) ids /\ lo <= fst (snd e) /\ fst (snd e) <= snd (snd e) /\ snd (snd e) <= hi.

Lemma span_ok_weaken ids ids' lo lo' hi hi' e :
  span_ok ids lo hi e -> incl ids ids' -> lo' <= lo -> hi <= hi' -> span_ok ids' lo' hi' e.
Proof. unfold span_ok. intros (H1 & H2 & H3 & H4) Hi Hl Hh. repeat split; auto; lia. Qed.

Lemma run_len_le cs s mx : (run_len cs s mx <= length s)%nat.
Proof.
  revert mx. induction s as [|c t IH]; intros mx; cbn [run_len length]; [lia|].
  destruct mx as [[|j]|]; try lia; destruct (cmem c cs); try lia;
    match goal with |- (S (run_len _ _ ?m) <= _)%nat => specialize (IH m); lia end.
Qed.

Lemma try_counts_le R s p g (k : cont R) mn n x :
  try_counts R s p g k mn n = Some x ->
  exists j, (j <= n)%nat /\ k (skipn j s) (p + N.of_nat j) g = Some x.
Proof.
  revert x. induction n as [|n IH]; intros x H; cbn [try_counts] in H.
  - destruct (k (skipn 0 s) (p + N.of_nat 0) g) eqn:E; [|discriminate].
    inversion H; subst. exists 0%nat. auto.
  - destruct (k (skipn (S n) s) (p + N.of_nat (S n)) g) eqn:E.
    + inversion H; subst. exists (S n). auto.
    + destruct (Nat.ltb n mn); [discriminate|].
      destruct (IH _ H) as (j & H1 & H3). exists j. split; [lia|exact H3].
Qed.

(* ---------- the continuation invariant ---------- *)
Lemma m_inv R r : forall s p g (k : cont R) x,
  m R r s p g k = Some x ->
  exists n gs, (n <= length s)%nat /\ k (skipn n s) (p + N.of_nat n) (gs ++ g) = Some x /\
               Forall (span_ok (gids r) p (p + N.of_nat n)) gs.
Proof.
  induction r as [|cs|a IHa b IHb|a IHa b IHb|cs mn mx|a IHa|i a IHa| |]; intros s p g k x H; cbn [m] in H.
  - exists 0%nat, []. cbn. rewrite N.add_0_r. repeat split; auto; lia.
  - destruct s as [|c t]; [discriminate|]. destruct (cmem c cs); [|discriminate].
    exists 1%nat, []. cbn [skipn app length]. repeat split; auto; lia.
  - destruct (IHa _ _ _ _ _ H) as (n1 & gs1 & L1 & K1 & F1).
    destruct (IHb _ _ _ _ _ K1) as (n2 & gs2 & L2 & K2 & F2).
    rewrite skipn_length in L2.
    exists (n1 + n2)%nat, (gs2 ++ gs1). split; [lia|]. split.
    + rewrite skipn_skipn' in K2. rewrite <- app_assoc.
      replace (p + N.of_nat (n1 + n2)) with (p + N.of_nat n1 + N.of_nat n2) by lia. exact K2.
    + apply Forall_app. split; eapply Forall_impl; try eassumption; intros e He; cbn [gids].
      * eapply span_ok_weaken; [exact He|apply incl_appr, incl_refl|lia|lia].
      * eapply span_ok_weaken; [exact He|apply incl_appl, incl_refl|lia|lia].
  - destruct (m R a s p g k) eqn:E.
    + inversion H; subst. destruct (IHa _ _ _ _ _ E) as (n & gs & L & K & F).
      exists n, gs. repeat split; auto. eapply Forall_impl; [|exact F]. intros e He.
      eapply span_ok_weaken; [exact He|cbn [gids]; apply incl_appl, incl_refl|lia|lia].
    + destruct (IHb _ _ _ _ _ H) as (n & gs & L & K & F).
      exists n, gs. repeat split; auto. eapply Forall_impl; [|exact F]. intros e He.
      eapply span_ok_weaken; [exact He|cbn [gids]; apply incl_appr, incl_refl|lia|lia].
  - destruct (Nat.ltb (run_len cs s mx) mn); [discriminate|].
    destruct (try_counts_le _ _ _ _ _ _ _ _ H) as (j & Hj & K).
    pose proof (run_len_le cs s mx).
    exists j, []. repeat split; auto. lia.
  - destruct (m R a s p g k) eqn:E.
    + inversion H; subst. destruct (IHa _ _ _ _ _ E) as (n & gs & L & K & F). exists n, gs. auto.
    + exists 0%nat, []. cbn. rewrite N.add_0_r. repeat split; auto; lia.
  - destruct (IHa _ _ _ _ _ H) as (n & gs & L & K & F).
    exists n, ((i, (p, p + N.of_nat n)) :: gs). split; [exact L|]. split; [exact K|].
    constructor.
    + unfold span_ok. cbn. repeat split; auto; lia.
    + eapply Forall_impl; [|exact F]. intros e He.
      eapply span_ok_weaken; [exact He|cbn [gids]; apply incl_tl, incl_refl|lia|lia].
  - destruct (p =? 0); [|discriminate]. exists 0%nat, []. cbn. rewrite N.add_0_r. repeat split; auto; lia.
  - exists 0%nat, []. cbn. rewrite N.add_0_r. split; [lia|]. split; [|constructor].
    destruct s as [|c l]; [exact H|].
    destruct c as [|q]; [discriminate|].
    repeat (destruct q as [q|q|]; try discriminate H). destruct l; [exact H|discriminate].
Qed.

Lemma match_at_inv r s p e g :
  match_at r s p = Some (e, g) ->
  exists n, (n <= length s)%nat /\ e = p + N.of_nat n /\ Forall (span_ok (gids r) p e) g.
Proof.
  unfold match_at. intros H. destruct (m_inv _ _ _ _ _ _ _ H) as (n & gs & L & K & F).
  inversion K; subst. rewrite app_nil_r. exists n. auto.
Qed.

(* ---------- re_sub: frame ---------- *)

Lemma sub_go_skip r t whole : forall s p k,
  sub_go r t whole s p k = sub_go r t whole (skipn k s) (p + N.of_nat k) 0.
Proof.
  induction s as [|c rest IH]; intros p k.
  - rewrite skipn_nil. reflexivity.
  - destruct k as [|k].
    + cbn [skipn]. rewrite N.add_0_r. reflexivity.
    + cbn [sub_go skipn]. rewrite IH. f_equal. lia.
Qed.

(* what re_sub computes, as a relation: p is the offset of [s] in [whole] *)
Inductive sub_rel (r : re) (t : list titem) (whole : str) : N -> str -> str -> Prop :=
| sr_nil p : sub_rel r t whole p [] []
| sr_copy p c rest out :
    (match_at r (c :: rest) p = None \/ exists g, match_at r (c :: rest) p = Some (p, g)) ->
    sub_rel r t whole (p + 1) rest out ->
    sub_rel r t whole p (c :: rest) (c :: out)
| sr_match p s n g out :
    (0 < n)%nat -> (n <= length s)%nat ->
    match_at r s p = Some (p + N.of_nat n, g) ->
    sub_rel r t whole (p + N.of_nat n) (skipn n s) out ->
    sub_rel r t whole p s (expand t whole g ++ out).

Lemma sub_go_rel r t whole : forall len s p, (length s <= len)%nat ->
  sub_rel r t whole p s (sub_go r t whole s p 0).
Proof.
  induction len as [|len IH]; intros s p L.
  - destruct s; [constructor|cbn in L; lia].
  - destruct s as [|c rest]; [constructor|]. cbn [length] in L. cbn [sub_go].
    destruct (match_at r (c :: rest) p) as [[e g]|] eqn:E.
    + destruct (match_at_inv _ _ _ _ _ E) as (n & Ln & -> & _).
      destruct (p <? p + N.of_nat n) eqn:Lt.
      * apply N.ltb_lt in Lt.
        rewrite sub_go_skip.
        replace (N.to_nat (p + N.of_nat n - p) - 1)%nat with (n - 1)%nat by lia.
        destruct n as [|n]; [lia|].
        replace (S n - 1)%nat with n by lia.
        replace (p + 1 + N.of_nat n) with (p + N.of_nat (S n)) by lia.
        apply sr_match with (n := S n); auto; try lia.
        cbn [skipn]. apply IH. rewrite skipn_length. cbn [length] in Ln. lia.
      * apply N.ltb_ge in Lt. assert (n = 0)%nat by lia. subst n.
        apply sr_copy; [right; exists g; rewrite E; f_equal; f_equal; lia|]. apply IH. lia.
    + apply sr_copy; [left; exact E|]. apply IH. lia.
Qed.

(* re_sub only replaces matched spans: every character outside a non-empty match is copied *)
Theorem re_sub_frame r t s : sub_rel r t s 0 s (re_sub r t s).
Proof. unfold re_sub. apply sub_go_rel with (len := length s). lia. Qed.

(* ---------- slices of the subject ---------- *)
Lemma slice_suffix pre s a b : a <= b ->
  slice (pre ++ s) (blen pre + a) (blen pre + b) = firstn (N.to_nat (b - a)) (skipn (N.to_nat a) s).
Proof.
  intros H. unfold slice, bsub, btake, bskip.
  replace (blen pre + b - (blen pre + a)) with (b - a) by lia. f_equal.
  unfold blen. rewrite skipn_app.
  replace (N.to_nat (N.of_nat (length pre) + a) - length pre)%nat with (N.to_nat a) by lia.
  rewrite skipn_all2 by lia. reflexivity.
Qed.

Lemma slice_suffix0 pre s b :
  slice (pre ++ s) (blen pre) (blen pre + b) = firstn (N.to_nat b) s.
Proof.
  pose proof (slice_suffix pre s 0 b ltac:(lia)) as H. rewrite N.add_0_r, N.sub_0_r in H. exact H.
Qed.

(* ---------- two-group patterns: (G1) X (G2) ---------- *)
Definition no_gid (i : nat) (r : re) : bool := negb (existsb (Nat.eqb i) (gids r)).

Definition two_group_shape (r : re) : bool :=
  match r with
  | Seq (Group 1%nat a) (Seq x (Group 2%nat b)) => no_gid 1 x && no_gid 1 b
  | _ => false
  end.
Definition one_group_shape (r : re) : bool :=
  match r with
  | Seq (Group 1%nat a) x => no_gid 1 x
  | _ => false
  end.

Lemma gget_skip (gs g : groups) i ids lo hi :
  Forall (span_ok ids lo hi) gs -> ~ In i ids -> gget (gs ++ g) i = gget g i.
Proof.
  induction 1 as [|[j v] gs He _ IH]; intros Hn; [reflexivity|]. cbn [app gget].
  destruct (Nat.eqb i j) eqn:E; [|auto]. apply Nat.eqb_eq in E. subst. destruct He as (Hi & _). cbn in Hi. tauto.
Qed.

Lemma no_gid_notin i r : no_gid i r = true -> ~ In i (gids r).
Proof.
  unfold no_gid. intros H Hin. apply negb_true_iff in H.
  assert (existsb (Nat.eqb i) (gids r) = true); [|congruence].
  apply existsb_exists. exists i. split; [exact Hin|apply Nat.eqb_refl].
Qed.

Lemma two_group_match r s p e g :
  two_group_shape r = true -> match_at r s p = Some (e, g) ->
  exists n1 n2 n3, (n1 + n2 + n3 <= length s)%nat /\ e = p + N.of_nat (n1 + n2 + n3) /\
    gget g 1 = Some (p, p + N.of_nat n1) /\
    gget g 2 = Some (p + N.of_nat (n1 + n2), p + N.of_nat (n1 + n2 + n3)).
Proof.
  intros Hs H. destruct r as [| |r1 r2| | | | | |]; try discriminate.
  destruct r1 as [| | | | | |i a| |]; try discriminate. destruct i as [|[|i]]; try discriminate.
  destruct r2 as [| |x r3| | | | | |]; try discriminate.
  destruct r3 as [| | | | | |j b| |]; try discriminate. destruct j as [|[|[|j]]]; try discriminate.
  cbn [two_group_shape] in Hs. apply andb_true_iff in Hs. destruct Hs as [Hx Hb].
  apply no_gid_notin in Hx. apply no_gid_notin in Hb.
  unfold match_at in H. cbn [m] in H.
  destruct (m_inv _ _ _ _ _ _ _ H) as (n1 & gs1 & L1 & K1 & F1). clear H. cbn beta in K1.
  destruct (m_inv _ _ _ _ _ _ _ K1) as (n2 & gs2 & L2 & K2 & F2). clear K1. cbn beta in K2.
  destruct (m_inv _ _ _ _ _ _ _ K2) as (n3 & gs3 & L3 & K3 & F3). clear K2. cbn beta in K3.
  inversion K3; subst; clear K3.
  rewrite !skipn_length in *.
  exists n1, n2, n3. split; [lia|]. split; [lia|]. split.
  - cbn [gget Nat.eqb].
    rewrite (gget_skip gs3 _ 1 _ _ _ F3 Hb). rewrite (gget_skip gs2 _ 1 _ _ _ F2 Hx).
    cbn [gget Nat.eqb]. reflexivity.
  - cbn [gget Nat.eqb]. f_equal. f_equal; lia.
Qed.

Lemma one_group_match r s p e g :
  one_group_shape r = true -> match_at r s p = Some (e, g) ->
  exists n1 n2, (n1 + n2 <= length s)%nat /\ e = p + N.of_nat (n1 + n2) /\
    gget g 1 = Some (p, p + N.of_nat n1).
Proof.
  intros Hs H. destruct r as [| |r1 x| | | | | |]; try discriminate.
  destruct r1 as [| | | | | |i a| |]; try discriminate. destruct i as [|[|i]]; try discriminate.
  cbn [one_group_shape] in Hs. apply no_gid_notin in Hs.
  unfold match_at in H. cbn [m] in H.
  destruct (m_inv _ _ _ _ _ _ _ H) as (n1 & gs1 & L1 & K1 & F1). clear H. cbn beta in K1.
  destruct (m_inv _ _ _ _ _ _ _ K1) as (n2 & gs2 & L2 & K2 & F2). clear K1. cbn beta in K2.
  inversion K2; subst; clear K2. rewrite !skipn_length in *.
  exists n1, n2. split; [lia|]. split; [lia|].
  rewrite (gget_skip gs2 _ 1 _ _ _ F2 Hs). cbn [gget Nat.eqb]. reflexivity.
Qed.

(* replacement templates of mask_password *)
Definition t2 (secret : str) : list titem := [TGrp 1] ++ map TLit secret ++ [TGrp 2].
Definition t1 (secret : str) : list titem := [TGrp 1] ++ map TLit secret.
Definition tw : list titem := [TGrp 1].

Lemma expand_lits secret whole g rest :
  expand (map TLit secret ++ rest) whole g = secret ++ expand rest whole g.
Proof. induction secret as [|c t IH]; cbn; [reflexivity|]. f_equal. exact IH. Qed.

(* the frame relation for a substitution with \g<1> secret \g<2>: a replaced span is
   g1 ++ v ++ g2 and becomes g1 ++ secret ++ g2 — only the text between the two groups changes *)
Inductive sub2_rel (r : re) (secret : str) : N -> str -> str -> Prop :=
| s2_nil p : sub2_rel r secret p [] []
| s2_copy p c rest out : sub2_rel r secret (p + 1) rest out -> sub2_rel r secret p (c :: rest) (c :: out)
| s2_match p g1 v g2 rest out grp :
    g1 ++ v ++ g2 <> [] ->
    match_at r (g1 ++ v ++ g2 ++ rest) p = Some (p + blen (g1 ++ v ++ g2), grp) ->
    sub2_rel r secret (p + blen (g1 ++ v ++ g2)) rest out ->
    sub2_rel r secret p (g1 ++ v ++ g2 ++ rest) (g1 ++ secret ++ g2 ++ out).

Lemma firstn_skipn_split3 {A} (s : list A) n1 n2 n3 : (n1 + n2 + n3 <= length s)%nat ->
  s = firstn n1 s ++ firstn n2 (skipn n1 s) ++ firstn n3 (skipn (n1 + n2) s) ++ skipn (n1 + n2 + n3) s.
Proof.
  intros H. rewrite <- (firstn_skipn n1 s) at 1. f_equal.
  rewrite <- (firstn_skipn n2 (skipn n1 s)) at 1. f_equal.
  rewrite skipn_skipn'. rewrite <- (firstn_skipn n3 (skipn (n1 + n2) s)) at 1. f_equal.
  rewrite skipn_skipn'. reflexivity.
Qed.

Lemma expand_t2 whole g secret a b c d :
  gget g 1 = Some (a, b) -> gget g 2 = Some (c, d) ->
  expand (t2 secret) whole g = slice whole a b ++ secret ++ slice whole c d.
Proof.
  intros H1 H2. unfold t2. cbn [app expand]. rewrite H1. f_equal.
  rewrite expand_lits. cbn [expand]. rewrite H2, app_nil_r. reflexivity.
Qed.

Lemma sub_rel_two r secret : two_group_shape r = true ->
  forall whole p s out, sub_rel r (t2 secret) whole p s out ->
  forall pre, whole = pre ++ s -> p = blen pre -> sub2_rel r secret p s out.
Proof.
  intros Hs whole p s out H.
  induction H as [p|p c rest out Hm H IH|p s n g out Hn Ln Hm H IH]; intros pre Hw Hp.
  - constructor.
  - constructor. apply (IH (pre ++ [c])); [rewrite <- app_assoc; exact Hw|rewrite blen_app, Hp; cbn; lia].
  - destruct (two_group_match _ _ _ _ _ Hs Hm) as (n1 & n2 & n3 & L & He & G1 & G2).
    assert (n = (n1 + n2 + n3)%nat) by lia. subst n.
    rewrite (expand_t2 _ _ _ _ _ _ _ G1 G2).
    subst whole. subst p.
    rewrite (slice_suffix0 pre s (N.of_nat n1)).
    rewrite (slice_suffix pre s (N.of_nat (n1 + n2)) (N.of_nat (n1 + n2 + n3))) by lia.
    replace (N.to_nat (N.of_nat n1)) with n1 by lia.
    replace (N.to_nat (N.of_nat (n1 + n2 + n3) - N.of_nat (n1 + n2))) with n3 by lia.
    replace (N.to_nat (N.of_nat (n1 + n2))) with (n1 + n2)%nat by lia.
    pose proof (firstn_skipn_split3 s n1 n2 n3 L) as Es.
    remember (firstn n1 s) as g1 eqn:E1. remember (firstn n2 (skipn n1 s)) as v eqn:E2.
    remember (firstn n3 (skipn (n1 + n2) s)) as g2 eqn:E3. remember (skipn (n1 + n2 + n3) s) as rest eqn:E4.
    assert (Lg1 : length g1 = n1) by (subst g1; rewrite firstn_length; lia).
    assert (Lv : length v = n2) by (subst v; rewrite firstn_length, skipn_length; lia).
    assert (Lg2 : length g2 = n3) by (subst g2; rewrite firstn_length, skipn_length; lia).
    assert (Lb : blen (g1 ++ v ++ g2) = N.of_nat (n1 + n2 + n3)).
    { unfold blen. rewrite !app_length. lia. }
    clear E1 E2 E3 E4. subst s.
    repeat rewrite <- app_assoc.
    apply s2_match with (grp := g).
    + intros E. apply (f_equal (@length _)) in E. rewrite !app_length in E. cbn in E. lia.
    + rewrite Lb. exact Hm.
    + rewrite Lb. apply (IH (pre ++ g1 ++ v ++ g2)).
      * rewrite <- !app_assoc. reflexivity.
      * rewrite blen_app, Lb. reflexivity.
Qed.

(* re_sub with the two-group template changes only the text between group 1 and group 2 of each match *)
Theorem re_sub_frame_two r secret s : two_group_shape r = true ->
  sub2_rel r secret 0 s (re_sub r (t2 secret) s).
Proof.
  intros Hs. apply (sub_rel_two r secret Hs s 0 s _ (re_sub_frame r (t2 secret) s) []); reflexivity.
Qed.

(* one group: a replaced span g1 ++ v becomes g1 ++ secret (template \g<1>secret) or g1 (template \g<1>) *)
Inductive sub1_rel (r : re) (ins : str) : N -> str -> str -> Prop :=
| s1_nil p : sub1_rel r ins p [] []
| s1_copy p c rest out : sub1_rel r ins (p + 1) rest out -> sub1_rel r ins p (c :: rest) (c :: out)
| s1_match p g1 v rest out grp :
    g1 ++ v <> [] ->
    match_at r (g1 ++ v ++ rest) p = Some (p + blen (g1 ++ v), grp) ->
    sub1_rel r ins (p + blen (g1 ++ v)) rest out ->
    sub1_rel r ins p (g1 ++ v ++ rest) (g1 ++ ins ++ out).

Lemma sub_rel_one r (t : list titem) ins : one_group_shape r = true ->
  (forall whole g, expand t whole g = match gget g 1 with Some (a, b) => slice whole a b | None => [] end ++ ins) ->
  forall whole p s out, sub_rel r t whole p s out ->
  forall pre, whole = pre ++ s -> p = blen pre -> sub1_rel r ins p s out.
Proof.
  intros Hs Ht whole p s out H.
  induction H as [p|p c rest out Hm H IH|p s n g out Hn Ln Hm H IH]; intros pre Hw Hp.
  - constructor.
  - constructor. apply (IH (pre ++ [c])); [rewrite <- app_assoc; exact Hw|rewrite blen_app, Hp; cbn; lia].
  - destruct (one_group_match _ _ _ _ _ Hs Hm) as (n1 & n2 & L & He & G1).
    assert (n = (n1 + n2)%nat) by lia. subst n.
    rewrite Ht, G1. subst whole. subst p.
    rewrite (slice_suffix0 pre s (N.of_nat n1)).
    replace (N.to_nat (N.of_nat n1)) with n1 by lia.
    assert (Es : s = firstn n1 s ++ firstn n2 (skipn n1 s) ++ skipn (n1 + n2) s).
    { rewrite <- (firstn_skipn n1 s) at 1. f_equal. rewrite <- (firstn_skipn n2 (skipn n1 s)) at 1. f_equal.
      apply skipn_skipn'. }
    remember (firstn n1 s) as g1 eqn:E1. remember (firstn n2 (skipn n1 s)) as v eqn:E2.
    remember (skipn (n1 + n2) s) as rest eqn:E4.
    assert (Lg1 : length g1 = n1) by (subst g1; rewrite firstn_length; lia).
    assert (Lv : length v = n2) by (subst v; rewrite firstn_length, skipn_length; lia).
    assert (Lb : blen (g1 ++ v) = N.of_nat (n1 + n2)).
    { unfold blen. rewrite !app_length. lia. }
    clear E1 E2 E4. subst s. repeat rewrite <- app_assoc.
    apply s1_match with (grp := g).
    + intros E. apply (f_equal (@length _)) in E. rewrite !app_length in E. cbn in E. lia.
    + rewrite Lb. exact Hm.
    + rewrite Lb. apply (IH (pre ++ g1 ++ v)).
      * rewrite <- !app_assoc. reflexivity.
      * rewrite blen_app, Lb. reflexivity.
Qed.

Theorem re_sub_frame_one r secret s : one_group_shape r = true ->
  sub1_rel r secret 0 s (re_sub r (t1 secret) s).
Proof.
  intros Hs. apply (sub_rel_one r (t1 secret) secret Hs) with (whole := s) (pre := []); try reflexivity.
  - intros whole g. unfold t1. cbn [app expand]. f_equal. rewrite <- (app_nil_r (map TLit secret)).
    rewrite expand_lits. cbn. apply app_nil_r.
  - apply re_sub_frame.
Qed.

(* the wildcard substitution (\g<1> alone) DELETES whatever the pattern matched after group 1 *)
Theorem re_sub_frame_wild r s : one_group_shape r = true ->
  sub1_rel r [] 0 s (re_sub r tw s).
Proof.
  intros Hs. apply (sub_rel_one r tw [] Hs) with (whole := s) (pre := []); try reflexivity.
  apply re_sub_frame.
Qed.

(* ====================================================================== *)
(* Evaluating a pattern on a string built the way the pattern reads it     *)
(* ====================================================================== *)
Require Import OV.Base.C04_Tmpl.

Definition hd_notin (cs : cset) (s : str) : bool :=
  match s with [] => true | c :: _ => negb (cmem c cs) end.
Definition all_in (cs : cset) (v : str) : bool := forallb (fun c => cmem c cs) v.
Definition within (n : nat) (mx : option nat) : bool :=
  match mx with None => true | Some j => Nat.leb n j end.

Lemma run_len_exact cs v rest mx :
  all_in cs v = true -> within (length v) mx = true ->
  (hd_notin cs rest = true \/ mx = Some (length v)) ->
  run_len cs (v ++ rest) mx = length v.
Proof.
  revert mx. induction v as [|c t IH]; intros mx Hv Hw Hr.
  - cbn [app length]. destruct rest as [|c r]; [reflexivity|]. cbn [run_len].
    destruct Hr as [Hr| ->]; [|reflexivity].
    cbn in Hr. apply negb_true_iff in Hr. rewrite Hr. destruct mx as [[|j]|]; reflexivity.
  - cbn [all_in forallb] in Hv. apply andb_true_iff in Hv. destruct Hv as [Hc Ht].
    cbn [app run_len length]. rewrite Hc.
    destruct mx as [[|j]|].
    + cbn in Hw. discriminate.
    + f_equal. apply IH; auto. cbn [option_map pred]. destruct Hr as [Hr|Hr]; [left; exact Hr|right].
      inversion Hr. reflexivity.
    + f_equal. apply IH; auto. destruct Hr as [Hr|Hr]; [left; exact Hr|discriminate].
Qed.

Lemma try_counts_first R s p g (k : cont R) mn n x :
  k (skipn n s) (p + N.of_nat n) g = Some x -> try_counts R s p g k mn n = Some x.
Proof. intros H. destruct n; cbn [try_counts]; rewrite H; reflexivity. Qed.

Lemma skipn_app_exact {A} (v rest : list A) : skipn (length v) (v ++ rest) = rest.
Proof. induction v; cbn; auto. Qed.

(* greedy-run lemma: a Rep over a run that is maximal (the next character is outside the
   set, or the bound is reached) takes the whole run on its first attempt *)
Lemma m_rep_max R cs mn mx v rest p g (k : cont R) x :
  all_in cs v = true -> (mn <= length v)%nat -> within (length v) mx = true ->
  (hd_notin cs rest = true \/ mx = Some (length v)) ->
  k rest (p + blen v) g = Some x ->
  m R (Rep cs mn mx) (v ++ rest) p g k = Some x.
Proof.
  intros Hv Hmn Hw Hr Hk. cbn [m]. rewrite (run_len_exact cs v rest mx Hv Hw Hr).
  replace (Nat.ltb (length v) mn) with false by (symmetry; apply Nat.ltb_ge; lia).
  apply try_counts_first. rewrite skipn_app_exact. exact Hk.
Qed.

(* literal-prefix lemma: the key, in any accepted casing, is consumed character by character *)
Definition casing_ok (tbl : list (N * cset)) (k K : str) : Prop :=
  Forall2 (fun c C => cmem C (ci_lookup tbl c) = true) k K.

Lemma m_keyseq R tbl k K : casing_ok tbl k K -> forall rest s p g (kont : cont R),
  m R (keyseq tbl k rest) (K ++ s) p g kont = m R rest s (p + blen K) g kont.
Proof.
  induction 1 as [|c C k K Hc _ IH]; intros rest s p g kont.
  - cbn. rewrite N.add_0_r. reflexivity.
  - cbn [keyseq app m]. rewrite Hc. rewrite IH. f_equal. rewrite blen_cons. lia.
Qed.

(* the "reads as" relation: gm r pre s pre' s' G — starting after the prefix [pre] of the
   subject, r consumes [s] down to [s'] (the consumed text is appended to pre giving pre'),
   every Rep taking a maximal run, recording the groups G *)
Inductive gm (tbl : list (N * cset)) : re -> str -> str -> str -> str -> groups -> Prop :=
| gm_eps pre s : gm tbl Eps pre s pre s []
| gm_chr cs c pre rest : cmem c cs = true -> gm tbl (Chr cs) pre (c :: rest) (pre ++ [c]) rest []
| gm_seq a b pre s pre1 s1 pre2 s2 G1 G2 :
    gm tbl a pre s pre1 s1 G1 -> gm tbl b pre1 s1 pre2 s2 G2 -> gm tbl (Seq a b) pre s pre2 s2 (G2 ++ G1)
| gm_rep cs mn mx v pre rest :
    all_in cs v = true -> (mn <= length v)%nat -> within (length v) mx = true ->
    (hd_notin cs rest = true \/ mx = Some (length v)) ->
    gm tbl (Rep cs mn mx) pre (v ++ rest) (pre ++ v) rest []
| gm_group i a pre s pre' s' G :
    gm tbl a pre s pre' s' G -> gm tbl (Group i a) pre s pre' s' ((i, (blen pre, blen pre')) :: G)
| gm_key k K r' pre s pre' s' G :
    casing_ok tbl k K -> gm tbl r' (pre ++ K) s pre' s' G -> gm tbl (keyseq tbl k r') pre (K ++ s) pre' s' G.

Lemma gm_sound R tbl r pre s pre' s' G : gm tbl r pre s pre' s' G ->
  forall g (k : cont R) x, k s' (blen pre') (G ++ g) = Some x -> m R r s (blen pre) g k = Some x.
Proof.
  induction 1 as [pre s|cs c pre rest Hc|a b pre s pre1 s1 pre2 s2 G1 G2 Ha IHa Hb IHb
                  |cs mn mx v pre rest Hv Hmn Hw Hr|i a pre s pre' s' G Ha IHa|k K r' pre s pre' s' G Hk Hr IH];
    intros g kont x Hx.
  - exact Hx.
  - cbn [m]. rewrite Hc. rewrite blen_app in Hx. exact Hx.
  - cbn [m]. apply IHa. apply IHb. rewrite <- app_assoc in Hx. exact Hx.
  - apply m_rep_max; auto. rewrite blen_app in Hx. exact Hx.
  - cbn [m]. apply IHa. exact Hx.
  - rewrite (m_keyseq R tbl k K Hk). rewrite <- blen_app. apply IH. exact Hx.
Qed.

Lemma gm_match_at tbl r s pre' G : gm tbl r [] s pre' [] G -> match_at r s 0 = Some (blen pre', G).
Proof.
  intros H. unfold match_at. apply (gm_sound _ tbl r [] s pre' [] G H [] _ _). rewrite app_nil_r. reflexivity.
Qed.

(* a match of the whole (non-empty) subject: re_sub returns the expanded template *)
Lemma re_sub_whole r t s g : s <> [] -> match_at r s 0 = Some (blen s, g) -> re_sub r t s = expand t s g.
Proof.
  intros Hs H. unfold re_sub. destruct s as [|c rest]; [congruence|]. cbn [sub_go]. rewrite H.
  rewrite blen_cons. replace (0 <? 1 + blen rest) with true by lia.
  rewrite sub_go_skip. replace (N.to_nat (1 + blen rest - 0) - 1)%nat with (length rest) by (unfold blen; lia).
  rewrite skipn_all. cbn [sub_go]. apply app_nil_r.
Qed.

Lemma slice_mid a b c : slice (a ++ b ++ c) (blen a) (blen (a ++ b)) = b.
Proof.
  rewrite blen_app. rewrite slice_suffix0. replace (N.to_nat (blen b)) with (length b) by (unfold blen; lia).
  rewrite firstn_app, firstn_all, Nat.sub_diag. cbn. apply app_nil_r.
Qed.
Lemma slice_head a c : slice (a ++ c) 0 (blen a) = a.
Proof. apply (slice_mid [] a c). Qed.
Lemma slice_tail a c : slice (a ++ c) (blen a) (blen (a ++ c)) = c.
Proof. pose proof (slice_mid a c []) as H. rewrite app_nil_r in H. exact H. Qed.

(* the two ways the rendering theorems conclude *)
Lemma gm_sub_two tbl r h v t mask G :
  gm tbl r [] (h ++ v ++ t) (h ++ v ++ t) [] G -> h ++ v ++ t <> [] ->
  gget G 1 = Some (0, blen h) -> gget G 2 = Some (blen (h ++ v), blen (h ++ v ++ t)) ->
  re_sub r (t2 mask) (h ++ v ++ t) = h ++ mask ++ t.
Proof.
  intros H Hne G1 G2. rewrite (re_sub_whole r _ _ G Hne (gm_match_at _ _ _ _ _ H)).
  rewrite (expand_t2 _ _ _ _ _ _ _ G1 G2). rewrite slice_head. f_equal. f_equal.
  rewrite (app_assoc h v t). apply slice_tail.
Qed.

Lemma gm_sub_one tbl r h v mask G :
  gm tbl r [] (h ++ v) (h ++ v) [] G -> h ++ v <> [] ->
  gget G 1 = Some (0, blen h) ->
  re_sub r (t1 mask) (h ++ v) = h ++ mask.
Proof.
  intros H Hne G1. rewrite (re_sub_whole r _ _ G Hne (gm_match_at _ _ _ _ _ H)).
  unfold t1. cbn [app expand]. rewrite G1, slice_head. f_equal.
  rewrite <- (app_nil_r (map TLit mask)). rewrite expand_lits. cbn. apply app_nil_r.
Qed.

(* ---------- side conditions on character sets ---------- *)
Definition range_disj (a b : N * N) : bool := (snd a <? fst b) || (snd b <? fst a).
Definition cset_disj (a b : cset) : bool := forallb (fun x => forallb (range_disj x) b) a.

Lemma cset_disj_sound a b c : cset_disj a b = true -> cmem c a = true -> cmem c b = false.
Proof.
  unfold cset_disj. intros H Ha. induction a as [|[lo hi] a IH]; [discriminate|].
  cbn [forallb] in H. apply andb_true_iff in H. destruct H as [H1 H2].
  cbn [cmem] in Ha. apply orb_true_iff in Ha. destruct Ha as [Ha|Ha]; [|auto].
  clear IH H2. induction b as [|[lo' hi'] b IH]; [reflexivity|].
  cbn [forallb] in H1. apply andb_true_iff in H1. destruct H1 as [H1 H3].
  cbn [cmem]. rewrite (IH H3), orb_false_r. unfold range_disj in H1. cbn [fst snd] in H1. lia.
Qed.

Lemma hd_notin_run cs cs' w rest :
  all_in cs' w = true -> cset_disj cs' cs = true -> hd_notin cs rest = true -> hd_notin cs (w ++ rest) = true.
Proof.
  intros Hw Hd Hr. destruct w as [|c w]; [exact Hr|]. cbn [app hd_notin].
  cbn [all_in forallb] in Hw. apply andb_true_iff in Hw. destruct Hw as [Hc _].
  rewrite (cset_disj_sound _ _ _ Hd Hc). reflexivity.
Qed.

(* cover check: every code point of [lo, lo + fuel) up to hi lies in the set *)
Fixpoint find_hi (c : N) (l : cset) : option N :=
  match l with
  | [] => None
  | (lo, hi) :: t => if (lo <=? c) && (c <=? hi) then Some hi else find_hi c t
  end.
Fixpoint covers (fuel : nat) (l : cset) (x hi : N) : bool :=
  if hi <? x then true else
  match fuel with
  | O => false
  | S f => match find_hi x l with Some h => covers f l (h + 1) hi | None => false end
  end.

Lemma find_hi_sound c l h : find_hi c l = Some h -> c <= h /\ forall d, c <= d <= h -> cmem d l = true.
Proof.
  induction l as [|[lo hi] t IH]; [discriminate|]. cbn [find_hi cmem].
  destruct ((lo <=? c) && (c <=? hi)) eqn:E.
  - intros H. inversion H; subst. split; [lia|]. intros d Hd. replace ((lo <=? d) && (d <=? h)) with true by lia. reflexivity.
  - intros H. destruct (IH H) as [H1 H2]. split; [exact H1|]. intros d Hd. rewrite (H2 d Hd). apply orb_true_r.
Qed.

Lemma covers_sound fuel l : forall x hi, covers fuel l x hi = true -> forall d, x <= d <= hi -> cmem d l = true.
Proof.
  induction fuel as [|f IH]; intros x hi H d Hd; cbn [covers] in H.
  - destruct (hi <? x) eqn:E; [lia|discriminate].
  - destruct (hi <? x) eqn:E; [lia|]. destruct (find_hi x l) as [h|] eqn:F; [|discriminate].
    destruct (find_hi_sound _ _ _ F) as [H1 H2].
    destruct (N.le_gt_cases d h); [apply H2; lia|]. apply (IH _ _ H). lia.
Qed.

Lemma cmem_app c a b : cmem c (a ++ b) = cmem c a || cmem c b.
Proof. induction a as [|[lo hi] a IH]; [reflexivity|]. cbn [app cmem]. rewrite IH. apply orb_assoc. Qed.

Lemma all_in_impl (P : N -> bool) cs v :
  (forall c, P c = true -> cmem c cs = true) -> forallb P v = true -> all_in cs v = true.
Proof.
  intros H. unfold all_in. induction v as [|c v IH]; [reflexivity|]. cbn [forallb]. intros Hv.
  apply andb_true_iff in Hv. destruct Hv as [H1 H2]. rewrite (H _ H1), (IH H2). reflexivity.
Qed.

Lemma hd_notin_run1 cs cs' w rest :
  all_in cs' w = true -> (1 <= length w)%nat -> cset_disj cs' cs = true -> hd_notin cs (w ++ rest) = true.
Proof.
  intros Hw Hl Hd. destruct w as [|c w]; [cbn in Hl; lia|]. cbn [app hd_notin].
  cbn [all_in forallb] in Hw. apply andb_true_iff in Hw. destruct Hw as [Hc _].
  rewrite (cset_disj_sound _ _ _ Hd Hc). reflexivity.
Qed.

Lemma hd_notin_sym cs cs' c rest : cmem c cs' = true -> cset_disj cs' cs = true -> hd_notin cs (c :: rest) = true.
Proof. intros Hc Hd. cbn [hd_notin]. rewrite (cset_disj_sound _ _ _ Hd Hc). reflexivity. Qed.

(* concluding lemmas in the form the derivation tactic produces (left-nested prefixes) *)
Lemma gm_sub_two' tbl r s out pre' h h1 v hv t pre'' mask G :
  gm tbl r [] s pre' [] G -> pre' = s -> s = h ++ v ++ t -> out = h ++ mask ++ t -> s <> [] ->
  gget G 1 = Some (blen (@nil N), blen h1) -> h1 = h ->
  gget G 2 = Some (blen hv, blen pre'') -> hv = h ++ v -> pre'' = s ->
  re_sub r (t2 mask) s = out.
Proof.
  intros H -> -> -> Hne G1 -> G2 -> ->. apply (gm_sub_two tbl r h v t mask G); auto.
Qed.

Lemma gm_sub_one' tbl r s out pre' h h1 v mask G :
  gm tbl r [] s pre' [] G -> pre' = s -> s = h ++ v -> out = h ++ mask -> s <> [] ->
  gget G 1 = Some (blen (@nil N), blen h1) -> h1 = h ->
  re_sub r (t1 mask) s = out.
Proof.
  intros H -> -> -> Hne G1 ->. apply (gm_sub_one tbl r h v mask G); auto.
Qed.

Ltac vmr := vm_compute; reflexivity.
Ltac solve_allin :=
  lazymatch goal with
  | |- all_in _ ?v = true =>
      first [ match goal with H : all_in _ v = true |- _ => exact H end | vmr ]
  end.
Ltac solve_len :=
  first [ apply Nat.le_0_l | assumption | solve [cbn [length]; repeat constructor] ].
Ltac solve_hd :=
  lazymatch goal with
  | |- hd_notin _ [] = true => reflexivity
  | |- hd_notin _ (_ ++ _) = true =>
      first [ eapply hd_notin_run1; [solve_allin | solve_len | vmr]
            | eapply hd_notin_run; [solve_allin | vmr | solve_hd] ]
  | |- hd_notin _ (?c :: _) = true =>
      first [ vmr
            | match goal with H : cmem c _ = true |- _ => eapply hd_notin_sym; [exact H | vmr] end ]
  end.
Ltac solve_within :=
  first [ reflexivity | apply Nat.leb_le; solve_len ].
Ltac gm_go :=
  lazymatch goal with
  | |- gm _ (Seq _ _) _ _ _ _ _ => eapply gm_seq; [gm_go | gm_go]
  | |- gm _ (Group _ _) _ _ _ _ _ => eapply gm_group; gm_go
  | |- gm _ (keyseq _ _ _) _ _ _ _ _ => eapply gm_key; [eassumption | gm_go]
  | |- gm _ (Chr _) _ _ _ _ _ =>
      eapply gm_chr; first [ vmr | eassumption ]
  | |- gm _ (Rep _ _ _) _ _ _ _ _ =>
      eapply gm_rep; [ solve_allin | solve_len | solve_within | first [ left; solve_hd | right; reflexivity ] ]
  end.
Ltac norm_app := repeat rewrite <- app_assoc; cbn [app]; rewrite ?app_nil_r; reflexivity.
